(* C04: the model's own run passes the complete per-step checker c04_step, on the generator's
   domain (c04_domain). *)
From VT Require Export Server.Events Server.Lifecycle.
From Coq Require Import Lia.
Open Scope N_scope.
Notation wild := Server.star (only parsing).

(* ------------------------------------------------------------------ *)
(* the disconnect dispatch of one client: which calls it makes          *)
(* ------------------------------------------------------------------ *)
Definition chunk (c : cfg) (n x : str) (r : pv) : list (N * list pv) :=
  calls_of (fst (te_pure c ev_disconnect n [PStr x; r])).
Definition is_disc_handler (c : cfg) (h : N) : bool :=
  existsb (fun nh => match hid_for c ev_disconnect (fst nh) with
                     | Some h' => N.eqb h' h | None => false end) (handlers c ++ ns_handlers c).

Lemma disc_calls_filter c obs : disc_calls c obs = filter (fun ha => is_disc_handler c (fst ha)) (calls_of obs).
Proof. reflexivity. Qed.

Lemma resp_disc_prefix c n oh pre :
  responsible c ev_disconnect n [] = Some (oh, pre) -> pre = [] \/ pre = [PStr n].
Proof.
  unfold responsible, get_event_handler, get_namespace_handler, ev_disconnect. cbn [reserved ev_lookup].
  change (str_eqb (s2l "disconnect") (s2l "connect") || str_eqb (s2l "disconnect") (s2l "disconnect")) with true.
  cbv iota.
  destruct (aget str_eqb (handlers c) n) as [tbl|].
  - destruct (aget str_eqb tbl (s2l "disconnect")); [intro H; inversion H; auto|].
    destruct (aget str_eqb (handlers c) wild) as [tbl'|].
    + destruct (aget str_eqb tbl' (s2l "disconnect")); [intro H; inversion H; auto|].
      destruct (aget str_eqb (ns_handlers c) n); [intro H; inversion H; auto|].
      destruct (aget str_eqb (ns_handlers c) wild); intro H; inversion H; auto.
    + destruct (aget str_eqb (ns_handlers c) n); [intro H; inversion H; auto|].
      destruct (aget str_eqb (ns_handlers c) wild); intro H; inversion H; auto.
  - destruct (aget str_eqb (handlers c) wild) as [tbl'|].
    + destruct (aget str_eqb tbl' (s2l "disconnect")); [intro H; inversion H; auto|].
      destruct (aget str_eqb (ns_handlers c) n); [intro H; inversion H; auto|].
      destruct (aget str_eqb (ns_handlers c) wild); intro H; inversion H; auto.
    + destruct (aget str_eqb (ns_handlers c) n); [intro H; inversion H; auto|].
      destruct (aget str_eqb (ns_handlers c) wild); intro H; inversion H; auto.
Qed.

(* the responsible disconnect handler of any namespace is found by the checker's table scan *)
Lemma resp_disc_is_disc c n dh pre :
  responsible c ev_disconnect n [] = Some (Some dh, pre) -> is_disc_handler c dh = true.
Proof.
  intro H. unfold is_disc_handler. apply existsb_exists.
  assert (Hfound : forall k, hid_for c ev_disconnect k = Some dh ->
                     (exists v, In (k, v) (handlers c)) \/ (exists v, In (k, v) (ns_handlers c)) ->
                     exists nh, In nh (handlers c ++ ns_handlers c) /\
                                match hid_for c ev_disconnect (fst nh) with Some h' => N.eqb h' dh | None => false end = true).
  { intros k Hk [[v Hv]|[v Hv]]; exists (k, v); (split; [apply in_or_app; auto|]); cbn [fst]; rewrite Hk; apply N.eqb_refl. }
  revert H. unfold responsible, get_event_handler, get_namespace_handler, ev_disconnect. cbn [reserved ev_lookup].
  change (str_eqb (s2l "disconnect") (s2l "connect") || str_eqb (s2l "disconnect") (s2l "disconnect")) with true.
  cbv iota.
  assert (Hstar_fun : forall tbl', aget str_eqb (handlers c) wild = Some tbl' ->
             aget str_eqb tbl' (s2l "disconnect") = Some dh -> hid_for c ev_disconnect wild = Some dh).
  { intros tbl' E1 E2. unfold hid_for, responsible, get_event_handler, ev_disconnect. cbn [ev_lookup]. rewrite E1, E2. reflexivity. }
  destruct (aget str_eqb (handlers c) n) as [tbl|] eqn:En.
  - destruct (aget str_eqb tbl (s2l "disconnect")) as [h0|] eqn:Eh.
    + intro H; inversion H; subst. apply (Hfound n).
      * unfold hid_for, responsible, get_event_handler, ev_disconnect. cbn [ev_lookup]. rewrite En, Eh. reflexivity.
      * left. exists tbl. apply saget_in. exact En.
    + destruct (aget str_eqb (handlers c) wild) as [tbl'|] eqn:Es.
      * destruct (aget str_eqb tbl' (s2l "disconnect")) as [h1|] eqn:Eh1.
        -- intro H; inversion H; subst. apply (Hfound wild); [eapply Hstar_fun; [reflexivity|eassumption]|].
           left. exists tbl'. apply saget_in. exact Es.
        -- destruct (aget str_eqb (ns_handlers c) n) as [o|] eqn:Eo.
           ++ destruct (aget str_eqb o (s2l "disconnect")) as [h2|] eqn:Eh2; intro H; inversion H; subst.
              apply (Hfound n); [|right; exists o; apply saget_in; exact Eo].
              unfold hid_for, responsible, get_event_handler, get_namespace_handler, ev_disconnect. cbn [reserved ev_lookup].
              rewrite En, Eh, Es, Eh1, Eo, Eh2. reflexivity.
           ++ destruct (aget str_eqb (ns_handlers c) wild) as [o|] eqn:Eo2; [|discriminate].
              destruct (aget str_eqb o (s2l "disconnect")) as [h2|] eqn:Eh2; intro H; inversion H; subst.
              apply (Hfound wild); [|right; exists o; apply saget_in; exact Eo2].
              unfold hid_for, responsible, get_event_handler, get_namespace_handler, ev_disconnect. cbn [reserved ev_lookup].
              rewrite Es, Eh1, Eo2, Eh2. reflexivity.
      * destruct (aget str_eqb (ns_handlers c) n) as [o|] eqn:Eo.
        -- destruct (aget str_eqb o (s2l "disconnect")) as [h2|] eqn:Eh2; intro H; inversion H; subst.
           apply (Hfound n); [|right; exists o; apply saget_in; exact Eo].
           unfold hid_for, responsible, get_event_handler, get_namespace_handler, ev_disconnect. cbn [reserved ev_lookup].
           rewrite En, Eh, Es, Eo, Eh2. reflexivity.
        -- destruct (aget str_eqb (ns_handlers c) wild) as [o|] eqn:Eo2; [|discriminate].
           destruct (aget str_eqb o (s2l "disconnect")) as [h2|] eqn:Eh2; intro H; inversion H; subst.
           apply (Hfound wild); [|right; exists o; apply saget_in; exact Eo2].
           unfold hid_for, responsible, get_event_handler, get_namespace_handler, ev_disconnect. cbn [reserved ev_lookup].
           rewrite Es, Eo2, Eh2. reflexivity.
  - destruct (aget str_eqb (handlers c) wild) as [tbl'|] eqn:Es.
    + destruct (aget str_eqb tbl' (s2l "disconnect")) as [h1|] eqn:Eh1.
      * intro H; inversion H; subst. apply (Hfound wild); [eapply Hstar_fun; [reflexivity|eassumption]|].
        left. exists tbl'. apply saget_in. exact Es.
      * destruct (aget str_eqb (ns_handlers c) n) as [o|] eqn:Eo.
        -- destruct (aget str_eqb o (s2l "disconnect")) as [h2|] eqn:Eh2; intro H; inversion H; subst.
           apply (Hfound n); [|right; exists o; apply saget_in; exact Eo].
           unfold hid_for, responsible, get_event_handler, get_namespace_handler, ev_disconnect. cbn [reserved ev_lookup].
           rewrite En, Es, Eh1, Eo, Eh2. reflexivity.
        -- destruct (aget str_eqb (ns_handlers c) wild) as [o|] eqn:Eo2; [|discriminate].
           destruct (aget str_eqb o (s2l "disconnect")) as [h2|] eqn:Eh2; intro H; inversion H; subst.
           apply (Hfound wild); [|right; exists o; apply saget_in; exact Eo2].
           unfold hid_for, responsible, get_event_handler, get_namespace_handler, ev_disconnect. cbn [reserved ev_lookup].
           rewrite Es, Eh1, Eo2, Eh2. reflexivity.
    + destruct (aget str_eqb (ns_handlers c) n) as [o|] eqn:Eo.
      * destruct (aget str_eqb o (s2l "disconnect")) as [h2|] eqn:Eh2; intro H; inversion H; subst.
        apply (Hfound n); [|right; exists o; apply saget_in; exact Eo].
        unfold hid_for, responsible, get_event_handler, get_namespace_handler, ev_disconnect. cbn [reserved ev_lookup].
        rewrite En, Es, Eo, Eh2. reflexivity.
      * destruct (aget str_eqb (ns_handlers c) wild) as [o|] eqn:Eo2; [|discriminate].
        destruct (aget str_eqb o (s2l "disconnect")) as [h2|] eqn:Eh2; intro H; inversion H; subst.
        apply (Hfound wild); [|right; exists o; apply saget_in; exact Eo2].
        unfold hid_for, responsible, get_event_handler, get_namespace_handler, ev_disconnect. cbn [reserved ev_lookup].
        rewrite Es, Eo2, Eh2. reflexivity.
Qed.

Lemma arity_fits_bad c h b n : aget N.eqb (behav c) h = Some b -> arity_fits c h n = negb (arity_bad b n).
Proof. intro H. unfold arity_fits, arity_bad. rewrite H. destruct (h_arity b); [rewrite negb_involutive|]; reflexivity. Qed.

Lemma chunk_shape c n x r h a :
  In (h, a) (chunk c n x r) ->
  exists pre, responsible c ev_disconnect n [] = Some (Some h, pre) /\
              (a = pre ++ [PStr x; r] \/ a = pre ++ [PStr x]).
Proof.
  unfold chunk. rewrite te_disconnect.
  destruct (responsible c ev_disconnect n []) as [[[dh|] pre]|]; [|intros []|intros []].
  unfold some_res, cwr_pure. cbn [fst].
  assert (Hch : forall l, In (h, a) (calls_of (fst (ch_pure c dh l))) -> h = dh /\ a = l).
  { intros l. destruct (ch_pure_shape c dh l) as [E|E]; rewrite E; [intros []|].
    intros [Hy|[]]. inversion Hy. auto. }
  destruct (ch_pure c dh (pre ++ [PStr x; r])) as [e1 [v|e]] eqn:E1.
  - intro Hin. destruct (Hch (pre ++ [PStr x; r])) as [-> ->]; [rewrite E1; exact Hin|]. eauto.
  - assert (Hbase : In (h, a) (calls_of e1) -> exists pre0, Some (Some dh, pre) = Some (Some h, pre0) /\
                      (a = pre0 ++ [PStr x; r] \/ a = pre0 ++ [PStr x])).
    { intro Hin. destruct (Hch (pre ++ [PStr x; r])) as [-> ->]; [rewrite E1; exact Hin|]. eauto. }
    destruct e; try exact Hbase.
    change (is_disconnect ev_disconnect) with true. cbv iota. cbn [fst].
    rewrite calls_of_app, removelast_two. intro Hin. apply in_app_or in Hin as [Hin|Hin]; [exact (Hbase Hin)|].
    destruct (Hch _ Hin) as [-> ->]. eauto.
Qed.

Lemma chunk_count c n x r k : disc_expected c n = Some k -> List.length (chunk c n x r) = k.
Proof.
  unfold disc_expected, chunk, outcome_of. rewrite te_disconnect.
  destruct (responsible c ev_disconnect n []) as [[[dh|] pre]|]; [|intro H; inversion H; reflexivity|intro H; inversion H; reflexivity].
  destruct (aget N.eqb (behav c) dh) as [b|] eqn:Hb; [|discriminate].
  destruct (h_outcome b) as [v|ra|e] eqn:Ho; try discriminate.
  rewrite !(arity_fits_bad c dh b _ Hb). intro H; inversion H; subst k; clear H.
  unfold some_res, cwr_pure, ch_pure. rewrite Hb.
  replace (List.length (pre ++ [PStr x; r])) with (List.length pre + 2)%nat by (rewrite app_length; reflexivity).
  destruct (arity_bad b (List.length pre + 2)) eqn:E2; cbn [negb orb].
  - change (is_disconnect ev_disconnect) with true. cbv iota. rewrite removelast_two.
    replace (List.length (pre ++ [PStr x])) with (List.length pre + 1)%nat by (rewrite app_length; reflexivity).
    destruct (arity_bad b (List.length pre + 1)); cbn [negb fst app]; reflexivity.
  - rewrite Ho. reflexivity.
Qed.

(* does the argument list of a chunk call mention sid? only as the sid argument *)
Lemma chunk_mentions c n x r sid :
  n <> sid -> r <> PStr sid ->
  filter (fun ha => mentions sid (snd ha)) (chunk c n x r) = if str_eqb sid x then chunk c n x r else [].
Proof.
  intros Hn Hr.
  assert (Hall : forall ha, In ha (chunk c n x r) -> mentions sid (snd ha) = str_eqb sid x).
  { intros [h a] Hin. destruct (chunk_shape c n x r h a Hin) as (pre & Hresp & Ha).
    assert (Hpre : existsb (pv_eqb (PStr sid)) pre = false).
    { destruct (resp_disc_prefix c n _ _ Hresp) as [->| ->]; [reflexivity|]. cbn.
      destruct (str_eqb sid n) eqn:E; [apply str_eqb_eq in E; congruence|reflexivity]. }
    assert (Hrr : pv_eqb (PStr sid) r = false).
    { destruct (pv_eqb (PStr sid) r) eqn:E; [apply pv_eqb_eq in E; congruence|reflexivity]. }
    unfold mentions. cbn [snd]. destruct Ha as [->| ->]; rewrite existsb_app, Hpre; cbn [orb existsb]; rewrite ?Hrr; cbn [pv_eqb];
      rewrite ?orb_false_r; reflexivity. }
  induction (chunk c n x r) as [|ha l IH]; [destruct (str_eqb sid x); reflexivity|].
  cbn [filter]. rewrite (Hall ha (or_introl eq_refl)).
  assert (IH' := IH (fun y Hy => Hall y (or_intror Hy))).
  destruct (str_eqb sid x); [rewrite IH'; reflexivity|exact IH'].
Qed.

(* ------------------------------------------------------------------ *)
(* the "exactly once" clause from an abstract description of a step     *)
(* ------------------------------------------------------------------ *)
Definition sid_one_ns (m : mgr) : Prop :=
  forall ns ns' sid e e', eio_from_sid m sid ns = Some e -> eio_from_sid m sid ns' = Some e' -> ns = ns'.

Lemma is_connected_eio m sid ns : is_connected m (Some sid) ns = true -> exists e, eio_from_sid m sid ns = Some e.
Proof. intro H. destruct (connected_room _ _ _ H) as (_ & b & e & Hb & Hg). exists e. unfold eio_from_sid. rewrite Hb. exact Hg. Qed.

Lemma once_clause c s s' obs (T : list (str * str)) (r : pv) :
  Inv s -> sid_one_ns (mg s) ->
  disc_calls c obs = flat_map (fun nx => chunk c (fst nx) (snd nx) r) T ->
  (forall n x, In (n, x) T -> is_connected (mg s) (Some x) n = true /\ is_connected (mg s') (Some x) n = false) ->
  (forall n x e, In (n, x, e) (all_sids (mg s)) -> ~ In (n, x) T ->
                 is_connected (mg s') (Some x) n = is_connected (mg s) (Some x) n /\
                 (is_connected (mg s) (Some x) n = true -> is_member (mg s') x = true)) ->
  NoDup (map fst T) ->
  (forall k, r <> PStr (sid_name k)) ->
  (forall n k, In n (get_namespaces (mg s)) -> n <> sid_name k) ->
  c04_once c s s' obs = true.
Proof.
  intros HI H1ns Hcalls HT HnT Hnd Hr Hns. unfold c04_once. apply forallb_forall. intros [[ns sid] e] Hin.
  destruct HI as (Hm & Hb & _).
  assert (Heio : eio_from_sid (mg s) sid ns = Some e) by (apply all_sids_eio; assumption).
  destruct (sids_all_eio _ _ _ _ _ Hb Heio) as (k & _ & Hk).
  (* which entries of T carry this sid: only (ns, sid) *)
  assert (HTsid : forall n, In (n, sid) T -> n = ns).
  { intros n Hn. destruct (HT _ _ Hn) as [Hc _]. destruct (is_connected_eio _ _ _ Hc) as [e' He']. eapply H1ns; eassumption. }
  assert (Hcount : filter (fun ha => mentions sid (snd ha)) (disc_calls c obs) =
                   if existsb (fun nx => str_eqb (fst nx) ns && str_eqb (snd nx) sid) T then chunk c ns sid r else []).
  { rewrite Hcalls. clear Hcalls HnT.
    assert (HTns : forall n x, In (n, x) T -> In n (get_namespaces (mg s))).
    { intros n x Hn. destruct (HT _ _ Hn) as [Hc _]. destruct (connected_room _ _ _ Hc) as (_ & b & e0 & Hbb & _).
      rewrite room_of_none in Hbb. destruct (ns_rooms (mg s) n) eqn:E; [|discriminate]. eapply ns_rooms_key. exact E. }
    induction T as [|[n x] T IH]; [reflexivity|]. cbn [flat_map existsb fst snd]. rewrite filter_app.
    cbn [map fst] in Hnd. apply NoDup_cons_iff in Hnd as [Hnot Hnd'].
    rewrite (chunk_mentions c n x r sid) by (rewrite Hk; first [apply Hr | apply (Hns n k); eapply HTns; left; reflexivity]).
    rewrite IH; [|intros; apply HT; right; assumption|exact Hnd'|intros; apply HTsid; right; assumption|intros; eapply HTns; right; eassumption].
    destruct (str_eqb sid x) eqn:Ex.
    - apply str_eqb_eq in Ex. subst x. assert (n = ns) by (apply HTsid; left; reflexivity). subst n.
      rewrite !str_eqb_refl. cbn [andb orb].
      assert (Hrest : existsb (fun nx => str_eqb (fst nx) ns && str_eqb (snd nx) sid) T = false).
      { destruct (existsb _ T) eqn:E; [|reflexivity]. apply existsb_exists in E as ([n' x'] & Hin' & E').
        cbn [fst snd] in E'. apply andb_true_iff in E' as [E1 _]. apply str_eqb_eq in E1. subst n'.
        exfalso. apply Hnot. apply (in_map fst) in Hin'. exact Hin'. }
      rewrite Hrest, app_nil_r. reflexivity.
    - assert (Hx : str_eqb x sid = false).
      { destruct (str_eqb x sid) eqn:E; [|reflexivity]. apply str_eqb_eq in E. subst. rewrite str_eqb_refl in Ex. discriminate. }
      rewrite Hx, andb_false_r. reflexivity. }
  rewrite Hcount. clear Hcount.
  destruct (existsb (fun nx => str_eqb (fst nx) ns && str_eqb (snd nx) sid) T) eqn:ET.
  - apply existsb_exists in ET as ([n x] & HinT & E'). cbn [fst snd] in E'. apply andb_true_iff in E' as [E1 E2].
    apply str_eqb_eq in E1, E2. subst n x. destruct (HT _ _ HinT) as [Hc Hc']. rewrite Hc, Hc'. cbn [negb orb andb].
    destruct (disc_expected c ns) as [k0|] eqn:Hex; [|reflexivity].
    rewrite (chunk_count c ns sid r k0 Hex). apply Nat.eqb_refl.
  - assert (HnotT : ~ In (ns, sid) T).
    { intro Hn. assert (existsb (fun nx => str_eqb (fst nx) ns && str_eqb (snd nx) sid) T = true); [|congruence].
      apply existsb_exists. exists (ns, sid). split; [exact Hn|]. cbn. rewrite !str_eqb_refl. reflexivity. }
    destruct (HnT ns sid e Hin HnotT) as [Hsame Hmem]. rewrite Hsame.
    destruct (is_connected (mg s) (Some sid) ns) eqn:Hc; [|reflexivity].
    rewrite (Hmem eq_refl). reflexivity.
Qed.

(* ------------------------------------------------------------------ *)
(* steps that end nobody's connection                                  *)
(* ------------------------------------------------------------------ *)
Lemma is_connected_eio_eq m x n :
  is_connected m (Some x) n =
  if is_pending m x n then false else match eio_from_sid m x n with Some _ => true | None => false end.
Proof. unfold is_connected, eio_from_sid. destruct (is_pending m x n); [reflexivity|]. destruct (room_of m n PNone); reflexivity. Qed.
Lemma eio_from_sid_members m x n : eio_from_sid m x n = bd_get (ns_members m n) x.
Proof. unfold eio_from_sid, ns_members. destruct (room_of m n PNone); reflexivity. Qed.

Definition keeps (s s' : srv) : Prop :=
  pending (mg s') = pending (mg s) /\
  forall n x e, In (n, x, e) (all_sids (mg s)) -> eio_from_sid (mg s') x n = eio_from_sid (mg s) x n.

Lemma keeps_conn s s' n x e :
  MOK (mg s) -> keeps s s' -> In (n, x, e) (all_sids (mg s)) ->
  is_connected (mg s') (Some x) n = is_connected (mg s) (Some x) n /\
  (is_connected (mg s) (Some x) n = true -> is_member (mg s') x = true).
Proof.
  intros Hm [Hp He] Hin. rewrite !is_connected_eio_eq, (is_pending_cong _ _ _ _ Hp), (He _ _ _ Hin).
  split; [reflexivity|]. intros _. eapply is_member_true. rewrite (He _ _ _ Hin). apply all_sids_eio; eassumption.
Qed.

Lemma once_quiet c s s' obs : MOK (mg s) -> keeps s s' -> disc_calls c obs = [] -> c04_once c s s' obs = true.
Proof.
  intros Hm Hk Hc. unfold c04_once. apply forallb_forall. intros [[n x] e] Hin. rewrite Hc. cbn [filter List.length].
  destruct (keeps_conn s s' n x e Hm Hk Hin) as [Hsame Hmem]. rewrite Hsame.
  destruct (is_connected (mg s) (Some x) n); [|reflexivity]. rewrite (Hmem eq_refl). reflexivity.
Qed.

Lemma keeps_rooms s s' : rooms (mg s') = rooms (mg s) -> pending (mg s') = pending (mg s) -> keeps s s'.
Proof. intros Hr Hp. split; [exact Hp|]. intros n x e _. unfold eio_from_sid, room_of, ns_rooms. rewrite Hr. reflexivity. Qed.
Lemma keeps_members s s' :
  pending (mg s') = pending (mg s) -> (forall n, ns_members (mg s') n = ns_members (mg s) n) -> keeps s s'.
Proof. intros Hp Hm. split; [exact Hp|]. intros n x e _. rewrite !eio_from_sid_members, Hm. reflexivity. Qed.
Lemma disc_calls_nil c obs : calls_of obs = [] -> disc_calls c obs = [].
Proof. intro H. rewrite disc_calls_filter, H. reflexivity. Qed.

(* computations that touch neither rooms nor pending marks and invoke no handler *)
Definition quiet {A} (m : SM A) : Prop :=
  forall s, rooms (mg (st (m s))) = rooms (mg s) /\ pending (mg (st (m s))) = pending (mg s) /\
            calls_of (snd (fst (m s))) = [].
Lemma quiet_ret {A} (a : A) : quiet (ret a). Proof. intro s. repeat split. Qed.
Lemma quiet_raise {A} x : quiet (@raise srv eff A x). Proof. intro s. repeat split. Qed.
Lemma quiet_lift {A} (r : Res A) : quiet (lift r). Proof. intro s. repeat split. Qed.
Lemma quiet_bind {A B} (m : SM A) (k : A -> SM B) : quiet m -> (forall a, quiet (k a)) -> quiet (bindM m k).
Proof.
  intros Hm Hk s. destruct (Hm s) as (H1 & H2 & H3). unfold st, bindM in *.
  destruct (m s) as [[s1 e1] [a|x]]; cbn [fst snd] in *; [|auto].
  destruct (Hk a s1) as (K1 & K2 & K3). unfold st in *. destruct (k a s1) as [[s2 e2] r]. cbn [fst snd] in *.
  rewrite calls_of_app, H3, K3. repeat split; congruence.
Qed.
Lemma quiet_getS {B} (k : srv -> SM B) : (forall s0, quiet (k s0)) -> quiet (bindM getS k).
Proof. intros H s. rewrite bindM_getS. apply H. Qed.
Lemma quiet_forM {A} (l : list A) f : (forall x, quiet (f x)) -> quiet (forM l f).
Proof. intro H. induction l as [|x l IH]; cbn [forM]; [apply quiet_ret|]. apply quiet_bind; [apply H|intro; exact IH]. Qed.
Lemma quiet_send_pieces eio p : quiet (send_pieces eio p).
Proof.
  intro s. rewrite send_pieces_eq. cbn [st fst snd]. repeat split.
  destruct (is_live s eio); [apply calls_of_map_out|reflexivity].
Qed.
Lemma quiet_send_packet c eio t d ns id : quiet (send_packet c eio t d ns id).
Proof.
  unfold send_packet. apply quiet_bind; [apply quiet_lift|]. intro p. apply quiet_bind; [apply quiet_lift|]. intro pcs.
  destruct eio; [apply quiet_send_pieces|apply quiet_ret].
Qed.
Lemma quiet_other f : (forall s, mg (f s) = mg s) -> quiet (modify f).
Proof. intros H s. cbn [st modify fst snd]. rewrite H. repeat split. Qed.
Lemma quiet_tell e : (match e with Call _ _ => False | _ => True end) -> quiet (tell e).
Proof. intros H s. cbn [st tell fst snd]. repeat split. destruct e; [reflexivity|contradiction|reflexivity..]. Qed.
Lemma quiet_api m : quiet m -> quiet (api m).
Proof.
  intros H s. destruct (H s) as (H1 & H2 & H3). unfold st, api in *. destruct (m s) as [[s1 e1] [u|x]]; cbn [fst snd] in *; [auto|].
  rewrite calls_of_app, H3. auto.
Qed.
Lemma quiet_contain m : quiet m -> quiet (contain m).
Proof. intros H s. destruct (H s) as (H1 & H2 & H3). unfold st, contain in *. destruct (m s) as [[s1 e1] r]. auto. Qed.
Lemma quiet_with_mg {A} (f : mgr -> mgr * A) :
  (forall m, rooms (fst (f m)) = rooms m /\ pending (fst (f m)) = pending m) -> quiet (with_mg f).
Proof. intros H s. rewrite with_mg_eq. cbn [st fst snd mg upd_mg]. destruct (H (mg s)). auto. Qed.

Lemma quiet_mgr_emit c ev d ns room skip cb : quiet (mgr_emit c ev d ns room skip cb).
Proof.
  unfold mgr_emit. apply quiet_getS; intro s0. destruct (ns_rooms (mg s0) ns); [|apply quiet_ret].
  destruct cb as [cbref|].
  - apply quiet_bind; [apply quiet_lift|]. intro parts. apply quiet_forM. intro se.
    destruct (skipped _ _); [apply quiet_ret|].
    apply quiet_bind.
    + apply quiet_with_mg. intro m. unfold generate_ack_id. destruct (cb_counter _); split; reflexivity.
    + intro r1. apply quiet_bind; [apply quiet_lift|]. intro. apply quiet_send_packet.
  - apply quiet_bind; [apply quiet_lift|]. intro p. apply quiet_bind; [apply quiet_lift|]. intro pcs.
    apply quiet_bind; [apply quiet_lift|]. intro parts. apply quiet_forM. intro se.
    destruct (skipped _ _); [apply quiet_ret|apply quiet_send_pieces].
Qed.
Lemma quiet_set_session e d : quiet (set_session e d).
Proof. apply quiet_other. reflexivity. Qed.
Lemma quiet_api_get_session sid ns : quiet (api_get_session sid ns).
Proof.
  unfold api_get_session. apply quiet_getS; intro s0. apply quiet_bind; [apply quiet_lift|]. intro d.
  destruct (aget str_eqb d _); [apply quiet_ret|]. destruct (eio_from_sid _ _ _); [|apply quiet_ret].
  apply quiet_bind; [apply quiet_set_session|intro; apply quiet_ret].
Qed.
Lemma quiet_api_save_session sid v ns : quiet (api_save_session sid v ns).
Proof.
  unfold api_save_session. apply quiet_getS; intro s0. apply quiet_bind; [apply quiet_lift|]. intro d.
  destruct (eio_from_sid _ _ _); [apply quiet_set_session|apply quiet_ret].
Qed.
Lemma quiet_handle_ack c eio pn id data : quiet (handle_ack c eio pn id data).
Proof.
  unfold handle_ack. apply quiet_getS; intro s0. apply quiet_bind.
  - apply quiet_with_mg. intro m. unfold trigger_callback.
    destruct (sid_from_eio _ _ _); [|split; reflexivity]. destruct id; [|split; reflexivity].
    destruct (aget str_eqb (callbacks m) _); [|split; reflexivity]. destruct (_ <=? _)%Z; [split; reflexivity|].
    destruct (aget N.eqb _ _); split; reflexivity.
  - intros [|cb]; [apply quiet_ret|]. apply quiet_bind; [apply quiet_lift|]. intro. apply quiet_tell. exact I.
Qed.
Lemma quiet_set_binpkt f : quiet (set_binpkt f).
Proof. apply quiet_other. reflexivity. Qed.

Lemma quiet_keeps {A} (m : SM A) s : quiet m -> keeps s (st (m s)) /\ calls_of (snd (fst (m s))) = [].
Proof. intro H. destruct (H s) as (H1 & H2 & H3). split; [apply keeps_rooms; assumption|exact H3]. Qed.

(* ---- room operations of the API leave the everybody rooms alone ---- *)
Lemma ns_members_rooms m m' : rooms m' = rooms m -> forall n, ns_members m' n = ns_members m n.
Proof. intros H n. unfold ns_members, room_of, ns_rooms. rewrite H. reflexivity. Qed.
Lemma ns_members_eq m n : ns_members m n = match ns_rooms m n with Some rm => match none_bd rm with Some b => b | None => [] end | None => [] end.
Proof. unfold ns_members. rewrite room_of_none. destruct (ns_rooms m n); reflexivity. Qed.

Lemma bd_inv_of_in b s e : In (s, e) b -> exists s', bd_inv b e = Some s'.
Proof.
  induction b as [|[s0 e0] b IH]; [intros []|]. cbn [bd_inv]. destruct (str_eqb e0 e) eqn:E; [eauto|].
  intros [H|H]; [inversion H; subst; rewrite str_eqb_refl in E; discriminate|exact (IH H)].
Qed.
Lemma bd_put_present b sid eio : bd_ok b -> bd_get b sid = Some eio -> bd_put b sid eio = Some b.
Proof.
  intros [Hk Hv] Hg. apply saget_in in Hg. destruct (bd_inv_of_in _ _ _ Hg) as [s' Hs']. unfold bd_put. rewrite Hs'.
  apply bd_inv_in in Hs'. assert (s' = sid) by (eapply nodup_snd_inj; eassumption). subst. rewrite str_eqb_refl. reflexivity.
Qed.

Lemma enter_room_members m sid ns room :
  MOK m -> pending (fst (enter_room m sid ns room)) = pending m /\
           forall n, ns_members (fst (enter_room m sid ns room)) n = ns_members m n.
Proof.
  intro Hm. unfold enter_room. destruct (ns_rooms m ns) as [rm|] eqn:Hns; [|split; reflexivity].
  change (aget room_eqb rm PNone) with (none_bd rm).
  destruct (none_bd rm) as [b0|] eqn:Hb0; [|split; reflexivity].
  destruct (bd_get b0 sid) as [eio|] eqn:Hg; [|split; reflexivity].
  destruct (MOK_ns _ _ _ Hm Hns) as [_ Hk]. pose proof (Hk _ Hb0) as Hok.
  set (b := match aget room_eqb rm room with Some b => b | None => [] end).
  assert (Hmain : forall bX, (room = PNone -> bX = b0) ->
            forall n, ns_members (set_rooms m (aset str_eqb (rooms m) ns (aset room_eqb rm room bX))) n = ns_members m n).
  { intros bX HbX n. rewrite !ns_members_eq. unfold ns_rooms. cbn [rooms set_rooms].
    destruct (str_eqb ns n) eqn:E.
    - apply str_eqb_eq in E. subst n. rewrite aget_aset_same by apply str_eqb_refl. fold (ns_rooms m ns). rewrite Hns.
      destruct (pv_eqb room PNone) eqn:Er.
      + apply pv_eqb_eq in Er. subst room. rewrite none_bd_aset_none, Hb0, (HbX eq_refl). reflexivity.
      + rewrite none_bd_aset_other; [reflexivity|]. intro; subst; rewrite pv_eqb_refl in Er; discriminate.
    - rewrite saget_aset_other; [reflexivity|]. intro; subst; rewrite str_eqb_refl in E; discriminate. }
  assert (HbN : room = PNone -> b = b0).
  { intros ->. unfold b. change (aget room_eqb rm PNone) with (none_bd rm). rewrite Hb0. reflexivity. }
  destruct (bd_put b sid eio) as [b'|] eqn:Hp; cbn [fst]; (split; [reflexivity|]); apply Hmain.
  - intro Hr. rewrite (HbN Hr) in Hp. rewrite (bd_put_present b0 sid eio Hok Hg) in Hp. inversion Hp. reflexivity.
  - exact HbN.
Qed.

Lemma leave_room_keeps_members m sid ns room :
  MOK m -> room <> PNone -> forall n, ns_members (leave_room m sid ns room) n = ns_members m n.
Proof.
  intros Hm Hr n. destruct (leave_room_spec m sid ns room Hm) as (_ & _ & _ & Hf & Ho & _).
  destruct (str_eqb ns n) eqn:E.
  - apply str_eqb_eq in E. subst n. unfold ns_members. rewrite (Ho Hr). reflexivity.
  - unfold ns_members, room_of. rewrite Hf; [reflexivity|]. intro; subst; rewrite str_eqb_refl in E; discriminate.
Qed.
Lemma close_room_members m room ns :
  MOK m -> room <> PNone -> pending (close_room m room ns) = pending m /\
  forall n, ns_members (close_room m room ns) n = ns_members m n.
Proof.
  intros Hm Hr. unfold close_room. destruct (participants m ns room) as [b|]; [|split; reflexivity].
  revert m Hm. induction b as [|se b IH]; intros m Hm; cbn [fold_left]; [split; reflexivity|].
  destruct (leave_room_spec m (fst se) ns room Hm) as (Hm1 & Hp1 & _).
  destruct (IH _ Hm1) as [Hp2 Hn2]. split; [congruence|].
  intro n. rewrite Hn2. apply leave_room_keeps_members; assumption.
Qed.

(* ---- a terminating operation: everybody else is unaffected ---- *)
Lemma disc_state_others s sid ns :
  Inv s -> is_connected (mg s) (Some sid) ns = true ->
  let s' := disc_state s sid ns in
  pending (mg s') = pending (mg s) /\
  forall n, ns_members (mg s') n = if str_eqb ns n then adel str_eqb (ns_members (mg s) ns) sid else ns_members (mg s) n.
Proof.
  intros (Hm & _ & Hpn & _) Hc s'. subst s'. unfold disc_state. cbn [mg upd_mg].
  set (m0 := fst (pre_disconnect (mg s) sid ns)).
  assert (Hm0 : MOK m0) by (apply MOK_pre_disconnect; exact Hm).
  destruct (connected_room _ _ _ Hc) as (Hnp & b & e & Hb & Hg).
  destruct (mgr_disconnect_spec m0 sid ns Hm0) as (_ & _ & Hf & _ & Hcp).
  assert (Hns0 : ns_rooms m0 ns <> None).
  { unfold m0, ns_rooms. rewrite pre_disconnect_rooms. rewrite room_of_none in Hb. fold (ns_rooms (mg s) ns).
    destruct (ns_rooms (mg s) ns); discriminate. }
  destruct (Hcp Hns0) as [_ Hp]. split.
  - rewrite Hp. apply pending_roundtrip; [exact Hnp|]. intro Habs. apply saget_in in Habs. exact (Hpn _ _ Habs eq_refl).
  - intro n. destruct (str_eqb ns n) eqn:E.
    + apply str_eqb_eq in E. subst n. rewrite mgr_disconnect_members by exact Hm0.
      unfold m0. rewrite (ns_members_rooms _ _ (pre_disconnect_rooms (mg s) sid ns)). reflexivity.
    + assert (Hne : ns <> n) by (intro; subst; rewrite str_eqb_refl in E; discriminate).
      rewrite !ns_members_eq, (Hf _ Hne). unfold m0, ns_rooms. rewrite pre_disconnect_rooms. reflexivity.
Qed.

Lemma disc_state_keeps_others s sid ns n x e :
  Inv s -> is_connected (mg s) (Some sid) ns = true ->
  In (n, x, e) (all_sids (mg s)) -> (n, x) <> (ns, sid) ->
  is_connected (mg (disc_state s sid ns)) (Some x) n = is_connected (mg s) (Some x) n /\
  eio_from_sid (mg (disc_state s sid ns)) x n = eio_from_sid (mg s) x n.
Proof.
  intros HI Hc Hin Hne. destruct (disc_state_others s sid ns HI Hc) as [Hp Hn].
  assert (He : eio_from_sid (mg (disc_state s sid ns)) x n = eio_from_sid (mg s) x n).
  { rewrite !eio_from_sid_members, Hn. destruct (str_eqb ns n) eqn:E; [|reflexivity].
    apply str_eqb_eq in E. subst n. apply saget_adel_other. intro; subst. apply Hne. reflexivity. }
  split; [|exact He]. rewrite !is_connected_eio_eq, (is_pending_cong _ _ _ _ Hp), He. reflexivity.
Qed.

(* ------------------------------------------------------------------ *)
(* which handlers a step invokes                                       *)
(* ------------------------------------------------------------------ *)
Lemma cwr_pure_calls_id c ev h0 a0 h a : In (h, a) (calls_of (fst (cwr_pure c ev h0 a0))) -> h = h0.
Proof.
  assert (Hch : forall l, In (h, a) (calls_of (fst (ch_pure c h0 l))) -> h = h0).
  { intros l. destruct (ch_pure_shape c h0 l) as [E|E]; rewrite E; [intros []|]. intros [Hy|[]]. inversion Hy. reflexivity. }
  unfold cwr_pure. destruct (ch_pure c h0 a0) as [e1 [v|e]] eqn:E1.
  - intro Hin. apply (Hch a0). rewrite E1. exact Hin.
  - assert (Hbase : In (h, a) (calls_of e1) -> h = h0) by (intro Hin; apply (Hch a0); rewrite E1; exact Hin).
    destruct e; try exact Hbase. destruct (is_disconnect ev); [|exact Hbase]. cbn [fst].
    rewrite calls_of_app. intro Hin. apply in_app_or in Hin as [Hin|Hin]; [exact (Hbase Hin)|exact (Hch _ Hin)].
Qed.

Lemma te_pure_calls c ev ns args h a :
  In (h, a) (calls_of (fst (te_pure c ev ns args))) -> exists a', responsible c ev ns args = Some (Some h, a').
Proof.
  unfold te_pure, responsible. destruct (unhash_guard c ev ns); [intros []|].
  destruct (get_event_handler c ev ns args) as [[h0 a0]|].
  - intro Hin. cbn [some_res fst] in Hin. apply cwr_pure_calls_id in Hin. subst. eauto.
  - destruct (get_namespace_handler c ns args) as [[methods a0]|]; [|intros []].
    destruct ev; try (destruct (truthy _); intros []); try (intros []).
    destruct (aget str_eqb methods s) as [h0|]; [|intros []].
    intro Hin. cbn [some_res fst] in Hin. apply cwr_pure_calls_id in Hin. subst. eauto.
Qed.

(* generator domain, configuration part: a handler id that serves `disconnect` somewhere serves no
   other event *)
Definition ids_separate (c : cfg) : Prop :=
  forall ev ns args h a, is_disconnect ev = false -> responsible c ev ns args = Some (Some h, a) ->
                         is_disc_handler c h = false.

Lemma disc_calls_none c obs :
  (forall ha, In ha (calls_of obs) -> is_disc_handler c (fst ha) = false) -> disc_calls c obs = [].
Proof.
  intro H. rewrite disc_calls_filter. induction (calls_of obs) as [|ha l IH]; [reflexivity|].
  cbn [filter]. rewrite (H ha (or_introl eq_refl)). apply IH. intros y Hy. apply H. right. exact Hy.
Qed.
Lemma te_pure_not_disc c ev ns args :
  ids_separate c -> is_disconnect ev = false ->
  forall ha, In ha (calls_of (fst (te_pure c ev ns args))) -> is_disc_handler c (fst ha) = false.
Proof. intros Hs Hd [h a] Hin. destruct (te_pure_calls _ _ _ _ _ _ Hin) as [a' Hr]. eapply Hs; eassumption. Qed.

(* ---- an incoming event ---- *)
Lemma he_pure_not_disc c eio pn id data s :
  ids_separate c ->
  (forall ev args, split_event data = Ok (ev, args) -> is_disconnect ev = false) ->
  forall ha, In ha (calls_of (fst (he_pure c eio pn id data s))) -> is_disc_handler c (fst ha) = false.
Proof.
  intros Hs Hd ha. unfold he_pure. destruct (split_event data) as [[ev args]|x]; [|intros []].
  destruct (negb _); [intros []|]. destruct (sid_from_eio _ _ _) as [sid|]; [|intros []]. cbn [fst snd].
  pose proof (te_pure_not_disc c ev (ns_or_default pn) (PStr sid :: args) Hs (Hd _ _ eq_refl)) as Ht.
  destruct (te_pure c ev (ns_or_default pn) (PStr sid :: args)) as [e1 [[v|]|x]]; cbn [fst] in *; try apply Ht.
  rewrite calls_of_app, ack_effs_calls, app_nil_r. apply Ht.
Qed.

(* ---- a CONNECT request ---- *)
Lemma conn_try_not_disc c ns sid env data :
  ids_separate c -> forall ha, In ha (calls_of (fst (conn_try c ns sid env data))) -> is_disc_handler c (fst ha) = false.
Proof.
  intros Hs ha. unfold conn_try.
  pose proof (fun l => te_pure_not_disc c ev_connect ns l Hs eq_refl) as Ht.
  destruct (truthy data); [apply Ht|].
  destruct (te_pure c ev_connect ns [PStr sid; env]) as [e1 [r|x]] eqn:E; [rewrite <- E; apply Ht|].
  assert (H1 : In ha (calls_of e1) -> is_disc_handler c (fst ha) = false).
  { intro Hin. apply (Ht [PStr sid; env]). rewrite E. exact Hin. }
  destruct x; try exact H1. cbn [fst]. rewrite calls_of_app. intro Hin.
  apply in_app_or in Hin as [Hin|Hin]; [exact (H1 Hin)|exact (Ht _ _ Hin)].
Qed.

Lemma conn_state_keeps s eio ns :
  Inv s -> sid_from_eio (mg s) eio ns = None -> keeps s (conn_state s eio ns).
Proof.
  intros HI Hs. destruct (mgr_connect_new (mg s) eio ns (new_sid s) Hs) as (_ & Hroom & Hp & _ & Hf).
  split; [exact Hp|]. intros n x e Hin.
  assert (Hx : x <> new_sid s).
  { intro; subst x. apply (all_sids_eio _ _ _ _ (proj1 HI)) in Hin. rewrite (fresh_no_eio s HI n) in Hin. discriminate. }
  unfold conn_state. cbn [mg upd_mg]. destruct (str_eqb ns n) eqn:E.
  - apply str_eqb_eq in E. subst n. unfold eio_from_sid at 1. rewrite Hroom.
    unfold bd_get. rewrite saget_aset_other by (intro; apply Hx; symmetry; assumption).
    rewrite eio_from_sid_members, ns_members_eq. unfold pm_b, pm_rm. destruct (ns_rooms (mg s) ns); reflexivity.
  - unfold eio_from_sid. rewrite !room_of_none, Hf; [reflexivity|]. intro; subst; rewrite str_eqb_refl in E; discriminate.
Qed.

Lemma prim_conn_Inv s eio ns : Inv s -> ns <> [] -> Inv (conn_state s eio ns).
Proof. intros HI Hne. eapply prim_Inv; [|exact HI]. exact (P_conn s eio ns Hne). Qed.

Lemma connect_refusal_keeps s eio pn (always : bool) :
  Inv s -> sid_from_eio (mg s) eio (ns_or_default pn) = None ->
  let ns := ns_or_default pn in let sid := new_sid s in let s1 := conn_state s eio ns in
  keeps s (upd_mg s1 (if always then mgr_disconnect (fst (pre_disconnect (mg s1) sid ns)) sid ns
                      else mgr_disconnect (mg s1) sid ns)).
Proof.
  intros HI Hs ns sid s1.
  destruct (conn_state_facts eio pn s HI Hs) as (_ & Hm1 & _ & He1 & Hc1 & Hp1 & _ & Hf1). fold ns sid s1 in Hm1, He1, Hc1, Hp1, Hf1.
  assert (HI1 : Inv s1) by (apply prim_conn_Inv; [exact HI|apply ns_or_default_nonempty]).
  assert (Hmem1 : ns_members (mg s1) ns = aset str_eqb (ns_members (mg s) ns) sid eio).
  { destruct (mgr_connect_new (mg s) eio ns sid Hs) as (_ & Hroom & _).
    unfold ns_members at 1. unfold s1, conn_state. cbn [mg upd_mg]. fold sid. rewrite Hroom.
    rewrite ns_members_eq. unfold pm_b, pm_rm. destruct (ns_rooms (mg s) ns); reflexivity. }
  assert (Hback : adel str_eqb (aset str_eqb (ns_members (mg s) ns) sid eio) sid = ns_members (mg s) ns).
  { apply adel_aset_new; [|apply str_eqb_refl]. rewrite <- eio_from_sid_members. apply (fresh_no_eio s HI). }
  assert (Hother : forall n, ns <> n -> ns_members (mg s1) n = ns_members (mg s) n).
  { intros n Hne. rewrite !ns_members_eq, (Hf1 _ Hne). reflexivity. }
  apply keeps_members; cbn [mg upd_mg]; destruct always.
  - destruct (disc_state_others s1 sid ns HI1 Hc1) as [Hp _]. unfold disc_state in Hp. cbn [mg upd_mg] in Hp. congruence.
  - destruct (mgr_disconnect_spec (mg s1) sid ns Hm1) as (_ & _ & _ & _ & Hcp).
    assert (Hns1 : ns_rooms (mg s1) ns <> None).
    { unfold eio_from_sid in He1. rewrite room_of_none in He1. destruct (ns_rooms (mg s1) ns); discriminate. }
    destruct (Hcp Hns1) as [_ Hp]. rewrite Hp. unfold pending_after.
    assert (Hnp : is_pending (mg s1) sid ns = false) by (rewrite (is_pending_cong _ _ _ _ Hp1); apply (fresh_not_pending s HI)).
    rewrite Hnp. exact Hp1.
  - intro n. destruct (disc_state_others s1 sid ns HI1 Hc1) as [_ Hn]. unfold disc_state in Hn. cbn [mg upd_mg] in Hn.
    rewrite Hn. destruct (str_eqb ns n) eqn:E.
    + apply str_eqb_eq in E. subst n. rewrite Hmem1. exact Hback.
    + apply Hother. intro; subst; rewrite str_eqb_refl in E; discriminate.
  - intro n. destruct (str_eqb ns n) eqn:E.
    + apply str_eqb_eq in E. subst n. rewrite mgr_disconnect_members by exact Hm1. rewrite Hmem1. exact Hback.
    + assert (Hne : ns <> n) by (intro; subst; rewrite str_eqb_refl in E; discriminate).
      destruct (mgr_disconnect_spec (mg s1) sid ns Hm1) as (_ & _ & Hf & _).
      rewrite ns_members_eq, (Hf _ Hne), <- ns_members_eq. apply Hother. exact Hne.
Qed.

Lemma handle_connect_keeps c eio pn data s env :
  has_actions c = false -> ids_separate c -> Inv s -> aget str_eqb (environ s) eio = Some env ->
  let R := handle_connect c eio pn data s in
  keeps s (st R) /\ disc_calls c (snd (fst R)) = [].
Proof.
  intros Hna Hsep HI Henv R. subst R. set (ns := ns_or_default pn).
  destruct (served c ns) eqn:Hsv.
  2:{ rewrite (connect_not_served c eio pn data s Hsv). cbn [st fst snd].
      split; [apply keeps_rooms; reflexivity|]. apply disc_calls_nil. apply sp_effs_calls. }
  destruct (sid_from_eio (mg s) eio ns) as [s'|] eqn:Hs.
  { rewrite (connect_duplicate c eio pn data s HI Hsv) by (fold ns; rewrite Hs; discriminate). cbn [st fst snd].
    split; [apply keeps_rooms; reflexivity|]. apply disc_calls_nil. apply sp_effs_calls. }
  rewrite (connect_accepted_by_manager c eio pn data s env Hna Hsv (proj1 (conn_state_facts eio pn s HI Hs)) Henv).
  cbv zeta. fold ns. set (sid := new_sid s). set (tr := conn_try c ns sid env data).
  assert (Htr : forall ha, In ha (calls_of (fst tr)) -> is_disc_handler c (fst ha) = false) by (apply conn_try_not_disc; exact Hsep).
  assert (Hpre : calls_of (if always_connect c then sp_effs s eio (accept_frames c ns sid) else []) = []).
  { destruct (always_connect c); [apply sp_effs_calls|reflexivity]. }
  destruct (conn_verdict c ns (snd tr)) as [|why|x].
  - cbn [st fst snd]. split; [apply conn_state_keeps; assumption|]. apply disc_calls_none.
    rewrite !calls_of_app, Hpre. cbn [app].
    replace (calls_of (if always_connect c then [] else sp_effs s eio (accept_frames c ns sid))) with (@nil (N * list pv))
      by (destruct (always_connect c); [reflexivity|symmetry; apply sp_effs_calls]).
    rewrite app_nil_r. exact Htr.
  - pose proof (connect_refusal_keeps s eio pn (always_connect c) HI Hs) as Hk. cbv zeta in Hk. fold ns sid in Hk.
    destruct (always_connect c); cbn [st fst snd].
    + split; [exact Hk|]. apply disc_calls_none. rewrite !calls_of_app, sp_effs_calls. cbn [app].
      replace (calls_of (match snd (pre_disconnect (mg (conn_state s eio ns)) sid ns) with
                         | Ok _ => sp_effs s eio (frames_of c DISCONNECT why ns None) | Err _ => [] end)) with (@nil (N * list pv))
        by (destruct (snd _); [symmetry; apply sp_effs_calls|reflexivity]).
      rewrite app_nil_r. exact Htr.
    + split; [exact Hk|]. apply disc_calls_none. rewrite calls_of_app, sp_effs_calls, app_nil_r. exact Htr.
  - cbn [st fst snd]. split; [apply conn_state_keeps; assumption|]. apply disc_calls_none.
    rewrite calls_of_app, Hpre. exact Htr.
Qed.

(* ------------------------------------------------------------------ *)
(* terminating steps                                                   *)
(* ------------------------------------------------------------------ *)
Lemma disc_calls_app c a b : disc_calls c (a ++ b) = disc_calls c a ++ disc_calls c b.
Proof. rewrite !disc_calls_filter, calls_of_app, filter_app. reflexivity. Qed.
Lemma disc_calls_chunk c n x r : disc_calls c (fst (te_pure c ev_disconnect n [PStr x; r])) = chunk c n x r.
Proof.
  rewrite disc_calls_filter. fold (chunk c n x r).
  assert (H : forall ha, In ha (chunk c n x r) -> is_disc_handler c (fst ha) = true).
  { intros [h a] Hin. destruct (chunk_shape _ _ _ _ _ _ Hin) as (pre & Hr & _). eapply resp_disc_is_disc. exact Hr. }
  induction (chunk c n x r) as [|ha l IH]; [reflexivity|]. cbn [filter].
  rewrite (H ha (or_introl eq_refl)), IH; [reflexivity|]. intros y Hy. apply H. right. exact Hy.
Qed.

Lemma disc_state_keeps_any s sid ns n x :
  Inv s -> is_connected (mg s) (Some sid) ns = true -> (n, x) <> (ns, sid) ->
  is_connected (mg (disc_state s sid ns)) (Some x) n = is_connected (mg s) (Some x) n /\
  eio_from_sid (mg (disc_state s sid ns)) x n = eio_from_sid (mg s) x n.
Proof.
  intros HI Hc Hne. destruct (disc_state_others s sid ns HI Hc) as [Hp Hn].
  assert (He : eio_from_sid (mg (disc_state s sid ns)) x n = eio_from_sid (mg s) x n).
  { rewrite !eio_from_sid_members, Hn. destruct (str_eqb ns n) eqn:E; [|reflexivity].
    apply str_eqb_eq in E. subst n. apply saget_adel_other. intro; subst. apply Hne. reflexivity. }
  split; [|exact He]. rewrite !is_connected_eio_eq, (is_pending_cong _ _ _ _ Hp), He. reflexivity.
Qed.

Lemma once_single c s sid ns obs r :
  Inv s -> sid_one_ns (mg s) -> is_connected (mg s) (Some sid) ns = true ->
  disc_calls c obs = chunk c ns sid r ->
  (forall k, r <> PStr (sid_name k)) -> (forall n k, In n (get_namespaces (mg s)) -> n <> sid_name k) ->
  c04_once c s (disc_state s sid ns) obs = true.
Proof.
  intros HI H1 Hc Hcalls Hr Hns.
  apply (once_clause c s _ obs [(ns, sid)] r HI H1); try assumption.
  - cbn [flat_map fst snd]. rewrite app_nil_r. exact Hcalls.
  - intros n x [H|[]]. inversion H; subst. split; [exact Hc|]. apply (disc_state_facts s x n (proj1 HI)).
  - intros n x e Hin Hnot. assert (Hne : (n, x) <> (ns, sid)) by (intro E; apply Hnot; left; symmetry; exact E).
    destruct (disc_state_keeps_any s sid ns n x HI Hc Hne) as [A B]. split; [exact A|].
    intros _. eapply is_member_true. rewrite B. apply all_sids_eio; [apply HI|exact Hin].
  - repeat constructor. intros [].
Qed.

Lemma eio_of_sid m eio ns sid : MOK m -> sid_from_eio m eio ns = Some sid -> eio_from_sid m sid ns = Some eio.
Proof.
  intros Hm Hs. rewrite sid_from_eio_members in Hs. apply bd_inv_in in Hs.
  rewrite eio_from_sid_members. apply sin_aget; [apply (members_ok m ns Hm)|exact Hs].
Qed.
Lemma sid_of_eio m eio ns sid : MOK m -> eio_from_sid m sid ns = Some eio -> sid_from_eio m eio ns = Some sid.
Proof.
  intros Hm He. rewrite eio_from_sid_members in He. apply saget_in in He.
  rewrite sid_from_eio_members. destruct (bd_inv_of_in _ _ _ He) as [s' Hs']. rewrite Hs'. f_equal.
  apply bd_inv_in in Hs'. eapply nodup_snd_inj; [apply (members_ok m ns Hm)| |]; eassumption.
Qed.

(* transport loss: clients of other transports, and clients already being disconnected, are untouched *)
Lemma eio_loop_others c eio reason :
  has_actions c = false ->
  forall (l : list str) s first n' x,
    Inv s -> (forall n, In n l -> n <> []) ->
    (eio_from_sid (mg s) x n' <> Some eio \/ is_connected (mg s) (Some x) n' = false) ->
    let s2 := st (forM_keep l (fun n : str => handle_disconnect c eio (Some n) reason) first s) in
    is_connected (mg s2) (Some x) n' = is_connected (mg s) (Some x) n' /\
    eio_from_sid (mg s2) x n' = eio_from_sid (mg s) x n'.
Proof.
  intro Hna. induction l as [|n l IH]; intros s first n' x HI Hne HP s2; subst s2; [split; reflexivity|].
  rewrite forM_keep_cons. cbv zeta. cbn [st fst].
  set (s1 := st (handle_disconnect c eio (Some n) reason s)).
  assert (HI1 : Inv s1).
  { eapply star_Inv; [|exact HI]. apply (reach_handle_disconnect c eio (Some n) reason s). }
  assert (Hnd : ns_or_default (Some n) = n) by (destruct n; [exfalso; apply (Hne [] (or_introl eq_refl)); reflexivity|reflexivity]).
  assert (Hstep : is_connected (mg s1) (Some x) n' = is_connected (mg s) (Some x) n' /\
                  eio_from_sid (mg s1) x n' = eio_from_sid (mg s) x n').
  { unfold s1. destruct (sid_from_eio (mg s) eio n) as [sid|] eqn:Hs.
    - destruct (is_connected (mg s) (Some sid) n) eqn:Hc.
      + rewrite (handle_disconnect_eq c eio (Some n) reason s sid Hna) by (rewrite Hnd; assumption).
        cbv zeta. rewrite Hnd. cbn [st fst]. apply disc_state_keeps_any; [exact HI|exact Hc|].
        intro E. inversion E; subst n' x. destruct HP as [HP|HP]; [|congruence].
        apply HP. apply eio_of_sid; [apply HI|exact Hs].
      + rewrite handle_disconnect_noop by (rewrite Hnd, Hs; exact Hc). split; reflexivity.
    - rewrite handle_disconnect_noop by (rewrite Hnd, Hs; reflexivity). split; reflexivity. }
  destruct Hstep as [A B].
  match goal with |- context [forM_keep l _ ?ff s1] => set (first' := ff) end.
  destruct (IH s1 first' n' x HI1 (fun m H => Hne m (or_intror H))) as [A' B'].
  { rewrite A, B. exact HP. }
  split; [rewrite <- A; exact A'|rewrite <- B; exact B'].
Qed.

Definition close_T (s : srv) (eio : str) (nss : list str) : list (str * str) :=
  flat_map (fun n => match sid_from_eio (mg s) eio n with
                     | Some x => if is_connected (mg s) (Some x) n then [(n, x)] else []
                     | None => [] end) nss.

Lemma close_T_in s eio nss n x :
  In (n, x) (close_T s eio nss) <-> In n nss /\ sid_from_eio (mg s) eio n = Some x /\ is_connected (mg s) (Some x) n = true.
Proof.
  unfold close_T. rewrite in_flat_map. split.
  - intros (n0 & Hn0 & H). destruct (sid_from_eio (mg s) eio n0) as [y|] eqn:E; [|destruct H].
    destruct (is_connected (mg s) (Some y) n0) eqn:Ec; [|destruct H]. destruct H as [H|[]]. inversion H; subst. auto.
  - intros (Hn & Hs & Hc). exists n. split; [exact Hn|]. rewrite Hs, Hc. left. reflexivity.
Qed.
Lemma close_T_fst s eio nss : NoDup nss -> NoDup (map fst (close_T s eio nss)).
Proof.
  induction nss as [|n l IH]; intro H; [constructor|]. inversion H as [|? ? Hnot Hnd]; subst.
  unfold close_T. cbn [flat_map]. rewrite map_app. fold (close_T s eio l).
  assert (Hl : forall y, In y (map fst (close_T s eio l)) -> In y l).
  { intros y Hy. apply in_map_iff in Hy as ([a b] & E & Hin). cbn in E. subst. apply close_T_in in Hin. tauto. }
  destruct (sid_from_eio (mg s) eio n) as [x|]; [|exact (IH Hnd)].
  destruct (is_connected (mg s) (Some x) n); [|exact (IH Hnd)]. cbn [map fst app].
  constructor; [intro Hy; apply Hnot; apply Hl; exact Hy|exact (IH Hnd)].
Qed.
Lemma close_calls c s eio reason nss :
  disc_calls c (flat_map (disc_chunk c s eio reason) nss) =
  flat_map (fun nx => chunk c (fst nx) (snd nx) (reason_or_client reason)) (close_T s eio nss).
Proof.
  induction nss as [|n l IH]; [reflexivity|]. unfold close_T. cbn [flat_map]. fold (close_T s eio l).
  rewrite disc_calls_app, IH, flat_map_app. f_equal. unfold disc_chunk.
  destruct (sid_from_eio (mg s) eio n) as [x|]; [|reflexivity].
  destruct (is_connected (mg s) (Some x) n); [|reflexivity]. cbn [flat_map fst snd]. rewrite app_nil_r. apply disc_calls_chunk.
Qed.

(* ------------------------------------------------------------------ *)
(* the generator's domain and the per-step theorem                     *)
(* ------------------------------------------------------------------ *)
Definition st_domain (s : srv) : Prop :=
  (* every live transport went through the engine.io connect event *)
  (forall e, In e (live s) -> aget str_eqb (environ s) e <> None) /\
  (* no namespace is called like a session id (they start with "/") *)
  (forall n k, In n (get_namespaces (mg s)) -> n <> sid_name k).
Definition op_domain (c : cfg) (s : srv) (o : op) : Prop :=
  match o with
  | ApiLeaveRoom _ room _ => room <> PNone           (* leaving the everybody room = vanishing silently *)
  | ApiCloseRoom room _ => room <> PNone
  | EioClose _ reason => forall k, reason_or_client reason <> PStr (sid_name k)
  | EioMessage eio payload tbl =>                     (* no client EVENT literally named "disconnect" *)
      match event_of c s eio payload tbl with
      | Some (_, _, data) => forall ev args, split_event data = Ok (ev, args) -> is_disconnect ev = false
      | None => True
      end
  | _ => True
  end.
Definition c04_domain (c : cfg) (s : srv) (o : op) : Prop := ids_separate c /\ st_domain s /\ op_domain c s o.

Definition api_tail (r : Res unit) : list eff := match r with Err x => [Raised x] | Ok _ => [] end.
Lemma api_run m s : api m s = (st (m s), snd (fst (m s)) ++ api_tail (snd (m s)), Ok tt).
Proof. unfold api, st, api_tail. destruct (m s) as [[s1 e1] [u|x]]; cbn [fst snd]; rewrite ?app_nil_r; reflexivity. Qed.
Lemma step_of_api c s o m : step_m c o = api m -> step c s o = (st (m s), snd (fst (m s)) ++ api_tail (snd (m s))).
Proof. intro H. unfold step. rewrite H, api_run. reflexivity. Qed.
Lemma disc_calls_api_tail c r : disc_calls c (api_tail r) = [].
Proof. destruct r; reflexivity. Qed.

Lemma step_quiet_once c s o :
  MOK (mg s) -> quiet (step_m c o) -> c04_once c s (fst (step c s o)) (snd (step c s o)) = true.
Proof.
  intros Hm Hq. destruct (Hq s) as (H1 & H2 & H3). unfold step, st in *. destruct (step_m c o s) as [[s' e] r]. cbn [fst snd] in *.
  apply once_quiet; [exact Hm|apply keeps_rooms; assumption|apply disc_calls_nil; exact H3].
Qed.

Lemma reason_client_fixed : reason_or_client r_client_disconnect = r_client_disconnect.
Proof. reflexivity. Qed.
Lemma r_client_not_sid k : r_client_disconnect <> PStr (sid_name k).
Proof. unfold r_client_disconnect, sid_name. intro H. inversion H. Qed.
Lemma r_server_not_sid k : r_server_disconnect <> PStr (sid_name k).
Proof. unfold r_server_disconnect, sid_name. intro H. inversion H. Qed.

Section Step.
  Variables (c : cfg) (s : srv).
  Hypothesis Hna : has_actions c = false.
  Hypothesis HI : Inv s.
  Hypothesis H1 : sid_one_ns (mg s).
  Hypothesis Hsep : ids_separate c.
  Hypothesis Hst : st_domain s.

  Lemma once_handle_disconnect eio pn :
    let R := handle_disconnect c eio pn r_client_disconnect s in
    c04_once c s (st R) (snd (fst R)) = true.
  Proof.
    cbv zeta. set (ns := ns_or_default pn).
    destruct (is_connected (mg s) (sid_from_eio (mg s) eio ns) ns) eqn:Hc.
    - destruct (sid_from_eio (mg s) eio ns) as [sid|] eqn:Hs; [|discriminate].
      rewrite (handle_disconnect_eq c eio pn r_client_disconnect s sid Hna Hs Hc). cbv zeta. fold ns. cbn [st fst snd].
      apply (once_single c s sid ns _ r_client_disconnect HI H1 Hc).
      + apply disc_calls_chunk.
      + apply r_client_not_sid.
      + apply Hst.
    - rewrite handle_disconnect_noop by exact Hc. cbn [st fst snd].
      apply once_quiet; [apply HI|apply keeps_rooms; reflexivity|reflexivity].
  Qed.

  Lemma once_api_disconnect sid pn :
    let R := api_disconnect c sid pn s in
    c04_once c s (st R) (snd (fst R) ++ api_tail (snd R)) = true.
  Proof.
    cbv zeta. set (ns := ns_or_default pn).
    destruct (is_connected (mg s) (Some sid) ns) eqn:Hc.
    - rewrite (api_disconnect_eq c sid pn s Hna Hc). cbv zeta. fold ns. cbn [st fst snd].
      apply (once_single c s sid ns _ r_server_disconnect HI H1 Hc).
      + rewrite !disc_calls_app, disc_calls_api_tail, app_nil_r, disc_calls_chunk.
        replace (disc_calls c _) with (@nil (N * list pv)); [reflexivity|].
        symmetry. apply disc_calls_nil. destruct (eio_from_sid (mg s) sid ns); [apply sp_effs_calls|reflexivity].
      + apply r_server_not_sid.
      + apply Hst.
    - rewrite api_disconnect_noop by exact Hc. cbn [st fst snd api_tail app].
      apply once_quiet; [apply HI|apply keeps_rooms; reflexivity|reflexivity].
  Qed.

  Lemma once_eio_close eio reason :
    (forall k, reason_or_client reason <> PStr (sid_name k)) ->
    let R := handle_eio_disconnect c eio reason s in
    forall s', mg s' = mg (st R) -> c04_once c s s' (snd (fst R)) = true.
  Proof.
    intros Hr R s' Hs'. subst R.
    destruct (eio_disconnect_effects c eio reason s Hna HI) as (Heff & Hm' & Hgone & _).
    destruct (handle_eio_disconnect_run c eio reason s) as [res Hrun]. cbv zeta in Hrun.
    set (nss := get_namespaces (mg s)) in *.
    set (L := forM_keep nss (fun n : str => handle_disconnect c eio (Some n) reason) None s) in *.
    assert (Hmg : mg s' = mg (st L)) by (rewrite Hs', Hrun; reflexivity).
    rewrite Hrun in Heff, Hgone. cbn [st fst snd drop_eio mg] in Heff, Hgone. rewrite Hrun. cbn [fst snd].
    destruct HI as (Hm & _ & _ & Hnn).
    apply (once_clause c s s' _ (close_T s eio nss) (reason_or_client reason) HI H1).
    - rewrite Heff. apply close_calls.
    - intros n x Hin. apply close_T_in in Hin as (_ & Hs & Hc). split; [exact Hc|]. rewrite Hmg. apply (Hgone n x Hs Hc).
    - intros n x e Hin Hnot. rewrite Hmg.
      assert (HP : eio_from_sid (mg s) x n <> Some eio \/ is_connected (mg s) (Some x) n = false).
      { destruct (is_connected (mg s) (Some x) n) eqn:Hc; [|right; reflexivity]. left. intro He.
        apply Hnot. apply close_T_in. split; [|split; [apply sid_of_eio; assumption|exact Hc]].
        apply in_all_sids in Hin as (rm & b & Hrm & _). apply (in_map fst) in Hrm. exact Hrm. }
      destruct (eio_loop_others c eio reason Hna nss s None n x HI Hnn HP) as [A B]. fold L in A, B.
      split; [exact A|]. intros _. eapply is_member_true. rewrite B. apply all_sids_eio; [exact Hm|exact Hin].
    - apply close_T_fst. apply Hm.
    - exact Hr.
    - apply Hst.
  Qed.
End Step.

Lemma pair_of_triple {A} (x : srv * list eff * Res A) : (let '(s', e, _) := x in (s', e)) = (st x, snd (fst x)).
Proof. destruct x as [[a b] r]. reflexivity. Qed.
Lemma contain_st m s : st (contain m s) = st (m s) /\ snd (fst (contain m s)) = snd (fst (m s)).
Proof. unfold contain, st. destruct (m s) as [[a b] r]. split; reflexivity. Qed.

Section Step2.
  Variables (c : cfg) (s : srv).
  Hypothesis Hna : has_actions c = false.
  Hypothesis HI : Inv s.
  Hypothesis H1 : sid_one_ns (mg s).
  Hypothesis Hsep : ids_separate c.
  Hypothesis Hst : st_domain s.

  Lemma once_run_quiet {A} (m : SM A) : quiet m -> c04_once c s (st (m s)) (snd (fst (m s))) = true.
  Proof.
    intro Hq. destruct (quiet_keeps m s Hq) as [Hk Hc].
    apply once_quiet; [apply HI|exact Hk|apply disc_calls_nil; exact Hc].
  Qed.

  Lemma once_message_other eio payload tbl :
    is_live s eio = true -> connect_of c s eio payload tbl = None ->
    op_domain c s (EioMessage eio payload tbl) ->
    let o := EioMessage eio payload tbl in
    c04_once c s (fst (step c s o)) (snd (step c s o)) = true.
  Proof.
    intros Hl Hco Hop o. subst o. cbn [op_domain] in Hop.
    destruct (event_of c s eio payload tbl) as [[[pn id] data]|] eqn:He.
    { destruct (step_event_effs c s eio payload tbl pn id data Hna Hl He) as [Heff Hmg]. rewrite Heff.
      apply once_quiet; [apply HI|apply keeps_rooms; rewrite Hmg; reflexivity|].
      apply disc_calls_none. apply he_pure_not_disc; assumption. }
    unfold step, step_m. rewrite bindM_getS. unfold is_live in Hl. rewrite Hl. rewrite pair_of_triple.
    destruct (contain_st (handle_eio_message c (table_loads tbl) eio payload) s) as [E1 E2]. rewrite E1, E2. cbn [fst snd].
    unfold connect_of, classify in Hco. unfold event_of in He.
    unfold handle_eio_message. rewrite bindM_getS.
    destruct (aget str_eqb (binpkt s) eio) as [r0|] eqn:Hbp.
    - destruct (add_attachment r0 payload) as [[r' [|]]|x].
      + destruct (type_is (rp r') BINARY_EVENT); [discriminate|].
        apply once_run_quiet. apply quiet_bind; [apply quiet_set_binpkt|]. intro. apply quiet_handle_ack.
      + apply once_run_quiet. apply quiet_set_binpkt.
      + apply once_run_quiet. apply quiet_bind; [|intro; apply quiet_raise].
        destruct (N.leb _ _); [apply quiet_ret|apply quiet_set_binpkt].
    - destruct (decode_any c (table_loads tbl) payload) as [r|x];
        [|rewrite bindM_lift_err; cbn [st fst snd]; apply once_quiet; [apply HI|apply keeps_rooms; reflexivity|reflexivity]].
      rewrite bindM_lift_ok.
      destruct (type_is (rp r) CONNECT); [discriminate|].
      destruct (type_is (rp r) DISCONNECT); [apply (once_handle_disconnect c s Hna HI H1 Hst)|].
      destruct (type_is (rp r) EVENT); [discriminate|].
      destruct (type_is (rp r) ACK); [apply once_run_quiet; apply quiet_handle_ack|].
      destruct (type_is (rp r) BINARY_EVENT || type_is (rp r) BINARY_ACK);
        apply once_run_quiet; [apply quiet_set_binpkt|apply quiet_raise].
  Qed.
End Step2.

Theorem model_passes_c04_step c s o :
  has_actions c = false -> Inv s -> sid_one_ns (mg s) -> c04_domain c s o ->
  c04_step c s o (snd (step c s o)) = true.
Proof.
  intros Hna HI H1 (Hsep & Hst & Hop). unfold c04_step. rewrite Hna.
  pose proof (proj1 HI) as Hm.
  destruct o as [eio env|eio payload tbl|eio reason|ev data to room skip ns cb|sid room ns|sid room ns|room ns|sid ns|sid ns|sid ns|sid v ns|sid ns k v].
  - (* EioConnect *) cbn [andb]. apply step_quiet_once; [exact Hm|]. apply quiet_other. reflexivity.
  - (* EioMessage *)
    destruct (existsb (str_eqb eio) (live s)) eqn:Hl; cbn [negb].
    2:{ cbn [andb]. assert (E : step c s (EioMessage eio payload tbl) = (s, [])).
        { unfold step, step_m. rewrite bindM_getS, Hl. reflexivity. }
        rewrite E. apply once_quiet; [exact Hm|apply keeps_rooms; reflexivity|reflexivity]. }
    destruct (connect_of c s eio payload tbl) as [[pn data]|] eqn:Hco.
    + assert (Henv : exists env, aget str_eqb (environ s) eio = Some env).
      { destruct Hst as [Hle _]. specialize (Hle eio). destruct (aget str_eqb (environ s) eio); [eauto|].
        exfalso. apply Hle; [|reflexivity]. apply existsb_str_in. exact Hl. }
      destruct Henv as [env Henv].
      rewrite (model_passes_c04_connect c s eio payload tbl pn data env Hna HI Hl Hco Henv). cbn [andb].
      rewrite (step_connect c s eio payload tbl pn data Hl Hco). cbn [fst snd].
      destruct (handle_connect_keeps c eio pn data s env Hna Hsep HI Henv) as [Hk Hc].
      apply once_quiet; assumption.
    + cbn [andb]. apply once_message_other; assumption.
  - (* EioClose *) cbn [andb]. unfold step, step_m. rewrite bindM_getS.
    destruct (existsb (str_eqb eio) (live s)) eqn:Hl.
    2:{ cbn [ret fst snd]. apply once_quiet; [exact Hm|apply keeps_rooms; reflexivity|reflexivity]. }
    rewrite pair_of_triple. unfold bindM.
    destruct (contain_st (handle_eio_disconnect c eio reason) s) as [E1 E2].
    destruct (contain (handle_eio_disconnect c eio reason) s) as [[s1 e1] r1] eqn:Ec. unfold st in E1. cbn [fst snd] in E1, E2.
    destruct r1 as [u|x]; cbn [modify st fst snd].
    + rewrite app_nil_r, E2. apply (once_eio_close c s Hna HI H1 Hst eio reason Hop). cbn [mg]. rewrite E1. reflexivity.
    + rewrite E2. apply (once_eio_close c s Hna HI H1 Hst eio reason Hop). rewrite E1. reflexivity.
  - (* ApiEmit *) cbn [andb]. apply step_quiet_once; [exact Hm|]. cbn [step_m]. apply quiet_api. apply quiet_mgr_emit.
  - (* ApiEnterRoom *) cbn [andb].
    unfold step. cbn [step_m]. rewrite api_run. cbn [fst snd]. unfold bindM. rewrite with_mg_eq.
    destruct (enter_room_members (mg s) sid (ns_or_default ns) room Hm) as [Hp Hn].
    destruct (snd (enter_room (mg s) sid (ns_or_default ns) room)); cbn [lift st fst snd app];
      (apply once_quiet; [exact Hm|apply keeps_members; assumption|reflexivity]).
  - (* ApiLeaveRoom *) cbn [andb]. cbn [op_domain] in Hop.
    unfold step. cbn [step_m]. rewrite api_run, set_mg_eq. cbn [st fst snd app api_tail].
    apply once_quiet; [exact Hm| |reflexivity]. apply keeps_members; cbn [mg upd_mg].
    + apply leave_room_pending.
    + apply leave_room_keeps_members; assumption.
  - (* ApiCloseRoom *) cbn [andb]. cbn [op_domain] in Hop.
    unfold step. cbn [step_m]. rewrite api_run, set_mg_eq. cbn [st fst snd app api_tail].
    destruct (close_room_members (mg s) room (ns_or_default ns) Hm Hop) as [Hp Hn].
    apply once_quiet; [exact Hm|apply keeps_members; assumption|reflexivity].
  - (* ApiRooms *) cbn [andb]. apply step_quiet_once; [exact Hm|]. cbn [step_m].
    apply quiet_getS; intro. apply quiet_tell. exact I.
  - (* ApiDisconnect *) cbn [andb]. unfold step. cbn [step_m]. rewrite api_run. cbn [fst snd].
    apply (once_api_disconnect c s Hna HI H1 Hst).
  - (* ApiGetSession *) cbn [andb]. apply step_quiet_once; [exact Hm|]. cbn [step_m]. apply quiet_api.
    apply quiet_bind; [apply quiet_api_get_session|]. intro. apply quiet_tell. exact I.
  - (* ApiSaveSession *) cbn [andb]. apply step_quiet_once; [exact Hm|]. cbn [step_m]. apply quiet_api. apply quiet_api_save_session.
  - (* ApiSessionSet *) cbn [andb]. apply step_quiet_once; [exact Hm|]. cbn [step_m]. apply quiet_api.
    apply quiet_bind; [apply quiet_api_get_session|]. intro. apply quiet_api_save_session.
Qed.

(* ------------------------------------------------------------------ *)
(* a session id belongs to one namespace: invariant                    *)
(* ------------------------------------------------------------------ *)
Definition mem_sub (m' m : mgr) : Prop :=
  forall x n e, eio_from_sid m' x n = Some e -> eio_from_sid m x n = Some e.
Lemma mem_sub_refl m : mem_sub m m. Proof. intros x n e H. exact H. Qed.
Lemma mem_sub_trans a b d : mem_sub a b -> mem_sub b d -> mem_sub a d.
Proof. intros H1 H2 x n e H. apply H2, H1, H. Qed.
Lemma mem_sub_rooms m' m : rooms m' = rooms m -> mem_sub m' m.
Proof. intros H x n e. unfold eio_from_sid, room_of, ns_rooms. rewrite H. auto. Qed.
Lemma mem_sub_members m' m : (forall n, ns_members m' n = ns_members m n) -> mem_sub m' m.
Proof. intros H x n e. rewrite !eio_from_sid_members, H. auto. Qed.
Lemma one_ns_sub m' m : sid_one_ns m -> mem_sub m' m -> sid_one_ns m'.
Proof. intros H Hs ns ns' sid e e' A B. eapply H; apply Hs; eassumption. Qed.

Lemma bd_get_adel_sub (b : bidict) y x e : NoDup (map fst b) -> bd_get (adel str_eqb b y) x = Some e -> bd_get b x = Some e.
Proof.
  intros Hk H. destruct (str_eqb y x) eqn:E.
  - apply str_eqb_eq in E. subst. unfold bd_get in H. rewrite saget_adel_same in H by exact Hk. discriminate.
  - unfold bd_get in *. rewrite saget_adel_other in H; [exact H|]. intro; subst; rewrite str_eqb_refl in E; discriminate.
Qed.

Lemma mem_sub_leave m sid ns room : MOK m -> mem_sub (leave_room m sid ns room) m.
Proof.
  intros Hm x n e. rewrite !eio_from_sid_members. destruct (str_eqb ns n) eqn:E.
  - apply str_eqb_eq in E. subst n. rewrite (leave_room_members m sid ns room Hm).
    destruct (pv_eqb room PNone); [|auto]. apply bd_get_adel_sub. apply members_keys. exact Hm.
  - destruct (leave_room_spec m sid ns room Hm) as (_ & _ & _ & Hf & _).
    rewrite !ns_members_eq, Hf; [auto|]. intro; subst; rewrite str_eqb_refl in E; discriminate.
Qed.
Lemma mem_sub_fold_leave {A} (f : A -> str) (g : A -> pv) ns l : forall m,
  MOK m -> mem_sub (fold_left (fun m x => leave_room m (f x) ns (g x)) l m) m.
Proof.
  induction l as [|x l IH]; intros m Hm; cbn [fold_left]; [apply mem_sub_refl|].
  eapply mem_sub_trans; [apply IH; apply (leave_room_spec m (f x) ns (g x) Hm)|apply mem_sub_leave; exact Hm].
Qed.
Lemma mem_sub_close m room ns : MOK m -> mem_sub (close_room m room ns) m.
Proof.
  intro Hm. unfold close_room. destruct (participants m ns room); [|apply mem_sub_refl].
  apply (mem_sub_fold_leave (fun se : str * str => fst se) (fun _ => room)). exact Hm.
Qed.
Lemma mem_sub_disc m sid ns : MOK m -> mem_sub (mgr_disconnect m sid ns) m.
Proof.
  intros Hm x n e. rewrite !eio_from_sid_members. destruct (str_eqb ns n) eqn:E.
  - apply str_eqb_eq in E. subst n. rewrite mgr_disconnect_members by exact Hm. apply bd_get_adel_sub. apply members_keys. exact Hm.
  - destruct (mgr_disconnect_spec m sid ns Hm) as (_ & _ & Hf & _).
    rewrite !ns_members_eq, Hf; [auto|]. intro; subst; rewrite str_eqb_refl in E; discriminate.
Qed.

Theorem prim_one_ns s s' : prim s s' -> Inv s -> sid_one_ns (mg s) -> sid_one_ns (mg s').
Proof.
  intros Hp HI H1. pose proof (proj1 HI) as Hm. destruct Hp; cbn [mg upd_mg bump].
  - exact H1.
  - eapply one_ns_sub; [exact H1|apply mem_sub_leave; exact Hm].
  - eapply one_ns_sub; [exact H1|apply mem_sub_members; apply (enter_room_members (mg s) sid ns room Hm)].
  - eapply one_ns_sub; [exact H1|apply mem_sub_close; exact Hm].
  - eapply one_ns_sub; [exact H1|apply mem_sub_disc; exact Hm].
  - eapply one_ns_sub; [exact H1|apply mem_sub_rooms; apply pre_disconnect_rooms].
  - eapply one_ns_sub; [exact H1|apply mem_sub_rooms; apply generate_ack_id_rooms].
  - eapply one_ns_sub; [exact H1|apply mem_sub_rooms].
    unfold trigger_callback. destruct osid; [|reflexivity]. destruct id; [|reflexivity].
    destruct (aget str_eqb (callbacks (mg s)) s0); [|reflexivity]. destruct (_ <=? _)%Z; [reflexivity|].
    destruct (aget N.eqb _ _); reflexivity.
  - destruct (sid_from_eio (mg s) eio ns) as [s0|] eqn:Hs.
    + assert (Hne : s0 <> new_sid s) by (intro; subst; exact (fresh_not_sid_from_eio s HI eio ns Hs)).
      unfold sid_from_eio in Hs. destruct (room_of (mg s) ns PNone) as [b|] eqn:Hb; [|discriminate].
      rewrite (mgr_connect_dup _ _ _ _ _ _ Hb Hs Hne). exact H1.
    + pose proof (conn_state_keeps s eio ns HI Hs) as [_ Hk].
      destruct (mgr_connect_new (mg s) eio ns (new_sid s) Hs) as (_ & Hroom & _ & _ & Hf).
      set (m' := fst (mgr_connect (mg s) eio ns (new_sid s))) in *.
      (* membership in m': old members unchanged, the new sid only in ns *)
      assert (Hold : forall x n e, x <> new_sid s -> eio_from_sid m' x n = Some e -> eio_from_sid (mg s) x n = Some e).
      { intros x n e Hx. destruct (str_eqb ns n) eqn:E.
        - apply str_eqb_eq in E. subst n. unfold eio_from_sid at 1. rewrite Hroom. unfold bd_get.
          rewrite saget_aset_other by (intro; apply Hx; symmetry; assumption).
          rewrite eio_from_sid_members, ns_members_eq. unfold pm_b, pm_rm. destruct (ns_rooms (mg s) ns); auto.
        - unfold eio_from_sid. rewrite !room_of_none, Hf; [auto|]. intro; subst; rewrite str_eqb_refl in E; discriminate. }
      assert (Hnew : forall n e, eio_from_sid m' (new_sid s) n = Some e -> n = ns).
      { intros n e He. destruct (str_eqb ns n) eqn:E; [apply str_eqb_eq in E; congruence|]. exfalso.
        unfold eio_from_sid in He. rewrite room_of_none, Hf in He by (intro; subst; rewrite str_eqb_refl in E; discriminate).
        pose proof (fresh_no_eio s HI n) as H0. unfold eio_from_sid in H0. rewrite room_of_none in H0. congruence. }
      intros n n' x e e' A B. destruct (str_eqb x (new_sid s)) eqn:Ex.
      * apply str_eqb_eq in Ex. subst x. rewrite (Hnew _ _ A), (Hnew _ _ B). reflexivity.
      * assert (Hx : x <> new_sid s) by (intro; subst; rewrite str_eqb_refl in Ex; discriminate).
        eapply H1; eapply Hold; eassumption.
Qed.

(* the strengthened invariant *)
Definition Inv1 (s : srv) : Prop := Inv s /\ sid_one_ns (mg s).
Lemma Inv1_init : Inv1 srv_init.
Proof. split; [apply Inv_init|]. intros ns ns' sid e e' H. discriminate H. Qed.
Theorem star_Inv1 s s' : Lifecycle.star s s' -> Inv1 s -> Inv1 s'.
Proof.
  induction 1 as [|s s1 s2 Hp _ IH]; [auto|]. intros [HI H1]. apply IH.
  split; [eapply prim_Inv; eassumption|eapply prim_one_ns; eassumption].
Qed.
Theorem step_Inv1 c s o : Inv1 s -> Inv1 (fst (step c s o)).
Proof. apply star_Inv1. apply step_star. Qed.

(* ------------------------------------------------------------------ *)
(* histories                                                           *)
(* ------------------------------------------------------------------ *)
Fixpoint c04_domain_run (c : cfg) (s : srv) (ops : list op) : Prop :=
  match ops with
  | [] => True
  | o :: r => c04_domain c s o /\ c04_domain_run c (fst (step c s o)) r
  end.

Theorem model_passes_c04_step_inv c s o :
  has_actions c = false -> c04_domain c s o -> Inv1 s -> c04_step c s o (snd (step c s o)) = true.
Proof. intros Hna Hd [HI H1]. apply model_passes_c04_step; assumption. Qed.

Theorem model_passes_c04_all c :
  has_actions c = false ->
  forall ops s, Inv1 s -> c04_domain_run c s ops -> all_steps (c04_step c) c s ops (snd (run c s ops)) = true.
Proof.
  intro Hna. induction ops as [|o r IH]; intros s HI Hd; [reflexivity|].
  destruct Hd as [Hd Hr]. rewrite run_cons. cbn [snd all_steps].
  rewrite (model_passes_c04_step_inv c s o Hna Hd HI). apply IH; [apply step_Inv1; exact HI|exact Hr].
Qed.

(* ------------------------------------------------------------------ *)
(* Examples                                                            *)
(* ------------------------------------------------------------------ *)
Module StepEx.
  Import Ex.
  Open Scope string_scope.
  Definition cD : cfg :=
    mkCfg [(slash, [(s2l "connect", 1%N); (s2l "disconnect", 2%N); (s2l "msg", 3%N)])] []
          [(1%N, mkBehav (Some 2%nat) [] (Returns PNone)); (2%N, mkBehav (Some 2%nat) [] (Returns PNone));
           (3%N, mkBehav (Some 2%nat) [] (Returns (PInt 9)))]
          (Some [slash]) false true.
  Lemma cD_separate : ids_separate cD.
  Proof.
    intros ev ns args h a Hd Hr.
    assert (Hh : h <> 2%N).
    { intro; subst h. unfold responsible, get_event_handler, get_namespace_handler in Hr. cbn [handlers ns_handlers cD aget] in Hr.
      destruct (str_eqb slash ns); cbn [aget] in Hr.
      - destruct ev; cbn [ev_lookup] in Hr; try (destruct (reserved _); discriminate).
        cbn [aget] in Hr. destruct (str_eqb (s2l "connect") s) eqn:E1; [inversion Hr|].
        destruct (str_eqb (s2l "disconnect") s) eqn:E2.
        + apply str_eqb_eq in E2. subst s. discriminate Hd.
        + destruct (str_eqb (s2l "msg") s); [inversion Hr|]. destruct (reserved (PStr s)); discriminate.
      - discriminate. }
    assert (E : is_disc_handler cD h = N.eqb 2 h || false) by reflexivity. rewrite E, orb_false_r.
    destruct (N.eqb 2 h) eqn:E2; [apply N.eqb_eq in E2; congruence|reflexivity].
  Qed.
  Definition opsD : list op :=
    [EioConnect e1 env1; EioConnect e2 env1; EioMessage e1 (PStr (s2l "0")) []; EioMessage e2 (PStr (s2l "0")) [];
     EioMessage e1 (PStr (s2l "2[""msg"",5]")) [(s2l "[""msg"",5]", Ok (PList [PStr (s2l "msg"); PInt 5]))];
     EioMessage e1 (PStr (s2l "1")) []; ApiDisconnect (sid_name 1) None; EioClose e2 (PStr (s2l "transport close"))].
  (* the checker sees the two disconnect-handler runs (packet, API) and accepts; it rejects a run in
     which the handler is invoked twice or not at all *)
  Example model_passes_c04_all_ex :
    all_steps (c04_step cD) cD srv_init opsD (snd (run cD srv_init opsD)) = true /\
    List.concat (snd (run cD srv_init opsD)) =
      [Call 1 [S 0; env1]; Out e1 (PStr (s2l "0{""sid"":""S0""}"));
       Call 1 [S 1; env1]; Out e2 (PStr (s2l "0{""sid"":""S1""}"));
       Call 3 [S 0; PInt 5];
       Call 2 [S 0; r_client_disconnect];
       Out e2 (PStr (s2l "1")); Call 2 [S 1; r_server_disconnect]] /\
    (let s5 := fst (run cD srv_init (firstn 5 opsD)) in
     c04_step cD s5 (EioMessage e1 (PStr (s2l "1")) []) [] = false /\
     c04_step cD s5 (EioMessage e1 (PStr (s2l "1")) [])
       [Call 2 [S 0; r_client_disconnect]; Call 2 [S 0; r_client_disconnect]] = false).
  Proof. vm_compute. repeat split; reflexivity. Qed.

  (* the corrected expectation: a disconnect handler that cannot be called (three parameters) never runs *)
  Definition c3 : cfg :=
    mkCfg [(slash, [(s2l "connect", 1%N); (s2l "disconnect", 2%N)])] []
          [(1%N, mkBehav (Some 2%nat) [] (Returns PNone)); (2%N, mkBehav (Some 3%nat) [] (Returns PNone))]
          (Some [slash]) false true.
  Example unfit_disconnect_handler_ex :
    let s1 := fst (run c3 srv_init [EioConnect e1 env1; EioMessage e1 (PStr (s2l "0")) []]) in
    let o := EioMessage e1 (PStr (s2l "1")) [] in
    snd (step c3 s1 o) = [] /\ c04_step c3 s1 o (snd (step c3 s1 o)) = true /\
    c04_step c3 s1 o [Call 2 [S 0; r_client_disconnect]] = false.
  Proof. vm_compute. repeat split; reflexivity. Qed.
End StepEx.
