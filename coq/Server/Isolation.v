(* C12: hostile input from one client cannot touch other clients or stop the server. *)
From VT Require Export Server.SrvInv Check.C12Check.
From VT Require Import Codec.PacketProofs Base.PyStrProofs.
From Coq Require Import Lia.
Open Scope N_scope.
(* ------------------------------------------------------------------------------------ *)
(** * Undecodable input *)

Theorem C12_undecodable_lemma c s e payload tbl x :
  aget str_eqb (binpkt s) e = None ->
  decode_any c (table_loads tbl) payload = Err x ->
  step c s (EioMessage e payload tbl) = (s, []).
Proof.
  intros Hb Hd. unfold step. cbn [step_m]. unfold bindM at 1. unfold getS at 1.
  destruct (existsb (str_eqb e) (live s)); [|reflexivity].
  unfold contain, handle_eio_message. unfold bindM at 1. unfold getS at 1. rewrite Hb.
  unfold bindM at 1. rewrite Hd. reflexivity.
Qed.

(* the msgpack decoder rejects values of the wrong shape *)
Lemma decode_msgpack_not_dict (loads : str -> Res pv) payload d :
  truthy payload = true ->
  loads (match payload return str with PBytes b | PStr b => b | _ => [] end) = Ok d ->
  (forall kv, d <> PDict kv) -> decode_msgpack loads payload = Err TypeError.
Proof.
  intros Ht Hl Hd. unfold decode_msgpack. rewrite Ht, Hl. cbn [negb bind].
  destruct d; try reflexivity. exfalso. eapply Hd; eauto.
Qed.
Lemma decode_msgpack_missing (loads : str -> Res pv) payload kv :
  truthy payload = true ->
  loads (match payload return str with PBytes b | PStr b => b | _ => [] end) = Ok (PDict kv) ->
  dict_get kv (PStr (s2l "type")) = None \/ dict_get kv (PStr (s2l "nsp")) = None ->
  decode_msgpack loads payload = Err KeyError.
Proof.
  intros Ht Hl Hm. unfold decode_msgpack. rewrite Ht, Hl. cbn [negb bind].
  destruct (dict_get kv (PStr (s2l "type"))) as [t|]; [|reflexivity].
  destruct Hm as [Hm|Hm]; [discriminate|]. rewrite Hm. reflexivity.
Qed.
Lemma decode_msgpack_loads_err (loads : str -> Res pv) payload x :
  truthy payload = true ->
  loads (match payload return str with PBytes b | PStr b => b | _ => [] end) = Err x ->
  decode_msgpack loads payload = Err x.
Proof. intros Ht Hl. unfold decode_msgpack. rewrite Ht, Hl. reflexivity. Qed.

Theorem C12_msgpack_mistyped_rejected_lemma c s e payload tbl :
  uses_binary c = false -> aget str_eqb (binpkt s) e = None -> truthy payload = true ->
  (match table_loads tbl (match payload return str with PBytes b | PStr b => b | _ => [] end) with
   | Err _ => True
   | Ok (PDict kv) => dict_get kv (PStr (s2l "type")) = None \/ dict_get kv (PStr (s2l "nsp")) = None
   | Ok _ => True
   end) ->
  step c s (EioMessage e payload tbl) = (s, []).
Proof.
  intros Hu Hb Ht Hshape.
  assert (exists x, decode_any c (table_loads tbl) payload = Err x) as [x Hx].
  { unfold decode_any. rewrite Hu.
    destruct (table_loads tbl _) as [d|x] eqn:Hl.
    - destruct d; try (eexists; apply (decode_msgpack_not_dict _ _ _ Ht Hl); discriminate).
      eexists. eapply decode_msgpack_missing; eauto.
    - eexists. eapply decode_msgpack_loads_err; eauto. }
  eapply C12_undecodable_lemma; eauto.
Qed.

(* ------------------------------------------------------------------------------------ *)
(** * Decoder guards *)

Lemma digits_no (ds : str) c : forallb is_digit ds = true -> is_digit c = false -> forall x, In x ds -> x <> c.
Proof.
  intros H Hc x Hx ->. rewrite forallb_forall in H. rewrite (H _ Hx) in Hc. discriminate.
Qed.

Lemma isdigit_str_all ds : ds <> [] -> forallb is_digit ds = true -> isdigit_str ds = true.
Proof. destruct ds; [contradiction|]. intros _ H. exact H. Qed.

(* an attachment-count field (the digits before the first '-') longer than 10 characters *)
Theorem C12_guard_count_lemma loads c0 ds rest :
  forallb is_digit ds = true -> (10 < List.length ds)%nat ->
  decode_str loads (c0 :: ds ++ 45 :: rest) = Err ValueError.
Proof.
  intros Hd Hlen. rewrite decode_str_eq. destruct (dec_val c0) as [t|]; [|reflexivity].
  unfold scan_count. rewrite (find_app_notin 45 ds rest) by (apply digits_no; [auto|apply not_digit_dash]).
  destruct (List.length ds) as [|d] eqn:El; [lia|]. rewrite <- El.
  rewrite firstn_length_app. rewrite isdigit_str_all; auto.
  - assert (Hlt : Nat.ltb 10 (List.length ds) = true) by (apply Nat.ltb_lt; lia). rewrite Hlt. reflexivity.
  - intros ->. discriminate.
Qed.

Lemma digit_run_full ds : forall cap rest, forallb is_digit ds = true -> (cap <= List.length ds)%nat ->
  digit_run cap (ds ++ rest) = cap.
Proof.
  induction ds as [|d ds IH]; intros cap rest Hd Hc.
  - cbn in Hc. assert (cap = O) by lia. subst. reflexivity.
  - destruct cap as [|cap]; [reflexivity|]. cbn [forallb] in Hd. apply andb_true_iff in Hd as [H1 H2].
    cbn [app digit_run]. rewrite H1. f_equal. apply IH; auto. cbn in Hc. lia.
Qed.

(* an id field with more than 100 digits *)
Lemma scan_id_guard ds rest :
  forallb is_digit ds = true -> (100 < List.length ds)%nat -> scan_id (ds ++ rest) = Err ValueError.
Proof.
  intros Hd Hlen. destruct ds as [|c r]; [cbn in Hlen; lia|].
  cbn [forallb] in Hd. apply andb_true_iff in Hd as [H1 H2]. cbn [app scan_id]. rewrite H1.
  rewrite digit_run_full by (auto; cbn in Hlen; lia).
  destruct (py_int (firstn 100 (c :: r ++ rest))) as [n|x] eqn:Ep.
  - cbn [bind].
    assert (Hsk : exists c' t, skipn 100 (c :: r ++ rest) = c' :: t /\ is_digit c' = true).
    { change (c :: r ++ rest) with ((c :: r) ++ rest).
      assert (Hsplit : c :: r = firstn 100 (c :: r) ++ skipn 100 (c :: r)) by (symmetry; apply firstn_skipn).
      assert (Hl1 : List.length (firstn 100 (c :: r)) = 100%nat) by (rewrite firstn_length; cbn [List.length] in *; lia).
      destruct (skipn 100 (c :: r)) as [|c' t] eqn:Es.
      - exfalso. rewrite app_nil_r in Hsplit. rewrite Hsplit in Hlen. rewrite Hl1 in Hlen. lia.
      - exists c', (t ++ rest). split.
        + rewrite Hsplit at 1. rewrite <- app_assoc. rewrite <- Hl1 at 1. rewrite skipn_length_app. reflexivity.
        + assert (Hin : In c' (c :: r)). { rewrite Hsplit. apply in_or_app. right. left. reflexivity. }
          destruct Hin as [<-|Hin]; [auto|]. rewrite forallb_forall in H2. auto. }
    destruct Hsk as (c' & t & -> & Hc'). rewrite Hc'. reflexivity.
  - unfold py_int in Ep. destruct (firstn 100 (c :: r ++ rest)); [injection Ep as <-; reflexivity|].
    destruct (int_acc _ 0); [discriminate|]. injection Ep as <-. reflexivity.
Qed.

Lemma find_ge_prefix c (ds rest : str) d :
  (forall x, In x ds -> x <> c) -> PyStr.find c (ds ++ rest) = Some d -> (List.length ds <= d)%nat.
Proof.
  revert d. induction ds as [|x ds IH]; intros d Hno Hf; [cbn; lia|].
  cbn [app PyStr.find] in Hf. destruct (N.eqb x c) eqn:E.
  - apply N.eqb_eq in E. exfalso. apply (Hno x); [left; reflexivity|auto].
  - destruct (PyStr.find c (ds ++ rest)) as [d'|] eqn:Ef; [|discriminate]. injection Hf as <-.
    cbn [List.length]. apply le_n_S. apply IH; auto. intros y Hy. apply Hno. right. auto.
Qed.

Lemma scan_count_long_digits ds rest :
  forallb is_digit ds = true -> (10 < List.length ds)%nat ->
  scan_count (ds ++ rest) = Err ValueError \/ scan_count (ds ++ rest) = Ok (0, ds ++ rest).
Proof.
  intros Hd Hlen. unfold scan_count. destruct (PyStr.find 45 (ds ++ rest)) as [[|d]|] eqn:Ef; auto.
  destruct (isdigit_str (firstn (S d) (ds ++ rest))); auto.
  assert (Hge : (List.length ds <= S d)%nat).
  { eapply find_ge_prefix; eauto. apply digits_no; [auto|apply not_digit_dash]. }
  assert (Hlt : Nat.ltb 10 (S d) = true) by (apply Nat.ltb_lt; lia). rewrite Hlt. auto.
Qed.

Theorem C12_guard_id_lemma loads c0 ds rest :
  forallb is_digit ds = true -> (100 < List.length ds)%nat ->
  decode_str loads (c0 :: ds ++ rest) = Err ValueError.
Proof.
  intros Hd Hlen. rewrite decode_str_eq. destruct (dec_val c0) as [t|]; [|reflexivity].
  destruct (scan_count_long_digits ds rest Hd) as [->| ->]; [lia|reflexivity|]. cbn [bind].
  unfold decode_rest.
  assert (Hns : scan_ns (ds ++ rest) = (None, ds ++ rest)).
  { destruct ds as [|c r]; [cbn in Hlen; lia|]. cbn [app]. apply scan_ns_not_slash.
    cbn [forallb] in Hd. apply andb_true_iff in Hd as [H1 _]. intros ->. rewrite not_digit_slash in H1. discriminate. }
  rewrite Hns. rewrite scan_id_guard; auto.
Qed.

(* the same with a namespace in front of the id *)
Theorem C12_guard_id_ns_lemma loads c0 nsr ds rest :
  existsb (N.eqb 44) nsr = false ->
  forallb is_digit ds = true -> (100 < List.length ds)%nat ->
  decode_str loads (c0 :: (47 :: nsr) ++ 44 :: ds ++ rest) = Err ValueError.
Proof.
  intros Hns Hd Hlen. rewrite decode_str_eq. destruct (dec_val c0) as [t|]; [|reflexivity].
  assert (Hc : scan_count ((47 :: nsr) ++ 44 :: ds ++ rest) = Ok (0, (47 :: nsr) ++ 44 :: ds ++ rest)).
  { unfold scan_count. destruct (PyStr.find 45 _) as [[|d]|]; auto. }
  rewrite Hc. cbn [bind]. unfold decode_rest.
  rewrite (scan_ns_some nsr (ds ++ rest) Hns). rewrite scan_id_guard; auto.
Qed.

(* ------------------------------------------------------------------------------------ *)
(** * What one frame can add to the receive buffer *)

Lemma add_attachment_grows r a r' fin :
  add_attachment r a = Ok (r', fin) -> List.length (ratts r') = S (List.length (ratts r)).
Proof.
  unfold add_attachment. destruct (N.leb _ _); [discriminate|].
  destruct (N.eqb _ _).
  - destruct (recon _ _); [|discriminate]. cbn [bind]. intros [= <- _]. cbn [ratts]. rewrite app_length. cbn. lia.
  - intros [= <- _]. cbn [ratts]. rewrite app_length. cbn. lia.
Qed.

Lemma decode_str_ratts loads s r : decode_str loads s = Ok r -> ratts r = [].
Proof.
  destruct s as [|c0 ep]; [intros [= <-]; reflexivity|]. rewrite decode_str_eq.
  destruct (dec_val c0); [|discriminate]. destruct (scan_count ep) as [[count ep']|]; [|discriminate]. cbn [bind].
  unfold decode_rest. destruct (scan_ns ep') as [ns ep'']. destruct (scan_id ep'') as [[id ep3]|]; [|discriminate].
  cbn [bind]. destruct (match ep3 with [] => Ok PNone | _ => loads ep3 end); [|discriminate]. cbn [bind].
  intros [= <-]. reflexivity.
Qed.

Lemma decode_ratts loads payload r : decode loads payload = Ok r -> ratts r = [].
Proof.
  unfold decode. destruct (negb (truthy payload)); [intros [= <-]; reflexivity|].
  destruct payload; try (intros [= <-]; reflexivity); try discriminate.
  - apply decode_str_ratts.
  - destruct b as [|c b]; [intros [= <-]; reflexivity|]. destruct (_ && _); discriminate.
Qed.
Lemma decode_msgpack_ratts loads payload r : decode_msgpack loads payload = Ok r -> ratts r = [].
Proof.
  unfold decode_msgpack. destruct (negb (truthy payload)); [intros [= <-]; reflexivity|].
  destruct (loads _) as [d|]; [|discriminate]. cbn [bind]. destruct d; try discriminate.
  destruct (dict_get kv (PStr (s2l "type"))); [|discriminate].
  destruct (dict_get kv (PStr (s2l "nsp"))) as [nsv|]; [|discriminate].
  destruct (match nsv with PStr n => Some (Some n) | PNone => Some None | _ => None end); [|discriminate].
  destruct (match dict_get kv (PStr (s2l "id")) with
            | None | Some PNone => Some None | Some (PInt i) => Some (Some i) | Some _ => None end); [|discriminate].
  intros [= <-]. reflexivity.
Qed.
Lemma decode_any_ratts c loads payload r : decode_any c loads payload = Ok r -> ratts r = [].
Proof. unfold decode_any. destruct (uses_binary c); [apply decode_ratts|apply decode_msgpack_ratts]. Qed.

(* ------------------------------------------------------------------------------------ *)
(** * Handlers, generically: what is preserved and which effects can occur *)

Definition derived (ev : pv) (ns : str) (args a : list pv) : Prop :=
  a = args \/ a = ev :: args \/ a = PStr ns :: args \/ a = ev :: PStr ns :: args.

Lemma get_event_handler_derived c ev ns args h a :
  get_event_handler c ev ns args = Some (h, a) -> derived ev ns args a.
Proof.
  unfold get_event_handler, derived.
  destruct (aget str_eqb (handlers c) ns) as [tbl|].
  - destruct (ev_lookup tbl ev); [intros [= _ <-]; auto|].
    destruct (reserved ev).
    + destruct (aget str_eqb (handlers c) star) as [tbl2|]; [|discriminate].
      destruct (ev_lookup tbl2 ev); [intros [= _ <-]; auto|discriminate].
    + destruct (aget str_eqb tbl star); [intros [= _ <-]; auto|].
      destruct (aget str_eqb (handlers c) star) as [tbl2|]; [|discriminate].
      destruct (ev_lookup tbl2 ev); [intros [= _ <-]; auto|].
      destruct (aget str_eqb tbl2 star); [intros [= _ <-]; auto|discriminate].
  - destruct (aget str_eqb (handlers c) star) as [tbl2|]; [|discriminate].
    destruct (ev_lookup tbl2 ev); [intros [= _ <-]; auto|].
    destruct (reserved ev); [discriminate|].
    destruct (aget str_eqb tbl2 star); [intros [= _ <-]; auto|discriminate].
Qed.

Lemma get_namespace_handler_derived c ev ns args o a :
  get_namespace_handler c ns args = Some (o, a) -> derived ev ns args a.
Proof.
  unfold get_namespace_handler, derived. destruct (aget str_eqb (ns_handlers c) ns); [intros [= _ <-]; auto|].
  destruct (aget str_eqb (ns_handlers c) star); [intros [= _ <-]; auto|discriminate].
Qed.

Section HandlersGen.
  Variable c : cfg.
  Variable J : srv -> Prop.
  Variable E : eff -> Prop.
  Variable CallOk : list pv -> Prop.
  Hypothesis Hcall : forall h a, CallOk a -> E (Call h a).
  Hypothesis Hact : forall hid b ns sid a,
      aget N.eqb (behav c) hid = Some b -> In a (h_actions b) -> pres J E (run_action c ns sid a).

  Lemma call_handler_gen hid ns sid args : CallOk args -> pres J E (call_handler c hid ns sid args).
  Proof.
    intros Hok. unfold call_handler. destruct (aget N.eqb (behav c) hid) as [b|] eqn:Hb; [|apply pres_raise].
    destruct (match h_arity b with Some n => negb (Nat.eqb n (List.length args)) | None => false end);
      [apply pres_raise|].
    apply pres_bind; [apply pres_tell; auto|]. intros _.
    apply pres_bind.
    - apply pres_forM. intros a Ha. eapply Hact; eauto.
    - intros _. destruct (h_outcome b); [apply pres_ret|apply pres_raise|apply pres_raise].
  Qed.

  Lemma call_with_retry_gen ev hid ns sid args :
    CallOk args -> (is_disconnect ev = true -> CallOk (removelast args)) ->
    pres J E (call_with_retry c ev hid ns sid args).
  Proof.
    intros H1 H2. unfold call_with_retry. apply pres_catch; [apply call_handler_gen; auto|].
    intros x k Hx. destruct x; try discriminate. destruct (is_disconnect ev); [|discriminate].
    injection Hx as <-. apply call_handler_gen; auto.
  Qed.

  Lemma trigger_event_gen ev ns args :
    (forall a, derived ev ns args a -> CallOk a /\ (is_disconnect ev = true -> CallOk (removelast a))) ->
    pres J E (trigger_event c ev ns args).
  Proof.
    intros Hd. unfold trigger_event. destruct (is_unhashable ev && _); [apply pres_raise|].
    destruct (get_event_handler c ev ns args) as [[h args']|] eqn:Hg.
    - apply get_event_handler_derived in Hg. destruct (Hd _ Hg).
      apply pres_bind; [apply call_with_retry_gen; auto|]. intros v. apply pres_ret.
    - destruct (get_namespace_handler c ns args) as [[methods args']|] eqn:Hn; [|apply pres_ret].
      apply (get_namespace_handler_derived c ev) in Hn. destruct (Hd _ Hn).
      destruct ev; try (destruct (truthy _); [apply pres_raise|apply pres_ret]).
      destruct (aget str_eqb methods s) as [h|]; [|apply pres_ret].
      apply pres_bind; [apply call_with_retry_gen; auto|]. intros v. apply pres_ret.
  Qed.
End HandlersGen.

Lemma has_actions_false c hid b :
  has_actions c = false -> aget N.eqb (behav c) hid = Some b -> h_actions b = [].
Proof.
  intros H Hb. apply aget_In in Hb as (hid' & Hin & _). unfold has_actions in H.
  destruct (h_actions b) eqn:E; [reflexivity|].
  assert (existsb (fun hb : N * hbehav => match h_actions (snd hb) with [] => false | _ => true end) (behav c) = true).
  { apply existsb_exists. exists (hid', b). split; [auto|]. cbn [snd]. rewrite E. reflexivity. }
  congruence.
Qed.

(* without scripted actions a handler invocation leaves the state alone; its only effects
   are the Call records *)
Lemma trigger_event_noact c (E : eff -> Prop) (CallOk : list pv -> Prop) ev ns args s :
  has_actions c = false -> (forall h a, CallOk a -> E (Call h a)) ->
  (forall a, derived ev ns args a -> CallOk a /\ (is_disconnect ev = true -> CallOk (removelast a))) ->
  hp s (trigger_event c ev ns args) (fun _ s' es => s' = s /\ Forall E es).
Proof.
  intros Hna Hcall Hd.
  refine (trigger_event_gen c (fun s' => s' = s) E CallOk Hcall _ ev ns args Hd s eq_refl).
  intros hid b ns0 sid a Hb Ha. rewrite (has_actions_false _ _ _ Hna Hb) in Ha. destruct Ha.
Qed.

(* ------------------------------------------------------------------------------------ *)
(** * The part of the state that belongs to the other transports *)

Section ViewFacts.
  Context {K V T : Type} (eqb : K -> K -> bool) (g : K * V -> list T).
  Implicit Types (l : list (K * V)).

  Lemma flat_map_aset l k v v0 :
    aget eqb l k = Some v0 -> (forall k', eqb k' k = true -> g (k', v) = g (k', v0)) ->
    flat_map g (aset eqb l k v) = flat_map g l.
  Proof.
    intros Hg Hk. induction l as [|[k1 v1] l IH]; cbn [aget aset flat_map] in *; [discriminate|].
    destruct (eqb k1 k) eqn:E; cbn [flat_map].
    - injection Hg as ->. rewrite (Hk _ E). reflexivity.
    - rewrite IH; auto.
  Qed.

  Lemma flat_map_adel l k v0 :
    aget eqb l k = Some v0 -> (forall k', eqb k' k = true -> g (k', v0) = []) ->
    flat_map g (adel eqb l k) = flat_map g l.
  Proof.
    intros Hg Hk. induction l as [|[k1 v1] l IH]; cbn [aget adel flat_map] in *; [discriminate|].
    destruct (eqb k1 k) eqn:E; cbn [flat_map].
    - injection Hg as ->. rewrite (Hk _ E). reflexivity.
    - rewrite IH; auto.
  Qed.

  Lemma flat_map_aset_new l k v :
    aget eqb l k = None -> g (k, v) = [] -> flat_map g (aset eqb l k v) = flat_map g l.
  Proof.
    intros Hg Hk. rewrite (aset_none _ _ _ _ Hg). rewrite flat_map_app. cbn [flat_map]. rewrite Hk.
    rewrite !app_nil_r. reflexivity.
  Qed.

  Lemma aget_aset_hit l k v v0 : aget eqb l k = Some v0 -> aget eqb (aset eqb l k v) k = Some v.
  Proof.
    induction l as [|[k1 v1] l IH]; cbn [aget aset]; [discriminate|].
    destruct (eqb k1 k) eqn:E; cbn [aget]; rewrite E; auto.
  Qed.
End ViewFacts.

Section FilterFacts.
  Context {K V : Type} (eqb : K -> K -> bool) (p : K * V -> bool).
  Implicit Types (l : list (K * V)).
  Lemma filter_aset l k v v0 :
    aget eqb l k = Some v0 -> (forall k', eqb k' k = true -> p (k', v) = false /\ p (k', v0) = false) ->
    filter p (aset eqb l k v) = filter p l.
  Proof.
    intros Hg Hk. induction l as [|[k1 v1] l IH]; cbn [aget aset filter] in *; [discriminate|].
    destruct (eqb k1 k) eqn:E; cbn [filter].
    - injection Hg as ->. destruct (Hk _ E) as [-> ->]. reflexivity.
    - rewrite IH; auto.
  Qed.
  Lemma filter_adel l k v0 :
    aget eqb l k = Some v0 -> (forall k', eqb k' k = true -> p (k', v0) = false) ->
    filter p (adel eqb l k) = filter p l.
  Proof.
    intros Hg Hk. induction l as [|[k1 v1] l IH]; cbn [aget adel filter] in *; [discriminate|].
    destruct (eqb k1 k) eqn:E; cbn [filter].
    - injection Hg as ->. rewrite (Hk _ E). reflexivity.
    - rewrite IH; auto.
  Qed.
  Lemma filter_adel_absent l k : aget eqb l k = None -> adel eqb l k = l.
  Proof.
    induction l as [|[k1 v1] l IH]; cbn [aget adel]; [reflexivity|].
    destruct (eqb k1 k); [discriminate|]. intros H. rewrite IH; auto.
  Qed.
  Lemma filter_aset_new l k v :
    aget eqb l k = None -> p (k, v) = false -> filter p (aset eqb l k v) = filter p l.
  Proof.
    intros Hg Hk. rewrite (aset_none _ _ _ _ Hg). rewrite filter_app. cbn [filter]. rewrite Hk. apply app_nil_r.
  Qed.
End FilterFacts.

Definition other (e : str) (x : str) : bool := negb (str_eqb x e).

(* views of one namespace entry *)
Definition g_sids (e : str) (nr : str * roommap) : list (str * str * str) :=
  filter (fun x => other e (snd x))
         (match aget room_eqb (snd nr) PNone with
          | Some b => map (fun se => (fst nr, fst se, snd se)) b
          | None => [] end).
Definition h_rooms (e : str) (ns : str) (rb : pv * bidict) : list (str * pv * (str * str)) :=
  map (fun se => (ns, fst rb, se)) (filter (fun se => other e (snd se)) (snd rb)).
Definition g_rooms (e : str) (nr : str * roommap) : list (str * pv * (str * str)) :=
  flat_map (h_rooms e (fst nr)) (snd nr).

Definition v_sids (e : str) (m : mgr) := flat_map (g_sids e) (rooms m).
Definition v_rooms (e : str) (m : mgr) := flat_map (g_rooms e) (rooms m).
Definition v_cbs (e : str) (m : mgr) :=
  filter (fun x : str * cbslot => negb (existsb (str_eqb (fst x)) (sids_of_eio m e))) (callbacks m).

Lemma filter_flat_map {A B} (p : B -> bool) (f : A -> list B) l :
  filter p (flat_map f l) = flat_map (fun x => filter p (f x)) l.
Proof. induction l as [|x l IH]; cbn [flat_map filter]; [reflexivity|]. rewrite filter_app, IH. reflexivity. Qed.

Lemma flat_map_map {A B C} (f : B -> list C) (g : A -> B) l : flat_map f (map g l) = flat_map (fun x => f (g x)) l.
Proof. induction l as [|x l IH]; cbn [flat_map map]; [reflexivity|]. rewrite IH. reflexivity. Qed.

Lemma v_sids_eq e m : filter (fun x => negb (str_eqb (snd x) e)) (all_sids m) = v_sids e m.
Proof. unfold all_sids, v_sids. rewrite filter_flat_map. reflexivity. Qed.

(* replacing the room map of a namespace by one with the same view *)
Lemma view_ns_put {T} (g : str * roommap -> list T) m ns rm' :
  match ns_rooms m ns with Some rm => g (ns, rm') = g (ns, rm) | None => g (ns, rm') = [] end ->
  g (ns, []) = [] ->
  flat_map g (rooms (ns_put m ns rm')) = flat_map g (rooms m).
Proof.
  intros H Hnil. unfold ns_rooms in H. destruct (aget str_eqb (rooms m) ns) as [rm|] eqn:Hg.
  - destruct rm' as [|x rm']; cbn [ns_put set_rooms rooms].
    + apply (flat_map_adel str_eqb g _ _ rm Hg). intros k' Hk. apply str_eqb_eq in Hk. subst k'. rewrite <- H. exact Hnil.
    + apply (flat_map_aset str_eqb g _ _ _ rm Hg). intros k' Hk. apply str_eqb_eq in Hk. subst. auto.
  - destruct rm' as [|x rm']; cbn [ns_put set_rooms rooms].
    + rewrite (filter_adel_absent str_eqb _ _ Hg). reflexivity.
    + apply flat_map_aset_new; auto.
Qed.
(* ---- room-map level: removing or adding an entry of transport e does not change the view ---- *)
Lemma other_self e : other e e = false.
Proof. unfold other. rewrite str_eqb_refl. reflexivity. Qed.

Lemma filter_other_adel e b sid :
  bd_get b sid = Some e ->
  filter (fun se : str * str => other e (snd se)) (adel str_eqb b sid) = filter (fun se => other e (snd se)) b.
Proof.
  intros H. apply (filter_adel str_eqb _ _ _ e H). intros k' _. cbn [snd]. apply other_self.
Qed.
Lemma filter_other_aset e b sid :
  bd_get b sid = None ->
  filter (fun se : str * str => other e (snd se)) (aset str_eqb b sid e) = filter (fun se => other e (snd se)) b.
Proof. intros H. apply filter_aset_new; [exact H|]. cbn [snd]. apply other_self. Qed.

Lemma filter_map_sids e ns (b : bidict) :
  filter (fun x : str * str * str => other e (snd x)) (map (fun se => (ns, fst se, snd se)) b) =
  map (fun se => (ns, fst se, snd se)) (filter (fun se => other e (snd se)) b).
Proof.
  induction b as [|[s x] b IH]; cbn [map filter fst snd]; [reflexivity|].
  destruct (other e x); cbn [map fst snd]; rewrite IH; reflexivity.
Qed.

Definition none_view (e : str) (rm : roommap) : list (str * str) :=
  match aget room_eqb rm PNone with Some b => filter (fun se : str * str => other e (snd se)) b | None => [] end.
Lemma g_sids_none_view e ns rm : g_sids e (ns, rm) = map (fun se => (ns, fst se, snd se)) (none_view e rm).
Proof.
  unfold g_sids, none_view. cbn [fst snd]. destruct (aget room_eqb rm PNone); [apply filter_map_sids|reflexivity].
Qed.

Lemma aget_adel_none_gone (rm : roommap) : keys_ok room_eqb rm -> aget room_eqb (adel room_eqb rm PNone) PNone = None.
Proof.
  intros Hk. destruct (aget room_eqb (adel room_eqb rm PNone) PNone) as [b2|] eqn:E; [|reflexivity]. exfalso.
  apply aget_In in E as (k' & Hin & Hk'). apply py_eq_none_r in Hk'. subst.
  destruct (aget room_eqb rm PNone) as [b|] eqn:E2.
  - apply aget_In in E2 as (k'' & Hin2 & Hk''). apply py_eq_none_r in Hk''. subst.
    eapply keys_ok_adel_gone; eauto.
  - rewrite (filter_adel_absent _ _ _ E2) in Hin. apply (aget_None_notin _ _ _ E2) in Hin. discriminate.
Qed.

Lemma pv_is_none (room : pv) : {room = PNone} + {room <> PNone}.
Proof. destruct room; (left; reflexivity) || (right; discriminate). Qed.

Lemma g_rooms_leave e ns rm sid room rm' :
  rm_leave rm sid room = Some rm' ->
  (forall b x, aget room_eqb rm room = Some b -> bd_get b sid = Some x -> x = e) ->
  g_rooms e (ns, rm') = g_rooms e (ns, rm).
Proof.
  unfold rm_leave. destruct (aget room_eqb rm room) as [b|] eqn:Hg; [|discriminate].
  destruct (bd_get b sid) as [x|] eqn:Hs; [|discriminate]. intros [= <-] He.
  assert (x = e) by (eapply He; eauto). subst x.
  assert (Hf := filter_other_adel e b sid Hs).
  unfold g_rooms. cbn [fst snd]. destruct (adel str_eqb b sid) as [|y b'] eqn:Hb'.
  - apply (flat_map_adel room_eqb _ _ _ b Hg). intros k' _. unfold h_rooms. cbn [snd]. rewrite <- Hf. reflexivity.
  - apply (flat_map_aset room_eqb _ _ _ _ b Hg). intros k' _. unfold h_rooms. cbn [fst snd]. rewrite Hf. reflexivity.
Qed.

Lemma none_view_leave e rm sid room rm' :
  keys_ok room_eqb rm -> rm_leave rm sid room = Some rm' ->
  (forall b x, aget room_eqb rm room = Some b -> bd_get b sid = Some x -> x = e) ->
  none_view e rm' = none_view e rm.
Proof.
  intros Hk Hl He. destruct (pv_is_none room) as [->|Hne].
  2:{ unfold none_view. rewrite (rm_leave_none_room _ _ _ _ Hl Hne). reflexivity. }
  unfold rm_leave in Hl. destruct (aget room_eqb rm PNone) as [b|] eqn:Hg; [|discriminate].
  destruct (bd_get b sid) as [x|] eqn:Hs; [|discriminate]. injection Hl as <-.
  assert (x = e) by (eapply He; eauto). subst x.
  assert (Hf := filter_other_adel e b sid Hs).
  unfold none_view at 2. rewrite Hg. destruct (adel str_eqb b sid) as [|y b'] eqn:Hb'.
  - unfold none_view. rewrite (aget_adel_none_gone _ Hk). rewrite <- Hf. reflexivity.
  - unfold none_view. rewrite (aget_aset_hit _ _ _ _ _ Hg). rewrite Hf. reflexivity.
Qed.

(* all entries of [sid] in this room map are for transport e *)
Definition sid_on (e sid : str) (rm : roommap) : Prop := forall r x, rmem rm r sid x -> x = e.

Lemma sid_on_premise e sid rm room : RmWf rm -> sid_on e sid rm ->
  forall b x, aget room_eqb rm room = Some b -> bd_get b sid = Some x -> x = e.
Proof.
  intros Hwf Hon b x Hg Hs. apply aget_In in Hg as (k' & Hin & _). apply (Hon k'). exists b. split; [auto|].
  apply (xaget_In _ str_eqb_eq). exact Hs.
Qed.

Lemma views_leave_all e ns sid names : forall rm, RmWf rm -> sid_on e sid rm ->
  g_rooms e (ns, rm_leave_all rm sid names) = g_rooms e (ns, rm) /\
  none_view e (rm_leave_all rm sid names) = none_view e rm.
Proof.
  induction names as [|r names IH]; intros rm Hwf Hon; [split; reflexivity|].
  rewrite rm_leave_all_cons. unfold rm_leave'. destruct (rm_leave rm sid r) as [rm1|] eqn:Hl; [|apply IH; auto].
  destruct (rm_leave_spec _ _ _ _ Hwf Hl) as (Hwf1 & Hshr & _).
  assert (Hon1 : sid_on e sid rm1) by (intros r0 x Hm; eapply Hon; eauto).
  destruct (IH rm1 Hwf1 Hon1) as [A B]. split.
  - rewrite A. eapply g_rooms_leave; eauto. apply sid_on_premise; auto.
  - rewrite B. eapply none_view_leave; eauto; [apply Hwf|apply sid_on_premise; auto].
Qed.

Lemma aget_app_none {K V} (eqb : K -> K -> bool) (l l' : list (K * V)) k :
  aget eqb l k = None -> aget eqb (l ++ l') k = aget eqb l' k.
Proof.
  induction l as [|[k1 v1] l IH]; cbn [aget app]; [reflexivity|]. destruct (eqb k1 k); [discriminate|]. auto.
Qed.

Lemma views_put e ns (rm : roommap) room (b : bidict) sid :
  (aget room_eqb rm room = Some b \/ (aget room_eqb rm room = None /\ b = [])) ->
  bd_get b sid = None ->
  let rm' := aset room_eqb rm room (aset str_eqb b sid e) in
  g_rooms e (ns, rm') = g_rooms e (ns, rm) /\ none_view e rm' = none_view e rm.
Proof.
  intros Hb Hs rm'. assert (Hf := filter_other_aset e b sid Hs). split.
  - unfold g_rooms, rm'. cbn [fst snd]. destruct Hb as [Hb|[Hb ->]].
    + apply (flat_map_aset room_eqb _ _ _ _ b Hb). intros k' _. unfold h_rooms. cbn [fst snd]. rewrite Hf. reflexivity.
    + apply flat_map_aset_new; [exact Hb|]. unfold h_rooms. cbn [snd aset filter]. rewrite other_self. reflexivity.
  - destruct (pv_is_none room) as [->|Hne].
    + unfold none_view, rm'. destruct Hb as [Hb|[Hb ->]].
      * rewrite (aget_aset_hit _ _ _ _ _ Hb), Hb, Hf. reflexivity.
      * rewrite (aset_none _ _ _ _ Hb), (aget_app_none _ _ _ _ Hb), Hb. cbn [aget aset filter snd room_eqb py_eq as_int].
        rewrite other_self. reflexivity.
    + unfold none_view, rm'. rewrite aget_aset_frame; [reflexivity| |].
      * apply room_eqb_none_frame; auto.
      * apply room_neq_none; auto.
Qed.

(* ---- manager level ---- *)
Lemma g_rooms_nil e ns : g_rooms e (ns, []) = [].
Proof. reflexivity. Qed.
Lemma g_sids_nil e ns : g_sids e (ns, []) = [].
Proof. reflexivity. Qed.

Lemma views_ns_put e m ns rm' :
  match ns_rooms m ns with
  | Some rm => g_rooms e (ns, rm') = g_rooms e (ns, rm) /\ none_view e rm' = none_view e rm
  | None => g_rooms e (ns, rm') = [] /\ none_view e rm' = []
  end ->
  v_rooms e (ns_put m ns rm') = v_rooms e m /\ v_sids e (ns_put m ns rm') = v_sids e m.
Proof.
  intros H. unfold v_rooms, v_sids. split.
  - apply view_ns_put; [|reflexivity]. destruct (ns_rooms m ns); tauto.
  - apply view_ns_put; [|reflexivity]. rewrite !g_sids_none_view.
    destruct (ns_rooms m ns); destruct H as [_ ->]; [rewrite g_sids_none_view|]; reflexivity.
Qed.

Lemma sids_of_eio_iff lv fr m e k :
  MInv lv fr m -> (In k (sids_of_eio m e) <-> exists n, sid_from_eio m e n = Some k).
Proof.
  intros H. unfold sids_of_eio. rewrite in_flat_map. split.
  - intros ([ns rm] & Hnr & Hin). cbn [snd] in Hin. exists ns. unfold sid_from_eio, room_of.
    assert (Hr : ns_rooms m ns = Some rm) by (apply keys_ok_aget; [apply (mi_keys _ _ _ H)|auto]). rewrite Hr.
    destruct (aget room_eqb rm PNone) as [b|]; [|destruct Hin].
    destruct (bd_inv b e) as [s'|]; [|destruct Hin]. destruct Hin as [->|[]]. reflexivity.
  - intros (n & Hs). unfold sid_from_eio, room_of in Hs. destruct (ns_rooms m n) as [rm|] eqn:Hr; [|discriminate].
    exists (n, rm). split; [apply (xaget_In _ str_eqb_eq); exact Hr|]. cbn [snd].
    destruct (aget room_eqb rm PNone) as [b|]; [|discriminate]. rewrite Hs. left. reflexivity.
Qed.

Lemma v_cbs_ext e m m' :
  callbacks m' = callbacks m ->
  (forall k, In k (map fst (callbacks m)) -> (In k (sids_of_eio m' e) <-> In k (sids_of_eio m e))) ->
  v_cbs e m' = v_cbs e m.
Proof.
  intros Hc Hk. unfold v_cbs. rewrite Hc. apply filter_ext_in. intros [k slot] Hin. cbn [fst]. f_equal.
  assert (Hiff := Hk k (in_map fst _ _ Hin)). cbn [fst] in Hiff.
  destruct (existsb (str_eqb k) (sids_of_eio m' e)) eqn:E1, (existsb (str_eqb k) (sids_of_eio m e)) eqn:E2; auto; exfalso.
  - apply existsb_exists in E1 as (x & Hx & Hex). apply str_eqb_eq in Hex. subst x.
    apply Hiff in Hx. assert (existsb (str_eqb k) (sids_of_eio m e) = true); [|congruence].
    apply existsb_exists. exists k. split; [auto|apply str_eqb_refl].
  - apply existsb_exists in E2 as (x & Hx & Hex). apply str_eqb_eq in Hex. subst x.
    apply Hiff in Hx. assert (existsb (str_eqb k) (sids_of_eio m' e) = true); [|congruence].
    apply existsb_exists. exists k. split; [auto|apply str_eqb_refl].
Qed.
Lemma rmem_sid_from_eio lv fr m ns rm k e :
  MInv lv fr m -> ns_rooms m ns = Some rm -> rmem rm PNone k e -> sid_from_eio m e ns = Some k.
Proof.
  intros H Hr Hm. destruct (rmem_nroom _ _ _ _ _ _ _ H Hr Hm) as (b & Hn & _ & Hin).
  unfold sid_from_eio. fold (nroom m ns). rewrite Hn.
  destruct (bd_inv_some _ _ _ Hin) as (s' & Hs'). rewrite Hs'. f_equal.
  apply bd_inv_In in Hs'. destruct (nroom_rmem _ _ _ _ _ _ _ H Hn Hs') as (rm2 & Hr2 & Hm2).
  assert (rm2 = rm) by congruence. subst. destruct (mi_ns _ _ _ H _ _ Hr) as [_ Hi]. eapply ri_inj; eauto.
Qed.

Lemma sid_from_eio_other m m' e n : ns_rooms m' n = ns_rooms m n -> sid_from_eio m' e n = sid_from_eio m e n.
Proof. unfold sid_from_eio, room_of. intros ->. reflexivity. Qed.

Lemma v_rooms_ext e m m' : rooms m' = rooms m -> v_rooms e m' = v_rooms e m /\ v_sids e m' = v_sids e m.
Proof. unfold v_rooms, v_sids. intros ->. split; reflexivity. Qed.

Lemma mgr_disconnect_views lv fr m sid ns e :
  MInv lv fr m -> sid_from_eio m e ns = Some sid ->
  let m' := mgr_disconnect m sid ns in
  v_rooms e m' = v_rooms e m /\ v_sids e m' = v_sids e m /\ v_cbs e m' = v_cbs e m.
Proof.
  intros H Hs m'. destruct (sid_from_eio_some _ _ _ _ _ _ H Hs) as (b & rm & Hn & Hin & Hg & Hr & Hm).
  destruct (mi_ns _ _ _ H _ _ Hr) as [_ Hi].
  set (rmf := rm_leave_all rm sid (rooms_with rm sid)).
  assert (Hrooms : rooms m' = rooms (ns_put m ns rmf)).
  { unfold m'. rewrite (mgr_disconnect_rooms _ _ _ _ Hr).
    rewrite (fold_leave_eq sid ns _ m rm (mi_keys _ _ _ H) Hr (ri_ne _ _ _ Hi)). reflexivity. }
  assert (Hon : sid_on e sid rm).
  { intros r x Hmx. apply (ri_sub _ _ _ Hi) in Hmx.
    apply (rmem_none_iff _ _ _ (ri_wf _ _ _ Hi)) in Hmx as (b1 & Hb1 & Hx).
    apply (rmem_none_iff _ _ _ (ri_wf _ _ _ Hi)) in Hm as (b2 & Hb2 & He). congruence. }
  destruct (views_leave_all e ns sid (rooms_with rm sid) rm (ri_wf _ _ _ Hi) Hon) as [V1 V2]. fold rmf in V1, V2.
  destruct (v_rooms_ext e _ _ Hrooms) as [-> ->].
  assert (V := views_ns_put e m ns rmf). rewrite Hr in V. destruct (V (conj V1 V2)) as [-> ->].
  split; [reflexivity|split; [reflexivity|]].
  (* callbacks *)
  destruct (mgr_disconnect_spec _ _ _ sid ns H) as (A & B & C & D & F & G). fold m' in A, B, C, D, F, G.
  assert (Hcb : callbacks m' = adel str_eqb (callbacks m) sid) by (eapply mgr_disconnect_callbacks; eauto).
  assert (Hsid : In sid (sids_of_eio m e)) by (apply (sids_of_eio_iff _ _ _ _ _ H); eauto).
  assert (Hiff : forall k, k <> sid -> (In k (sids_of_eio m' e) <-> In k (sids_of_eio m e))).
  { intros k Hne. rewrite (sids_of_eio_iff _ _ _ _ _ A), (sids_of_eio_iff _ _ _ _ _ H). split; intros (n & Hk).
    - destruct (list_eq_dec N.eq_dec n ns) as [->|Hd].
      + exfalso. destruct (sid_from_eio_some _ _ _ _ _ _ A Hk) as (_ & rm' & _ & _ & _ & Hr' & Hm').
        destruct (C _ _ _ _ Hr' Hm') as (_ & rm0 & Hr0 & Hm0). assert (rm0 = rm) by congruence. subst.
        apply Hne. eapply ri_inj; eauto.
      + exists n. rewrite <- Hk. symmetry. apply sid_from_eio_other. auto.
    - destruct (list_eq_dec N.eq_dec n ns) as [->|Hd]; [congruence|].
      exists n. rewrite <- Hk. apply sid_from_eio_other. auto. }
  unfold v_cbs. rewrite Hcb.
  transitivity (filter (fun x : str * cbslot => negb (existsb (str_eqb (fst x)) (sids_of_eio m e)))
                       (adel str_eqb (callbacks m) sid)).
  - apply filter_ext_in. intros [k slot] Hk. cbn [fst]. f_equal.
    assert (Hne : k <> sid).
    { assert (Hk' : In k (map fst (adel str_eqb (callbacks m) sid))) by (apply in_map_iff; exists (k, slot); auto).
      apply (xkeys_adel _ str_eqb_eq) in Hk'; [tauto|apply (mi_cbkeys _ _ _ H)]. }
    specialize (Hiff k Hne).
    destruct (existsb (str_eqb k) (sids_of_eio m' e)) eqn:E1, (existsb (str_eqb k) (sids_of_eio m e)) eqn:E2; auto; exfalso.
    + apply existsb_exists in E1 as (x & Hx & Hex). apply str_eqb_eq in Hex. subst x. apply Hiff in Hx.
      assert (existsb (str_eqb k) (sids_of_eio m e) = true); [|congruence].
      apply existsb_exists. exists k. split; [auto|apply str_eqb_refl].
    + apply existsb_exists in E2 as (x & Hx & Hex). apply str_eqb_eq in Hex. subst x. apply Hiff in Hx.
      assert (existsb (str_eqb k) (sids_of_eio m' e) = true); [|congruence].
      apply existsb_exists. exists k. split; [auto|apply str_eqb_refl].
  - destruct (aget str_eqb (callbacks m) sid) as [slot|] eqn:Hslot.
    + apply (filter_adel str_eqb _ _ _ slot Hslot). intros k' Hk'. apply str_eqb_eq in Hk'. subst. cbn [fst].
      assert (existsb (str_eqb sid) (sids_of_eio m e) = true) as ->; [|reflexivity].
      apply existsb_exists. exists sid. split; [auto|apply str_eqb_refl].
    + rewrite (filter_adel_absent _ _ _ Hslot). reflexivity.
Qed.

Lemma fresh_not_in lv fr m ns rm r b :
  MInv lv fr m -> ns_rooms m ns = Some rm -> In (r, b) rm -> bd_get b (sid_name fr) = None.
Proof.
  intros H Hr Hin. destruct (bd_get b (sid_name fr)) as [x|] eqn:E; [|reflexivity]. exfalso.
  destruct (mi_ns _ _ _ H _ _ Hr) as [_ Hi].
  assert (Hm : rmem rm r (sid_name fr) x) by (exists b; split; [auto|apply (xaget_In _ str_eqb_eq); exact E]).
  destruct (ri_fresh _ _ _ Hi _ _ _ Hm) as (k & Hk & Heq). apply sid_name_inj in Heq. lia.
Qed.

Lemma ns_put_as_set m ns rm' : rm' <> [] -> set_rooms m (aset str_eqb (rooms m) ns rm') = ns_put m ns rm'.
Proof. intros H. symmetry. apply ns_put_nonnil. auto. Qed.

Lemma put_member_views m ns room sid e m' ok :
  put_member m ns room sid e = (m', ok) ->
  (forall rm b, ns_rooms m ns = Some rm -> aget room_eqb rm room = Some b -> bd_get b sid = None) ->
  v_rooms e m' = v_rooms e m /\ v_sids e m' = v_sids e m.
Proof.
  intros Hp Hfresh.
  apply put_member_spec in Hp as [(-> & _)|(-> & rm & b & Hrm & Hb & Hinv & ->)]; [split; reflexivity|].
  rewrite ns_put_as_set by apply aset_nonnil.
  apply views_ns_put.
  assert (Hs : bd_get b sid = None).
  { destruct Hb as [Hb|[_ ->]]; [|reflexivity]. destruct Hrm as [Hrm|[_ ->]]; [eauto|discriminate]. }
  destruct (views_put e ns rm room b sid Hb Hs) as [V1 V2].
  destruct Hrm as [Hrm|[Hrm ->]]; rewrite Hrm; split; auto.
Qed.

Lemma mgr_connect_views lv fr m e ns :
  MInv lv fr m -> In e lv -> ns <> [] ->
  let m' := fst (mgr_connect m e ns (sid_name fr)) in
  v_rooms e m' = v_rooms e m /\ v_sids e m' = v_sids e m /\ v_cbs e m' = v_cbs e m.
Proof.
  intros H Hlive Hns m'. set (sid := sid_name fr) in *.
  destruct (mgr_connect_spec _ _ _ e ns H Hlive Hns) as (A & B & C & D & F & G & K). fold sid m' in A, B, C, D, F, G, K.
  assert (Hcbs : v_cbs e m' = v_cbs e m).
  { destruct G as [G|G]; [rewrite (F G); reflexivity|]. destruct (K G) as (rm' & Hr' & Hm' & K1 & K2).
    apply v_cbs_ext; [exact C|]. intros k Hk.
    destruct (mi_cb _ _ _ H _ Hk) as (n0 & rm0 & x0 & Hr0 & Hm0).
    assert (Hne : k <> sid).
    { destruct (mi_ns _ _ _ H _ _ Hr0) as [_ Hi0]. destruct (ri_fresh _ _ _ Hi0 _ _ _ Hm0) as (j & Hj & ->).
      intros Heq. apply sid_name_inj in Heq. lia. }
    rewrite (sids_of_eio_iff _ _ _ _ _ A), (sids_of_eio_iff _ _ _ _ _ H). split; intros (n & Hkn).
    - destruct (list_eq_dec N.eq_dec n ns) as [->|Hd].
      + destruct (sid_from_eio_some _ _ _ _ _ _ A Hkn) as (_ & rm1 & _ & _ & _ & Hr1 & Hm1).
        assert (rm1 = rm') by congruence. subst. destruct (K1 _ _ _ Hm1) as [[Hc _]|[_ (rm2 & Hr2 & Hm2)]]; [contradiction|].
        exists ns. eapply rmem_sid_from_eio; eauto.
      + exists n. rewrite <- Hkn. symmetry. apply sid_from_eio_other. auto.
    - destruct (list_eq_dec N.eq_dec n ns) as [->|Hd].
      + destruct (sid_from_eio_some _ _ _ _ _ _ H Hkn) as (_ & rm1 & _ & _ & _ & Hr1 & Hm1).
        exists ns. eapply rmem_sid_from_eio; eauto.
      + exists n. rewrite <- Hkn. apply sid_from_eio_other. auto. }
  assert (Hfresh0 : forall room rm b, ns_rooms m ns = Some rm -> aget room_eqb rm room = Some b -> bd_get b sid = None).
  { intros room rm b Hr Hb. apply aget_In in Hb as (k' & Hin & _). eapply fresh_not_in; eauto. }
  assert (Hrooms : v_rooms e m' = v_rooms e m /\ v_sids e m' = v_sids e m).
  { unfold m', mgr_connect. destruct (put_member m ns PNone sid e) as [m1 ok1] eqn:Hp1.
    destruct (put_member_views _ _ _ _ _ _ _ Hp1 (Hfresh0 PNone)) as [V1 V2].
    destruct ok1; [|cbn [fst]; auto].
    destruct (put_member m1 ns (PStr sid) sid e) as [m2 ok2] eqn:Hp2. cbn [fst].
    rewrite <- V1, <- V2. eapply put_member_views; eauto.
    (* the personal room of a fresh sid cannot contain it yet *)
    apply put_member_spec in Hp1 as [(-> & _)|(_ & rm & b & Hrm & Hb & Hinv & ->)]; [apply Hfresh0|].
    intros rm1 b2 Hr1 Hb2. unfold ns_rooms in Hr1. cbn [set_rooms rooms] in Hr1.
    rewrite (xaget_aset_eq _ str_eqb_eq) in Hr1. injection Hr1 as <-.
    rewrite aget_aset_frame in Hb2.
    - destruct Hrm as [Hrm|[_ ->]]; [eapply Hfresh0; eauto|discriminate].
    - intros k' Hk'. apply py_eq_none_r in Hk'. subst. reflexivity.
    - reflexivity. }
  tauto.
Qed.

Lemma trigger_callback_views m e ns id :
  let m' := fst (trigger_callback m (sid_from_eio m e ns) id) in
  v_rooms e m' = v_rooms e m /\ v_sids e m' = v_sids e m /\ v_cbs e m' = v_cbs e m.
Proof.
  intros m'. unfold m', trigger_callback.
  destruct (sid_from_eio m e ns) as [s|] eqn:Hs; [|cbn [fst]; auto].
  destruct id as [i|]; [|cbn [fst]; auto].
  destruct (aget str_eqb (callbacks m) s) as [slot|] eqn:Hslot; [|cbn [fst]; auto].
  destruct (i <=? 0)%Z; [cbn [fst]; auto|].
  destruct (aget N.eqb (cb_entries slot) (Z.to_N i)); [|cbn [fst]; auto].
  cbn [fst]. split; [reflexivity|split; [reflexivity|]].
  unfold v_cbs, sids_of_eio. cbn [rooms callbacks]. fold (sids_of_eio m e).
  apply (filter_aset str_eqb _ _ _ _ slot Hslot). intros k' Hk'. apply str_eqb_eq in Hk'. subst. cbn [fst].
  assert (existsb (str_eqb s) (sids_of_eio m e) = true) as ->; [|auto].
  apply existsb_exists. exists s. split; [|apply str_eqb_refl].
  unfold sids_of_eio. apply in_flat_map. unfold sid_from_eio, room_of, ns_rooms in Hs.
  destruct (aget str_eqb (rooms m) ns) as [rm|] eqn:Hr; [|discriminate]. apply aget_In in Hr as (k' & Hin & Hk').
  exists (k', rm). split; [auto|]. cbn [snd]. destruct (aget room_eqb rm PNone); [|discriminate]. rewrite Hs. left. reflexivity.
Qed.
(* ------------------------------------------------------------------------------------ *)
(** * Server level: the view of the other transports *)

Record osame (e : str) (s s' : srv) : Prop := mkOsame {
  os_sids : v_sids e (mg s') = v_sids e (mg s);
  os_cbs : v_cbs e (mg s') = v_cbs e (mg s);
  os_rooms : v_rooms e (mg s') = v_rooms e (mg s);
  os_bin : filter (fun x : str * rpacket => other e (fst x)) (binpkt s') = filter (fun x => other e (fst x)) (binpkt s);
  os_ses : filter (fun x : str * list (str * pv) => other e (fst x)) (sessions s') = filter (fun x => other e (fst x)) (sessions s);
  os_env : filter (fun x : str * pv => other e (fst x)) (environ s') = filter (fun x => other e (fst x)) (environ s)
}.
Lemma osame_refl e s : osame e s s.
Proof. split; reflexivity. Qed.
Lemma osame_trans e s0 s1 s2 : osame e s0 s1 -> osame e s1 s2 -> osame e s0 s2.
Proof. intros [A1 A2 A3 A4 A5 A6] [B1 B2 B3 B4 B5 B6]. split; congruence. Qed.

Lemma osame_mg e s m' :
  v_rooms e m' = v_rooms e (mg s) -> v_sids e m' = v_sids e (mg s) -> v_cbs e m' = v_cbs e (mg s) ->
  osame e s (upd_mg s m').
Proof. intros A B C. split; auto. Qed.

(* boolean reflexivity *)
Lemma list_eqb_refl {A} (f : A -> A -> bool) l : (forall x, f x x = true) -> list_eqb f l l = true.
Proof. intros Hf. induction l as [|x l IH]; cbn [list_eqb]; [reflexivity|]. rewrite Hf, IH. reflexivity. Qed.
Lemma pair_eqb_refl {A B} (fa : A -> A -> bool) (fb : B -> B -> bool) x :
  fa (fst x) (fst x) = true -> fb (snd x) (snd x) = true -> pair_eqb fa fb x x = true.
Proof. intros H1 H2. unfold pair_eqb. rewrite H1, H2. reflexivity. Qed.
Lemma opt_eqb_refl {A} (f : A -> A -> bool) o : (forall x, f x x = true) -> opt_eqb f o o = true.
Proof. intros Hf. destruct o; cbn; auto. Qed.
Lemma slot_eqb_refl x : slot_eqb x x = true.
Proof.
  unfold slot_eqb. rewrite opt_eqb_refl by apply N.eqb_refl. cbn [andb]. apply list_eqb_refl.
  intros y. apply pair_eqb_refl; apply N.eqb_refl.
Qed.
Lemma packet_eqb_refl p : packet_eqb p p = true.
Proof.
  unfold packet_eqb. rewrite pv_eqb_refl, pv_eqb_refl, (opt_eqb_refl str_eqb) by apply str_eqb_refl.
  rewrite (opt_eqb_refl Z.eqb) by apply Z.eqb_refl. reflexivity.
Qed.
Lemma rp_eqb_refl r : rp_eqb r r = true.
Proof.
  unfold rp_eqb. rewrite packet_eqb_refl, N.eqb_refl. cbn [andb]. apply list_eqb_refl. apply pv_eqb_refl.
Qed.

Lemma rooms_flat_eq e (rs : list (str * roommap)) :
  flat_map (fun nr : str * list (pv * bidict) =>
              flat_map (fun rb : pv * bidict => map (fun se => (fst nr, fst rb, se)) (snd rb)) (snd nr))
           (map (fun nr : str * roommap =>
                   (fst nr, map (fun rb : pv * bidict =>
                                   (fst rb, filter (fun se : str * str => negb (str_eqb (snd se) e)) (snd rb))) (snd nr))) rs)
  = flat_map (g_rooms e) rs.
Proof.
  rewrite flat_map_map. apply flat_map_ext. intros [ns rm]. cbn [fst snd]. unfold g_rooms. cbn [fst snd].
  rewrite flat_map_map. apply flat_map_ext. intros [r b]. reflexivity.
Qed.

Theorem osame_others_unchanged e s s' : osame e s s' -> others_unchanged e s s' = true.
Proof.
  intros [A1 A2 A3 A4 A5 A6]. unfold others_unchanged, others_view.
  rewrite !v_sids_eq. fold (v_cbs e (mg s)). fold (v_cbs e (mg s')).
  unfold rooms_view_eqb. rewrite !rooms_flat_eq. fold (v_rooms e (mg s)). fold (v_rooms e (mg s')).
  unfold other in A4, A5, A6. rewrite A1, A2, A3, A4, A5, A6.
  repeat (apply andb_true_iff; split).
  - apply list_eqb_refl. intros x. apply pair_eqb_refl; [apply pair_eqb_refl|]; apply str_eqb_refl.
  - apply list_eqb_refl. intros x. apply pair_eqb_refl; [apply str_eqb_refl|apply slot_eqb_refl].
  - apply list_eqb_refl. intros x. apply pair_eqb_refl; [apply str_eqb_refl|apply rp_eqb_refl].
  - apply list_eqb_refl. intros x. apply pair_eqb_refl; [apply str_eqb_refl|].
    apply list_eqb_refl. intros y. apply pair_eqb_refl; [apply str_eqb_refl|apply pv_eqb_refl].
  - apply list_eqb_refl. intros x. apply pair_eqb_refl; [apply str_eqb_refl|apply pv_eqb_refl].
  - apply list_eqb_refl. intros x. rewrite str_eqb_refl, pv_eqb_refl. cbn [andb].
    apply pair_eqb_refl; apply str_eqb_refl.
Qed.
(* ------------------------------------------------------------------------------------ *)
(** * One incoming frame *)

(* session ids that may appear in handler invocations for a frame of transport e received in
   state s: those living on e, and the one a CONNECT in this frame would be issued *)
Definition mine0 (s : srv) (e : str) : list str := sid_name (fresh s) :: sids_of_eio (mg s) e.
Definition Eok (s : srv) (e : str) (x : eff) : Prop :=
  match x with
  | Out e' _ => e' = e
  | Call _ a => exists sid, In sid (mine0 s e) /\ In (PStr sid) a
  | CbCall cb _ => exists sid slot i, In sid (sids_of_eio (mg s) e) /\
                                     aget str_eqb (callbacks (mg s)) sid = Some slot /\ In (i, cb) (cb_entries slot)
  | _ => True
  end.

Lemma sid_from_eio_In m e ns sid : sid_from_eio m e ns = Some sid -> In sid (sids_of_eio m e).
Proof.
  intros Hs. unfold sids_of_eio. apply in_flat_map. unfold sid_from_eio, room_of, ns_rooms in Hs.
  destruct (aget str_eqb (rooms m) ns) as [rm|] eqn:Hr; [|discriminate]. apply aget_In in Hr as (k' & Hin & Hk').
  exists (k', rm). split; [auto|]. cbn [snd]. destruct (aget room_eqb rm PNone); [|discriminate]. rewrite Hs. left. reflexivity.
Qed.

Lemma hp_bind_E {A B} s (m : SM A) (k : A -> SM B) (E : eff -> Prop) (P1 : Res A -> srv -> Prop) (P : srv -> Prop) :
  hp s m (fun r s1 e1 => P1 r s1 /\ Forall E e1) ->
  (forall a s1, P1 (Ok a) s1 -> hp s1 (k a) (fun _ s2 e2 => P s2 /\ Forall E e2)) ->
  (forall x s1, P1 (Err x) s1 -> P s1) ->
  hp s (bindM m k) (fun _ s2 es => P s2 /\ Forall E es).
Proof.
  intros Hm Hk He. apply hp_bind. eapply hp_conseq; [exact Hm|].
  intros [a|x] s1 e1 [H1 F1]; [|split; eauto].
  eapply hp_conseq; [apply Hk; exact H1|]. intros r s2 e2 [H2 F2]. split; [auto|apply Forall_app; auto].
Qed.

Definition ev_not_disconnect (data : pv) : Prop :=
  forall ev rest, split_event data = Ok (ev, rest) -> is_disconnect ev = false.

Section Local.
  Variable c : cfg.
  Hypothesis Hna : has_actions c = false.
  Variable s : srv.
  Variable e : str.

  Let E := Eok s e.
  Lemma E_out p : E (Out e p).
  Proof. reflexivity. Qed.

  Lemma send_e_quiet s1 t data ns id :
    hp s1 (send_packet c (Some e) t data ns id) (fun _ s' es => s' = s1 /\ Forall E es).
  Proof.
    apply (send_packet_pres (fun s' => s' = s1) E); [|reflexivity]. intros e0 p [= <-]. apply E_out.
  Qed.

  Lemma handle_event_local pns id data s1 :
    mg s1 = mg s -> ev_not_disconnect data ->
    hp s1 (handle_event c e pns id data) (fun _ s' es => s' = s1 /\ Forall E es).
  Proof.
    intros Hmg Hev. unfold handle_event. set (ns := ns_or_default pns). apply hp_getS_bind.
    apply (hp_bind_E _ _ _ E (fun r s' => s' = s1 /\ r = split_event data) (fun s' => s' = s1));
      [apply hp_lift; auto| |intros x s' [-> _]; auto].
    intros [ev rest] s1' [-> Hsp]. cbn [fst snd].
    assert (Hevd : is_disconnect ev = false) by (eapply Hev; eauto).
    destruct (negb _); [apply hp_ret; auto|].
    destruct (sid_from_eio (mg s1) e ns) as [sid|] eqn:Hsid; [|apply hp_ret; auto].
    assert (Hmine : In sid (mine0 s e)).
    { right. rewrite <- Hmg. eapply sid_from_eio_In; eauto. }
    apply (hp_bind_E _ _ _ E (fun _ s' => s' = s1) (fun s' => s' = s1)); [| |auto].
    - apply (trigger_event_noact c E (fun a => In (PStr sid) a)); auto.
      + intros h a Ha. exists sid. auto.
      + intros a Hd. split; [|congruence].
        destruct Hd as [-> |[-> |[-> | ->]]]; cbn [In]; auto.
    - intros r s1' ->. destruct r as [v|]; [|apply hp_ret; auto]. destruct id as [i|]; [|apply hp_ret; auto].
      apply send_e_quiet.
  Qed.

  Lemma handle_ack_local pns id data s1 :
    mg s1 = mg s ->
    hp s1 (handle_ack c e pns id data) (fun _ s' es => osame e s1 s' /\ Forall E es).
  Proof.
    intros Hmg. unfold handle_ack. set (ns := ns_or_default pns). apply hp_getS_bind.
    set (s2 := upd_mg s1 (fst (trigger_callback (mg s1) (sid_from_eio (mg s1) e ns) id))).
    assert (Hos : osame e s1 s2).
    { destruct (trigger_callback_views (mg s1) e ns id) as (A & B & C). apply osame_mg; auto. }
    apply (hp_bind_E _ _ _ E (fun r s' => s' = s2 /\ r = Ok (snd (trigger_callback (mg s1) (sid_from_eio (mg s1) e ns) id)))
                     (fun s' => osame e s1 s')).
    - apply hp_with_mg. auto.
    - intros t s' [-> Ht]. injection Ht as ->.
      destruct (snd (trigger_callback (mg s1) (sid_from_eio (mg s1) e ns) id)) as [|cb] eqn:Hcb; [apply hp_ret; auto|].
      apply (hp_bind_E _ _ _ E (fun _ s' => s' = s2) (fun s' => osame e s1 s')); [apply hp_lift; auto| |intros; subst; auto].
      intros args s' ->. apply hp_tell. split; [auto|]. constructor; [|constructor].
      (* the callback was registered for a session id of this transport *)
      unfold trigger_callback in Hcb. rewrite Hmg in Hcb.
      destruct (sid_from_eio (mg s) e ns) as [sd|] eqn:Hsd; [|discriminate].
      destruct id as [i|]; [|discriminate].
      destruct (aget str_eqb (callbacks (mg s)) sd) as [slot|] eqn:Hslot; [|discriminate].
      destruct (i <=? 0)%Z; [discriminate|].
      destruct (aget N.eqb (cb_entries slot) (Z.to_N i)) as [cb'|] eqn:Hcb'; [|discriminate].
      cbn [snd] in Hcb. injection Hcb as ->. apply aget_In in Hcb' as (i' & Hin & _).
      exists sd, slot, i'. split; [eapply sid_from_eio_In; eauto|auto].
    - intros x s' [-> _]. auto.
  Qed.

  Lemma removelast_two (l : list pv) x y : removelast (l ++ [x; y]) = l ++ [x].
  Proof. change (l ++ [x; y]) with (l ++ [x] ++ [y]). rewrite app_assoc. apply removelast_last. Qed.

  (* the tail shared by the client DISCONNECT and the refused CONNECT: handler, then forget *)
  Lemma disconnect_tail_local ns sid args s1 b :
    Mid s1 -> pending (mg s1) = [(ns, [sid])] -> nroom (mg s1) ns = Some b -> In (sid, e) b ->
    In sid (mine0 s e) ->
    (forall a, derived (PStr (s2l "disconnect")) ns args a -> In (PStr sid) a /\ In (PStr sid) (removelast a)) ->
    hp s1 (finallyM (_ <~ trigger_event c (PStr (s2l "disconnect")) ns args ;; ret tt)
                    (set_mg (fun m => mgr_disconnect m sid ns)))
       (fun _ s' es => osame e s1 s' /\ Forall E es).
  Proof.
    intros HM Hp Hn Hin Hmine Hargs. apply hp_finally. apply hp_bind.
    eapply hp_conseq.
    { apply (trigger_event_noact c E (fun a => In (PStr sid) a)); auto.
      - intros h a Ha. exists sid. auto.
      - intros a Hd. destruct (Hargs a Hd). auto. }
    intros r s2 e1 [-> F1].
    assert (G : hp s1 (set_mg (fun m => mgr_disconnect m sid ns))
                  (fun _ s3 e2 => osame e s1 s3 /\ Forall E (e1 ++ e2))).
    { apply hp_set_mg. rewrite app_nil_r. split; [|auto].
      destruct (nroom_rmem _ _ _ _ _ _ _ (mid_mg _ HM) Hn Hin) as (rm & Hr & Hm).
      assert (Hs : sid_from_eio (mg s1) e ns = Some sid) by (eapply rmem_sid_from_eio; eauto; apply (mid_mg _ HM)).
      destruct (mgr_disconnect_views _ _ _ _ _ _ (mid_mg _ HM) Hs) as (A & B & C). apply osame_mg; auto. }
    destruct r as [v|x]; [apply hp_ret|]; (eapply hp_conseq; [exact G|]); intros rf s3 e2 HH; rewrite ?app_nil_r; exact HH.
  Qed.

  Lemma handle_disconnect_local pns reason :
    Inv s -> hp s (handle_disconnect c e pns reason) (fun _ s' es => osame e s s' /\ Forall E es).
  Proof.
    intros [HM Hp]. unfold handle_disconnect. set (ns := ns_or_default pns). apply hp_getS_bind.
    destruct (sid_from_eio (mg s) e ns) as [sid|] eqn:Hsid.
    2:{ cbn [is_connected negb]. apply hp_ret. split; [apply osame_refl|constructor]. }
    destruct (sid_from_eio_some _ _ _ _ _ _ (mid_mg _ HM) Hsid) as (b & rm & Hn & Hin & Hg & Hr & Hm).
    rewrite (is_connected_nopending _ _ _ _ _ Hp Hn Hg). cbn [negb].
    apply hp_bind. apply hp_with_mg. rewrite (pre_disconnect_run _ _ _ _ Hp Hn). cbn [fst snd].
    apply hp_bind. apply hp_lift. cbn beta iota.
    set (s1 := upd_mg s (mkMgr (rooms (mg s)) [(ns, [sid])] (callbacks (mg s)))).
    assert (HM1 : Mid s1).
    { apply Mid_upd_mg; auto. apply (MInv_ext _ _ (mg s)); auto. apply (mid_mg _ HM). }
    assert (Hos1 : osame e s s1) by (split; reflexivity).
    eapply hp_conseq.
    - apply (disconnect_tail_local ns sid _ s1 b); auto.
      + right. eapply sid_from_eio_In; eauto.
      + intros a Hd. destruct Hd as [-> |[-> |[-> | ->]]]; cbn [In removelast]; auto 6.
    - intros r s' es [Hos F]. split; [eapply osame_trans; eauto|auto].
  Qed.

  Lemma handle_connect_local pns data :
    Inv s -> In e (live s) ->
    hp s (handle_connect c e pns data) (fun _ s' es => osame e s s' /\ Forall E es).
  Proof.
    intros HI Hlive. unfold handle_connect. set (ns := ns_or_default pns).
    assert (Hns : ns <> []).
    { unfold ns, ns_or_default. destruct pns as [[|ch r]|]; discriminate. }
    apply hp_getS_bind. set (sid := sid_name (fresh s)).
    assert (Hmine : In sid (mine0 s e)) by (left; reflexivity).
    (* manager.connect *)
    apply (hp_bind_E _ _ _ E
             (fun r s1 => osame e s s1 /\ Inv s1 /\
                (r = Ok None \/ (r = Ok (Some sid) /\ exists b, nroom (mg s1) ns = Some b /\ In (sid, e) b)))
             (fun s' => osame e s s')).
    { destruct (served c ns).
      - apply hp_bind. apply hp_putS. apply hp_with_mg. cbn [mg environ binpkt sessions live fresh upd_mg].
        destruct HI as [HM Hp].
        destruct (mgr_connect_spec _ _ _ e ns (mid_mg _ HM) Hlive Hns) as (A & B & C & D & F & G & K).
        destruct (mgr_connect_views _ _ _ e ns (mid_mg _ HM) Hlive Hns) as (V1 & V2 & V3).
        fold sid in A, B, C, D, F, G, K, V1, V2, V3.
        split; [|constructor]. split; [split; auto|]. split.
        + split; [|cbn [mg upd_mg]; congruence]. destruct HM as [H1 H2 H3 H4]. split; auto.
        + destruct G as [G|G]; rewrite G; [left; reflexivity|right]. split; [reflexivity|].
          destruct (K G) as (rm' & Hr' & Hm' & _).
          destruct (rmem_nroom _ _ _ _ _ _ _ A Hr' Hm') as (b & Hn & _ & Hin). exists b. auto.
      - apply hp_ret. split; [|constructor]. split; [apply osame_refl|]. split; auto. }
    2:{ intros x s1 (Hos & _). exact Hos. }
    intros osid s1 (Hos1 & HI1 & Hcase).
    destruct Hcase as [[= ->]|([= ->] & b & Hn1 & Hin1)].
    { eapply hp_conseq; [apply send_e_quiet|]. intros r s' es [-> F]. auto. }
    (* up to the verdict nothing changes any more *)
    set (Q := fun s' : srv => s' = s1).
    assert (Htrig : forall args, (exists rest, args = PStr sid :: rest) ->
               hp s1 (trigger_event c (PStr (s2l "connect")) ns args) (fun _ s' es => s' = s1 /\ Forall E es)).
    { intros args [rest ->]. apply (trigger_event_noact c E (fun a => In (PStr sid) a)); auto.
      - intros h a Ha. exists sid. auto.
      - intros a Hd. split; [|discriminate]. destruct Hd as [-> |[-> |[-> | ->]]]; cbn [In]; auto. }
    apply (hp_bind_E _ _ _ E (fun _ s' => s' = s1) (fun s' => osame e s s')); [| |intros x s' ->; auto].
    { destruct (always_connect c); [apply send_e_quiet|apply hp_ret; auto]. }
    intros _ s' ->.
    apply (hp_bind_E _ _ _ E (fun _ s' => s' = s1) (fun s' => osame e s s')); [| |intros x s' ->; auto].
    { destruct (aget str_eqb (environ s) e); [apply hp_ret|apply hp_raise]; auto. }
    intros env s' ->.
    apply (hp_bind_E _ _ _ E (fun _ s' => s' = s1) (fun s' => osame e s s')); [| |intros x s' ->; auto].
    { refine ((_ : pres (fun s' => s' = s1) E _) s1 eq_refl).
      apply pres_catch.
      - apply pres_bind; [|intros r; apply pres_ret].
        destruct (truthy data).
        + intros s' ->. apply Htrig. eauto.
        + apply pres_catch; [intros s' ->; apply Htrig; eauto|].
          intros x k Hx. destruct x; try discriminate. injection Hx as <-. intros s' ->. apply Htrig. eauto.
      - intros x k Hx. destruct x; try discriminate. injection Hx as <-. apply pres_ret. }
    intros [success fail_reason] s' ->.
    destruct (match success with Some v => pv_eqb v (PBool false) | None => false end).
    2:{ destruct (always_connect c); [apply hp_ret; auto|].
        eapply hp_conseq; [apply send_e_quiet|]. intros r s' es [-> F]. auto. }
    (* refusal *)
    destruct HI1 as [M1 Hp1].
    destruct (nroom_rmem _ _ _ _ _ _ _ (mid_mg _ M1) Hn1 Hin1) as (rm1 & Hr1 & Hm1).
    assert (Hs1 : sid_from_eio (mg s1) e ns = Some sid) by (eapply rmem_sid_from_eio; eauto; apply (mid_mg _ M1)).
    apply hp_finally. destruct (always_connect c).
    - apply hp_bind. apply hp_with_mg. rewrite (pre_disconnect_run _ _ _ _ Hp1 Hn1). cbn [fst snd].
      set (s5 := upd_mg s1 (mkMgr (rooms (mg s1)) [(ns, [sid])] (callbacks (mg s1)))).
      assert (M5 : MInv (live s5) (fresh s5) (mg s5)).
      { apply (MInv_ext _ _ (mg s1)); auto. apply (mid_mg _ M1). }
      apply hp_bind. apply hp_lift. cbn beta iota.
      eapply hp_conseq; [apply send_e_quiet|]. intros r5 s5' e5 [-> F5]. apply hp_set_mg.
      rewrite app_nil_r. split; [|auto].
      assert (Hs5 : sid_from_eio (mg s5) e ns = Some sid) by exact Hs1.
      destruct (mgr_disconnect_views _ _ _ _ _ _ M5 Hs5) as (A & B & C).
      eapply osame_trans; [exact Hos1|]. split; auto.
    - eapply hp_conseq; [apply send_e_quiet|]. intros r5 s5' e5 [-> F5]. apply hp_set_mg.
      rewrite app_nil_r. split; [|auto].
      destruct (mgr_disconnect_views _ _ _ _ _ _ (mid_mg _ M1) Hs1) as (A & B & C).
      eapply osame_trans; [exact Hos1|]. apply osame_mg; auto.
  Qed.
End Local.
(* the frame does not carry an event that is literally named "disconnect" (see
   C12_reserved_event_refuted for what happens otherwise) *)
Definition benign_event_name (c : cfg) (s : srv) (e : str) (payload : pv) (loads : str -> Res pv) : Prop :=
  match aget str_eqb (binpkt s) e with
  | Some r => forall r', add_attachment r payload = Ok (r', true) -> ev_not_disconnect (pdata (rp r'))
  | None => forall r, decode_any c loads payload = Ok r -> ev_not_disconnect (pdata (rp r))
  end.

Lemma osame_binpkt e s bp :
  filter (fun x : str * rpacket => other e (fst x)) bp = filter (fun x => other e (fst x)) (binpkt s) ->
  osame e s (mkSrv (mg s) (environ s) bp (sessions s) (live s) (fresh s)).
Proof. intros H. split; auto. Qed.

Lemma handle_eio_message_local c s e loads payload :
  has_actions c = false -> Inv s -> In e (live s) -> benign_event_name c s e payload loads ->
  hp s (handle_eio_message c loads e payload) (fun _ s' es => osame e s s' /\ Forall (Eok s e) es).
Proof.
  intros Hna HI Hlive Hben. unfold handle_eio_message. apply hp_getS_bind. unfold benign_event_name in Hben.
  destruct (aget str_eqb (binpkt s) e) as [r|] eqn:Hbp.
  - assert (Hself : forall k' (r0 : rpacket), str_eqb k' e = true -> other e (fst (k', r0)) = false).
    { intros k' r0 Hk. apply str_eqb_eq in Hk. subst. apply other_self. }
    destruct (add_attachment r payload) as [[r' [|]]|x] eqn:Hadd.
    + apply hp_bind. unfold set_binpkt. apply hp_modify.
      set (s1 := mkSrv (mg s) (environ s) (adel str_eqb (binpkt s) e) (sessions s) (live s) (fresh s)).
      assert (Hos1 : osame e s s1).
      { apply osame_binpkt. apply (filter_adel str_eqb _ _ _ r Hbp). intros k' Hk. apply Hself; auto. }
      destruct (type_is (rp r') BINARY_EVENT).
      * eapply hp_conseq; [apply (handle_event_local c Hna s e _ _ _ s1); [reflexivity|apply Hben; reflexivity]|].
        intros ? s' es [-> F]. auto.
      * eapply hp_conseq; [apply (handle_ack_local c s e _ _ _ s1); reflexivity|].
        intros ? s' es [Hos F]. split; [eapply osame_trans; eauto|auto].
    + unfold set_binpkt. apply hp_modify. split; [|constructor]. apply osame_binpkt.
      apply (filter_aset str_eqb _ _ _ _ r Hbp). intros k' Hk. split; apply Hself; auto.
    + apply hp_bind. destruct (N.leb _ _).
      * apply hp_ret. apply hp_raise. split; [apply osame_refl|constructor].
      * unfold set_binpkt. apply hp_modify. apply hp_raise. split; [|constructor]. apply osame_binpkt.
        apply (filter_aset str_eqb _ _ _ _ r Hbp). intros k' Hk. split; apply Hself; auto.
  - apply hp_bind. apply hp_lift.
    destruct (decode_any c loads payload) as [r|x] eqn:Hdec; [|split; [apply osame_refl|constructor]].
    destruct (type_is (rp r) CONNECT); [apply handle_connect_local; auto|].
    destruct (type_is (rp r) DISCONNECT); [apply handle_disconnect_local; auto|].
    destruct (type_is (rp r) EVENT).
    { eapply hp_conseq; [apply (handle_event_local c Hna s e _ _ _ s); [reflexivity|apply Hben; reflexivity]|].
      intros ? s' es [-> F]. split; [apply osame_refl|auto]. }
    destruct (type_is (rp r) ACK); [apply handle_ack_local; reflexivity|].
    destruct (type_is (rp r) BINARY_EVENT || type_is (rp r) BINARY_ACK).
    + unfold set_binpkt. apply hp_modify. split; [|constructor]. apply osame_binpkt.
      apply filter_aset_new; [exact Hbp|]. apply other_self.
    + apply hp_raise. split; [apply osame_refl|constructor].
Qed.

Lemma step_message_local c s e payload tbl :
  has_actions c = false -> Inv s -> benign_event_name c s e payload (table_loads tbl) ->
  osame e s (fst (step c s (EioMessage e payload tbl))) /\
  Forall (Eok s e) (snd (step c s (EioMessage e payload tbl))).
Proof.
  intros Hna HI Hben. apply (hp_step c s (EioMessage e payload tbl) (fun s' es => osame e s s' /\ Forall (Eok s e) es)).
  cbn [step_m]. apply hp_getS_bind. destruct (existsb (str_eqb e) (live s)) eqn:Ex.
  - apply hp_contain. apply handle_eio_message_local; auto.
    apply existsb_exists in Ex as (x & Hx & Hex). apply str_eqb_eq in Hex. subst. auto.
  - apply hp_ret. split; [apply osame_refl|constructor].
Qed.

Lemma calls_of_In l h a : In (h, a) (calls_of l) <-> In (Call h a) l.
Proof.
  unfold calls_of. rewrite in_flat_map. split.
  - intros (x & Hx & Hin). destruct x; cbn in Hin; try contradiction. destruct Hin as [[= <- <-]|[]]. auto.
  - intros H. exists (Call h a). split; [auto|left; reflexivity].
Qed.
Lemma cbcalls_of_In l h a : In (h, a) (cbcalls_of l) <-> In (CbCall h a) l.
Proof.
  unfold cbcalls_of. rewrite in_flat_map. split.
  - intros (x & Hx & Hin). destruct x; cbn in Hin; try contradiction. destruct Hin as [[= <- <-]|[]]. auto.
  - intros H. exists (CbCall h a). split; [auto|left; reflexivity].
Qed.

Theorem C12_frame_local_lemma c s e payload tbl :
  has_actions c = false -> Inv s -> benign_event_name c s e payload (table_loads tbl) ->
  c12_step c s (EioMessage e payload tbl) (snd (step c s (EioMessage e payload tbl))) = true.
Proof.
  intros Hna HI Hben. destruct (step_message_local c s e payload tbl Hna HI Hben) as [Hos HE].
  unfold c12_step. destruct (negb (existsb (str_eqb e) (live s))); [reflexivity|].
  set (obs := snd (step c s (EioMessage e payload tbl))) in *.
  set (s' := fst (step c s (EioMessage e payload tbl))) in *.
  rewrite Forall_forall in HE. rewrite Hna. cbn [orb].
  apply andb_true_iff; split; [apply andb_true_iff; split; [apply andb_true_iff; split; [apply andb_true_iff; split|]|]|].
  - apply forallb_forall. intros e' He'. unfold out_eios in He'. apply in_flat_map in He' as (x & Hx & Hin).
    destruct x; cbn in Hin; try contradiction. destruct Hin as [<-|[]]. specialize (HE _ Hx). cbn in HE. subst. apply str_eqb_refl.
  - apply forallb_forall. intros [h a] Hin. apply calls_of_In in Hin. destruct (HE _ Hin) as (sid & Hmine & Ha). cbn [snd].
    apply existsb_exists. exists sid. split.
    + destruct Hmine as [<-|Hm]; [left; reflexivity|]. right. apply in_or_app. left. exact Hm.
    + unfold mentions_sid. apply existsb_exists. exists (PStr sid). split; [auto|apply pv_eqb_refl].
  - apply forallb_forall. intros [cb a] Hin. apply cbcalls_of_In in Hin.
    destruct (HE _ Hin) as (sid & slot & i & Hsid & Hslot & Hent). cbn [fst].
    apply existsb_exists. exists sid. split; [auto|]. rewrite Hslot. apply existsb_exists. exists (i, cb).
    split; [auto|]. cbn [snd]. apply N.eqb_refl.
  - apply osame_others_unchanged. exact Hos.
  - unfold classify. destruct (aget str_eqb (binpkt s) e) eqn:Hbp; [reflexivity|].
    destruct (decode_any c (table_loads tbl) payload) as [r|x] eqn:Hd; [reflexivity|].
    unfold obs. rewrite (C12_undecodable_lemma c s e payload tbl x Hbp Hd). reflexivity.
Qed.

(* ---- the reserved event name: a legacy zero-argument disconnect handler can be invoked by an
        ordinary event named "disconnect", and then sees no session id at all ---- *)
Definition c12_ns : str := s2l "/".
Definition c12_e1 : str := s2l "E1".
Definition c12_cfg_legacy : cfg :=
  mkCfg [(c12_ns, [(s2l "disconnect", 2)])] [] [(2, mkBehav (Some O) [] (Returns PNone))] None false true.
Definition c12_ops_legacy : list op :=
  [EioConnect c12_e1 PNone; EioMessage c12_e1 (PStr (s2l "0")) []].
Definition c12_frame_legacy : op :=
  EioMessage c12_e1 (PStr (s2l "2[""disconnect""]"))
             [(s2l "[""disconnect""]", Ok (PList [PStr (s2l "disconnect")]))].
Theorem C12_reserved_event_refuted :
  exists c s o, has_actions c = false /\ Inv s /\
                calls_of (snd (step c s o)) = [(2, [])] /\ c12_step c s o (snd (step c s o)) = false.
Proof.
  exists c12_cfg_legacy, (fst (run c12_cfg_legacy srv_init c12_ops_legacy)), c12_frame_legacy.
  split; [reflexivity|]. split; [|split; vm_compute; reflexivity].
  apply run_Inv; [|repeat constructor|apply Inv_init].
  intros hid b a Hin Ha. cbn in Hin. destruct Hin as [[= <- <-]|[]]. destruct Ha.
Qed.
(* ------------------------------------------------------------------------------------ *)
(** * The receive buffer: only set_binpkt ever writes it *)

Section BinFrame.
  Variable c : cfg.
  Variable X : list (str * rpacket).
  Let J := fun s' : srv => binpkt s' = X.

  Lemma bin_with_mg {A} (f : mgr -> mgr * A) : pres J anyeff (with_mg f).
  Proof. apply pres_with_mg. intros s H. exact H. Qed.
  Lemma bin_set_mg f : pres J anyeff (set_mg f).
  Proof. apply pres_set_mg. intros s H. exact H. Qed.

  Lemma bin_save sid v ns : pres J anyeff (api_save_session sid v ns).
  Proof.
    unfold api_save_session. apply pres_bind; [apply pres_getS|]. intros s0.
    apply pres_bind; [apply pres_lift|]. intros d. destruct (eio_from_sid _ _ _); [|apply pres_ret].
    unfold set_session. apply pres_modify. intros s1 H. exact H.
  Qed.
  Lemma bin_get sid ns : pres J anyeff (api_get_session sid ns).
  Proof.
    unfold api_get_session. apply pres_bind; [apply pres_getS|]. intros s0.
    apply pres_bind; [apply pres_lift|]. intros d.
    destruct (aget str_eqb d _); [apply pres_ret|]. destruct (eio_from_sid _ _ _); [|apply pres_ret].
    apply pres_bind; [|intros; apply pres_ret]. unfold set_session. apply pres_modify. intros s1 H. exact H.
  Qed.

  Lemma bin_action ns sid a : pres J anyeff (run_action c ns sid a).
  Proof.
    destruct a; cbn [run_action].
    - apply pres_bind; [apply bin_with_mg|]. intros r. apply pres_lift.
    - apply bin_set_mg.
    - apply mgr_emit_nocb_pres. intros; exact I.
    - apply mgr_emit_nocb_pres. intros; exact I.
    - apply bin_save.
    - apply pres_bind; [apply bin_get|]. intros v. apply pres_tell. exact I.
  Qed.

  Lemma bin_trigger ev ns args : pres J anyeff (trigger_event c ev ns args).
  Proof.
    apply (trigger_event_gen c J anyeff (fun _ => True)); [intros; exact I| |auto].
    intros. apply bin_action.
  Qed.

  Lemma bin_handle_event eio pns id data : pres J anyeff (handle_event c eio pns id data).
  Proof.
    unfold handle_event. apply pres_bind; [apply pres_getS|]. intros s0.
    apply pres_bind; [apply pres_lift|]. intros ea. destruct (negb _); [apply pres_ret|].
    destruct (sid_from_eio _ _ _); [|apply pres_ret].
    apply pres_bind; [apply bin_trigger|]. intros r.
    destruct r; [|apply pres_ret]. destruct id; [|apply pres_ret]. apply send_packet_any.
  Qed.

  Lemma bin_handle_ack eio pns id data : pres J anyeff (handle_ack c eio pns id data).
  Proof.
    unfold handle_ack. apply pres_bind; [apply pres_getS|]. intros s0.
    apply pres_bind; [apply bin_with_mg|]. intros t. destruct t; [apply pres_ret|].
    apply pres_bind; [apply pres_lift|]. intros args. apply pres_tell. exact I.
  Qed.

  Lemma bin_handle_disconnect eio pns reason : pres J anyeff (handle_disconnect c eio pns reason).
  Proof.
    unfold handle_disconnect. apply pres_bind; [apply pres_getS|]. intros s0.
    destruct (negb _); [apply pres_ret|]. destruct (sid_from_eio _ _ _); [|apply pres_ret].
    apply pres_bind; [apply bin_with_mg|]. intros r. apply pres_bind; [apply pres_lift|]. intros u.
    apply pres_finally; [|apply bin_set_mg].
    apply pres_bind; [apply bin_trigger|]. intros; apply pres_ret.
  Qed.

  Lemma bin_handle_connect eio pns data : pres J anyeff (handle_connect c eio pns data).
  Proof.
    unfold handle_connect. apply pres_getS_bind. intros s0 H0.
    refine ((_ : pres J anyeff _) s0 H0).
    apply pres_bind.
    { destruct (served c _); [|apply pres_ret]. apply pres_bind; [|intros; apply bin_with_mg].
      apply pres_putS. exact H0. }
    intros osid. destruct osid as [sid|]; [|apply send_packet_any].
    apply pres_bind. { destruct (always_connect c); [apply send_packet_any|apply pres_ret]. }
    intros _. apply pres_bind. { destruct (aget str_eqb (environ s0) eio); [apply pres_ret|apply pres_raise]. }
    intros env. apply pres_bind.
    { apply pres_catch.
      - apply pres_bind; [|intros; apply pres_ret]. destruct (truthy data); [apply bin_trigger|].
        apply pres_catch; [apply bin_trigger|]. intros x k Hx. destruct x; try discriminate.
        injection Hx as <-. apply bin_trigger.
      - intros x k Hx. destruct x; try discriminate. injection Hx as <-. apply pres_ret. }
    intros [success fail_reason]. destruct (match success with Some v => pv_eqb v (PBool false) | None => false end).
    - apply pres_finally; [|apply bin_set_mg]. destruct (always_connect c); [|apply send_packet_any].
      apply pres_bind; [apply bin_with_mg|]. intros r. apply pres_bind; [apply pres_lift|]. intros u. apply send_packet_any.
    - destruct (always_connect c); [apply pres_ret|apply send_packet_any].
  Qed.
End BinFrame.

(* what one frame of transport e can do to the receive buffers: the buffers of the other
   transports are untouched, and the buffer of e gains at most one attachment - or is created
   empty by a binary header, whatever attachment count the header declares *)
Definition binpkt_bounded (e : str) (bp bp' : list (str * rpacket)) : Prop :=
  (forall k, k <> e -> aget str_eqb bp' k = aget str_eqb bp k) /\
  (forall r', aget str_eqb bp' e = Some r' ->
              match aget str_eqb bp e with
              | Some r => (List.length (ratts r') <= List.length (ratts r) + 1)%nat
              | None => ratts r' = []
              end).

Lemma binpkt_bounded_refl e bp :
  (forall r, aget str_eqb bp e = Some r -> True) -> binpkt_bounded e bp bp.
Proof.
  intros _. split; [auto|]. intros r' Hr. rewrite Hr. lia.
Qed.

Theorem C12_bounded_state_lemma c s e payload tbl :
  Inv s -> binpkt_bounded e (binpkt s) (binpkt (fst (step c s (EioMessage e payload tbl)))).
Proof.
  intros HI. apply (hp_step c s (EioMessage e payload tbl) (fun s' _ => binpkt_bounded e (binpkt s) (binpkt s'))).
  cbn [step_m]. apply hp_getS_bind.
  assert (Hrefl : binpkt_bounded e (binpkt s) (binpkt s)) by (apply binpkt_bounded_refl; auto).
  destruct (existsb (str_eqb e) (live s)); [|apply hp_ret; exact Hrefl].
  apply hp_contain. unfold handle_eio_message. apply hp_getS_bind.
  assert (Hk : keys_ok str_eqb (binpkt s)) by apply (proj1 (mid_bin _ (proj1 HI))).
  assert (Hkeep : forall (m : SM unit) s1, pres (fun s' => binpkt s' = binpkt s1) anyeff m ->
             binpkt_bounded e (binpkt s) (binpkt s1) ->
             hp s1 m (fun _ s' _ => binpkt_bounded e (binpkt s) (binpkt s'))).
  { intros m s1 Hm Hb. eapply hp_conseq; [apply Hm; reflexivity|]. intros r s' es [-> _]. exact Hb. }
  assert (Haset : forall r0, (match aget str_eqb (binpkt s) e with
                              | Some r => (List.length (ratts r0) <= List.length (ratts r) + 1)%nat
                              | None => ratts r0 = [] end) ->
                             binpkt_bounded e (binpkt s) (aset str_eqb (binpkt s) e r0)).
  { intros r0 H0. split.
    - intros k Hne. apply (xaget_aset_neq _ str_eqb_eq). auto.
    - intros r'. rewrite (xaget_aset_eq _ str_eqb_eq). intros [= <-]. exact H0. }
  destruct (aget str_eqb (binpkt s) e) as [r|] eqn:Hbp.
  - destruct (add_attachment r payload) as [[r' [|]]|x] eqn:Hadd.
    + apply hp_bind. unfold set_binpkt. apply hp_modify.
      set (s1 := mkSrv (mg s) (environ s) (adel str_eqb (binpkt s) e) (sessions s) (live s) (fresh s)).
      assert (Hb1 : binpkt_bounded e (binpkt s) (binpkt s1)).
      { split; cbn [s1 binpkt].
        - intros k Hne. apply (xaget_adel_neq _ str_eqb_eq). auto.
        - intros r''. rewrite (xaget_adel_eq _ str_eqb_eq) by auto. discriminate. }
      destruct (type_is (rp r') BINARY_EVENT); apply Hkeep; auto; [apply bin_handle_event|apply bin_handle_ack].
    + unfold set_binpkt. apply hp_modify. cbn [binpkt]. apply Haset.
      rewrite (add_attachment_grows _ _ _ _ Hadd). lia.
    + apply hp_bind. destruct (N.leb _ _).
      * apply hp_ret. apply hp_raise. exact Hrefl.
      * unfold set_binpkt. apply hp_modify. apply hp_raise. cbn [binpkt]. apply Haset. cbn [ratts].
        rewrite app_length. cbn. lia.
  - apply hp_bind. apply hp_lift.
    destruct (decode_any c (table_loads tbl) payload) as [r|x] eqn:Hdec; [|exact Hrefl].
    destruct (type_is (rp r) CONNECT); [apply Hkeep; auto; apply bin_handle_connect|].
    destruct (type_is (rp r) DISCONNECT); [apply Hkeep; auto; apply bin_handle_disconnect|].
    destruct (type_is (rp r) EVENT); [apply Hkeep; auto; apply bin_handle_event|].
    destruct (type_is (rp r) ACK); [apply Hkeep; auto; apply bin_handle_ack|].
    destruct (type_is (rp r) BINARY_EVENT || type_is (rp r) BINARY_ACK).
    + unfold set_binpkt. apply hp_modify. cbn [binpkt]. apply Haset. eapply decode_any_ratts; eauto.
    + apply hp_raise. exact Hrefl.
Qed.
(* ------------------------------------------------------------------------------------ *)
(** * Whole histories *)

Lemma cfg_ok_noact c : has_actions c = false -> cfg_ok c.
Proof.
  intros H hid b a Hin Ha. unfold has_actions in H. exfalso.
  assert (existsb (fun hb : N * hbehav => match h_actions (snd hb) with [] => false | _ => true end) (behav c) = true);
    [|congruence].
  apply existsb_exists. exists (hid, b). split; [auto|]. cbn [snd]. destruct (h_actions b); [destruct Ha|reflexivity].
Qed.

Fixpoint benign_ops (c : cfg) (s : srv) (ops : list op) : Prop :=
  match ops with
  | [] => True
  | o :: r =>
      match o with
      | EioMessage e p t => benign_event_name c s e p (table_loads t)
      | _ => True
      end /\ benign_ops c (fst (step c s o)) r
  end.

Theorem C12_run_lemma c ops :
  has_actions c = false -> Forall op_ok ops -> benign_ops c srv_init ops ->
  all_steps (c12_step c) c srv_init ops (snd (run c srv_init ops)) = true.
Proof.
  intros Hna Hops. assert (Hc := cfg_ok_noact c Hna).
  assert (G : forall s, Inv s -> benign_ops c s ops -> all_steps (c12_step c) c s ops (snd (run c s ops)) = true).
  { induction Hops as [|o ops Ho _ IH]; intros s HI Hb; [reflexivity|].
    rewrite run_cons. cbn [snd all_steps]. destruct Hb as [Hb1 Hb2].
    rewrite IH; [|apply step_Inv; auto|auto]. rewrite andb_true_r.
    destruct o; try reflexivity. apply C12_frame_local_lemma; auto. }
  intros Hb. apply G; [apply Inv_init|auto].
Qed.

(* ------------------------------------------------------------------------------------ *)
(** * Non-vacuity *)
Definition x_ns : str := s2l "/".
Definition x_e1 : str := s2l "E1".     (* the offender *)
Definition x_e2 : str := s2l "E2".     (* a bystander *)
Definition x_cfg : cfg :=
  mkCfg [(x_ns, [(s2l "connect", 1); (s2l "msg", 2); (s2l "disconnect", 3)])] []
        [(1, mkBehav None [] (Returns PNone)); (2, mkBehav None [] (Raises RuntimeError));
         (3, mkBehav None [] (Raises RuntimeError))] None false true.
Definition x_json : str := s2l "[""e"",{""_placeholder"":true,""num"":0}]".
Definition x_ops : list op :=
  [EioConnect x_e1 PNone; EioConnect x_e2 PNone;
   EioMessage x_e1 (PStr (s2l "0")) []; EioMessage x_e2 (PStr (s2l "0")) [];
   ApiEmit (PStr (s2l "ping")) PNone PNone PNone PNone None (Some 7);
   ApiSaveSession (sid_name 1) (PInt 9) None;
   EioMessage x_e2 (PStr (s2l "52-[""e""]")) [(s2l "[""e""]", Ok (PList [PStr (s2l "e")]))]].
Definition x_state : srv := fst (run x_cfg srv_init x_ops).
Lemma x_state_Inv : Inv x_state.
Proof. apply run_Inv; [apply cfg_ok_noact; reflexivity|repeat constructor|apply Inv_init]. Qed.

(* the bystander owns rooms, an outstanding callback, a session and a half-received packet *)
Example x_state_nontrivial :
  sids_of_eio (mg x_state) x_e2 = [sid_name 1] /\ map fst (binpkt x_state) = [x_e2] /\
  map fst (callbacks (mg x_state)) = [sid_name 0; sid_name 1] /\ map fst (sessions x_state) = [x_e2].
Proof. vm_compute. repeat split. Qed.

(* the offender sends a well-formed event whose handler raises, then a client DISCONNECT whose
   handler raises *)
Definition x_frame_event : op :=
  EioMessage x_e1 (PStr (s2l "2[""msg"",1]")) [(s2l "[""msg"",1]", Ok (PList [PStr (s2l "msg"); PInt 1]))].
Definition x_frame_disc : op := EioMessage x_e1 (PStr (s2l "1")) [].

Example x_frame_event_local :
  calls_of (snd (step x_cfg x_state x_frame_event)) = [(2, [PStr (sid_name 0); PInt 1])] /\
  c12_step x_cfg x_state x_frame_event (snd (step x_cfg x_state x_frame_event)) = true.
Proof.
  split; [vm_compute; reflexivity|]. apply C12_frame_local_lemma; [reflexivity|apply x_state_Inv|].
  unfold benign_event_name. replace (aget str_eqb (binpkt x_state) x_e1) with (@None rpacket) by (vm_compute; reflexivity).
  intros r Hr. vm_compute in Hr. injection Hr as <-. intros ev rest Hs. vm_compute in Hs. injection Hs as <- <-. reflexivity.
Qed.

Example x_frame_disc_local :
  calls_of (snd (step x_cfg x_state x_frame_disc)) = [(3, [PStr (sid_name 0); PStr (s2l "client disconnect")])] /\
  sids_of_eio (mg (fst (step x_cfg x_state x_frame_disc))) x_e1 = [] /\
  c12_step x_cfg x_state x_frame_disc (snd (step x_cfg x_state x_frame_disc)) = true.
Proof.
  split; [vm_compute; reflexivity|]. split; [vm_compute; reflexivity|].
  apply C12_frame_local_lemma; [reflexivity|apply x_state_Inv|].
  unfold benign_event_name. replace (aget str_eqb (binpkt x_state) x_e1) with (@None rpacket) by (vm_compute; reflexivity).
  intros r Hr. vm_compute in Hr. injection Hr as <-. intros ev rest Hs. vm_compute in Hs. discriminate.
Qed.

(* an undecodable frame: the JSON part is rejected by the parser *)
Example x_undecodable :
  step x_cfg x_state (EioMessage x_e1 (PStr (s2l "2[")) [(s2l "[", Err ValueError)]) = (x_state, []).
Proof. apply (C12_undecodable_lemma _ _ _ _ _ ValueError); vm_compute; reflexivity. Qed.

(* the guards on concrete frames: an 11-digit attachment count, a 101-digit id *)
Example x_guard_count : forall loads,
  decode_str loads (s2l "512345678901-[""e""]") = Err ValueError.
Proof. intros loads. apply (C12_guard_count_lemma loads 53 (s2l "12345678901") (s2l "[""e""]")); [reflexivity|cbn; lia]. Qed.

Example x_guard_id : forall loads,
  decode_str loads (50 :: repeat 49 101 ++ s2l "[""e""]") = Err ValueError.
Proof.
  intros loads. apply (C12_guard_id_lemma loads 50 (repeat 49 101) (s2l "[""e""]")); [reflexivity|].
  rewrite repeat_length. lia.
Qed.

(* a header that declares 4000000000 attachments allocates nothing: the buffer is created empty *)
Example x_bounded :
  let s' := fst (step x_cfg x_state (EioMessage x_e1 (PStr (s2l "54000000000-[""e""]"))
                                                [(s2l "[""e""]", Ok (PList [PStr (s2l "e")]))])) in
  option_map (fun r => (rcount r, ratts r)) (aget str_eqb (binpkt s') x_e1) = Some (4000000000, []) /\
  binpkt_bounded x_e1 (binpkt x_state) (binpkt s').
Proof.
  split; [vm_compute; reflexivity|]. apply C12_bounded_state_lemma. apply x_state_Inv.
Qed.

(* msgpack serializer: a frame that unpacks to a list, and one whose dict lacks 'nsp' *)
Definition x_cfg_mp : cfg :=
  mkCfg (handlers x_cfg) [] (behav x_cfg) None false false.
Example x_msgpack_rejected :
  step x_cfg_mp x_state (EioMessage x_e1 (PBytes [147; 1; 2; 3]) [([147; 1; 2; 3], Ok (PList [PInt 1; PInt 2; PInt 3]))])
    = (x_state, []) /\
  step x_cfg_mp x_state (EioMessage x_e1 (PBytes [129]) [([129], Ok (PDict [(PStr (s2l "type"), PInt 2)]))])
    = (x_state, []).
Proof.
  split; apply C12_msgpack_mistyped_rejected_lemma; try reflexivity; vm_compute; auto.
Qed.
