(* C16: user sessions are private to one client connection and namespace. *)
From VT Require Export Server.SrvInv Server.Isolation Check.C16Check.
From Coq Require Import Lia.
Open Scope N_scope.
(* ------------------------------------------------------------------------------------ *)
(** * The session store *)

(* what is stored for (transport, namespace) *)
Definition sess_at (s : srv) (e n : str) : option pv :=
  match aget str_eqb (sessions s) e with Some d => aget str_eqb d n | None => None end.
Definition sess_val (s : srv) (e n : str) : pv :=
  match sess_at s e n with Some v => v | None => PDict [] end.

Definition with_sessions (s : srv) (ss : list (str * list (str * pv))) : srv :=
  mkSrv (mg s) (environ s) (binpkt s) ss (live s) (fresh s).
Definition sess_dict (s : srv) (e : str) : list (str * pv) :=
  match aget str_eqb (sessions s) e with Some d => d | None => [] end.
Definition put_sess (s : srv) (e n : str) (v : pv) : srv :=
  with_sessions s (aset str_eqb (sessions s) e (aset str_eqb (sess_dict s e) n v)).

Lemma sess_at_put s e n v e' n' :
  sess_at (put_sess s e n v) e' n' = if str_eqb e' e && str_eqb n' n then Some v else sess_at s e' n'.
Proof.
  unfold sess_at, put_sess, with_sessions, sess_dict. cbn [sessions].
  destruct (str_eqb e' e) eqn:Ee.
  - apply str_eqb_eq in Ee. subst. rewrite (xaget_aset_eq _ str_eqb_eq). cbn [andb].
    destruct (str_eqb n' n) eqn:En.
    + apply str_eqb_eq in En. subst. apply (xaget_aset_eq _ str_eqb_eq).
    + rewrite (xaget_aset_neq _ str_eqb_eq) by (intros ->; rewrite str_eqb_refl in En; discriminate).
      destruct (aget str_eqb (sessions s) e); reflexivity.
  - cbn [andb]. rewrite (xaget_aset_neq _ str_eqb_eq) by (intros ->; rewrite str_eqb_refl in Ee; discriminate).
    reflexivity.
Qed.

Lemma live_existsb s e : In e (live s) -> existsb (str_eqb e) (live s) = true.
Proof. intros H. apply existsb_exists. exists e. split; [auto|apply str_eqb_refl]. Qed.

(* save_session and get_session as state transformers *)
Lemma api_save_session_run sid v pns s e :
  eio_from_sid (mg s) sid (ns_or_default pns) = Some e -> In e (live s) ->
  api_save_session sid v pns s = (put_sess s e (ns_or_default pns) v, [], Ok tt).
Proof.
  intros He Hl. unfold api_save_session, bindM, getS, lift, eio_session. rewrite He, (live_existsb _ _ Hl).
  reflexivity.
Qed.

Lemma api_get_session_run sid pns s e :
  eio_from_sid (mg s) sid (ns_or_default pns) = Some e -> In e (live s) ->
  api_get_session sid pns s =
  (match sess_at s e (ns_or_default pns) with Some _ => s | None => put_sess s e (ns_or_default pns) (PDict []) end,
   [], Ok (sess_val s e (ns_or_default pns))).
Proof.
  intros He Hl. unfold api_get_session, bindM, getS, lift, eio_session, sess_val, sess_at.
  rewrite He, (live_existsb _ _ Hl).
  destruct (aget str_eqb (sessions s) e) as [d|] eqn:Hd.
  - destruct (aget str_eqb d (ns_or_default pns)) as [v0|] eqn:Hv; [reflexivity|].
    unfold set_session, modify, ret, put_sess, with_sessions, sess_dict. rewrite Hd. reflexivity.
  - cbn [aget]. unfold set_session, modify, ret, put_sess, with_sessions, sess_dict. rewrite Hd. reflexivity.
Qed.

(* not connected / transport gone: both raise KeyError and change nothing *)
Lemma api_get_session_dead sid pns s :
  (match eio_from_sid (mg s) sid (ns_or_default pns) with Some e => ~ In e (live s) | None => True end) ->
  api_get_session sid pns s = (s, [], Err KeyError).
Proof.
  intros H. unfold api_get_session, bindM, getS, lift, eio_session.
  destruct (eio_from_sid (mg s) sid (ns_or_default pns)) as [e|]; [|reflexivity].
  destruct (existsb (str_eqb e) (live s)) eqn:Ex; [|reflexivity]. exfalso. apply H.
  apply existsb_exists in Ex as (x & Hx & Hex). apply str_eqb_eq in Hex. subst. auto.
Qed.

(* ------------------------------------------------------------------------------------ *)
(** * C16_get_after_save, C16_context_manager_persists, C16_isolation *)

Theorem C16_get_after_save_lemma sid v pns s e :
  eio_from_sid (mg s) sid (ns_or_default pns) = Some e -> In e (live s) ->
  let s1 := put_sess s e (ns_or_default pns) v in
  api_save_session sid v pns s = (s1, [], Ok tt) /\
  api_get_session sid pns s1 = (s1, [], Ok v) /\
  sess_at s1 e (ns_or_default pns) = Some v.
Proof.
  intros He Hl s1. assert (Hat : sess_at s1 e (ns_or_default pns) = Some v).
  { unfold s1. rewrite sess_at_put, !str_eqb_refl. reflexivity. }
  split; [apply api_save_session_run; auto|]. split; [|exact Hat].
  rewrite (api_get_session_run sid pns s1 e); auto. unfold sess_val. rewrite Hat. reflexivity.
Qed.

(* later reads return what is stored, as long as the sid is still connected on that transport *)
Theorem C16_get_reads_store sid pns s e v :
  eio_from_sid (mg s) sid (ns_or_default pns) = Some e -> In e (live s) ->
  sess_at s e (ns_or_default pns) = Some v ->
  api_get_session sid pns s = (s, [], Ok v).
Proof.
  intros He Hl Hat. rewrite (api_get_session_run sid pns s e); auto. unfold sess_val. rewrite Hat. reflexivity.
Qed.

(* with session(sid) as d: d[k] = v   ==   get, set key, save *)
Theorem C16_context_manager_lemma c sid pns k v s e :
  eio_from_sid (mg s) sid (ns_or_default pns) = Some e -> In e (live s) ->
  let d := sess_val s e (ns_or_default pns) in
  let s1 := fst (step c s (ApiSessionSet sid pns k v)) in
  snd (step c s (ApiSessionSet sid pns k v)) = [] /\
  sess_at s1 e (ns_or_default pns) = Some (dict_set d k v) /\
  api_get_session sid pns s1 = (s1, [], Ok (dict_set d k v)).
Proof.
  intros He Hl d s1. set (n := ns_or_default pns) in *.
  assert (Hstep : step c s (ApiSessionSet sid pns k v) =
                  (put_sess (match sess_at s e n with Some _ => s | None => put_sess s e n (PDict []) end) e n (dict_set d k v), [])).
  { unfold step. cbn [step_m]. unfold api. unfold bindM at 1. rewrite (api_get_session_run sid pns s e He Hl). fold n.
    set (s0 := match sess_at s e n with Some _ => s | None => put_sess s e n (PDict []) end).
    assert (He0 : eio_from_sid (mg s0) sid n = Some e) by (unfold s0; destruct (sess_at s e n); exact He).
    assert (Hl0 : In e (live s0)) by (unfold s0; destruct (sess_at s e n); exact Hl).
    rewrite (api_save_session_run sid _ pns s0 e He0 Hl0). reflexivity. }
  unfold s1. rewrite Hstep. cbn [fst snd].
  set (s0 := match sess_at s e n with Some _ => s | None => put_sess s e n (PDict []) end).
  assert (Hat : sess_at (put_sess s0 e n (dict_set d k v)) e n = Some (dict_set d k v)).
  { rewrite sess_at_put, !str_eqb_refl. reflexivity. }
  split; [reflexivity|]. split; [exact Hat|].
  apply (C16_get_reads_store sid pns _ e); [| |exact Hat]; cbn [put_sess with_sessions mg live]; unfold s0; destruct (sess_at s e n); auto.
Qed.

(* a save for (sid, ns) changes the stored session of no other (transport, namespace) pair ... *)
Theorem C16_isolation_store sid v pns s e e' n' :
  eio_from_sid (mg s) sid (ns_or_default pns) = Some e -> In e (live s) ->
  (e' <> e \/ n' <> ns_or_default pns) ->
  sess_at (fst (fst (api_save_session sid v pns s))) e' n' = sess_at s e' n'.
Proof.
  intros He Hl Hd. rewrite (api_save_session_run sid v pns s e He Hl). cbn [fst]. rewrite sess_at_put.
  destruct (str_eqb e' e) eqn:E1; [|reflexivity]. destruct (str_eqb n' (ns_or_default pns)) eqn:E2; [|reflexivity].
  apply str_eqb_eq in E1, E2. exfalso. tauto.
Qed.

(* ... and therefore not what get_session returns for any other client or namespace *)
Theorem C16_isolation_lemma sid v pns sid' pns' s :
  let s1 := fst (fst (api_save_session sid v pns s)) in
  (eio_from_sid (mg s) sid' (ns_or_default pns') <> eio_from_sid (mg s) sid (ns_or_default pns) \/
   ns_or_default pns' <> ns_or_default pns) ->
  snd (api_get_session sid' pns' s1) = snd (api_get_session sid' pns' s).
Proof.
  intros s1 Hd.
  destruct (eio_from_sid (mg s) sid (ns_or_default pns)) as [e|] eqn:He.
  2:{ (* the save itself fails: nothing changes *)
      unfold s1, api_save_session, bindM, getS, lift, eio_session. rewrite He. reflexivity. }
  destruct (in_dec (list_eq_dec N.eq_dec) e (live s)) as [Hl|Hnl].
  2:{ unfold s1, api_save_session, bindM, getS, lift, eio_session. rewrite He.
      destruct (existsb (str_eqb e) (live s)) eqn:Ex; [|reflexivity]. exfalso. apply Hnl.
      apply existsb_exists in Ex as (x & Hx & Hex). apply str_eqb_eq in Hex. subst. auto. }
  unfold s1. rewrite (api_save_session_run sid v pns s e He Hl). cbn [fst].
  set (n := ns_or_default pns) in *. set (n' := ns_or_default pns') in *.
  destruct (eio_from_sid (mg s) sid' n') as [e'|] eqn:He'.
  2:{ rewrite !api_get_session_dead; auto; cbn [put_sess with_sessions mg]; fold n'; rewrite He'; exact I. }
  destruct (in_dec (list_eq_dec N.eq_dec) e' (live s)) as [Hl'|Hnl'].
  2:{ rewrite !api_get_session_dead; auto; cbn [put_sess with_sessions mg live]; fold n'; rewrite He'; exact Hnl'. }
  rewrite (api_get_session_run sid' pns' s e' He' Hl').
  rewrite (api_get_session_run sid' pns' (put_sess s e n v) e'); [|exact He'|exact Hl']. cbn [snd].
  unfold sess_val. fold n'. rewrite sess_at_put.
  destruct (str_eqb e' e) eqn:E1; [|reflexivity]. destruct (str_eqb n' n) eqn:E2; [|reflexivity].
  apply str_eqb_eq in E1, E2. exfalso. destruct Hd as [Hd|Hd]; [apply Hd; congruence|contradiction].
Qed.
(* ------------------------------------------------------------------------------------ *)
(** * Predicates on the state that only session writes can change *)

Section StableJ.
  Variable c : cfg.
  Variable J : srv -> Prop.
  (* J looks at the session store only *)
  Hypothesis Jext : forall s s', sessions s' = sessions s -> J s -> J s'.
  Hypothesis Jact : forall hid b ns sid a,
      aget N.eqb (behav c) hid = Some b -> In a (h_actions b) -> pres J anyeff (run_action c ns sid a).

  Lemma st_with_mg {A} (f : mgr -> mgr * A) : pres J anyeff (with_mg f).
  Proof. apply pres_with_mg. intros s H. eapply Jext; [|exact H]. reflexivity. Qed.
  Lemma st_set_mg f : pres J anyeff (set_mg f).
  Proof. apply pres_set_mg. intros s H. eapply Jext; [|exact H]. reflexivity. Qed.
  Lemma st_set_binpkt f : pres J anyeff (set_binpkt f).
  Proof. unfold set_binpkt. apply pres_modify. intros s H. eapply Jext; [|exact H]. reflexivity. Qed.

  Lemma st_trigger ev ns args : pres J anyeff (trigger_event c ev ns args).
  Proof. apply (trigger_event_gen c J anyeff (fun _ => True)); [intros; exact I|exact Jact|auto]. Qed.

  Lemma st_handle_event eio pns id data : pres J anyeff (handle_event c eio pns id data).
  Proof.
    unfold handle_event. apply pres_bind; [apply pres_getS|]. intros s0.
    apply pres_bind; [apply pres_lift|]. intros ea. destruct (negb _); [apply pres_ret|].
    destruct (sid_from_eio _ _ _); [|apply pres_ret].
    apply pres_bind; [apply st_trigger|]. intros r.
    destruct r; [|apply pres_ret]. destruct id; [|apply pres_ret]. apply send_packet_any.
  Qed.

  Lemma st_handle_ack eio pns id data : pres J anyeff (handle_ack c eio pns id data).
  Proof.
    unfold handle_ack. apply pres_bind; [apply pres_getS|]. intros s0.
    apply pres_bind; [apply st_with_mg|]. intros t. destruct t; [apply pres_ret|].
    apply pres_bind; [apply pres_lift|]. intros args. apply pres_tell. exact I.
  Qed.

  Lemma st_handle_disconnect eio pns reason : pres J anyeff (handle_disconnect c eio pns reason).
  Proof.
    unfold handle_disconnect. apply pres_bind; [apply pres_getS|]. intros s0.
    destruct (negb _); [apply pres_ret|]. destruct (sid_from_eio _ _ _); [|apply pres_ret].
    apply pres_bind; [apply st_with_mg|]. intros r. apply pres_bind; [apply pres_lift|]. intros u.
    apply pres_finally; [|apply st_set_mg].
    apply pres_bind; [apply st_trigger|]. intros; apply pres_ret.
  Qed.

  Lemma st_handle_connect eio pns data : pres J anyeff (handle_connect c eio pns data).
  Proof.
    unfold handle_connect. apply pres_getS_bind. intros s0 H0.
    refine ((_ : pres J anyeff _) s0 H0).
    apply pres_bind.
    { destruct (served c _); [|apply pres_ret]. apply pres_bind; [|intros; apply st_with_mg].
      apply pres_putS. eapply Jext; [|exact H0]. reflexivity. }
    intros osid. destruct osid as [sid|]; [|apply send_packet_any].
    apply pres_bind. { destruct (always_connect c); [apply send_packet_any|apply pres_ret]. }
    intros _. apply pres_bind. { destruct (aget str_eqb (environ s0) eio); [apply pres_ret|apply pres_raise]. }
    intros env. apply pres_bind.
    { apply pres_catch.
      - apply pres_bind; [|intros; apply pres_ret]. destruct (truthy data); [apply st_trigger|].
        apply pres_catch; [apply st_trigger|]. intros x k Hx. destruct x; try discriminate.
        injection Hx as <-. apply st_trigger.
      - intros x k Hx. destruct x; try discriminate. injection Hx as <-. apply pres_ret. }
    intros [success fail_reason]. destruct (match success with Some v => pv_eqb v (PBool false) | None => false end).
    - apply pres_finally; [|apply st_set_mg]. destruct (always_connect c); [|apply send_packet_any].
      apply pres_bind; [apply st_with_mg|]. intros r. apply pres_bind; [apply pres_lift|]. intros u. apply send_packet_any.
    - destruct (always_connect c); [apply pres_ret|apply send_packet_any].
  Qed.

  Lemma st_handle_eio_message loads eio payload : pres J anyeff (handle_eio_message c loads eio payload).
  Proof.
    unfold handle_eio_message. apply pres_bind; [apply pres_getS|]. intros s0.
    destruct (aget str_eqb (binpkt s0) eio) as [r|].
    - destruct (add_attachment r payload) as [[r' [|]]|x].
      + apply pres_bind; [apply st_set_binpkt|]. intros _.
        destruct (type_is _ _); [apply st_handle_event|apply st_handle_ack].
      + apply st_set_binpkt.
      + apply pres_bind; [|intros; apply pres_raise]. destruct (N.leb _ _); [apply pres_ret|apply st_set_binpkt].
    - apply pres_bind; [apply pres_lift|]. intros r.
      destruct (type_is _ CONNECT); [apply st_handle_connect|].
      destruct (type_is _ DISCONNECT); [apply st_handle_disconnect|].
      destruct (type_is _ EVENT); [apply st_handle_event|].
      destruct (type_is _ ACK); [apply st_handle_ack|].
      destruct (_ || _); [apply st_set_binpkt|apply pres_raise].
  Qed.

  Lemma st_handle_eio_disconnect eio reason : pres J anyeff (handle_eio_disconnect c eio reason).
  Proof.
    unfold handle_eio_disconnect. apply pres_bind; [apply pres_getS|]. intros s0.
    apply pres_bind; [apply pres_forM_keep; intros; apply st_handle_disconnect|]. intros exc.
    apply pres_bind.
    - apply pres_modify. intros s H. eapply Jext; [|exact H]. reflexivity.
    - intros _. destruct exc; [apply pres_raise|apply pres_ret].
  Qed.
End StableJ.
(* ------------------------------------------------------------------------------------ *)
(** * Stability of what is stored for one (transport, namespace) pair *)

Definition no_save_actions (c : cfg) : Prop :=
  forall hid b a, In (hid, b) (behav c) -> In a (h_actions b) -> match a with ASave _ => False | _ => True end.

(* operations that write the session of (e, n) or end transport e *)
Definition touches (s : srv) (o : op) (e n : str) : Prop :=
  match o with
  | EioClose e' _ => e' = e
  | ApiSaveSession sid _ pns | ApiSessionSet sid pns _ _ =>
      eio_from_sid (mg s) sid (ns_or_default pns) = Some e /\ ns_or_default pns = n
  | _ => False
  end.

Section Stable.
  Variable c : cfg.
  Hypothesis Hns : no_save_actions c.
  Variables e n : str.
  Variable P : option pv -> Prop.
  (* the only write besides save_session: get_session stores {} where nothing was stored *)
  Hypothesis Pfill : P None -> P (Some (PDict [])).
  Let J := fun s : srv => P (sess_at s e n).

  Lemma J_ext s s' : sessions s' = sessions s -> J s -> J s'.
  Proof. unfold J, sess_at. intros ->. auto. Qed.

  Lemma get_J sid pns s : J s -> hp s (api_get_session sid pns) (fun _ s' es => J s' /\ Forall anyeff es).
  Proof.
    intros HJ. unfold hp.
    destruct (eio_from_sid (mg s) sid (ns_or_default pns)) as [e0|] eqn:He.
    2:{ rewrite api_get_session_dead by (rewrite He; exact I). split; [auto|constructor]. }
    destruct (in_dec (list_eq_dec N.eq_dec) e0 (live s)) as [Hl|Hnl].
    2:{ rewrite api_get_session_dead by (rewrite He; exact Hnl). split; [auto|constructor]. }
    rewrite (api_get_session_run sid pns s e0 He Hl). split; [|constructor].
    destruct (sess_at s e0 (ns_or_default pns)) eqn:Hat; [auto|].
    unfold J. rewrite sess_at_put.
    destruct (str_eqb e e0) eqn:E1; [|exact HJ]. destruct (str_eqb n (ns_or_default pns)) eqn:E2; [|exact HJ].
    apply str_eqb_eq in E1, E2. subst. cbn [andb]. apply Pfill. unfold J in HJ. rewrite Hat in HJ. exact HJ.
  Qed.

  Lemma save_J sid v pns s :
    ~ (eio_from_sid (mg s) sid (ns_or_default pns) = Some e /\ ns_or_default pns = n) ->
    J s -> hp s (api_save_session sid v pns) (fun _ s' es => J s' /\ Forall anyeff es).
  Proof.
    intros Hnt HJ. unfold hp.
    destruct (eio_from_sid (mg s) sid (ns_or_default pns)) as [e0|] eqn:He.
    2:{ unfold api_save_session, bindM, getS, lift, eio_session. rewrite He. split; [auto|constructor]. }
    destruct (in_dec (list_eq_dec N.eq_dec) e0 (live s)) as [Hl|Hnl].
    2:{ unfold api_save_session, bindM, getS, lift, eio_session. rewrite He.
        destruct (existsb (str_eqb e0) (live s)) eqn:Ex; [|split; [auto|constructor]]. exfalso. apply Hnl.
        apply existsb_exists in Ex as (x & Hx & Hex). apply str_eqb_eq in Hex. subst. auto. }
    rewrite (api_save_session_run sid v pns s e0 He Hl). split; [|constructor].
    unfold J. rewrite sess_at_put.
    destruct (str_eqb e e0) eqn:E1; [|exact HJ]. destruct (str_eqb n (ns_or_default pns)) eqn:E2; [|exact HJ].
    apply str_eqb_eq in E1, E2. subst. exfalso. apply Hnt. auto.
  Qed.

  Lemma action_J hid b ns sid a :
    aget N.eqb (behav c) hid = Some b -> In a (h_actions b) -> pres J anyeff (run_action c ns sid a).
  Proof.
    intros Hb Ha. apply aget_In in Hb as (hid' & Hin & _). specialize (Hns _ _ _ Hin Ha).
    destruct a; cbn [run_action].
    - apply pres_bind; [|intros r; apply pres_lift]. apply pres_with_mg. intros s H. eapply J_ext; [|exact H]. reflexivity.
    - apply pres_set_mg. intros s H. eapply J_ext; [|exact H]. reflexivity.
    - apply mgr_emit_nocb_pres. intros; exact I.
    - apply mgr_emit_nocb_pres. intros; exact I.
    - destruct Hns.
    - apply pres_bind; [intros s H; apply get_J; auto|]. intros v. apply pres_tell. exact I.
  Qed.

  Lemma mgr_emit_J ev data ns room skip cb : pres J anyeff (mgr_emit c ev data ns room skip cb).
  Proof.
    destruct cb as [cbref|]; [|apply mgr_emit_nocb_pres; intros; exact I].
    unfold mgr_emit. apply pres_bind; [apply pres_getS|]. intros s0.
    destruct (ns_rooms (mg s0) ns); [|apply pres_ret].
    apply pres_bind; [apply pres_lift|]. intros parts. apply pres_forM. intros se _.
    destruct (skipped _ _); [apply pres_ret|].
    apply pres_bind; [apply pres_with_mg; intros s H; eapply J_ext; [|exact H]; reflexivity|]. intros rr.
    apply pres_bind; [apply pres_lift|]. intros id. apply send_packet_any.
  Qed.

  Lemma api_disconnect_J sid pns : pres J anyeff (api_disconnect c sid pns).
  Proof.
    unfold api_disconnect. apply pres_bind; [apply pres_getS|]. intros s0.
    destruct (negb _); [apply pres_ret|].
    apply pres_bind; [apply (st_with_mg J J_ext)|]. intros r. apply pres_bind; [apply pres_lift|]. intros eio.
    apply pres_bind; [apply send_packet_any|]. intros _.
    apply pres_finally; [|apply (st_set_mg J J_ext)].
    apply pres_bind; [apply (st_trigger c J action_J)|]. intros; apply pres_ret.
  Qed.

  Lemma api_J (m : SM unit) : pres J anyeff m -> pres J anyeff (api m).
  Proof. intros H. apply pres_api; [intros; exact I|exact H]. Qed.

  Theorem C16_stable_lemma s o :
    ~ touches s o e n -> P (sess_at s e n) -> P (sess_at (fst (step c s o)) e n).
  Proof.
    intros Hnt HJ. change (J (fst (step c s o))).
    apply (hp_step c s o (fun s' _ => J s')).
    assert (Conv : forall m : SM unit, pres J anyeff m -> hp s m (fun _ s' _ => J s')).
    { intros m Hm. eapply hp_conseq; [apply Hm; exact HJ|]. intros ? ? ? [? _]. auto. }
    destruct o as [eio env|eio payload tbl|eio reason|ev data to room skip ns cb|sid room ns|sid room ns|room ns
                   |sid ns|sid ns|sid ns|sid v ns|sid ns k v]; cbn [step_m touches] in *.
    - apply hp_modify. eapply J_ext; [|exact HJ]. reflexivity.
    - apply Conv. apply pres_bind; [apply pres_getS|]. intros s0. destruct (existsb _ _); [|apply pres_ret].
      apply pres_contain. apply (st_handle_eio_message c J J_ext action_J).
    - apply Conv. apply pres_bind; [apply pres_getS|]. intros s0. destruct (existsb _ _); [|apply pres_ret].
      apply pres_bind; [apply pres_contain; apply (st_handle_eio_disconnect c J J_ext action_J)|]. intros _.
      apply pres_modify. intros s1 H1. unfold J, sess_at in *. cbn [sessions].
      rewrite (xaget_adel_neq _ str_eqb_eq); auto.
    - apply Conv. apply api_J. apply mgr_emit_J.
    - apply Conv. apply api_J. apply pres_bind; [apply (st_with_mg J J_ext)|]. intros r. apply pres_lift.
    - apply Conv. apply api_J. apply (st_set_mg J J_ext).
    - apply Conv. apply api_J. apply (st_set_mg J J_ext).
    - apply hp_getS_bind. apply hp_tell. exact HJ.
    - apply Conv. apply api_J. apply api_disconnect_J.
    - apply Conv. apply api_J. apply pres_bind; [intros s0 H0; apply get_J; auto|]. intros v. apply pres_tell. exact I.
    - apply hp_api. eapply hp_conseq; [apply save_J; auto|]. intros [u|x] s' es [H _]; exact H.
    - apply hp_api. apply hp_bind. unfold hp.
      destruct (eio_from_sid (mg s) sid (ns_or_default ns)) as [e0|] eqn:He.
      2:{ rewrite api_get_session_dead by (rewrite He; exact I). exact HJ. }
      destruct (in_dec (list_eq_dec N.eq_dec) e0 (live s)) as [Hl|Hnl].
      2:{ rewrite api_get_session_dead by (rewrite He; exact Hnl). exact HJ. }
      assert (G := get_J sid ns s HJ). unfold hp in G.
      rewrite (api_get_session_run sid ns s e0 He Hl) in *. destruct G as [G _].
      set (s0 := match sess_at s e0 (ns_or_default ns) with Some _ => s | None => put_sess s e0 (ns_or_default ns) (PDict []) end) in *.
      assert (Hmg : mg s0 = mg s) by (unfold s0; destruct (sess_at s e0 (ns_or_default ns)); reflexivity).
      eapply hp_conseq; [apply save_J; [rewrite Hmg, He; intros [[= ->] Hn]; apply Hnt; auto|exact G]|].
      intros [u|x] s' es [H _]; exact H.
  Qed.
End Stable.
(* ---- whole histories ---- *)
Fixpoint untouched (c : cfg) (s : srv) (ops : list op) (e n : str) : Prop :=
  match ops with
  | [] => True
  | o :: r => ~ touches s o e n /\ untouched c (fst (step c s o)) r e n
  end.

Theorem C16_stable_run_lemma c e n (P : option pv -> Prop) :
  no_save_actions c -> (P None -> P (Some (PDict []))) ->
  forall ops s, untouched c s ops e n -> P (sess_at s e n) -> P (sess_at (fst (run c s ops)) e n).
Proof.
  intros Hns Pfill. induction ops as [|o ops IH]; intros s Hu HP; [exact HP|].
  destruct Hu as [Hu1 Hu2]. rewrite run_cons. cbn [fst]. apply IH; [exact Hu2|].
  apply C16_stable_lemma; auto.
Qed.

(* the value saved stays the value read, across any operations that neither save on that
   (transport, namespace) pair nor end the transport *)
Theorem C16_value_persists_lemma c sid v pns s e ops :
  no_save_actions c ->
  eio_from_sid (mg s) sid (ns_or_default pns) = Some e -> In e (live s) ->
  let s1 := fst (fst (api_save_session sid v pns s)) in
  untouched c s1 ops e (ns_or_default pns) ->
  let s2 := fst (run c s1 ops) in
  sess_at s2 e (ns_or_default pns) = Some v /\
  (eio_from_sid (mg s2) sid (ns_or_default pns) = Some e -> In e (live s2) ->
   api_get_session sid pns s2 = (s2, [], Ok v)).
Proof.
  intros Hns He Hl s1 Hu s2.
  destruct (C16_get_after_save_lemma sid v pns s e He Hl) as (Hs & _ & Hat).
  assert (Hs1 : s1 = put_sess s e (ns_or_default pns) v) by (unfold s1; rewrite Hs; reflexivity).
  assert (Hat2 : sess_at s2 e (ns_or_default pns) = Some v).
  { apply (C16_stable_run_lemma c e (ns_or_default pns) (fun x => x = Some v) Hns); [discriminate|exact Hu|].
    rewrite Hs1. exact Hat. }
  split; [exact Hat2|]. intros He2 Hl2. apply (C16_get_reads_store sid pns s2 e v); auto.
Qed.

(* ---- freshness ---- *)
Definition sess_empty (s : srv) (e n : str) : Prop := sess_at s e n = None \/ sess_at s e n = Some (PDict []).

Theorem C16_fresh_except_lemma sid pns s e :
  eio_from_sid (mg s) sid (ns_or_default pns) = Some e -> In e (live s) ->
  sess_empty s e (ns_or_default pns) ->
  snd (api_get_session sid pns s) = Ok (PDict []).
Proof.
  intros He Hl Hem. rewrite (api_get_session_run sid pns s e He Hl). cbn [snd]. unfold sess_val.
  destruct Hem as [-> | ->]; reflexivity.
Qed.

(* a transport that (re)connects starts with no session at all, for every namespace *)
Theorem C16_new_transport_empty_lemma c s e env n :
  Inv s -> ~ In e (live s) -> sess_at (fst (step c s (EioConnect e env))) e n = None.
Proof.
  intros [HM _] Hnl. unfold step. cbn [step_m modify fst]. unfold sess_at. cbn [sessions].
  destruct (aget str_eqb (sessions s) e) as [d|] eqn:Hd; [|reflexivity]. exfalso. apply Hnl.
  apply (proj2 (mid_ses _ HM)). apply (xaget_In _ str_eqb_eq) in Hd. apply in_map_iff. exists (e, d). auto.
Qed.

(* nothing saved for (e, n) since then: every session id issued on (e, n) reads {} *)
Theorem C16_fresh_new_transport_lemma c s e env n ops sid :
  no_save_actions c -> Inv s -> ~ In e (live s) ->
  let s1 := fst (step c s (EioConnect e env)) in
  untouched c s1 ops e n ->
  let s2 := fst (run c s1 ops) in
  eio_from_sid (mg s2) sid n = Some e -> In e (live s2) -> n <> [] ->
  snd (api_get_session sid (Some n) s2) = Ok (PDict []).
Proof.
  intros Hns HI Hnl s1 Hu s2 He Hl Hn.
  assert (Hnd : ns_or_default (Some n) = n) by (destruct n; [contradiction|reflexivity]).
  apply (C16_fresh_except_lemma sid (Some n) s2 e); rewrite ?Hnd; auto.
  apply (C16_stable_run_lemma c e n (fun x => x = None \/ x = Some (PDict [])) Hns); [auto|exact Hu|].
  left. apply C16_new_transport_empty_lemma; auto.
Qed.

(* ---- destroyed on transport end ---- *)
Theorem C16_destroyed_lemma c s e reason :
  cfg_ok c -> Inv s -> In e (live s) ->
  let s' := fst (step c s (EioClose e reason)) in
  ~ In e (map fst (sessions s')) /\ forall n, sess_at s' e n = None.
Proof.
  intros Hc HI Hl s'. destruct (step_close_spec c s e reason Hc HI Hl) as [[HM' _] Hlive _ _ _]. fold s' in HM', Hlive.
  assert (Hno : ~ In e (map fst (sessions s'))).
  { intros Hin. apply (proj2 (mid_ses _ HM')) in Hin. rewrite Hlive in Hin. apply In_drop_live in Hin. tauto. }
  split; [exact Hno|]. intros n. unfold sess_at.
  destruct (aget str_eqb (sessions s') e) as [d|] eqn:Hd; [|reflexivity]. exfalso. apply Hno.
  apply (xaget_In _ str_eqb_eq) in Hd. apply in_map_iff. exists (e, d). auto.
Qed.

(* ---- the open finding: namespace-level reconnect on the same transport ---- *)
Definition y_ns : str := s2l "/".
Definition y_e1 : str := s2l "E1".
Definition y_cfg : cfg :=
  mkCfg [(y_ns, [(s2l "connect", 1)])] [] [(1, mkBehav None [] (Returns PNone))] None false true.
Definition y_secret : pv := PDict [(PStr (s2l "user"), PStr (s2l "alice"))].
Definition y_ops : list op :=
  [EioConnect y_e1 PNone;
   EioMessage y_e1 (PStr (s2l "0")) [];             (* CONNECT /      -> S0 *)
   ApiSaveSession (sid_name 0) y_secret None;
   EioMessage y_e1 (PStr (s2l "1")) [];             (* DISCONNECT /   *)
   EioMessage y_e1 (PStr (s2l "0")) [];             (* CONNECT / again -> S1 *)
   ApiGetSession (sid_name 1) None].

Theorem C16_fresh_refuted_lemma :
  exists c ops newsid v,
    no_save_actions c /\ Forall op_ok ops /\
    (* the old sid is gone, the new one is a different session id on the same transport *)
    sids_of_eio (mg (fst (run c srv_init ops))) y_e1 = [newsid] /\ newsid <> sid_name 0 /\
    last (snd (run c srv_init ops)) [] = [Ret v] /\ v <> PDict [].
Proof.
  exists y_cfg, y_ops, (sid_name 1), y_secret.
  split; [|split; [repeat constructor|]].
  - intros hid b a Hin Ha. cbn in Hin. destruct Hin as [[= <- <-]|[]]. destruct Ha.
  - split; [vm_compute; reflexivity|]. split; [discriminate|]. split; [vm_compute; reflexivity|discriminate].
Qed.

(* ---- non-vacuity: two transports, two namespaces on the first ---- *)
Definition y_nsa : str := s2l "/a".
Definition y_e2 : str := s2l "E2".
Definition y_cfg2 : cfg :=
  mkCfg [(y_ns, [(s2l "connect", 1); (s2l "disconnect", 2)]); (y_nsa, [(s2l "connect", 1)])] []
        [(1, mkBehav None [AGet] (Returns PNone)); (2, mkBehav None [] (Raises RuntimeError))] None false true.
Definition y_ops2 : list op :=
  [EioConnect y_e1 PNone; EioConnect y_e2 PNone;
   EioMessage y_e1 (PStr (s2l "0")) []; EioMessage y_e1 (PStr (s2l "0/a,")) []; EioMessage y_e2 (PStr (s2l "0")) []].
Definition y_state : srv := fst (run y_cfg2 srv_init y_ops2).   (* S0 = (E1,/)  S1 = (E1,/a)  S2 = (E2,/) *)

Example y_get_after_save :
  let s1 := fst (fst (api_save_session (sid_name 0) y_secret None y_state)) in
  api_get_session (sid_name 0) None s1 = (s1, [], Ok y_secret) /\
  snd (api_get_session (sid_name 1) (Some y_nsa) s1) = Ok (PDict []) /\
  snd (api_get_session (sid_name 2) None s1) = Ok (PDict []).
Proof. vm_compute. repeat split. Qed.

Example y_context_manager :
  let o := ApiSessionSet (sid_name 1) (Some y_nsa) (s2l "k") (PInt 3) in
  snd (api_get_session (sid_name 1) (Some y_nsa) (fst (step y_cfg2 y_state o))) =
  Ok (PDict [(PStr (s2l "k"), PInt 3)]).
Proof. vm_compute. reflexivity. Qed.

Example y_destroyed :
  let s1 := fst (fst (api_save_session (sid_name 0) y_secret None y_state)) in
  let s2 := fst (step y_cfg2 s1 (EioClose y_e1 (PStr (s2l "transport close")))) in
  map fst (sessions s1) = [y_e1; y_e2] /\ map fst (sessions s2) = [y_e2] /\
  calls_of (snd (step y_cfg2 s1 (EioClose y_e1 (PStr (s2l "transport close"))))) =
    [(2, [PStr (sid_name 0); PStr (s2l "transport close")])].
Proof. vm_compute. repeat split. Qed.
(* ==================================================================================== *)
(** * C12 with scripted actions: what a handler invoked for a client of transport e can do *)

Lemma hp_and {A} s (m : SM A) (Q1 Q2 : Post A) :
  hp s m Q1 -> hp s m Q2 -> hp s m (fun r s' es => Q1 r s' es /\ Q2 r s' es).
Proof. unfold hp. destruct (m s) as [[s' es] r]. auto. Qed.

(* effects: as Eok, but a scripted emit may address anybody *)
Definition Eok' (s : srv) (e : str) (x : eff) : Prop :=
  match x with Out _ _ => True | y => Eok s e y end.
Definition quiet_eff (x : eff) : Prop := match x with Call _ _ | CbCall _ _ => False | _ => True end.
Lemma quiet_Eok' s e x : quiet_eff x -> Eok' s e x.
Proof. destruct x; cbn; auto; contradiction. Qed.

(* ---- manager level ---- *)
Lemma v_cbs_nroom lv fr m m' e :
  MInv lv fr m -> MInv lv fr m' -> callbacks m' = callbacks m -> (forall n, nroom m' n = nroom m n) ->
  v_cbs e m' = v_cbs e m.
Proof.
  intros H H' Hc Hn. apply v_cbs_ext; [exact Hc|]. intros k _.
  rewrite (sids_of_eio_iff _ _ _ _ _ H'), (sids_of_eio_iff _ _ _ _ _ H).
  split; intros (n & Hk); exists n; rewrite <- Hk; [symmetry|]; apply sid_from_eio_nroom; auto.
Qed.

Lemma eio_from_sid_rmem lv fr m sid ns e :
  MInv lv fr m -> eio_from_sid m sid ns = Some e ->
  exists rm, ns_rooms m ns = Some rm /\ rmem rm PNone sid e /\ sid_on e sid rm.
Proof.
  intros H He. unfold eio_from_sid, room_of in He. destruct (ns_rooms m ns) as [rm|] eqn:Hr; [|discriminate].
  destruct (mi_ns _ _ _ H _ _ Hr) as [_ Hi]. exists rm. split; [reflexivity|].
  assert (Hm : rmem rm PNone sid e).
  { apply (rmem_none_iff _ _ _ (ri_wf _ _ _ Hi)). destruct (aget room_eqb rm PNone) as [b|]; [|discriminate]. eauto. }
  split; [exact Hm|]. intros r x Hmx. apply (ri_sub _ _ _ Hi) in Hmx.
  apply (rmem_none_iff _ _ _ (ri_wf _ _ _ Hi)) in Hmx as (b1 & Hb1 & Hx).
  apply (rmem_none_iff _ _ _ (ri_wf _ _ _ Hi)) in Hm as (b2 & Hb2 & He2). congruence.
Qed.

Lemma leave_room_views lv fr m sid ns room e :
  MInv lv fr m -> room <> PNone -> eio_from_sid m sid ns = Some e ->
  let m' := leave_room m sid ns room in
  v_rooms e m' = v_rooms e m /\ v_sids e m' = v_sids e m /\ v_cbs e m' = v_cbs e m.
Proof.
  intros H Hne He m'.
  assert (Hcbs : v_cbs e m' = v_cbs e m).
  { apply (v_cbs_nroom lv fr); auto.
    - apply MInv_leave_room; auto.
    - apply leave_room_callbacks.
    - intros n. apply leave_room_nroom; auto. apply (mi_keys _ _ _ H). }
  split; [|split; [|exact Hcbs]]; unfold m'; rewrite leave_room_eq.
  all: destruct (eio_from_sid_rmem _ _ _ _ _ _ H He) as (rm & Hr & Hm & Hon); rewrite Hr.
  all: destruct (mi_ns _ _ _ H _ _ Hr) as [_ Hi].
  all: destruct (rm_leave rm sid room) as [rm'|] eqn:Hl; [|reflexivity].
  all: assert (V := views_ns_put e m ns rm'); rewrite Hr in V.
  all: assert (V1 : g_rooms e (ns, rm') = g_rooms e (ns, rm))
         by (eapply g_rooms_leave; eauto; apply sid_on_premise; auto; apply (ri_wf _ _ _ Hi)).
  all: assert (V2 : none_view e rm' = none_view e rm)
         by (eapply none_view_leave; eauto; [apply (ri_wf _ _ _ Hi)|apply sid_on_premise; auto; apply (ri_wf _ _ _ Hi)]).
  all: destruct (V (conj V1 V2)); auto.
Qed.

Lemma enter_room_views lv fr m sid ns room e :
  MInv lv fr m -> room_ok room -> eio_from_sid m sid ns = Some e ->
  let m' := fst (enter_room m sid ns room) in
  v_rooms e m' = v_rooms e m /\ v_sids e m' = v_sids e m /\ v_cbs e m' = v_cbs e m.
Proof.
  intros H Hok He m'.
  destruct (enter_room_spec _ _ _ sid ns room H Hok) as (A & B & C & D). fold m' in A, B, C, D.
  assert (Hcbs : v_cbs e m' = v_cbs e m) by (apply (v_cbs_nroom lv fr); auto).
  split; [|split; [|exact Hcbs]]; unfold m', enter_room.
  all: destruct (eio_from_sid_rmem _ _ _ _ _ _ H He) as (rm & Hr & Hm & Hon); rewrite Hr.
  all: destruct (mi_ns _ _ _ H _ _ Hr) as [_ Hi].
  all: assert (Hlook : match aget room_eqb rm PNone with Some b0 => bd_get b0 sid | None => None end = Some e)
         by (apply (rmem_none_iff _ _ _ (ri_wf _ _ _ Hi)) in Hm as (b0 & -> & Hb0); exact Hb0).
  all: rewrite Hlook.
  all: set (b := match aget room_eqb rm room with Some b => b | None => [] end).
  all: assert (Hb : aget room_eqb rm room = Some b \/ (aget room_eqb rm room = None /\ b = []))
         by (unfold b; destruct (aget room_eqb rm room); auto).
  all: unfold bd_put; destruct (bd_inv b e) as [s'|] eqn:Hinv.
  all: try (assert (Hb' : aget room_eqb rm room = Some b)
              by (destruct Hb as [Hb|[_ Hb]]; [auto|rewrite Hb in Hinv; discriminate]);
            assert (s' = sid)
              by (apply bd_inv_In in Hinv; apply aget_In in Hb' as (k' & Hin & _);
                  assert (Hm' : rmem rm k' s' e) by (exists b; auto);
                  apply (ri_sub _ _ _ Hi) in Hm'; eapply ri_inj; eauto);
            subst s'; rewrite str_eqb_refl; cbn [fst];
            rewrite (aset_same _ _ _ _ Hb'); unfold ns_rooms in Hr; rewrite (aset_same _ _ _ _ Hr), set_rooms_same;
            reflexivity).
  all: cbn [fst]; rewrite ns_put_as_set by apply aset_nonnil.
  all: assert (Hs : bd_get b sid = None)
         by (destruct (bd_get b sid) as [x|] eqn:Hx; [|reflexivity]; exfalso;
             destruct Hb as [Hb|[_ Hb]]; [|rewrite Hb in Hx; discriminate];
             apply aget_In in Hb as (k' & Hin & _); apply (xaget_In _ str_eqb_eq) in Hx;
             assert (x = e) by (apply (Hon k'); exists b; auto); subst x;
             eapply bd_inv_None; eauto).
  all: destruct (views_put e ns rm room b sid Hb Hs) as [V1 V2].
  all: assert (V := views_ns_put e m ns (aset room_eqb rm room (aset str_eqb b sid e))); rewrite Hr in V.
  all: destruct (V (conj V1 V2)); auto.
Qed.
(* ---- server level: one scripted action of a handler running for (ns, sid) on transport e ---- *)
Lemma osame_put_sess e s n v : osame e s (put_sess s e n v).
Proof.
  split; try reflexivity. unfold put_sess, with_sessions. cbn [sessions].
  destruct (aget str_eqb (sessions s) e) as [d|] eqn:Hd.
  - apply (filter_aset str_eqb _ _ _ _ d Hd). intros k' Hk. apply str_eqb_eq in Hk. subst. cbn [fst]. rewrite other_self. auto.
  - apply filter_aset_new; [exact Hd|]. cbn [fst]. apply other_self.
Qed.

Lemma forall_quiet_nil : Forall quiet_eff [].
Proof. constructor. Qed.

Lemma run_action_osame c (ns sid : str) a e s :
  action_ok a -> ns <> [] -> Mid s -> eio_from_sid (mg s) sid ns = Some e ->
  hp s (run_action c ns sid a) (fun _ s' es => osame e s s' /\ Forall quiet_eff es).
Proof.
  intros Hok Hns HM He. assert (Hnd : ns_or_default (Some ns) = ns) by (destruct ns; [contradiction|reflexivity]).
  destruct a as [room|room|ev data|ev data room sk|v|]; cbn [run_action action_ok] in *.
  - apply hp_bind. apply hp_with_mg.
    destruct (enter_room_views _ _ _ sid ns room e (mid_mg _ HM) Hok He) as (A & B & C).
    assert (G : osame e s (upd_mg s (fst (enter_room (mg s) sid ns room))) /\ Forall quiet_eff []).
    { split; [apply osame_mg; auto|constructor]. }
    destruct (snd (enter_room (mg s) sid ns room)); apply hp_lift; exact G.
  - apply hp_set_mg. destruct (leave_room_views _ _ _ sid ns room e (mid_mg _ HM) Hok He) as (A & B & C).
    split; [apply osame_mg; auto|constructor].
  - unfold api_emit. eapply hp_conseq.
    + apply (mgr_emit_nocb_pres (fun s' => s' = s) quiet_eff); [intros; exact I|reflexivity].
    + intros r s' es [-> F]. split; [apply osame_refl|auto].
  - unfold api_emit. eapply hp_conseq.
    + apply (mgr_emit_nocb_pres (fun s' => s' = s) quiet_eff); [intros; exact I|reflexivity].
    + intros r s' es [-> F]. split; [apply osame_refl|auto].
  - unfold hp. destruct (in_dec (list_eq_dec N.eq_dec) e (live s)) as [Hl|Hnl].
    + pose proof (api_save_session_run sid v (Some ns) s e) as R. rewrite Hnd in R. rewrite (R He Hl).
      split; [apply osame_put_sess|constructor].
    + unfold api_save_session, bindM, getS, lift, eio_session. rewrite Hnd, He.
      destruct (existsb (str_eqb e) (live s)) eqn:Ex; [|split; [apply osame_refl|constructor]]. exfalso. apply Hnl.
      apply existsb_exists in Ex as (x & Hx & Hex). apply str_eqb_eq in Hex. subst. auto.
  - apply hp_bind. unfold hp. destruct (in_dec (list_eq_dec N.eq_dec) e (live s)) as [Hl|Hnl].
    + pose proof (api_get_session_run sid (Some ns) s e) as R. rewrite Hnd in R. rewrite (R He Hl).
      unfold tell. split; [|repeat constructor].
      destruct (sess_at s e ns); [apply osame_refl|apply osame_put_sess].
    + rewrite api_get_session_dead by (rewrite Hnd, He; exact Hnl). split; [apply osame_refl|constructor].
Qed.

(* the handler machinery for a fixed (ns, sid) *)
Section HandlersAt.
  Variable c : cfg.
  Variable J : srv -> Prop.
  Variable E : eff -> Prop.
  Variable CallOk : list pv -> Prop.
  Variables (ns sid : str).
  Hypothesis Hcall : forall h a, CallOk a -> E (Call h a).
  Hypothesis Hact : forall hid b a,
      aget N.eqb (behav c) hid = Some b -> In a (h_actions b) -> pres J E (run_action c ns sid a).

  Lemma call_handler_at hid args : CallOk args -> pres J E (call_handler c hid ns sid args).
  Proof.
    intros Hok. unfold call_handler. destruct (aget N.eqb (behav c) hid) as [b|] eqn:Hb; [|apply pres_raise].
    destruct (match h_arity b with Some n => negb (Nat.eqb n (List.length args)) | None => false end);
      [apply pres_raise|].
    apply pres_bind; [apply pres_tell; auto|]. intros _.
    apply pres_bind.
    - apply pres_forM. intros a Ha. eapply Hact; eauto.
    - intros _. destruct (h_outcome b); [apply pres_ret|apply pres_raise|apply pres_raise].
  Qed.

  Lemma call_with_retry_at ev hid args :
    CallOk args -> (is_disconnect ev = true -> CallOk (removelast args)) ->
    pres J E (call_with_retry c ev hid ns sid args).
  Proof.
    intros H1 H2. unfold call_with_retry. apply pres_catch; [apply call_handler_at; auto|].
    intros x k Hx. destruct x; try discriminate. destruct (is_disconnect ev); [|discriminate].
    injection Hx as <-. apply call_handler_at; auto.
  Qed.

  Lemma trigger_event_at ev args :
    arg_sid args = sid ->
    (forall a, derived ev ns args a -> CallOk a /\ (is_disconnect ev = true -> CallOk (removelast a))) ->
    pres J E (trigger_event c ev ns args).
  Proof.
    intros Hsid Hd. unfold trigger_event. rewrite Hsid. destruct (is_unhashable ev && _); [apply pres_raise|].
    destruct (get_event_handler c ev ns args) as [[h args']|] eqn:Hg.
    - apply get_event_handler_derived in Hg. destruct (Hd _ Hg).
      apply pres_bind; [apply call_with_retry_at; auto|]. intros v. apply pres_ret.
    - destruct (get_namespace_handler c ns args) as [[methods args']|] eqn:Hn; [|apply pres_ret].
      apply (get_namespace_handler_derived c ev) in Hn. destruct (Hd _ Hn).
      destruct ev; try (destruct (truthy _); [apply pres_raise|apply pres_ret]).
      destruct (aget str_eqb methods s) as [h|]; [|apply pres_ret].
      apply pres_bind; [apply call_with_retry_at; auto|]. intros v. apply pres_ret.
  Qed.
End HandlersAt.

(* a handler invoked for sid (living on e in ns): invariant, frame, and the others' view *)
Definition JA (e : str) (s1 s' : srv) : Prop := Mid s' /\ hframe s1 s' /\ osame e s1 s'.

Lemma JA_refl e s1 : Mid s1 -> JA e s1 s1.
Proof. intros H. split; [auto|split; [apply hframe_refl|apply osame_refl]]. Qed.

Lemma eio_from_sid_nroom m m' sid ns : nroom m' ns = nroom m ns -> eio_from_sid m' sid ns = eio_from_sid m sid ns.
Proof. unfold eio_from_sid, nroom. intros ->. reflexivity. Qed.

Lemma trigger_event_act c s e ev (ns : str) args (sid : str) s1 :
  cfg_ok c -> ns <> [] -> Mid s1 -> eio_from_sid (mg s1) sid ns = Some e -> In sid (mine0 s e) ->
  arg_sid args = sid ->
  (forall a, derived ev ns args a -> In (PStr sid) a /\ (is_disconnect ev = true -> In (PStr sid) (removelast a))) ->
  hp s1 (trigger_event c ev ns args) (fun _ s' es => JA e s1 s' /\ Forall (Eok' s e) es).
Proof.
  intros Hc Hns HM He Hmine Hsid Hd.
  refine (trigger_event_at c (JA e s1) (Eok' s e) (fun a => In (PStr sid) a) ns sid _ _ ev args Hsid Hd s1 (JA_refl e s1 HM)).
  - intros h a Ha. exists sid. auto.
  - intros hid b a Hb Ha s' (M' & F' & O').
    assert (Hok : action_ok a).
    { apply aget_In in Hb as (hid' & Hin & Heq). apply N.eqb_eq in Heq. subst. eapply Hc; eauto. }
    assert (He' : eio_from_sid (mg s') sid ns = Some e).
    { rewrite <- He. apply eio_from_sid_nroom. apply (hf_nroom _ _ F'). }
    eapply hp_conseq; [apply hp_and; [apply (run_action_frame c ns sid a s' Hok M')|apply (run_action_osame c ns sid a e s' Hok Hns M' He')]|].
    intros r s'' es [[M'' F''] [O'' Q]]. split.
    + split; [auto|split; [eapply hframe_trans; eauto|eapply osame_trans; eauto]].
    + eapply Forall_impl; [|exact Q]. intros x. apply quiet_Eok'.
Qed.
Lemma Eok_Eok' s e x : Eok s e x -> Eok' s e x.
Proof. destruct x; cbn; auto. Qed.
Lemma ns_or_default_nonnil pns : ns_or_default pns <> [].
Proof. unfold ns_or_default. destruct pns as [[|ch r]|]; discriminate. Qed.

Section Act.
  Variable c : cfg.
  Hypothesis Hc : cfg_ok c.
  Variable s : srv.
  Variable e : str.
  Let E := Eok' s e.

  Lemma send_act (J : srv -> Prop) eio t data ns id : pres J E (send_packet c eio t data ns id).
  Proof. apply send_packet_pres. intros; exact I. Qed.

  Lemma send_act_quiet s1 eio t data ns id :
    hp s1 (send_packet c eio t data ns id) (fun _ s' es => s' = s1 /\ Forall E es).
  Proof. apply (send_act (fun s' => s' = s1)). reflexivity. Qed.

  Lemma sid_on_e s1 ns sid :
    Mid s1 -> sid_from_eio (mg s1) e ns = Some sid -> eio_from_sid (mg s1) sid ns = Some e.
  Proof.
    intros HM Hs. destruct (sid_from_eio_some _ _ _ _ _ _ (mid_mg _ HM) Hs) as (b & rm & Hn & _ & Hg & _).
    unfold eio_from_sid. fold (nroom (mg s1) ns). rewrite Hn. exact Hg.
  Qed.

  Lemma handle_event_act pns id data s1 :
    Mid s1 -> mg s1 = mg s -> ev_not_disconnect data ->
    hp s1 (handle_event c e pns id data) (fun _ s' es => osame e s1 s' /\ Forall E es).
  Proof.
    intros HM Hmg Hev. unfold handle_event. set (ns := ns_or_default pns). apply hp_getS_bind.
    apply (hp_bind_E _ _ _ E (fun r s' => s' = s1 /\ r = split_event data) (fun s' => osame e s1 s'));
      [apply hp_lift; auto| |intros x s' [-> _]; apply osame_refl].
    intros [ev rest] s1' [-> Hsp]. cbn [fst snd].
    assert (Hevd : is_disconnect ev = false) by (eapply Hev; eauto).
    destruct (negb _); [apply hp_ret; split; [apply osame_refl|constructor]|].
    destruct (sid_from_eio (mg s1) e ns) as [sid|] eqn:Hsid; [|apply hp_ret; split; [apply osame_refl|constructor]].
    assert (Hmine : In sid (mine0 s e)).
    { right. rewrite <- Hmg. eapply sid_from_eio_In; eauto. }
    apply (hp_bind_E _ _ _ E (fun _ s' => JA e s1 s') (fun s' => osame e s1 s')).
    - apply (trigger_event_act c s e ev ns _ sid s1); auto.
      + apply ns_or_default_nonnil.
      + apply sid_on_e; auto.
      + intros a Hd. split; [|congruence].
        destruct Hd as [-> |[-> |[-> | ->]]]; cbn [In]; auto.
    - intros r s2 (M2 & F2 & O2). destruct r as [v|]; [|apply hp_ret; split; [auto|constructor]].
      destruct id as [i|]; [|apply hp_ret; split; [auto|constructor]].
      eapply hp_conseq; [apply send_act_quiet|]. intros ? s' es [-> F]. auto.
    - intros x s2 (M2 & F2 & O2). exact O2.
  Qed.

  Lemma handle_ack_act pns id data s1 :
    mg s1 = mg s -> hp s1 (handle_ack c e pns id data) (fun _ s' es => osame e s1 s' /\ Forall E es).
  Proof.
    intros Hmg. eapply hp_conseq; [apply (handle_ack_local c s e pns id data s1 Hmg)|].
    intros r s' es [O F]. split; [auto|]. eapply Forall_impl; [|exact F]. intros x. apply Eok_Eok'.
  Qed.

  Lemma disconnect_tail_act ns sid args s1 b :
    ns <> [] -> arg_sid args = sid ->
    Mid s1 -> pending (mg s1) = [(ns, [sid])] -> nroom (mg s1) ns = Some b -> In (sid, e) b ->
    In sid (mine0 s e) ->
    (forall a, derived (PStr (s2l "disconnect")) ns args a -> In (PStr sid) a /\ In (PStr sid) (removelast a)) ->
    hp s1 (finallyM (_ <~ trigger_event c (PStr (s2l "disconnect")) ns args ;; ret tt)
                    (set_mg (fun m => mgr_disconnect m sid ns)))
       (fun _ s' es => osame e s1 s' /\ Forall E es).
  Proof.
    intros Hns Hsid HM Hp Hn Hin Hmine Hargs. apply hp_finally. apply hp_bind.
    destruct (nroom_rmem _ _ _ _ _ _ _ (mid_mg _ HM) Hn Hin) as (rm & Hr & Hm).
    assert (Hs1 : sid_from_eio (mg s1) e ns = Some sid) by (eapply rmem_sid_from_eio; eauto; apply (mid_mg _ HM)).
    eapply hp_conseq.
    { apply (trigger_event_act c s e _ ns args sid s1); auto.
      - apply sid_on_e; auto.
      - intros a Hd. destruct (Hargs a Hd). auto. }
    intros r s2 e1 [(M2 & F2 & O2) F1].
    assert (G : hp s2 (set_mg (fun m => mgr_disconnect m sid ns))
                  (fun _ s3 e2 => osame e s1 s3 /\ Forall E (e1 ++ e2))).
    { apply hp_set_mg. rewrite app_nil_r. split; [|auto].
      assert (Hs2 : sid_from_eio (mg s2) e ns = Some sid).
      { rewrite <- Hs1. apply sid_from_eio_nroom. apply (hf_nroom _ _ F2). }
      destruct (mgr_disconnect_views _ _ _ _ _ _ (mid_mg _ M2) Hs2) as (A & B & C).
      eapply osame_trans; [exact O2|]. apply osame_mg; auto. }
    destruct r as [v|x]; [apply hp_ret|]; (eapply hp_conseq; [exact G|]); intros rf s3 e2 HH; rewrite ?app_nil_r; exact HH.
  Qed.

  Lemma handle_disconnect_act pns reason :
    Inv s -> hp s (handle_disconnect c e pns reason) (fun _ s' es => osame e s s' /\ Forall E es).
  Proof.
    intros [HM Hp]. unfold handle_disconnect. set (ns := ns_or_default pns). apply hp_getS_bind.
    destruct (sid_from_eio (mg s) e ns) as [sid|] eqn:Hsid.
    2:{ cbn [is_connected negb]. apply hp_ret. split; [apply osame_refl|constructor]. }
    destruct (sid_from_eio_some _ _ _ _ _ _ (mid_mg _ HM) Hsid) as (b & rm & Hn & Hin & Hg & Hr & Hm).
    rewrite (is_connected_nopending _ _ _ _ _ Hp Hn Hg). cbn [negb].
    apply hp_bind. apply hp_with_mg. rewrite (pre_disconnect_run _ _ _ _ Hp Hn). cbn [fst snd].
    apply hp_bind. apply hp_lift. cbn beta iota.
    set (s1 := upd_mg s (mkMgr (rooms (mg s)) [(ns, [sid])] (callbacks (mg s)))).
    assert (HM1 : Mid s1).
    { apply Mid_upd_mg; auto. apply (MInv_ext _ _ (mg s)); auto. apply (mid_mg _ HM). }
    assert (Hos1 : osame e s s1) by (split; reflexivity).
    eapply hp_conseq.
    - apply (disconnect_tail_act ns sid _ s1 b); auto.
      + apply ns_or_default_nonnil.
      + right. eapply sid_from_eio_In; eauto.
      + intros a Hd. destruct Hd as [-> |[-> |[-> | ->]]]; cbn [In removelast]; auto 6.
    - intros r s' es [Hos F]. split; [eapply osame_trans; eauto|auto].
  Qed.

  Lemma handle_connect_act pns data :
    Inv s -> In e (live s) ->
    hp s (handle_connect c e pns data) (fun _ s' es => osame e s s' /\ Forall E es).
  Proof.
    intros HI Hlive. unfold handle_connect. set (ns := ns_or_default pns).
    assert (Hns : ns <> []) by apply ns_or_default_nonnil.
    apply hp_getS_bind. set (sid := sid_name (fresh s)).
    assert (Hmine : In sid (mine0 s e)) by (left; reflexivity).
    apply (hp_bind_E _ _ _ E
             (fun r s1 => osame e s s1 /\ Inv s1 /\
                (r = Ok None \/ (r = Ok (Some sid) /\ exists b, nroom (mg s1) ns = Some b /\ In (sid, e) b)))
             (fun s' => osame e s s')).
    { destruct (served c ns).
      - apply hp_bind. apply hp_putS. apply hp_with_mg. cbn [mg environ binpkt sessions live fresh upd_mg].
        destruct HI as [HM Hp].
        destruct (mgr_connect_spec _ _ _ e ns (mid_mg _ HM) Hlive Hns) as (A & B & C & D & F & G & K).
        destruct (mgr_connect_views _ _ _ e ns (mid_mg _ HM) Hlive Hns) as (V1 & V2 & V3).
        fold sid in A, B, C, D, F, G, K, V1, V2, V3.
        split; [|constructor]. split; [split; auto|]. split.
        + split; [|cbn [mg upd_mg]; congruence]. destruct HM as [H1 H2 H3 H4]. split; auto.
        + destruct G as [G|G]; rewrite G; [left; reflexivity|right]. split; [reflexivity|].
          destruct (K G) as (rm' & Hr' & Hm' & _).
          destruct (rmem_nroom _ _ _ _ _ _ _ A Hr' Hm') as (b & Hn & _ & Hin). exists b. auto.
      - apply hp_ret. split; [|constructor]. split; [apply osame_refl|]. split; auto. }
    2:{ intros x s1 (Hos & _). exact Hos. }
    intros osid s1 (Hos1 & HI1 & Hcase).
    destruct Hcase as [[= ->]|([= ->] & b & Hn1 & Hin1)].
    { eapply hp_conseq; [apply send_act_quiet|]. intros r s' es [-> F]. auto. }
    destruct HI1 as [M1 Hp1].
    destruct (nroom_rmem _ _ _ _ _ _ _ (mid_mg _ M1) Hn1 Hin1) as (rm1 & Hr1 & Hm1).
    assert (Hs1 : sid_from_eio (mg s1) e ns = Some sid) by (eapply rmem_sid_from_eio; eauto; apply (mid_mg _ M1)).
    assert (He1 : eio_from_sid (mg s1) sid ns = Some e) by (apply sid_on_e; auto).
    set (J := JA e s1).
    assert (J1 : J s1) by (apply JA_refl; auto).
    assert (Htrig : forall args, (exists rest, args = PStr sid :: rest) ->
               pres J E (trigger_event c (PStr (s2l "connect")) ns args)).
    { intros args [rest ->].
      apply (trigger_event_at c J E (fun a => In (PStr sid) a) ns sid).
      - intros h a Ha. exists sid. auto.
      - intros hid b0 a Hb Ha s' (M' & F' & O').
        assert (Hok : action_ok a).
        { apply aget_In in Hb as (hid' & Hin & Heq). apply N.eqb_eq in Heq. subst. eapply Hc; eauto. }
        assert (He' : eio_from_sid (mg s') sid ns = Some e).
        { rewrite <- He1. apply eio_from_sid_nroom. apply (hf_nroom _ _ F'). }
        eapply hp_conseq; [apply hp_and; [apply (run_action_frame c ns sid a s' Hok M')|apply (run_action_osame c ns sid a e s' Hok Hns M' He')]|].
        intros r s'' es [[M'' F''] [O'' Q]]. split.
        + split; [auto|split; [eapply hframe_trans; eauto|eapply osame_trans; eauto]].
        + eapply Forall_impl; [|exact Q]. intros x. apply quiet_Eok'.
      - reflexivity.
      - intros a Hd. split; [|discriminate]. destruct Hd as [-> |[-> |[-> | ->]]]; cbn [In]; auto. }
    assert (Jos : forall s', J s' -> osame e s s').
    { intros s' (_ & _ & O'). eapply osame_trans; eauto. }
    apply (hp_bind_E _ _ _ E (fun _ s' => J s') (fun s' => osame e s s')); [| |intros x s' HJ; auto].
    { refine ((_ : pres J E _) s1 J1). destruct (always_connect c); [apply send_act|apply pres_ret]. }
    intros _ s2 J2.
    apply (hp_bind_E _ _ _ E (fun _ s' => J s') (fun s' => osame e s s')); [| |intros x s' HJ; auto].
    { refine ((_ : pres J E _) s2 J2). destruct (aget str_eqb (environ s) e); [apply pres_ret|apply pres_raise]. }
    intros env s3 J3.
    apply (hp_bind_E _ _ _ E (fun _ s' => J s') (fun s' => osame e s s')); [| |intros x s' HJ; auto].
    { refine ((_ : pres J E _) s3 J3).
      apply pres_catch.
      - apply pres_bind; [|intros r; apply pres_ret].
        destruct (truthy data); [apply Htrig; eauto|].
        apply pres_catch; [apply Htrig; eauto|].
        intros x k Hx. destruct x; try discriminate. injection Hx as <-. apply Htrig. eauto.
      - intros x k Hx. destruct x; try discriminate. injection Hx as <-. apply pres_ret. }
    intros [success fail_reason] s4 J4.
    destruct (match success with Some v => pv_eqb v (PBool false) | None => false end).
    2:{ destruct (always_connect c); [apply hp_ret; split; [auto|constructor]|].
        eapply hp_conseq; [apply send_act_quiet|]. intros r s' es [-> F]. auto. }
    (* refusal *)
    destruct J4 as (M4 & F4 & O4).
    assert (Hn4 : nroom (mg s4) ns = Some b) by (rewrite (hf_nroom _ _ F4); auto).
    assert (Hp4 : pending (mg s4) = []) by (rewrite (hf_pending _ _ F4); auto).
    assert (Hs4 : sid_from_eio (mg s4) e ns = Some sid).
    { rewrite <- Hs1. apply sid_from_eio_nroom. apply (hf_nroom _ _ F4). }
    assert (Hos4 : osame e s s4) by (eapply osame_trans; eauto).
    apply hp_finally. destruct (always_connect c).
    - apply hp_bind. apply hp_with_mg. rewrite (pre_disconnect_run _ _ _ _ Hp4 Hn4). cbn [fst snd].
      set (s5 := upd_mg s4 (mkMgr (rooms (mg s4)) [(ns, [sid])] (callbacks (mg s4)))).
      assert (M5 : MInv (live s5) (fresh s5) (mg s5)).
      { apply (MInv_ext _ _ (mg s4)); auto. apply (mid_mg _ M4). }
      apply hp_bind. apply hp_lift. cbn beta iota.
      eapply hp_conseq; [apply send_act_quiet|]. intros r5 s5' e5 [-> F5]. apply hp_set_mg.
      rewrite app_nil_r. split; [|auto].
      assert (Hs5 : sid_from_eio (mg s5) e ns = Some sid) by exact Hs4.
      destruct (mgr_disconnect_views _ _ _ _ _ _ M5 Hs5) as (A & B & C).
      eapply osame_trans; [exact Hos4|]. split; auto.
    - eapply hp_conseq; [apply send_act_quiet|]. intros r5 s5' e5 [-> F5]. apply hp_set_mg.
      rewrite app_nil_r. split; [|auto].
      destruct (mgr_disconnect_views _ _ _ _ _ _ (mid_mg _ M4) Hs4) as (A & B & C).
      eapply osame_trans; [exact Hos4|]. apply osame_mg; auto.
  Qed.
End Act.
Lemma handle_eio_message_act c s e loads payload :
  cfg_ok c -> Inv s -> In e (live s) -> benign_event_name c s e payload loads ->
  hp s (handle_eio_message c loads e payload) (fun _ s' es => osame e s s' /\ Forall (Eok' s e) es).
Proof.
  intros Hc HI Hlive Hben. unfold handle_eio_message. apply hp_getS_bind. unfold benign_event_name in Hben.
  assert (HM := proj1 HI).
  destruct (aget str_eqb (binpkt s) e) as [r|] eqn:Hbp.
  - assert (Hself : forall k' (r0 : rpacket), str_eqb k' e = true -> other e (fst (k', r0)) = false).
    { intros k' r0 Hk. apply str_eqb_eq in Hk. subst. apply other_self. }
    destruct (add_attachment r payload) as [[r' [|]]|x] eqn:Hadd.
    + apply hp_bind. unfold set_binpkt. apply hp_modify.
      set (s1 := mkSrv (mg s) (environ s) (adel str_eqb (binpkt s) e) (sessions s) (live s) (fresh s)).
      assert (Hos1 : osame e s s1).
      { apply osame_binpkt. apply (filter_adel str_eqb _ _ _ r Hbp). intros k' Hk. apply Hself; auto. }
      assert (HM1 : Mid s1) by (apply (Inv_binpkt_adel s e HI)).
      destruct (type_is (rp r') BINARY_EVENT).
      * eapply hp_conseq; [apply (handle_event_act c Hc s e _ _ _ s1); [exact HM1|reflexivity|apply Hben; reflexivity]|].
        intros ? s' es [Hos F]. split; [eapply osame_trans; eauto|auto].
      * eapply hp_conseq; [apply (handle_ack_act c s e _ _ _ s1); reflexivity|].
        intros ? s' es [Hos F]. split; [eapply osame_trans; eauto|auto].
    + unfold set_binpkt. apply hp_modify. split; [|constructor]. apply osame_binpkt.
      apply (filter_aset str_eqb _ _ _ _ r Hbp). intros k' Hk. split; apply Hself; auto.
    + apply hp_bind. destruct (N.leb _ _).
      * apply hp_ret. apply hp_raise. split; [apply osame_refl|constructor].
      * unfold set_binpkt. apply hp_modify. apply hp_raise. split; [|constructor]. apply osame_binpkt.
        apply (filter_aset str_eqb _ _ _ _ r Hbp). intros k' Hk. split; apply Hself; auto.
  - apply hp_bind. apply hp_lift.
    destruct (decode_any c loads payload) as [r|x] eqn:Hdec; [|split; [apply osame_refl|constructor]].
    destruct (type_is (rp r) CONNECT); [apply handle_connect_act; auto|].
    destruct (type_is (rp r) DISCONNECT); [apply handle_disconnect_act; auto|].
    destruct (type_is (rp r) EVENT).
    { apply (handle_event_act c Hc s e _ _ _ s); [exact HM|reflexivity|apply Hben; reflexivity]. }
    destruct (type_is (rp r) ACK); [apply handle_ack_act; reflexivity|].
    destruct (type_is (rp r) BINARY_EVENT || type_is (rp r) BINARY_ACK).
    + unfold set_binpkt. apply hp_modify. split; [|constructor]. apply osame_binpkt.
      apply filter_aset_new; [exact Hbp|]. apply other_self.
    + apply hp_raise. split; [apply osame_refl|constructor].
Qed.

(* with scripted actions: the other transports' part of the state is still untouched - rooms
   included, because a handler's enter_room / leave_room act on its own sid -; handlers are
   invoked, and callbacks fired, for this transport's sids only; the only thing a scripted action
   adds is Out effects (emits), which may address anybody *)
Theorem C12_frame_local_actions_view c s e payload tbl :
  cfg_ok c -> Inv s -> benign_event_name c s e payload (table_loads tbl) ->
  osame e s (fst (step c s (EioMessage e payload tbl))) /\
  Forall (Eok' s e) (snd (step c s (EioMessage e payload tbl))).
Proof.
  intros Hc HI Hben. apply (hp_step c s (EioMessage e payload tbl) (fun s' es => osame e s s' /\ Forall (Eok' s e) es)).
  cbn [step_m]. apply hp_getS_bind. destruct (existsb (str_eqb e) (live s)) eqn:Ex.
  - apply hp_contain. apply handle_eio_message_act; auto.
    apply existsb_exists in Ex as (x & Hx & Hex). apply str_eqb_eq in Hex. subst. auto.
  - apply hp_ret. split; [apply osame_refl|constructor].
Qed.

Theorem C12_frame_local_actions_lemma c s e payload tbl :
  cfg_ok c -> Inv s -> benign_event_name c s e payload (table_loads tbl) ->
  c12_step c s (EioMessage e payload tbl) (snd (step c s (EioMessage e payload tbl))) = true /\
  others_unchanged e s (fst (step c s (EioMessage e payload tbl))) = true.
Proof.
  intros Hc HI Hben. destruct (C12_frame_local_actions_view c s e payload tbl Hc HI Hben) as [Hos HE].
  split; [|apply osame_others_unchanged; exact Hos].
  unfold c12_step. destruct (negb (existsb (str_eqb e) (live s))); [reflexivity|].
  set (obs := snd (step c s (EioMessage e payload tbl))) in *.
  set (s' := fst (step c s (EioMessage e payload tbl))) in *.
  rewrite Forall_forall in HE.
  apply andb_true_iff; split; [apply andb_true_iff; split; [apply andb_true_iff; split; [apply andb_true_iff; split|]|]|].
  - destruct (has_actions c) eqn:Ha; [reflexivity|]. cbn [orb].
    (* without actions the sharper statement applies *)
    destruct (step_message_local c s e payload tbl Ha HI Hben) as [_ HE0]. rewrite Forall_forall in HE0.
    apply forallb_forall. intros e' He'. unfold out_eios in He'. apply in_flat_map in He' as (x & Hx & Hin).
    destruct x; cbn in Hin; try contradiction. destruct Hin as [<-|[]]. specialize (HE0 _ Hx). cbn in HE0. subst. apply str_eqb_refl.
  - apply forallb_forall. intros [h a] Hin. apply calls_of_In in Hin. destruct (HE _ Hin) as (sid & Hmine & Ha). cbn [snd].
    apply existsb_exists. exists sid. split.
    + destruct Hmine as [<-|Hm]; [left; reflexivity|]. right. apply in_or_app. left. exact Hm.
    + unfold mentions_sid. apply existsb_exists. exists (PStr sid). split; [auto|apply pv_eqb_refl].
  - apply forallb_forall. intros [cb a] Hin. apply cbcalls_of_In in Hin.
    destruct (HE _ Hin) as (sid & slot & i & Hsid & Hslot & Hent). cbn [fst].
    apply existsb_exists. exists sid. split; [auto|]. rewrite Hslot. apply existsb_exists. exists (i, cb).
    split; [auto|]. cbn [snd]. apply N.eqb_refl.
  - rewrite (osame_others_unchanged _ _ _ Hos). apply orb_true_r.
  - unfold classify. destruct (aget str_eqb (binpkt s) e) eqn:Hbp; [reflexivity|].
    destruct (decode_any c (table_loads tbl) payload) as [r|x] eqn:Hd; [reflexivity|].
    unfold obs. rewrite (C12_undecodable_lemma c s e payload tbl x Hbp Hd). reflexivity.
Qed.

(* non-vacuity: the offender's event handler enters a room, saves its session and emits to a
   room in which the bystander sits *)
Definition z_cfg : cfg :=
  mkCfg [(x_ns, [(s2l "connect", 1); (s2l "msg", 2)])] []
        [(1, mkBehav None [AEnter (PStr (s2l "lobby"))] (Returns PNone));
         (2, mkBehav None [AEnter (PStr (s2l "vip")); ASave (PInt 1);
                           AEmitRoom (s2l "hello") PNone (PStr (s2l "lobby")) true; ALeave (PStr (s2l "lobby"))]
                     (Raises RuntimeError))] None false true.
Definition z_state : srv :=
  fst (run z_cfg srv_init [EioConnect x_e1 PNone; EioConnect x_e2 PNone;
                           EioMessage x_e1 (PStr (s2l "0")) []; EioMessage x_e2 (PStr (s2l "0")) []]).
Lemma z_cfg_ok : cfg_ok z_cfg.
Proof.
  intros hid b a Hin Ha. cbn in Hin. destruct Hin as [[= <- <-]|[[= <- <-]|[]]]; cbn in Ha.
  - destruct Ha as [<-|[]]. split; [discriminate|reflexivity].
  - destruct Ha as [<-|[<-|[<-|[<-|[]]]]]; cbn; auto; try (split; [discriminate|reflexivity]). discriminate.
Qed.
Example z_frame_with_actions :
  let o := x_frame_event in
  out_eios (snd (step z_cfg z_state o)) = [x_e2] /\
  c12_step z_cfg z_state o (snd (step z_cfg z_state o)) = true /\
  others_unchanged x_e1 z_state (fst (step z_cfg z_state o)) = true.
Proof.
  split; [vm_compute; reflexivity|].
  apply C12_frame_local_actions_lemma; [apply z_cfg_ok| |].
  - apply run_Inv; [apply z_cfg_ok|repeat constructor|apply Inv_init].
  - unfold benign_event_name. replace (aget str_eqb (binpkt z_state) x_e1) with (@None rpacket) by (vm_compute; reflexivity).
    intros r Hr. vm_compute in Hr. injection Hr as <-. intros ev rest Hs. vm_compute in Hs. injection Hs as <- <-. reflexivity.
Qed.
(* ==================================================================================== *)
(** * Towards the executable form: the ghost link between the specification store of
      c16_fold (keyed by session id) and the model's store (keyed by transport) *)

Definition link (s : srv) (st : store) : Prop :=
  forall sid n e, eio_from_sid (mg s) sid n = Some e -> In e (live s) -> s_get st sid n = sess_val s e n.

Lemma skey_eqb_eq a b : skey_eqb a b = true <-> a = b.
Proof.
  destruct a as [a1 a2], b as [b1 b2]. unfold skey_eqb. cbn [fst snd]. rewrite andb_true_iff, !str_eqb_eq.
  split; [intros [-> ->]; reflexivity|intros [= -> ->]; auto].
Qed.

Lemma s_get_aset st sid n v sid' n' :
  s_get (aset skey_eqb st (sid, n) v) sid' n' = if skey_eqb (sid', n') (sid, n) then v else s_get st sid' n'.
Proof.
  unfold s_get. destruct (skey_eqb (sid', n') (sid, n)) eqn:E.
  - apply skey_eqb_eq in E. injection E as -> ->. rewrite (xaget_aset_eq _ skey_eqb_eq). reflexivity.
  - rewrite (xaget_aset_neq _ skey_eqb_eq); [reflexivity|]. intros Heq. rewrite Heq in E.
    assert (skey_eqb (sid, n) (sid, n) = true) by (apply skey_eqb_eq; reflexivity). congruence.
Qed.

Lemma connected_on_iff s sid n :
  connected_on s sid n = true <-> exists e, eio_from_sid (mg s) sid n = Some e /\ In e (live s).
Proof.
  unfold connected_on. destruct (eio_from_sid (mg s) sid n) as [e|].
  - split.
    + intros Ex. exists e. split; [reflexivity|]. apply existsb_exists in Ex as (x & Hx & Hex). apply str_eqb_eq in Hex. subst. auto.
    + intros (e' & [= <-] & Hl). apply live_existsb. auto.
  - split; [discriminate|intros (e' & He & _); discriminate].
Qed.

Lemma not_connected_dead s sid n :
  connected_on s sid n = false ->
  match eio_from_sid (mg s) sid n with Some e => ~ In e (live s) | None => True end.
Proof.
  intros H. destruct (eio_from_sid (mg s) sid n) as [e|] eqn:He; [|exact I]. intros Hl.
  assert (connected_on s sid n = true) by (apply connected_on_iff; eauto). congruence.
Qed.

Lemma api_save_session_dead sid v pns s :
  (match eio_from_sid (mg s) sid (ns_or_default pns) with Some e => ~ In e (live s) | None => True end) ->
  api_save_session sid v pns s = (s, [], Err KeyError).
Proof.
  intros H. unfold api_save_session, bindM, getS, lift, eio_session.
  destruct (eio_from_sid (mg s) sid (ns_or_default pns)) as [e|]; [|reflexivity].
  destruct (existsb (str_eqb e) (live s)) eqn:Ex; [|reflexivity]. exfalso. apply H.
  apply existsb_exists in Ex as (x & Hx & Hex). apply str_eqb_eq in Hex. subst. auto.
Qed.

(* one session id per (transport, namespace) *)
Lemma one_sid_per_slot s sid sid' n e :
  Inv s -> eio_from_sid (mg s) sid n = Some e -> eio_from_sid (mg s) sid' n = Some e -> sid' = sid.
Proof.
  intros [HM _] H1 H2.
  destruct (eio_from_sid_rmem _ _ _ _ _ _ (mid_mg _ HM) H1) as (rm & Hr & Hm & _).
  destruct (eio_from_sid_rmem _ _ _ _ _ _ (mid_mg _ HM) H2) as (rm' & Hr' & Hm' & _).
  assert (rm' = rm) by congruence. subst. destruct (mi_ns _ _ _ (mid_mg _ HM) _ _ Hr) as [_ Hi]. eapply ri_inj; eauto.
Qed.

Lemma link_put s st sid n e v :
  Inv s -> eio_from_sid (mg s) sid n = Some e -> link s st -> link (put_sess s e n v) (aset skey_eqb st (sid, n) v).
Proof.
  intros HI He HL sid' n' e' He' Hl'. cbn [put_sess with_sessions mg live] in He', Hl'.
  rewrite s_get_aset. unfold sess_val. rewrite sess_at_put.
  destruct (skey_eqb (sid', n') (sid, n)) eqn:Ek.
  - apply skey_eqb_eq in Ek. injection Ek as -> ->. assert (e' = e) by congruence. subst. rewrite !str_eqb_refl. reflexivity.
  - destruct (str_eqb e' e && str_eqb n' n) eqn:E2; [|apply HL; auto].
    apply andb_true_iff in E2 as [E2 E3]. apply str_eqb_eq in E2, E3. subst.
    assert (sid' = sid) by (eapply one_sid_per_slot; eauto). subst.
    assert (skey_eqb (sid, n) (sid, n) = true) by (apply skey_eqb_eq; reflexivity). congruence.
Qed.

Lemma link_fill s st e n : link s st -> sess_at s e n = None -> link (put_sess s e n (PDict [])) st.
Proof.
  intros HL Hat sid' n' e' He' Hl'. cbn [put_sess with_sessions mg live] in He', Hl'.
  rewrite (HL _ _ _ He' Hl'). unfold sess_val. rewrite sess_at_put.
  destruct (str_eqb e' e && str_eqb n' n) eqn:E2; [|reflexivity].
  apply andb_true_iff in E2 as [E2 E3]. apply str_eqb_eq in E2, E3. subst. rewrite Hat. reflexivity.
Qed.

(* the three API operations: the head of c16_fold is accepted on the model's own step and the
   link is re-established with the store the fold continues with *)
Theorem C16_fold_api_partial c s st o r es :
  Inv s -> link s st ->
  match o with ApiGetSession _ _ | ApiSaveSession _ _ _ | ApiSessionSet _ _ _ _ => True | _ => False end ->
  exists st', c16_fold c s st (o :: r) (snd (step c s o) :: es) = c16_fold c (fst (step c s o)) st' r es /\
              link (fst (step c s o)) st'.
Proof.
  intros HI HL Ho. destruct o as [| | | | | | | | |sid ns|sid v ns|sid ns k v]; try contradiction; cbn [c16_fold].
  - (* get *)
    exists st. set (n := ns_or_default ns). destruct (connected_on s sid n) eqn:Hcon.
    + apply connected_on_iff in Hcon as (e & He & Hl).
      assert (Hstep : step c s (ApiGetSession sid ns) =
                      (match sess_at s e n with Some _ => s | None => put_sess s e n (PDict []) end, [Ret (sess_val s e n)])).
      { unfold step. cbn [step_m]. unfold api, bindM. rewrite (api_get_session_run sid ns s e He Hl). reflexivity. }
      rewrite Hstep. cbn [fst snd]. rewrite (HL _ _ _ He Hl), pv_eqb_refl. cbn [andb]. split; [reflexivity|].
      destruct (sess_at s e n) eqn:Hat; [exact HL|apply link_fill; auto].
    + assert (Hstep : step c s (ApiGetSession sid ns) = (s, [Raised KeyError])).
      { unfold step. cbn [step_m]. unfold api, bindM. rewrite (api_get_session_dead sid ns s (not_connected_dead _ _ _ Hcon)). reflexivity. }
      rewrite Hstep. cbn [fst snd]. split; [reflexivity|exact HL].
  - (* save *)
    set (n := ns_or_default ns). destruct (connected_on s sid n) eqn:Hcon.
    + apply connected_on_iff in Hcon as (e & He & Hl). exists (aset skey_eqb st (sid, n) v).
      assert (Hstep : step c s (ApiSaveSession sid v ns) = (put_sess s e n v, [])).
      { unfold step. cbn [step_m]. unfold api. rewrite (api_save_session_run sid v ns s e He Hl). reflexivity. }
      rewrite Hstep. cbn [fst snd]. split; [reflexivity|apply link_put; auto].
    + exists st.
      assert (Hstep : step c s (ApiSaveSession sid v ns) = (s, [Raised KeyError])).
      { unfold step. cbn [step_m]. unfold api. rewrite (api_save_session_dead sid v ns s (not_connected_dead _ _ _ Hcon)). reflexivity. }
      rewrite Hstep. cbn [fst snd]. split; [reflexivity|exact HL].
  - (* session() block *)
    set (n := ns_or_default ns). destruct (connected_on s sid n) eqn:Hcon.
    + apply connected_on_iff in Hcon as (e & He & Hl). exists (aset skey_eqb st (sid, n) (dict_set (s_get st sid n) k v)).
      destruct (C16_context_manager_lemma c sid ns k v s e He Hl) as (Hobs & _ & _). fold n in Hobs.
      rewrite Hobs. cbn [no_raise forallb andb]. split; [reflexivity|].
      rewrite (HL _ _ _ He Hl).
      (* the state after the step, as in the proof of C16_context_manager_lemma *)
      assert (Hstep : fst (step c s (ApiSessionSet sid ns k v)) =
                      put_sess (match sess_at s e n with Some _ => s | None => put_sess s e n (PDict []) end) e n
                               (dict_set (sess_val s e n) k v)).
      { unfold step. cbn [step_m]. unfold api. unfold bindM at 1. rewrite (api_get_session_run sid ns s e He Hl). fold n.
        set (s0 := match sess_at s e n with Some _ => s | None => put_sess s e n (PDict []) end).
        assert (He0 : eio_from_sid (mg s0) sid n = Some e) by (unfold s0; destruct (sess_at s e n); exact He).
        assert (Hl0 : In e (live s0)) by (unfold s0; destruct (sess_at s e n); exact Hl).
        rewrite (api_save_session_run sid _ ns s0 e He0 Hl0). reflexivity. }
      rewrite Hstep. destruct (sess_at s e n) eqn:Hat.
      * apply link_put; auto.
      * apply link_put.
        -- destruct HI as [[H1 H2 H3 [H4 H5]] Hp]. split; [|exact Hp]. split; auto. cbn [put_sess with_sessions sessions live]. split.
           ++ apply (xkeys_ok_aset _ str_eqb_eq). auto.
           ++ intros x Hx. apply (xkeys_aset _ str_eqb_eq) in Hx as [Hx| ->]; auto.
        -- exact He.
        -- apply link_fill; auto.
    + exists st.
      assert (Hstep : step c s (ApiSessionSet sid ns k v) = (s, [Raised KeyError])).
      { unfold step. cbn [step_m]. unfold api. unfold bindM at 1.
        rewrite (api_get_session_dead sid ns s (not_connected_dead _ _ _ Hcon)). reflexivity. }
      rewrite Hstep. cbn [fst snd]. split; [reflexivity|exact HL].
Qed.
