(* C16: user sessions are private to one client connection and namespace. *)
From VT Require Export Server.SrvInv Server.Isolation Check.C16Check.
From Coq Require Import Lia.
Open Scope N_scope.
(* ------------------------------------------------------------------------------------ *)
(** * The session store *)

(* what is stored for (transport, namespace) *)
Definition sess_at (s : srv) (e n : str) : option pv :=
  match aget str_eqb (sessions s) e with Some d => aget str_eqb d n | None => None end.
Definition sess_val (s : srv) (e n : str) : pv :=
  match sess_at s e n with Some v => v | None => PDict [] end.

Definition with_sessions (s : srv) (ss : list (str * list (str * pv))) : srv :=
  mkSrv (mg s) (environ s) (binpkt s) ss (live s) (fresh s).
Definition sess_dict (s : srv) (e : str) : list (str * pv) :=
  match aget str_eqb (sessions s) e with Some d => d | None => [] end.
Definition put_sess (s : srv) (e n : str) (v : pv) : srv :=
  with_sessions s (aset str_eqb (sessions s) e (aset str_eqb (sess_dict s e) n v)).

Lemma sess_at_put s e n v e' n' :
  sess_at (put_sess s e n v) e' n' = if str_eqb e' e && str_eqb n' n then Some v else sess_at s e' n'.
Proof.
  unfold sess_at, put_sess, with_sessions, sess_dict. cbn [sessions].
  destruct (str_eqb e' e) eqn:Ee.
  - apply str_eqb_eq in Ee. subst. rewrite (xaget_aset_eq _ str_eqb_eq). cbn [andb].
    destruct (str_eqb n' n) eqn:En.
    + apply str_eqb_eq in En. subst. apply (xaget_aset_eq _ str_eqb_eq).
    + rewrite (xaget_aset_neq _ str_eqb_eq) by (intros ->; rewrite str_eqb_refl in En; discriminate).
      destruct (aget str_eqb (sessions s) e); reflexivity.
  - cbn [andb]. rewrite (xaget_aset_neq _ str_eqb_eq) by (intros ->; rewrite str_eqb_refl in Ee; discriminate).
    reflexivity.
Qed.

Lemma live_existsb s e : In e (live s) -> existsb (str_eqb e) (live s) = true.
Proof. intros H. apply existsb_exists. exists e. split; [auto|apply str_eqb_refl]. Qed.

(* save_session and get_session as state transformers *)
Lemma api_save_session_run sid v pns s e :
  eio_from_sid (mg s) sid (ns_or_default pns) = Some e -> In e (live s) ->
  api_save_session sid v pns s = (put_sess s e (ns_or_default pns) v, [], Ok tt).
Proof.
  intros He Hl. unfold api_save_session, bindM, getS, lift, eio_session. rewrite He, (live_existsb _ _ Hl).
  reflexivity.
Qed.

Lemma api_get_session_run sid pns s e :
  eio_from_sid (mg s) sid (ns_or_default pns) = Some e -> In e (live s) ->
  api_get_session sid pns s =
  (match sess_at s e (ns_or_default pns) with Some _ => s | None => put_sess s e (ns_or_default pns) (PDict []) end,
   [], Ok (sess_val s e (ns_or_default pns))).
Proof.
  intros He Hl. unfold api_get_session, bindM, getS, lift, eio_session, sess_val, sess_at.
  rewrite He, (live_existsb _ _ Hl).
  destruct (aget str_eqb (sessions s) e) as [d|] eqn:Hd.
  - destruct (aget str_eqb d (ns_or_default pns)) as [v0|] eqn:Hv; [reflexivity|].
    unfold set_session, modify, ret, put_sess, with_sessions, sess_dict. rewrite Hd. reflexivity.
  - cbn [aget]. unfold set_session, modify, ret, put_sess, with_sessions, sess_dict. rewrite Hd. reflexivity.
Qed.

(* not connected / transport gone: both raise KeyError and change nothing *)
Lemma api_get_session_dead sid pns s :
  (match eio_from_sid (mg s) sid (ns_or_default pns) with Some e => ~ In e (live s) | None => True end) ->
  api_get_session sid pns s = (s, [], Err KeyError).
Proof.
  intros H. unfold api_get_session, bindM, getS, lift, eio_session.
  destruct (eio_from_sid (mg s) sid (ns_or_default pns)) as [e|]; [|reflexivity].
  destruct (existsb (str_eqb e) (live s)) eqn:Ex; [|reflexivity]. exfalso. apply H.
  apply existsb_exists in Ex as (x & Hx & Hex). apply str_eqb_eq in Hex. subst. auto.
Qed.

(* ------------------------------------------------------------------------------------ *)
(** * C16_get_after_save, C16_context_manager_persists, C16_isolation *)

Theorem C16_get_after_save_lemma sid v pns s e :
  eio_from_sid (mg s) sid (ns_or_default pns) = Some e -> In e (live s) ->
  let s1 := put_sess s e (ns_or_default pns) v in
  api_save_session sid v pns s = (s1, [], Ok tt) /\
  api_get_session sid pns s1 = (s1, [], Ok v) /\
  sess_at s1 e (ns_or_default pns) = Some v.
Proof.
  intros He Hl s1. assert (Hat : sess_at s1 e (ns_or_default pns) = Some v).
  { unfold s1. rewrite sess_at_put, !str_eqb_refl. reflexivity. }
  split; [apply api_save_session_run; auto|]. split; [|exact Hat].
  rewrite (api_get_session_run sid pns s1 e); auto. unfold sess_val. rewrite Hat. reflexivity.
Qed.

(* later reads return what is stored, as long as the sid is still connected on that transport *)
Theorem C16_get_reads_store sid pns s e v :
  eio_from_sid (mg s) sid (ns_or_default pns) = Some e -> In e (live s) ->
  sess_at s e (ns_or_default pns) = Some v ->
  api_get_session sid pns s = (s, [], Ok v).
Proof.
  intros He Hl Hat. rewrite (api_get_session_run sid pns s e); auto. unfold sess_val. rewrite Hat. reflexivity.
Qed.

(* with session(sid) as d: d[k] = v   ==   get, set key, save *)
Theorem C16_context_manager_lemma c sid pns k v s e :
  eio_from_sid (mg s) sid (ns_or_default pns) = Some e -> In e (live s) ->
  let d := sess_val s e (ns_or_default pns) in
  let s1 := fst (step c s (ApiSessionSet sid pns k v)) in
  snd (step c s (ApiSessionSet sid pns k v)) = [] /\
  sess_at s1 e (ns_or_default pns) = Some (dict_set d k v) /\
  api_get_session sid pns s1 = (s1, [], Ok (dict_set d k v)).
Proof.
  intros He Hl d s1. set (n := ns_or_default pns) in *.
  assert (Hstep : step c s (ApiSessionSet sid pns k v) =
                  (put_sess (match sess_at s e n with Some _ => s | None => put_sess s e n (PDict []) end) e n (dict_set d k v), [])).
  { unfold step. cbn [step_m]. unfold api. unfold bindM at 1. rewrite (api_get_session_run sid pns s e He Hl). fold n.
    set (s0 := match sess_at s e n with Some _ => s | None => put_sess s e n (PDict []) end).
    assert (He0 : eio_from_sid (mg s0) sid n = Some e) by (unfold s0; destruct (sess_at s e n); exact He).
    assert (Hl0 : In e (live s0)) by (unfold s0; destruct (sess_at s e n); exact Hl).
    rewrite (api_save_session_run sid _ pns s0 e He0 Hl0). reflexivity. }
  unfold s1. rewrite Hstep. cbn [fst snd].
  set (s0 := match sess_at s e n with Some _ => s | None => put_sess s e n (PDict []) end).
  assert (Hat : sess_at (put_sess s0 e n (dict_set d k v)) e n = Some (dict_set d k v)).
  { rewrite sess_at_put, !str_eqb_refl. reflexivity. }
  split; [reflexivity|]. split; [exact Hat|].
  apply (C16_get_reads_store sid pns _ e); [| |exact Hat]; cbn [put_sess with_sessions mg live]; unfold s0; destruct (sess_at s e n); auto.
Qed.

(* a save for (sid, ns) changes the stored session of no other (transport, namespace) pair ... *)
Theorem C16_isolation_store sid v pns s e e' n' :
  eio_from_sid (mg s) sid (ns_or_default pns) = Some e -> In e (live s) ->
  (e' <> e \/ n' <> ns_or_default pns) ->
  sess_at (fst (fst (api_save_session sid v pns s))) e' n' = sess_at s e' n'.
Proof.
  intros He Hl Hd. rewrite (api_save_session_run sid v pns s e He Hl). cbn [fst]. rewrite sess_at_put.
  destruct (str_eqb e' e) eqn:E1; [|reflexivity]. destruct (str_eqb n' (ns_or_default pns)) eqn:E2; [|reflexivity].
  apply str_eqb_eq in E1, E2. exfalso. tauto.
Qed.

(* ... and therefore not what get_session returns for any other client or namespace *)
Theorem C16_isolation_lemma sid v pns sid' pns' s :
  let s1 := fst (fst (api_save_session sid v pns s)) in
  (eio_from_sid (mg s) sid' (ns_or_default pns') <> eio_from_sid (mg s) sid (ns_or_default pns) \/
   ns_or_default pns' <> ns_or_default pns) ->
  snd (api_get_session sid' pns' s1) = snd (api_get_session sid' pns' s).
Proof.
  intros s1 Hd.
  destruct (eio_from_sid (mg s) sid (ns_or_default pns)) as [e|] eqn:He.
  2:{ (* the save itself fails: nothing changes *)
      unfold s1, api_save_session, bindM, getS, lift, eio_session. rewrite He. reflexivity. }
  destruct (in_dec (list_eq_dec N.eq_dec) e (live s)) as [Hl|Hnl].
  2:{ unfold s1, api_save_session, bindM, getS, lift, eio_session. rewrite He.
      destruct (existsb (str_eqb e) (live s)) eqn:Ex; [|reflexivity]. exfalso. apply Hnl.
      apply existsb_exists in Ex as (x & Hx & Hex). apply str_eqb_eq in Hex. subst. auto. }
  unfold s1. rewrite (api_save_session_run sid v pns s e He Hl). cbn [fst].
  set (n := ns_or_default pns) in *. set (n' := ns_or_default pns') in *.
  destruct (eio_from_sid (mg s) sid' n') as [e'|] eqn:He'.
  2:{ rewrite !api_get_session_dead; auto; cbn [put_sess with_sessions mg]; fold n'; rewrite He'; exact I. }
  destruct (in_dec (list_eq_dec N.eq_dec) e' (live s)) as [Hl'|Hnl'].
  2:{ rewrite !api_get_session_dead; auto; cbn [put_sess with_sessions mg live]; fold n'; rewrite He'; exact Hnl'. }
  rewrite (api_get_session_run sid' pns' s e' He' Hl').
  rewrite (api_get_session_run sid' pns' (put_sess s e n v) e'); [|exact He'|exact Hl']. cbn [snd].
  unfold sess_val. fold n'. rewrite sess_at_put.
  destruct (str_eqb e' e) eqn:E1; [|reflexivity]. destruct (str_eqb n' n) eqn:E2; [|reflexivity].
  apply str_eqb_eq in E1, E2. exfalso. destruct Hd as [Hd|Hd]; [apply Hd; congruence|contradiction].
Qed.
(* ------------------------------------------------------------------------------------ *)
(** * Predicates on the state that only session writes can change *)

Section StableJ.
  Variable c : cfg.
  Variable J : srv -> Prop.
  (* J looks at the session store only *)
  Hypothesis Jext : forall s s', sessions s' = sessions s -> J s -> J s'.
  Hypothesis Jact : forall hid b ns sid a,
      aget N.eqb (behav c) hid = Some b -> In a (h_actions b) -> pres J anyeff (run_action c ns sid a).

  Lemma st_with_mg {A} (f : mgr -> mgr * A) : pres J anyeff (with_mg f).
  Proof. apply pres_with_mg. intros s H. eapply Jext; [|exact H]. reflexivity. Qed.
  Lemma st_set_mg f : pres J anyeff (set_mg f).
  Proof. apply pres_set_mg. intros s H. eapply Jext; [|exact H]. reflexivity. Qed.
  Lemma st_set_binpkt f : pres J anyeff (set_binpkt f).
  Proof. unfold set_binpkt. apply pres_modify. intros s H. eapply Jext; [|exact H]. reflexivity. Qed.

  Lemma st_trigger ev ns args : pres J anyeff (trigger_event c ev ns args).
  Proof. apply (trigger_event_gen c J anyeff (fun _ => True)); [intros; exact I|exact Jact|auto]. Qed.

  Lemma st_handle_event eio pns id data : pres J anyeff (handle_event c eio pns id data).
  Proof.
    unfold handle_event. apply pres_bind; [apply pres_getS|]. intros s0.
    apply pres_bind; [apply pres_lift|]. intros ea. destruct (negb _); [apply pres_ret|].
    destruct (sid_from_eio _ _ _); [|apply pres_ret].
    apply pres_bind; [apply st_trigger|]. intros r.
    destruct r; [|apply pres_ret]. destruct id; [|apply pres_ret]. apply send_packet_any.
  Qed.

  Lemma st_handle_ack eio pns id data : pres J anyeff (handle_ack c eio pns id data).
  Proof.
    unfold handle_ack. apply pres_bind; [apply pres_getS|]. intros s0.
    apply pres_bind; [apply st_with_mg|]. intros t. destruct t; [apply pres_ret|].
    apply pres_bind; [apply pres_lift|]. intros args. apply pres_tell. exact I.
  Qed.

  Lemma st_handle_disconnect eio pns reason : pres J anyeff (handle_disconnect c eio pns reason).
  Proof.
    unfold handle_disconnect. apply pres_bind; [apply pres_getS|]. intros s0.
    destruct (negb _); [apply pres_ret|]. destruct (sid_from_eio _ _ _); [|apply pres_ret].
    apply pres_bind; [apply st_with_mg|]. intros r. apply pres_bind; [apply pres_lift|]. intros u.
    apply pres_finally; [|apply st_set_mg].
    apply pres_bind; [apply st_trigger|]. intros; apply pres_ret.
  Qed.

  Lemma st_handle_connect eio pns data : pres J anyeff (handle_connect c eio pns data).
  Proof.
    unfold handle_connect. apply pres_getS_bind. intros s0 H0.
    refine ((_ : pres J anyeff _) s0 H0).
    apply pres_bind.
    { destruct (served c _); [|apply pres_ret]. apply pres_bind; [|intros; apply st_with_mg].
      apply pres_putS. eapply Jext; [|exact H0]. reflexivity. }
    intros osid. destruct osid as [sid|]; [|apply send_packet_any].
    apply pres_bind. { destruct (always_connect c); [apply send_packet_any|apply pres_ret]. }
    intros _. apply pres_bind. { destruct (aget str_eqb (environ s0) eio); [apply pres_ret|apply pres_raise]. }
    intros env. apply pres_bind.
    { apply pres_catch.
      - apply pres_bind; [|intros; apply pres_ret]. destruct (truthy data); [apply st_trigger|].
        apply pres_catch; [apply st_trigger|]. intros x k Hx. destruct x; try discriminate.
        injection Hx as <-. apply st_trigger.
      - intros x k Hx. destruct x; try discriminate. injection Hx as <-. apply pres_ret. }
    intros [success fail_reason]. destruct (match success with Some v => pv_eqb v (PBool false) | None => false end).
    - apply pres_finally; [|apply st_set_mg]. destruct (always_connect c); [|apply send_packet_any].
      apply pres_bind; [apply st_with_mg|]. intros r. apply pres_bind; [apply pres_lift|]. intros u. apply send_packet_any.
    - destruct (always_connect c); [apply pres_ret|apply send_packet_any].
  Qed.

  Lemma st_handle_eio_message loads eio payload : pres J anyeff (handle_eio_message c loads eio payload).
  Proof.
    unfold handle_eio_message. apply pres_bind; [apply pres_getS|]. intros s0.
    destruct (aget str_eqb (binpkt s0) eio) as [r|].
    - destruct (add_attachment r payload) as [[r' [|]]|x].
      + apply pres_bind; [apply st_set_binpkt|]. intros _.
        destruct (type_is _ _); [apply st_handle_event|apply st_handle_ack].
      + apply st_set_binpkt.
      + apply pres_bind; [|intros; apply pres_raise]. destruct (N.leb _ _); [apply pres_ret|apply st_set_binpkt].
    - apply pres_bind; [apply pres_lift|]. intros r.
      destruct (type_is _ CONNECT); [apply st_handle_connect|].
      destruct (type_is _ DISCONNECT); [apply st_handle_disconnect|].
      destruct (type_is _ EVENT); [apply st_handle_event|].
      destruct (type_is _ ACK); [apply st_handle_ack|].
      destruct (_ || _); [apply st_set_binpkt|apply pres_raise].
  Qed.

  Lemma st_handle_eio_disconnect eio reason : pres J anyeff (handle_eio_disconnect c eio reason).
  Proof.
    unfold handle_eio_disconnect. apply pres_bind; [apply pres_getS|]. intros s0.
    apply pres_bind; [apply pres_forM_keep; intros; apply st_handle_disconnect|]. intros exc.
    apply pres_bind.
    - apply pres_modify. intros s H. eapply Jext; [|exact H]. reflexivity.
    - intros _. destruct exc; [apply pres_raise|apply pres_ret].
  Qed.
End StableJ.
(* ------------------------------------------------------------------------------------ *)
(** * Stability of what is stored for one (transport, namespace) pair *)

Definition no_save_actions (c : cfg) : Prop :=
  forall hid b a, In (hid, b) (behav c) -> In a (h_actions b) -> match a with ASave _ => False | _ => True end.

(* operations that write the session of (e, n) or end transport e *)
Definition touches (s : srv) (o : op) (e n : str) : Prop :=
  match o with
  | EioClose e' _ => e' = e
  | ApiSaveSession sid _ pns | ApiSessionSet sid pns _ _ =>
      eio_from_sid (mg s) sid (ns_or_default pns) = Some e /\ ns_or_default pns = n
  | _ => False
  end.

Section Stable.
  Variable c : cfg.
  Hypothesis Hns : no_save_actions c.
  Variables e n : str.
  Variable P : option pv -> Prop.
  (* the only write besides save_session: get_session stores {} where nothing was stored *)
  Hypothesis Pfill : P None -> P (Some (PDict [])).
  Let J := fun s : srv => P (sess_at s e n).

  Lemma J_ext s s' : sessions s' = sessions s -> J s -> J s'.
  Proof. unfold J, sess_at. intros ->. auto. Qed.

  Lemma get_J sid pns s : J s -> hp s (api_get_session sid pns) (fun _ s' es => J s' /\ Forall anyeff es).
  Proof.
    intros HJ. unfold hp.
    destruct (eio_from_sid (mg s) sid (ns_or_default pns)) as [e0|] eqn:He.
    2:{ rewrite api_get_session_dead by (rewrite He; exact I). split; [auto|constructor]. }
    destruct (in_dec (list_eq_dec N.eq_dec) e0 (live s)) as [Hl|Hnl].
    2:{ rewrite api_get_session_dead by (rewrite He; exact Hnl). split; [auto|constructor]. }
    rewrite (api_get_session_run sid pns s e0 He Hl). split; [|constructor].
    destruct (sess_at s e0 (ns_or_default pns)) eqn:Hat; [auto|].
    unfold J. rewrite sess_at_put.
    destruct (str_eqb e e0) eqn:E1; [|exact HJ]. destruct (str_eqb n (ns_or_default pns)) eqn:E2; [|exact HJ].
    apply str_eqb_eq in E1, E2. subst. cbn [andb]. apply Pfill. unfold J in HJ. rewrite Hat in HJ. exact HJ.
  Qed.

  Lemma save_J sid v pns s :
    ~ (eio_from_sid (mg s) sid (ns_or_default pns) = Some e /\ ns_or_default pns = n) ->
    J s -> hp s (api_save_session sid v pns) (fun _ s' es => J s' /\ Forall anyeff es).
  Proof.
    intros Hnt HJ. unfold hp.
    destruct (eio_from_sid (mg s) sid (ns_or_default pns)) as [e0|] eqn:He.
    2:{ unfold api_save_session, bindM, getS, lift, eio_session. rewrite He. split; [auto|constructor]. }
    destruct (in_dec (list_eq_dec N.eq_dec) e0 (live s)) as [Hl|Hnl].
    2:{ unfold api_save_session, bindM, getS, lift, eio_session. rewrite He.
        destruct (existsb (str_eqb e0) (live s)) eqn:Ex; [|split; [auto|constructor]]. exfalso. apply Hnl.
        apply existsb_exists in Ex as (x & Hx & Hex). apply str_eqb_eq in Hex. subst. auto. }
    rewrite (api_save_session_run sid v pns s e0 He Hl). split; [|constructor].
    unfold J. rewrite sess_at_put.
    destruct (str_eqb e e0) eqn:E1; [|exact HJ]. destruct (str_eqb n (ns_or_default pns)) eqn:E2; [|exact HJ].
    apply str_eqb_eq in E1, E2. subst. exfalso. apply Hnt. auto.
  Qed.

  Lemma action_J hid b ns sid a :
    aget N.eqb (behav c) hid = Some b -> In a (h_actions b) -> pres J anyeff (run_action c ns sid a).
  Proof.
    intros Hb Ha. apply aget_In in Hb as (hid' & Hin & _). specialize (Hns _ _ _ Hin Ha).
    destruct a; cbn [run_action].
    - apply pres_bind; [|intros r; apply pres_lift]. apply pres_with_mg. intros s H. eapply J_ext; [|exact H]. reflexivity.
    - apply pres_set_mg. intros s H. eapply J_ext; [|exact H]. reflexivity.
    - apply mgr_emit_nocb_pres. intros; exact I.
    - apply mgr_emit_nocb_pres. intros; exact I.
    - destruct Hns.
    - apply pres_bind; [intros s H; apply get_J; auto|]. intros v. apply pres_tell. exact I.
  Qed.

  Lemma mgr_emit_J ev data ns room skip cb : pres J anyeff (mgr_emit c ev data ns room skip cb).
  Proof.
    destruct cb as [cbref|]; [|apply mgr_emit_nocb_pres; intros; exact I].
    unfold mgr_emit. apply pres_bind; [apply pres_getS|]. intros s0.
    destruct (ns_rooms (mg s0) ns); [|apply pres_ret].
    apply pres_bind; [apply pres_lift|]. intros parts. apply pres_forM. intros se _.
    destruct (skipped _ _); [apply pres_ret|].
    apply pres_bind; [apply pres_with_mg; intros s H; eapply J_ext; [|exact H]; reflexivity|]. intros rr.
    apply pres_bind; [apply pres_lift|]. intros id. apply send_packet_any.
  Qed.

  Lemma api_disconnect_J sid pns : pres J anyeff (api_disconnect c sid pns).
  Proof.
    unfold api_disconnect. apply pres_bind; [apply pres_getS|]. intros s0.
    destruct (negb _); [apply pres_ret|].
    apply pres_bind; [apply (st_with_mg J J_ext)|]. intros r. apply pres_bind; [apply pres_lift|]. intros eio.
    apply pres_bind; [apply send_packet_any|]. intros _.
    apply pres_finally; [|apply (st_set_mg J J_ext)].
    apply pres_bind; [apply (st_trigger c J action_J)|]. intros; apply pres_ret.
  Qed.

  Lemma api_J (m : SM unit) : pres J anyeff m -> pres J anyeff (api m).
  Proof. intros H. apply pres_api; [intros; exact I|exact H]. Qed.

  Theorem C16_stable_lemma s o :
    ~ touches s o e n -> P (sess_at s e n) -> P (sess_at (fst (step c s o)) e n).
  Proof.
    intros Hnt HJ. change (J (fst (step c s o))).
    apply (hp_step c s o (fun s' _ => J s')).
    assert (Conv : forall m : SM unit, pres J anyeff m -> hp s m (fun _ s' _ => J s')).
    { intros m Hm. eapply hp_conseq; [apply Hm; exact HJ|]. intros ? ? ? [? _]. auto. }
    destruct o as [eio env|eio payload tbl|eio reason|ev data to room skip ns cb|sid room ns|sid room ns|room ns
                   |sid ns|sid ns|sid ns|sid v ns|sid ns k v]; cbn [step_m touches] in *.
    - apply hp_modify. eapply J_ext; [|exact HJ]. reflexivity.
    - apply Conv. apply pres_bind; [apply pres_getS|]. intros s0. destruct (existsb _ _); [|apply pres_ret].
      apply pres_contain. apply (st_handle_eio_message c J J_ext action_J).
    - apply Conv. apply pres_bind; [apply pres_getS|]. intros s0. destruct (existsb _ _); [|apply pres_ret].
      apply pres_bind; [apply pres_contain; apply (st_handle_eio_disconnect c J J_ext action_J)|]. intros _.
      apply pres_modify. intros s1 H1. unfold J, sess_at in *. cbn [sessions].
      rewrite (xaget_adel_neq _ str_eqb_eq); auto.
    - apply Conv. apply api_J. apply mgr_emit_J.
    - apply Conv. apply api_J. apply pres_bind; [apply (st_with_mg J J_ext)|]. intros r. apply pres_lift.
    - apply Conv. apply api_J. apply (st_set_mg J J_ext).
    - apply Conv. apply api_J. apply (st_set_mg J J_ext).
    - apply hp_getS_bind. apply hp_tell. exact HJ.
    - apply Conv. apply api_J. apply api_disconnect_J.
    - apply Conv. apply api_J. apply pres_bind; [intros s0 H0; apply get_J; auto|]. intros v. apply pres_tell. exact I.
    - apply hp_api. eapply hp_conseq; [apply save_J; auto|]. intros [u|x] s' es [H _]; exact H.
    - apply hp_api. apply hp_bind. unfold hp.
      destruct (eio_from_sid (mg s) sid (ns_or_default ns)) as [e0|] eqn:He.
      2:{ rewrite api_get_session_dead by (rewrite He; exact I). exact HJ. }
      destruct (in_dec (list_eq_dec N.eq_dec) e0 (live s)) as [Hl|Hnl].
      2:{ rewrite api_get_session_dead by (rewrite He; exact Hnl). exact HJ. }
      assert (G := get_J sid ns s HJ). unfold hp in G.
      rewrite (api_get_session_run sid ns s e0 He Hl) in *. destruct G as [G _].
      set (s0 := match sess_at s e0 (ns_or_default ns) with Some _ => s | None => put_sess s e0 (ns_or_default ns) (PDict []) end) in *.
      assert (Hmg : mg s0 = mg s) by (unfold s0; destruct (sess_at s e0 (ns_or_default ns)); reflexivity).
      eapply hp_conseq; [apply save_J; [rewrite Hmg, He; intros [[= ->] Hn]; apply Hnt; auto|exact G]|].
      intros [u|x] s' es [H _]; exact H.
  Qed.
End Stable.
(* ---- whole histories ---- *)
Fixpoint untouched (c : cfg) (s : srv) (ops : list op) (e n : str) : Prop :=
  match ops with
  | [] => True
  | o :: r => ~ touches s o e n /\ untouched c (fst (step c s o)) r e n
  end.

Theorem C16_stable_run_lemma c e n (P : option pv -> Prop) :
  no_save_actions c -> (P None -> P (Some (PDict []))) ->
  forall ops s, untouched c s ops e n -> P (sess_at s e n) -> P (sess_at (fst (run c s ops)) e n).
Proof.
  intros Hns Pfill. induction ops as [|o ops IH]; intros s Hu HP; [exact HP|].
  destruct Hu as [Hu1 Hu2]. rewrite run_cons. cbn [fst]. apply IH; [exact Hu2|].
  apply C16_stable_lemma; auto.
Qed.

(* the value saved stays the value read, across any operations that neither save on that
   (transport, namespace) pair nor end the transport *)
Theorem C16_value_persists_lemma c sid v pns s e ops :
  no_save_actions c ->
  eio_from_sid (mg s) sid (ns_or_default pns) = Some e -> In e (live s) ->
  let s1 := fst (fst (api_save_session sid v pns s)) in
  untouched c s1 ops e (ns_or_default pns) ->
  let s2 := fst (run c s1 ops) in
  sess_at s2 e (ns_or_default pns) = Some v /\
  (eio_from_sid (mg s2) sid (ns_or_default pns) = Some e -> In e (live s2) ->
   api_get_session sid pns s2 = (s2, [], Ok v)).
Proof.
  intros Hns He Hl s1 Hu s2.
  destruct (C16_get_after_save_lemma sid v pns s e He Hl) as (Hs & _ & Hat).
  assert (Hs1 : s1 = put_sess s e (ns_or_default pns) v) by (unfold s1; rewrite Hs; reflexivity).
  assert (Hat2 : sess_at s2 e (ns_or_default pns) = Some v).
  { apply (C16_stable_run_lemma c e (ns_or_default pns) (fun x => x = Some v) Hns); [discriminate|exact Hu|].
    rewrite Hs1. exact Hat. }
  split; [exact Hat2|]. intros He2 Hl2. apply (C16_get_reads_store sid pns s2 e v); auto.
Qed.

(* ---- freshness ---- *)
Definition sess_empty (s : srv) (e n : str) : Prop := sess_at s e n = None \/ sess_at s e n = Some (PDict []).

Theorem C16_fresh_except_lemma sid pns s e :
  eio_from_sid (mg s) sid (ns_or_default pns) = Some e -> In e (live s) ->
  sess_empty s e (ns_or_default pns) ->
  snd (api_get_session sid pns s) = Ok (PDict []).
Proof.
  intros He Hl Hem. rewrite (api_get_session_run sid pns s e He Hl). cbn [snd]. unfold sess_val.
  destruct Hem as [-> | ->]; reflexivity.
Qed.

(* a transport that (re)connects starts with no session at all, for every namespace *)
Theorem C16_new_transport_empty_lemma c s e env n :
  Inv s -> ~ In e (live s) -> sess_at (fst (step c s (EioConnect e env))) e n = None.
Proof.
  intros [HM _] Hnl. unfold step. cbn [step_m modify fst]. unfold sess_at. cbn [sessions].
  destruct (aget str_eqb (sessions s) e) as [d|] eqn:Hd; [|reflexivity]. exfalso. apply Hnl.
  apply (proj2 (mid_ses _ HM)). apply (xaget_In _ str_eqb_eq) in Hd. apply in_map_iff. exists (e, d). auto.
Qed.

(* nothing saved for (e, n) since then: every session id issued on (e, n) reads {} *)
Theorem C16_fresh_new_transport_lemma c s e env n ops sid :
  no_save_actions c -> Inv s -> ~ In e (live s) ->
  let s1 := fst (step c s (EioConnect e env)) in
  untouched c s1 ops e n ->
  let s2 := fst (run c s1 ops) in
  eio_from_sid (mg s2) sid n = Some e -> In e (live s2) -> n <> [] ->
  snd (api_get_session sid (Some n) s2) = Ok (PDict []).
Proof.
  intros Hns HI Hnl s1 Hu s2 He Hl Hn.
  assert (Hnd : ns_or_default (Some n) = n) by (destruct n; [contradiction|reflexivity]).
  apply (C16_fresh_except_lemma sid (Some n) s2 e); rewrite ?Hnd; auto.
  apply (C16_stable_run_lemma c e n (fun x => x = None \/ x = Some (PDict [])) Hns); [auto|exact Hu|].
  left. apply C16_new_transport_empty_lemma; auto.
Qed.

(* ---- destroyed on transport end ---- *)
Theorem C16_destroyed_lemma c s e reason :
  cfg_ok c -> Inv s -> In e (live s) ->
  let s' := fst (step c s (EioClose e reason)) in
  ~ In e (map fst (sessions s')) /\ forall n, sess_at s' e n = None.
Proof.
  intros Hc HI Hl s'. destruct (step_close_spec c s e reason Hc HI Hl) as [[HM' _] Hlive _ _ _]. fold s' in HM', Hlive.
  assert (Hno : ~ In e (map fst (sessions s'))).
  { intros Hin. apply (proj2 (mid_ses _ HM')) in Hin. rewrite Hlive in Hin. apply In_drop_live in Hin. tauto. }
  split; [exact Hno|]. intros n. unfold sess_at.
  destruct (aget str_eqb (sessions s') e) as [d|] eqn:Hd; [|reflexivity]. exfalso. apply Hno.
  apply (xaget_In _ str_eqb_eq) in Hd. apply in_map_iff. exists (e, d). auto.
Qed.

(* ---- the open finding: namespace-level reconnect on the same transport ---- *)
Definition y_ns : str := s2l "/".
Definition y_e1 : str := s2l "E1".
Definition y_cfg : cfg :=
  mkCfg [(y_ns, [(s2l "connect", 1)])] [] [(1, mkBehav None [] (Returns PNone))] None false true.
Definition y_secret : pv := PDict [(PStr (s2l "user"), PStr (s2l "alice"))].
Definition y_ops : list op :=
  [EioConnect y_e1 PNone;
   EioMessage y_e1 (PStr (s2l "0")) [];             (* CONNECT /      -> S0 *)
   ApiSaveSession (sid_name 0) y_secret None;
   EioMessage y_e1 (PStr (s2l "1")) [];             (* DISCONNECT /   *)
   EioMessage y_e1 (PStr (s2l "0")) [];             (* CONNECT / again -> S1 *)
   ApiGetSession (sid_name 1) None].

Theorem C16_fresh_refuted_lemma :
  exists c ops newsid v,
    no_save_actions c /\ Forall op_ok ops /\
    (* the old sid is gone, the new one is a different session id on the same transport *)
    sids_of_eio (mg (fst (run c srv_init ops))) y_e1 = [newsid] /\ newsid <> sid_name 0 /\
    last (snd (run c srv_init ops)) [] = [Ret v] /\ v <> PDict [].
Proof.
  exists y_cfg, y_ops, (sid_name 1), y_secret.
  split; [|split; [repeat constructor|]].
  - intros hid b a Hin Ha. cbn in Hin. destruct Hin as [[= <- <-]|[]]. destruct Ha.
  - split; [vm_compute; reflexivity|]. split; [discriminate|]. split; [vm_compute; reflexivity|discriminate].
Qed.

(* ---- non-vacuity: two transports, two namespaces on the first ---- *)
Definition y_nsa : str := s2l "/a".
Definition y_e2 : str := s2l "E2".
Definition y_cfg2 : cfg :=
  mkCfg [(y_ns, [(s2l "connect", 1); (s2l "disconnect", 2)]); (y_nsa, [(s2l "connect", 1)])] []
        [(1, mkBehav None [AGet] (Returns PNone)); (2, mkBehav None [] (Raises RuntimeError))] None false true.
Definition y_ops2 : list op :=
  [EioConnect y_e1 PNone; EioConnect y_e2 PNone;
   EioMessage y_e1 (PStr (s2l "0")) []; EioMessage y_e1 (PStr (s2l "0/a,")) []; EioMessage y_e2 (PStr (s2l "0")) []].
Definition y_state : srv := fst (run y_cfg2 srv_init y_ops2).   (* S0 = (E1,/)  S1 = (E1,/a)  S2 = (E2,/) *)

Example y_get_after_save :
  let s1 := fst (fst (api_save_session (sid_name 0) y_secret None y_state)) in
  api_get_session (sid_name 0) None s1 = (s1, [], Ok y_secret) /\
  snd (api_get_session (sid_name 1) (Some y_nsa) s1) = Ok (PDict []) /\
  snd (api_get_session (sid_name 2) None s1) = Ok (PDict []).
Proof. vm_compute. repeat split. Qed.

Example y_context_manager :
  let o := ApiSessionSet (sid_name 1) (Some y_nsa) (s2l "k") (PInt 3) in
  snd (api_get_session (sid_name 1) (Some y_nsa) (fst (step y_cfg2 y_state o))) =
  Ok (PDict [(PStr (s2l "k"), PInt 3)]).
Proof. vm_compute. reflexivity. Qed.

Example y_destroyed :
  let s1 := fst (fst (api_save_session (sid_name 0) y_secret None y_state)) in
  let s2 := fst (step y_cfg2 s1 (EioClose y_e1 (PStr (s2l "transport close")))) in
  map fst (sessions s1) = [y_e1; y_e2] /\ map fst (sessions s2) = [y_e2] /\
  calls_of (snd (step y_cfg2 s1 (EioClose y_e1 (PStr (s2l "transport close"))))) =
    [(2, [PStr (sid_name 0); PStr (s2l "transport close")])].
Proof. vm_compute. repeat split. Qed.
