(* Proofs about the re-entrant broadcast of Server/EmitNested.v:
   - emit_plain: the plain ApiEmit step of Server.v (no callback) IS `sends_live` of `emit_sends`
     and leaves the state alone, so the new operation with k = 0 is the old one (nested_never);
   - a history of plain operations is judged by the new evaluator exactly as by the old one;
   - engine.io messages never change which transports are alive (step_message_live);
   - nested_broadcast_ok: the model's own re-entrant step passes the checker applied to the
     implementation (c12_nested_step) for a nested packet / transport loss of the offender. *)
From VT Require Export Server.Isolation Server.EmitNested Check.C12XCheck.
From Coq Require Import Lia.
Open Scope N_scope.

(** * 1. The plain broadcast as a list of sends *)

Lemma sends_live_app lv a b : sends_live lv (a ++ b) = sends_live lv a ++ sends_live lv b.
Proof. unfold sends_live. apply flat_map_app. Qed.

Lemma sends_live_one lv e (pieces : list pv) :
  sends_live lv (map (fun pc => (e, pc)) pieces) = if is_live lv e then map (Out e) pieces else [].
Proof.
  unfold sends_live. induction pieces as [|p ps IH]; cbn [map flat_map fst snd].
  - destruct (is_live lv e); reflexivity.
  - rewrite IH. destruct (is_live lv e); reflexivity.
Qed.

Lemma forM_sends sk (pieces : list pv) (parts : list (str * str)) (s : srv) :
  forM parts (fun se => if skipped sk (fst se) then ret tt else send_pieces (snd se) pieces) s =
  (s, sends_live (live s)
        (flat_map (fun se : str * str => if skipped sk (fst se) then [] else map (fun pc => (snd se, pc)) pieces) parts),
   Ok tt).
Proof.
  induction parts as [|se parts IH]; cbn [forM flat_map]; [reflexivity|].
  unfold bindM at 1. destruct (skipped sk (fst se)).
  - unfold ret at 1. rewrite IH. reflexivity.
  - rewrite send_pieces_run, IH, sends_live_app, sends_live_one. reflexivity.
Qed.

Theorem emit_plain c s ev data to room skip ns :
  step c s (ApiEmit ev data to room skip ns None) =
  (s, match emit_sends c s ev data (ns_or_default ns) (first_truthy to room) skip with
      | Ok l => sends_live (live s) l
      | Err x => [Raised x]
      end).
Proof.
  unfold step. cbn [step_m]. unfold api, api_emit, mgr_emit, emit_sends.
  unfold bindM at 1. unfold getS at 1.
  destruct (ns_rooms (mg s) (ns_or_default ns)); [|reflexivity].
  unfold bindM at 1. unfold lift at 1.
  destruct (ctor (uses_binary c) EVENT (PList (ev :: pack data)) (Some (ns_or_default ns)) None None) as [p|x];
    [|reflexivity].
  cbn [bind]. unfold bindM at 1. unfold lift at 1.
  destruct (encode_pieces c p) as [pieces|x]; [|reflexivity].
  cbn [bind]. unfold bindM at 1. unfold lift at 1.
  destruct (participants (mg s) (ns_or_default ns) (first_truthy to room)) as [parts|x]; [|reflexivity].
  cbn [bind]. rewrite forM_sends. rewrite !app_nil_l. reflexivity.
Qed.

Lemma sends_until_zero lv l : sends_until lv 0 l = (sends_live lv l, None).
Proof.
  induction l as [|x l IH]; cbn [sends_until]; [reflexivity|].
  unfold sends_live. cbn [flat_map]. fold (sends_live lv l).
  destruct (is_live lv (fst x)); [|exact IH]. cbn [pred]. rewrite IH. reflexivity.
Qed.

(* the nested operation never runs: the new operation is the old one *)
Theorem nested_never c s ev data to room skip ns inner :
  nstep c s (NEmit ev data to room skip ns 0 inner) = step c s (ApiEmit ev data to room skip ns None).
Proof.
  rewrite emit_plain. unfold nstep, nstep3, emit_nested.
  destruct (emit_sends c s ev data (ns_or_default ns) (first_truthy to room) skip) as [l|x]; [|reflexivity].
  rewrite sends_until_zero. unfold seg_flat. cbn [fst snd]. rewrite !app_nil_r. reflexivity.
Qed.

(** * 2. Plain histories: the new evaluator is the old one *)

Definition plain_obs (obs : list (list eff)) : list seg := map (fun e => (e, [], [])) obs.

Lemma effs_eqb_nil : effs_eqb [] [] = true.
Proof. reflexivity. Qed.

Lemma ncorr_steps_plain c : forall ops s obs,
  ncorr_steps c s (map NPlain ops) (plain_obs obs) = corr_steps c s ops obs.
Proof.
  induction ops as [|o ops IH]; intros s [|e obs]; cbn [map plain_obs ncorr_steps corr_steps]; try reflexivity.
  unfold nstep3. destruct (step c s o) as [s1 me]. fold (plain_obs obs). rewrite IH.
  destruct (corr_steps c s1 ops obs) as [b sf]. unfold seg_eqb. cbn [fst snd]. rewrite effs_eqb_nil, !andb_true_r.
  reflexivity.
Qed.

Theorem plain_corr c ops obs fin :
  ncorr_ok (mkN c (map NPlain ops) (plain_obs obs) fin) = corr_ok (mkH c ops obs fin).
Proof. unfold ncorr_ok, corr_ok. cbn [n_cfg n_ops n_obs n_final h_cfg h_ops h_obs h_final]. rewrite ncorr_steps_plain. reflexivity. Qed.

Lemma nall_steps_plain c : forall ops s obs,
  nall_steps c s (map NPlain ops) (plain_obs obs) = all_steps (c12_step c) c s ops obs.
Proof.
  induction ops as [|o ops IH]; intros s [|e obs]; cbn [map plain_obs nall_steps all_steps]; try reflexivity.
  fold (plain_obs obs). cbn [fst]. unfold nstep3 at 1. destruct (step c s o) as [s1 me] eqn:Hs. cbn [fst].
  rewrite IH. replace (fst (step c s o)) with s1 by (rewrite Hs; reflexivity). reflexivity.
Qed.

Theorem plain_eval c ops obs fin :
  c12x_eval (mkN c (map NPlain ops) (plain_obs obs) fin) = c12_eval (mkH c ops obs fin).
Proof.
  unfold c12x_eval, c12_eval. rewrite plain_corr. cbn [n_cfg n_ops n_obs h_cfg h_ops h_obs].
  rewrite nall_steps_plain. reflexivity.
Qed.

(** * 3. Packets never change which transports are alive *)

Section Live.
  Variable lv : list str.
  Let JL (s : srv) : Prop := live s = lv.
  Let P {A} (m : SM A) : Prop := pres JL anyeff m.

  Lemma live_set_mg f : P (set_mg f).
  Proof. apply pres_set_mg. intros s H. exact H. Qed.
  Lemma live_with_mg {A} (f : mgr -> mgr * A) : P (with_mg f).
  Proof. apply pres_with_mg. intros s H. exact H. Qed.
  Lemma live_set_session e d : P (set_session e d).
  Proof. apply pres_modify. intros s H. exact H. Qed.
  Lemma live_set_binpkt f : P (set_binpkt f).
  Proof. apply pres_modify. intros s H. exact H. Qed.
  Lemma live_send_packet c eio t data ns id : P (send_packet c eio t data ns id).
  Proof. apply send_packet_any. Qed.
  Lemma live_emit c ev data to room skip ns : P (api_emit c ev data to room skip ns None).
  Proof. unfold api_emit. apply mgr_emit_nocb_pres. intros; exact I. Qed.

  Lemma live_get_session sid ns : P (api_get_session sid ns).
  Proof.
    unfold api_get_session. apply pres_bind; [apply pres_getS|]. intros s0.
    apply pres_bind; [apply pres_lift|]. intros d.
    destruct (aget str_eqb d (ns_or_default ns)); [apply pres_ret|].
    destruct (eio_from_sid (mg s0) sid (ns_or_default ns)); [|apply pres_ret].
    apply pres_bind; [apply live_set_session|]. intros _. apply pres_ret.
  Qed.
  Lemma live_save_session sid v ns : P (api_save_session sid v ns).
  Proof.
    unfold api_save_session. apply pres_bind; [apply pres_getS|]. intros s0.
    apply pres_bind; [apply pres_lift|]. intros d.
    destruct (eio_from_sid (mg s0) sid (ns_or_default ns)); [apply live_set_session|apply pres_ret].
  Qed.

  Lemma live_run_action c ns sid a : P (run_action c ns sid a).
  Proof.
    destruct a; cbn [run_action].
    - apply pres_bind; [apply live_with_mg|]. intros r. apply pres_lift.
    - apply live_set_mg.
    - apply live_emit.
    - apply live_emit.
    - apply live_save_session.
    - apply pres_bind; [apply live_get_session|]. intros v. apply pres_tell. exact I.
  Qed.

  Lemma live_call_handler c hid ns sid args : P (call_handler c hid ns sid args).
  Proof.
    unfold call_handler. destruct (aget N.eqb (behav c) hid) as [b|]; [|apply pres_raise].
    destruct (match h_arity b with Some n => negb (Nat.eqb n (List.length args)) | None => false end);
      [apply pres_raise|].
    apply pres_bind; [apply pres_tell; exact I|]. intros _.
    apply pres_bind; [apply pres_forM; intros a _; apply live_run_action|]. intros _.
    destruct (h_outcome b); [apply pres_ret|apply pres_raise|apply pres_raise].
  Qed.
  Lemma live_call_with_retry c ev hid ns sid args : P (call_with_retry c ev hid ns sid args).
  Proof.
    unfold call_with_retry. apply pres_catch; [apply live_call_handler|].
    intros x k Hx. destruct x; try discriminate. destruct (is_disconnect ev); [|discriminate].
    injection Hx as <-. apply live_call_handler.
  Qed.
  Lemma live_trigger_event c ev ns args : P (trigger_event c ev ns args).
  Proof.
    unfold trigger_event. destruct (is_unhashable ev && _); [apply pres_raise|].
    destruct (get_event_handler c ev ns args) as [[h args']|].
    - apply pres_bind; [apply live_call_with_retry|]. intros v. apply pres_ret.
    - destruct (get_namespace_handler c ns args) as [[methods args']|]; [|apply pres_ret].
      destruct ev; try (destruct (truthy _); [apply pres_raise|apply pres_ret]).
      destruct (aget str_eqb methods s) as [h|]; [|apply pres_ret].
      apply pres_bind; [apply live_call_with_retry|]. intros v. apply pres_ret.
  Qed.

  Lemma live_handle_event c eio pns id data : P (handle_event c eio pns id data).
  Proof.
    unfold handle_event. apply pres_bind; [apply pres_getS|]. intros s0.
    apply pres_bind; [apply pres_lift|]. intros ea.
    destruct (negb _); [apply pres_ret|].
    destruct (sid_from_eio (mg s0) eio (ns_or_default pns)) as [sid|]; [|apply pres_ret].
    apply pres_bind; [apply live_trigger_event|]. intros r.
    destruct r as [v|]; [|apply pres_ret]. destruct id as [i|]; [|apply pres_ret]. apply live_send_packet.
  Qed.
  Lemma live_handle_ack c eio pns id data : P (handle_ack c eio pns id data).
  Proof.
    unfold handle_ack. apply pres_bind; [apply pres_getS|]. intros s0.
    apply pres_bind; [apply live_with_mg|]. intros t.
    destruct t; [apply pres_ret|]. apply pres_bind; [apply pres_lift|]. intros args. apply pres_tell. exact I.
  Qed.
  Lemma live_handle_disconnect c eio pns reason : P (handle_disconnect c eio pns reason).
  Proof.
    unfold handle_disconnect. apply pres_bind; [apply pres_getS|]. intros s0.
    destruct (negb _); [apply pres_ret|].
    destruct (sid_from_eio (mg s0) eio (ns_or_default pns)) as [sid|]; [|apply pres_ret].
    apply pres_bind; [apply live_with_mg|]. intros r.
    apply pres_bind; [apply pres_lift|]. intros _.
    apply pres_finally; [|apply live_set_mg].
    apply pres_bind; [apply live_trigger_event|]. intros _. apply pres_ret.
  Qed.

  Lemma live_handle_connect c eio pns data : P (handle_connect c eio pns data).
  Proof.
    unfold handle_connect. apply pres_getS_bind. intros s Hs.
    apply (pres_bind JL anyeff); [| |exact Hs].
    - destruct (served c (ns_or_default pns)); [|apply pres_ret].
      apply pres_bind; [apply pres_putS; exact Hs|]. intros _. apply live_with_mg.
    - intros osid. destruct osid as [sid|]; [|apply live_send_packet].
      apply pres_bind; [destruct (always_connect c); [apply live_send_packet|apply pres_ret]|]. intros _.
      apply pres_bind; [destruct (aget str_eqb (environ s) eio); [apply pres_ret|apply pres_raise]|]. intros env.
      apply pres_bind.
      + apply pres_catch.
        * apply pres_bind; [|intros r; apply pres_ret].
          destruct (truthy data); [apply live_trigger_event|].
          apply pres_catch; [apply live_trigger_event|].
          intros x k Hx. destruct x; try discriminate. injection Hx as <-. apply live_trigger_event.
        * intros x k Hx. destruct x; try discriminate. injection Hx as <-. apply pres_ret.
      + intros [success fail_reason].
        destruct (match success with Some v => pv_eqb v (PBool false) | None => false end).
        * apply pres_finally; [|apply live_set_mg].
          destruct (always_connect c); [|apply live_send_packet].
          apply pres_bind; [apply live_with_mg|]. intros r.
          apply pres_bind; [apply pres_lift|]. intros _. apply live_send_packet.
        * destruct (always_connect c); [apply pres_ret|apply live_send_packet].
  Qed.

  Lemma live_handle_eio_message c loads eio payload : P (handle_eio_message c loads eio payload).
  Proof.
    unfold handle_eio_message. apply pres_bind; [apply pres_getS|]. intros s0.
    destruct (aget str_eqb (binpkt s0) eio) as [r|].
    - destruct (add_attachment r payload) as [[r' [|]]|x].
      + apply pres_bind; [apply live_set_binpkt|]. intros _.
        destruct (type_is (rp r') BINARY_EVENT); [apply live_handle_event|apply live_handle_ack].
      + apply live_set_binpkt.
      + apply pres_bind; [destruct (N.leb _ _); [apply pres_ret|apply live_set_binpkt]|]. intros _. apply pres_raise.
    - apply pres_bind; [apply pres_lift|]. intros r.
      destruct (type_is (rp r) CONNECT); [apply live_handle_connect|].
      destruct (type_is (rp r) DISCONNECT); [apply live_handle_disconnect|].
      destruct (type_is (rp r) EVENT); [apply live_handle_event|].
      destruct (type_is (rp r) ACK); [apply live_handle_ack|].
      destruct (type_is (rp r) BINARY_EVENT || type_is (rp r) BINARY_ACK); [apply live_set_binpkt|apply pres_raise].
  Qed.
End Live.

Theorem step_message_live c s e payload tbl : live (fst (step c s (EioMessage e payload tbl))) = live s.
Proof.
  apply (hp_step c s (EioMessage e payload tbl) (fun s' _ => live s' = live s)).
  cbn [step_m]. apply hp_getS_bind. destruct (existsb (str_eqb e) (live s)); [|apply hp_ret; reflexivity].
  apply hp_contain. eapply hp_conseq; [apply (live_handle_eio_message (live s)); reflexivity|].
  intros r s' es [H _]. exact H.
Qed.

(** * 4. The model's re-entrant broadcast passes the checker applied to the implementation *)

Lemma outs_of_app e a b : outs_of e (a ++ b) = outs_of e a ++ outs_of e b.
Proof. unfold outs_of. apply flat_map_app. Qed.

Lemma is_live_eq lv a b : str_eqb a b = true -> is_live lv a = is_live lv b.
Proof. intros H. apply str_eqb_eq in H. subst. reflexivity. Qed.

Lemma outs_of_sends_live lv e l : outs_of e (sends_live lv l) = if is_live lv e then sends_to e l else [].
Proof.
  induction l as [|x l IH].
  - cbn. destruct (is_live lv e); reflexivity.
  - unfold sends_live, sends_to. cbn [flat_map]. fold (sends_live lv l). fold (sends_to e l).
    rewrite outs_of_app, IH.
    destruct (str_eqb (fst x) e) eqn:Hx.
    + rewrite (is_live_eq lv _ _ Hx). destruct (is_live lv e); cbn [outs_of flat_map]; [rewrite Hx|]; reflexivity.
    + destruct (is_live lv (fst x)); cbn [outs_of flat_map]; [rewrite Hx|]; destruct (is_live lv e); reflexivity.
Qed.

Lemma is_out_sends_live lv l : forallb is_out (sends_live lv l) = true.
Proof.
  apply forallb_forall. intros x Hx. unfold sends_live in Hx. apply in_flat_map in Hx as (y & _ & Hy).
  destruct (is_live lv (fst y)); [|contradiction]. destruct Hy as [<-|[]]. reflexivity.
Qed.

Lemma sends_until_none lv : forall l k pre, sends_until lv k l = (pre, None) -> pre = sends_live lv l.
Proof.
  induction l as [|x l IH]; intros k pre H; cbn [sends_until] in H.
  - injection H as <-. reflexivity.
  - unfold sends_live. cbn [flat_map]. fold (sends_live lv l).
    destruct (is_live lv (fst x)).
    + destruct k as [|[|k']]; [| discriminate |].
      * cbn [pred] in H. destruct (sends_until lv 0 l) as [es rest] eqn:Hr. injection H as <- ->.
        rewrite (IH _ _ Hr). reflexivity.
      * cbn [pred] in H. destruct (sends_until lv (S k') l) as [es rest] eqn:Hr. injection H as <- ->.
        rewrite (IH _ _ Hr). reflexivity.
    + cbn [app]. eauto.
Qed.

Lemma sends_until_some lv : forall l k pre rest,
  sends_until lv k l = (pre, Some rest) -> pre ++ sends_live lv rest = sends_live lv l.
Proof.
  induction l as [|x l IH]; intros k pre rest H; cbn [sends_until] in H; [discriminate|].
  unfold sends_live at 2. cbn [flat_map]. fold (sends_live lv l).
  destruct (is_live lv (fst x)).
  - destruct k as [|[|k']].
    + cbn [pred] in H. destruct (sends_until lv 0 l) as [es r0] eqn:Hr. injection H as <- ->.
      cbn [app]. rewrite (IH _ _ _ Hr). reflexivity.
    + injection H as <- <-. reflexivity.
    + cbn [pred] in H. destruct (sends_until lv (S k') l) as [es r0] eqn:Hr. injection H as <- ->.
      cbn [app]. rewrite (IH _ _ _ Hr). reflexivity.
  - cbn [app]. eauto.
Qed.

Lemma is_prefix_nil b : is_prefix [] b = true.
Proof. destruct b; reflexivity. Qed.
Lemma is_prefix_app a b : is_prefix a (a ++ b) = true.
Proof. induction a as [|x a IH]; cbn [is_prefix app]; [reflexivity|]. rewrite pv_eqb_refl, IH. reflexivity. Qed.
Lemma is_prefix_refl a : is_prefix a a = true.
Proof. rewrite <- (app_nil_r a) at 2. apply is_prefix_app. Qed.

(* a transport whose liveness the nested operation did not change is served exactly once *)
Lemma outer_once lv lv1 k l pre rest e :
  sends_until lv k l = (pre, Some rest) -> is_live lv1 e = is_live lv e ->
  outs_of e (pre ++ sends_live lv1 rest) = if is_live lv e then sends_to e l else [].
Proof.
  intros Hu Hl. rewrite <- (outs_of_sends_live lv e l), <- (sends_until_some _ _ _ _ _ Hu).
  rewrite !outs_of_app, !outs_of_sends_live, Hl. reflexivity.
Qed.
(* a transport the nested operation may have closed: at most once *)
Lemma outer_prefix lv lv1 k l pre rest e :
  sends_until lv k l = (pre, Some rest) -> is_live lv1 e = is_live lv e \/ is_live lv1 e = false ->
  is_prefix (outs_of e (pre ++ sends_live lv1 rest)) (sends_to e l) = true.
Proof.
  intros Hu [Hl|Hl].
  - rewrite (outer_once _ _ _ _ _ _ _ Hu Hl). destruct (is_live lv e); [apply is_prefix_refl|apply is_prefix_nil].
  - assert (H := outs_of_sends_live lv e l). rewrite <- (sends_until_some _ _ _ _ _ Hu), outs_of_app in H.
    rewrite outs_of_app, outs_of_sends_live, Hl, app_nil_r.
    destruct (is_live lv e).
    + rewrite <- H. apply is_prefix_app.
    + apply app_eq_nil in H as [-> _]. apply is_prefix_nil.
Qed.

Lemma str_eqb_sym a b : str_eqb a b = str_eqb b a.
Proof.
  destruct (str_eqb a b) eqn:H1, (str_eqb b a) eqn:H2; try reflexivity.
  - apply str_eqb_eq in H1. subst. rewrite str_eqb_refl in H2. discriminate.
  - apply str_eqb_eq in H2. subst. rewrite str_eqb_refl in H1. discriminate.
Qed.
Lemma is_live_drop e lv x : str_eqb e x = false -> is_live (drop_live e lv) x = is_live lv x.
Proof.
  intros Hne. unfold is_live, drop_live. induction lv as [|y lv IH]; cbn [filter existsb]; [reflexivity|].
  destruct (str_eqb y e) eqn:Hy; cbn [negb existsb].
  - rewrite IH. apply str_eqb_eq in Hy. subst y. rewrite str_eqb_sym, Hne. reflexivity.
  - rewrite IH. reflexivity.
Qed.
Lemma is_live_drop_self e lv : is_live (drop_live e lv) e = false.
Proof.
  unfold is_live, drop_live. induction lv as [|y lv IH]; cbn [filter existsb]; [reflexivity|].
  destruct (str_eqb y e) eqn:Hy; cbn [negb existsb]; [exact IH|]. rewrite IH, str_eqb_sym, Hy. reflexivity.
Qed.

(* the nested operation is a packet of transport e or the loss of that transport *)
Definition offender_op (c : cfg) (s : srv) (e : str) (inner : op) : Prop :=
  match inner with
  | EioMessage e' payload tbl => e' = e /\ benign_event_name c s e payload (table_loads tbl)
  | EioClose e' _ => e' = e
  | _ => False
  end.

Lemma offender_live c s e inner :
  has_actions c = false -> Inv s -> offender_op c s e inner ->
  op_eio inner = Some e /\
  (forall x, str_eqb e x = false -> is_live (live (fst (step c s inner))) x = is_live (live s) x) /\
  (is_live (live (fst (step c s inner))) e = is_live (live s) e \/ is_live (live (fst (step c s inner))) e = false) /\
  c12_step c s inner (snd (step c s inner)) = true.
Proof.
  intros Hna HI Hoff. destruct inner; cbn [offender_op] in Hoff; try contradiction.
  - destruct Hoff as [-> Hben]. rewrite step_message_live. repeat split; auto.
    apply C12_frame_local_lemma; auto.
  - subst eio. split; [reflexivity|].
    destruct (in_dec (list_eq_dec N.eq_dec) e (live s)) as [Hin|Hnin].
    + rewrite (cp_live _ _ _ (step_close_spec c s e reason (cfg_ok_noact c Hna) HI Hin)).
      split; [intros x Hx; apply is_live_drop; exact Hx|]. split; [right; apply is_live_drop_self|reflexivity].
    + rewrite (step_close_dead c s e reason Hnin). cbn [fst]. auto.
Qed.

Theorem nested_broadcast_ok c s ev data to room skip ns k e inner :
  has_actions c = false -> Inv s -> offender_op c s e inner ->
  c12_nested_step c s ev data to room skip ns inner
                  (snd (nstep3 c s (NEmit ev data to room skip ns k inner))) = true.
Proof.
  intros Hna HI Hoff. destruct (offender_live c s e inner Hna HI Hoff) as (Hop & Hoth & Hself & Hstep).
  cbn [nstep3]. unfold emit_nested, c12_nested_step.
  destruct (emit_sends c s ev data (ns_or_default ns) (first_truthy to room) skip) as [l|x] eqn:Hs.
  2:{ reflexivity. }
  destruct (sends_until (live s) k l) as [pre [rest|]] eqn:Hu.
  - destruct (step c s inner) as [s1 ie] eqn:Hst. cbn [snd fst] in *. rewrite Hop.
    repeat (apply andb_true_iff; split).
    + rewrite forallb_app, is_out_sends_live, andb_true_r.
      assert (H := is_out_sends_live (live s) l). rewrite <- (sends_until_some _ _ _ _ _ Hu), forallb_app in H.
      apply andb_true_iff in H as [H _]. exact H.
    + apply forallb_forall. intros x _. destruct (str_eqb e x) eqn:Hx; [reflexivity|]. cbn [orb].
      rewrite (outer_once _ _ _ _ _ _ _ Hu (Hoth x Hx)). apply list_eqb_refl, pv_eqb_refl.
    + apply (outer_prefix _ _ _ _ _ _ _ Hu Hself).
    + exact Hstep.
  - cbn [snd fst]. rewrite Hop, app_nil_r. apply sends_until_none in Hu. subst pre.
    repeat (apply andb_true_iff; split).
    + apply is_out_sends_live.
    + apply forallb_forall. intros x _. destruct (str_eqb e x); [reflexivity|]. cbn [orb].
      rewrite outs_of_sends_live. apply list_eqb_refl, pv_eqb_refl.
    + rewrite outs_of_sends_live. destruct (is_live (live s) e); [apply is_prefix_refl|apply is_prefix_nil].
    + (* the nested operation never ran: nothing observed for it *)
      destruct inner; cbn [offender_op] in Hoff; try contradiction; [|reflexivity].
      destruct Hoff as [-> Hben]. clear Hstep.
      destruct (step_message_local c s e payload tbl Hna HI Hben) as [Hos _].
      unfold c12_step. destruct (negb (existsb (str_eqb e) (live s))); [reflexivity|].
      rewrite Hna. cbn [orb out_eios calls_of cbcalls_of flat_map forallb andb].
      rewrite (osame_others_unchanged _ _ _ Hos). cbn [andb].
      destruct (classify c s e payload tbl) as [[r|x]|]; reflexivity.
Qed.

(** * Non-vacuity: the state of Isolation.v (offender E1 = S0, bystander E2 = S1 with rooms, a
      callback, a session and a half-received packet); a broadcast to the namespace during which,
      from inside the first send, the offender's DISCONNECT (whose handler raises) is processed *)
Definition x_nested : nop := NEmit (PStr (s2l "news")) (PInt 1) PNone PNone PNone None 1 x_frame_disc.
Definition x_news : pv := PStr (s2l "2[""news"",1]").

Example x_nested_segments :
  snd (nstep3 x_cfg x_state x_nested) =
    ([Out x_e1 x_news], [Call 3 [PStr (sid_name 0); PStr (s2l "client disconnect")]], [Out x_e2 x_news]) /\
  sids_of_eio (mg (fst (nstep3 x_cfg x_state x_nested))) x_e1 = [].
Proof. split; vm_compute; reflexivity. Qed.

Example x_nested_ok :
  c12_nested_step x_cfg x_state (PStr (s2l "news")) (PInt 1) PNone PNone PNone None x_frame_disc
                  (snd (nstep3 x_cfg x_state x_nested)) = true.
Proof.
  apply (nested_broadcast_ok x_cfg x_state _ _ _ _ _ _ 1%nat x_e1 x_frame_disc); [reflexivity|apply x_state_Inv|].
  split; [reflexivity|].
  unfold benign_event_name. replace (aget str_eqb (binpkt x_state) x_e1) with (@None rpacket) by (vm_compute; reflexivity).
  intros r Hr. vm_compute in Hr. injection Hr as <-. intros ev rest Hs. vm_compute in Hs. discriminate.
Qed.

(* what the checker rejects: the broadcast fails once the room has changed under it and the
   bystander is never served / the bystander is served twice *)
Example x_nested_rejected :
  c12_nested_step x_cfg x_state (PStr (s2l "news")) (PInt 1) PNone PNone PNone None x_frame_disc
                  ([Out x_e1 x_news], [Call 3 [PStr (sid_name 0); PStr (s2l "client disconnect")]], [Raised RuntimeError]) = false /\
  c12_nested_step x_cfg x_state (PStr (s2l "news")) (PInt 1) PNone PNone PNone None x_frame_disc
                  ([Out x_e1 x_news], [Call 3 [PStr (sid_name 0); PStr (s2l "client disconnect")]], []) = false /\
  c12_nested_step x_cfg x_state (PStr (s2l "news")) (PInt 1) PNone PNone PNone None x_frame_disc
                  ([Out x_e1 x_news; Out x_e2 x_news], [Call 3 [PStr (sid_name 0); PStr (s2l "client disconnect")]], [Out x_e2 x_news]) = false.
Proof. repeat split; vm_compute; reflexivity. Qed.

(** * 5. Whole histories with re-entrant broadcasts *)

Fixpoint nobs (c : cfg) (s : srv) (ops : list nop) : list seg :=
  match ops with
  | [] => []
  | o :: r => snd (nstep3 c s o) :: nobs c (fst (nstep3 c s o)) r
  end.

(* plain operations as in C12_run (op_ok, benign event names); the nested operation of a re-entrant
   broadcast is a packet of some transport (benign) or the loss of that transport *)
Fixpoint nbenign_ops (c : cfg) (s : srv) (ops : list nop) : Prop :=
  match ops with
  | [] => True
  | o :: r =>
      match o with
      | NPlain o' => op_ok o' /\ match o' with
                                 | EioMessage e p t => benign_event_name c s e p (table_loads t)
                                 | _ => True end
      | NEmit _ _ _ _ _ _ _ inner => exists e, offender_op c s e inner
      end /\ nbenign_ops c (fst (nstep3 c s o)) r
  end.

Lemma offender_op_ok c s e inner : offender_op c s e inner -> op_ok inner.
Proof. destruct inner; cbn [offender_op op_ok]; intros H; try contradiction; exact I. Qed.

Lemma nstep3_Inv c s o :
  cfg_ok c -> Inv s ->
  match o with NPlain o' => op_ok o' | NEmit _ _ _ _ _ _ _ inner => op_ok inner end ->
  Inv (fst (nstep3 c s o)).
Proof.
  intros Hc HI Hok. destruct o as [o'|ev data to room skip ns k inner]; cbn [nstep3].
  - destruct (step c s o') as [s1 e1] eqn:Hs. cbn [fst]. replace s1 with (fst (step c s o')) by (rewrite Hs; reflexivity).
    apply step_Inv; auto.
  - unfold emit_nested.
    destruct (emit_sends c s ev data (ns_or_default ns) (first_truthy to room) skip) as [l|x]; [|exact HI].
    destruct (sends_until (live s) k l) as [pre [rest|]]; [|exact HI].
    destruct (step c s inner) as [s1 ie] eqn:Hs. cbn [fst]. replace s1 with (fst (step c s inner)) by (rewrite Hs; reflexivity).
    apply step_Inv; auto.
Qed.

Theorem nested_run_ok c ops :
  has_actions c = false -> nbenign_ops c srv_init ops ->
  nall_steps c srv_init ops (nobs c srv_init ops) = true.
Proof.
  intros Hna. assert (Hc := cfg_ok_noact c Hna).
  assert (G : forall s, Inv s -> nbenign_ops c s ops -> nall_steps c s ops (nobs c s ops) = true).
  { induction ops as [|o ops IH]; intros s HI Hb; [reflexivity|].
    cbn [nobs nall_steps]. destruct Hb as [Hb1 Hb2].
    rewrite IH; [rewrite andb_true_r| |exact Hb2].
    - destruct o as [o'|ev data to room skip ns k inner].
      + destruct Hb1 as [Hok Hben]. cbn [nstep3]. destruct (step c s o') as [s1 e1] eqn:Hs. cbn [snd fst].
        replace e1 with (snd (step c s o')) by (rewrite Hs; reflexivity).
        destruct o'; try reflexivity. apply C12_frame_local_lemma; auto.
      + destruct Hb1 as [e Hoff]. apply (nested_broadcast_ok c s ev data to room skip ns k e inner); auto.
    - apply nstep3_Inv; auto. destruct o as [o'|ev data to room skip ns k inner].
      + exact (proj1 Hb1).
      + destruct Hb1 as [e Hoff]. exact (offender_op_ok c s e inner Hoff). }
  intros Hb. apply G; [apply Inv_init|auto].
Qed.
