(* Model of src/socketio/base_server.py + server.py (= async_server.py with inline
   handlers) on top of Packet.v and Manager.v, including the slice of engine.io the
   server relies on (socket liveness, per-socket session dict, exception containment).
   Definitions only. *)
From VT Require Export Base.StateM Codec.Packet Manager.Manager.
Open Scope N_scope.

(* ---- configuration: registries and scripted application handlers ---- *)
Inductive outcome := Returns (v : pv) | RaisesRefused (args : list pv) | Raises (e : exn).
Inductive action :=
| AEnter (room : pv) | ALeave (room : pv)
| AEmitSelf (event : str) (data : pv)
| AEmitRoom (event : str) (data : pv) (room : pv) (skip_self : bool)
| ASave (v : pv) | AGet.
Record hbehav := mkBehav { h_arity : option nat; h_actions : list action; h_outcome : outcome }.

Record cfg := mkCfg {
  handlers : list (str * list (str * N));        (* namespace -> event -> handler id *)
  ns_handlers : list (str * list (str * N));     (* class-based namespaces: namespace -> on_<event> -> handler id *)
  behav : list (N * hbehav);
  namespaces : option (list str);                (* None = '*' *)
  always_connect : bool;
  uses_binary : bool                             (* packet_class.uses_binary_events *)
}.

Record srv := mkSrv {
  mg : mgr;
  environ : list (str * pv);
  binpkt : list (str * rpacket);
  sessions : list (str * list (str * pv));       (* engine.io socket.session: eio -> namespace -> user session *)
  live : list str;                               (* engine.io sockets that exist and are not closed *)
  fresh : N                                      (* next value of the id generator *)
}.
Definition srv_init : srv := mkSrv mgr_init [] [] [] [] 0.

Inductive eff :=
| Out (eio : str) (piece : pv)                   (* engine.io MESSAGE queued for a transport *)
| Call (hid : N) (args : list pv)                (* application handler invoked *)
| CbCall (cb : N) (args : list pv)               (* ack callback invoked *)
| Ret (v : pv) | Raised (e : exn).               (* result of an API operation *)

Definition SM := M srv eff.

Definition set_mg (f : mgr -> mgr) : SM unit :=
  modify (fun s => mkSrv (f (mg s)) (environ s) (binpkt s) (sessions s) (live s) (fresh s)).
Definition with_mg {A} (f : mgr -> mgr * A) : SM A :=
  s <~ getS ;; let '(m', a) := f (mg s) in
  putS (mkSrv m' (environ s) (binpkt s) (sessions s) (live s) (fresh s)) ;;; ret a.

Definition sid_name (n : N) : str := 83 :: str_of_N n.      (* "S<n>" *)
Definition slash : str := [47].
Definition ns_or_default (ns : option str) : str :=
  match ns with Some (c :: r) => c :: r | _ => slash end.

Definition r_client_disconnect := PStr (s2l "client disconnect").
Definition r_server_disconnect := PStr (s2l "server disconnect").

(* ---- sending ---- *)
Definition send_pieces (eio : str) (pieces : list pv) : SM unit :=
  s <~ getS ;;
  if existsb (str_eqb eio) (live s) then forM pieces (fun p => tell (Out eio p)) else ret tt.

Definition pieces_of (enc : str * option (list str)) : list pv :=
  PStr (fst enc) :: match snd enc with Some atts => map PBytes atts | None => [] end.

(* ---- msgpack serializer (msgpack_packet.py): the wire value is msgpack.dumps(pkt._to_dict());
   the msgpack library is an oracle in both directions, so frames are compared as the dict ---- *)
Fixpoint mp_norm (v : pv) : pv :=               (* what msgpack.loads(msgpack.dumps(v)) returns: tuples come back as lists *)
  match v with
  | PTuple l | PList l => PList ((fix go (l : list pv) : list pv := match l with [] => [] | x :: r => mp_norm x :: go r end) l)
  | PDict kv => PDict ((fix go (kv : list (pv * pv)) : list (pv * pv) :=
                          match kv with [] => [] | (k, x) :: r => (k, mp_norm x) :: go r end) kv)
  | x => x
  end.
Definition to_dict (p : packet) : pv :=
  PDict ([(PStr (s2l "type"), ptype p); (PStr (s2l "data"), mp_norm (pdata p));
          (PStr (s2l "nsp"), match pns p with Some n => PStr n | None => PNone end)]
         ++ match pid p with Some i => [(PStr (s2l "id"), PInt i)] | None => [] end).
Definition encode_pieces (c : cfg) (p : packet) : Res (list pv) :=
  if uses_binary c then enc <- encode p ;; Ok (pieces_of enc) else Ok [to_dict p].

(* MsgPackPacket.decode on the value msgpack.loads returned (oracle) *)
Definition decode_msgpack (loads : str -> Res pv) (payload : pv) : Res rpacket :=
  if negb (truthy payload) then Ok (mkR default_packet 0 []) else
  d <- loads (match payload with PBytes b | PStr b => b | _ => [] end) ;;
  match d with
  | PDict kv =>
      match dict_get kv (PStr (s2l "type")) with
      | None => Err KeyError
      | Some t =>
          let data := match dict_get kv (PStr (s2l "data")) with Some x => x | None => PNone end in
          match dict_get kv (PStr (s2l "nsp")) with
          | None => Err KeyError
          | Some nsv =>
              match (match nsv with PStr n => Some (Some n) | PNone => Some None | _ => None end),
                    (match dict_get kv (PStr (s2l "id")) with
                     | None | Some PNone => Some None
                     | Some (PInt i) => Some (Some i)
                     | Some _ => None end) with
              | Some ns, Some id => Ok (mkR (mkPacket t ns id data) 0 [])
              | _, _ => Err OtherError        (* mistyped header fields: outside the modelled domain *)
              end
          end
      end
  | _ => Err TypeError
  end.
Definition decode_any (c : cfg) (loads : str -> Res pv) (payload : pv) : Res rpacket :=
  if uses_binary c then decode loads payload else decode_msgpack loads payload.

Definition send_packet (c : cfg) (eio : option str) (t : Z) (data : pv) (ns : str) (id : option Z) : SM unit :=
  p <~ lift (ctor (uses_binary c) t data (Some ns) id None) ;;
  pieces <~ lift (encode_pieces c p) ;;
  match eio with
  | Some e => send_pieces e pieces
  | None => ret tt                                  (* eio.send(None, ..): unknown socket, dropped *)
  end.

(* ---- argument packing ---- *)
Definition pack (data : pv) : list pv :=
  match data with PTuple l => l | PNone => [] | x => [x] end.
Definition skip_list (skip : pv) : list pv := match skip with PList l => l | x => [x] end.
Definition skipped (skip : list pv) (sid : str) : bool := existsb (py_eq (PStr sid)) skip.
Definition first_truthy (a b : pv) : pv := if truthy a then a else b.

(* manager.emit *)
Definition mgr_emit (c : cfg) (event : pv) (data : pv) (ns : str) (room : pv) (skip : pv) (cb : option N) : SM unit :=
  s <~ getS ;;
  match ns_rooms (mg s) ns with
  | None => ret tt
  | Some _ =>
      let payload := PList (event :: pack data) in
      let sk := skip_list skip in
      match cb with
      | None =>
          p <~ lift (ctor (uses_binary c) EVENT payload (Some ns) None None) ;;
          pieces <~ lift (encode_pieces c p) ;;
          parts <~ lift (participants (mg s) ns room) ;;
          forM parts (fun se => if skipped sk (fst se) then ret tt else send_pieces (snd se) pieces)
      | Some cbref =>
          parts <~ lift (participants (mg s) ns room) ;;
          forM parts (fun se =>
            if skipped sk (fst se) then ret tt else
            r <~ with_mg (fun m => generate_ack_id m (fst se) cbref) ;;
            id <~ lift r ;;
            send_packet c (Some (snd se)) EVENT payload ns (Some (Z.of_N id)))
      end
  end.

(* server.emit *)
Definition api_emit (c : cfg) (event data to room skip : pv) (ns : option str) (cb : option N) : SM unit :=
  mgr_emit c event data (ns_or_default ns) (first_truthy to room) skip cb.

(* ---- sessions (engine.io socket.session) ---- *)
Definition eio_session (s : srv) (eio : option str) : Res (list (str * pv)) :=
  match eio with
  | Some e => if existsb (str_eqb e) (live s)
              then Ok (match aget str_eqb (sessions s) e with Some d => d | None => [] end)
              else Err KeyError
  | None => Err KeyError
  end.
Definition set_session (eio : str) (d : list (str * pv)) : SM unit :=
  modify (fun s => mkSrv (mg s) (environ s) (binpkt s) (aset str_eqb (sessions s) eio d) (live s) (fresh s)).
Definition api_get_session (sid : str) (ns : option str) : SM pv :=
  let n := ns_or_default ns in
  s <~ getS ;;
  let eio := eio_from_sid (mg s) sid n in
  d <~ lift (eio_session s eio) ;;
  match aget str_eqb d n, eio with
  | Some v, _ => ret v
  | None, Some e => set_session e (aset str_eqb d n (PDict [])) ;;; ret (PDict [])
  | None, None => ret (PDict [])
  end.
Definition api_save_session (sid : str) (v : pv) (ns : option str) : SM unit :=
  let n := ns_or_default ns in
  s <~ getS ;;
  let eio := eio_from_sid (mg s) sid n in
  d <~ lift (eio_session s eio) ;;
  match eio with Some e => set_session e (aset str_eqb d n v) | None => ret tt end.

(* ---- application handlers ---- *)
Definition arg_sid (args : list pv) : str := match args with PStr s :: _ => s | _ => [] end.

Definition run_action (c : cfg) (ns sid : str) (a : action) : SM unit :=
  match a with
  | AEnter room => r <~ with_mg (fun m => enter_room m sid ns room) ;; lift r
  | ALeave room => set_mg (fun m => leave_room m sid ns room)
  | AEmitSelf ev data => api_emit c (PStr ev) data (PStr sid) PNone PNone (Some ns) None
  | AEmitRoom ev data room skip_self =>
      api_emit c (PStr ev) data room PNone (if skip_self then PStr sid else PNone) (Some ns) None
  | ASave v => api_save_session sid v (Some ns)
  | AGet => v <~ api_get_session sid (Some ns) ;; tell (Ret v)
  end.

(* handler( *args ): arity mismatch raises TypeError before the body runs *)
Definition call_handler (c : cfg) (hid : N) (ns sid : str) (args : list pv) : SM pv :=
  match aget N.eqb (behav c) hid with
  | None => raise OtherError
  | Some b =>
      if match h_arity b with Some n => negb (Nat.eqb n (List.length args)) | None => false end
      then raise TypeError
      else
        tell (Call hid args) ;;;
        forM (h_actions b) (run_action c ns sid) ;;;
        match h_outcome b with
        | Returns v => ret v
        | RaisesRefused _ => raise ConnectionRefused
        | Raises e => raise e
        end
  end.

(* registry lookups with an arbitrary (JSON-decoded) event name *)
Definition is_unhashable (v : pv) : bool := match v with PList _ | PDict _ => true | _ => false end.
Definition ev_lookup (tbl : list (str * N)) (ev : pv) : option N :=
  match ev with PStr s => aget str_eqb tbl s | _ => None end.
Definition star : str := [42].
Definition reserved (ev : pv) : bool :=
  match ev with PStr s => str_eqb s (s2l "connect") || str_eqb s (s2l "disconnect") | _ => false end.

(* _get_event_handler: the six-level precedence, function handlers part *)
Definition get_event_handler (c : cfg) (ev : pv) (ns : str) (args : list pv) : option (N * list pv) :=
  let own := match aget str_eqb (handlers c) ns with
             | Some tbl =>
                 match ev_lookup tbl ev with
                 | Some h => Some (h, args)
                 | None => if reserved ev then None else
                           match aget str_eqb tbl star with Some h => Some (h, ev :: args) | None => None end
                 end
             | None => None end in
  match own with
  | Some r => Some r
  | None =>
      match aget str_eqb (handlers c) star with
      | Some tbl =>
          match ev_lookup tbl ev with
          | Some h => Some (h, PStr ns :: args)
          | None => if reserved ev then None else
                    match aget str_eqb tbl star with Some h => Some (h, ev :: PStr ns :: args) | None => None end
          end
      | None => None
      end
  end.
Definition get_namespace_handler (c : cfg) (ns : str) (args : list pv)
  : option (list (str * N) * list pv) :=
  match aget str_eqb (ns_handlers c) ns with
  | Some o => Some (o, args)
  | None => match aget str_eqb (ns_handlers c) star with
            | Some o => Some (o, PStr ns :: args)
            | None => None end
  end.

Definition is_disconnect (ev : pv) : bool := pv_eqb ev (PStr (s2l "disconnect")).

(* handler( *args ) with the legacy-disconnect TypeError retry *)
Definition call_with_retry (c : cfg) (ev : pv) (hid : N) (ns sid : str) (args : list pv) : SM pv :=
  catch (call_handler c hid ns sid args)
        (fun e => match e with
                  | TypeError => if is_disconnect ev
                                 then Some (call_handler c hid ns sid (removelast args)) else None
                  | _ => None end).

(* _trigger_event: None = not handled *)
Definition trigger_event (c : cfg) (ev : pv) (ns : str) (args : list pv) : SM (option pv) :=
  (* `event in self.handlers[...]` hashes the event name: only when such a table is consulted *)
  if is_unhashable ev && (ahas str_eqb (handlers c) ns || ahas str_eqb (handlers c) star) then raise TypeError else
  let sid := arg_sid args in
  match get_event_handler c ev ns args with
  | Some (h, args') => v <~ call_with_retry c ev h ns sid args' ;; ret (Some v)
  | None =>
      match get_namespace_handler c ns args with
      | Some (methods, args') =>
          (* Namespace.trigger_event: 'on_' + (event or '') *)
          match ev with
          | PStr s => match aget str_eqb methods s with
                      | Some h => v <~ call_with_retry c ev h ns sid args' ;; ret (Some v)
                      | None => ret (Some PNone)
                      end
          | _ => if truthy ev then raise TypeError else ret (Some PNone)
          end
      | None => ret None
      end
  end.

(* ConnectionRefusedError( *args ).error_args *)
Definition py_str (v : pv) : str :=
  match v with PStr s => s | PInt z => str_of_Z z | PNone => s2l "None"
             | PBool true => s2l "True" | PBool false => s2l "False" | _ => s2l "?" end.
Definition k_message := PStr (s2l "message").
Definition k_data := PStr (s2l "data").
Definition error_args (args : list pv) : pv :=
  match args with
  | [] => PDict [(k_message, PStr (s2l "Connection rejected by server"))]
  | [a] => PDict [(k_message, PStr (py_str a))]
  | [a; b] => PDict [(k_message, PStr (py_str a)); (k_data, b)]
  | a :: rest => PDict [(k_message, PStr (py_str a)); (k_data, PTuple rest)]
  end.
Definition refusal_args (c : cfg) (hid : option N) : list pv :=
  match hid with
  | Some h => match aget N.eqb (behav c) h with
              | Some b => match h_outcome b with RaisesRefused a => a | _ => [] end
              | None => [] end
  | None => []
  end.
(* which handler would serve ('connect', ns): needed to recover the refusal's arguments *)
Definition connect_hid (c : cfg) (ns : str) : option N :=
  let ev := PStr (s2l "connect") in
  match get_event_handler c ev ns [] with
  | Some (h, _) => Some h
  | None => match get_namespace_handler c ns [] with
            | Some (methods, _) => aget str_eqb methods (s2l "connect")
            | None => None end
  end.

Definition sid_dict (sid : str) : pv := PDict [(PStr (s2l "sid"), PStr sid)].
Definition served (c : cfg) (ns : str) : bool :=
  ahas str_eqb (handlers c) ns || ahas str_eqb (ns_handlers c) ns ||
  match namespaces c with None => true | Some l => existsb (str_eqb ns) l end.

(* _handle_connect *)
Definition handle_connect (c : cfg) (eio : str) (pns : option str) (data : pv) : SM unit :=
  let ns := ns_or_default pns in
  s <~ getS ;;
  osid <~ (if served c ns then
             let sid := sid_name (fresh s) in
             putS (mkSrv (mg s) (environ s) (binpkt s) (sessions s) (live s) (fresh s + 1)) ;;;
             with_mg (fun m => mgr_connect m eio ns sid)
           else ret None) ;;
  match osid with
  | None => send_packet c (Some eio) CONNECT_ERROR (PStr (s2l "Unable to connect")) ns None
  | Some sid =>
      (if always_connect c then send_packet c (Some eio) CONNECT (sid_dict sid) ns None else ret tt) ;;;
      env <~ (match aget str_eqb (environ s) eio with Some e => ret e | None => raise KeyError end) ;;
      let ev := PStr (s2l "connect") in
      res <~ catch
               (r <~ (if truthy data then trigger_event c ev ns [PStr sid; env; data]
                      else catch (trigger_event c ev ns [PStr sid; env])
                                 (fun e => match e with
                                           | TypeError => Some (trigger_event c ev ns [PStr sid; env; PNone])
                                           | _ => None end)) ;;
                ret (r, error_args []))
               (fun e => match e with
                         | ConnectionRefused =>
                             Some (ret (Some (PBool false), error_args (refusal_args c (connect_hid c ns))))
                         | _ => None end) ;;
      let '(success, fail_reason) := res in
      if match success with Some v => pv_eqb v (PBool false) | None => false end then
        finallyM
          (if always_connect c then
             r <~ with_mg (fun m => pre_disconnect m sid ns) ;; _ <~ lift r ;;
             send_packet c (Some eio) DISCONNECT fail_reason ns None
           else send_packet c (Some eio) CONNECT_ERROR fail_reason ns None)
          (set_mg (fun m => mgr_disconnect m sid ns))
      else if always_connect c then ret tt
      else send_packet c (Some eio) CONNECT (sid_dict sid) ns None
  end.

(* _handle_disconnect *)
Definition handle_disconnect (c : cfg) (eio : str) (pns : option str) (reason : pv) : SM unit :=
  let ns := ns_or_default pns in
  s <~ getS ;;
  let osid := sid_from_eio (mg s) eio ns in
  if negb (is_connected (mg s) osid ns) then ret tt else
  match osid with
  | None => ret tt
  | Some sid =>
      r <~ with_mg (fun m => pre_disconnect m sid ns) ;; _ <~ lift r ;;
      finallyM (_ <~ trigger_event c (PStr (s2l "disconnect")) ns
                      [PStr sid; if truthy reason then reason else r_client_disconnect] ;; ret tt)
               (set_mg (fun m => mgr_disconnect m sid ns))
  end.

(* data[0] and data[1:] on an arbitrary JSON value *)
Definition split_event (data : pv) : Res (pv * list pv) :=
  match data with
  | PList (x :: r) => Ok (x, r)
  | PList [] => Err IndexError
  | PStr (ch :: r) => Ok (PStr [ch], map (fun x => PStr [x]) r)
  | PStr [] => Err IndexError
  | PDict _ => Err KeyError
  | _ => Err TypeError
  end.

(* _handle_event + _handle_event_internal (handlers inline) *)
Definition handle_event (c : cfg) (eio : str) (pns : option str) (id : option Z) (data : pv) : SM unit :=
  let ns := ns_or_default pns in
  s <~ getS ;;
  let osid := sid_from_eio (mg s) eio ns in
  ea <~ lift (split_event data) ;;
  if negb (is_connected (mg s) osid ns) then ret tt else
  match osid with
  | None => ret tt
  | Some sid =>
      r <~ trigger_event c (fst ea) ns (PStr sid :: snd ea) ;;
      match r, id with
      | Some v, Some i => send_packet c (Some eio) ACK (PList (pack v)) ns (Some i)
      | _, _ => ret tt
      end
  end.

(* callback( *data ) for an arbitrary JSON value *)
Definition star_args (data : pv) : Res (list pv) :=
  match data with
  | PList l | PTuple l => Ok l
  | PStr s => Ok (map (fun x => PStr [x]) s)
  | PDict kv => Ok (map fst kv)
  | PBytes b => Ok (map (fun x => PInt (Z.of_N x)) b)
  | _ => Err TypeError
  end.

(* _handle_ack *)
Definition handle_ack (c : cfg) (eio : str) (pns : option str) (id : option Z) (data : pv) : SM unit :=
  let ns := ns_or_default pns in
  s <~ getS ;;
  let osid := sid_from_eio (mg s) eio ns in
  t <~ with_mg (fun m => trigger_callback m osid id) ;;
  match t with
  | CbNone => ret tt
  | CbRef cb => args <~ lift (star_args data) ;; tell (CbCall cb args)
  end.

Definition set_binpkt (f : list (str * rpacket) -> list (str * rpacket)) : SM unit :=
  modify (fun s => mkSrv (mg s) (environ s) (f (binpkt s)) (sessions s) (live s) (fresh s)).

Definition type_is (p : packet) (t : Z) : bool := py_eq (ptype p) (PInt t).

(* _handle_eio_message *)
Definition handle_eio_message (c : cfg) (loads : str -> Res pv) (eio : str) (payload : pv) : SM unit :=
  s <~ getS ;;
  match aget str_eqb (binpkt s) eio with
  | Some r =>
      match add_attachment r payload with
      | Ok (r', true) =>
          set_binpkt (fun b => adel str_eqb b eio) ;;;
          if type_is (rp r') BINARY_EVENT
          then handle_event c eio (pns (rp r')) (pid (rp r')) (pdata (rp r'))
          else handle_ack c eio (pns (rp r')) (pid (rp r')) (pdata (rp r'))
      | Ok (r', false) => set_binpkt (fun b => aset str_eqb b eio r')
      | Err e =>
          (* the attachment was appended before reconstruction failed *)
          (if N.leb (rcount r) (N.of_nat (List.length (ratts r))) then ret tt
           else set_binpkt (fun b => aset str_eqb b eio (mkR (rp r) (rcount r) (ratts r ++ [payload])))) ;;;
          raise e
      end
  | None =>
      r <~ lift (decode_any c loads payload) ;;
      let p := rp r in
      if type_is p CONNECT then handle_connect c eio (pns p) (pdata p)
      else if type_is p DISCONNECT then handle_disconnect c eio (pns p) r_client_disconnect
      else if type_is p EVENT then handle_event c eio (pns p) (pid p) (pdata p)
      else if type_is p ACK then handle_ack c eio (pns p) (pid p) (pdata p)
      else if type_is p BINARY_EVENT || type_is p BINARY_ACK then set_binpkt (fun b => aset str_eqb b eio r)
      else raise ValueError
  end.

(* _handle_eio_disconnect, then engine.io drops the socket *)
Definition handle_eio_disconnect (c : cfg) (eio : str) (reason : pv) : SM unit :=
  s <~ getS ;;
  exc <~ forM_keep (get_namespaces (mg s)) (fun n => handle_disconnect c eio (Some n) reason) None ;;
  modify (fun s => mkSrv (mg s) (adel str_eqb (environ s) eio) (adel str_eqb (binpkt s) eio)
                         (sessions s) (live s) (fresh s)) ;;;
  match exc with Some e => raise e | None => ret tt end.

(* server.disconnect(sid, namespace) *)
Definition api_disconnect (c : cfg) (sid : str) (pns : option str) : SM unit :=
  let ns := ns_or_default pns in
  s <~ getS ;;
  if negb (is_connected (mg s) (Some sid) ns) then ret tt else
  r <~ with_mg (fun m => pre_disconnect m sid ns) ;; eio <~ lift r ;;
  send_packet c eio DISCONNECT PNone ns None ;;;
  finallyM (_ <~ trigger_event c (PStr (s2l "disconnect")) ns [PStr sid; r_server_disconnect] ;; ret tt)
           (set_mg (fun m => mgr_disconnect m sid ns)).

(* ---- operations of a history ---- *)
Definition jtable := list (str * Res pv).
Fixpoint table_loads (tbl : jtable) (s : str) : Res pv :=
  match tbl with
  | [] => Err OracleMiss
  | (k, r) :: rest => if str_eqb k s then r else table_loads rest s
  end.

Inductive op :=
| EioConnect (eio : str) (env : pv)
| EioMessage (eio : str) (payload : pv) (tbl : jtable)
| EioClose (eio : str) (reason : pv)
| ApiEmit (event data to room skip : pv) (ns : option str) (cb : option N)
| ApiEnterRoom (sid : str) (room : pv) (ns : option str)
| ApiLeaveRoom (sid : str) (room : pv) (ns : option str)
| ApiCloseRoom (room : pv) (ns : option str)
| ApiRooms (sid : str) (ns : option str)
| ApiDisconnect (sid : str) (ns : option str)
| ApiGetSession (sid : str) (ns : option str)
| ApiSaveSession (sid : str) (v : pv) (ns : option str)
| ApiSessionSet (sid : str) (ns : option str) (key : str) (v : pv).   (* with session(sid) as s: s[key] = v *)

Definition dict_set (d : pv) (k : str) (v : pv) : pv :=
  match d with PDict kv => PDict (aset py_eq kv (PStr k) v) | x => x end.

(* an API call made by the application: exceptions are reported as Raised *)
Definition api (m : SM unit) : SM unit :=
  fun s => match m s with
           | (s1, e1, Ok _) => (s1, e1, Ok tt)
           | (s1, e1, Err x) => (s1, e1 ++ [Raised x], Ok tt)
           end.

Definition step_m (c : cfg) (o : op) : SM unit :=
  match o with
  | EioConnect eio env =>
      modify (fun s => mkSrv (mg s) (aset str_eqb (environ s) eio env) (binpkt s)
                             (sessions s) (live s ++ [eio]) (fresh s))
  | EioMessage eio payload tbl =>
      s <~ getS ;;
      if existsb (str_eqb eio) (live s) then contain (handle_eio_message c (table_loads tbl) eio payload) else ret tt
  | EioClose eio reason =>
      s <~ getS ;;
      if existsb (str_eqb eio) (live s) then
        contain (handle_eio_disconnect c eio reason) ;;;
        modify (fun s => mkSrv (mg s) (environ s) (binpkt s) (adel str_eqb (sessions s) eio)
                               (filter (fun e => negb (str_eqb e eio)) (live s)) (fresh s))
      else ret tt
  | ApiEmit ev data to room skip ns cb => api (api_emit c ev data to room skip ns cb)
  | ApiEnterRoom sid room ns =>
      api (r <~ with_mg (fun m => enter_room m sid (ns_or_default ns) room) ;; lift r)
  | ApiLeaveRoom sid room ns => api (set_mg (fun m => leave_room m sid (ns_or_default ns) room))
  | ApiCloseRoom room ns => api (set_mg (fun m => close_room m room (ns_or_default ns)))
  | ApiRooms sid ns => s <~ getS ;; tell (Ret (PList (get_rooms (mg s) sid (ns_or_default ns))))
  | ApiDisconnect sid ns => api (api_disconnect c sid ns)
  | ApiGetSession sid ns => api (v <~ api_get_session sid ns ;; tell (Ret v))
  | ApiSaveSession sid v ns => api (api_save_session sid v ns)
  | ApiSessionSet sid ns k v =>
      api (d <~ api_get_session sid ns ;; api_save_session sid (dict_set d k v) ns)
  end.

Definition step (c : cfg) (s : srv) (o : op) : srv * list eff :=
  match step_m c o s with (s', e, _) => (s', e) end.

(* a history: the effects of each operation, in order *)
Fixpoint run (c : cfg) (s : srv) (ops : list op) : srv * list (list eff) :=
  match ops with
  | [] => (s, [])
  | o :: r => let '(s1, e) := step c s o in let '(s2, es) := run c s1 r in (s2, e :: es)
  end.
