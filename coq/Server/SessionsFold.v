(* C16, executable form over whole histories: the checker c16_fold accepts the model's own run,
   on every history in which no transport CONNECTs to a namespace slot that was occupied before
   on the same (still open) transport - the shape on which the faithful model refutes freshness
   (C16_fresh_refuted) - and in which the reads of handlers can be attributed to a client
   (reads_attributable).  Structure: (1) session ids are never reused (over Lifecycle.star);
   (2) handlers without AGet emit no Ret; (3) no_ns_rejoin, the replay invariant FoldInv and one
   step of c16_fold for every operation kind; (4) handlers that read: a judgement presT closed
   under concatenation of effect lists, one handler invocation (TR_block), the CONNECT path
   (Section Conn: the handler runs for the id issued in this step), whole steps (reads_step);
   (5) whole histories, non-vacuity examples and the two refutations that justify the
   exclusions. *)
From VT Require Import Server.LifecycleStep.
From VT Require Import Server.Sessions.
From Coq Require Import Lia.
Open Scope N_scope.

(* ------------------------------------------------------------------------------------ *)
(** * Session ids are never reused: who is connected after a step was connected before, or
      carries an id the generator had not issued yet *)

Lemma prim_members s s' : prim s s' -> Lifecycle.Inv s ->
  forall x n0 e0, eio_from_sid (mg s') x n0 = Some e0 -> eio_from_sid (mg s) x n0 = Some e0 \/ x = new_sid s.
Proof.
  intros Hp HI. pose proof (proj1 HI) as Hm. destruct Hp; cbn [mg StepLemmas.upd_mg bump]; intros x n0 e0 Hq.
  - left. exact Hq.
  - left. eapply mem_sub_leave; eauto.
  - left. eapply mem_sub_members; [apply (enter_room_members (mg s) sid ns room Hm)|exact Hq].
  - left. eapply mem_sub_close; eauto.
  - left. eapply mem_sub_disc; eauto.
  - left. eapply mem_sub_rooms; [apply pre_disconnect_rooms|exact Hq].
  - left. eapply mem_sub_rooms; [apply generate_ack_id_rooms|exact Hq].
  - left. eapply mem_sub_rooms; [|exact Hq].
    unfold trigger_callback. destruct osid; [|reflexivity]. destruct id; [|reflexivity].
    destruct (aget str_eqb (callbacks (mg s)) s0); [|reflexivity]. destruct (_ <=? _)%Z; [reflexivity|].
    destruct (aget N.eqb _ _); reflexivity.
  - destruct (sid_from_eio (mg s) eio ns) as [s0|] eqn:Hs.
    + assert (Hne : s0 <> new_sid s) by (intro; subst; exact (fresh_not_sid_from_eio s HI eio ns Hs)).
      unfold sid_from_eio in Hs. destruct (room_of (mg s) ns PNone) as [b|] eqn:Hb; [|discriminate].
      rewrite (mgr_connect_dup _ _ _ _ _ _ Hb Hs Hne) in Hq. left. exact Hq.
    + destruct (mgr_connect_new (mg s) eio ns (new_sid s) Hs) as (_ & Hroom & _ & _ & Hf).
      set (m' := fst (mgr_connect (mg s) eio ns (new_sid s))) in *.
      destruct (str_eqb x (new_sid s)) eqn:Ex; [right; apply str_eqb_eq; exact Ex|left].
      assert (Hx : x <> new_sid s) by (intro; subst; rewrite str_eqb_refl in Ex; discriminate).
      destruct (str_eqb ns n0) eqn:E.
      * apply str_eqb_eq in E. subst n0. unfold eio_from_sid in Hq at 1. rewrite Hroom in Hq. unfold bd_get in Hq.
        rewrite saget_aset_other in Hq by (intro; apply Hx; symmetry; assumption).
        rewrite eio_from_sid_members, ns_members_eq. unfold pm_b, pm_rm in Hq. destruct (ns_rooms (mg s) ns); auto.
      * unfold eio_from_sid in *. rewrite !room_of_none in *. rewrite Hf in Hq; [auto|].
        intro; subst; rewrite str_eqb_refl in E; discriminate.
Qed.

Lemma star_members s s' : Lifecycle.star s s' -> Lifecycle.Inv s ->
  forall x n0 e0, eio_from_sid (mg s') x n0 = Some e0 ->
    eio_from_sid (mg s) x n0 = Some e0 \/ exists k, fresh s <= k /\ x = sid_name k.
Proof.
  induction 1 as [|s s1 s2 Hp Hst IH]; intros HI x n0 e0 H; [left; exact H|].
  assert (HI1 : Lifecycle.Inv s1) by (eapply prim_Inv; eauto).
  assert (Hf : fresh s <= fresh s1) by (apply star_fresh; apply star_one; exact Hp).
  destruct (IH HI1 x n0 e0 H) as [H1|(k & Hk & ->)].
  - destruct (prim_members s s1 Hp HI x n0 e0 H1) as [H0| ->]; [left; exact H0|].
    right. exists (fresh s). split; [lia|reflexivity].
  - right. exists k. split; [lia|reflexivity].
Qed.

Lemma step_members c s o : Lifecycle.Inv s ->
  forall x n0 e0, eio_from_sid (mg (fst (step c s o))) x n0 = Some e0 ->
    eio_from_sid (mg s) x n0 = Some e0 \/ exists k, fresh s <= k /\ x = sid_name k.
Proof. intros HI. apply star_members; [apply step_star|exact HI]. Qed.

(* ------------------------------------------------------------------------------------ *)
(** * Handlers that do not read sessions produce no Ret effect *)

Definition no_get_actions (c : cfg) : Prop :=
  forall hid b a, In (hid, b) (behav c) -> In a (h_actions b) -> match a with AGet => False | _ => True end.
Definition noret (x : eff) : Prop := match x with Ret _ => False | _ => True end.

Section NoRet.
  Variable c : cfg.
  Hypothesis Hng : no_get_actions c.
  Let J := fun _ : srv => True.

  Lemma nr_send eio t data ns id : pres J noret (send_packet c eio t data ns id).
  Proof. apply send_packet_pres. intros; exact I. Qed.
  Lemma nr_with_mg {A} (f : mgr -> mgr * A) : pres J noret (with_mg f).
  Proof. apply pres_with_mg. intros; exact I. Qed.
  Lemma nr_set_mg f : pres J noret (set_mg f).
  Proof. apply pres_set_mg. intros; exact I. Qed.
  Lemma nr_set_binpkt f : pres J noret (set_binpkt f).
  Proof. unfold set_binpkt. apply pres_modify. intros; exact I. Qed.

  Lemma nr_action hid b ns sid a :
    aget N.eqb (behav c) hid = Some b -> In a (h_actions b) -> pres J noret (run_action c ns sid a).
  Proof.
    intros Hb Ha. apply aget_In in Hb as (hid' & Hin & _). specialize (Hng _ _ _ Hin Ha).
    destruct a; cbn [run_action].
    - apply pres_bind; [apply nr_with_mg|intros r; apply pres_lift].
    - apply nr_set_mg.
    - apply mgr_emit_nocb_pres. intros; exact I.
    - apply mgr_emit_nocb_pres. intros; exact I.
    - unfold api_save_session. apply pres_bind; [apply pres_getS|]. intros s0.
      apply pres_bind; [apply pres_lift|]. intros d.
      destruct (eio_from_sid _ _ _); [|apply pres_ret]. unfold set_session. apply pres_modify. intros; exact I.
    - destruct Hng.
  Qed.

  Lemma nr_trigger ev ns args : pres J noret (trigger_event c ev ns args).
  Proof.
    apply (trigger_event_gen c J noret (fun _ => True)); [intros; exact I| |auto].
    intros hid b ns0 sid a Hb Ha. eapply nr_action; eauto.
  Qed.

  Lemma nr_handle_event eio pns id data : pres J noret (handle_event c eio pns id data).
  Proof.
    unfold handle_event. apply pres_bind; [apply pres_getS|]. intros s0.
    apply pres_bind; [apply pres_lift|]. intros ea. destruct (negb _); [apply pres_ret|].
    destruct (sid_from_eio _ _ _); [|apply pres_ret].
    apply pres_bind; [apply nr_trigger|]. intros r.
    destruct r; [|apply pres_ret]. destruct id; [|apply pres_ret]. apply nr_send.
  Qed.

  Lemma nr_handle_ack eio pns id data : pres J noret (handle_ack c eio pns id data).
  Proof.
    unfold handle_ack. apply pres_bind; [apply pres_getS|]. intros s0.
    apply pres_bind; [apply nr_with_mg|]. intros t. destruct t; [apply pres_ret|].
    apply pres_bind; [apply pres_lift|]. intros args. apply pres_tell. exact I.
  Qed.

  Lemma nr_handle_disconnect eio pns reason : pres J noret (handle_disconnect c eio pns reason).
  Proof.
    unfold handle_disconnect. apply pres_bind; [apply pres_getS|]. intros s0.
    destruct (negb _); [apply pres_ret|]. destruct (sid_from_eio _ _ _); [|apply pres_ret].
    apply pres_bind; [apply nr_with_mg|]. intros r. apply pres_bind; [apply pres_lift|]. intros u.
    apply pres_finally; [|apply nr_set_mg].
    apply pres_bind; [apply nr_trigger|]. intros; apply pres_ret.
  Qed.

  Lemma nr_handle_connect eio pns data : pres J noret (handle_connect c eio pns data).
  Proof.
    unfold handle_connect. apply pres_bind; [apply pres_getS|]. intros s0.
    apply pres_bind.
    { destruct (served c _); [|apply pres_ret]. apply pres_bind; [|intros; apply nr_with_mg].
      apply pres_putS. exact I. }
    intros osid. destruct osid as [sid|]; [|apply nr_send].
    apply pres_bind. { destruct (always_connect c); [apply nr_send|apply pres_ret]. }
    intros _. apply pres_bind. { destruct (aget str_eqb (environ s0) eio); [apply pres_ret|apply pres_raise]. }
    intros env. apply pres_bind.
    { apply pres_catch.
      - apply pres_bind; [|intros; apply pres_ret]. destruct (truthy data); [apply nr_trigger|].
        apply pres_catch; [apply nr_trigger|]. intros x k Hx. destruct x; try discriminate.
        injection Hx as <-. apply nr_trigger.
      - intros x k Hx. destruct x; try discriminate. injection Hx as <-. apply pres_ret. }
    intros [success fail_reason]. destruct (match success with Some v => pv_eqb v (PBool false) | None => false end).
    - apply pres_finally; [|apply nr_set_mg]. destruct (always_connect c); [|apply nr_send].
      apply pres_bind; [apply nr_with_mg|]. intros r. apply pres_bind; [apply pres_lift|]. intros u. apply nr_send.
    - destruct (always_connect c); [apply pres_ret|apply nr_send].
  Qed.

  Lemma nr_handle_eio_message loads eio payload : pres J noret (handle_eio_message c loads eio payload).
  Proof.
    unfold handle_eio_message. apply pres_bind; [apply pres_getS|]. intros s0.
    destruct (aget str_eqb (binpkt s0) eio) as [r|].
    - destruct (add_attachment r payload) as [[r' [|]]|x].
      + apply pres_bind; [apply nr_set_binpkt|]. intros _.
        destruct (type_is _ _); [apply nr_handle_event|apply nr_handle_ack].
      + apply nr_set_binpkt.
      + apply pres_bind; [|intros; apply pres_raise]. destruct (N.leb _ _); [apply pres_ret|apply nr_set_binpkt].
    - apply pres_bind; [apply pres_lift|]. intros r.
      destruct (type_is _ CONNECT); [apply nr_handle_connect|].
      destruct (type_is _ DISCONNECT); [apply nr_handle_disconnect|].
      destruct (type_is _ EVENT); [apply nr_handle_event|].
      destruct (type_is _ ACK); [apply nr_handle_ack|].
      destruct (_ || _); [apply nr_set_binpkt|apply pres_raise].
  Qed.

  Lemma nr_handle_eio_disconnect eio reason : pres J noret (handle_eio_disconnect c eio reason).
  Proof.
    unfold handle_eio_disconnect. apply pres_bind; [apply pres_getS|]. intros s0.
    apply pres_bind; [apply pres_forM_keep; intros; apply nr_handle_disconnect|]. intros exc.
    apply pres_bind.
    - apply pres_modify. intros; exact I.
    - intros _. destruct exc; [apply pres_raise|apply pres_ret].
  Qed.

  Lemma nr_api_disconnect sid pns : pres J noret (api_disconnect c sid pns).
  Proof.
    unfold api_disconnect. apply pres_bind; [apply pres_getS|]. intros s0.
    destruct (negb _); [apply pres_ret|].
    apply pres_bind; [apply nr_with_mg|]. intros r. apply pres_bind; [apply pres_lift|]. intros eio.
    apply pres_bind; [apply nr_send|]. intros _.
    apply pres_finally; [|apply nr_set_mg].
    apply pres_bind; [apply nr_trigger|]. intros; apply pres_ret.
  Qed.

  Lemma step_noret s o :
    match o with EioMessage _ _ _ | EioClose _ _ | ApiDisconnect _ _ => True | _ => False end ->
    Forall noret (snd (step c s o)).
  Proof.
    intros Ho. apply (hp_step c s o (fun _ es => Forall noret es)).
    assert (Conv : forall m : SM unit, pres J noret m -> hp s m (fun _ _ es => Forall noret es)).
    { intros m Hm. eapply hp_conseq; [apply Hm; exact I|]. intros ? ? ? [_ ?]. auto. }
    destruct o; try contradiction; cbn [step_m]; apply Conv.
    - apply pres_bind; [apply pres_getS|]. intros s0. destruct (existsb _ _); [|apply pres_ret].
      apply pres_contain. apply nr_handle_eio_message.
    - apply pres_bind; [apply pres_getS|]. intros s0. destruct (existsb _ _); [|apply pres_ret].
      apply pres_bind; [apply pres_contain; apply nr_handle_eio_disconnect|]. intros _.
      apply pres_modify. intros; exact I.
    - apply pres_api; [intros; exact I|apply nr_api_disconnect].
  Qed.
End NoRet.

Lemma handler_reads_noret s s' st obs : Forall noret obs -> forall cur, handler_reads_ok s s' st cur obs = true.
Proof.
  induction 1 as [|x l Hx _ IH]; intros cur; [reflexivity|].
  destruct x; cbn [handler_reads_ok]; try apply IH. destruct Hx.
Qed.

(* ------------------------------------------------------------------------------------ *)
(** * The history shape that is excluded: a (transport, namespace) slot is joined again *)

Definition slot_of (x : str * str * str) : skey := (snd x, fst (fst x)).      (* (ns, sid, eio) -> (eio, ns) *)
Definition trip_eqb (a b : str * str * str) : bool :=
  str_eqb (fst (fst a)) (fst (fst b)) && str_eqb (snd (fst a)) (snd (fst b)) && str_eqb (snd a) (snd b).
Lemma trip_eqb_eq a b : trip_eqb a b = true <-> a = b.
Proof.
  destruct a as [[a1 a2] a3], b as [[b1 b2] b3]. unfold trip_eqb. cbn [fst snd].
  rewrite !andb_true_iff, !str_eqb_eq. split; [intros [[-> ->] ->]; reflexivity|intros [= -> -> ->]; auto].
Qed.

(* every (ns, sid, transport) that is connected after the step and was not before occupies a
   slot (transport, ns) that has not been occupied since the transport was opened *)
Definition join_ok (s s' : srv) (seen : list skey) : bool :=
  forallb (fun x => existsb (trip_eqb x) (all_sids (mg s)) || negb (existsb (skey_eqb (slot_of x)) seen))
          (all_sids (mg s')).
(* the slots occupied so far on the transports that are still open *)
Definition seen_next (s' : srv) (seen : list skey) : list skey :=
  filter (fun p => existsb (str_eqb (fst p)) (live s')) (seen ++ map slot_of (all_sids (mg s'))).

Fixpoint no_ns_rejoin (c : cfg) (s : srv) (seen : list skey) (ops : list op) : bool :=
  match ops with
  | [] => true
  | o :: r => let s' := fst (step c s o) in join_ok s s' seen && no_ns_rejoin c s' (seen_next s' seen) r
  end.

Lemma join_ok_spec s s' seen n sid e :
  join_ok s s' seen = true -> In (n, sid, e) (all_sids (mg s')) ->
  In (n, sid, e) (all_sids (mg s)) \/ ~ In (e, n) seen.
Proof.
  unfold join_ok. intros H Hin. rewrite forallb_forall in H. specialize (H _ Hin). apply orb_true_iff in H as [H|H].
  - left. apply existsb_exists in H as (y & Hy & Heq). apply trip_eqb_eq in Heq. subst. exact Hy.
  - right. intros Hs. apply negb_true_iff in H.
    assert (Hex : existsb (skey_eqb (slot_of (n, sid, e))) seen = true).
    { apply existsb_exists. exists (e, n). split; [exact Hs|]. apply skey_eqb_eq. reflexivity. }
    congruence.
Qed.

Lemma seen_next_in s' seen p :
  In (fst p) (live s') -> In p seen \/ In p (map slot_of (all_sids (mg s'))) -> In p (seen_next s' seen).
Proof.
  intros Hl Hin. unfold seen_next. apply filter_In. split; [apply in_or_app; exact Hin|apply live_existsb; exact Hl].
Qed.

(* ------------------------------------------------------------------------------------ *)
(** * One step of c16_fold *)

Definition sess_op (o : op) : bool :=
  match o with ApiGetSession _ _ | ApiSaveSession _ _ _ | ApiSessionSet _ _ _ _ => true | _ => false end.

(* the store c16_fold continues with *)
Definition st_next (s : srv) (st : store) (o : op) : store :=
  match o with
  | ApiSaveSession sid v ns =>
      if connected_on s sid (ns_or_default ns) then aset skey_eqb st (sid, ns_or_default ns) v else st
  | ApiSessionSet sid ns k v =>
      if connected_on s sid (ns_or_default ns)
      then aset skey_eqb st (sid, ns_or_default ns) (dict_set (s_get st sid (ns_or_default ns)) k v) else st
  | _ => st
  end.
(* the verdict of c16_fold on the head of the history *)
Definition c16_head (c : cfg) (s : srv) (st : store) (o : op) (e : list eff) : bool :=
  match o with
  | ApiSaveSession sid _ ns | ApiSessionSet sid ns _ _ =>
      if connected_on s sid (ns_or_default ns) then no_raise e else negb (no_raise e)
  | ApiGetSession sid ns =>
      if connected_on s sid (ns_or_default ns)
      then match e with [Ret v] => pv_eqb v (s_get st sid (ns_or_default ns)) | _ => false end
      else negb (no_raise e)
  | EioMessage _ _ _ | EioClose _ _ | ApiDisconnect _ _ =>
      if existsb (fun hb => existsb (fun a => match a with ASave _ => true | _ => false end)
                                    (h_actions (snd hb))) (behav c)
      then true else handler_reads_ok s (fst (step c s o)) st None e
  | _ => true
  end.

Lemma c16_fold_cons c s st o r e es :
  c16_fold c s st (o :: r) (e :: es) = c16_head c s st o e && c16_fold c (fst (step c s o)) (st_next s st o) r es.
Proof.
  destruct o; cbn [c16_fold c16_head st_next]; try reflexivity;
    try (destruct (connected_on s sid (ns_or_default ns)); reflexivity).
Qed.

Lemma eio_live s sid n e : Inv s -> eio_from_sid (mg s) sid n = Some e -> In e (live s).
Proof.
  intros [HM _] He. destruct (eio_from_sid_rmem _ _ _ _ _ _ (mid_mg _ HM) He) as (rm & Hr & Hm & _).
  destruct (mi_ns _ _ _ (mid_mg _ HM) _ _ Hr) as [_ Hi]. eapply ri_live; eauto.
Qed.
Lemma eio_below s sid n e : Inv s -> eio_from_sid (mg s) sid n = Some e -> exists k, k < fresh s /\ sid = sid_name k.
Proof.
  intros [HM _] He. destruct (eio_from_sid_rmem _ _ _ _ _ _ (mid_mg _ HM) He) as (rm & Hr & Hm & _).
  destruct (mi_ns _ _ _ (mid_mg _ HM) _ _ Hr) as [_ Hi]. eapply ri_fresh; eauto.
Qed.
Lemma sess_val_dead s e n : Inv s -> ~ In e (live s) -> sess_val s e n = PDict [].
Proof.
  intros [HM _] Hnl. unfold sess_val, sess_at. destruct (aget str_eqb (sessions s) e) as [d|] eqn:Hd; [|reflexivity].
  exfalso. apply Hnl. apply (proj2 (mid_ses _ HM)). apply (xaget_In _ str_eqb_eq) in Hd. apply in_map_iff. exists (e, d). auto.
Qed.
Lemma close_not_live c s e r : cfg_ok c -> Inv s -> ~ In e (live (fst (step c s (EioClose e r)))).
Proof.
  intros Hc HI. destruct (in_dec (list_eq_dec N.eq_dec) e (live s)) as [Hl|Hnl].
  - destruct (step_close_spec c s e r Hc HI Hl) as [_ Hlive _ _ _]. rewrite Hlive. intros Hin. apply In_drop_live in Hin. tauto.
  - rewrite (step_close_dead c s e r Hnl). exact Hnl.
Qed.

Lemma touches_cases s o e n :
  touches s o e n ->
  (exists r, o = EioClose e r) \/ (sess_op o = true /\ exists sid, eio_from_sid (mg s) sid n = Some e).
Proof.
  destruct o; cbn [touches sess_op]; try contradiction.
  - intros ->. left. eauto.
  - intros [H <-]. right. eauto.
  - intros [H <-]. right. eauto.
Qed.

Lemma sess_val_stable c s o e n :
  no_save_actions c -> ~ touches s o e n -> sess_val (fst (step c s o)) e n = sess_val s e n.
Proof.
  intros Hns Hnt. unfold sess_val at 1.
  apply (C16_stable_lemma c Hns e n (fun x => match x with Some v => v | None => PDict [] end = sess_val s e n));
    [intros H; exact H|exact Hnt|reflexivity].
Qed.

(* the three session operations (as C16_fold_api_partial, with the store made explicit) *)
Lemma api_head_link c s st o :
  Inv s -> link s st -> sess_op o = true ->
  c16_head c s st o (snd (step c s o)) = true /\ link (fst (step c s o)) (st_next s st o).
Proof.
  intros HI HL Ho. destruct o as [| | | | | | | | |sid ns|sid v ns|sid ns k v]; try discriminate; cbn [c16_head st_next].
  - (* get *)
    set (n := ns_or_default ns). destruct (connected_on s sid n) eqn:Hcon.
    + apply connected_on_iff in Hcon as (e & He & Hl).
      assert (Hstep : step c s (ApiGetSession sid ns) =
                      (match sess_at s e n with Some _ => s | None => put_sess s e n (PDict []) end, [Ret (sess_val s e n)])).
      { unfold step. cbn [step_m]. unfold api, bindM. rewrite (api_get_session_run sid ns s e He Hl). reflexivity. }
      rewrite Hstep. cbn [fst snd]. rewrite (HL _ _ _ He Hl), pv_eqb_refl. split; [reflexivity|].
      destruct (sess_at s e n) eqn:Hat; [exact HL|apply link_fill; auto].
    + assert (Hstep : step c s (ApiGetSession sid ns) = (s, [Raised KeyError])).
      { unfold step. cbn [step_m]. unfold api, bindM. rewrite (api_get_session_dead sid ns s (not_connected_dead _ _ _ Hcon)). reflexivity. }
      rewrite Hstep. cbn [fst snd]. split; [reflexivity|exact HL].
  - (* save *)
    set (n := ns_or_default ns). destruct (connected_on s sid n) eqn:Hcon.
    + apply connected_on_iff in Hcon as (e & He & Hl).
      assert (Hstep : step c s (ApiSaveSession sid v ns) = (put_sess s e n v, [])).
      { unfold step. cbn [step_m]. unfold api. rewrite (api_save_session_run sid v ns s e He Hl). reflexivity. }
      rewrite Hstep. cbn [fst snd]. split; [reflexivity|apply link_put; auto].
    + assert (Hstep : step c s (ApiSaveSession sid v ns) = (s, [Raised KeyError])).
      { unfold step. cbn [step_m]. unfold api. rewrite (api_save_session_dead sid v ns s (not_connected_dead _ _ _ Hcon)). reflexivity. }
      rewrite Hstep. cbn [fst snd]. split; [reflexivity|exact HL].
  - (* session() block *)
    set (n := ns_or_default ns). destruct (connected_on s sid n) eqn:Hcon.
    + apply connected_on_iff in Hcon as (e & He & Hl).
      destruct (C16_context_manager_lemma c sid ns k v s e He Hl) as (Hobs & _ & _). fold n in Hobs.
      rewrite Hobs. split; [reflexivity|].
      rewrite (HL _ _ _ He Hl).
      assert (Hstep : fst (step c s (ApiSessionSet sid ns k v)) =
                      put_sess (match sess_at s e n with Some _ => s | None => put_sess s e n (PDict []) end) e n
                               (dict_set (sess_val s e n) k v)).
      { unfold step. cbn [step_m]. unfold api. unfold bindM at 1. rewrite (api_get_session_run sid ns s e He Hl). fold n.
        set (s0 := match sess_at s e n with Some _ => s | None => put_sess s e n (PDict []) end).
        assert (He0 : eio_from_sid (mg s0) sid n = Some e) by (unfold s0; destruct (sess_at s e n); exact He).
        assert (Hl0 : In e (live s0)) by (unfold s0; destruct (sess_at s e n); exact Hl).
        rewrite (api_save_session_run sid _ ns s0 e He0 Hl0). reflexivity. }
      rewrite Hstep. destruct (sess_at s e n) eqn:Hat.
      * apply link_put; auto.
      * apply link_put.
        -- destruct HI as [[H1 H2 H3 [H4 H5]] Hp]. split; [|exact Hp]. split; auto. cbn [put_sess with_sessions sessions live]. split.
           ++ apply (xkeys_ok_aset _ str_eqb_eq). auto.
           ++ intros x Hx. apply (xkeys_aset _ str_eqb_eq) in Hx as [Hx| ->]; auto.
        -- exact He.
        -- apply link_fill; auto.
    + assert (Hstep : step c s (ApiSessionSet sid ns k v) = (s, [Raised KeyError])).
      { unfold step. cbn [step_m]. unfold api. unfold bindM at 1.
        rewrite (api_get_session_dead sid ns s (not_connected_dead _ _ _ Hcon)). reflexivity. }
      rewrite Hstep. cbn [fst snd]. split; [reflexivity|exact HL].
Qed.

(* ------------------------------------------------------------------------------------ *)
(** * The invariant of the replay *)

Record FoldInv (s : srv) (st : store) (seen : list skey) : Prop := mkFoldInv {
  fi_inv : Inv s;
  fi_life : Lifecycle.Inv s;
  (* specification store keyed by sid = model store keyed by transport *)
  fi_link : link s st;
  (* session ids not issued yet have no entry in the specification store *)
  fi_unused : forall k n, fresh s <= k -> s_get st (sid_name k) n = PDict [];
  (* a slot never occupied since its transport was opened holds no session *)
  fi_empty : forall e n, ~ In (e, n) seen -> sess_val s e n = PDict [];
  fi_seen : forall sid n e, eio_from_sid (mg s) sid n = Some e -> In (e, n) seen
}.

Lemma FoldInv_init : FoldInv srv_init [] [].
Proof.
  split.
  - apply Inv_init.
  - apply Lifecycle.Inv_init.
  - intros sid n e H. discriminate H.
  - intros k n _. reflexivity.
  - intros e n _. reflexivity.
  - intros sid n e H. discriminate H.
Qed.

Lemma other_head c s st o :
  no_get_actions c -> sess_op o = false -> c16_head c s st o (snd (step c s o)) = true.
Proof.
  intros Hng Hso. destruct o; try discriminate; cbn [c16_head]; try reflexivity;
    (destruct (existsb _ (behav c)); [reflexivity|]; apply handler_reads_noret; apply step_noret; [exact Hng|exact I]).
Qed.
Lemma st_next_other s st o : sess_op o = false -> st_next s st o = st.
Proof. intros Hso. destruct o; try discriminate; reflexivity. Qed.

Lemma unused_next s st o k n :
  Inv s -> (forall k n, fresh s <= k -> s_get st (sid_name k) n = PDict []) -> fresh s <= k ->
  s_get (st_next s st o) (sid_name k) n = PDict [].
Proof.
  intros HI Hun Hk.
  assert (Hput : forall sid n0 v, connected_on s sid n0 = true ->
                                  s_get (aset skey_eqb st (sid, n0) v) (sid_name k) n = PDict []).
  { intros sid n0 v Hcon. apply connected_on_iff in Hcon as (e & He & _).
    destruct (eio_below s sid n0 e HI He) as (k0 & Hk0 & ->).
    rewrite s_get_aset. destruct (skey_eqb (sid_name k, n) (sid_name k0, n0)) eqn:E; [|apply Hun; lia].
    apply skey_eqb_eq in E. assert (E1 : sid_name k = sid_name k0) by congruence. apply sid_name_inj in E1. lia. }
  destruct o; cbn [st_next]; try (apply Hun; exact Hk).
  - destruct (connected_on s sid (ns_or_default ns)) eqn:Hcon; [apply Hput; auto|apply Hun; exact Hk].
  - destruct (connected_on s sid (ns_or_default ns)) eqn:Hcon; [apply Hput; auto|apply Hun; exact Hk].
Qed.

Lemma fold_step_inv c s st seen o :
  no_save_actions c -> cfg_ok c -> op_ok o -> FoldInv s st seen ->
  join_ok s (fst (step c s o)) seen = true ->
  (sess_op o = true -> c16_head c s st o (snd (step c s o)) = true) /\
  FoldInv (fst (step c s o)) (st_next s st o) (seen_next (fst (step c s o)) seen).
Proof.
  intros Hns Hc Ho [HI HL0 HL Hun Hem Hse] Hj.
  assert (HI' : Inv (fst (step c s o))) by (apply step_Inv; auto).
  assert (HL0' : Lifecycle.Inv (fst (step c s o))) by (apply Lifecycle.step_Inv; auto).
  assert (Hfr : fresh s <= fresh (fst (step c s o))) by apply Lifecycle.step_fresh_mono.
  assert (Hmem := step_members c s o HL0).
  assert (Hstab := sess_val_stable c s o).
  assert (Hcl : forall e r, o = EioClose e r -> ~ In e (live (fst (step c s o)))).
  { intros e r ->. apply close_not_live; auto. }
  assert (Hapi : sess_op o = true ->
                 c16_head c s st o (snd (step c s o)) = true /\ link (fst (step c s o)) (st_next s st o)).
  { intros Hso. apply api_head_link; auto. }
  set (s' := fst (step c s o)) in *. clearbody s'.
  assert (Hse' : forall sid n e, eio_from_sid (mg s') sid n = Some e -> In (e, n) (seen_next s' seen)).
  { intros sid n e He. apply seen_next_in; [cbn [fst]; eapply eio_live; eauto|].
    right. apply in_map_iff. exists (n, sid, e). split; [reflexivity|apply eio_all_sids; exact He]. }
  assert (Hst : forall e n, In e (live s') -> (sess_op o = true -> ~ In (e, n) seen) -> sess_val s' e n = sess_val s e n).
  { intros e n Hl Hn. apply Hstab; [exact Hns|]. intros Ht. apply touches_cases in Ht as [[r Hr]|[Hso (sid & He)]].
    - exact (Hcl e r Hr Hl).
    - apply (Hn Hso). eapply Hse; eauto. }
  assert (Hem' : forall e n, ~ In (e, n) (seen_next s' seen) -> sess_val s' e n = PDict []).
  { intros e n Hn. destruct (in_dec (list_eq_dec N.eq_dec) e (live s')) as [Hl|Hnl]; [|apply sess_val_dead; auto].
    assert (Hn0 : ~ In (e, n) seen) by (intros H; apply Hn; apply seen_next_in; auto).
    rewrite (Hst e n Hl (fun _ => Hn0)). apply Hem. exact Hn0. }
  assert (Hun' : forall k n, fresh s' <= k -> s_get (st_next s st o) (sid_name k) n = PDict []).
  { intros k n Hk. apply unused_next; auto. lia. }
  destruct (sess_op o) eqn:Hso.
  - (* session operations *)
    destruct (Hapi eq_refl) as [Hh HL']. split; [intros _; exact Hh|]. split; auto.
  - (* the other operations *)
    split; [discriminate|]. rewrite (st_next_other s st o Hso) in *.
    split; auto.
    intros sid n e He Hl.
    assert (Hsv : sess_val s' e n = sess_val s e n) by (apply Hst; [exact Hl|discriminate]).
    rewrite Hsv.
    destruct (join_ok_spec s s' seen n sid e Hj (eio_all_sids _ _ _ _ He)) as [Hin|Hnew].
    + assert (He0 : eio_from_sid (mg s) sid n = Some e) by (apply all_sids_eio; [exact (proj1 HL0)|exact Hin]).
      apply HL; [exact He0|eapply eio_live; eauto].
    + destruct (Hmem sid n e He) as [He0|(k & Hk & ->)].
      * exfalso. apply Hnew. eapply Hse; eauto.
      * rewrite (Hun k n Hk). symmetry. apply Hem. exact Hnew.
Qed.

Lemma fold_step c s st seen o :
  no_save_actions c -> no_get_actions c -> cfg_ok c -> op_ok o -> FoldInv s st seen ->
  join_ok s (fst (step c s o)) seen = true ->
  c16_head c s st o (snd (step c s o)) = true /\
  FoldInv (fst (step c s o)) (st_next s st o) (seen_next (fst (step c s o)) seen).
Proof.
  intros Hns Hng Hc Ho HF Hj. destruct (fold_step_inv c s st seen o Hns Hc Ho HF Hj) as [Hh HF'].
  split; [|exact HF']. destruct (sess_op o) eqn:Hso; [apply Hh; reflexivity|apply other_head; auto].
Qed.

Theorem fold_accepts c :
  no_save_actions c -> no_get_actions c -> cfg_ok c ->
  forall ops, Forall op_ok ops -> forall s st seen, FoldInv s st seen ->
  no_ns_rejoin c s seen ops = true -> c16_fold c s st ops (snd (run c s ops)) = true.
Proof.
  intros Hns Hng Hc ops Hops. induction Hops as [|o ops Ho _ IH]; intros s st seen HF Hr; [reflexivity|].
  cbn [no_ns_rejoin] in Hr. apply andb_true_iff in Hr as [Hj Hr].
  rewrite run_cons. cbn [snd]. rewrite c16_fold_cons.
  destruct (fold_step c s st seen o Hns Hng Hc Ho HF Hj) as [Hh HF'].
  rewrite Hh. cbn [andb]. exact (IH _ _ _ HF' Hr).
Qed.

Theorem fold_accepts_init c ops :
  no_save_actions c -> no_get_actions c -> cfg_ok c -> Forall op_ok ops ->
  no_ns_rejoin c srv_init [] ops = true ->
  c16_fold c srv_init [] ops (snd (run c srv_init ops)) = true.
Proof. intros Hns Hng Hc Hops Hr. exact (fold_accepts c Hns Hng Hc ops Hops srv_init [] [] FoldInv_init Hr). Qed.

(* ---- non-vacuity: two clients (three sessions), saves, a namespace left for good, a transport
   loss and a reconnect of the lost transport under the same engine.io id ---- *)
Definition w_cfg : cfg :=
  mkCfg [(y_ns, [(s2l "connect", 1); (s2l "msg", 2); (s2l "disconnect", 3)]); (y_nsa, [(s2l "connect", 1)])] []
        [(1, mkBehav None [AEnter (PStr (s2l "lobby"))] (Returns PNone));
         (2, mkBehav None [AEmitRoom (s2l "hello") PNone (PStr (s2l "lobby")) true] (Returns (PInt 7)));
         (3, mkBehav None [] (Raises RuntimeError))] None false true.
Definition w_ops : list op :=
  [EioConnect y_e1 PNone; EioConnect y_e2 PNone;
   EioMessage y_e1 (PStr (s2l "0")) [];                  (* S0 = (E1, /)  *)
   EioMessage y_e1 (PStr (s2l "0/a,")) [];               (* S1 = (E1, /a) *)
   EioMessage y_e2 (PStr (s2l "0")) [];                  (* S2 = (E2, /)  *)
   ApiSaveSession (sid_name 0) y_secret None;
   ApiSessionSet (sid_name 2) None (s2l "k") (PInt 3);
   ApiGetSession (sid_name 1) (Some y_nsa);
   EioMessage y_e1 (PStr (s2l "2[""msg"",1]")) [(s2l "[""msg"",1]", Ok (PList [PStr (s2l "msg"); PInt 1]))];
   ApiSaveSession (sid_name 1) (PInt 5) (Some y_nsa);
   EioMessage y_e1 (PStr (s2l "1/a,")) [];               (* S1 leaves /a, for good *)
   ApiGetSession (sid_name 1) (Some y_nsa);              (* KeyError *)
   ApiGetSession (sid_name 0) None;
   EioClose y_e1 (PStr (s2l "transport close"));         (* transport loss: S0 gone, its session destroyed *)
   ApiGetSession (sid_name 0) None;                      (* KeyError *)
   ApiGetSession (sid_name 2) None;
   EioConnect y_e1 PNone;                                (* the same engine.io id again: a new transport *)
   EioMessage y_e1 (PStr (s2l "0")) [];                  (* S3 = (E1, /): fresh *)
   ApiGetSession (sid_name 3) None;
   ApiDisconnect (sid_name 2) None].

Lemma w_cfg_facts : no_save_actions w_cfg /\ no_get_actions w_cfg /\ cfg_ok w_cfg.
Proof.
  repeat split; intros hid b a Hin Ha; cbn in Hin; destruct Hin as [[= <- <-]|[[= <- <-]|[[= <- <-]|[]]]]; cbn in Ha;
    repeat (destruct Ha as [<-|Ha]; [try exact I; try (split; [discriminate|reflexivity])|]); try destruct Ha.
Qed.

Example w_hypotheses :
  no_save_actions w_cfg /\ no_get_actions w_cfg /\ cfg_ok w_cfg /\ Forall op_ok w_ops /\
  no_ns_rejoin w_cfg srv_init [] w_ops = true /\
  map (fun es => match es with [Ret v] => Some v | _ => None end)
      (filter (fun es => match es with [Ret _] | [Raised _] => true | _ => false end) (snd (run w_cfg srv_init w_ops))) =
    [Some (PDict []); None; Some y_secret; None; Some (PDict [(PStr (s2l "k"), PInt 3)]); Some (PDict [])] /\
  (* the history of C16_fresh_refuted is excluded *)
  no_ns_rejoin y_cfg srv_init [] y_ops = false.
Proof.
  destruct w_cfg_facts as (A & B & C). split; [exact A|]. split; [exact B|]. split; [exact C|].
  split; [repeat constructor|]. split; [vm_compute; reflexivity|]. split; vm_compute; reflexivity.
Qed.

Example w_accepted : c16_fold w_cfg srv_init [] w_ops (snd (run w_cfg srv_init w_ops)) = true.
Proof.
  destruct w_hypotheses as (A & B & C & D & E & _). apply fold_accepts_init; assumption.
Qed.

(* ==================================================================================== *)
(** * Handlers that READ the session (AGet actions) *)

(* a generic judgement: J is preserved and the effect list satisfies a predicate closed under
   concatenation *)
Section PresT.
  Variable J : srv -> Prop.
  Variable T : list eff -> Prop.
  Hypothesis T_nil : T [].
  Hypothesis T_app : forall a b, T a -> T b -> T (a ++ b).
  Definition presT {A} (m : SM A) : Prop := forall s1, J s1 -> hp s1 m (fun _ s2 es => J s2 /\ T es).

  Lemma pt_ret {A} (a : A) : presT (ret a).
  Proof. intros s H. apply hp_ret. auto. Qed.
  Lemma pt_raise {A} x : presT (@raise srv eff A x).
  Proof. intros s H. apply hp_raise. auto. Qed.
  Lemma pt_lift {A} (r : Res A) : presT (lift r).
  Proof. intros s H. apply hp_lift. auto. Qed.
  Lemma pt_getS : presT getS.
  Proof. intros s H. apply hp_getS. auto. Qed.
  Lemma pt_bind {A B} (m : SM A) (k : A -> SM B) : presT m -> (forall a, presT (k a)) -> presT (bindM m k).
  Proof.
    intros Hm Hk s H. apply hp_bind. eapply hp_conseq; [apply Hm, H|].
    intros [a|x] s1 e1 [H1 F1]; [|auto].
    eapply hp_conseq; [apply Hk, H1|]. intros r s2 e2 [H2 F2]. split; [auto|apply T_app; auto].
  Qed.
  Lemma pt_getS_bind {B} (k : srv -> SM B) :
    (forall s1, J s1 -> hp s1 (k s1) (fun _ s2 es => J s2 /\ T es)) -> presT (bindM getS k).
  Proof. intros Hk s H. apply hp_getS_bind. auto. Qed.
  Lemma pt_catch {A} (m : SM A) h : presT m -> (forall x k, h x = Some k -> presT k) -> presT (catch m h).
  Proof.
    intros Hm Hh s H. apply hp_catch. eapply hp_conseq; [apply Hm, H|].
    intros [a|x] s1 e1 [H1 F1]; [auto|].
    destruct (h x) as [k|] eqn:Ehx; [|auto].
    eapply hp_conseq; [apply (Hh _ _ Ehx), H1|]. intros r s2 e2 [H2 F2]. split; [auto|apply T_app; auto].
  Qed.
  Lemma pt_contain (m : SM unit) : presT m -> presT (contain m).
  Proof. intros Hm s H. apply hp_contain. eapply hp_conseq; [apply Hm, H|]. auto. Qed.
  Lemma pt_finally {A} (m : SM A) f : presT m -> presT f -> presT (finallyM m f).
  Proof.
    intros Hm Hf s H. apply hp_finally. eapply hp_conseq; [apply Hm, H|].
    intros r s1 e1 [H1 F1]. eapply hp_conseq; [apply Hf, H1|].
    intros rf s2 e2 [H2 F2]. split; [auto|apply T_app; auto].
  Qed.
  Lemma pt_api (m : SM unit) : (forall x, T [Raised x]) -> presT m -> presT (api m).
  Proof.
    intros HE Hm s H. apply hp_api. eapply hp_conseq; [apply Hm, H|].
    intros [u|x] s1 e1 [H1 F1]; split; auto.
  Qed.
  Lemma pt_forM_keep {A} (l : list A) (f : A -> SM unit) first :
    (forall x, In x l -> presT (f x)) -> presT (forM_keep l f first).
  Proof.
    revert first. induction l as [|x l IH]; intros first Hf; cbn [forM_keep]; [apply pt_ret|].
    intros s H. unfold hp.
    assert (Hx := Hf x (or_introl eq_refl) s H). unfold hp in Hx.
    destruct (f x s) as [[s1 e1] res]. destruct Hx as [H1 F1].
    assert (Hr := IH (match first, res with None, Err e => Some e | _, _ => first end)
                     (fun y Hy => Hf y (or_intror Hy)) s1 H1). unfold hp in Hr.
    destruct (forM_keep l f _ s1) as [[s2 e2] out]. destruct Hr as [H2 F2].
    split; [auto|apply T_app; auto].
  Qed.
  Lemma pt_of_pres {A} (E : eff -> Prop) (m : SM A) : (forall es, Forall E es -> T es) -> pres J E m -> presT m.
  Proof. intros HE Hm s H. eapply hp_conseq; [apply Hm, H|]. intros r s2 es [H2 F2]. auto. Qed.
End PresT.

(* session ids issued so far *)
Definition issued (F : N) (x : str) : bool :=
  existsb (fun k => str_eqb x (sid_name (N.of_nat k))) (seq 0 (N.to_nat F)).
Lemma issued_below F k : k < F -> issued F (sid_name k) = true.
Proof.
  intros Hk. apply existsb_exists. exists (N.to_nat k). split; [apply in_seq; lia|].
  rewrite N2Nat.id. apply str_eqb_refl.
Qed.
Lemma issued_name F x : issued F x = true -> exists k, x = sid_name k.
Proof. intros H. apply existsb_exists in H as (k & _ & Hk). apply str_eqb_eq in Hk. eauto. Qed.

(* the session-id-like strings among a handler's arguments are all the same *)
Definition own_strs (F : N) (args : list pv) : list str :=
  flat_map (fun a => match a with PStr x => if issued F x then [x] else [] | _ => [] end) args.
Definition args_own (F : N) (args : list pv) : bool :=
  match own_strs F args with [] => true | x :: r => forallb (str_eqb x) r end.
Lemma args_own_eq F args x y :
  args_own F args = true -> In (PStr x) args -> In (PStr y) args -> issued F x = true -> issued F y = true -> x = y.
Proof.
  intros Ho Hx Hy Ix Iy.
  assert (Ox : In x (own_strs F args)) by (apply in_flat_map; exists (PStr x); split; [auto|rewrite Ix; left; reflexivity]).
  assert (Oy : In y (own_strs F args)) by (apply in_flat_map; exists (PStr y); split; [auto|rewrite Iy; left; reflexivity]).
  unfold args_own in Ho. destruct (own_strs F args) as [|z r]; [destruct Ox|]. rewrite forallb_forall in Ho.
  assert (Hz : forall w, In w (z :: r) -> w = z).
  { intros w [->|Hw]; [reflexivity|]. symmetry. apply str_eqb_eq. apply Ho. exact Hw. }
  rewrite (Hz _ Ox), (Hz _ Oy). reflexivity.
Qed.
Definition calls_own (F : N) (obs : list eff) : bool :=
  forallb (fun e => match e with Call _ a => args_own F a | _ => true end) obs.

Lemma hro_app s s' st a : forall cur b,
  handler_reads_ok s s' st cur a = true -> (forall cur', handler_reads_ok s s' st cur' b = true) ->
  handler_reads_ok s s' st cur (a ++ b) = true.
Proof.
  induction a as [|x a IH]; intros cur b Ha Hb; [apply Hb|].
  destruct x; cbn [handler_reads_ok app] in *; try (apply IH; auto).
  apply andb_true_iff in Ha as [H1 H2]. rewrite H1. cbn [andb]. apply IH; auto.
Qed.

Lemma sess_val_put_fill s e0 n0 e n :
  sess_at s e0 n0 = None -> sess_val (put_sess s e0 n0 (PDict [])) e n = sess_val s e n.
Proof.
  intros Hat. unfold sess_val. rewrite sess_at_put. destruct (str_eqb e e0 && str_eqb n n0) eqn:E; [|reflexivity].
  apply andb_true_iff in E as [E1 E2]. apply str_eqb_eq in E1, E2. subst. rewrite Hat. reflexivity.
Qed.

Section Reads.
  Variable c : cfg.
  Hypothesis Hns : no_save_actions c.
  Hypothesis Hc : cfg_ok c.
  Variables (s s' : srv) (st : store) (F : N).
  Hypothesis HI : Inv s.
  Hypothesis HL0 : Lifecycle.Inv s.
  Hypothesis H1ns : sid_one_ns (mg s).
  Hypothesis HL : link s st.
  Hypothesis HI' : Inv s'.
  Hypothesis HL0' : Lifecycle.Inv s'.
  Hypothesis HF : fresh s <= F.
  Hypothesis HF' : fresh s' <= F.
  (* no namespace in use is named like a session id *)
  Hypothesis Hnsok : forall n x e, In (n, x, e) (all_sids (mg s)) -> issued F n = false.

  Definition TR (es : list eff) : Prop :=
    calls_own F es = true -> forall cur, handler_reads_ok s s' st cur es = true.
  Lemma TR_nil : TR [].
  Proof. intros _ cur. reflexivity. Qed.
  Lemma TR_app a b : TR a -> TR b -> TR (a ++ b).
  Proof.
    intros Ha Hb Ho cur. unfold calls_own in Ho. rewrite forallb_app in Ho. apply andb_true_iff in Ho as [O1 O2].
    apply hro_app; [apply Ha; exact O1|intros; apply Hb; exact O2].
  Qed.
  Lemma TR_noret es : Forall noret es -> TR es.
  Proof. intros H _ cur. apply handler_reads_noret. exact H. Qed.

  Definition KR (s1 : srv) : Prop := fresh s1 = fresh s /\ forall e n, sess_val s1 e n = sess_val s e n.
  Definition JR (s1 : srv) : Prop := Lifecycle.star s s1 /\ KR s1.

  Lemma JR_old s1 x n e : JR s1 -> eio_from_sid (mg s1) x n = Some e -> eio_from_sid (mg s) x n = Some e.
  Proof.
    intros [Hst [Hfr _]] He. destruct (star_members s s1 Hst HL0 x n e He) as [H|(k & Hk & ->)]; [exact H|].
    exfalso. assert (HI1 : Lifecycle.Inv s1) by (eapply star_Inv; eauto).
    destruct HI1 as (_ & Hb & _). destruct (sids_all_eio _ _ _ _ _ Hb He) as (k' & Hk' & E).
    apply Lifecycle.sid_name_inj in E. lia.
  Qed.

  Lemma JR_leaf {A} (E : eff -> Prop) (m : SM A) : reach m -> pres KR E m -> pres JR E m.
  Proof.
    intros Hr Hp s1 [Hst HK]. specialize (Hr s1). unfold reach_at, Lifecycle.st in Hr. specialize (Hp s1 HK). unfold hp in *.
    destruct (m s1) as [[s2 es] r]. cbn [fst] in Hr. destruct Hp as [HK2 HE].
    split; [split; [eapply star_trans; eauto|exact HK2]|exact HE].
  Qed.

  Lemma KR_upd s1 m' : KR s1 -> KR (upd_mg s1 m').
  Proof. intros [A B]. split; [exact A|exact B]. Qed.
  Lemma KR_with_mg {A} (E : eff -> Prop) (f : mgr -> mgr * A) : pres KR E (with_mg f).
  Proof. apply pres_with_mg. intros s1 H. apply KR_upd. exact H. Qed.
  Lemma KR_set_mg (E : eff -> Prop) f : pres KR E (set_mg f).
  Proof. apply pres_set_mg. intros s1 H. apply KR_upd. exact H. Qed.
  Lemma KR_set_binpkt (E : eff -> Prop) f : pres KR E (set_binpkt f).
  Proof. unfold set_binpkt. apply pres_modify. intros s1 [A B]. split; [exact A|exact B]. Qed.
  Lemma KR_send (E : eff -> Prop) c0 eio t data ns id : (forall e p, E (Out e p)) -> pres KR E (send_packet c0 eio t data ns id).
  Proof. intros HE. apply send_packet_pres. intros; apply HE. Qed.

  (* ---- one handler invocation for (ns, sid) ---- *)
  Section At.
  Variables (ns sid : str).
  Hypothesis Hnsne : ns <> [].

  Definition EB (x : eff) : Prop :=
    match x with
    | Ret v => exists e, eio_from_sid (mg s) sid ns = Some e /\ v = sess_val s e ns
    | Call _ _ => False
    | _ => True
    end.

  Lemma EB_action hid b a :
    aget N.eqb (behav c) hid = Some b -> In a (h_actions b) -> pres JR EB (run_action c ns sid a).
  Proof.
    intros Hb Ha. apply aget_In in Hb as (hid' & Hin & _). specialize (Hns _ _ _ Hin Ha).
    assert (Hnd : ns_or_default (Some ns) = ns) by (destruct ns; [contradiction|reflexivity]).
    destruct a; [apply JR_leaf; [apply reach_run_action|]..|]; cbn [run_action].
    - apply pres_bind; [apply KR_with_mg|intros r; apply pres_lift].
    - apply KR_set_mg.
    - apply mgr_emit_nocb_pres. intros; exact I.
    - apply mgr_emit_nocb_pres. intros; exact I.
    - destruct Hns.
    - intros s2 HJ. apply hp_bind. unfold hp.
      destruct (eio_from_sid (mg s2) sid ns) as [e0|] eqn:He.
      2:{ rewrite api_get_session_dead by (rewrite Hnd, He; exact I). split; [exact HJ|constructor]. }
      destruct (in_dec (list_eq_dec N.eq_dec) e0 (live s2)) as [Hl|Hnl].
      2:{ rewrite api_get_session_dead by (rewrite Hnd, He; exact Hnl). split; [exact HJ|constructor]. }
      pose proof (api_get_session_run sid (Some ns) s2 e0) as R. rewrite Hnd in R. rewrite (R He Hl). unfold tell.
      rewrite app_nil_l. split.
      + destruct HJ as [Hst [Hfr Hsv]]. destruct (sess_at s2 e0 ns) eqn:Hat; [split; [exact Hst|split; assumption]|].
        split.
        * eapply star_trans; [exact Hst|]. apply star_one. unfold put_sess, with_sessions. apply P_other.
        * split; [exact Hfr|]. intros e n. rewrite sess_val_put_fill by exact Hat. apply Hsv.
      + constructor; [|constructor]. exists e0. split; [eapply JR_old; eauto|apply HJ].
  Qed.

  (* what the checker looks up after Call _ args *)
  Definition cur_ok (cur : option (str * str)) : Prop :=
    match cur with
    | None => True
    | Some (x, n') => forall e, eio_from_sid (mg s) sid ns = Some e -> s_get st x n' = sess_val s e ns
    end.

  Lemma body_ok body : Forall EB body -> forall cur, cur_ok cur -> handler_reads_ok s s' st cur body = true.
  Proof.
    induction 1 as [|x l Hx _ IH]; intros cur Hcur; [reflexivity|].
    destruct x; cbn [handler_reads_ok]; try (apply IH; exact Hcur).
    - destruct Hx.
    - destruct Hx as (e & He & ->). rewrite (IH cur Hcur), andb_true_r.
      destruct cur as [[x n']|]; [|reflexivity]. rewrite (Hcur e He). apply pv_eqb_refl.
  Qed.

  Lemma ns_of_sid_in x n' : ns_of_sid s s' x = Some n' ->
    exists e', In (n', x, e') (all_sids (mg s) ++ all_sids (mg s')).
  Proof.
    unfold ns_of_sid. destruct (filter _ _) as [|y r] eqn:Hf; [discriminate|]. intros [= <-].
    pose proof (in_eq y r) as Hy. rewrite <- Hf in Hy.
    apply filter_In in Hy as [Hy Heq]. apply str_eqb_eq in Heq. destruct y as [[n0 x0] e0]. cbn [fst snd] in *. subst. eauto.
  Qed.

  Lemma known_issued x n' e' : In (n', x, e') (all_sids (mg s) ++ all_sids (mg s')) -> issued F x = true.
  Proof.
    intros H. apply in_app_or in H as [H|H].
    - apply (all_sids_eio _ _ _ _ (proj1 HL0)) in H. destruct (eio_below s x n' e' HI H) as (k & Hk & ->). apply issued_below. lia.
    - apply (all_sids_eio _ _ _ _ (proj1 HL0')) in H. destruct (eio_below s' x n' e' HI' H) as (k & Hk & ->). apply issued_below. lia.
  Qed.

  Lemma ns_of_own e n' : eio_from_sid (mg s) sid ns = Some e -> ns_of_sid s s' sid = Some n' -> n' = ns.
  Proof.
    intros He. unfold ns_of_sid. rewrite filter_app.
    destruct (filter _ (all_sids (mg s))) as [|y r] eqn:Hf.
    - exfalso. assert (Hin : In (ns, sid, e) (filter (fun x0 : str * str * str => str_eqb (snd (fst x0)) sid) (all_sids (mg s)))).
      { apply filter_In. split; [apply eio_all_sids; exact He|apply str_eqb_refl]. }
      rewrite Hf in Hin. destruct Hin.
    - cbn [app]. intros [= <-]. pose proof (in_eq y r) as Hy. rewrite <- Hf in Hy.
      apply filter_In in Hy as [Hy Heq]. apply str_eqb_eq in Heq. destruct y as [[n0 x0] e0]. cbn [fst snd] in *. subst x0.
      apply (all_sids_eio _ _ _ _ (proj1 HL0)) in Hy. exact (H1ns n0 ns sid e0 e Hy He).
  Qed.

  Lemma sid_in_args_in args x n' :
    sid_in_args s s' args = Some (x, n') -> In (PStr x) args /\ ns_of_sid s s' x = Some n'.
  Proof.
    unfold sid_in_args. destruct (flat_map _ args) as [|y r] eqn:Hf; [discriminate|]. intros [= ->].
    pose proof (in_eq (x, n') r) as Hy. rewrite <- Hf in Hy.
    apply in_flat_map in Hy as (a & Ha & Hin). destruct a; try destruct Hin.
    destruct (ns_of_sid s s' s0) eqn:E; [|destruct Hin]. destruct Hin as [[= -> ->]|[]]. auto.
  Qed.

  Definition call_ok (a : list pv) : Prop :=
    In (PStr sid) a \/ forall x, In (PStr x) a -> x = ns \/ x = s2l "disconnect".

  Lemma TR_block h args body : call_ok args -> Forall EB body -> TR (Call h args :: body).
  Proof.
    intros Hok Hb Hown cur. cbn [calls_own forallb] in Hown. apply andb_true_iff in Hown as [Ho _].
    cbn [handler_reads_ok]. apply body_ok; [exact Hb|].
    destruct (sid_in_args s s' args) as [[x n']|] eqn:Hsa; [|exact I]. cbn [cur_ok]. intros e He.
    apply sid_in_args_in in Hsa as [Hx Hn]. destruct (ns_of_sid_in _ _ Hn) as (e' & Hk).
    pose proof (known_issued _ _ _ Hk) as Ix.
    assert (Is : issued F sid = true).
    { destruct (eio_below s sid ns e HI He) as (k & Hk0 & ->). apply issued_below. lia. }
    assert (x = sid).
    { destruct Hok as [Hs|Hs]; [eapply args_own_eq; eauto|]. exfalso. destruct (Hs x Hx) as [->| ->].
      - rewrite (Hnsok ns sid e (eio_all_sids _ _ _ _ He)) in Ix. discriminate.
      - apply issued_name in Ix as (k & Ek).
        assert (Hh : hd 0 (s2l "disconnect") = hd 0 (sid_name k)) by (rewrite Ek; reflexivity).
        vm_compute in Hh. discriminate Hh. }
    subst x. rewrite (ns_of_own e n' He Hn). apply HL; [exact He|eapply eio_live; eauto].
  Qed.

  Lemma pt_call_handler hid args : call_ok args -> presT JR TR (call_handler c hid ns sid args).
  Proof.
    intros Hok s1 HJ. unfold call_handler.
    destruct (aget N.eqb (behav c) hid) as [b|] eqn:Hb; [|apply hp_raise; split; [auto|apply TR_nil]].
    destruct (match h_arity b with Some n => negb (Nat.eqb n (List.length args)) | None => false end);
      [apply hp_raise; split; [auto|apply TR_nil]|].
    apply hp_bind. apply hp_tell. apply hp_bind.
    assert (Hbody : pres JR EB (forM (h_actions b) (run_action c ns sid))).
    { apply pres_forM. intros a Ha. eapply EB_action; eauto. }
    eapply hp_conseq; [apply Hbody; exact HJ|].
    intros r s2 es [HJ2 HE]. destruct r as [u|x].
    - destruct (h_outcome b); [apply hp_ret|apply hp_raise|apply hp_raise]; (split; [exact HJ2|]);
        cbn [app]; rewrite ?app_nil_r; apply TR_block; auto.
    - split; [exact HJ2|]. cbn [app]. apply TR_block; auto.
  Qed.

  Lemma pt_cwr ev hid args :
    call_ok args -> (is_disconnect ev = true -> call_ok (removelast args)) ->
    presT JR TR (call_with_retry c ev hid ns sid args).
  Proof.
    intros H1 H2. unfold call_with_retry. apply (pt_catch JR TR TR_app); [apply pt_call_handler; auto|].
    intros x k Hx. destruct x; try discriminate. destruct (is_disconnect ev); [|discriminate].
    injection Hx as <-. apply pt_call_handler; auto.
  Qed.

  Lemma pt_trigger ev args :
    arg_sid args = sid ->
    (forall a, derived ev ns args a -> call_ok a /\ (is_disconnect ev = true -> call_ok (removelast a))) ->
    presT JR TR (trigger_event c ev ns args).
  Proof.
    intros Hsid Hd. unfold trigger_event. rewrite Hsid.
    destruct (is_unhashable ev && _); [apply (pt_raise JR TR TR_nil)|].
    destruct (get_event_handler c ev ns args) as [[h args']|] eqn:Hg.
    - apply get_event_handler_derived in Hg. destruct (Hd _ Hg).
      apply (pt_bind JR TR TR_app); [apply pt_cwr; auto|]. intros v. apply (pt_ret JR TR TR_nil).
    - destruct (get_namespace_handler c ns args) as [[methods args']|] eqn:Hn; [|apply (pt_ret JR TR TR_nil)].
      apply (get_namespace_handler_derived c ev) in Hn. destruct (Hd _ Hn).
      destruct ev; try (destruct (truthy _); [apply (pt_raise JR TR TR_nil)|apply (pt_ret JR TR TR_nil)]).
      destruct (aget str_eqb methods s0) as [h|]; [|apply (pt_ret JR TR TR_nil)].
      apply (pt_bind JR TR TR_app); [apply pt_cwr; auto|]. intros v. apply (pt_ret JR TR TR_nil).
  Qed.

  Lemma derived_ok ev rest a :
    derived ev ns (PStr sid :: rest) a -> call_ok a /\ (is_disconnect ev = true -> call_ok (removelast a)).
  Proof.
    intros Hd.
    assert (Hpre : exists pre, a = pre ++ PStr sid :: rest /\
                   (is_disconnect ev = true -> forall x, In (PStr x) pre -> x = ns \/ x = s2l "disconnect")).
    { destruct Hd as [->|[->|[->| ->]]]; [exists []|exists [ev]|exists [PStr ns]|exists [ev; PStr ns]];
        (split; [reflexivity|]); intros Hev x Hin; unfold is_disconnect in Hev; apply pv_eqb_eq in Hev; subst ev;
        cbn [In] in Hin; repeat (destruct Hin as [[= <-]|Hin]; [auto|]); destruct Hin. }
    destruct Hpre as (pre & -> & Hpre). split.
    - left. apply in_or_app. right. left. reflexivity.
    - intros Hev. rewrite removelast_app by discriminate. destruct rest as [|y r].
      + right. cbn [removelast]. rewrite app_nil_r. apply Hpre. exact Hev.
      + left. apply in_or_app. right. left. reflexivity.
  Qed.
  End At.

  Lemma pt_leaf {A} (m : SM A) : reach m -> pres KR noret m -> presT JR TR m.
  Proof. intros Hr Hp. apply (pt_of_pres JR TR noret); [apply TR_noret|apply JR_leaf; auto]. Qed.
  Lemma pt_leaf_at {A} (m : SM A) s1 :
    JR s1 -> reach_at m s1 -> pres KR noret m -> hp s1 m (fun _ s2 es => JR s2 /\ TR es).
  Proof.
    intros [Hst HK] Hr Hp. unfold reach_at, Lifecycle.st in Hr. specialize (Hp s1 HK). unfold hp in *.
    destruct (m s1) as [[s2 es] r]. cbn [fst] in Hr. destruct Hp as [HK2 HE].
    split; [split; [eapply star_trans; eauto|exact HK2]|apply TR_noret; exact HE].
  Qed.
  Lemma hp_bind_pt {A B} (m : SM A) (k : A -> SM B) s1 :
    hp s1 m (fun _ s2 es => JR s2 /\ TR es) -> (forall a, presT JR TR (k a)) ->
    hp s1 (bindM m k) (fun _ s2 es => JR s2 /\ TR es).
  Proof.
    intros Hm Hk. apply hp_bind. eapply hp_conseq; [exact Hm|].
    intros [a|x] s2 e1 [H1 F1]; [|auto].
    eapply hp_conseq; [apply Hk, H1|]. intros r s3 e2 [H2 F2]. split; [auto|apply TR_app; auto].
  Qed.

  Lemma pt_send eio t data ns id : presT JR TR (send_packet c eio t data ns id).
  Proof. apply pt_leaf; [apply reach_send_packet|apply KR_send; intros; exact I]. Qed.

  Lemma pt_handle_event eio pns id data : presT JR TR (handle_event c eio pns id data).
  Proof.
    unfold handle_event. apply (pt_bind JR TR TR_app); [apply (pt_getS JR TR TR_nil)|]. intros s0.
    apply (pt_bind JR TR TR_app); [apply (pt_lift JR TR TR_nil)|]. intros ea.
    destruct (negb _); [apply (pt_ret JR TR TR_nil)|].
    destruct (sid_from_eio _ _ _) as [sid|]; [|apply (pt_ret JR TR TR_nil)].
    apply (pt_bind JR TR TR_app).
    - apply (pt_trigger (ns_or_default pns) sid (ns_or_default_nonnil pns)); [reflexivity|]. intros a. apply derived_ok.
    - intros r. destruct r; [|apply (pt_ret JR TR TR_nil)]. destruct id; [|apply (pt_ret JR TR TR_nil)]. apply pt_send.
  Qed.

  Lemma pt_handle_ack eio pns id data : presT JR TR (handle_ack c eio pns id data).
  Proof.
    apply pt_leaf; [apply reach_handle_ack|].
    unfold handle_ack. apply pres_bind; [apply pres_getS|]. intros s0.
    apply pres_bind; [apply KR_with_mg|]. intros t. destruct t; [apply pres_ret|].
    apply pres_bind; [apply pres_lift|]. intros args. apply pres_tell. exact I.
  Qed.

  Lemma pt_disc_tail ns sid reason :
    ns <> [] ->
    presT JR TR (finallyM (_ <~ trigger_event c (PStr (s2l "disconnect")) ns [PStr sid; reason] ;; ret tt)
                          (set_mg (fun m => mgr_disconnect m sid ns))).
  Proof.
    intros Hne. apply (pt_finally JR TR TR_app); [|apply pt_leaf; [apply reach_set_mg_disc|apply KR_set_mg]].
    apply (pt_bind JR TR TR_app); [|intros; apply (pt_ret JR TR TR_nil)].
    apply (pt_trigger ns sid Hne); [reflexivity|]. intros a. apply derived_ok.
  Qed.

  Lemma pt_handle_disconnect eio pns reason : presT JR TR (handle_disconnect c eio pns reason).
  Proof.
    unfold handle_disconnect. apply (pt_getS_bind JR TR). intros s1 HJ.
    destruct (is_connected (mg s1) (sid_from_eio (mg s1) eio (ns_or_default pns)) (ns_or_default pns)) eqn:Hcn;
      cbn [negb]; [|apply hp_ret; split; [exact HJ|apply TR_nil]].
    destruct (sid_from_eio (mg s1) eio (ns_or_default pns)) as [sid|]; [|apply hp_ret; split; [exact HJ|apply TR_nil]].
    apply hp_bind_pt.
    - apply pt_leaf_at; [exact HJ| |apply KR_with_mg].
      apply reach_at_with_mg. apply P_pre. left. eapply connected_in_rooms. exact Hcn.
    - intros r. apply (pt_bind JR TR TR_app); [apply (pt_lift JR TR TR_nil)|]. intros u.
      apply pt_disc_tail. apply ns_or_default_nonnil.
  Qed.

  Lemma pt_api_disconnect sid pns : presT JR TR (api_disconnect c sid pns).
  Proof.
    unfold api_disconnect. apply (pt_getS_bind JR TR). intros s1 HJ.
    destruct (is_connected (mg s1) (Some sid) (ns_or_default pns)) eqn:Hcn;
      cbn [negb]; [|apply hp_ret; split; [exact HJ|apply TR_nil]].
    apply hp_bind_pt.
    - apply pt_leaf_at; [exact HJ| |apply KR_with_mg].
      apply reach_at_with_mg. apply P_pre. left. eapply connected_in_rooms. exact Hcn.
    - intros r. apply (pt_bind JR TR TR_app); [apply (pt_lift JR TR TR_nil)|]. intros eio.
      apply (pt_bind JR TR TR_app); [apply pt_send|]. intros _.
      apply pt_disc_tail. apply ns_or_default_nonnil.
  Qed.

  Lemma pt_handle_eio_disconnect eio reason : presT JR TR (handle_eio_disconnect c eio reason).
  Proof.
    unfold handle_eio_disconnect. apply (pt_bind JR TR TR_app); [apply (pt_getS JR TR TR_nil)|]. intros s0.
    apply (pt_bind JR TR TR_app); [apply (pt_forM_keep JR TR TR_nil TR_app); intros; apply pt_handle_disconnect|].
    intros exc. apply (pt_bind JR TR TR_app).
    - apply pt_leaf.
      + apply reach_other. intros s1. eexists _, _, _, _. reflexivity.
      + apply pres_modify. intros s1 [A B]. split; [exact A|exact B].
    - intros _. destruct exc; [apply (pt_raise JR TR TR_nil)|apply (pt_ret JR TR TR_nil)].
  Qed.

  (* ---- the CONNECT path: the handler runs for a session id issued in this very step ---- *)
  Variable seen : list skey.
  Hypothesis Hun : forall k n, fresh s <= k -> s_get st (sid_name k) n = PDict [].
  Hypothesis Hem : forall e n, ~ In (e, n) seen -> sess_val s e n = PDict [].
  Hypothesis Hjoin : join_ok s s' seen = true.

  Section Conn.
    Variables (sc : srv) (ns eio : str).
    Hypothesis Hnsne : ns <> [].
    Hypothesis HIsc : Lifecycle.Inv sc.
    Hypothesis Hfsc : fresh s < fresh sc.
    Hypothesis Hxsc : forall n e, eio_from_sid (mg sc) (sid_name (fresh s)) n = Some e -> n = ns /\ e = eio.
    (* known once the step is over *)
    Hypothesis Hfin1 : fresh s < F.
    Hypothesis Hfin2 : forall n e, eio_from_sid (mg s') (sid_name (fresh s)) n = Some e -> n = ns /\ e = eio.

    Definition KC (s1 : srv) : Prop := forall e n, sess_val s1 e n = sess_val s e n.
    Definition JC (s1 : srv) : Prop := Lifecycle.star sc s1 /\ KC s1.

    Lemma JC_at s1 e : JC s1 -> eio_from_sid (mg s1) (sid_name (fresh s)) ns = Some e -> e = eio.
    Proof.
      intros [Hst _] He. destruct (star_members sc s1 Hst HIsc _ ns e He) as [H|(k & Hk & E)].
      - apply Hxsc in H. tauto.
      - apply Lifecycle.sid_name_inj in E. lia.
    Qed.
    Lemma JC_leaf {A} (E : eff -> Prop) (m : SM A) : reach m -> pres KC E m -> pres JC E m.
    Proof.
      intros Hr Hp s1 [Hst HK]. specialize (Hr s1). unfold reach_at, Lifecycle.st in Hr. specialize (Hp s1 HK). unfold hp in *.
      destruct (m s1) as [[s2 es] r]. cbn [fst] in Hr. destruct Hp as [HK2 HE].
      split; [split; [eapply star_trans; eauto|exact HK2]|exact HE].
    Qed.
    Lemma KC_with_mg {A} (E : eff -> Prop) (f : mgr -> mgr * A) : pres KC E (with_mg f).
    Proof. apply pres_with_mg. intros s1 H. exact H. Qed.
    Lemma KC_set_mg (E : eff -> Prop) f : pres KC E (set_mg f).
    Proof. apply pres_set_mg. intros s1 H. exact H. Qed.

    Definition EC (y : eff) : Prop :=
      match y with Ret v => v = sess_val s eio ns | Call _ _ => False | _ => True end.

    Lemma EC_action hid b a :
      aget N.eqb (behav c) hid = Some b -> In a (h_actions b) -> pres JC EC (run_action c ns (sid_name (fresh s)) a).
    Proof.
      intros Hb Ha. apply aget_In in Hb as (hid' & Hin & _). specialize (Hns _ _ _ Hin Ha).
      assert (Hnd : ns_or_default (Some ns) = ns) by (destruct ns; [contradiction|reflexivity]).
      destruct a; [apply JC_leaf; [apply reach_run_action|]..|]; cbn [run_action].
      - apply pres_bind; [apply KC_with_mg|intros r; apply pres_lift].
      - apply KC_set_mg.
      - apply mgr_emit_nocb_pres. intros; exact I.
      - apply mgr_emit_nocb_pres. intros; exact I.
      - destruct Hns.
      - intros s2 HJ. apply hp_bind. unfold hp.
        destruct (eio_from_sid (mg s2) (sid_name (fresh s)) ns) as [e0|] eqn:He.
        2:{ rewrite api_get_session_dead by (rewrite Hnd, He; exact I). split; [exact HJ|constructor]. }
        destruct (in_dec (list_eq_dec N.eq_dec) e0 (live s2)) as [Hl|Hnl].
        2:{ rewrite api_get_session_dead by (rewrite Hnd, He; exact Hnl). split; [exact HJ|constructor]. }
        pose proof (api_get_session_run (sid_name (fresh s)) (Some ns) s2 e0) as R. rewrite Hnd in R. rewrite (R He Hl). unfold tell.
        rewrite app_nil_l. pose proof (JC_at s2 e0 HJ He) as ->. split.
        + destruct HJ as [Hst Hsv]. destruct (sess_at s2 eio ns) eqn:Hat; [split; assumption|].
          split.
          * eapply star_trans; [exact Hst|]. apply star_one. unfold put_sess, with_sessions. apply P_other.
          * intros e n. rewrite sess_val_put_fill by exact Hat. apply Hsv.
        + constructor; [|constructor]. apply HJ.
    Qed.

    Lemma body_ok_c body : Forall EC body -> forall cur,
      match cur with None => True | Some (x', n') => s_get st x' n' = sess_val s eio ns end ->
      handler_reads_ok s s' st cur body = true.
    Proof.
      induction 1 as [|y l Hy _ IH]; intros cur Hcur; [reflexivity|].
      destruct y; cbn [handler_reads_ok]; try (apply IH; exact Hcur).
      - destruct Hy.
      - cbn [EC] in Hy. subst v. rewrite (IH cur Hcur), andb_true_r.
        destruct cur as [[x' n']|]; [|reflexivity]. rewrite Hcur. apply pv_eqb_refl.
    Qed.

    Lemma TR_block_c h args body : In (PStr (sid_name (fresh s))) args -> Forall EC body -> TR (Call h args :: body).
    Proof.
      intros Hin Hb Hown cur. cbn [calls_own forallb] in Hown. apply andb_true_iff in Hown as [Ho _].
      cbn [handler_reads_ok]. apply body_ok_c; [exact Hb|].
      destruct (sid_in_args s s' args) as [[x' n']|] eqn:Hsa; [|exact I].
      apply sid_in_args_in in Hsa as [Hx' Hn]. destruct (ns_of_sid_in _ _ Hn) as (e' & Hk).
      assert (Ix' : issued F x' = true) by (eapply known_issued; first [exact Hk | exact ns | exact Hnsne]).
      assert (Ix : issued F (sid_name (fresh s)) = true) by (apply issued_below; exact Hfin1).
      assert (x' = sid_name (fresh s)) by (eapply args_own_eq; eauto). subst x'.
      assert (Hnot : forall n0 e0, ~ In (n0, sid_name (fresh s), e0) (all_sids (mg s))).
      { intros n0 e0 H0. apply (all_sids_eio _ _ _ _ (proj1 HL0)) in H0.
        destruct (eio_below s _ n0 e0 HI H0) as (k & Hk0 & E). apply Lifecycle.sid_name_inj in E. lia. }
      apply in_app_or in Hk as [Hk|Hk]; [exfalso; exact (Hnot _ _ Hk)|].
      pose proof (all_sids_eio _ _ _ _ (proj1 HL0') Hk) as Hs'. destruct (Hfin2 _ _ Hs') as [-> ->].
      destruct (join_ok_spec s s' seen ns _ eio Hjoin Hk) as [Hin0|Hnew]; [exfalso; exact (Hnot _ _ Hin0)|].
      rewrite (Hem eio ns Hnew). apply Hun. lia.
    Qed.

    Lemma pt_call_handler_c hid args :
      In (PStr (sid_name (fresh s))) args -> presT JC TR (call_handler c hid ns (sid_name (fresh s)) args).
    Proof.
      intros Hok s1 HJ. unfold call_handler.
      destruct (aget N.eqb (behav c) hid) as [b|] eqn:Hb; [|apply hp_raise; split; [auto|apply TR_nil]].
      destruct (match h_arity b with Some n => negb (Nat.eqb n (List.length args)) | None => false end);
        [apply hp_raise; split; [auto|apply TR_nil]|].
      apply hp_bind. apply hp_tell. apply hp_bind.
      assert (Hbody : pres JC EC (forM (h_actions b) (run_action c ns (sid_name (fresh s))))).
      { apply pres_forM. intros a Ha. eapply EC_action; eauto. }
      eapply hp_conseq; [apply Hbody; exact HJ|].
      intros r s2 es [HJ2 HE]. destruct r as [u|x].
      - destruct (h_outcome b); [apply hp_ret|apply hp_raise|apply hp_raise]; (split; [exact HJ2|]);
          cbn [app]; rewrite ?app_nil_r; apply TR_block_c; auto.
      - split; [exact HJ2|]. cbn [app]. apply TR_block_c; auto.
    Qed.

    Lemma pt_trigger_c args :
      arg_sid args = sid_name (fresh s) ->
      (forall a, derived (PStr (s2l "connect")) ns args a -> In (PStr (sid_name (fresh s))) a) ->
      presT JC TR (trigger_event c (PStr (s2l "connect")) ns args).
    Proof.
      intros Hsid Hd.
      assert (Hcwr : forall hid a, In (PStr (sid_name (fresh s))) a ->
                presT JC TR (call_with_retry c (PStr (s2l "connect")) hid ns (sid_name (fresh s)) a)).
      { intros hid a Ha. unfold call_with_retry. apply (pt_catch JC TR TR_app); [apply pt_call_handler_c; exact Ha|].
        intros x k Hx. destruct x; discriminate. }
      unfold trigger_event. rewrite Hsid.
      destruct (is_unhashable _ && _); [apply (pt_raise JC TR TR_nil)|].
      destruct (get_event_handler c _ ns args) as [[h args']|] eqn:Hg.
      - apply get_event_handler_derived in Hg.
        apply (pt_bind JC TR TR_app); [apply Hcwr; auto|]. intros v. apply (pt_ret JC TR TR_nil).
      - destruct (get_namespace_handler c ns args) as [[methods args']|] eqn:Hn; [|apply (pt_ret JC TR TR_nil)].
        apply (get_namespace_handler_derived c (PStr (s2l "connect"))) in Hn.
        destruct (aget str_eqb methods (s2l "connect")) as [h|]; [|apply (pt_ret JC TR TR_nil)].
        apply (pt_bind JC TR TR_app); [apply Hcwr; auto|]. intros v. apply (pt_ret JC TR TR_nil).
    Qed.

    Lemma ptc_leaf {A} (m : SM A) : reach m -> pres KC noret m -> presT JC TR m.
    Proof. intros Hr Hp. apply (pt_of_pres JC TR noret); [apply TR_noret|apply JC_leaf; auto]. Qed.
    Lemma ptc_send e0 t data n0 id : presT JC TR (send_packet c e0 t data n0 id).
    Proof. apply ptc_leaf; [apply reach_send_packet|apply send_packet_pres; intros; exact I]. Qed.

    Lemma derived_c rest a :
      derived (PStr (s2l "connect")) ns (PStr (sid_name (fresh s)) :: rest) a -> In (PStr (sid_name (fresh s))) a.
    Proof. intros [->|[->|[->| ->]]]; cbn [In]; auto. Qed.

    Lemma pt_connect_rest data envs :
      presT JC TR (connect_rest c eio ns data envs (Some (sid_name (fresh s)))).
    Proof.
      cbn [connect_rest].
      apply (pt_bind JC TR TR_app); [destruct (always_connect c); [apply ptc_send|apply (pt_ret JC TR TR_nil)]|]. intros _.
      apply (pt_bind JC TR TR_app); [destruct (aget str_eqb envs eio); [apply (pt_ret JC TR TR_nil)|apply (pt_raise JC TR TR_nil)]|].
      intros env. apply (pt_bind JC TR TR_app).
      { apply (pt_catch JC TR TR_app).
        - apply (pt_bind JC TR TR_app); [|intros; apply (pt_ret JC TR TR_nil)].
          destruct (truthy data); [apply pt_trigger_c; [reflexivity|intros a; apply derived_c]|].
          apply (pt_catch JC TR TR_app); [apply pt_trigger_c; [reflexivity|intros a; apply derived_c]|].
          intros x k Hx. destruct x; try discriminate. injection Hx as <-.
          apply pt_trigger_c; [reflexivity|intros a; apply derived_c].
        - intros x k Hx. destruct x; try discriminate. injection Hx as <-. apply (pt_ret JC TR TR_nil). }
      intros [success fail_reason].
      destruct (match success with Some v => pv_eqb v (PBool false) | None => false end).
      - apply (pt_finally JC TR TR_app); [|apply ptc_leaf; [apply reach_set_mg_disc|apply KC_set_mg]].
        destruct (always_connect c); [|apply ptc_send].
        intros s1 HJ. apply hp_bind.
        assert (Hpre : hp s1 (with_mg (fun m => pre_disconnect m (sid_name (fresh s)) ns)) (fun _ s2 es => JC s2 /\ TR es)).
        { destruct HJ as [Hst HK]. pose proof (star_fresh _ _ Hst) as Hfr.
          assert (Hr : reach_at (with_mg (fun m => pre_disconnect m (sid_name (fresh s)) ns)) s1).
          { apply reach_at_with_mg. apply P_pre. right. exists (fresh s). split; [lia|reflexivity]. }
          unfold reach_at, Lifecycle.st in Hr. pose proof (KC_with_mg noret (fun m => pre_disconnect m (sid_name (fresh s)) ns) s1 HK) as Hp.
          unfold hp in *. destruct (with_mg _ s1) as [[s2 es] r]. cbn [fst] in Hr. destruct Hp as [HK2 HE].
          split; [split; [eapply star_trans; eauto|exact HK2]|apply TR_noret; exact HE]. }
        eapply hp_conseq; [exact Hpre|]. intros [r|x0] s2 e1 [H1 F1]; [|auto].
        eapply hp_conseq; [apply (pt_bind JC TR TR_app (lift r)); [apply (pt_lift JC TR TR_nil)|intros u; apply ptc_send|exact H1]|].
        intros r2 s3 e2 [H2 F2]. split; [auto|apply TR_app; auto].
      - destruct (always_connect c); [apply (pt_ret JC TR TR_nil)|apply ptc_send].
    Qed.
  End Conn.

  (* the judgement for the tail of a step: the final state is s' *)
  Definition endT {A} (m : SM A) : Prop :=
    forall s1, JR s1 -> hp s1 m (fun _ s2 es => s2 = s' -> TR es).
  Lemma end_of_pt {A} (m : SM A) : presT JR TR m -> endT m.
  Proof. intros Hm s1 HJ. eapply hp_conseq; [apply Hm, HJ|]. intros r s2 es [_ HT] _. exact HT. Qed.
  Lemma end_bind {A B} (m : SM A) (k : A -> SM B) : presT JR TR m -> (forall a, endT (k a)) -> endT (bindM m k).
  Proof.
    intros Hm Hk s1 HJ. apply hp_bind. eapply hp_conseq; [apply Hm, HJ|].
    intros [a|x] s2 e1 [H1 F1]; [|intros _; exact F1].
    eapply hp_conseq; [apply Hk, H1|]. intros r s3 e2 H2 Hfr. apply TR_app; auto.
  Qed.
  Lemma end_contain (m : SM unit) : endT m -> endT (contain m).
  Proof. intros Hm s1 HJ. apply hp_contain. eapply hp_conseq; [apply Hm, HJ|]. auto. Qed.

  Lemma end_connect eio pns data : endT (handle_connect c eio pns data).
  Proof.
    intros s1 HJ. set (ns := ns_or_default pns).
    assert (Hnsne : ns <> []) by apply ns_or_default_nonnil.
    assert (HI1 : Lifecycle.Inv s1) by (eapply star_Inv; [apply HJ|exact HL0]).
    assert (Hf1 : fresh s1 = fresh s) by apply HJ.
    assert (Hsend : forall s2 e0 t d n0 i, hp s2 (send_packet c e0 t d n0 i) (fun _ s3 es => s3 = s' -> TR es)).
    { intros. eapply hp_conseq; [apply (send_packet_pres (fun _ : srv => True) noret); [intros; exact I|exact I]|].
      intros ? ? ? [_ HE] _. apply TR_noret; exact HE. }
    rewrite handle_connect_split. apply hp_getS_bind. fold ns.
    destruct (served c ns).
    2:{ apply hp_bind. apply hp_ret. cbn [connect_rest]. apply Hsend. }
    apply hp_bind. apply hp_bind. apply hp_putS. apply hp_with_mg. cbn [mg].
    destruct (sid_from_eio (mg s1) eio ns) as [s0|] eqn:Hs.
    { (* the transport is already connected to ns: rejected by the manager *)
      assert (Hne : s0 <> new_sid s1) by (intro; subst; exact (fresh_not_sid_from_eio s1 HI1 eio ns Hs)).
      unfold sid_from_eio in Hs. destruct (room_of (mg s1) ns PNone) as [b|] eqn:Hb; [|discriminate].
      unfold new_sid in Hne.
      rewrite (mgr_connect_dup _ _ _ _ _ _ Hb Hs Hne). cbn [fst snd connect_rest]. apply Hsend. }
    destruct (mgr_connect_new (mg s1) eio ns (sid_name (fresh s1)) Hs) as (Hsnd & Hroom & _ & _ & Hf).
    rewrite Hsnd.
    set (sc := upd_mg _ _).
    assert (HIsc : Lifecycle.Inv sc) by exact (prim_conn_Inv s1 eio ns HI1 Hnsne).
    assert (Hfsc : fresh s < fresh sc) by (unfold sc; cbn [fresh upd_mg]; lia).
    assert (Hxsc : forall n e, eio_from_sid (mg sc) (sid_name (fresh s)) n = Some e -> n = ns /\ e = eio).
    { rewrite <- Hf1. intros n e He. unfold sc in He. cbn [mg upd_mg] in He. destruct (str_eqb ns n) eqn:E.
      - apply str_eqb_eq in E. subst n. split; [reflexivity|]. unfold eio_from_sid in He. rewrite Hroom in He.
        unfold bd_get in He. rewrite (xaget_aset_eq _ str_eqb_eq) in He. congruence.
      - exfalso. unfold eio_from_sid in He. rewrite room_of_none, Hf in He by (intro; subst; rewrite str_eqb_refl in E; discriminate).
        pose proof (fresh_no_eio s1 HI1 n) as H0. unfold eio_from_sid, new_sid in H0. rewrite room_of_none in H0. congruence. }
    assert (Hr : reach_at (connect_rest c eio ns data (environ s1) (Some (sid_name (fresh s1)))) sc).
    { apply reach_at_connect_rest. intros sid0 [= <-]. exists (fresh s1). split; [unfold sc; cbn [fresh upd_mg]; lia|reflexivity]. }
    assert (HJC : JC sc sc).
    { split; [apply star_refl|]. intros e n. destruct HJ as [_ [_ Hsv]]. rewrite <- Hsv. reflexivity. }
    assert (Hpt : fresh s < F ->
                  (forall n e, eio_from_sid (mg s') (sid_name (fresh s)) n = Some e -> n = ns /\ e = eio) ->
                  hp sc (connect_rest c eio ns data (environ s1) (Some (sid_name (fresh s))))
                     (fun _ s2 es => JC sc s2 /\ TR es)).
    { intros H1 H2. eapply pt_connect_rest; eauto. }
    rewrite Hf1 in Hr |- *. unfold hp, reach_at, Lifecycle.st in *.
    destruct (connect_rest c eio ns data (environ s1) (Some (sid_name (fresh s))) sc) as [[s2 es] r]. cbn [fst] in Hr.
    cbn beta iota. intros Heq. cbn [app].
    assert (H1 : fresh s < F).
    { pose proof (star_fresh _ _ Hr) as Hm. rewrite Heq in Hm. lia. }
    assert (H2 : forall n e, eio_from_sid (mg s') (sid_name (fresh s)) n = Some e -> n = ns /\ e = eio).
    { intros n e He. rewrite <- Heq in He. destruct (star_members sc s2 Hr HIsc _ n e He) as [H|(k & Hk & E)].
      - apply Hxsc. exact H.
      - apply Lifecycle.sid_name_inj in E. lia. }
    apply (Hpt H1 H2).
  Qed.

  Lemma end_handle_eio_message loads eio payload : endT (handle_eio_message c loads eio payload).
  Proof.
    unfold handle_eio_message. apply end_bind; [apply (pt_getS JR TR TR_nil)|]. intros s0.
    destruct (aget str_eqb (binpkt s0) eio) as [r|].
    - apply end_of_pt. destruct (add_attachment r payload) as [[r' [|]]|x].
      + apply (pt_bind JR TR TR_app); [apply pt_leaf; [apply reach_set_binpkt|apply KR_set_binpkt]|]. intros _.
        destruct (type_is _ _); [apply pt_handle_event|apply pt_handle_ack].
      + apply pt_leaf; [apply reach_set_binpkt|apply KR_set_binpkt].
      + apply (pt_bind JR TR TR_app); [|intros; apply (pt_raise JR TR TR_nil)].
        destruct (N.leb _ _); [apply (pt_ret JR TR TR_nil)|apply pt_leaf; [apply reach_set_binpkt|apply KR_set_binpkt]].
    - apply end_bind; [apply (pt_lift JR TR TR_nil)|]. intros r.
      destruct (type_is _ CONNECT); [apply end_connect|]. apply end_of_pt.
      destruct (type_is _ DISCONNECT); [apply pt_handle_disconnect|].
      destruct (type_is _ EVENT); [apply pt_handle_event|].
      destruct (type_is _ ACK); [apply pt_handle_ack|].
      destruct (_ || _); [apply pt_leaf; [apply reach_set_binpkt|apply KR_set_binpkt]|apply (pt_raise JR TR TR_nil)].
  Qed.

  Lemma reads_step o :
    match o with EioMessage _ _ _ | EioClose _ _ | ApiDisconnect _ _ => True | _ => False end ->
    fst (step c s o) = s' -> TR (snd (step c s o)).
  Proof.
    intros Ho. apply (hp_step c s o (fun s2 es => s2 = s' -> TR es)).
    assert (HJ : JR s) by (split; [apply star_refl|split; reflexivity]).
    assert (Conv : forall m : SM unit, endT m -> hp s m (fun _ s2 es => s2 = s' -> TR es)).
    { intros m Hm. apply Hm. exact HJ. }
    destruct o; try contradiction; cbn [step_m]; apply Conv.
    - apply end_bind; [apply (pt_getS JR TR TR_nil)|]. intros s0.
      destruct (existsb _ _); [|apply end_of_pt; apply (pt_ret JR TR TR_nil)].
      apply end_contain. apply end_handle_eio_message.
    - apply end_bind; [apply (pt_getS JR TR TR_nil)|]. intros s0.
      destruct (existsb _ _); [|apply end_of_pt; apply (pt_ret JR TR TR_nil)].
      apply end_bind; [apply (pt_contain JR TR); apply pt_handle_eio_disconnect|]. intros _.
      intros s1 _. apply hp_modify. intros _. apply TR_nil.
    - apply end_of_pt. apply (pt_api JR TR TR_app); [|apply pt_api_disconnect].
      intros x. apply TR_noret. constructor; [exact I|constructor].
  Qed.
End Reads.


(* ------------------------------------------------------------------------------------ *)
(** * Whole histories with handlers that read *)

(* what the checker needs to attribute a handler's reads to a client (F = ids issued so far):
   - the session-id-like strings among the arguments of a Call are all the same,
   - no namespace in use is named like a session id *)
Definition reads_ok (s s' : srv) (obs : list eff) : bool :=
  calls_own (fresh s') obs &&
  forallb (fun x => negb (issued (fresh s') (fst (fst x)))) (all_sids (mg s)).
Fixpoint reads_attributable (c : cfg) (s : srv) (ops : list op) : bool :=
  match ops with
  | [] => true
  | o :: r => let s' := fst (step c s o) in reads_ok s s' (snd (step c s o)) && reads_attributable c s' r
  end.

Lemma reads_head c s st seen o :
  no_save_actions c -> cfg_ok c -> op_ok o -> FoldInv s st seen -> sid_one_ns (mg s) ->
  join_ok s (fst (step c s o)) seen = true ->
  reads_ok s (fst (step c s o)) (snd (step c s o)) = true ->
  match o with EioMessage _ _ _ | EioClose _ _ | ApiDisconnect _ _ => True | _ => False end ->
  handler_reads_ok s (fst (step c s o)) st None (snd (step c s o)) = true.
Proof.
  intros Hns Hc Ho [HI HL0 HL Hun Hem Hse] H1 Hj Hr Hk.
  apply andb_true_iff in Hr as [Hown Hn].
  refine (reads_step c Hns s (fst (step c s o)) st (fresh (fst (step c s o))) HI HL0 H1 HL _ _ _ _ _ seen Hun Hem Hj o Hk eq_refl Hown None).
  - apply step_Inv; auto.
  - apply Lifecycle.step_Inv; auto.
  - apply Lifecycle.step_fresh_mono.
  - apply N.le_refl.
  - intros n x e Hin. rewrite forallb_forall in Hn. specialize (Hn _ Hin). cbn [fst] in Hn.
    apply negb_true_iff in Hn. exact Hn.
Qed.

Lemma fold_step_reads c s st seen o :
  no_save_actions c -> cfg_ok c -> op_ok o -> FoldInv s st seen -> sid_one_ns (mg s) ->
  join_ok s (fst (step c s o)) seen = true ->
  reads_ok s (fst (step c s o)) (snd (step c s o)) = true ->
  c16_head c s st o (snd (step c s o)) = true /\
  (FoldInv (fst (step c s o)) (st_next s st o) (seen_next (fst (step c s o)) seen) /\
   sid_one_ns (mg (fst (step c s o)))).
Proof.
  intros Hns Hc Ho HF H1 Hj Hr. destruct (fold_step_inv c s st seen o Hns Hc Ho HF Hj) as [Hh HF'].
  split; [|split; [exact HF'|]].
  - destruct (sess_op o) eqn:Hso; [apply Hh; reflexivity|].
    assert (Hro := reads_head c s st seen o Hns Hc Ho HF H1 Hj Hr).
    destruct o; try discriminate; cbn [c16_head]; try reflexivity;
      (destruct (existsb _ (behav c)); [reflexivity|]; apply Hro; exact I).
  - apply (step_Inv1 c s o). split; [apply (fi_life _ _ _ HF)|exact H1].
Qed.

Theorem fold_accepts_reads c :
  no_save_actions c -> cfg_ok c ->
  forall ops, Forall op_ok ops -> forall s st seen, FoldInv s st seen -> sid_one_ns (mg s) ->
  no_ns_rejoin c s seen ops = true -> reads_attributable c s ops = true ->
  c16_fold c s st ops (snd (run c s ops)) = true.
Proof.
  intros Hns Hc ops Hops. induction Hops as [|o ops Ho _ IH]; intros s st seen HF H1 Hr Ha; [reflexivity|].
  cbn [no_ns_rejoin] in Hr. apply andb_true_iff in Hr as [Hj Hr].
  cbn [reads_attributable] in Ha. apply andb_true_iff in Ha as [Ha1 Ha].
  rewrite run_cons. cbn [snd]. rewrite c16_fold_cons.
  destruct (fold_step_reads c s st seen o Hns Hc Ho HF H1 Hj Ha1) as [Hh [HF' H1']].
  rewrite Hh. cbn [andb]. exact (IH _ _ _ HF' H1' Hr Ha).
Qed.

Theorem fold_accepts_reads_init c ops :
  no_save_actions c -> cfg_ok c -> Forall op_ok ops ->
  no_ns_rejoin c srv_init [] ops = true -> reads_attributable c srv_init ops = true ->
  c16_fold c srv_init [] ops (snd (run c srv_init ops)) = true.
Proof.
  intros Hns Hc Hops Hr Ha.
  apply (fold_accepts_reads c Hns Hc ops Hops srv_init [] [] FoldInv_init); auto.
  intros ns ns' sid e e' H. discriminate H.
Qed.

(* ---- non-vacuity: the connect, event and disconnect handlers read the session ---- *)
Definition r_cfg : cfg :=
  mkCfg [(y_ns, [(s2l "connect", 1); (s2l "msg", 2); (s2l "disconnect", 3)]); (y_nsa, [(s2l "connect", 1); (s2l "msg", 2)])] []
        [(1, mkBehav None [AGet; AEnter (PStr (s2l "lobby"))] (Returns PNone));
         (2, mkBehav None [AGet; AEmitRoom (s2l "hello") PNone (PStr (s2l "lobby")) true] (Returns (PInt 7)));
         (3, mkBehav None [AGet] (Raises RuntimeError))] None false true.

Lemma r_cfg_facts : no_save_actions r_cfg /\ cfg_ok r_cfg.
Proof.
  repeat split; intros hid b a Hin Ha; cbn in Hin; destruct Hin as [[= <- <-]|[[= <- <-]|[[= <- <-]|[]]]]; cbn in Ha;
    repeat (destruct Ha as [<-|Ha]; [try exact I; try (split; [discriminate|reflexivity])|]); try destruct Ha.
Qed.

Example r_hypotheses :
  no_save_actions r_cfg /\ cfg_ok r_cfg /\ Forall op_ok w_ops /\
  no_ns_rejoin r_cfg srv_init [] w_ops = true /\ reads_attributable r_cfg srv_init w_ops = true /\
  (* what the handlers read: the "msg" handler of S0 and the disconnect handler run when E1 is lost *)
  flat_map (fun es => if existsb (fun x => match x with Call _ _ => true | _ => false end) es
                      then flat_map (fun x => match x with Ret v => [v] | _ => [] end) es else [])
           (snd (run r_cfg srv_init w_ops)) =
    [PDict []; PDict []; PDict []; y_secret; y_secret; PDict []; PDict [(PStr (s2l "k"), PInt 3)]].
Proof.
  destruct r_cfg_facts as (A & B). split; [exact A|]. split; [exact B|].
  split; [repeat constructor|]. split; [vm_compute; reflexivity|]. split; vm_compute; reflexivity.
Qed.

Example r_accepted : c16_fold r_cfg srv_init [] w_ops (snd (run r_cfg srv_init w_ops)) = true.
Proof.
  destruct r_hypotheses as (A & B & C & D & E & _). apply fold_accepts_reads_init; assumption.
Qed.

(* the exclusion is necessary: the checker rejects the history of C16_fresh_refuted *)
Example y_rejected : c16_fold y_cfg srv_init [] y_ops (snd (run y_cfg srv_init y_ops)) = false.
Proof. vm_compute. reflexivity. Qed.

(* a session id lives in one namespace (LifecycleStep.sid_one_ns, restated for Props/C16.v) *)
Definition one_ns (s : srv) : Prop :=
  forall ns ns' sid e e', eio_from_sid (mg s) sid ns = Some e -> eio_from_sid (mg s) sid ns' = Some e' -> ns = ns'.
Lemma one_ns_eq s : one_ns s = sid_one_ns (mg s).
Proof. reflexivity. Qed.

(* the attribution hypothesis is needed: with a catch-all handler the event name precedes the
   session id among the handler's arguments; a client that names an event after another
   client's session id makes c16_fold (sid_in_args) compare the read with the wrong session,
   and the checker rejects the model's own - correct - run *)
Definition q_cfg : cfg :=
  mkCfg [(y_ns, [(s2l "connect", 1); (star, 2)])] []
        [(1, mkBehav None [] (Returns PNone)); (2, mkBehav None [AGet] (Returns PNone))] None false true.
Definition q_ops : list op :=
  [EioConnect y_e1 PNone; EioConnect y_e2 PNone;
   EioMessage y_e1 (PStr (s2l "0")) [];                  (* S0 = (E1, /) *)
   EioMessage y_e2 (PStr (s2l "0")) [];                  (* S1 = (E2, /) *)
   ApiSaveSession (sid_name 0) y_secret None;
   EioMessage y_e2 (PStr (s2l "2[""S0""]")) [(s2l "[""S0""]", Ok (PList [PStr (s2l "S0")]))]].

Theorem fold_attribution_refuted :
  exists c ops,
    no_save_actions c /\ cfg_ok c /\ Forall op_ok ops /\ no_ns_rejoin c srv_init [] ops = true /\
    last (snd (run c srv_init ops)) [] = [Call 2 [PStr (sid_name 0); PStr (sid_name 1)]; Ret (PDict [])] /\
    reads_attributable c srv_init ops = false /\
    c16_fold c srv_init [] ops (snd (run c srv_init ops)) = false.
Proof.
  exists q_cfg, q_ops. split; [|split; [|split; [repeat constructor|]]].
  - intros hid b a Hin Ha. cbn in Hin. destruct Hin as [[= <- <-]|[[= <- <-]|[]]]; cbn in Ha; [destruct Ha|].
    destruct Ha as [<-|[]]. exact I.
  - intros hid b a Hin Ha. cbn in Hin. destruct Hin as [[= <- <-]|[[= <- <-]|[]]]; cbn in Ha; [destruct Ha|].
    destruct Ha as [<-|[]]. exact I.
  - repeat split; vm_compute; reflexivity.
Qed.
