(* Re-entrancy at the send: while a broadcast (server.emit without callback) is writing its
   packets, another client's engine.io packet is processed from inside the send to one of the
   recipients (single-threaded: engine.io closing a client from inside a send; it also stands
   for the two-thread interleaving "the offender's thread runs between two sends").

   What the code does (manager.py emit + base_manager.py get_participants): the packet is
   encoded once and the participants are COPIED out of the room before the first send, so the
   set of recipients is decided before anything can interleave; each send looks the transport up
   at the time it happens (a transport that has been closed meanwhile gets nothing).  A broadcast
   without callback reads the manager state and writes nothing (emit_sends_plain in
   Server/EmitNestedProofs.v: the plain ApiEmit step is exactly `sends_live` of this list).
   Kept apart from Server.v / ServerX.v: `nop` wraps the plain operations and adds the new one. *)
From VT Require Export Server.Server.
Open Scope N_scope.

(* the sends of a broadcast, in order, as decided before the first one: (transport, piece) *)
Definition emit_sends (c : cfg) (s : srv) (event data : pv) (ns : str) (room skip : pv) : Res (list (str * pv)) :=
  match ns_rooms (mg s) ns with
  | None => Ok []
  | Some _ =>
      p <- ctor (uses_binary c) EVENT (PList (event :: pack data)) (Some ns) None None ;;
      pieces <- encode_pieces c p ;;
      parts <- participants (mg s) ns room ;;
      Ok (flat_map (fun se : str * str => if skipped (skip_list skip) (fst se) then []
                                          else map (fun pc => (snd se, pc)) pieces) parts)
  end.

Definition is_live (lv : list str) (e : str) : bool := existsb (str_eqb e) lv.

(* sends performed with the transports [lv] alive *)
Definition sends_live (lv : list str) (l : list (str * pv)) : list eff :=
  flat_map (fun x : str * pv => if is_live lv (fst x) then [Out (fst x) (snd x)] else []) l.

(* sends up to and including the k-th one that is really performed (k >= 1); the rest is what
   remains to be sent when the nested operation has run.  k = 0: the nested operation never runs *)
Fixpoint sends_until (lv : list str) (k : nat) (l : list (str * pv)) : list eff * option (list (str * pv)) :=
  match l with
  | [] => ([], None)
  | x :: r =>
      if is_live lv (fst x) then
        match k with
        | 1%nat => ([Out (fst x) (snd x)], Some r)
        | _ => let '(es, rest) := sends_until lv (pred k) r in (Out (fst x) (snd x) :: es, rest)
        end
      else sends_until lv k r
  end.

(* the three segments of the observation: sends before the nested operation, the nested
   operation's own effects, sends after it *)
Definition seg := (list eff * list eff * list eff)%type.
Definition seg_flat (x : seg) : list eff := fst (fst x) ++ snd (fst x) ++ snd x.

Definition emit_nested (c : cfg) (s : srv) (event data to room skip : pv) (ns : option str)
           (k : nat) (inner : op) : srv * seg :=
  match emit_sends c s event data (ns_or_default ns) (first_truthy to room) skip with
  | Err x => (s, ([Raised x], [], []))
  | Ok l =>
      match sends_until (live s) k l with
      | (pre, None) => (s, (pre, [], []))
      | (pre, Some rest) =>
          let '(s1, ie) := step c s inner in (s1, (pre, ie, sends_live (live s1) rest))
      end
  end.

Inductive nop :=
| NPlain (o : op)
| NEmit (event data to room skip : pv) (ns : option str) (k : nat) (inner : op).

Definition nstep3 (c : cfg) (s : srv) (x : nop) : srv * seg :=
  match x with
  | NPlain o => let '(s1, e) := step c s o in (s1, (e, [], []))
  | NEmit ev data to room skip ns k inner => emit_nested c s ev data to room skip ns k inner
  end.
Definition nstep (c : cfg) (s : srv) (x : nop) : srv * list eff :=
  let '(s1, sg) := nstep3 c s x in (s1, seg_flat sg).

Fixpoint nrun (c : cfg) (s : srv) (ops : list nop) : srv * list (list eff) :=
  match ops with
  | [] => (s, [])
  | o :: r => let '(s1, e) := nstep c s o in let '(s2, es) := nrun c s1 r in (s2, e :: es)
  end.
