(* Extension of the server model with one re-entrant scenario: an event handler that calls
   sio.disconnect(sid, namespace) for its own client before it returns (equivalently: the
   client's connection is ended by the server while its event is still being handled).
   Kept apart from Server.v: `xop` wraps the plain operations and adds the new one. *)
From VT Require Export Server.Server.
Open Scope N_scope.

Definition fits (c : cfg) (h : N) (n : nat) : bool :=
  match aget N.eqb (behav c) h with
  | Some b => match h_arity b with Some k => Nat.eqb k n | None => true end
  | None => false
  end.
(* does a scripted handler BODY run for this event (function handler or on_<event> method)? *)
Definition handler_runs (c : cfg) (ev : pv) (ns : str) (args : list pv) : bool :=
  match get_event_handler c ev ns args with
  | Some (h, a) => fits c h (List.length a)
  | None => match get_namespace_handler c ns args with
            | Some (methods, a) => match ev with
                                   | PStr s => match aget str_eqb methods s with
                                               | Some h => fits c h (List.length a) | None => false end
                                   | _ => false end
            | None => false end
  end.

Definition handle_event_sd (c : cfg) (eio : str) (pns : option str) (id : option Z) (data : pv) : SM unit :=
  let ns := ns_or_default pns in
  s <~ getS ;;
  let osid := sid_from_eio (mg s) eio ns in
  ea <~ lift (split_event data) ;;
  if negb (is_connected (mg s) osid ns) then ret tt else
  match osid with
  | None => ret tt
  | Some sid =>
      let args := PStr sid :: snd ea in
      let runs := handler_runs c (fst ea) ns args && negb (is_unhashable (fst ea)) in
      (* the body: Call, scripted actions, sio.disconnect(sid, ns), then the outcome *)
      r <~ catch (trigger_event c (fst ea) ns args)
                 (fun e => if runs then Some (api_disconnect c sid (Some ns) ;;; raise e) else None) ;;
      (if runs then api_disconnect c sid (Some ns) else ret tt) ;;;
      match r, id with
      | Some v, Some i => send_packet c (Some eio) ACK (PList (pack v)) ns (Some i)
      | _, _ => ret tt
      end
  end.

Definition handle_eio_message_sd (c : cfg) (loads : str -> Res pv) (eio : str) (payload : pv) : SM unit :=
  s <~ getS ;;
  match aget str_eqb (binpkt s) eio with
  | Some _ => handle_eio_message c loads eio payload
  | None =>
      match decode_any c loads payload with
      | Ok r => if type_is (rp r) EVENT && negb (type_is (rp r) CONNECT) && negb (type_is (rp r) DISCONNECT)
                then handle_event_sd c eio (pns (rp r)) (pid (rp r)) (pdata (rp r))
                else handle_eio_message c loads eio payload
      | Err _ => handle_eio_message c loads eio payload
      end
  end.

Inductive xop := Plain (o : op) | EventSD (eio : str) (payload : pv) (tbl : jtable).

Definition xstep (c : cfg) (s : srv) (x : xop) : srv * list eff :=
  match x with
  | Plain o => step c s o
  | EventSD eio payload tbl =>
      if existsb (str_eqb eio) (live s)
      then match contain (handle_eio_message_sd c (table_loads tbl) eio payload) s with (s', e, _) => (s', e) end
      else (s, [])
  end.

Fixpoint xrun (c : cfg) (s : srv) (ops : list xop) : srv * list (list eff) :=
  match ops with
  | [] => (s, [])
  | o :: r => let '(s1, e) := xstep c s o in let '(s2, es) := xrun c s1 r in (s2, e :: es)
  end.
