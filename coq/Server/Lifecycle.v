(* C04: connection lifecycle. *)
From VT Require Export Server.StepLemmas Check.C04Check.
From VT Require Import Base.PyStrProofs.
From Coq Require Import Lia.
Open Scope N_scope.

(* ------------------------------------------------------------------ *)
(* C04_error_args                                                     *)
(* ------------------------------------------------------------------ *)
Lemma error_args_cases :
  error_args [] = PDict [(k_message, PStr (s2l "Connection rejected by server"))] /\
  (forall a, error_args [a] = PDict [(k_message, PStr (py_str a))]) /\
  (forall a b, error_args [a; b] = PDict [(k_message, PStr (py_str a)); (k_data, b)]) /\
  (forall a b d rest, error_args (a :: b :: d :: rest) =
                      PDict [(k_message, PStr (py_str a)); (k_data, PTuple (b :: d :: rest))]).
Proof. repeat split. Qed.

(* ------------------------------------------------------------------ *)
(* session ids                                                        *)
(* ------------------------------------------------------------------ *)
Lemma str_of_N_inj a b : str_of_N a = str_of_N b -> a = b.
Proof.
  intro H. pose proof (py_int_str_of_N a) as Ha. pose proof (py_int_str_of_N b) as Hb.
  rewrite H in Ha. rewrite Ha in Hb. inversion Hb. reflexivity.
Qed.
Lemma sid_name_inj a b : sid_name a = sid_name b -> a = b.
Proof. unfold sid_name. intro H. inversion H. apply str_of_N_inj. assumption. Qed.

(* ------------------------------------------------------------------ *)
(* the responsible target does not depend on the arguments            *)
(* ------------------------------------------------------------------ *)
Lemma responsible_prefix c ev ns l :
  responsible c ev ns l =
  match responsible c ev ns [] with
  | Some (oh, pre) => Some (oh, pre ++ l)
  | None => None
  end.
Proof.
  unfold responsible, get_event_handler, get_namespace_handler.
  destruct (aget str_eqb (handlers c) ns) as [tbl|].
  - destruct (ev_lookup tbl ev); [reflexivity|].
    destruct (reserved ev).
    + destruct (aget str_eqb (handlers c) star) as [tbl'|].
      * destruct (ev_lookup tbl' ev); [reflexivity|].
        destruct (aget str_eqb (ns_handlers c) ns); [destruct ev; reflexivity|].
        destruct (aget str_eqb (ns_handlers c) star); [destruct ev; reflexivity|reflexivity].
      * destruct (aget str_eqb (ns_handlers c) ns); [destruct ev; reflexivity|].
        destruct (aget str_eqb (ns_handlers c) star); [destruct ev; reflexivity|reflexivity].
    + destruct (aget str_eqb tbl star); [reflexivity|].
      destruct (aget str_eqb (handlers c) star) as [tbl'|].
      * destruct (ev_lookup tbl' ev); [reflexivity|].
        destruct (aget str_eqb tbl' star); [reflexivity|].
        destruct (aget str_eqb (ns_handlers c) ns); [destruct ev; reflexivity|].
        destruct (aget str_eqb (ns_handlers c) star); [destruct ev; reflexivity|reflexivity].
      * destruct (aget str_eqb (ns_handlers c) ns); [destruct ev; reflexivity|].
        destruct (aget str_eqb (ns_handlers c) star); [destruct ev; reflexivity|reflexivity].
  - destruct (aget str_eqb (handlers c) star) as [tbl'|].
    + destruct (ev_lookup tbl' ev); [reflexivity|].
      destruct (reserved ev).
      * destruct (aget str_eqb (ns_handlers c) ns); [destruct ev; reflexivity|].
        destruct (aget str_eqb (ns_handlers c) star); [destruct ev; reflexivity|reflexivity].
      * destruct (aget str_eqb tbl' star); [reflexivity|].
        destruct (aget str_eqb (ns_handlers c) ns); [destruct ev; reflexivity|].
        destruct (aget str_eqb (ns_handlers c) star); [destruct ev; reflexivity|reflexivity].
    + destruct (aget str_eqb (ns_handlers c) ns); [destruct ev; reflexivity|].
      destruct (aget str_eqb (ns_handlers c) star); [destruct ev; reflexivity|reflexivity].
Qed.

Lemma connect_hid_hid_for c ns : connect_hid c ns = hid_for c ev_connect ns.
Proof.
  unfold connect_hid, hid_for, responsible, ev_connect.
  destruct (get_event_handler c (PStr (s2l "connect")) ns []) as [[h a]|]; [reflexivity|].
  destruct (get_namespace_handler c ns []) as [[methods a]|]; [|reflexivity].
  destruct (aget str_eqb methods (s2l "connect")); reflexivity.
Qed.

(* ------------------------------------------------------------------ *)
(* handle_connect, step by step                                       *)
(* ------------------------------------------------------------------ *)
Definition unable := PStr (s2l "Unable to connect").
Definition bump (s : srv) : srv :=
  mkSrv (mg s) (environ s) (binpkt s) (sessions s) (live s) (fresh s + 1).
Definition new_sid (s : srv) : str := sid_name (fresh s).
(* state after manager.connect() *)
Definition conn_state (s : srv) (eio ns : str) : srv :=
  upd_mg (bump s) (fst (mgr_connect (mg s) eio ns (new_sid s))).

Lemma sp_effs_cong s s' eio r : live s' = live s -> sp_effs s' eio r = sp_effs s eio r.
Proof. intro H. unfold sp_effs, is_live. rewrite H. reflexivity. Qed.

Lemma connect_not_served c eio pn data s :
  served c (ns_or_default pn) = false ->
  handle_connect c eio pn data s =
  (s, sp_effs s eio (frames_of c CONNECT_ERROR unable (ns_or_default pn) None),
      sp_res (frames_of c CONNECT_ERROR unable (ns_or_default pn) None)).
Proof.
  intro H. unfold handle_connect. rewrite bindM_getS, H, bindM_ret. apply send_packet_spec.
Qed.

Lemma connect_rejected_by_manager c eio pn data s :
  served c (ns_or_default pn) = true ->
  snd (mgr_connect (mg s) eio (ns_or_default pn) (new_sid s)) = None ->
  handle_connect c eio pn data s =
  (conn_state s eio (ns_or_default pn),
   sp_effs s eio (frames_of c CONNECT_ERROR unable (ns_or_default pn) None),
   sp_res (frames_of c CONNECT_ERROR unable (ns_or_default pn) None)).
Proof.
  intros H Hm. unfold handle_connect. rewrite bindM_getS, H.
  unfold bindM at 1. unfold bindM at 1. unfold putS at 1.
  rewrite with_mg_eq. cbn [mg fst snd app]. fold (new_sid s). rewrite Hm.
  rewrite send_packet_spec. reflexivity.
Qed.

(* the connect-handler invocation, with the falsy-auth retry *)
Definition conn_try (c : cfg) (ns sid : str) (env data : pv) : list eff * Res (option pv) :=
  if truthy data then te_pure c ev_connect ns [PStr sid; env; data]
  else match te_pure c ev_connect ns [PStr sid; env] with
       | (e1, Err TypeError) =>
           (e1 ++ fst (te_pure c ev_connect ns [PStr sid; env; PNone]),
            snd (te_pure c ev_connect ns [PStr sid; env; PNone]))
       | x => x
       end.

(* the decision taken after the handler *)
Inductive verdict := Accept | Refuse (why : pv) | Fail (x : exn).
Definition conn_verdict (c : cfg) (ns : str) (r : Res (option pv)) : verdict :=
  match r with
  | Ok (Some v) => if pv_eqb v (PBool false) then Refuse (error_args []) else Accept
  | Ok None => Accept
  | Err ConnectionRefused => Refuse (error_args (refusal_args c (connect_hid c ns)))
  | Err x => Fail x
  end.

Definition accept_frames (c : cfg) (ns sid : str) := frames_of c CONNECT (sid_dict sid) ns None.

Lemma accept_frames_ok c ns sid : exists f, accept_frames c ns sid = Ok [PStr f].
Proof.
  unfold accept_frames, frames_of, ctor, sid_dict.
  replace (uses_binary c && _) with false by (destruct (uses_binary c); reflexivity).
  cbn. eexists. reflexivity.
Qed.
Lemma accept_frames_res c ns sid : sp_res (accept_frames c ns sid) = Ok tt.
Proof. destruct (accept_frames_ok c ns sid) as [f H]. rewrite H. reflexivity. Qed.

Lemma conn_inner_run c ns sid env data s1 :
  has_actions c = false ->
  (if truthy data then trigger_event c (PStr (s2l "connect")) ns [PStr sid; env; data]
   else catch (trigger_event c (PStr (s2l "connect")) ns [PStr sid; env])
              (fun e => match e with
                        | TypeError => Some (trigger_event c (PStr (s2l "connect")) ns [PStr sid; env; PNone])
                        | _ => None end)) s1 =
  (s1, fst (conn_try c ns sid env data), snd (conn_try c ns sid env data)).
Proof.
  intro Hna. unfold conn_try, ev_connect. destruct (truthy data).
  - apply trigger_event_pure; assumption.
  - unfold catch. rewrite (trigger_event_pure _ _ _ _ s1 Hna).
    destruct (te_pure c (PStr (s2l "connect")) ns [PStr sid; env]) as [e1 [r|x]]; [reflexivity|].
    cbn [fst snd]. destruct x; try reflexivity.
    rewrite (trigger_event_pure _ _ _ _ s1 Hna). reflexivity.
Qed.

Definition conn_outcome (c : cfg) (ns : str) (r : Res (option pv)) : Res (option pv * pv) :=
  match r with
  | Ok r => Ok (r, error_args [])
  | Err ConnectionRefused => Ok (Some (PBool false), error_args (refusal_args c (connect_hid c ns)))
  | Err x => Err x
  end.

Lemma conn_try_run c ns sid env data s1 :
  has_actions c = false ->
  catch (r <~ (if truthy data then trigger_event c (PStr (s2l "connect")) ns [PStr sid; env; data]
               else catch (trigger_event c (PStr (s2l "connect")) ns [PStr sid; env])
                          (fun e => match e with
                                    | TypeError => Some (trigger_event c (PStr (s2l "connect")) ns [PStr sid; env; PNone])
                                    | _ => None end)) ;;
         ret (r, error_args []))
        (fun e => match e with
                  | ConnectionRefused =>
                      Some (ret (Some (PBool false), error_args (refusal_args c (connect_hid c ns))))
                  | _ => None end) s1 =
  (s1, fst (conn_try c ns sid env data), conn_outcome c ns (snd (conn_try c ns sid env data))).
Proof.
  intro Hna. pose proof (conn_inner_run c ns sid env data s1 Hna) as Hin.
  destruct (conn_try c ns sid env data) as [e1 [r|x]]; cbn [fst snd conn_outcome] in *.
  - erewrite catch_ok; [reflexivity|]. rewrite (bindM_ok _ _ _ _ _ _ Hin). cbn [ret fst snd].
    rewrite app_nil_r. reflexivity.
  - destruct x;
      try (erewrite catch_err_none; [reflexivity| apply (bindM_err _ _ _ _ _ _ Hin) | reflexivity]).
    erewrite catch_err_some; [| apply (bindM_err _ _ _ _ _ _ Hin) | reflexivity].
    cbn [ret fst snd]. rewrite app_nil_r. reflexivity.
Qed.

Lemma upd_mg_upd s m m' : upd_mg (upd_mg s m) m' = upd_mg s m'.
Proof. reflexivity. Qed.

Lemma refuse_always_run c eio ns sid why s1 :
  finallyM (r0 <~ with_mg (fun m : mgr => pre_disconnect m sid ns);; lift r0;;;
            send_packet c (Some eio) DISCONNECT why ns None)
           (set_mg (fun m : mgr => mgr_disconnect m sid ns)) s1 =
  (upd_mg s1 (mgr_disconnect (fst (pre_disconnect (mg s1) sid ns)) sid ns),
   match snd (pre_disconnect (mg s1) sid ns) with
   | Ok _ => sp_effs s1 eio (frames_of c DISCONNECT why ns None)
   | Err _ => [] end,
   match snd (pre_disconnect (mg s1) sid ns) with
   | Ok _ => sp_res (frames_of c DISCONNECT why ns None)
   | Err x => Err x end).
Proof.
  unfold finallyM. unfold bindM at 1. rewrite with_mg_eq.
  destruct (snd (pre_disconnect (mg s1) sid ns)) as [o|x].
  - rewrite bindM_lift_ok, send_packet_spec, set_mg_eq. cbn [mg upd_mg app].
    rewrite (sp_effs_cong s1) by reflexivity. rewrite app_nil_r.
    destruct (sp_res _); reflexivity.
  - rewrite bindM_lift_err, set_mg_eq. reflexivity.
Qed.

Lemma refuse_plain_run c eio ns sid why s1 :
  finallyM (send_packet c (Some eio) CONNECT_ERROR why ns None)
           (set_mg (fun m : mgr => mgr_disconnect m sid ns)) s1 =
  (upd_mg s1 (mgr_disconnect (mg s1) sid ns),
   sp_effs s1 eio (frames_of c CONNECT_ERROR why ns None),
   sp_res (frames_of c CONNECT_ERROR why ns None)).
Proof.
  unfold finallyM. rewrite send_packet_spec, set_mg_eq. rewrite app_nil_r.
  destruct (sp_res _); reflexivity.
Qed.

Lemma connect_accepted_by_manager c eio pn data s env :
  has_actions c = false ->
  served c (ns_or_default pn) = true ->
  snd (mgr_connect (mg s) eio (ns_or_default pn) (new_sid s)) = Some (new_sid s) ->
  aget str_eqb (environ s) eio = Some env ->
  let ns := ns_or_default pn in
  let sid := new_sid s in
  let s1 := conn_state s eio ns in
  let pre := if always_connect c then sp_effs s eio (accept_frames c ns sid) else [] in
  let tr := conn_try c ns sid env data in
  handle_connect c eio pn data s =
  match conn_verdict c ns (snd tr) with
  | Fail x => (s1, pre ++ fst tr, Err x)
  | Accept => (s1, pre ++ fst tr ++ (if always_connect c then [] else sp_effs s eio (accept_frames c ns sid)), Ok tt)
  | Refuse why =>
      if always_connect c then
        (upd_mg s1 (mgr_disconnect (fst (pre_disconnect (mg s1) sid ns)) sid ns),
         pre ++ fst tr ++ (match snd (pre_disconnect (mg s1) sid ns) with
                           | Ok _ => sp_effs s eio (frames_of c DISCONNECT why ns None)
                           | Err _ => [] end),
         match snd (pre_disconnect (mg s1) sid ns) with
         | Ok _ => sp_res (frames_of c DISCONNECT why ns None)
         | Err x => Err x end)
      else
        (upd_mg s1 (mgr_disconnect (mg s1) sid ns),
         fst tr ++ sp_effs s eio (frames_of c CONNECT_ERROR why ns None),
         sp_res (frames_of c CONNECT_ERROR why ns None))
  end.
Proof.
  intros Hna Hsv Hm Henv. cbv zeta.
  set (ns := ns_or_default pn) in *. set (sid := new_sid s) in *.
  set (s1 := conn_state s eio ns).
  unfold handle_connect. fold ns. rewrite bindM_getS, Hsv.
  unfold bindM at 1. unfold bindM at 1. unfold putS at 1.
  rewrite with_mg_eq. cbn [mg fst snd app]. change (sid_name (fresh s)) with sid. rewrite Hm.
  change (upd_mg _ (fst (mgr_connect (mg s) eio ns sid))) with s1.
  assert (Hlive : live s1 = live s) by reflexivity.
  unfold bindM at 1.
  destruct (always_connect c) eqn:Hal.
  - rewrite send_packet_spec. fold (accept_frames c ns sid). rewrite accept_frames_res, (sp_effs_cong s s1) by assumption.
    unfold bindM at 1. rewrite Henv. cbn [ret].
    unfold bindM at 1. rewrite (conn_try_run c ns sid env data s1 Hna).
    destruct (conn_try c ns sid env data) as [e1 r]. cbn [fst snd].
    destruct r as [[v|]|x]; cbn [conn_outcome conn_verdict].
    + destruct (pv_eqb v (PBool false)).
      * rewrite refuse_always_run. rewrite (sp_effs_cong s s1) by assumption. reflexivity.
      * cbn [ret app]. rewrite app_nil_r. reflexivity.
    + cbn [ret app]. rewrite app_nil_r. reflexivity.
    + destruct x; try reflexivity. cbn [pv_eqb Bool.eqb].
      rewrite refuse_always_run. rewrite (sp_effs_cong s s1) by assumption. reflexivity.
  - cbn [ret]. unfold bindM at 1. rewrite Henv. cbn [ret].
    unfold bindM at 1. rewrite (conn_try_run c ns sid env data s1 Hna).
    destruct (conn_try c ns sid env data) as [e1 r]. cbn [fst snd].
    destruct r as [[v|]|x]; cbn [conn_outcome conn_verdict].
    + destruct (pv_eqb v (PBool false)).
      * rewrite refuse_plain_run. rewrite (sp_effs_cong s s1) by assumption. reflexivity.
      * rewrite send_packet_spec. fold (accept_frames c ns sid). rewrite accept_frames_res, (sp_effs_cong s s1) by assumption.
        reflexivity.
    + rewrite send_packet_spec. fold (accept_frames c ns sid). rewrite accept_frames_res, (sp_effs_cong s s1) by assumption.
      reflexivity.
    + destruct x; try reflexivity. cbn [pv_eqb Bool.eqb].
      rewrite refuse_plain_run. rewrite (sp_effs_cong s s1) by assumption. reflexivity.
Qed.

(* ------------------------------------------------------------------ *)
(* the state invariant                                                *)
(* ------------------------------------------------------------------ *)
(* every session id stored anywhere in the manager was produced by the id generator *)
Definition below (n : N) (sid : str) : Prop := exists k, k < n /\ sid = sid_name k.
Definition sids_all (P : str -> Prop) (m : mgr) : Prop :=
  (forall ns rm room b sid eio, In (ns, rm) (rooms m) -> In (room, b) rm -> In (sid, eio) b -> P sid) /\
  (forall ns l sid, In (ns, l) (pending m) -> In sid l -> P sid) /\
  (forall sid slot, In (sid, slot) (callbacks m) -> P sid).
Definition pending_nonempty (m : mgr) : Prop := forall ns l, In (ns, l) (pending m) -> l <> [].
Definition Inv (s : srv) : Prop :=
  MOK (mg s) /\ sids_all (below (fresh s)) (mg s) /\ pending_nonempty (mg s).

Lemma Inv_init : Inv srv_init.
Proof.
  split; [apply MOK_init|]. split.
  - split; [intros ? ? ? ? ? ? []|]. split; [intros ? ? ? []|intros ? ? []].
  - intros ? ? [].
Qed.

Lemma not_below_self n : ~ below n (sid_name n).
Proof. intros (k & Hk & He). apply sid_name_inj in He. subst. lia. Qed.

Lemma sids_all_member P m ns b sid e :
  sids_all P m -> room_of m ns PNone = Some b -> In (sid, e) b -> P sid.
Proof.
  intros (H & _) Hb Hin. rewrite room_of_none in Hb.
  destruct (ns_rooms m ns) as [rm|] eqn:Hns; [|discriminate].
  destruct (aget_some_in _ _ _ _ Hb) as (k' & Hk & _).
  eapply H; [apply saget_in; exact Hns|exact Hk|exact Hin].
Qed.
Lemma sids_all_eio P m ns sid e : sids_all P m -> eio_from_sid m sid ns = Some e -> P sid.
Proof.
  intros H He. unfold eio_from_sid in He. destruct (room_of m ns PNone) as [b|] eqn:Hb; [|discriminate].
  eapply sids_all_member; [exact H|exact Hb|]. apply saget_in. exact He.
Qed.
Lemma sids_all_connected P m ns sid : sids_all P m -> is_connected m (Some sid) ns = true -> P sid.
Proof.
  intros H Hc. unfold is_connected in Hc. destruct (is_pending m sid ns); [discriminate|].
  destruct (room_of m ns PNone) as [b|] eqn:Hb; [|discriminate].
  destruct (bd_get b sid) as [e|] eqn:Hg; [|discriminate].
  eapply sids_all_member; [exact H|exact Hb|]. apply saget_in. exact Hg.
Qed.
Lemma sids_all_sid_from_eio P m ns eio sid : sids_all P m -> sid_from_eio m eio ns = Some sid -> P sid.
Proof.
  intros H He. unfold sid_from_eio in He. destruct (room_of m ns PNone) as [b|] eqn:Hb; [|discriminate].
  eapply sids_all_member; [exact H|exact Hb|]. apply bd_inv_in. exact He.
Qed.
Lemma sids_all_pending P m ns sid : sids_all P m -> is_pending m sid ns = true -> P sid.
Proof.
  intros (_ & H & _) Hp. unfold is_pending in Hp. destruct (aget str_eqb (pending m) ns) as [l|] eqn:Hl; [|discriminate].
  eapply H; [apply saget_in; exact Hl|]. apply existsb_str_in. exact Hp.
Qed.

Lemma adel_notin {V} (l : list (str * V)) k : ~ In k (map fst l) -> adel str_eqb l k = l.
Proof.
  induction l as [|[k' v] l IH]; cbn [adel map fst]; intro H; [reflexivity|].
  destruct (str_eqb k' k) eqn:E.
  - apply str_eqb_eq in E. subst. exfalso. apply H. left. reflexivity.
  - rewrite IH; [reflexivity|]. intro; apply H; right; assumption.
Qed.
Lemma sids_all_callbacks P m sid : sids_all P m -> ~ P sid -> adel str_eqb (callbacks m) sid = callbacks m.
Proof.
  intros (_ & _ & H) Hn. apply adel_notin. intro Hin. apply in_map_iff in Hin as ([k slot] & Hk & Hin).
  cbn [fst] in Hk. subst. exact (Hn (H _ _ Hin)).
Qed.

(* the next session id is unknown to the manager *)
Section Fresh.
  Variable s : srv.
  Hypothesis HI : Inv s.
  Let sid := new_sid s.
  Lemma fresh_not P : (P = below (fresh s)) -> ~ P sid.
  Proof. intros ->. apply not_below_self. Qed.
  Lemma fresh_no_eio ns : eio_from_sid (mg s) sid ns = None.
  Proof.
    destruct HI as (_ & Hb & _). destruct (eio_from_sid (mg s) sid ns) eqn:E; [|reflexivity].
    exfalso. exact (not_below_self _ (sids_all_eio _ _ _ _ _ Hb E)).
  Qed.
  Lemma fresh_not_pending ns : is_pending (mg s) sid ns = false.
  Proof.
    destruct HI as (_ & Hb & _). destruct (is_pending (mg s) sid ns) eqn:E; [|reflexivity].
    exfalso. exact (not_below_self _ (sids_all_pending _ _ _ _ Hb E)).
  Qed.
  Lemma fresh_no_callbacks : adel str_eqb (callbacks (mg s)) sid = callbacks (mg s).
  Proof. destruct HI as (_ & Hb & _). eapply sids_all_callbacks; [exact Hb|apply not_below_self]. Qed.
  Lemma fresh_not_sid_from_eio eio ns : sid_from_eio (mg s) eio ns <> Some sid.
  Proof.
    destruct HI as (_ & Hb & _). intro E. exact (not_below_self _ (sids_all_sid_from_eio _ _ _ _ _ Hb E)).
  Qed.
End Fresh.

(* membership through all_sids *)
Lemma in_all_sids m ns sid e :
  In (ns, sid, e) (all_sids m) <->
  exists rm b, In (ns, rm) (rooms m) /\ none_bd rm = Some b /\ In (sid, e) b.
Proof.
  unfold all_sids. rewrite in_flat_map. split.
  - intros ([ns' rm] & Hin & H). cbn [fst snd] in H.
    destruct (aget room_eqb rm PNone) as [b|] eqn:Hb; [|exfalso; exact H].
    apply in_map_iff in H as ([s' e'] & Heq & Hb'). cbn [fst snd] in Heq. inversion Heq; subst.
    exists rm, b. auto.
  - intros (rm & b & Hin & Hb & Hse). exists (ns, rm). split; [exact Hin|]. cbn [fst snd].
    change (In (ns, sid, e) (match none_bd rm with
                             | Some b => map (fun se : str * str => (ns, fst se, snd se)) b
                             | None => [] end)).
    rewrite Hb. apply in_map_iff. exists (sid, e). split; [reflexivity|exact Hse].
Qed.
Lemma all_sids_eio m ns sid e : MOK m -> In (ns, sid, e) (all_sids m) -> eio_from_sid m sid ns = Some e.
Proof.
  intros Hm Hin. apply in_all_sids in Hin as (rm & b & Hin & Hb & Hse).
  destruct Hm as [Hnd Hok]. pose proof (sin_aget _ _ _ Hnd Hin) as Hns.
  unfold eio_from_sid. rewrite room_of_none. unfold ns_rooms. rewrite Hns, Hb.
  apply sin_aget; [|exact Hse]. destruct (Hok _ _ Hin) as [_ Hk]. exact (Hk _ Hb).
Qed.
Lemma eio_all_sids m ns sid e : eio_from_sid m sid ns = Some e -> In (ns, sid, e) (all_sids m).
Proof.
  unfold eio_from_sid. rewrite room_of_none. intro H.
  destruct (ns_rooms m ns) as [rm|] eqn:Hns; [|discriminate].
  destruct (none_bd rm) as [b|] eqn:Hb; [|discriminate].
  apply in_all_sids. exists rm, b. split; [apply saget_in; exact Hns|]. split; [exact Hb|apply saget_in; exact H].
Qed.
Lemma is_member_false m sid : MOK m -> (forall ns, eio_from_sid m sid ns = None) -> is_member m sid = false.
Proof.
  intros Hm H. unfold is_member. destruct (existsb _ (all_sids m)) eqn:E; [|reflexivity].
  apply existsb_exists in E as ([[ns s'] e] & Hin & Hs). cbn [fst snd] in Hs. apply str_eqb_eq in Hs. subst s'.
  specialize (H ns). rewrite (all_sids_eio _ _ _ _ Hm Hin) in H. discriminate.
Qed.
Lemma is_member_true m ns sid e : eio_from_sid m sid ns = Some e -> is_member m sid = true.
Proof.
  intro H. unfold is_member. apply existsb_exists. exists (ns, sid, e).
  split; [apply eio_all_sids; exact H|apply str_eqb_refl].
Qed.

(* ------------------------------------------------------------------ *)
(* C04_connect_cases                                                  *)
(* ------------------------------------------------------------------ *)
Definition unable_frames (c : cfg) (ns : str) := frames_of c CONNECT_ERROR unable ns None.

(* the arguments the connect handler receives: a truthy auth payload third; a falsy one is
   dropped, or passed as None to a handler that only fits one more argument; [pre] is what
   a catch-all target gets prepended *)
Definition connect_args (sid : str) (env data : pv) (b : hbehav) (pre : list pv) : list pv :=
  if truthy data then pre ++ [PStr sid; env; data]
  else if arity_bad b (List.length (pre ++ [PStr sid; env])) then pre ++ [PStr sid; env; PNone]
       else pre ++ [PStr sid; env].
Definition no_raise (b : hbehav) : Prop := match h_outcome b with Raises _ => False | _ => True end.

Lemma te_connect c ns l :
  te_pure c ev_connect ns l =
  match responsible c ev_connect ns [] with
  | None => ([], Ok None)
  | Some (Some h, pre) => some_res (ch_pure c h (pre ++ l))
  | Some (None, _) => ([], Ok (Some PNone))
  end.
Proof.
  rewrite te_pure_responsible by reflexivity. rewrite responsible_prefix.
  destruct (responsible c ev_connect ns []) as [[[h|] pre]|]; try reflexivity.
  rewrite cwr_pure_plain by reflexivity. reflexivity.
Qed.

Lemma conn_try_no_handler c ns sid env data :
  hid_for c ev_connect ns = None ->
  fst (conn_try c ns sid env data) = [] /\ conn_verdict c ns (snd (conn_try c ns sid env data)) = Accept.
Proof.
  unfold hid_for, conn_try. intro H. rewrite !te_connect.
  destruct (responsible c ev_connect ns []) as [[[h|] pre]|]; [discriminate| |];
    destruct (truthy data); split; reflexivity.
Qed.

Lemma conn_try_handler c ns sid env data h pre b :
  responsible c ev_connect ns [] = Some (Some h, pre) ->
  aget N.eqb (behav c) h = Some b ->
  arity_bad b (List.length (connect_args sid env data b pre)) = false ->
  no_raise b ->
  conn_try c ns sid env data =
  ([Call h (connect_args sid env data b pre)],
   match outcome_res (h_outcome b) with Ok v => Ok (Some v) | Err x => Err x end).
Proof.
  intros Hr Hb Har Hnr. unfold conn_try, connect_args in *. rewrite !te_connect, Hr.
  unfold ch_pure, some_res. rewrite Hb.
  destruct (truthy data).
  - rewrite Har. reflexivity.
  - destruct (arity_bad b (List.length (pre ++ [PStr sid; env]))) eqn:E1; cbn [fst snd].
    + rewrite Har. reflexivity.
    + unfold no_raise in Hnr. destruct (h_outcome b); try reflexivity. contradiction.
Qed.

Lemma is_pending_cong m' m x n : pending m' = pending m -> is_pending m' x n = is_pending m x n.
Proof. unfold is_pending. intros ->. reflexivity. Qed.

Section Connect.
  Variables (c : cfg) (eio : str) (pn : option str) (data : pv) (s : srv).
  Let ns := ns_or_default pn.
  Let sid := new_sid s.
  Let s1 := conn_state s eio ns.

  (* (i) refused without a handler *)
  Theorem connect_duplicate :
    Inv s -> served c ns = true -> sid_from_eio (mg s) eio ns <> None ->
    handle_connect c eio pn data s =
    (bump s, sp_effs s eio (unable_frames c ns), sp_res (unable_frames c ns)).
  Proof.
    intros HI Hsv Hd.
    destruct (sid_from_eio (mg s) eio ns) as [s'|] eqn:Hs; [clear Hd|contradiction Hd; reflexivity].
    assert (Hne : s' <> new_sid s).
    { intro; subst s'. exact (fresh_not_sid_from_eio s HI eio ns Hs). }
    unfold sid_from_eio in Hs. destruct (room_of (mg s) ns PNone) as [b|] eqn:Hb; [|discriminate].
    pose proof (mgr_connect_dup _ _ _ _ _ _ Hb Hs Hne) as Hm.
    rewrite (connect_rejected_by_manager c eio pn data s Hsv) by (fold ns; rewrite Hm; reflexivity).
    unfold conn_state. fold ns. rewrite Hm. cbn [fst]. unfold bump, upd_mg. reflexivity.
  Qed.

  (* (ii) the manager accepts: what the state is when the handler runs *)
  Lemma conn_state_facts :
    Inv s -> sid_from_eio (mg s) eio ns = None ->
    snd (mgr_connect (mg s) eio ns sid) = Some sid /\
    MOK (mg s1) /\
    sid_from_eio (mg s1) eio ns = Some sid /\ eio_from_sid (mg s1) sid ns = Some eio /\
    is_connected (mg s1) (Some sid) ns = true /\
    pending (mg s1) = pending (mg s) /\ callbacks (mg s1) = callbacks (mg s) /\
    (forall ns', ns <> ns' -> ns_rooms (mg s1) ns' = ns_rooms (mg s) ns').
  Proof.
    intros HI Hs. destruct (mgr_connect_new (mg s) eio ns sid Hs) as (Hr & Hroom & Hp & Hc & Hf).
    assert (Hinv : bd_inv (pm_b (mg s) ns PNone) eio = None).
    { unfold sid_from_eio in Hs. rewrite room_of_none in Hs. unfold pm_b, pm_rm.
      destruct (ns_rooms (mg s) ns) as [rm|]; [|reflexivity].
      change (aget room_eqb rm PNone) with (none_bd rm). destruct (none_bd rm); [exact Hs|reflexivity]. }
    split; [exact Hr|]. split; [apply MOK_mgr_connect; apply HI|].
    unfold s1, conn_state. cbn [mg upd_mg]. fold sid.
    split; [unfold sid_from_eio; rewrite Hroom; apply bd_inv_aset_new; exact Hinv|].
    split; [unfold eio_from_sid; rewrite Hroom; apply bd_get_aset_same|].
    split.
    - unfold is_connected. rewrite (is_pending_cong _ _ _ _ Hp).
      unfold sid. rewrite (fresh_not_pending s HI ns). fold sid. rewrite Hroom, bd_get_aset_same. reflexivity.
    - split; [exact Hp|]. split; [exact Hc|exact Hf].
  Qed.

  Variable env : pv.
  Hypothesis Hna : has_actions c = false.
  Hypothesis HI : Inv s.
  Hypothesis Hsv : served c ns = true.
  Hypothesis Hnew : sid_from_eio (mg s) eio ns = None.
  Hypothesis Henv : aget str_eqb (environ s) eio = Some env.

  Lemma conn_eq :
    let pre := if always_connect c then sp_effs s eio (accept_frames c ns sid) else [] in
    let tr := conn_try c ns sid env data in
    handle_connect c eio pn data s =
    match conn_verdict c ns (snd tr) with
    | Fail x => (s1, pre ++ fst tr, Err x)
    | Accept => (s1, pre ++ fst tr ++ (if always_connect c then [] else sp_effs s eio (accept_frames c ns sid)), Ok tt)
    | Refuse why =>
        if always_connect c then
          (upd_mg s1 (mgr_disconnect (fst (pre_disconnect (mg s1) sid ns)) sid ns),
           pre ++ fst tr ++ (match snd (pre_disconnect (mg s1) sid ns) with
                             | Ok _ => sp_effs s eio (frames_of c DISCONNECT why ns None)
                             | Err _ => [] end),
           match snd (pre_disconnect (mg s1) sid ns) with
           | Ok _ => sp_res (frames_of c DISCONNECT why ns None)
           | Err x => Err x end)
        else
          (upd_mg s1 (mgr_disconnect (mg s1) sid ns),
           fst tr ++ sp_effs s eio (frames_of c CONNECT_ERROR why ns None),
           sp_res (frames_of c CONNECT_ERROR why ns None))
    end.
  Proof.
    exact (connect_accepted_by_manager c eio pn data s env Hna Hsv (proj1 (conn_state_facts HI Hnew)) Henv).
  Qed.

  Theorem connect_accept_no_handler :
    hid_for c ev_connect ns = None ->
    handle_connect c eio pn data s = (s1, sp_effs s eio (accept_frames c ns sid), Ok tt).
  Proof.
    intro Hh. rewrite conn_eq. cbv zeta.
    destruct (conn_try_no_handler c ns sid env data Hh) as [He Hv]. rewrite Hv, He.
    destruct (always_connect c); cbn [app]; [rewrite app_nil_r|]; reflexivity.
  Qed.

  Variables (h : N) (pre : list pv) (b : hbehav).
  Hypothesis Hresp : responsible c ev_connect ns [] = Some (Some h, pre).
  Hypothesis Hb : aget N.eqb (behav c) h = Some b.
  Let args := connect_args sid env data b pre.
  Hypothesis Hfit : arity_bad b (List.length args) = false.

  Theorem connect_accept_handler v :
    h_outcome b = Returns v -> v <> PBool false ->
    handle_connect c eio pn data s =
    (s1, if always_connect c then sp_effs s eio (accept_frames c ns sid) ++ [Call h args]
         else Call h args :: sp_effs s eio (accept_frames c ns sid), Ok tt).
  Proof.
    intros Ho Hv. rewrite conn_eq. cbv zeta.
    rewrite (conn_try_handler c ns sid env data h pre b Hresp Hb Hfit) by (unfold no_raise; rewrite Ho; exact I).
    rewrite Ho. cbn [fst snd outcome_res conn_verdict].
    destruct (pv_eqb v (PBool false)) eqn:E; [apply pv_eqb_eq in E; contradiction|].
    destruct (always_connect c); cbn [app]; reflexivity.
  Qed.

  (* the refusal's payload *)
  Definition refusal_of (o : outcome) : option pv :=
    match o with
    | Returns v => if pv_eqb v (PBool false) then Some (error_args []) else None
    | RaisesRefused ra => Some (error_args ra)
    | Raises _ => None
    end.

  Lemma conn_verdict_refuse why :
    refusal_of (h_outcome b) = Some why ->
    conn_verdict c ns (match outcome_res (h_outcome b) with Ok v => Ok (Some v) | Err x => Err x end) = Refuse why.
  Proof.
    unfold refusal_of. destruct (h_outcome b) as [v|ra|x] eqn:Ho; cbn [outcome_res conn_verdict].
    - destruct (pv_eqb v (PBool false)); [intro H; inversion H; reflexivity|discriminate].
    - intro H; inversion H; subst. rewrite connect_hid_hid_for. unfold hid_for. rewrite Hresp.
      unfold refusal_args. rewrite Hb, Ho. reflexivity.
    - discriminate.
  Qed.

  Lemma no_raise_refusal why : refusal_of (h_outcome b) = Some why -> no_raise b.
  Proof. unfold refusal_of, no_raise. destruct (h_outcome b); [exact (fun _ => I)|exact (fun _ => I)|discriminate]. Qed.

  Theorem connect_refused why :
    refusal_of (h_outcome b) = Some why ->
    handle_connect c eio pn data s =
    if always_connect c then
      (upd_mg s1 (mgr_disconnect (fst (pre_disconnect (mg s1) sid ns)) sid ns),
       sp_effs s eio (accept_frames c ns sid) ++ Call h args :: sp_effs s eio (frames_of c DISCONNECT why ns None),
       sp_res (frames_of c DISCONNECT why ns None))
    else
      (upd_mg s1 (mgr_disconnect (mg s1) sid ns),
       Call h args :: sp_effs s eio (frames_of c CONNECT_ERROR why ns None),
       sp_res (frames_of c CONNECT_ERROR why ns None)).
  Proof.
    intro Hw. rewrite conn_eq. cbv zeta.
    rewrite (conn_try_handler c ns sid env data h pre b Hresp Hb Hfit (no_raise_refusal _ Hw)).
    cbn [fst snd]. rewrite (conn_verdict_refuse _ Hw).
    destruct (always_connect c); [|reflexivity].
    rewrite pre_disconnect_res.
    destruct (conn_state_facts HI Hnew) as (_ & _ & _ & He & _).
    unfold eio_from_sid in He. fold s1 in He. destruct (room_of (mg s1) ns PNone); [|discriminate].
    reflexivity.
  Qed.

  (* after a refusal the manager has forgotten the session id *)
  Theorem connect_refused_state why s' effs res :
    refusal_of (h_outcome b) = Some why ->
    handle_connect c eio pn data s = (s', effs, res) ->
    (forall ns', eio_from_sid (mg s') sid ns' = None) /\ is_member (mg s') sid = false /\
    MOK (mg s') /\
    pending (mg s') = pending (mg s) /\ callbacks (mg s') = callbacks (mg s) /\
    (forall ns', ns <> ns' -> ns_rooms (mg s') ns' = ns_rooms (mg s) ns') /\
    fresh s' = fresh s + 1 /\ environ s' = environ s /\ binpkt s' = binpkt s /\
    sessions s' = sessions s /\ live s' = live s.
  Proof.
    intros Hw Hrun. rewrite (connect_refused why Hw) in Hrun.
    destruct (conn_state_facts HI Hnew) as (_ & Hm1 & _ & He1 & Hc1 & Hp1 & Hcb1 & Hf1).
    assert (Hns1 : ns_rooms (mg s1) ns <> None).
    { unfold eio_from_sid in He1. rewrite room_of_none in He1. destruct (ns_rooms (mg s1) ns); [discriminate|discriminate]. }
    assert (Hmain : forall m0, MOK m0 -> rooms m0 = rooms (mg s1) -> callbacks m0 = callbacks (mg s) ->
              pending_after m0 sid ns = pending (mg s) ->
              let m' := mgr_disconnect m0 sid ns in
              (forall ns', eio_from_sid m' sid ns' = None) /\ is_member m' sid = false /\ MOK m' /\
              pending m' = pending (mg s) /\ callbacks m' = callbacks (mg s) /\
              (forall ns', ns <> ns' -> ns_rooms m' ns' = ns_rooms (mg s) ns')).
    { intros m0 Hm0 Hr0 Hcb0 Hpa0 m'. subst m'.
      destruct (mgr_disconnect_spec m0 sid ns Hm0) as (Hm' & He' & Hf' & _ & Hcp).
      assert (Hns0 : ns_rooms m0 ns <> None) by (unfold ns_rooms; rewrite Hr0; exact Hns1).
      destruct (Hcp Hns0) as [Hcb' Hp'].
      assert (Hall : forall ns', eio_from_sid (mgr_disconnect m0 sid ns) sid ns' = None).
      { intro ns'. destruct (str_eqb ns ns') eqn:E; [apply str_eqb_eq in E; subst ns'; exact He'|].
        assert (Hne : ns <> ns') by (intro; subst; rewrite str_eqb_refl in E; discriminate).
        unfold eio_from_sid. rewrite room_of_none. rewrite (Hf' _ Hne).
        unfold ns_rooms. rewrite Hr0. fold (ns_rooms (mg s1) ns'). rewrite (Hf1 _ Hne).
        pose proof (fresh_no_eio s HI ns') as H0. unfold eio_from_sid in H0. rewrite room_of_none in H0. exact H0. }
      split; [exact Hall|]. split; [apply is_member_false; assumption|]. split; [exact Hm'|].
      split; [rewrite Hp'; exact Hpa0|].
      split; [rewrite Hcb', Hcb0; apply (fresh_no_callbacks s HI)|].
      intros ns' Hne. rewrite (Hf' _ Hne). unfold ns_rooms. rewrite Hr0. exact (Hf1 _ Hne). }
    destruct (always_connect c); inversion Hrun; subst s' effs res; clear Hrun; cbn [mg upd_mg fresh environ binpkt sessions live].
    - destruct (Hmain (fst (pre_disconnect (mg s1) sid ns))) as (A & B & C & D & E & F).
      + apply MOK_pre_disconnect. exact Hm1.
      + apply pre_disconnect_rooms.
      + rewrite pre_disconnect_callbacks. exact Hcb1.
      + rewrite <- Hp1. apply pending_roundtrip.
        * rewrite (is_pending_cong _ _ _ _ Hp1). apply (fresh_not_pending s HI).
        * rewrite Hp1. intro Habs. apply saget_in in Habs. destruct HI as (_ & _ & Hpn). exact (Hpn _ _ Habs eq_refl).
      + repeat (split; [assumption|]). repeat split; reflexivity.
    - destruct (Hmain (mg s1) Hm1 eq_refl Hcb1) as (A & B & C & D & E & F).
      + unfold pending_after. assert (Hnp : is_pending (mg s1) sid ns = false).
        { rewrite (is_pending_cong _ _ _ _ Hp1). apply (fresh_not_pending s HI). }
        rewrite Hnp. exact Hp1.
      + repeat (split; [assumption|]). repeat split; reflexivity.
  Qed.
End Connect.

(* ------------------------------------------------------------------ *)
(* C04_disconnect_once_seq                                            *)
(* ------------------------------------------------------------------ *)
Definition disc_state (s : srv) (sid ns : str) : srv :=
  upd_mg s (mgr_disconnect (fst (pre_disconnect (mg s) sid ns)) sid ns).
Definition unit_res {A} (r : Res A) : Res unit := match r with Ok _ => Ok tt | Err x => Err x end.
Definition reason_or_client (reason : pv) : pv := if truthy reason then reason else r_client_disconnect.

Lemma connected_room m sid ns :
  is_connected m (Some sid) ns = true ->
  is_pending m sid ns = false /\ exists b e, room_of m ns PNone = Some b /\ bd_get b sid = Some e.
Proof.
  unfold is_connected. destruct (is_pending m sid ns); [discriminate|].
  destruct (room_of m ns PNone) as [b|]; [|discriminate].
  destruct (bd_get b sid) as [e|] eqn:E; [|discriminate]. intros _. split; [reflexivity|]. eauto.
Qed.

Lemma disc_tail_run c ns sid args s1 :
  has_actions c = false ->
  finallyM (_ <~ trigger_event c (PStr (s2l "disconnect")) ns args ;; ret tt)
           (set_mg (fun m => mgr_disconnect m sid ns)) s1 =
  (upd_mg s1 (mgr_disconnect (mg s1) sid ns),
   fst (te_pure c ev_disconnect ns args), unit_res (snd (te_pure c ev_disconnect ns args))).
Proof.
  intro Hna. unfold finallyM, bindM. rewrite (trigger_event_pure _ _ _ _ s1 Hna). unfold ev_disconnect.
  destruct (te_pure c (PStr (s2l "disconnect")) ns args) as [e1 [r|x]]; cbn [fst snd ret unit_res].
  - rewrite set_mg_eq, !app_nil_r. reflexivity.
  - rewrite set_mg_eq, !app_nil_r. reflexivity.
Qed.

Lemma handle_disconnect_eq c eio pn reason s sid :
  has_actions c = false ->
  sid_from_eio (mg s) eio (ns_or_default pn) = Some sid ->
  is_connected (mg s) (Some sid) (ns_or_default pn) = true ->
  let ns := ns_or_default pn in
  let te := te_pure c ev_disconnect ns [PStr sid; reason_or_client reason] in
  handle_disconnect c eio pn reason s = (disc_state s sid ns, fst te, unit_res (snd te)).
Proof.
  intros Hna Hs Hc ns te. subst te. unfold handle_disconnect. fold ns in Hs, Hc |- *.
  rewrite bindM_getS, Hs, Hc. cbn [negb].
  unfold bindM at 1. rewrite with_mg_eq. rewrite pre_disconnect_res.
  destruct (connected_room _ _ _ Hc) as (_ & b & e & Hb & Hg). rewrite Hb.
  rewrite bindM_lift_ok. rewrite disc_tail_run by assumption. reflexivity.
Qed.

Lemma handle_disconnect_noop c eio pn reason s :
  is_connected (mg s) (sid_from_eio (mg s) eio (ns_or_default pn)) (ns_or_default pn) = false ->
  handle_disconnect c eio pn reason s = (s, [], Ok tt).
Proof. intro H. unfold handle_disconnect. rewrite bindM_getS, H. reflexivity. Qed.

Lemma disconnect_frames_ok c ns : exists f, frames_of c DISCONNECT PNone ns None = Ok [PStr f].
Proof.
  unfold frames_of, ctor.
  replace (uses_binary c && _) with false by (destruct (uses_binary c); reflexivity).
  cbn. eexists. reflexivity.
Qed.

Lemma api_disconnect_eq c sid pn s :
  has_actions c = false ->
  is_connected (mg s) (Some sid) (ns_or_default pn) = true ->
  let ns := ns_or_default pn in
  let te := te_pure c ev_disconnect ns [PStr sid; r_server_disconnect] in
  api_disconnect c sid pn s =
  (disc_state s sid ns,
   match eio_from_sid (mg s) sid ns with
   | Some e => sp_effs s e (frames_of c DISCONNECT PNone ns None)
   | None => [] end ++ fst te,
   unit_res (snd te)).
Proof.
  intros Hna Hc ns te. subst te. unfold api_disconnect. fold ns in Hc |- *.
  rewrite bindM_getS, Hc. cbn [negb].
  unfold bindM at 1. rewrite with_mg_eq. rewrite pre_disconnect_res.
  destruct (connected_room _ _ _ Hc) as (_ & b & e & Hb & Hg). unfold eio_from_sid. rewrite Hb, Hg.
  rewrite bindM_lift_ok. unfold bindM at 1. rewrite send_packet_spec.
  destruct (disconnect_frames_ok c ns) as [f Hf]. rewrite Hf. cbn [sp_res].
  rewrite disc_tail_run by assumption. cbn [fst snd mg upd_mg].
  rewrite (sp_effs_cong s) by reflexivity. reflexivity.
Qed.

Lemma api_disconnect_noop c sid pn s :
  is_connected (mg s) (Some sid) (ns_or_default pn) = false -> api_disconnect c sid pn s = (s, [], Ok tt).
Proof. intro H. unfold api_disconnect. rewrite bindM_getS, H. reflexivity. Qed.

(* the disconnect handler's arguments: (sid, reason), or (sid) for a legacy one-argument handler *)
Definition disc_args (sid : str) (reason : pv) (b : hbehav) (pre : list pv) : list pv :=
  if arity_bad b (List.length (pre ++ [PStr sid; reason])) then pre ++ [PStr sid] else pre ++ [PStr sid; reason].

Lemma removelast_two {A} (pre : list A) a b : removelast (pre ++ [a; b]) = pre ++ [a].
Proof. rewrite removelast_app by discriminate. reflexivity. Qed.

Lemma te_disconnect c ns l :
  te_pure c ev_disconnect ns l =
  match responsible c ev_disconnect ns [] with
  | None => ([], Ok None)
  | Some (Some h, pre) => some_res (cwr_pure c ev_disconnect h (pre ++ l))
  | Some (None, _) => ([], Ok (Some PNone))
  end.
Proof.
  rewrite te_pure_responsible by reflexivity. rewrite responsible_prefix.
  destruct (responsible c ev_disconnect ns []) as [[[h|] pre]|]; reflexivity.
Qed.

Lemma te_disconnect_returns c ns sid reason h pre b v :
  responsible c ev_disconnect ns [] = Some (Some h, pre) ->
  aget N.eqb (behav c) h = Some b ->
  arity_bad b (List.length (disc_args sid reason b pre)) = false ->
  h_outcome b = Returns v ->
  te_pure c ev_disconnect ns [PStr sid; reason] = ([Call h (disc_args sid reason b pre)], Ok (Some v)).
Proof.
  intros Hr Hb Har Ho. rewrite te_disconnect, Hr. unfold cwr_pure, ch_pure, disc_args in *. rewrite Hb.
  destruct (arity_bad b (List.length (pre ++ [PStr sid; reason]))) eqn:E.
  - change (is_disconnect ev_disconnect) with true. cbv iota. rewrite removelast_two, Har, Ho. reflexivity.
  - rewrite Ho. reflexivity.
Qed.

Lemma te_disconnect_no_handler c ns l :
  hid_for c ev_disconnect ns = None -> fst (te_pure c ev_disconnect ns l) = [] /\ unit_res (snd (te_pure c ev_disconnect ns l)) = Ok tt.
Proof.
  unfold hid_for. rewrite te_disconnect.
  destruct (responsible c ev_disconnect ns []) as [[[h|] pre]|]; [discriminate| |]; intros _; split; reflexivity.
Qed.

(* after the terminating operation *)
Lemma disc_state_facts s sid ns :
  MOK (mg s) ->
  let s' := disc_state s sid ns in
  MOK (mg s') /\
  is_connected (mg s') (Some sid) ns = false /\ eio_from_sid (mg s') sid ns = None /\
  (forall e, ~ In (ns, sid, e) (all_sids (mg s'))) /\
  (forall ns', ns <> ns' -> ns_rooms (mg s') ns' = ns_rooms (mg s) ns') /\
  (forall ns' e, ns <> ns' -> sid_from_eio (mg s') e ns' = sid_from_eio (mg s) e ns') /\
  fresh s' = fresh s /\ environ s' = environ s /\ binpkt s' = binpkt s /\ sessions s' = sessions s /\ live s' = live s.
Proof.
  intros Hm s'. subst s'. unfold disc_state. cbn [mg upd_mg fresh environ binpkt sessions live].
  destruct (mgr_disconnect_spec _ sid ns (MOK_pre_disconnect _ sid ns Hm)) as (Hm' & He & Hf & _).
  assert (Hf' : forall ns', ns <> ns' ->
            ns_rooms (mgr_disconnect (fst (pre_disconnect (mg s) sid ns)) sid ns) ns' = ns_rooms (mg s) ns').
  { intros ns' Hne. rewrite (Hf _ Hne). unfold ns_rooms. rewrite pre_disconnect_rooms. reflexivity. }
  split; [exact Hm'|]. split.
  - unfold is_connected. destruct (is_pending _ sid ns); [reflexivity|].
    unfold eio_from_sid in He. destruct (room_of _ ns PNone); [rewrite He|]; reflexivity.
  - split; [exact He|]. split.
    + intros e Hin. rewrite (all_sids_eio _ _ _ _ Hm' Hin) in He. discriminate.
    + split; [exact Hf'|]. split; [|repeat split].
      intros ns' e Hne. unfold sid_from_eio. rewrite !room_of_none, (Hf' _ Hne). reflexivity.
Qed.

Section DisconnectOnce.
  Variables (c : cfg) (s : srv) (sid : str) (pn : option str).
  Let ns := ns_or_default pn.
  Hypothesis Hna : has_actions c = false.
  Hypothesis Hc : is_connected (mg s) (Some sid) ns = true.
  Variables (h : N) (pre : list pv) (b : hbehav) (v : pv).
  Hypothesis Hresp : responsible c ev_disconnect ns [] = Some (Some h, pre).
  Hypothesis Hb : aget N.eqb (behav c) h = Some b.
  Hypothesis Ho : h_outcome b = Returns v.

  (* cause: DISCONNECT packet from the client (reason CLIENT_DISCONNECT) *)
  Theorem disconnect_packet_once eio reason :
    sid_from_eio (mg s) eio ns = Some sid ->
    arity_bad b (List.length (disc_args sid (reason_or_client reason) b pre)) = false ->
    handle_disconnect c eio pn reason s =
    (disc_state s sid ns, [Call h (disc_args sid (reason_or_client reason) b pre)], Ok tt).
  Proof.
    intros Hs Har. rewrite (handle_disconnect_eq c eio pn reason s sid Hna Hs Hc). cbv zeta. fold ns.
    rewrite (te_disconnect_returns c ns sid _ h pre b v Hresp Hb Har Ho). reflexivity.
  Qed.

  (* cause: server.disconnect(sid) (reason SERVER_DISCONNECT); the client is told first *)
  Theorem disconnect_api_once :
    arity_bad b (List.length (disc_args sid r_server_disconnect b pre)) = false ->
    api_disconnect c sid pn s =
    (disc_state s sid ns,
     match eio_from_sid (mg s) sid ns with
     | Some e => sp_effs s e (frames_of c DISCONNECT PNone ns None)
     | None => [] end ++ [Call h (disc_args sid r_server_disconnect b pre)], Ok tt).
  Proof.
    intros Har. rewrite (api_disconnect_eq c sid pn s Hna Hc). cbv zeta. fold ns.
    rewrite (te_disconnect_returns c ns sid _ h pre b v Hresp Hb Har Ho). reflexivity.
  Qed.
End DisconnectOnce.

(* a second terminating operation finds the sid not connected: no handler, no effect at all *)
Theorem no_second_call c s sid pn :
  is_connected (mg s) (Some sid) (ns_or_default pn) = false ->
  api_disconnect c sid pn s = (s, [], Ok tt) /\
  (forall eio reason,
      sid_from_eio (mg s) eio (ns_or_default pn) = Some sid \/ sid_from_eio (mg s) eio (ns_or_default pn) = None ->
      handle_disconnect c eio pn reason s = (s, [], Ok tt)).
Proof.
  intro H. split; [apply api_disconnect_noop; exact H|].
  intros eio reason [Hs|Hs]; apply handle_disconnect_noop; rewrite Hs; [exact H|reflexivity].
Qed.
