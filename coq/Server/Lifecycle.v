(* C04: connection lifecycle. *)
From VT Require Export Server.StepLemmas Check.C04Check.
From VT Require Import Base.PyStrProofs.
From Coq Require Import Lia.
Open Scope N_scope.

(* ------------------------------------------------------------------ *)
(* C04_error_args                                                     *)
(* ------------------------------------------------------------------ *)
Lemma error_args_cases :
  error_args [] = PDict [(k_message, PStr (s2l "Connection rejected by server"))] /\
  (forall a, error_args [a] = PDict [(k_message, PStr (py_str a))]) /\
  (forall a b, error_args [a; b] = PDict [(k_message, PStr (py_str a)); (k_data, b)]) /\
  (forall a b d rest, error_args (a :: b :: d :: rest) =
                      PDict [(k_message, PStr (py_str a)); (k_data, PTuple (b :: d :: rest))]).
Proof. repeat split. Qed.

(* ------------------------------------------------------------------ *)
(* session ids                                                        *)
(* ------------------------------------------------------------------ *)
Lemma str_of_N_inj a b : str_of_N a = str_of_N b -> a = b.
Proof.
  intro H. pose proof (py_int_str_of_N a) as Ha. pose proof (py_int_str_of_N b) as Hb.
  rewrite H in Ha. rewrite Ha in Hb. inversion Hb. reflexivity.
Qed.
Lemma sid_name_inj a b : sid_name a = sid_name b -> a = b.
Proof. unfold sid_name. intro H. inversion H. apply str_of_N_inj. assumption. Qed.

(* ------------------------------------------------------------------ *)
(* the responsible target does not depend on the arguments            *)
(* ------------------------------------------------------------------ *)
Lemma responsible_prefix c ev ns l :
  responsible c ev ns l =
  match responsible c ev ns [] with
  | Some (oh, pre) => Some (oh, pre ++ l)
  | None => None
  end.
Proof.
  unfold responsible, get_event_handler, get_namespace_handler.
  destruct (aget str_eqb (handlers c) ns) as [tbl|].
  - destruct (ev_lookup tbl ev); [reflexivity|].
    destruct (reserved ev).
    + destruct (aget str_eqb (handlers c) star) as [tbl'|].
      * destruct (ev_lookup tbl' ev); [reflexivity|].
        destruct (aget str_eqb (ns_handlers c) ns); [destruct ev; reflexivity|].
        destruct (aget str_eqb (ns_handlers c) star); [destruct ev; reflexivity|reflexivity].
      * destruct (aget str_eqb (ns_handlers c) ns); [destruct ev; reflexivity|].
        destruct (aget str_eqb (ns_handlers c) star); [destruct ev; reflexivity|reflexivity].
    + destruct (aget str_eqb tbl star); [reflexivity|].
      destruct (aget str_eqb (handlers c) star) as [tbl'|].
      * destruct (ev_lookup tbl' ev); [reflexivity|].
        destruct (aget str_eqb tbl' star); [reflexivity|].
        destruct (aget str_eqb (ns_handlers c) ns); [destruct ev; reflexivity|].
        destruct (aget str_eqb (ns_handlers c) star); [destruct ev; reflexivity|reflexivity].
      * destruct (aget str_eqb (ns_handlers c) ns); [destruct ev; reflexivity|].
        destruct (aget str_eqb (ns_handlers c) star); [destruct ev; reflexivity|reflexivity].
  - destruct (aget str_eqb (handlers c) star) as [tbl'|].
    + destruct (ev_lookup tbl' ev); [reflexivity|].
      destruct (reserved ev).
      * destruct (aget str_eqb (ns_handlers c) ns); [destruct ev; reflexivity|].
        destruct (aget str_eqb (ns_handlers c) star); [destruct ev; reflexivity|reflexivity].
      * destruct (aget str_eqb tbl' star); [reflexivity|].
        destruct (aget str_eqb (ns_handlers c) ns); [destruct ev; reflexivity|].
        destruct (aget str_eqb (ns_handlers c) star); [destruct ev; reflexivity|reflexivity].
    + destruct (aget str_eqb (ns_handlers c) ns); [destruct ev; reflexivity|].
      destruct (aget str_eqb (ns_handlers c) star); [destruct ev; reflexivity|reflexivity].
Qed.

Lemma connect_hid_hid_for c ns : connect_hid c ns = hid_for c ev_connect ns.
Proof.
  unfold connect_hid, hid_for, responsible, ev_connect.
  destruct (get_event_handler c (PStr (s2l "connect")) ns []) as [[h a]|]; [reflexivity|].
  destruct (get_namespace_handler c ns []) as [[methods a]|]; [|reflexivity].
  destruct (aget str_eqb methods (s2l "connect")); reflexivity.
Qed.

(* ------------------------------------------------------------------ *)
(* handle_connect, step by step                                       *)
(* ------------------------------------------------------------------ *)
Definition unable := PStr (s2l "Unable to connect").
Definition bump (s : srv) : srv :=
  mkSrv (mg s) (environ s) (binpkt s) (sessions s) (live s) (fresh s + 1).
Definition new_sid (s : srv) : str := sid_name (fresh s).
(* state after manager.connect() *)
Definition conn_state (s : srv) (eio ns : str) : srv :=
  upd_mg (bump s) (fst (mgr_connect (mg s) eio ns (new_sid s))).

Lemma sp_effs_cong s s' eio r : live s' = live s -> sp_effs s' eio r = sp_effs s eio r.
Proof. intro H. unfold sp_effs, is_live. rewrite H. reflexivity. Qed.

Lemma connect_not_served c eio pn data s :
  served c (ns_or_default pn) = false ->
  handle_connect c eio pn data s =
  (s, sp_effs s eio (frames_of c CONNECT_ERROR unable (ns_or_default pn) None),
      sp_res (frames_of c CONNECT_ERROR unable (ns_or_default pn) None)).
Proof.
  intro H. unfold handle_connect. rewrite bindM_getS, H, bindM_ret. apply send_packet_spec.
Qed.

Lemma connect_rejected_by_manager c eio pn data s :
  served c (ns_or_default pn) = true ->
  snd (mgr_connect (mg s) eio (ns_or_default pn) (new_sid s)) = None ->
  handle_connect c eio pn data s =
  (conn_state s eio (ns_or_default pn),
   sp_effs s eio (frames_of c CONNECT_ERROR unable (ns_or_default pn) None),
   sp_res (frames_of c CONNECT_ERROR unable (ns_or_default pn) None)).
Proof.
  intros H Hm. unfold handle_connect. rewrite bindM_getS, H.
  unfold bindM at 1. unfold bindM at 1. unfold putS at 1.
  rewrite with_mg_eq. cbn [mg fst snd app]. fold (new_sid s). rewrite Hm.
  rewrite send_packet_spec. reflexivity.
Qed.

(* the connect-handler invocation, with the falsy-auth retry *)
Definition conn_try (c : cfg) (ns sid : str) (env data : pv) : list eff * Res (option pv) :=
  if truthy data then te_pure c ev_connect ns [PStr sid; env; data]
  else match te_pure c ev_connect ns [PStr sid; env] with
       | (e1, Err TypeError) =>
           (e1 ++ fst (te_pure c ev_connect ns [PStr sid; env; PNone]),
            snd (te_pure c ev_connect ns [PStr sid; env; PNone]))
       | x => x
       end.

(* the decision taken after the handler *)
Inductive verdict := Accept | Refuse (why : pv) | Fail (x : exn).
Definition conn_verdict (c : cfg) (ns : str) (r : Res (option pv)) : verdict :=
  match r with
  | Ok (Some v) => if pv_eqb v (PBool false) then Refuse (error_args []) else Accept
  | Ok None => Accept
  | Err ConnectionRefused => Refuse (error_args (refusal_args c (connect_hid c ns)))
  | Err x => Fail x
  end.

Definition accept_frames (c : cfg) (ns sid : str) := frames_of c CONNECT (sid_dict sid) ns None.

(* one frame: the text packet with the JSON serializer, the packet dict with msgpack *)
Lemma accept_frames_ok c ns sid : exists f, accept_frames c ns sid = Ok [f].
Proof.
  unfold accept_frames, frames_of, ctor, sid_dict, encode_pieces.
  replace (uses_binary c && _) with false by (destruct (uses_binary c); reflexivity).
  destruct (uses_binary c); cbn; eexists; reflexivity.
Qed.
Lemma accept_frames_res c ns sid : sp_res (accept_frames c ns sid) = Ok tt.
Proof. destruct (accept_frames_ok c ns sid) as [f H]. rewrite H. reflexivity. Qed.

Lemma conn_inner_run c ns sid env data s1 :
  has_actions c = false ->
  (if truthy data then trigger_event c (PStr (s2l "connect")) ns [PStr sid; env; data]
   else catch (trigger_event c (PStr (s2l "connect")) ns [PStr sid; env])
              (fun e => match e with
                        | TypeError => Some (trigger_event c (PStr (s2l "connect")) ns [PStr sid; env; PNone])
                        | _ => None end)) s1 =
  (s1, fst (conn_try c ns sid env data), snd (conn_try c ns sid env data)).
Proof.
  intro Hna. unfold conn_try, ev_connect. destruct (truthy data).
  - apply trigger_event_pure; assumption.
  - unfold catch. rewrite (trigger_event_pure _ _ _ _ s1 Hna).
    destruct (te_pure c (PStr (s2l "connect")) ns [PStr sid; env]) as [e1 [r|x]]; [reflexivity|].
    cbn [fst snd]. destruct x; try reflexivity.
    rewrite (trigger_event_pure _ _ _ _ s1 Hna). reflexivity.
Qed.

Definition conn_outcome (c : cfg) (ns : str) (r : Res (option pv)) : Res (option pv * pv) :=
  match r with
  | Ok r => Ok (r, error_args [])
  | Err ConnectionRefused => Ok (Some (PBool false), error_args (refusal_args c (connect_hid c ns)))
  | Err x => Err x
  end.

Lemma conn_try_run c ns sid env data s1 :
  has_actions c = false ->
  catch (r <~ (if truthy data then trigger_event c (PStr (s2l "connect")) ns [PStr sid; env; data]
               else catch (trigger_event c (PStr (s2l "connect")) ns [PStr sid; env])
                          (fun e => match e with
                                    | TypeError => Some (trigger_event c (PStr (s2l "connect")) ns [PStr sid; env; PNone])
                                    | _ => None end)) ;;
         ret (r, error_args []))
        (fun e => match e with
                  | ConnectionRefused =>
                      Some (ret (Some (PBool false), error_args (refusal_args c (connect_hid c ns))))
                  | _ => None end) s1 =
  (s1, fst (conn_try c ns sid env data), conn_outcome c ns (snd (conn_try c ns sid env data))).
Proof.
  intro Hna. pose proof (conn_inner_run c ns sid env data s1 Hna) as Hin.
  destruct (conn_try c ns sid env data) as [e1 [r|x]]; cbn [fst snd conn_outcome] in *.
  - erewrite catch_ok; [reflexivity|]. rewrite (bindM_ok _ _ _ _ _ _ Hin). cbn [ret fst snd].
    rewrite app_nil_r. reflexivity.
  - destruct x;
      try (erewrite catch_err_none; [reflexivity| apply (bindM_err _ _ _ _ _ _ Hin) | reflexivity]).
    erewrite catch_err_some; [| apply (bindM_err _ _ _ _ _ _ Hin) | reflexivity].
    cbn [ret fst snd]. rewrite app_nil_r. reflexivity.
Qed.

Lemma upd_mg_upd s m m' : upd_mg (upd_mg s m) m' = upd_mg s m'.
Proof. reflexivity. Qed.

Lemma refuse_always_run c eio ns sid why s1 :
  finallyM (r0 <~ with_mg (fun m : mgr => pre_disconnect m sid ns);; lift r0;;;
            send_packet c (Some eio) DISCONNECT why ns None)
           (set_mg (fun m : mgr => mgr_disconnect m sid ns)) s1 =
  (upd_mg s1 (mgr_disconnect (fst (pre_disconnect (mg s1) sid ns)) sid ns),
   match snd (pre_disconnect (mg s1) sid ns) with
   | Ok _ => sp_effs s1 eio (frames_of c DISCONNECT why ns None)
   | Err _ => [] end,
   match snd (pre_disconnect (mg s1) sid ns) with
   | Ok _ => sp_res (frames_of c DISCONNECT why ns None)
   | Err x => Err x end).
Proof.
  unfold finallyM. unfold bindM at 1. rewrite with_mg_eq.
  destruct (snd (pre_disconnect (mg s1) sid ns)) as [o|x].
  - rewrite bindM_lift_ok, send_packet_spec, set_mg_eq. cbn [mg upd_mg app].
    rewrite (sp_effs_cong s1) by reflexivity. rewrite app_nil_r.
    destruct (sp_res _); reflexivity.
  - rewrite bindM_lift_err, set_mg_eq. reflexivity.
Qed.

Lemma refuse_plain_run c eio ns sid why s1 :
  finallyM (send_packet c (Some eio) CONNECT_ERROR why ns None)
           (set_mg (fun m : mgr => mgr_disconnect m sid ns)) s1 =
  (upd_mg s1 (mgr_disconnect (mg s1) sid ns),
   sp_effs s1 eio (frames_of c CONNECT_ERROR why ns None),
   sp_res (frames_of c CONNECT_ERROR why ns None)).
Proof.
  unfold finallyM. rewrite send_packet_spec, set_mg_eq. rewrite app_nil_r.
  destruct (sp_res _); reflexivity.
Qed.

Lemma connect_accepted_by_manager c eio pn data s env :
  has_actions c = false ->
  served c (ns_or_default pn) = true ->
  snd (mgr_connect (mg s) eio (ns_or_default pn) (new_sid s)) = Some (new_sid s) ->
  aget str_eqb (environ s) eio = Some env ->
  let ns := ns_or_default pn in
  let sid := new_sid s in
  let s1 := conn_state s eio ns in
  let pre := if always_connect c then sp_effs s eio (accept_frames c ns sid) else [] in
  let tr := conn_try c ns sid env data in
  handle_connect c eio pn data s =
  match conn_verdict c ns (snd tr) with
  | Fail x => (s1, pre ++ fst tr, Err x)
  | Accept => (s1, pre ++ fst tr ++ (if always_connect c then [] else sp_effs s eio (accept_frames c ns sid)), Ok tt)
  | Refuse why =>
      if always_connect c then
        (upd_mg s1 (mgr_disconnect (fst (pre_disconnect (mg s1) sid ns)) sid ns),
         pre ++ fst tr ++ (match snd (pre_disconnect (mg s1) sid ns) with
                           | Ok _ => sp_effs s eio (frames_of c DISCONNECT why ns None)
                           | Err _ => [] end),
         match snd (pre_disconnect (mg s1) sid ns) with
         | Ok _ => sp_res (frames_of c DISCONNECT why ns None)
         | Err x => Err x end)
      else
        (upd_mg s1 (mgr_disconnect (mg s1) sid ns),
         fst tr ++ sp_effs s eio (frames_of c CONNECT_ERROR why ns None),
         sp_res (frames_of c CONNECT_ERROR why ns None))
  end.
Proof.
  intros Hna Hsv Hm Henv. cbv zeta.
  set (ns := ns_or_default pn) in *. set (sid := new_sid s) in *.
  set (s1 := conn_state s eio ns).
  unfold handle_connect. fold ns. rewrite bindM_getS, Hsv.
  unfold bindM at 1. unfold bindM at 1. unfold putS at 1.
  rewrite with_mg_eq. cbn [mg fst snd app]. change (sid_name (fresh s)) with sid. rewrite Hm.
  change (upd_mg _ (fst (mgr_connect (mg s) eio ns sid))) with s1.
  assert (Hlive : live s1 = live s) by reflexivity.
  unfold bindM at 1.
  destruct (always_connect c) eqn:Hal.
  - rewrite send_packet_spec. fold (accept_frames c ns sid). rewrite accept_frames_res, (sp_effs_cong s s1) by assumption.
    unfold bindM at 1. rewrite Henv. cbn [ret].
    unfold bindM at 1. rewrite (conn_try_run c ns sid env data s1 Hna).
    destruct (conn_try c ns sid env data) as [e1 r]. cbn [fst snd].
    destruct r as [[v|]|x]; cbn [conn_outcome conn_verdict].
    + destruct (pv_eqb v (PBool false)).
      * rewrite refuse_always_run. rewrite (sp_effs_cong s s1) by assumption. reflexivity.
      * cbn [ret app]. rewrite app_nil_r. reflexivity.
    + cbn [ret app]. rewrite app_nil_r. reflexivity.
    + destruct x; try reflexivity. cbn [pv_eqb Bool.eqb].
      rewrite refuse_always_run. rewrite (sp_effs_cong s s1) by assumption. reflexivity.
  - cbn [ret]. unfold bindM at 1. rewrite Henv. cbn [ret].
    unfold bindM at 1. rewrite (conn_try_run c ns sid env data s1 Hna).
    destruct (conn_try c ns sid env data) as [e1 r]. cbn [fst snd].
    destruct r as [[v|]|x]; cbn [conn_outcome conn_verdict].
    + destruct (pv_eqb v (PBool false)).
      * rewrite refuse_plain_run. rewrite (sp_effs_cong s s1) by assumption. reflexivity.
      * rewrite send_packet_spec. fold (accept_frames c ns sid). rewrite accept_frames_res, (sp_effs_cong s s1) by assumption.
        reflexivity.
    + rewrite send_packet_spec. fold (accept_frames c ns sid). rewrite accept_frames_res, (sp_effs_cong s s1) by assumption.
      reflexivity.
    + destruct x; try reflexivity. cbn [pv_eqb Bool.eqb].
      rewrite refuse_plain_run. rewrite (sp_effs_cong s s1) by assumption. reflexivity.
Qed.

(* ------------------------------------------------------------------ *)
(* the state invariant                                                *)
(* ------------------------------------------------------------------ *)
(* every session id stored anywhere in the manager was produced by the id generator *)
Definition below (n : N) (sid : str) : Prop := exists k, k < n /\ sid = sid_name k.
Definition sids_all (P : str -> Prop) (m : mgr) : Prop :=
  (forall ns rm room b sid eio, In (ns, rm) (rooms m) -> In (room, b) rm -> In (sid, eio) b -> P sid) /\
  (forall ns l sid, In (ns, l) (pending m) -> In sid l -> P sid) /\
  (forall sid slot, In (sid, slot) (callbacks m) -> P sid).
Definition pending_nonempty (m : mgr) : Prop := forall ns l, In (ns, l) (pending m) -> l <> [].
Definition ns_nonempty (m : mgr) : Prop := forall ns, In ns (map fst (rooms m)) -> ns <> [].
Definition MI (n : N) (m : mgr) : Prop :=
  MOK m /\ sids_all (below n) m /\ pending_nonempty m /\ ns_nonempty m.
Definition Inv (s : srv) : Prop := MI (fresh s) (mg s).

Lemma Inv_init : Inv srv_init.
Proof.
  split; [apply MOK_init|]. split.
  - split; [intros ? ? ? ? ? ? []|]. split; [intros ? ? ? []|intros ? ? []].
  - split; [intros ? ? []|intros ? []].
Qed.

Lemma not_below_self n : ~ below n (sid_name n).
Proof. intros (k & Hk & He). apply sid_name_inj in He. subst. lia. Qed.

Lemma sids_all_member P m ns b sid e :
  sids_all P m -> room_of m ns PNone = Some b -> In (sid, e) b -> P sid.
Proof.
  intros (H & _) Hb Hin. rewrite room_of_none in Hb.
  destruct (ns_rooms m ns) as [rm|] eqn:Hns; [|discriminate].
  destruct (aget_some_in _ _ _ _ Hb) as (k' & Hk & _).
  eapply H; [apply saget_in; exact Hns|exact Hk|exact Hin].
Qed.
Lemma sids_all_eio P m ns sid e : sids_all P m -> eio_from_sid m sid ns = Some e -> P sid.
Proof.
  intros H He. unfold eio_from_sid in He. destruct (room_of m ns PNone) as [b|] eqn:Hb; [|discriminate].
  eapply sids_all_member; [exact H|exact Hb|]. apply saget_in. exact He.
Qed.
Lemma sids_all_connected P m ns sid : sids_all P m -> is_connected m (Some sid) ns = true -> P sid.
Proof.
  intros H Hc. unfold is_connected in Hc. destruct (is_pending m sid ns); [discriminate|].
  destruct (room_of m ns PNone) as [b|] eqn:Hb; [|discriminate].
  destruct (bd_get b sid) as [e|] eqn:Hg; [|discriminate].
  eapply sids_all_member; [exact H|exact Hb|]. apply saget_in. exact Hg.
Qed.
Lemma sids_all_sid_from_eio P m ns eio sid : sids_all P m -> sid_from_eio m eio ns = Some sid -> P sid.
Proof.
  intros H He. unfold sid_from_eio in He. destruct (room_of m ns PNone) as [b|] eqn:Hb; [|discriminate].
  eapply sids_all_member; [exact H|exact Hb|]. apply bd_inv_in. exact He.
Qed.
Lemma sids_all_pending P m ns sid : sids_all P m -> is_pending m sid ns = true -> P sid.
Proof.
  intros (_ & H & _) Hp. unfold is_pending in Hp. destruct (aget str_eqb (pending m) ns) as [l|] eqn:Hl; [|discriminate].
  eapply H; [apply saget_in; exact Hl|]. apply existsb_str_in. exact Hp.
Qed.

Lemma adel_notin {V} (l : list (str * V)) k : ~ In k (map fst l) -> adel str_eqb l k = l.
Proof.
  induction l as [|[k' v] l IH]; cbn [adel map fst]; intro H; [reflexivity|].
  destruct (str_eqb k' k) eqn:E.
  - apply str_eqb_eq in E. subst. exfalso. apply H. left. reflexivity.
  - rewrite IH; [reflexivity|]. intro; apply H; right; assumption.
Qed.
Lemma sids_all_callbacks P m sid : sids_all P m -> ~ P sid -> adel str_eqb (callbacks m) sid = callbacks m.
Proof.
  intros (_ & _ & H) Hn. apply adel_notin. intro Hin. apply in_map_iff in Hin as ([k slot] & Hk & Hin).
  cbn [fst] in Hk. subst. exact (Hn (H _ _ Hin)).
Qed.

(* the next session id is unknown to the manager *)
Section Fresh.
  Variable s : srv.
  Hypothesis HI : Inv s.
  Let sid := new_sid s.
  Lemma fresh_not P : (P = below (fresh s)) -> ~ P sid.
  Proof. intros ->. apply not_below_self. Qed.
  Lemma fresh_no_eio ns : eio_from_sid (mg s) sid ns = None.
  Proof.
    destruct HI as (_ & Hb & _). destruct (eio_from_sid (mg s) sid ns) eqn:E; [|reflexivity].
    exfalso. exact (not_below_self _ (sids_all_eio _ _ _ _ _ Hb E)).
  Qed.
  Lemma fresh_not_pending ns : is_pending (mg s) sid ns = false.
  Proof.
    destruct HI as (_ & Hb & _). destruct (is_pending (mg s) sid ns) eqn:E; [|reflexivity].
    exfalso. exact (not_below_self _ (sids_all_pending _ _ _ _ Hb E)).
  Qed.
  Lemma fresh_no_callbacks : adel str_eqb (callbacks (mg s)) sid = callbacks (mg s).
  Proof. destruct HI as (_ & Hb & _). eapply sids_all_callbacks; [exact Hb|apply not_below_self]. Qed.
  Lemma fresh_not_sid_from_eio eio ns : sid_from_eio (mg s) eio ns <> Some sid.
  Proof.
    destruct HI as (_ & Hb & _). intro E. exact (not_below_self _ (sids_all_sid_from_eio _ _ _ _ _ Hb E)).
  Qed.
End Fresh.

(* membership through all_sids *)
Lemma in_all_sids m ns sid e :
  In (ns, sid, e) (all_sids m) <->
  exists rm b, In (ns, rm) (rooms m) /\ none_bd rm = Some b /\ In (sid, e) b.
Proof.
  unfold all_sids. rewrite in_flat_map. split.
  - intros ([ns' rm] & Hin & H). cbn [fst snd] in H.
    destruct (aget room_eqb rm PNone) as [b|] eqn:Hb; [|exfalso; exact H].
    apply in_map_iff in H as ([s' e'] & Heq & Hb'). cbn [fst snd] in Heq. inversion Heq; subst.
    exists rm, b. auto.
  - intros (rm & b & Hin & Hb & Hse). exists (ns, rm). split; [exact Hin|]. cbn [fst snd].
    change (In (ns, sid, e) (match none_bd rm with
                             | Some b => map (fun se : str * str => (ns, fst se, snd se)) b
                             | None => [] end)).
    rewrite Hb. apply in_map_iff. exists (sid, e). split; [reflexivity|exact Hse].
Qed.
Lemma all_sids_eio m ns sid e : MOK m -> In (ns, sid, e) (all_sids m) -> eio_from_sid m sid ns = Some e.
Proof.
  intros Hm Hin. apply in_all_sids in Hin as (rm & b & Hin & Hb & Hse).
  destruct Hm as [Hnd Hok]. pose proof (sin_aget _ _ _ Hnd Hin) as Hns.
  unfold eio_from_sid. rewrite room_of_none. unfold ns_rooms. rewrite Hns, Hb.
  apply sin_aget; [|exact Hse]. destruct (Hok _ _ Hin) as [_ Hk]. exact (proj1 (Hk _ Hb)).
Qed.
Lemma eio_all_sids m ns sid e : eio_from_sid m sid ns = Some e -> In (ns, sid, e) (all_sids m).
Proof.
  unfold eio_from_sid. rewrite room_of_none. intro H.
  destruct (ns_rooms m ns) as [rm|] eqn:Hns; [|discriminate].
  destruct (none_bd rm) as [b|] eqn:Hb; [|discriminate].
  apply in_all_sids. exists rm, b. split; [apply saget_in; exact Hns|]. split; [exact Hb|apply saget_in; exact H].
Qed.
Lemma is_member_false m sid : MOK m -> (forall ns, eio_from_sid m sid ns = None) -> is_member m sid = false.
Proof.
  intros Hm H. unfold is_member. destruct (existsb _ (all_sids m)) eqn:E; [|reflexivity].
  apply existsb_exists in E as ([[ns s'] e] & Hin & Hs). cbn [fst snd] in Hs. apply str_eqb_eq in Hs. subst s'.
  specialize (H ns). rewrite (all_sids_eio _ _ _ _ Hm Hin) in H. discriminate.
Qed.
Lemma is_member_true m ns sid e : eio_from_sid m sid ns = Some e -> is_member m sid = true.
Proof.
  intro H. unfold is_member. apply existsb_exists. exists (ns, sid, e).
  split; [apply eio_all_sids; exact H|apply str_eqb_refl].
Qed.

(* ------------------------------------------------------------------ *)
(* C04_connect_cases                                                  *)
(* ------------------------------------------------------------------ *)
Definition unable_frames (c : cfg) (ns : str) := frames_of c CONNECT_ERROR unable ns None.

(* the arguments the connect handler receives: a truthy auth payload third; a falsy one is
   dropped, or passed as None to a handler that only fits one more argument; [pre] is what
   a catch-all target gets prepended *)
Definition connect_args (sid : str) (env data : pv) (b : hbehav) (pre : list pv) : list pv :=
  if truthy data then pre ++ [PStr sid; env; data]
  else if arity_bad b (List.length (pre ++ [PStr sid; env])) then pre ++ [PStr sid; env; PNone]
       else pre ++ [PStr sid; env].
Definition no_raise (b : hbehav) : Prop := match h_outcome b with Raises _ => False | _ => True end.

Lemma te_connect c ns l :
  te_pure c ev_connect ns l =
  match responsible c ev_connect ns [] with
  | None => ([], Ok None)
  | Some (Some h, pre) => some_res (ch_pure c h (pre ++ l))
  | Some (None, _) => ([], Ok (Some PNone))
  end.
Proof.
  rewrite te_pure_responsible by reflexivity. rewrite responsible_prefix.
  destruct (responsible c ev_connect ns []) as [[[h|] pre]|]; try reflexivity.
  rewrite cwr_pure_plain by reflexivity. reflexivity.
Qed.

Lemma conn_try_no_handler c ns sid env data :
  hid_for c ev_connect ns = None ->
  fst (conn_try c ns sid env data) = [] /\ conn_verdict c ns (snd (conn_try c ns sid env data)) = Accept.
Proof.
  unfold hid_for, conn_try. intro H. rewrite !te_connect.
  destruct (responsible c ev_connect ns []) as [[[h|] pre]|]; [discriminate| |];
    destruct (truthy data); split; reflexivity.
Qed.

Lemma conn_try_handler c ns sid env data h pre b :
  responsible c ev_connect ns [] = Some (Some h, pre) ->
  aget N.eqb (behav c) h = Some b ->
  arity_bad b (List.length (connect_args sid env data b pre)) = false ->
  no_raise b ->
  conn_try c ns sid env data =
  ([Call h (connect_args sid env data b pre)],
   match outcome_res (h_outcome b) with Ok v => Ok (Some v) | Err x => Err x end).
Proof.
  intros Hr Hb Har Hnr. unfold conn_try, connect_args in *. rewrite !te_connect, Hr.
  unfold ch_pure, some_res. rewrite Hb.
  destruct (truthy data).
  - rewrite Har. reflexivity.
  - destruct (arity_bad b (List.length (pre ++ [PStr sid; env]))) eqn:E1; cbn [fst snd].
    + rewrite Har. reflexivity.
    + unfold no_raise in Hnr. destruct (h_outcome b); try reflexivity. contradiction.
Qed.

Lemma is_pending_cong m' m x n : pending m' = pending m -> is_pending m' x n = is_pending m x n.
Proof. unfold is_pending. intros ->. reflexivity. Qed.

Section Connect.
  Variables (c : cfg) (eio : str) (pn : option str) (data : pv) (s : srv).
  Let ns := ns_or_default pn.
  Let sid := new_sid s.
  Let s1 := conn_state s eio ns.

  (* (i) refused without a handler *)
  Theorem connect_duplicate :
    Inv s -> served c ns = true -> sid_from_eio (mg s) eio ns <> None ->
    handle_connect c eio pn data s =
    (bump s, sp_effs s eio (unable_frames c ns), sp_res (unable_frames c ns)).
  Proof.
    intros HI Hsv Hd.
    destruct (sid_from_eio (mg s) eio ns) as [s'|] eqn:Hs; [clear Hd|contradiction Hd; reflexivity].
    assert (Hne : s' <> new_sid s).
    { intro; subst s'. exact (fresh_not_sid_from_eio s HI eio ns Hs). }
    unfold sid_from_eio in Hs. destruct (room_of (mg s) ns PNone) as [b|] eqn:Hb; [|discriminate].
    pose proof (mgr_connect_dup _ _ _ _ _ _ Hb Hs Hne) as Hm.
    rewrite (connect_rejected_by_manager c eio pn data s Hsv) by (fold ns; rewrite Hm; reflexivity).
    unfold conn_state. fold ns. rewrite Hm. cbn [fst]. unfold bump, upd_mg. reflexivity.
  Qed.

  (* (ii) the manager accepts: what the state is when the handler runs *)
  Lemma conn_state_facts :
    Inv s -> sid_from_eio (mg s) eio ns = None ->
    snd (mgr_connect (mg s) eio ns sid) = Some sid /\
    MOK (mg s1) /\
    sid_from_eio (mg s1) eio ns = Some sid /\ eio_from_sid (mg s1) sid ns = Some eio /\
    is_connected (mg s1) (Some sid) ns = true /\
    pending (mg s1) = pending (mg s) /\ callbacks (mg s1) = callbacks (mg s) /\
    (forall ns', ns <> ns' -> ns_rooms (mg s1) ns' = ns_rooms (mg s) ns').
  Proof.
    intros HI Hs. destruct (mgr_connect_new (mg s) eio ns sid Hs) as (Hr & Hroom & Hp & Hc & Hf).
    assert (Hinv : bd_inv (pm_b (mg s) ns PNone) eio = None).
    { unfold sid_from_eio in Hs. rewrite room_of_none in Hs. unfold pm_b, pm_rm.
      destruct (ns_rooms (mg s) ns) as [rm|]; [|reflexivity].
      change (aget room_eqb rm PNone) with (none_bd rm). destruct (none_bd rm); [exact Hs|reflexivity]. }
    split; [exact Hr|]. split; [apply MOK_mgr_connect; apply HI|].
    unfold s1, conn_state. cbn [mg upd_mg]. fold sid.
    split; [unfold sid_from_eio; rewrite Hroom; apply bd_inv_aset_new; exact Hinv|].
    split; [unfold eio_from_sid; rewrite Hroom; apply bd_get_aset_same|].
    split.
    - unfold is_connected. rewrite (is_pending_cong _ _ _ _ Hp).
      unfold sid. rewrite (fresh_not_pending s HI ns). fold sid. rewrite Hroom, bd_get_aset_same. reflexivity.
    - split; [exact Hp|]. split; [exact Hc|exact Hf].
  Qed.

  Variable env : pv.
  Hypothesis Hna : has_actions c = false.
  Hypothesis HI : Inv s.
  Hypothesis Hsv : served c ns = true.
  Hypothesis Hnew : sid_from_eio (mg s) eio ns = None.
  Hypothesis Henv : aget str_eqb (environ s) eio = Some env.

  Lemma conn_eq :
    let pre := if always_connect c then sp_effs s eio (accept_frames c ns sid) else [] in
    let tr := conn_try c ns sid env data in
    handle_connect c eio pn data s =
    match conn_verdict c ns (snd tr) with
    | Fail x => (s1, pre ++ fst tr, Err x)
    | Accept => (s1, pre ++ fst tr ++ (if always_connect c then [] else sp_effs s eio (accept_frames c ns sid)), Ok tt)
    | Refuse why =>
        if always_connect c then
          (upd_mg s1 (mgr_disconnect (fst (pre_disconnect (mg s1) sid ns)) sid ns),
           pre ++ fst tr ++ (match snd (pre_disconnect (mg s1) sid ns) with
                             | Ok _ => sp_effs s eio (frames_of c DISCONNECT why ns None)
                             | Err _ => [] end),
           match snd (pre_disconnect (mg s1) sid ns) with
           | Ok _ => sp_res (frames_of c DISCONNECT why ns None)
           | Err x => Err x end)
        else
          (upd_mg s1 (mgr_disconnect (mg s1) sid ns),
           fst tr ++ sp_effs s eio (frames_of c CONNECT_ERROR why ns None),
           sp_res (frames_of c CONNECT_ERROR why ns None))
    end.
  Proof.
    exact (connect_accepted_by_manager c eio pn data s env Hna Hsv (proj1 (conn_state_facts HI Hnew)) Henv).
  Qed.

  Theorem connect_accept_no_handler :
    hid_for c ev_connect ns = None ->
    handle_connect c eio pn data s = (s1, sp_effs s eio (accept_frames c ns sid), Ok tt).
  Proof.
    intro Hh. rewrite conn_eq. cbv zeta.
    destruct (conn_try_no_handler c ns sid env data Hh) as [He Hv]. rewrite Hv, He.
    destruct (always_connect c); cbn [app]; [rewrite app_nil_r|]; reflexivity.
  Qed.

  Variables (h : N) (pre : list pv) (b : hbehav).
  Hypothesis Hresp : responsible c ev_connect ns [] = Some (Some h, pre).
  Hypothesis Hb : aget N.eqb (behav c) h = Some b.
  Let args := connect_args sid env data b pre.
  Hypothesis Hfit : arity_bad b (List.length args) = false.

  Theorem connect_accept_handler v :
    h_outcome b = Returns v -> v <> PBool false ->
    handle_connect c eio pn data s =
    (s1, if always_connect c then sp_effs s eio (accept_frames c ns sid) ++ [Call h args]
         else Call h args :: sp_effs s eio (accept_frames c ns sid), Ok tt).
  Proof.
    intros Ho Hv. rewrite conn_eq. cbv zeta.
    rewrite (conn_try_handler c ns sid env data h pre b Hresp Hb Hfit) by (unfold no_raise; rewrite Ho; exact I).
    rewrite Ho. cbn [fst snd outcome_res conn_verdict].
    destruct (pv_eqb v (PBool false)) eqn:E; [apply pv_eqb_eq in E; contradiction|].
    destruct (always_connect c); cbn [app]; reflexivity.
  Qed.

  (* the refusal's payload *)
  Definition refusal_of (o : outcome) : option pv :=
    match o with
    | Returns v => if pv_eqb v (PBool false) then Some (error_args []) else None
    | RaisesRefused ra => Some (error_args ra)
    | Raises _ => None
    end.

  Lemma conn_verdict_refuse why :
    refusal_of (h_outcome b) = Some why ->
    conn_verdict c ns (match outcome_res (h_outcome b) with Ok v => Ok (Some v) | Err x => Err x end) = Refuse why.
  Proof.
    unfold refusal_of. destruct (h_outcome b) as [v|ra|x] eqn:Ho; cbn [outcome_res conn_verdict].
    - destruct (pv_eqb v (PBool false)); [intro H; inversion H; reflexivity|discriminate].
    - intro H; inversion H; subst. rewrite connect_hid_hid_for. unfold hid_for. rewrite Hresp.
      unfold refusal_args. rewrite Hb, Ho. reflexivity.
    - discriminate.
  Qed.

  Lemma no_raise_refusal why : refusal_of (h_outcome b) = Some why -> no_raise b.
  Proof. unfold refusal_of, no_raise. destruct (h_outcome b); [exact (fun _ => I)|exact (fun _ => I)|discriminate]. Qed.

  Theorem connect_refused why :
    refusal_of (h_outcome b) = Some why ->
    handle_connect c eio pn data s =
    if always_connect c then
      (upd_mg s1 (mgr_disconnect (fst (pre_disconnect (mg s1) sid ns)) sid ns),
       sp_effs s eio (accept_frames c ns sid) ++ Call h args :: sp_effs s eio (frames_of c DISCONNECT why ns None),
       sp_res (frames_of c DISCONNECT why ns None))
    else
      (upd_mg s1 (mgr_disconnect (mg s1) sid ns),
       Call h args :: sp_effs s eio (frames_of c CONNECT_ERROR why ns None),
       sp_res (frames_of c CONNECT_ERROR why ns None)).
  Proof.
    intro Hw. rewrite conn_eq. cbv zeta.
    rewrite (conn_try_handler c ns sid env data h pre b Hresp Hb Hfit (no_raise_refusal _ Hw)).
    cbn [fst snd]. rewrite (conn_verdict_refuse _ Hw).
    destruct (always_connect c); [|reflexivity].
    rewrite pre_disconnect_res.
    destruct (conn_state_facts HI Hnew) as (_ & _ & _ & He & _).
    unfold eio_from_sid in He. fold s1 in He. destruct (room_of (mg s1) ns PNone); [|discriminate].
    reflexivity.
  Qed.

  (* after a refusal the manager has forgotten the session id *)
  Theorem connect_refused_state why s' effs res :
    refusal_of (h_outcome b) = Some why ->
    handle_connect c eio pn data s = (s', effs, res) ->
    (forall ns', eio_from_sid (mg s') sid ns' = None) /\ is_member (mg s') sid = false /\
    MOK (mg s') /\
    pending (mg s') = pending (mg s) /\ callbacks (mg s') = callbacks (mg s) /\
    (forall ns', ns <> ns' -> ns_rooms (mg s') ns' = ns_rooms (mg s) ns') /\
    fresh s' = fresh s + 1 /\ environ s' = environ s /\ binpkt s' = binpkt s /\
    sessions s' = sessions s /\ live s' = live s.
  Proof.
    intros Hw Hrun. rewrite (connect_refused why Hw) in Hrun.
    destruct (conn_state_facts HI Hnew) as (_ & Hm1 & _ & He1 & Hc1 & Hp1 & Hcb1 & Hf1).
    assert (Hns1 : ns_rooms (mg s1) ns <> None).
    { unfold eio_from_sid in He1. rewrite room_of_none in He1. destruct (ns_rooms (mg s1) ns); [discriminate|discriminate]. }
    assert (Hmain : forall m0, MOK m0 -> rooms m0 = rooms (mg s1) -> callbacks m0 = callbacks (mg s) ->
              pending_after m0 sid ns = pending (mg s) ->
              let m' := mgr_disconnect m0 sid ns in
              (forall ns', eio_from_sid m' sid ns' = None) /\ is_member m' sid = false /\ MOK m' /\
              pending m' = pending (mg s) /\ callbacks m' = callbacks (mg s) /\
              (forall ns', ns <> ns' -> ns_rooms m' ns' = ns_rooms (mg s) ns')).
    { intros m0 Hm0 Hr0 Hcb0 Hpa0 m'. subst m'.
      destruct (mgr_disconnect_spec m0 sid ns Hm0) as (Hm' & He' & Hf' & _ & Hcp).
      assert (Hns0 : ns_rooms m0 ns <> None) by (unfold ns_rooms; rewrite Hr0; exact Hns1).
      destruct (Hcp Hns0) as [Hcb' Hp'].
      assert (Hall : forall ns', eio_from_sid (mgr_disconnect m0 sid ns) sid ns' = None).
      { intro ns'. destruct (str_eqb ns ns') eqn:E; [apply str_eqb_eq in E; subst ns'; exact He'|].
        assert (Hne : ns <> ns') by (intro; subst; rewrite str_eqb_refl in E; discriminate).
        unfold eio_from_sid. rewrite room_of_none. rewrite (Hf' _ Hne).
        unfold ns_rooms. rewrite Hr0. fold (ns_rooms (mg s1) ns'). rewrite (Hf1 _ Hne).
        pose proof (fresh_no_eio s HI ns') as H0. unfold eio_from_sid in H0. rewrite room_of_none in H0. exact H0. }
      split; [exact Hall|]. split; [apply is_member_false; assumption|]. split; [exact Hm'|].
      split; [rewrite Hp'; exact Hpa0|].
      split; [rewrite Hcb', Hcb0; apply (fresh_no_callbacks s HI)|].
      intros ns' Hne. rewrite (Hf' _ Hne). unfold ns_rooms. rewrite Hr0. exact (Hf1 _ Hne). }
    destruct (always_connect c); inversion Hrun; subst s' effs res; clear Hrun; cbn [mg upd_mg fresh environ binpkt sessions live].
    - destruct (Hmain (fst (pre_disconnect (mg s1) sid ns))) as (A & B & C & D & E & F).
      + apply MOK_pre_disconnect. exact Hm1.
      + apply pre_disconnect_rooms.
      + rewrite pre_disconnect_callbacks. exact Hcb1.
      + rewrite <- Hp1. apply pending_roundtrip.
        * rewrite (is_pending_cong _ _ _ _ Hp1). apply (fresh_not_pending s HI).
        * rewrite Hp1. intro Habs. apply saget_in in Habs. destruct HI as (_ & _ & Hpn & _). exact (Hpn _ _ Habs eq_refl).
      + repeat (split; [assumption|]). repeat split; reflexivity.
    - destruct (Hmain (mg s1) Hm1 eq_refl Hcb1) as (A & B & C & D & E & F).
      + unfold pending_after. assert (Hnp : is_pending (mg s1) sid ns = false).
        { rewrite (is_pending_cong _ _ _ _ Hp1). apply (fresh_not_pending s HI). }
        rewrite Hnp. exact Hp1.
      + repeat (split; [assumption|]). repeat split; reflexivity.
  Qed.
End Connect.

(* ------------------------------------------------------------------ *)
(* C04_disconnect_once_seq                                            *)
(* ------------------------------------------------------------------ *)
Definition disc_state (s : srv) (sid ns : str) : srv :=
  upd_mg s (mgr_disconnect (fst (pre_disconnect (mg s) sid ns)) sid ns).
Definition unit_res {A} (r : Res A) : Res unit := match r with Ok _ => Ok tt | Err x => Err x end.
Definition reason_or_client (reason : pv) : pv := if truthy reason then reason else r_client_disconnect.

Lemma connected_room m sid ns :
  is_connected m (Some sid) ns = true ->
  is_pending m sid ns = false /\ exists b e, room_of m ns PNone = Some b /\ bd_get b sid = Some e.
Proof.
  unfold is_connected. destruct (is_pending m sid ns); [discriminate|].
  destruct (room_of m ns PNone) as [b|]; [|discriminate].
  destruct (bd_get b sid) as [e|] eqn:E; [|discriminate]. intros _. split; [reflexivity|]. eauto.
Qed.

Lemma disc_tail_run c ns sid args s1 :
  has_actions c = false ->
  finallyM (_ <~ trigger_event c (PStr (s2l "disconnect")) ns args ;; ret tt)
           (set_mg (fun m => mgr_disconnect m sid ns)) s1 =
  (upd_mg s1 (mgr_disconnect (mg s1) sid ns),
   fst (te_pure c ev_disconnect ns args), unit_res (snd (te_pure c ev_disconnect ns args))).
Proof.
  intro Hna. unfold finallyM, bindM. rewrite (trigger_event_pure _ _ _ _ s1 Hna). unfold ev_disconnect.
  destruct (te_pure c (PStr (s2l "disconnect")) ns args) as [e1 [r|x]]; cbn [fst snd ret unit_res].
  - rewrite set_mg_eq, !app_nil_r. reflexivity.
  - rewrite set_mg_eq, !app_nil_r. reflexivity.
Qed.

Lemma handle_disconnect_eq c eio pn reason s sid :
  has_actions c = false ->
  sid_from_eio (mg s) eio (ns_or_default pn) = Some sid ->
  is_connected (mg s) (Some sid) (ns_or_default pn) = true ->
  let ns := ns_or_default pn in
  let te := te_pure c ev_disconnect ns [PStr sid; reason_or_client reason] in
  handle_disconnect c eio pn reason s = (disc_state s sid ns, fst te, unit_res (snd te)).
Proof.
  intros Hna Hs Hc ns te. subst te. unfold handle_disconnect. fold ns in Hs, Hc |- *.
  rewrite bindM_getS, Hs, Hc. cbn [negb].
  unfold bindM at 1. rewrite with_mg_eq. rewrite pre_disconnect_res.
  destruct (connected_room _ _ _ Hc) as (_ & b & e & Hb & Hg). rewrite Hb.
  rewrite bindM_lift_ok. rewrite disc_tail_run by assumption. reflexivity.
Qed.

Lemma handle_disconnect_noop c eio pn reason s :
  is_connected (mg s) (sid_from_eio (mg s) eio (ns_or_default pn)) (ns_or_default pn) = false ->
  handle_disconnect c eio pn reason s = (s, [], Ok tt).
Proof. intro H. unfold handle_disconnect. rewrite bindM_getS, H. reflexivity. Qed.

Lemma disconnect_frames_ok c ns : exists f, frames_of c DISCONNECT PNone ns None = Ok [f].
Proof.
  unfold frames_of, ctor, encode_pieces.
  replace (uses_binary c && _) with false by (destruct (uses_binary c); reflexivity).
  destruct (uses_binary c); cbn; eexists; reflexivity.
Qed.

Lemma api_disconnect_eq c sid pn s :
  has_actions c = false ->
  is_connected (mg s) (Some sid) (ns_or_default pn) = true ->
  let ns := ns_or_default pn in
  let te := te_pure c ev_disconnect ns [PStr sid; r_server_disconnect] in
  api_disconnect c sid pn s =
  (disc_state s sid ns,
   match eio_from_sid (mg s) sid ns with
   | Some e => sp_effs s e (frames_of c DISCONNECT PNone ns None)
   | None => [] end ++ fst te,
   unit_res (snd te)).
Proof.
  intros Hna Hc ns te. subst te. unfold api_disconnect. fold ns in Hc |- *.
  rewrite bindM_getS, Hc. cbn [negb].
  unfold bindM at 1. rewrite with_mg_eq. rewrite pre_disconnect_res.
  destruct (connected_room _ _ _ Hc) as (_ & b & e & Hb & Hg). unfold eio_from_sid. rewrite Hb, Hg.
  rewrite bindM_lift_ok. unfold bindM at 1. rewrite send_packet_spec.
  destruct (disconnect_frames_ok c ns) as [f Hf]. rewrite Hf. cbn [sp_res].
  rewrite disc_tail_run by assumption. cbn [fst snd mg upd_mg].
  rewrite (sp_effs_cong s) by reflexivity. reflexivity.
Qed.

Lemma api_disconnect_noop c sid pn s :
  is_connected (mg s) (Some sid) (ns_or_default pn) = false -> api_disconnect c sid pn s = (s, [], Ok tt).
Proof. intro H. unfold api_disconnect. rewrite bindM_getS, H. reflexivity. Qed.

(* the disconnect handler's arguments: (sid, reason), or (sid) for a legacy one-argument handler *)
Definition disc_args (sid : str) (reason : pv) (b : hbehav) (pre : list pv) : list pv :=
  if arity_bad b (List.length (pre ++ [PStr sid; reason])) then pre ++ [PStr sid] else pre ++ [PStr sid; reason].

Lemma removelast_two {A} (pre : list A) a b : removelast (pre ++ [a; b]) = pre ++ [a].
Proof. rewrite removelast_app by discriminate. reflexivity. Qed.

Lemma te_disconnect c ns l :
  te_pure c ev_disconnect ns l =
  match responsible c ev_disconnect ns [] with
  | None => ([], Ok None)
  | Some (Some h, pre) => some_res (cwr_pure c ev_disconnect h (pre ++ l))
  | Some (None, _) => ([], Ok (Some PNone))
  end.
Proof.
  rewrite te_pure_responsible by reflexivity. rewrite responsible_prefix.
  destruct (responsible c ev_disconnect ns []) as [[[h|] pre]|]; reflexivity.
Qed.

Lemma te_disconnect_returns c ns sid reason h pre b v :
  responsible c ev_disconnect ns [] = Some (Some h, pre) ->
  aget N.eqb (behav c) h = Some b ->
  arity_bad b (List.length (disc_args sid reason b pre)) = false ->
  h_outcome b = Returns v ->
  te_pure c ev_disconnect ns [PStr sid; reason] = ([Call h (disc_args sid reason b pre)], Ok (Some v)).
Proof.
  intros Hr Hb Har Ho. rewrite te_disconnect, Hr. unfold cwr_pure, ch_pure, disc_args in *. rewrite Hb.
  destruct (arity_bad b (List.length (pre ++ [PStr sid; reason]))) eqn:E.
  - change (is_disconnect ev_disconnect) with true. cbv iota. rewrite removelast_two, Har, Ho. reflexivity.
  - rewrite Ho. reflexivity.
Qed.

Lemma te_disconnect_no_handler c ns l :
  hid_for c ev_disconnect ns = None -> fst (te_pure c ev_disconnect ns l) = [] /\ unit_res (snd (te_pure c ev_disconnect ns l)) = Ok tt.
Proof.
  unfold hid_for. rewrite te_disconnect.
  destruct (responsible c ev_disconnect ns []) as [[[h|] pre]|]; [discriminate| |]; intros _; split; reflexivity.
Qed.

(* after the terminating operation *)
Lemma disc_state_facts s sid ns :
  MOK (mg s) ->
  let s' := disc_state s sid ns in
  MOK (mg s') /\
  is_connected (mg s') (Some sid) ns = false /\ eio_from_sid (mg s') sid ns = None /\
  (forall e, ~ In (ns, sid, e) (all_sids (mg s'))) /\
  (forall ns', ns <> ns' -> ns_rooms (mg s') ns' = ns_rooms (mg s) ns') /\
  (forall ns' e, ns <> ns' -> sid_from_eio (mg s') e ns' = sid_from_eio (mg s) e ns') /\
  fresh s' = fresh s /\ environ s' = environ s /\ binpkt s' = binpkt s /\ sessions s' = sessions s /\ live s' = live s.
Proof.
  intros Hm s'. subst s'. unfold disc_state. cbn [mg upd_mg fresh environ binpkt sessions live].
  destruct (mgr_disconnect_spec _ sid ns (MOK_pre_disconnect _ sid ns Hm)) as (Hm' & He & Hf & _).
  assert (Hf' : forall ns', ns <> ns' ->
            ns_rooms (mgr_disconnect (fst (pre_disconnect (mg s) sid ns)) sid ns) ns' = ns_rooms (mg s) ns').
  { intros ns' Hne. rewrite (Hf _ Hne). unfold ns_rooms. rewrite pre_disconnect_rooms. reflexivity. }
  split; [exact Hm'|]. split.
  - unfold is_connected. destruct (is_pending _ sid ns); [reflexivity|].
    unfold eio_from_sid in He. destruct (room_of _ ns PNone); [rewrite He|]; reflexivity.
  - split; [exact He|]. split.
    + intros e Hin. rewrite (all_sids_eio _ _ _ _ Hm' Hin) in He. discriminate.
    + split; [exact Hf'|]. split; [|repeat split].
      intros ns' e Hne. unfold sid_from_eio. rewrite !room_of_none, (Hf' _ Hne). reflexivity.
Qed.

Section DisconnectOnce.
  Variables (c : cfg) (s : srv) (sid : str) (pn : option str).
  Let ns := ns_or_default pn.
  Hypothesis Hna : has_actions c = false.
  Hypothesis Hc : is_connected (mg s) (Some sid) ns = true.
  Variables (h : N) (pre : list pv) (b : hbehav) (v : pv).
  Hypothesis Hresp : responsible c ev_disconnect ns [] = Some (Some h, pre).
  Hypothesis Hb : aget N.eqb (behav c) h = Some b.
  Hypothesis Ho : h_outcome b = Returns v.

  (* cause: DISCONNECT packet from the client (reason CLIENT_DISCONNECT) *)
  Theorem disconnect_packet_once eio reason :
    sid_from_eio (mg s) eio ns = Some sid ->
    arity_bad b (List.length (disc_args sid (reason_or_client reason) b pre)) = false ->
    handle_disconnect c eio pn reason s =
    (disc_state s sid ns, [Call h (disc_args sid (reason_or_client reason) b pre)], Ok tt).
  Proof.
    intros Hs Har. rewrite (handle_disconnect_eq c eio pn reason s sid Hna Hs Hc). cbv zeta. fold ns.
    rewrite (te_disconnect_returns c ns sid _ h pre b v Hresp Hb Har Ho). reflexivity.
  Qed.

  (* cause: server.disconnect(sid) (reason SERVER_DISCONNECT); the client is told first *)
  Theorem disconnect_api_once :
    arity_bad b (List.length (disc_args sid r_server_disconnect b pre)) = false ->
    api_disconnect c sid pn s =
    (disc_state s sid ns,
     match eio_from_sid (mg s) sid ns with
     | Some e => sp_effs s e (frames_of c DISCONNECT PNone ns None)
     | None => [] end ++ [Call h (disc_args sid r_server_disconnect b pre)], Ok tt).
  Proof.
    intros Har. rewrite (api_disconnect_eq c sid pn s Hna Hc). cbv zeta. fold ns.
    rewrite (te_disconnect_returns c ns sid _ h pre b v Hresp Hb Har Ho). reflexivity.
  Qed.
End DisconnectOnce.

(* a second terminating operation finds the sid not connected: no handler, no effect at all *)
Theorem no_second_call c s sid pn :
  is_connected (mg s) (Some sid) (ns_or_default pn) = false ->
  api_disconnect c sid pn s = (s, [], Ok tt) /\
  (forall eio reason,
      sid_from_eio (mg s) eio (ns_or_default pn) = Some sid \/ sid_from_eio (mg s) eio (ns_or_default pn) = None ->
      handle_disconnect c eio pn reason s = (s, [], Ok tt)).
Proof.
  intro H. split; [apply api_disconnect_noop; exact H|].
  intros eio reason [Hs|Hs]; apply handle_disconnect_noop; rewrite Hs; [exact H|reflexivity].
Qed.

(* ------------------------------------------------------------------ *)
(* primitive state transitions: every operation is a sequence of them  *)
(* ------------------------------------------------------------------ *)
Definition in_rooms (m : mgr) (sid : str) : Prop :=
  exists ns rm room b e, In (ns, rm) (rooms m) /\ In (room, b) rm /\ In (sid, e) b.

Inductive prim : srv -> srv -> Prop :=
| P_other s env bp se lv : prim s (mkSrv (mg s) env bp se lv (fresh s))
| P_leave s sid ns room : prim s (upd_mg s (leave_room (mg s) sid ns room))
| P_enter s sid ns room : prim s (upd_mg s (fst (enter_room (mg s) sid ns room)))
| P_close s room ns : prim s (upd_mg s (close_room (mg s) room ns))
| P_disc s sid ns : prim s (upd_mg s (mgr_disconnect (mg s) sid ns))
| P_pre s sid ns : in_rooms (mg s) sid \/ below (fresh s) sid -> prim s (upd_mg s (fst (pre_disconnect (mg s) sid ns)))
| P_ack s sid cb : in_rooms (mg s) sid -> prim s (upd_mg s (fst (generate_ack_id (mg s) sid cb)))
| P_cb s osid id : prim s (upd_mg s (fst (trigger_callback (mg s) osid id)))
| P_conn s eio ns : ns <> [] -> prim s (upd_mg (bump s) (fst (mgr_connect (mg s) eio ns (new_sid s)))).

Inductive star : srv -> srv -> Prop :=
| star_refl s : star s s
| star_step s s1 s2 : prim s s1 -> star s1 s2 -> star s s2.
Lemma star_trans a b d : star a b -> star b d -> star a d.
Proof. induction 1; [auto|]. intro H2. eapply star_step; eauto. Qed.
Lemma star_one a b : prim a b -> star a b.
Proof. intro H. eapply star_step; [exact H|apply star_refl]. Qed.

Definition st {A} (x : srv * list eff * Res A) : srv := fst (fst x).
Definition reach_at {A} (m : SM A) (s : srv) : Prop := star s (st (m s)).
Definition reach {A} (m : SM A) : Prop := forall s, reach_at m s.

Lemma reach_ret {A} (a : A) : reach (ret a). Proof. intro s. apply star_refl. Qed.
Lemma reach_raise {A} x : reach (@raise srv eff A x). Proof. intro s. apply star_refl. Qed.
Lemma reach_lift {A} (r : Res A) : reach (lift r). Proof. intro s. apply star_refl. Qed.
Lemma reach_tell e : reach (@tell srv eff e). Proof. intro s. apply star_refl. Qed.

Lemma reach_at_bind {A B} (m : SM A) (k : A -> SM B) s :
  reach_at m s -> (forall a s1 e1, m s = (s1, e1, Ok a) -> reach_at (k a) s1) -> reach_at (bindM m k) s.
Proof.
  unfold reach_at, st, bindM. intros Hm Hk. destruct (m s) as [[s1 e1] [a|x]]; cbn [fst] in *; [|exact Hm].
  specialize (Hk a s1 e1 eq_refl). destruct (k a s1) as [[s2 e2] r]. cbn [fst] in *. eapply star_trans; eassumption.
Qed.
Lemma reach_bind {A B} (m : SM A) (k : A -> SM B) : reach m -> (forall a, reach (k a)) -> reach (bindM m k).
Proof. intros Hm Hk s. apply reach_at_bind; [apply Hm|]. intros a s1 e1 _. apply Hk. Qed.
Lemma reach_at_getS {B} (k : srv -> SM B) s : reach_at (k s) s -> reach_at (bindM getS k) s.
Proof. unfold reach_at. rewrite bindM_getS. auto. Qed.
Lemma reach_getS {B} (k : srv -> SM B) : (forall s0, reach (k s0)) -> reach (bindM getS k).
Proof. intros H s. apply reach_at_getS. apply H. Qed.
Lemma reach_catch {A} (m : SM A) h : reach m -> (forall x k, h x = Some k -> reach k) -> reach (catch m h).
Proof.
  intros Hm Hh s. unfold reach_at, st, catch. specialize (Hm s). unfold reach_at, st in Hm.
  destruct (m s) as [[s1 e1] [a|x]]; cbn [fst] in *; [exact Hm|].
  destruct (h x) as [k|] eqn:E; [|exact Hm]. specialize (Hh x k E s1). unfold reach_at, st in Hh.
  destruct (k s1) as [[s2 e2] r]. cbn [fst] in *. eapply star_trans; eassumption.
Qed.
Lemma reach_finally {A} (m : SM A) f : reach m -> reach f -> reach (finallyM m f).
Proof.
  intros Hm Hf s. unfold reach_at, st, finallyM. specialize (Hm s). unfold reach_at, st in Hm.
  destruct (m s) as [[s1 e1] r]. cbn [fst] in *. specialize (Hf s1). unfold reach_at, st in Hf.
  destruct (f s1) as [[s2 e2] [u|x]]; cbn [fst] in *; eapply star_trans; eassumption.
Qed.
Lemma reach_contain m : reach m -> reach (contain m).
Proof. intros Hm s. unfold reach_at, st, contain. specialize (Hm s). unfold reach_at, st in Hm. destruct (m s) as [[s1 e1] r]. exact Hm. Qed.
Lemma reach_api m : reach m -> reach (api m).
Proof. intros Hm s. unfold reach_at, st, api. specialize (Hm s). unfold reach_at, st in Hm. destruct (m s) as [[s1 e1] [u|x]]; exact Hm. Qed.
Lemma reach_forM {A} (l : list A) f : (forall x, reach (f x)) -> reach (forM l f).
Proof. intro H. induction l as [|x l IH]; cbn [forM]; [apply reach_ret|]. apply reach_bind; [apply H|]. intros _. exact IH. Qed.
Lemma reach_forM_keep {A} (l : list A) f : (forall x, reach (f x)) -> forall first, reach (forM_keep l f first).
Proof.
  intro H. induction l as [|x l IH]; intros first; cbn [forM_keep]; [apply reach_ret|].
  intro s. unfold reach_at, st. pose proof (H x s) as H1. unfold reach_at, st in H1.
  destruct (f x s) as [[s1 e1] res]. cbn [fst] in *.
  match goal with |- context [forM_keep l f ?ff s1] => pose proof (IH ff s1) as H2; unfold reach_at, st in H2;
    destruct (forM_keep l f ff s1) as [[s2 e2] out] end.
  cbn [fst] in *. eapply star_trans; eassumption.
Qed.
(* a loop whose body needs a property of the state that the body maintains *)
Lemma reach_forM_inv {A} (R : srv -> Prop) (l : list A) f :
  (forall x s, In x l -> R s -> reach_at (f x) s /\ R (st (f x s))) -> forall s, R s -> reach_at (forM l f) s.
Proof.
  induction l as [|x l IH]; intros H s HR; cbn [forM]; [apply star_refl|].
  destruct (H x s (or_introl eq_refl) HR) as [H1 H2]. apply reach_at_bind; [exact H1|].
  intros a s1 e1 Hrun. apply IH; [intros y s' Hy; apply H; right; exact Hy|].
  unfold st in H2. rewrite Hrun in H2. exact H2.
Qed.

Lemma reach_other f :
  (forall s, exists env bp se lv, f s = mkSrv (mg s) env bp se lv (fresh s)) -> reach (modify f).
Proof. intros H s. destruct (H s) as (env & bp & se & lv & E). unfold reach_at, st, modify. cbn [fst]. rewrite E. apply star_one. constructor. Qed.
Lemma reach_at_with_mg {A} (f : mgr -> mgr * A) s : prim s (upd_mg s (fst (f (mg s)))) -> reach_at (with_mg f) s.
Proof. intro H. unfold reach_at, st. rewrite with_mg_eq. apply star_one. exact H. Qed.
Lemma reach_at_set_mg f s : prim s (upd_mg s (f (mg s))) -> reach_at (set_mg f) s.
Proof. intro H. unfold reach_at, st. rewrite set_mg_eq. apply star_one. exact H. Qed.

Lemma reach_if {A} (b : bool) (m1 m2 : SM A) : reach m1 -> reach m2 -> reach (if b then m1 else m2).
Proof. destruct b; auto. Qed.

(* ---- the server's functions ---- *)
Lemma reach_send_pieces eio pieces : reach (send_pieces eio pieces).
Proof. intro s. unfold reach_at, st. rewrite send_pieces_eq. apply star_refl. Qed.
Lemma reach_send_packet c eio t d ns id : reach (send_packet c eio t d ns id).
Proof.
  unfold send_packet. apply reach_bind; [apply reach_lift|]. intro p.
  apply reach_bind; [apply reach_lift|]. intro enc. destruct eio; [apply reach_send_pieces|apply reach_ret].
Qed.

Lemma merge_members_keys acc b x :
  In x (merge_members acc b) -> (exists e, In (fst x, e) acc) \/ (exists e, In (fst x, e) b).
Proof.
  unfold merge_members. revert acc. induction b as [|se b IH]; intros acc H; cbn [fold_left] in H.
  - left. exists (snd x). destruct x; exact H.
  - destruct (IH _ H) as [[e He]|[e He]].
    + destruct (in_aset_key _ _ _ _ _ He) as [H1|H1]; cbn [fst] in H1.
      * left. apply in_map_iff in H1 as ([k v] & Hk & Hin). cbn [fst] in Hk. subst. eauto.
      * right. exists (snd se). left. destruct se; cbn [fst snd] in *. subst. reflexivity.
    + right. exists e. right. exact He.
Qed.

Lemma participants_in_rooms m ns room parts se :
  participants m ns room = Ok parts -> In se parts -> in_rooms m (fst se).
Proof.
  assert (Hlook : forall r x e, In (x, e) (match room_of m ns r with Some b => b | None => [] end) -> in_rooms m x).
  { intros r x e. unfold room_of. destruct (ns_rooms m ns) as [rm|] eqn:Hns; [|intros []].
    destruct (aget room_eqb rm r) as [b|] eqn:Hb; [|intros []].
    intro Hin. destruct (aget_some_in _ _ _ _ Hb) as (k' & Hk & _).
    exists ns, rm, k', b, e. split; [apply saget_in; exact Hns|]. split; assumption. }
  assert (Hfold : forall rs acc, (forall x e, In (x, e) acc -> in_rooms m x) ->
            forall x e, In (x, e) (fold_left (fun a r => merge_members a (match room_of m ns r with Some b => b | None => [] end)) rs acc) -> in_rooms m x).
  { induction rs as [|r rs IH]; intros acc Hacc x e Hin; cbn [fold_left] in Hin; [eapply Hacc; exact Hin|].
    eapply IH; [|exact Hin]. intros x' e' Hin'.
    destruct (merge_members_keys _ _ _ Hin') as [[e0 H0]|[e0 H0]]; cbn [fst] in H0; [eapply Hacc|eapply Hlook]; exact H0. }
  unfold participants. intros Hp Hin. destruct se as [x e]. cbn [fst].
  destruct room; try discriminate; try (inversion Hp; subst; eapply Hlook; exact Hin);
    destruct l as [|r0 rs]; try discriminate; inversion Hp; subst;
    (eapply Hfold; [|exact Hin]); intros x' e' H'; eapply Hlook; exact H'.
Qed.

Lemma generate_ack_id_rooms m sid cb : rooms (fst (generate_ack_id m sid cb)) = rooms m.
Proof. unfold generate_ack_id. destruct (cb_counter _); reflexivity. Qed.

Lemma reach_mgr_emit c event data ns room skip cb : reach (mgr_emit c event data ns room skip cb).
Proof.
  intro s. unfold mgr_emit. apply reach_at_getS.
  destruct (ns_rooms (mg s) ns); [|apply reach_ret].
  destruct cb as [cbref|].
  - destruct (participants (mg s) ns room) as [parts|x] eqn:Hp; [|apply star_refl].
    unfold reach_at. rewrite bindM_lift_ok.
    apply (reach_forM_inv (fun s' => rooms (mg s') = rooms (mg s))); [|reflexivity].
    intros se s' Hi HR. destruct (skipped (skip_list skip) (fst se)) eqn:Hsk.
    + split; [apply star_refl|exact HR].
    + assert (Hack : prim s' (upd_mg s' (fst (generate_ack_id (mg s') (fst se) cbref)))).
      { apply P_ack. destruct (participants_in_rooms _ _ _ _ _ Hp Hi) as (n0 & rm & r0 & b & e & H1 & H2 & H3).
        exists n0, rm, r0, b, e. rewrite HR. auto. }
      split.
      * apply reach_at_bind; [apply reach_at_with_mg; exact Hack|].
        intros r1 s1 e1 _. apply reach_bind; [apply reach_lift|]. intro id. apply reach_send_packet.
      * unfold st, bindM. rewrite with_mg_eq.
        destruct (snd (generate_ack_id (mg s') (fst se) cbref)) as [id|x]; cbn [lift fst].
        -- rewrite send_packet_spec. cbn [fst mg upd_mg]. rewrite generate_ack_id_rooms. exact HR.
        -- cbn [mg upd_mg]. rewrite generate_ack_id_rooms. exact HR.
  - unfold reach_at. apply reach_bind; [apply reach_lift|]. intro p. apply reach_bind; [apply reach_lift|]. intro enc.
    apply reach_bind; [apply reach_lift|]. intro parts. apply reach_forM. intro se.
    destruct (skipped _ _); [apply reach_ret|apply reach_send_pieces].
Qed.

Lemma reach_run {A} (m : SM A) s s1 e1 r : reach m -> m s = (s1, e1, r) -> star s s1.
Proof. intros H Hr. specialize (H s). unfold reach_at, st in H. rewrite Hr in H. exact H. Qed.
Lemma reach_at_bind_star {A B} (m : SM A) (k : A -> SM B) s :
  reach_at m s -> (forall a s1 e1, m s = (s1, e1, Ok a) -> star s s1 -> reach_at (k a) s1) -> reach_at (bindM m k) s.
Proof.
  intros Hm Hk. apply reach_at_bind; [exact Hm|]. intros a s1 e1 Hr. apply (Hk a s1 e1 Hr).
  unfold reach_at, st in Hm. rewrite Hr in Hm. exact Hm.
Qed.
Lemma reach_at_finally {A} (m : SM A) f s :
  reach_at m s -> (forall s1 e1 r, m s = (s1, e1, r) -> star s s1 -> reach_at f s1) -> reach_at (finallyM m f) s.
Proof.
  unfold reach_at, st, finallyM. intros Hm Hf. destruct (m s) as [[s1 e1] r]. cbn [fst] in *.
  specialize (Hf s1 e1 r eq_refl Hm). destruct (f s1) as [[s2 e2] [u|x]]; cbn [fst] in *; eapply star_trans; eassumption.
Qed.

Lemma star_fresh s s' : star s s' -> fresh s <= fresh s'.
Proof.
  induction 1 as [|s s1 s2 Hp _ IH]; [lia|]. etransitivity; [|exact IH].
  destruct Hp; cbn [fresh upd_mg bump]; lia.
Qed.

Ltac reach_tac :=
  repeat first
    [ apply reach_ret | apply reach_raise | apply reach_lift | apply reach_tell
    | apply reach_send_packet | apply reach_send_pieces | apply reach_mgr_emit
    | apply reach_contain | apply reach_api
    | apply reach_getS; intro
    | apply reach_bind; [|intro]
    | apply reach_if
    | match goal with
      | |- reach (match ?x with _ => _ end) => destruct x
      | |- reach (let '(_, _) := ?x in _) => destruct x
      end ].

Lemma reach_api_emit c ev data to room skip ns cb : reach (api_emit c ev data to room skip ns cb).
Proof. unfold api_emit. apply reach_mgr_emit. Qed.
Lemma reach_set_session eio d : reach (set_session eio d).
Proof. unfold set_session. apply reach_other. intro s. eauto 6. Qed.
Lemma reach_set_binpkt f : reach (set_binpkt f).
Proof. unfold set_binpkt. apply reach_other. intro s. eauto 6. Qed.
Lemma reach_api_get_session sid ns : reach (api_get_session sid ns).
Proof.
  unfold api_get_session. apply reach_getS; intro s0. apply reach_bind; [apply reach_lift|]. intro d.
  destruct (aget str_eqb d (ns_or_default ns)); [apply reach_ret|].
  destruct (eio_from_sid (mg s0) sid (ns_or_default ns)); [|apply reach_ret].
  apply reach_bind; [apply reach_set_session|]. intro. apply reach_ret.
Qed.
Lemma reach_api_save_session sid v ns : reach (api_save_session sid v ns).
Proof.
  unfold api_save_session. apply reach_getS; intro s0. apply reach_bind; [apply reach_lift|]. intro d.
  destruct (eio_from_sid (mg s0) sid (ns_or_default ns)); [apply reach_set_session|apply reach_ret].
Qed.
Lemma reach_with_mg_enter sid ns room : reach (with_mg (fun m => enter_room m sid ns room)).
Proof. intro s. apply reach_at_with_mg. constructor. Qed.
Lemma reach_set_mg_leave sid ns room : reach (set_mg (fun m => leave_room m sid ns room)).
Proof. intro s. apply reach_at_set_mg. constructor. Qed.
Lemma reach_set_mg_close room ns : reach (set_mg (fun m => close_room m room ns)).
Proof. intro s. apply reach_at_set_mg. constructor. Qed.
Lemma reach_set_mg_disc sid ns : reach (set_mg (fun m => mgr_disconnect m sid ns)).
Proof. intro s. apply reach_at_set_mg. constructor. Qed.

Lemma reach_run_action c ns sid a : reach (run_action c ns sid a).
Proof.
  destruct a; cbn [run_action].
  - apply reach_bind; [apply reach_with_mg_enter|]. intro. apply reach_lift.
  - apply reach_set_mg_leave.
  - apply reach_api_emit.
  - apply reach_api_emit.
  - apply reach_api_save_session.
  - apply reach_bind; [apply reach_api_get_session|]. intro. apply reach_tell.
Qed.
Lemma reach_call_handler c hid ns sid args : reach (call_handler c hid ns sid args).
Proof.
  unfold call_handler. destruct (aget N.eqb (behav c) hid) as [b|]; [|apply reach_raise].
  destruct (match h_arity b with Some n => _ | None => false end); [apply reach_raise|].
  apply reach_bind; [apply reach_tell|]. intro.
  apply reach_bind; [apply reach_forM; intro; apply reach_run_action|]. intro.
  destruct (h_outcome b); [apply reach_ret|apply reach_raise|apply reach_raise].
Qed.
Lemma reach_call_with_retry c ev hid ns sid args : reach (call_with_retry c ev hid ns sid args).
Proof.
  unfold call_with_retry. apply reach_catch; [apply reach_call_handler|].
  intros x k. destruct x; try discriminate. destruct (is_disconnect ev); [|discriminate].
  intro H; inversion H; subst. apply reach_call_handler.
Qed.
Lemma reach_trigger_event c ev ns args : reach (trigger_event c ev ns args).
Proof.
  unfold trigger_event. destruct (is_unhashable ev && _); [apply reach_raise|].
  destruct (get_event_handler c ev ns args) as [[h a]|].
  - apply reach_bind; [apply reach_call_with_retry|]. intro. apply reach_ret.
  - destruct (get_namespace_handler c ns args) as [[methods a]|]; [|apply reach_ret].
    destruct ev; try (destruct (truthy _); [apply reach_raise|apply reach_ret]); try apply reach_ret.
    destruct (aget str_eqb methods s); [|apply reach_ret].
    apply reach_bind; [apply reach_call_with_retry|]. intro. apply reach_ret.
Qed.

Lemma connected_in_rooms m sid ns : is_connected m (Some sid) ns = true -> in_rooms m sid.
Proof.
  intro Hc. destruct (connected_room _ _ _ Hc) as (_ & b & e & Hb & Hg).
  rewrite room_of_none in Hb. destruct (ns_rooms m ns) as [rm|] eqn:Hns; [|discriminate].
  destruct (aget_some_in _ _ _ _ Hb) as (k' & Hk & _).
  exists ns, rm, k', b, e. split; [apply saget_in; exact Hns|]. split; [exact Hk|apply saget_in; exact Hg].
Qed.

Lemma reach_disc_tail c ns sid args :
  reach (finallyM (_ <~ trigger_event c (PStr (s2l "disconnect")) ns args ;; ret tt)
                  (set_mg (fun m => mgr_disconnect m sid ns))).
Proof.
  apply reach_finally; [|apply reach_set_mg_disc].
  apply reach_bind; [apply reach_trigger_event|]. intro. apply reach_ret.
Qed.

Lemma reach_handle_disconnect c eio pn reason : reach (handle_disconnect c eio pn reason).
Proof.
  intro s. unfold handle_disconnect. apply reach_at_getS.
  destruct (is_connected (mg s) (sid_from_eio (mg s) eio (ns_or_default pn)) (ns_or_default pn)) eqn:Hc;
    cbn [negb]; [|apply star_refl].
  destruct (sid_from_eio (mg s) eio (ns_or_default pn)) as [sid|]; [|apply star_refl].
  apply reach_at_bind.
  - apply reach_at_with_mg. apply P_pre. left. eapply connected_in_rooms. exact Hc.
  - intros r s1 e1 _. apply reach_bind; [apply reach_lift|]. intro. apply reach_disc_tail.
Qed.

Lemma reach_api_disconnect c sid pn : reach (api_disconnect c sid pn).
Proof.
  intro s. unfold api_disconnect. apply reach_at_getS.
  destruct (is_connected (mg s) (Some sid) (ns_or_default pn)) eqn:Hc; cbn [negb]; [|apply star_refl].
  apply reach_at_bind.
  - apply reach_at_with_mg. apply P_pre. left. eapply connected_in_rooms. exact Hc.
  - intros r s1 e1 _. apply reach_bind; [apply reach_lift|]. intro.
    apply reach_bind; [apply reach_send_packet|]. intro. apply reach_disc_tail.
Qed.

Lemma reach_handle_event c eio pn id data : reach (handle_event c eio pn id data).
Proof.
  unfold handle_event. apply reach_getS; intro s0. apply reach_bind; [apply reach_lift|]. intro ea.
  destruct (negb _); [apply reach_ret|].
  destruct (sid_from_eio (mg s0) eio (ns_or_default pn)); [|apply reach_ret].
  apply reach_bind; [apply reach_trigger_event|]. intros [v|]; [|apply reach_ret].
  destruct id; [apply reach_send_packet|apply reach_ret].
Qed.

Lemma reach_handle_ack c eio pn id data : reach (handle_ack c eio pn id data).
Proof.
  unfold handle_ack. apply reach_getS; intro s0.
  apply reach_bind; [intro s; apply reach_at_with_mg; constructor|].
  intros [|cb]; [apply reach_ret|]. apply reach_bind; [apply reach_lift|]. intro. apply reach_tell.
Qed.

Lemma ns_or_default_nonempty pn : ns_or_default pn <> [].
Proof. unfold ns_or_default, slash. destruct pn as [[|x r]|]; discriminate. Qed.

Lemma mgr_connect_some m eio ns x y : snd (mgr_connect m eio ns x) = Some y -> y = x.
Proof.
  unfold mgr_connect. destruct (put_member m ns PNone x eio) as [m1 [|]]; [|discriminate].
  destruct (put_member m1 ns (PStr x) x eio). cbn [snd]. intro H; inversion H; reflexivity.
Qed.

Lemma reach_connect_try c ns sid env data :
  reach (catch
           (r <~ (if truthy data then trigger_event c (PStr (s2l "connect")) ns [PStr sid; env; data]
                  else catch (trigger_event c (PStr (s2l "connect")) ns [PStr sid; env])
                             (fun e => match e with
                                       | TypeError => Some (trigger_event c (PStr (s2l "connect")) ns [PStr sid; env; PNone])
                                       | _ => None end)) ;;
            ret (r, error_args []))
           (fun e => match e with
                     | ConnectionRefused =>
                         Some (ret (Some (PBool false), error_args (refusal_args c (connect_hid c ns))))
                     | _ => None end)).
Proof.
  apply reach_catch.
  - apply reach_bind; [|intro; apply reach_ret].
    apply reach_if; [apply reach_trigger_event|].
    apply reach_catch; [apply reach_trigger_event|].
    intros x k. destruct x; try discriminate. intro H; inversion H; subst. apply reach_trigger_event.
  - intros x k. destruct x; try discriminate. intro H; inversion H; subst. apply reach_ret.
Qed.

Lemma reach_handle_connect c eio pn data : reach (handle_connect c eio pn data).
Proof.
  intro s. unfold handle_connect. set (ns := ns_or_default pn). apply reach_at_getS.
  apply reach_at_bind_star.
  - destruct (served c ns); [|apply star_refl].
    unfold reach_at, st. rewrite bindM_putS, with_mg_eq. cbn [fst mg].
    apply star_one. exact (P_conn s eio ns (ns_or_default_nonempty pn)).
  - intros osid s1 e1 Hrun Hst1.
    destruct osid as [sid|]; [|apply reach_send_packet].
    assert (Hsid : sid = new_sid s /\ fresh s1 = fresh s + 1).
    { destruct (served c ns); [|discriminate].
      rewrite bindM_putS, with_mg_eq in Hrun. cbn [mg] in Hrun. inversion Hrun as [[H1 H2 H3]].
      split; [eapply mgr_connect_some; exact H3|reflexivity]. }
    destruct Hsid as [Hsid Hfr].
    apply reach_at_bind_star; [apply reach_if; [apply reach_send_packet|apply reach_ret]|].
    intros _ s2 e2 _ Hst2.
    apply reach_at_bind_star; [destruct (aget str_eqb (environ s) eio); [apply reach_ret|apply reach_raise]|].
    intros env s3 e3 _ Hst3.
    apply reach_at_bind_star; [apply reach_connect_try|].
    intros [success fail_reason] s4 e4 _ Hst4.
    destruct (match success with Some v => pv_eqb v (PBool false) | None => false end).
    + apply reach_at_finally; [|intros; apply reach_set_mg_disc].
      destruct (always_connect c); [|apply reach_send_packet].
      apply reach_at_bind.
      * apply reach_at_with_mg. apply P_pre. right. exists (fresh s). split; [|exact Hsid].
        (* the id generator only moves forward *)
        pose proof (star_fresh _ _ Hst2). pose proof (star_fresh _ _ Hst3). pose proof (star_fresh _ _ Hst4). lia.
      * intros r s6 e6 _. apply reach_bind; [apply reach_lift|]. intro. apply reach_send_packet.
    + apply reach_if; [apply reach_ret|apply reach_send_packet].
Qed.

Lemma reach_handle_eio_message c loads eio payload : reach (handle_eio_message c loads eio payload).
Proof.
  unfold handle_eio_message. apply reach_getS; intro s0.
  destruct (aget str_eqb (binpkt s0) eio) as [r|].
  - destruct (add_attachment r payload) as [[r' [|]]|x].
    + apply reach_bind; [apply reach_set_binpkt|]. intro.
      apply reach_if; [apply reach_handle_event|apply reach_handle_ack].
    + apply reach_set_binpkt.
    + apply reach_bind; [apply reach_if; [apply reach_ret|apply reach_set_binpkt]|]. intro. apply reach_raise.
  - apply reach_bind; [apply reach_lift|]. intro r.
    repeat (apply reach_if;
            [first [apply reach_handle_connect|apply reach_handle_disconnect|apply reach_handle_event
                   |apply reach_handle_ack|apply reach_set_binpkt]|]).
    apply reach_raise.
Qed.

Lemma reach_handle_eio_disconnect c eio reason : reach (handle_eio_disconnect c eio reason).
Proof.
  unfold handle_eio_disconnect. apply reach_getS; intro s0.
  apply reach_bind; [apply reach_forM_keep; intro; apply reach_handle_disconnect|]. intro exc.
  apply reach_bind; [apply reach_other; intro s; eauto 6|]. intro.
  destruct exc; [apply reach_raise|apply reach_ret].
Qed.

Lemma reach_step_m c o : reach (step_m c o).
Proof.
  destruct o; cbn [step_m].
  - apply reach_other. intro s. eauto 6.
  - apply reach_getS; intro s0. apply reach_if; [apply reach_contain; apply reach_handle_eio_message|apply reach_ret].
  - apply reach_getS; intro s0. apply reach_if; [|apply reach_ret].
    apply reach_bind; [apply reach_contain; apply reach_handle_eio_disconnect|]. intro.
    apply reach_other. intro s. eauto 6.
  - apply reach_api. apply reach_api_emit.
  - apply reach_api. apply reach_bind; [apply reach_with_mg_enter|]. intro. apply reach_lift.
  - apply reach_api. apply reach_set_mg_leave.
  - apply reach_api. apply reach_set_mg_close.
  - apply reach_getS; intro s0. apply reach_tell.
  - apply reach_api. apply reach_api_disconnect.
  - apply reach_api. apply reach_bind; [apply reach_api_get_session|]. intro. apply reach_tell.
  - apply reach_api. apply reach_api_save_session.
  - apply reach_api. apply reach_bind; [apply reach_api_get_session|]. intro. apply reach_api_save_session.
Qed.

Theorem step_star c s o : star s (fst (step c s o)).
Proof.
  pose proof (reach_step_m c o s) as H. unfold reach_at, st in H. unfold step.
  destruct (step_m c o s) as [[s' e] r]. exact H.
Qed.

(* ------------------------------------------------------------------ *)
(* every primitive transition preserves the invariant                  *)
(* ------------------------------------------------------------------ *)
Section SidsAll.
  Variable P : str -> Prop.
  Definition bd_all (b : bidict) : Prop := forall sid e, In (sid, e) b -> P sid.
  Definition rm_all (rm : roommap) : Prop := forall room b, In (room, b) rm -> bd_all b.
  Definition rooms_all (rs : list (str * roommap)) : Prop := forall ns rm, In (ns, rm) rs -> rm_all rm.

  Lemma sids_all_rooms m : sids_all P m -> rooms_all (rooms m).
  Proof. intros (H & _) ns rm Hin room b Hb sid e Hs. eapply H; eassumption. Qed.
  Lemma sids_all_intro m :
    rooms_all (rooms m) -> (forall ns l sid, In (ns, l) (pending m) -> In sid l -> P sid) ->
    (forall sid slot, In (sid, slot) (callbacks m) -> P sid) -> sids_all P m.
  Proof. intros H1 H2 H3. split; [|split; assumption]. intros ns rm room b sid e A B C. eapply H1; eassumption. Qed.

  Lemma bd_all_aset b sid e : bd_all b -> P sid -> bd_all (aset str_eqb b sid e).
  Proof.
    intros Hb Hp s' e' Hin. destruct (in_aset_key _ _ _ _ _ Hin) as [H|H]; cbn [fst] in H.
    - apply in_map_iff in H as ([k v] & Hk & Hkv). cbn [fst] in Hk. subst. eapply Hb. exact Hkv.
    - subst. exact Hp.
  Qed.
  Lemma bd_all_adel b sid : bd_all b -> bd_all (adel str_eqb b sid).
  Proof. intros Hb s' e' Hin. eapply Hb. eapply in_adel. exact Hin. Qed.
  Lemma rm_all_aset rm room b : rm_all rm -> bd_all b -> rm_all (aset room_eqb rm room b).
  Proof.
    intros Hrm Hb room' b' Hin. destruct (in_aset _ _ _ _ _ Hin) as [H|H]; [eapply Hrm; exact H|].
    cbn [snd] in H. subst. exact Hb.
  Qed.
  Lemma rm_all_adel rm room : rm_all rm -> rm_all (adel room_eqb rm room).
  Proof. intros Hrm room' b' Hin. eapply Hrm. eapply in_adel. exact Hin. Qed.
  Lemma rooms_all_aset rs ns rm : rooms_all rs -> rm_all rm -> rooms_all (aset str_eqb rs ns rm).
  Proof.
    intros Hrs Hrm ns' rm' Hin. destruct (in_aset _ _ _ _ _ Hin) as [H|H]; [eapply Hrs; exact H|].
    cbn [snd] in H. subst. exact Hrm.
  Qed.
  Lemma rooms_all_adel rs ns : rooms_all rs -> rooms_all (adel str_eqb rs ns).
  Proof. intros Hrs ns' rm' Hin. eapply Hrs. eapply in_adel. exact Hin. Qed.
  Lemma rooms_all_get m ns rm : rooms_all (rooms m) -> ns_rooms m ns = Some rm -> rm_all rm.
  Proof. intros H Hns. eapply H. apply saget_in. exact Hns. Qed.
  Lemma rm_all_get rm room b : rm_all rm -> aget room_eqb rm room = Some b -> bd_all b.
  Proof. intros H Hb. destruct (aget_some_in _ _ _ _ Hb) as (k' & Hk & _). eapply H. exact Hk. Qed.
  Lemma rm_all_nil : rm_all []. Proof. intros ? ? []. Qed.
  Lemma bd_all_nil : bd_all []. Proof. intros ? ? []. Qed.

  Lemma rooms_all_set_ns m ns rm' : rooms_all (rooms m) -> rm_all rm' -> rooms_all (rooms (set_ns m ns rm')).
  Proof.
    intros H Hrm. unfold set_ns. destruct rm'; cbn [rooms set_rooms];
      [apply rooms_all_adel; exact H|apply rooms_all_aset; assumption].
  Qed.

  Lemma rooms_all_leave m sid ns room : rooms_all (rooms m) -> rooms_all (rooms (leave_room m sid ns room)).
  Proof.
    intro H. rewrite leave_room_unfold. destruct (ns_rooms m ns) as [rm|] eqn:Hns; [|exact H].
    destruct (rm_leave rm sid room) as [rm'|] eqn:Hl; [|exact H].
    apply rooms_all_set_ns; [exact H|]. pose proof (rooms_all_get _ _ _ H Hns) as Hrm.
    unfold rm_leave in Hl. destruct (aget room_eqb rm room) as [b|] eqn:Hb; [|discriminate].
    destruct (bd_get b sid); [|discriminate]. inversion Hl; subst; clear Hl.
    destruct (adel str_eqb b sid) as [|x r] eqn:Hd; [apply rm_all_adel; exact Hrm|].
    apply rm_all_aset; [exact Hrm|]. rewrite <- Hd. apply bd_all_adel. eapply rm_all_get; eassumption.
  Qed.

  Lemma sids_all_leave m sid ns room : sids_all P m -> sids_all P (leave_room m sid ns room).
  Proof.
    intro H. pose proof (rooms_all_leave m sid ns room (sids_all_rooms _ H)) as Hr.
    destruct H as (_ & Hp & Hc). apply sids_all_intro; [exact Hr| |].
    - assert (E : pending (leave_room m sid ns room) = pending m); [|rewrite E; exact Hp].
      rewrite leave_room_unfold. destruct (ns_rooms m ns); [|reflexivity]. destruct (rm_leave _ _ _); reflexivity.
    - assert (E : callbacks (leave_room m sid ns room) = callbacks m); [|rewrite E; exact Hc].
      rewrite leave_room_unfold. destruct (ns_rooms m ns); [|reflexivity]. destruct (rm_leave _ _ _); reflexivity.
  Qed.

  Lemma in_remove_first l x y : In y (remove_first l x) -> In y l.
  Proof.
    induction l as [|z l IH]; cbn [remove_first]; [intros []|].
    destruct (str_eqb z x); [intro H; right; exact H|]. intros [H|H]; [left; exact H|right; exact (IH H)].
  Qed.
End SidsAll.

Lemma sids_all_impl (P Q : str -> Prop) m : (forall x, P x -> Q x) -> sids_all P m -> sids_all Q m.
Proof.
  intros HPQ (H1 & H2 & H3). split; [|split].
  - intros ns rm room b sid e A B C. apply HPQ. eapply H1; eassumption.
  - intros ns l sid A B. apply HPQ. eapply H2; eassumption.
  - intros sid slot A. apply HPQ. eapply H3; eassumption.
Qed.
Lemma below_mono n n' x : n <= n' -> below n x -> below n' x.
Proof. intros Hle (k & Hk & He). exists k. split; [lia|exact He]. Qed.

(* keys of the rooms table *)
Lemma keys_aset {V} (l : list (str * V)) k v x : In x (map fst (aset str_eqb l k v)) -> In x (map fst l) \/ x = k.
Proof.
  intro H. apply in_map_iff in H as (y & Hy & Hin). destruct (in_aset_key _ _ _ _ _ Hin) as [H1|H1]; subst; auto.
Qed.
Lemma keys_adel {V} (l : list (str * V)) k x : In x (map fst (adel str_eqb l k)) -> In x (map fst l).
Proof. intro H. apply in_map_iff in H as (y & Hy & Hin). subst. apply in_map. eapply in_adel. exact Hin. Qed.
Lemma ns_rooms_key m ns rm : ns_rooms m ns = Some rm -> In ns (map fst (rooms m)).
Proof. intro H. apply saget_in in H. apply (in_map fst) in H. exact H. Qed.

Lemma ns_nonempty_set_ns m ns rm' : ns_nonempty m -> ns <> [] -> ns_nonempty (set_ns m ns rm').
Proof.
  intros H Hne x Hin. unfold set_ns in Hin. destruct rm'; cbn [rooms set_rooms] in Hin.
  - apply H. eapply keys_adel. exact Hin.
  - destruct (keys_aset _ _ _ _ Hin) as [H1|H1]; [apply H; exact H1|subst; exact Hne].
Qed.
Lemma ns_nonempty_leave m sid ns room : ns_nonempty m -> ns_nonempty (leave_room m sid ns room).
Proof.
  intro H. rewrite leave_room_unfold. destruct (ns_rooms m ns) as [rm|] eqn:Hns; [|exact H].
  destruct (rm_leave rm sid room); [|exact H]. apply ns_nonempty_set_ns; [exact H|].
  apply H. eapply ns_rooms_key. exact Hns.
Qed.
Lemma leave_room_pending m sid ns room : pending (leave_room m sid ns room) = pending m.
Proof. rewrite leave_room_unfold. destruct (ns_rooms m ns); [|reflexivity]. destruct (rm_leave _ _ _); reflexivity. Qed.
Lemma leave_room_callbacks m sid ns room : callbacks (leave_room m sid ns room) = callbacks m.
Proof. rewrite leave_room_unfold. destruct (ns_rooms m ns); [|reflexivity]. destruct (rm_leave _ _ _); reflexivity. Qed.

Lemma MI_leave n m sid ns room : MI n m -> MI n (leave_room m sid ns room).
Proof.
  intros (H1 & H2 & H3 & H4). split; [apply (leave_room_spec m sid ns room H1)|].
  split; [apply sids_all_leave; exact H2|]. split; [|apply ns_nonempty_leave; exact H4].
  unfold pending_nonempty. rewrite leave_room_pending. exact H3.
Qed.
Lemma MI_fold_leave {A} n (f : A -> str) (g : A -> pv) ns l : forall m,
  MI n m -> MI n (fold_left (fun m x => leave_room m (f x) ns (g x)) l m).
Proof. induction l as [|x l IH]; intros m H; cbn [fold_left]; [exact H|]. apply IH. apply MI_leave. exact H. Qed.

Lemma MI_close n m room ns : MI n m -> MI n (close_room m room ns).
Proof.
  intro H. unfold close_room. destruct (participants m ns room) as [b|]; [|exact H].
  apply (MI_fold_leave n (fun se : str * str => fst se) (fun _ => room)). exact H.
Qed.

Lemma MI_rooms_same n m m' :
  rooms m' = rooms m -> MI n m ->
  (forall ns l sid, In (ns, l) (pending m') -> In sid l -> below n sid) ->
  (forall sid slot, In (sid, slot) (callbacks m') -> below n sid) ->
  pending_nonempty m' -> MI n m'.
Proof.
  intros Hr (H1 & H2 & H3 & H4) Hp Hc Hpn. split; [eapply MOK_rooms; eassumption|].
  split; [|split; [exact Hpn|unfold ns_nonempty; rewrite Hr; exact H4]].
  apply sids_all_intro; [rewrite Hr; apply sids_all_rooms; exact H2|exact Hp|exact Hc].
Qed.

Lemma in_rooms_P P m sid : sids_all P m -> in_rooms m sid -> P sid.
Proof. intros (H & _) (ns & rm & room & b & e & A & B & C). eapply H; eassumption. Qed.

Lemma MI_pre n m sid ns : MI n m -> below n sid -> MI n (fst (pre_disconnect m sid ns)).
Proof.
  intros H Hb. pose proof H as (H1 & (_ & H2p & H2c) & H3 & H4).
  apply (MI_rooms_same n m); [apply pre_disconnect_rooms|exact H| | |].
  - rewrite pre_disconnect_pending. intros ns' l x Hin Hx.
    destruct (in_aset _ _ _ _ _ Hin) as [Hi|Hi]; [eapply H2p; eassumption|].
    cbn [snd] in Hi. subst l. apply in_app_or in Hx as [Hx|[Hx|[]]]; [|subst; exact Hb].
    destruct (aget str_eqb (pending m) ns) as [l0|] eqn:E; [|destruct Hx].
    eapply H2p; [apply saget_in; exact E|exact Hx].
  - rewrite pre_disconnect_callbacks. exact H2c.
  - unfold pending_nonempty. rewrite pre_disconnect_pending. intros ns' l Hin.
    destruct (in_aset _ _ _ _ _ Hin) as [Hi|Hi]; [eapply H3; exact Hi|].
    cbn [snd] in Hi. subst l. destruct (match aget str_eqb (pending m) ns with Some l => l | None => [] end); discriminate.
Qed.

Lemma MI_release n m1 sid ns : MI n m1 -> MI n (disc_release m1 sid ns).
Proof.
  intro H1. unfold disc_release.
  set (m2 := mkMgr (rooms m1) (pending m1) (adel str_eqb (callbacks m1) sid)).
  assert (H2 : MI n m2).
  { pose proof H1 as (_ & (_ & Hp & Hc) & Hpn & _).
    apply (MI_rooms_same n m1); [reflexivity|exact H1|exact Hp| |exact Hpn].
    intros x slot Hin. eapply Hc. eapply in_adel. exact Hin. }
  destruct (is_pending m2 sid ns); [|exact H2].
  pose proof H2 as (_ & (_ & Hp & Hc) & Hpn & _).
  apply (MI_rooms_same n m2); [reflexivity|exact H2| |exact Hc|].
  - intros ns' l x Hin Hx. cbn [pending] in Hin.
    destruct (match aget str_eqb (pending m2) ns with Some l => remove_first l sid | None => [] end) as [|y r] eqn:E.
    + eapply Hp; [eapply in_adel; exact Hin|exact Hx].
    + destruct (in_aset _ _ _ _ _ Hin) as [Hi|Hi]; [eapply Hp; eassumption|].
      cbn [snd] in Hi. subst l. destruct (aget str_eqb (pending m2) ns) as [l0|] eqn:E0; [|discriminate].
      rewrite <- E in Hx. eapply Hp; [apply saget_in; exact E0|eapply in_remove_first; exact Hx].
  - intros ns' l Hin. cbn [pending] in Hin.
    destruct (match aget str_eqb (pending m2) ns with Some l => remove_first l sid | None => [] end) as [|y r] eqn:E.
    + eapply Hpn. eapply in_adel. exact Hin.
    + destruct (in_aset _ _ _ _ _ Hin) as [Hi|Hi]; [eapply Hpn; exact Hi|]. cbn [snd] in Hi. subst. discriminate.
Qed.
Lemma MI_disc n m sid ns : MI n m -> MI n (mgr_disconnect m sid ns).
Proof.
  intro H. unfold mgr_disconnect. destruct (ns_rooms m ns) as [rm|]; [|apply MI_release; exact H].
  set (names := map fst (filter _ rm)).
  pose proof (MI_fold_leave n (fun _ : pv => sid) (fun r => r) ns names m H) as H1. cbn beta in H1.
  apply MI_release. exact H1.
Qed.

Lemma MI_ack n m sid cb : MI n m -> below n sid -> MI n (fst (generate_ack_id m sid cb)).
Proof.
  intros H Hb. pose proof H as (_ & (_ & Hp & Hc) & Hpn & _).
  assert (Hcb : forall slot' x slot, In (x, slot) (aset str_eqb (callbacks m) sid slot') -> below n x).
  { intros slot' x slot Hin. destruct (in_aset_key _ _ _ _ _ Hin) as [Hi|Hi]; cbn [fst] in Hi; [|subst; exact Hb].
    apply in_map_iff in Hi as ([k v] & Hk & Hkv). cbn [fst] in Hk. subst. eapply Hc. exact Hkv. }
  unfold generate_ack_id. destruct (cb_counter _);
    (apply (MI_rooms_same n m); [reflexivity|exact H|exact Hp|apply Hcb|exact Hpn]).
Qed.

Lemma MI_cb n m osid id : MI n m -> MI n (fst (trigger_callback m osid id)).
Proof.
  intro H. pose proof H as (_ & (_ & Hp & Hc) & Hpn & _).
  unfold trigger_callback. destruct osid as [s0|]; [|exact H]. destruct id as [i|]; [|exact H].
  destruct (aget str_eqb (callbacks m) s0) as [slot|] eqn:E; [|exact H].
  destruct (i <=? 0)%Z; [exact H|]. destruct (aget N.eqb (cb_entries slot) (Z.to_N i)); [|exact H].
  cbn [fst]. apply (MI_rooms_same n m); [reflexivity|exact H|exact Hp| |exact Hpn].
  intros x slot' Hin. destruct (in_aset_key _ _ _ _ _ Hin) as [Hi|Hi]; cbn [fst] in Hi.
  - apply in_map_iff in Hi as ([k v] & Hk & Hkv). cbn [fst] in Hk. subst. eapply Hc. exact Hkv.
  - subst. eapply Hc. apply saget_in. exact E.
Qed.

Lemma bd_put_all P b sid eio b' : bd_put b sid eio = Some b' -> bd_all P b -> P sid -> bd_all P b'.
Proof.
  unfold bd_put. destruct (bd_inv b eio) as [s'|].
  - destruct (str_eqb s' sid); [|discriminate]. intro H; inversion H; subst. tauto.
  - intro H; inversion H; subst. apply bd_all_aset.
Qed.

(* writing one bidict into a room of a namespace *)
Lemma MI_write n m ns rm room bX :
  MI n m -> ns <> [] -> rm_ok1 rm -> rm_all (below n) rm ->
  (room = PNone -> bd_ok bX) -> bd_all (below n) bX ->
  MI n (set_rooms m (aset str_eqb (rooms m) ns (aset room_eqb rm room bX))).
Proof.
  intros (H1 & H2 & H3 & H4) Hne Hok Hall Hnd Hb.
  split; [apply MOK_aset_ns; [exact H1|apply rm_ok1_aset; assumption]|].
  split; [|split; [exact H3|]].
  - destruct H2 as (Hr & Hp & Hc). apply sids_all_intro; [|exact Hp|exact Hc].
    cbn [rooms set_rooms]. apply rooms_all_aset; [intros a b0 c d e f g h i; eapply Hr; eassumption|].
    apply rm_all_aset; assumption.
  - intros x Hin. cbn [rooms set_rooms] in Hin. destruct (keys_aset _ _ _ _ Hin) as [Hi|Hi]; [apply H4; exact Hi|subst; exact Hne].
Qed.

Lemma MI_enter n m sid ns room : MI n m -> MI n (fst (enter_room m sid ns room)).
Proof.
  intro H. unfold enter_room. destruct (ns_rooms m ns) as [rm|] eqn:Hns; [|exact H].
  change (aget room_eqb rm PNone) with (none_bd rm).
  destruct (none_bd rm) as [b0|] eqn:Hb0; [|exact H].
  destruct (bd_get b0 sid) as [eio|] eqn:Hg; [|exact H].
  pose proof H as (H1 & H2 & H3 & H4).
  pose proof (rooms_all_get _ _ _ _ (sids_all_rooms _ _ H2) Hns) as Hrm.
  assert (Hsid : below n sid).
  { eapply (rm_all_get _ _ _ _ Hrm Hb0). apply saget_in. exact Hg. }
  assert (Hne : ns <> []) by (apply H4; eapply ns_rooms_key; exact Hns).
  pose proof (MOK_ns _ _ _ H1 Hns) as Hok.
  set (b := match aget room_eqb rm room with Some b => b | None => [] end).
  assert (Hball : bd_all (below n) b).
  { unfold b. destruct (aget room_eqb rm room) eqn:E; [eapply rm_all_get; eassumption|apply bd_all_nil]. }
  assert (Hbnd : room = PNone -> bd_ok b).
  { intros ->. unfold b. change (aget room_eqb rm PNone) with (none_bd rm). rewrite Hb0. destruct Hok as [_ Hk]. exact (Hk _ Hb0). }
  destruct (bd_put b sid eio) as [b'|] eqn:Hp; cbn [fst].
  - apply MI_write; try assumption.
    + intro Hr. eapply bd_put_ok; [exact Hp|exact (Hbnd Hr)].
    + eapply bd_put_all; eassumption.
  - apply MI_write; assumption.
Qed.

Lemma MI_put_member n m ns room sid eio :
  MI n m -> ns <> [] -> below n sid -> MI n (fst (put_member m ns room sid eio)).
Proof.
  intros H Hne Hsid. rewrite put_member_unfold. cbn [fst]. pose proof H as (H1 & H2 & H3 & H4).
  assert (Hrm : rm_all (below n) (pm_rm m ns)).
  { unfold pm_rm. destruct (ns_rooms m ns) eqn:E; [eapply rooms_all_get; [apply sids_all_rooms; exact H2|exact E]|apply rm_all_nil]. }
  assert (Hb : bd_all (below n) (pm_b m ns room)).
  { unfold pm_b. destruct (aget room_eqb (pm_rm m ns) room) eqn:E; [eapply rm_all_get; eassumption|apply bd_all_nil]. }
  apply MI_write; try assumption.
  - apply rm_ok1_pm_rm. exact H1.
  - intros ->. pose proof (pm_b_none_keys m ns H1) as Hk.
    destruct (bd_put (pm_b m ns PNone) sid eio) eqn:E; [eapply bd_put_ok; eassumption|exact Hk].
  - destruct (bd_put (pm_b m ns room) sid eio) eqn:E; [eapply bd_put_all; eassumption|exact Hb].
Qed.

Lemma MI_connect n m eio ns sid : MI n m -> ns <> [] -> below n sid -> MI n (fst (mgr_connect m eio ns sid)).
Proof.
  intros H Hne Hsid. unfold mgr_connect.
  pose proof (MI_put_member n m ns PNone sid eio H Hne Hsid) as H1.
  destruct (put_member m ns PNone sid eio) as [m1 [|]]; cbn [fst] in *; [|exact H1].
  pose proof (MI_put_member n m1 ns (PStr sid) sid eio H1 Hne Hsid) as H2.
  destruct (put_member m1 ns (PStr sid) sid eio) as [m2 ok]. exact H2.
Qed.

Lemma MI_mono n n' m : n <= n' -> MI n m -> MI n' m.
Proof.
  intros Hle (H1 & H2 & H3 & H4). split; [exact H1|]. split; [|split; assumption].
  eapply sids_all_impl; [|exact H2]. intros x. apply below_mono. exact Hle.
Qed.

Theorem prim_Inv s s' : prim s s' -> Inv s -> Inv s'.
Proof.
  unfold Inv. intros Hp HI. destruct Hp; cbn [mg fresh upd_mg bump].
  - exact HI.
  - apply MI_leave. exact HI.
  - apply MI_enter. exact HI.
  - apply MI_close. exact HI.
  - apply MI_disc. exact HI.
  - apply MI_pre; [exact HI|]. destruct H as [H|H]; [|exact H]. eapply in_rooms_P; [apply HI|exact H].
  - apply MI_ack; [exact HI|]. eapply in_rooms_P; [apply HI|exact H].
  - apply MI_cb. exact HI.
  - apply MI_connect; [eapply MI_mono; [|exact HI]; lia|exact H|].
    exists (fresh s). split; [lia|reflexivity].
Qed.

Theorem star_Inv s s' : star s s' -> Inv s -> Inv s'.
Proof. induction 1; [auto|]. intro HI. apply IHstar. eapply prim_Inv; eassumption. Qed.

(* the invariant is preserved by every operation, whatever the handlers' scripts do *)
Theorem step_Inv c s o : Inv s -> Inv (fst (step c s o)).
Proof. apply star_Inv. apply step_star. Qed.
Theorem step_fresh_mono c s o : fresh s <= fresh (fst (step c s o)).
Proof. apply star_fresh. apply step_star. Qed.

Lemma run_cons' c s o r :
  run c s (o :: r) = (fst (run c (fst (step c s o)) r), snd (step c s o) :: snd (run c (fst (step c s o)) r)).
Proof.
  cbn [run]. destruct (step c s o) as [s1 e]. cbn [fst snd]. destruct (run c s1 r) as [s2 es]. reflexivity.
Qed.
Theorem run_Inv c ops : forall s, Inv s -> Inv (fst (run c s ops)).
Proof.
  induction ops as [|o r IH]; intros s HI; [exact HI|]. rewrite run_cons'. cbn [fst]. apply IH. apply step_Inv. exact HI.
Qed.
Theorem run_fresh_mono c ops : forall s, fresh s <= fresh (fst (run c s ops)).
Proof.
  induction ops as [|o r IH]; intros s; [cbn; lia|]. rewrite run_cons'. cbn [fst].
  etransitivity; [apply (step_fresh_mono c s o)|apply IH].
Qed.
Corollary reachable_Inv c ops : Inv (fst (run c srv_init ops)).
Proof. apply run_Inv. apply Inv_init. Qed.

(* ------------------------------------------------------------------ *)
(* C04_fresh_sid: ids are consumed monotonically, announced sids differ *)
(* ------------------------------------------------------------------ *)
Definition connect_rest (c : cfg) (eio ns : str) (data : pv) (envs : list (str * pv)) (osid : option str) : SM unit :=
  match osid with
  | None => send_packet c (Some eio) CONNECT_ERROR (PStr (s2l "Unable to connect")) ns None
  | Some sid =>
      (if always_connect c then send_packet c (Some eio) CONNECT (sid_dict sid) ns None else ret tt) ;;;
      env <~ (match aget str_eqb envs eio with Some e => ret e | None => raise KeyError end) ;;
      let ev := PStr (s2l "connect") in
      res <~ catch
               (r <~ (if truthy data then trigger_event c ev ns [PStr sid; env; data]
                      else catch (trigger_event c ev ns [PStr sid; env])
                                 (fun e => match e with
                                           | TypeError => Some (trigger_event c ev ns [PStr sid; env; PNone])
                                           | _ => None end)) ;;
                ret (r, error_args []))
               (fun e => match e with
                         | ConnectionRefused =>
                             Some (ret (Some (PBool false), error_args (refusal_args c (connect_hid c ns))))
                         | _ => None end) ;;
      let '(success, fail_reason) := res in
      if match success with Some v => pv_eqb v (PBool false) | None => false end then
        finallyM
          (if always_connect c then
             r <~ with_mg (fun m => pre_disconnect m sid ns) ;; _ <~ lift r ;;
             send_packet c (Some eio) DISCONNECT fail_reason ns None
           else send_packet c (Some eio) CONNECT_ERROR fail_reason ns None)
          (set_mg (fun m => mgr_disconnect m sid ns))
      else if always_connect c then ret tt
      else send_packet c (Some eio) CONNECT (sid_dict sid) ns None
  end.

Lemma handle_connect_split c eio pn data :
  handle_connect c eio pn data =
  (s <~ getS ;;
   osid <~ (if served c (ns_or_default pn) then
              putS (mkSrv (mg s) (environ s) (binpkt s) (sessions s) (live s) (fresh s + 1)) ;;;
              with_mg (fun m => mgr_connect m eio (ns_or_default pn) (sid_name (fresh s)))
            else ret None) ;;
   connect_rest c eio (ns_or_default pn) data (environ s) osid).
Proof. reflexivity. Qed.

Lemma reach_at_connect_rest c eio ns data envs osid s1 :
  (forall sid, osid = Some sid -> below (fresh s1) sid) -> reach_at (connect_rest c eio ns data envs osid) s1.
Proof.
  intro Hb. destruct osid as [sid|]; cbn [connect_rest]; [|apply reach_send_packet].
  specialize (Hb sid eq_refl).
  apply reach_at_bind_star; [apply reach_if; [apply reach_send_packet|apply reach_ret]|].
  intros _ s2 e2 _ Hst2.
  apply reach_at_bind_star; [destruct (aget str_eqb envs eio); [apply reach_ret|apply reach_raise]|].
  intros env s3 e3 _ Hst3.
  apply reach_at_bind_star; [apply reach_connect_try|].
  intros [success fail_reason] s4 e4 _ Hst4.
  destruct (match success with Some v => pv_eqb v (PBool false) | None => false end).
  - apply reach_at_finally; [|intros; apply reach_set_mg_disc].
    destruct (always_connect c); [|apply reach_send_packet].
    apply reach_at_bind.
    + apply reach_at_with_mg. apply P_pre. right. eapply below_mono; [|exact Hb].
      pose proof (star_fresh _ _ Hst2). pose proof (star_fresh _ _ Hst3). pose proof (star_fresh _ _ Hst4). lia.
    + intros r s6 e6 _. apply reach_bind; [apply reach_lift|]. intro. apply reach_send_packet.
  - apply reach_if; [apply reach_ret|apply reach_send_packet].
Qed.

(* a served CONNECT request consumes exactly... at least one id *)
Lemma handle_connect_consumes c eio pn data s :
  served c (ns_or_default pn) = true -> fresh s + 1 <= fresh (st (handle_connect c eio pn data s)).
Proof.
  intro Hsv. rewrite handle_connect_split. unfold st. rewrite bindM_getS, Hsv.
  unfold bindM at 1. rewrite bindM_putS, with_mg_eq.
  set (s1 := upd_mg _ _). set (osid := snd _).
  assert (Hr : reach_at (connect_rest c eio (ns_or_default pn) data (environ s) osid) s1).
  { apply reach_at_connect_rest. intros sid Hs. exists (fresh s). split; [cbn; lia|].
    eapply mgr_connect_some. exact Hs. }
  unfold reach_at, st in Hr. apply star_fresh in Hr.
  destruct (connect_rest c eio (ns_or_default pn) data (environ s) osid s1) as [[s2 e2] r]. cbn [fst] in *.
  change (fresh s1) with (fresh s + 1) in Hr. exact Hr.
Qed.

(* one engine.io message carrying a CONNECT request is handled by handle_connect *)
Lemma step_connect c s eio payload tbl pn data :
  is_live s eio = true -> connect_of c s eio payload tbl = Some (pn, data) ->
  step c s (EioMessage eio payload tbl) =
  (st (handle_connect c eio pn data s), snd (fst (handle_connect c eio pn data s))).
Proof.
  intros Hl Hco. unfold step, step_m. rewrite bindM_getS. unfold is_live in Hl. rewrite Hl.
  unfold contain, handle_eio_message. rewrite bindM_getS.
  unfold connect_of, classify in Hco.
  destruct (aget str_eqb (binpkt s) eio); [discriminate|].
  destruct (decode_any c (table_loads tbl) payload) as [r|x]; [|discriminate].
  destruct (type_is (rp r) CONNECT) eqn:Ht; [|discriminate].
  inversion Hco; subst; clear Hco.
  rewrite bindM_lift_ok, Ht. unfold st.
  destruct (handle_connect c eio (pns (rp r)) (pdata (rp r)) s) as [[s' e] res]. reflexivity.
Qed.

(* the session id a step announces: a CONNECT request for a served namespace *)
Definition announces (c : cfg) (s : srv) (o : op) : option str :=
  match o with
  | EioMessage eio payload tbl =>
      if is_live s eio then
        match connect_of c s eio payload tbl with
        | Some (pn, _) => if served c (ns_or_default pn) then Some (new_sid s) else None
        | None => None
        end
      else None
  | _ => None
  end.
Fixpoint announced (c : cfg) (s : srv) (ops : list op) : list str :=
  match ops with
  | [] => []
  | o :: r => (match announces c s o with Some sid => [sid] | None => [] end)
              ++ announced c (fst (step c s o)) r
  end.

Lemma announces_consumes c s o sid :
  announces c s o = Some sid -> sid = sid_name (fresh s) /\ fresh s + 1 <= fresh (fst (step c s o)).
Proof.
  destruct o as [|eio payload tbl| | | | | | | | | |]; try discriminate. cbn [announces].
  destruct (is_live s eio) eqn:Hl; [|discriminate].
  destruct (connect_of c s eio payload tbl) as [[pn data]|] eqn:Hco; [|discriminate].
  destruct (served c (ns_or_default pn)) eqn:Hsv; [|discriminate].
  intro H; inversion H; subst. split; [reflexivity|].
  rewrite (step_connect c s eio payload tbl pn data Hl Hco). cbn [fst].
  apply handle_connect_consumes. exact Hsv.
Qed.

Theorem announced_fresh c ops : forall s,
  (forall sid, In sid (announced c s ops) ->
     exists k, sid = sid_name k /\ fresh s <= k < fresh (fst (run c s ops))) /\
  NoDup (announced c s ops).
Proof.
  induction ops as [|o r IH]; intros s; [split; [intros ? []|constructor]|].
  cbn [announced]. rewrite run_cons'. cbn [fst].
  destruct (IH (fst (step c s o))) as [IH1 IH2].
  pose proof (step_fresh_mono c s o) as Hm.
  pose proof (run_fresh_mono c r (fst (step c s o))) as Hm2.
  destruct (announces c s o) as [sid0|] eqn:Ha; cbn [app].
  - destruct (announces_consumes _ _ _ _ Ha) as [He Hc]. split.
    + intros sid [H|H]; [subst sid; exists (fresh s); split; [exact He|lia]|].
      destruct (IH1 _ H) as (k & Hk & Hr). exists k. split; [exact Hk|lia].
    + constructor; [|exact IH2]. intro Hin. destruct (IH1 _ Hin) as (k & Hk & Hr).
      rewrite He in Hk. apply sid_name_inj in Hk. lia.
  - split; [|exact IH2]. intros sid H. destruct (IH1 _ H) as (k & Hk & Hr). exists k. split; [exact Hk|lia].
Qed.

(* ------------------------------------------------------------------ *)
(* transport loss: _handle_eio_disconnect over all namespaces          *)
(* ------------------------------------------------------------------ *)
Definition disc_chunk (c : cfg) (s : srv) (eio : str) (reason : pv) (n : str) : list eff :=
  match sid_from_eio (mg s) eio n with
  | Some sid => if is_connected (mg s) (Some sid) n
                then fst (te_pure c ev_disconnect n [PStr sid; reason_or_client reason]) else []
  | None => []
  end.
Definition agree (m m' : mgr) (n : str) : Prop :=
  ns_rooms m n = ns_rooms m' n /\ aget str_eqb (pending m) n = aget str_eqb (pending m') n.

Lemma agree_lookups m m' n : agree m m' n ->
  (forall e, sid_from_eio m e n = sid_from_eio m' e n) /\
  (forall o, is_connected m o n = is_connected m' o n) /\
  (forall x, eio_from_sid m x n = eio_from_sid m' x n).
Proof.
  intros [H1 H2]. split; [|split].
  - intro e. unfold sid_from_eio. rewrite !room_of_none, H1. reflexivity.
  - intros [x|]; [|reflexivity]. unfold is_connected, is_pending. rewrite !room_of_none, H1, H2. reflexivity.
  - intro x. unfold eio_from_sid. rewrite !room_of_none, H1. reflexivity.
Qed.
Lemma disc_chunk_agree c s s0 eio reason n : agree (mg s) (mg s0) n -> disc_chunk c s eio reason n = disc_chunk c s0 eio reason n.
Proof.
  intro H. destruct (agree_lookups _ _ _ H) as (H1 & H2 & _). unfold disc_chunk. rewrite H1.
  destruct (sid_from_eio (mg s0) eio n); [rewrite H2|]; reflexivity.
Qed.

Lemma disc_release_pending_frame m1 sid n n' :
  n <> n' -> aget str_eqb (pending (disc_release m1 sid n)) n' = aget str_eqb (pending m1) n'.
Proof.
  intro Hne. unfold disc_release.
  destruct (is_pending _ sid n); cbn [pending rooms callbacks]; [|reflexivity].
  destruct (aget str_eqb (pending m1) n) as [l0|].
  - destruct (remove_first l0 sid).
    + rewrite saget_adel_other by exact Hne. reflexivity.
    + rewrite saget_aset_other by exact Hne. reflexivity.
  - rewrite saget_adel_other by exact Hne. reflexivity.
Qed.
Lemma disc_state_pending_frame s sid n n' :
  n <> n' -> aget str_eqb (pending (mg (disc_state s sid n))) n' = aget str_eqb (pending (mg s)) n'.
Proof.
  intro Hne. unfold disc_state. cbn [mg upd_mg]. unfold mgr_disconnect.
  set (m0 := fst (pre_disconnect (mg s) sid n)).
  assert (H0 : aget str_eqb (pending m0) n' = aget str_eqb (pending (mg s)) n').
  { unfold m0. rewrite pre_disconnect_pending. apply saget_aset_other. exact Hne. }
  destruct (ns_rooms m0 n) as [rm|]; [|rewrite disc_release_pending_frame by exact Hne; exact H0].
  set (names := map fst (filter _ rm)).
  assert (H1 : pending (fold_left (fun m r => leave_room m sid n r) names m0) = pending m0).
  { generalize m0. induction names as [|r names IH]; intro m; cbn [fold_left]; [reflexivity|].
    rewrite IH. apply leave_room_pending. }
  rewrite disc_release_pending_frame by exact Hne. rewrite H1. exact H0.
Qed.

Lemma forM_keep_cons {A} (f : A -> SM unit) x r first s :
  forM_keep (x :: r) f first s =
  (let first' := match first, snd (f x s) with None, Err e => Some e | _, _ => first end in
   (st (forM_keep r f first' (st (f x s))),
    snd (fst (f x s)) ++ snd (fst (forM_keep r f first' (st (f x s)))),
    snd (forM_keep r f first' (st (f x s))))).
Proof.
  cbn [forM_keep]. unfold st. destruct (f x s) as [[s1 e1] res]. cbn [fst snd].
  destruct (forM_keep r f _ s1) as [[s2 e2] out]. reflexivity.
Qed.

Definition same_fields (s' s : srv) : Prop :=
  fresh s' = fresh s /\ environ s' = environ s /\ binpkt s' = binpkt s /\ sessions s' = sessions s /\ live s' = live s.
Lemma same_fields_refl s : same_fields s s. Proof. repeat split. Qed.
Lemma same_fields_trans a b d : same_fields a b -> same_fields b d -> same_fields a d.
Proof. intros (A1 & A2 & A3 & A4 & A5) (B1 & B2 & B3 & B4 & B5). repeat split; congruence. Qed.

(* one namespace *)
Lemma handle_disconnect_chunk c eio reason s n :
  has_actions c = false -> n <> [] -> MOK (mg s) ->
  let r := handle_disconnect c eio (Some n) reason s in
  snd (fst r) = disc_chunk c s eio reason n /\ MOK (mg (st r)) /\
  (forall n', n <> n' -> agree (mg (st r)) (mg s) n') /\
  (forall sid, sid_from_eio (mg s) eio n = Some sid -> is_connected (mg s) (Some sid) n = true ->
               eio_from_sid (mg (st r)) sid n = None /\ is_connected (mg (st r)) (Some sid) n = false) /\
  same_fields (st r) s.
Proof.
  intros Hna Hne Hm r. subst r.
  assert (Hnd : ns_or_default (Some n) = n) by (destruct n; [contradiction|reflexivity]).
  unfold disc_chunk.
  destruct (sid_from_eio (mg s) eio n) as [sid|] eqn:Hs.
  - destruct (is_connected (mg s) (Some sid) n) eqn:Hc.
    + rewrite (handle_disconnect_eq c eio (Some n) reason s sid Hna) by (rewrite Hnd; assumption).
      cbv zeta. rewrite Hnd. cbn [fst snd st].
      destruct (disc_state_facts s sid n Hm) as (Hm' & Hc' & He' & _ & Hf' & _ & Hsame).
      split; [reflexivity|]. split; [exact Hm'|]. split; [|split; [|exact Hsame]].
      * intros n' Hn'. split; [apply Hf'; exact Hn'|apply disc_state_pending_frame; exact Hn'].
      * intros sid' Hs' _. inversion Hs'; subst. split; assumption.
    + rewrite handle_disconnect_noop by (rewrite Hnd, Hs; exact Hc). cbn [fst snd st].
      split; [reflexivity|]. split; [exact Hm|]. split; [intros; split; reflexivity|].
      split; [|apply same_fields_refl]. intros sid' Hs' Hc'. inversion Hs'; subst. congruence.
  - rewrite handle_disconnect_noop by (rewrite Hnd, Hs; reflexivity). cbn [fst snd st].
    split; [reflexivity|]. split; [exact Hm|]. split; [intros; split; reflexivity|].
    split; [|apply same_fields_refl]. intros sid' Hs'. discriminate.
Qed.

Lemma eio_loop c eio reason s0 :
  has_actions c = false ->
  forall (l : list str) s first,
    NoDup l -> (forall n, In n l -> n <> []) -> MOK (mg s) ->
    (forall n, In n l -> agree (mg s) (mg s0) n) ->
    let r := forM_keep l (fun n : str => handle_disconnect c eio (Some n) reason) first s in
    snd (fst r) = flat_map (disc_chunk c s0 eio reason) l /\ MOK (mg (st r)) /\
    (forall n, ~ In n l -> agree (mg (st r)) (mg s) n) /\
    (forall n sid, In n l -> sid_from_eio (mg s0) eio n = Some sid -> is_connected (mg s0) (Some sid) n = true ->
                   eio_from_sid (mg (st r)) sid n = None /\ is_connected (mg (st r)) (Some sid) n = false) /\
    same_fields (st r) s.
Proof.
  intro Hna. induction l as [|n l IH]; intros s first Hnd Hne Hm Hag r; subst r.
  - cbn [forM_keep ret st fst snd flat_map]. split; [reflexivity|]. split; [exact Hm|].
    split; [intros; split; reflexivity|]. split; [intros n sid []|apply same_fields_refl].
  - rewrite forM_keep_cons. cbv zeta. cbn [fst snd st flat_map].
    inversion Hnd as [|? ? Hnot Hnd']; subst.
    destruct (handle_disconnect_chunk c eio reason s n Hna (Hne n (or_introl eq_refl)) Hm) as (Hc1 & Hm1 & Hf1 & Hp1 & Hsf1).
    set (s1 := st (handle_disconnect c eio (Some n) reason s)) in *.
    match goal with |- context [forM_keep l _ ?ff s1] => set (first' := ff) end.
    assert (Hag1 : forall n', In n' l -> agree (mg s1) (mg s0) n').
    { intros n' Hin. assert (n <> n') by (intro; subst; contradiction).
      destruct (Hf1 n' H) as [A B]. destruct (Hag n' (or_intror Hin)) as [A' B'].
      split; [etransitivity; [exact A|exact A']|etransitivity; [exact B|exact B']]. }
    destruct (IH s1 first' Hnd' (fun n' H => Hne n' (or_intror H)) Hm1 Hag1) as (Hc2 & Hm2 & Hf2 & Hp2 & Hrest).
    fold (st (forM_keep l (fun n0 => handle_disconnect c eio (Some n0) reason) first' s1)) in *.
    set (s2 := st (forM_keep l (fun n0 => handle_disconnect c eio (Some n0) reason) first' s1)) in *.
    split; [rewrite <- (disc_chunk_agree c s s0 eio reason n (Hag n (or_introl eq_refl))); exact (f_equal2 (@app eff) Hc1 Hc2)|].
    split; [exact Hm2|]. split; [|split].
    + intros n' Hn'. assert (Hn1 : n <> n') by (intro; apply Hn'; left; assumption).
      assert (Hn2 : ~ In n' l) by (intro; apply Hn'; right; assumption).
      destruct (Hf2 n' Hn2) as [A B]. destruct (Hf1 n' Hn1) as [A' B'].
      split; [etransitivity; [exact A|exact A']|etransitivity; [exact B|exact B']].
    + intros n' sid [Heq|Hin] Hs Hcn.
      * subst n'. destruct (agree_lookups _ _ _ (Hag n (or_introl eq_refl))) as (L1 & L2 & _).
        rewrite <- L1 in Hs. rewrite <- L2 in Hcn. destruct (Hp1 sid Hs Hcn) as [E1 E2].
        destruct (agree_lookups _ _ _ (Hf2 n Hnot)) as (_ & L2' & L3'). rewrite L2', L3'. split; assumption.
      * apply (Hp2 n' sid Hin Hs Hcn).
    + eapply same_fields_trans; [exact Hrest|exact Hsf1].
Qed.

Lemma forM_keep_ok {A} (f : A -> SM unit) l : forall first s, exists o, snd (forM_keep l f first s) = Ok o.
Proof.
  induction l as [|x l IH]; intros first s; [eexists; reflexivity|].
  rewrite forM_keep_cons. cbv zeta. cbn [snd]. apply IH.
Qed.

Definition drop_eio (s : srv) (eio : str) : srv :=
  mkSrv (mg s) (adel str_eqb (environ s) eio) (adel str_eqb (binpkt s) eio) (sessions s) (live s) (fresh s).

Lemma handle_eio_disconnect_run c eio reason s :
  let R := forM_keep (get_namespaces (mg s)) (fun n : str => handle_disconnect c eio (Some n) reason) None s in
  exists res, handle_eio_disconnect c eio reason s = (drop_eio (st R) eio, snd (fst R), res).
Proof.
  intro R. unfold handle_eio_disconnect. rewrite bindM_getS. unfold bindM at 1. fold R.
  destruct (forM_keep_ok (fun n : str => handle_disconnect c eio (Some n) reason) (get_namespaces (mg s)) None s) as [o Ho].
  fold R in Ho. unfold st. destruct R as [[s1 e1] out]. cbn [fst snd] in *. subst out.
  rewrite bindM_modify. destruct o; cbn [raise ret]; rewrite ?app_nil_r; eexists; reflexivity.
Qed.

Theorem eio_disconnect_effects c eio reason s :
  has_actions c = false -> Inv s ->
  let r := handle_eio_disconnect c eio reason s in
  snd (fst r) = flat_map (disc_chunk c s eio reason) (get_namespaces (mg s)) /\
  MOK (mg (st r)) /\
  (forall n sid, sid_from_eio (mg s) eio n = Some sid -> is_connected (mg s) (Some sid) n = true ->
                 eio_from_sid (mg (st r)) sid n = None /\ is_connected (mg (st r)) (Some sid) n = false) /\
  fresh (st r) = fresh s /\ live (st r) = live s.
Proof.
  intros Hna (Hm & _ & _ & Hnn). cbv zeta.
  destruct (handle_eio_disconnect_run c eio reason s) as [res Hr]. cbv zeta in Hr. rewrite Hr. clear Hr.
  destruct Hm as [Hnd Hok].
  destruct (eio_loop c eio reason s Hna (get_namespaces (mg s)) s None Hnd Hnn (conj Hnd Hok)
                     (fun n _ => conj eq_refl eq_refl)) as (H1 & H2 & H3 & H4 & Hsf).
  destruct Hsf as (H5 & H6 & H7 & H8 & H9).
  cbn [fst snd st drop_eio mg fresh live].
  split; [exact H1|]. split; [exact H2|]. split; [|split; assumption].
  intros n sid Hs Hc. apply (H4 n sid); try assumption.
  unfold sid_from_eio in Hs. rewrite room_of_none in Hs.
  destruct (ns_rooms (mg s) n) eqn:E; [|discriminate]. eapply ns_rooms_key. exact E.
Qed.

(* ------------------------------------------------------------------ *)
(* Examples (non-vacuity) on the reachable state Ex.s0                 *)
(* ------------------------------------------------------------------ *)
Module LcEx.
  Import Ex.
  Open Scope string_scope.
  Definition nope := s2l "/nope".
  Definition cR := cfg0 false (RaisesRefused [PStr (s2l "no"); PInt 7]).
  Definition cRa := cfg0 true (RaisesRefused [PStr (s2l "no"); PInt 7]).
  Definition cF := cfg0 false (Returns (PBool false)).
  Definition sR := fst (run cR srv_init [EioConnect e1 env1]).
  Definition tclose := PStr (s2l "transport close").

  Example s0_Inv : Inv s0 /\ Inv sR.
  Proof. split; apply reachable_Inv. Qed.

  Example error_args_ex :
    error_args [PStr (s2l "no"); PInt 7] = PDict [(k_message, PStr (s2l "no")); (k_data, PInt 7)] /\
    error_args [PInt 1; PInt 2; PInt 3] = PDict [(k_message, PStr (s2l "1")); (k_data, PTuple [PInt 2; PInt 3])].
  Proof. vm_compute. split; reflexivity. Qed.

  (* (i) not served / already connected *)
  Example connect_not_served_ex :
    served c nope = false /\
    handle_connect c e2 (Some nope) PNone s0 =
    (s0, [Out e2 (PStr (s2l "4/nope,""Unable to connect"""))], Ok tt).
  Proof. vm_compute. split; reflexivity. Qed.
  Example connect_duplicate_ex :
    served c slash = true /\ sid_from_eio (mg s0) e1 slash = Some (sid_name 0) /\
    handle_connect c e1 None PNone s0 = (bump s0, [Out e1 (PStr (s2l "4""Unable to connect"""))], Ok tt).
  Proof. vm_compute. repeat split; reflexivity. Qed.

  (* (ii) accepted: no handler at all; class-based handler with a truthy / falsy auth payload *)
  Example connect_accept_no_handler_ex :
    hid_for c ev_connect plain = None /\ sid_from_eio (mg s0) e1 plain = None /\
    handle_connect c e1 (Some plain) PNone s0 =
    (conn_state s0 e1 plain, [Out e1 (PStr (s2l "0/plain,{""sid"":""S4""}"))], Ok tt) /\
    sid_from_eio (mg (conn_state s0 e1 plain)) e1 plain = Some (sid_name 4).
  Proof. vm_compute. repeat split; reflexivity. Qed.
  Example connect_accept_handler_ex :
    responsible c ev_connect chat [] = Some (Some 5, []) /\
    snd (fst (handle_connect c e2 (Some chat) auth s0)) =
      [Call 5 [S 4; env1; auth]; Out e2 (PStr (s2l "0/chat,{""sid"":""S4""}"))] /\
    snd (fst (handle_connect c e2 (Some chat) (PDict []) s0)) =
      [Call 5 [S 4; env1; PNone]; Out e2 (PStr (s2l "0/chat,{""sid"":""S4""}"))] /\
    is_connected (mg (fst (fst (handle_connect c e2 (Some chat) auth s0)))) (Some (sid_name 4)) chat = true.
  Proof. vm_compute. repeat split; reflexivity. Qed.

  (* refused: ConnectionRefusedError("no", 7), without and with always_connect; False *)
  Example connect_refused_ex :
    refusal_of (RaisesRefused [PStr (s2l "no"); PInt 7]) = Some (error_args [PStr (s2l "no"); PInt 7]) /\
    handle_connect cR e1 None PNone sR =
      (bump sR, [Call 1 [S 0; env1]; Out e1 (PStr (s2l "4{""message"":""no"",""data"":7}"))], Ok tt) /\
    handle_connect cRa e1 None PNone sR =
      (bump sR, [Out e1 (PStr (s2l "0{""sid"":""S0""}")); Call 1 [S 0; env1];
                 Out e1 (PStr (s2l "1{""message"":""no"",""data"":7}"))], Ok tt) /\
    handle_connect cF e1 None PNone sR =
      (bump sR, [Call 1 [S 0; env1]; Out e1 (PStr (s2l "4{""message"":""Connection rejected by server""}"))], Ok tt).
  Proof. vm_compute. repeat split; reflexivity. Qed.

  (* disconnect: packet, API (legacy one-argument handler of the class-based namespace), transport loss *)
  Example disconnect_once_ex :
    is_connected (mg s0) (Some (sid_name 0)) slash = true /\
    snd (fst (handle_disconnect c e1 None r_client_disconnect s0)) = [Call 2 [S 0; r_client_disconnect]] /\
    is_connected (mg (fst (fst (handle_disconnect c e1 None r_client_disconnect s0)))) (Some (sid_name 0)) slash = false /\
    sid_from_eio (mg (fst (fst (handle_disconnect c e1 None r_client_disconnect s0)))) e1 chat = Some (sid_name 2) /\
    snd (fst (api_disconnect c (sid_name 2) (Some chat) s0)) = [Out e1 (PStr (s2l "1/chat,")); Call 6 [S 2]] /\
    snd (fst (handle_eio_disconnect c e1 tclose s0)) = [Call 2 [S 0; tclose]; Call 6 [S 2]] /\
    all_sids (mg (fst (fst (handle_eio_disconnect c e1 tclose s0)))) =
      [(slash, sid_name 1, e2); (plain, sid_name 3, e2)].
  Proof. vm_compute. repeat split; reflexivity. Qed.
  Example no_second_call_ex :
    let s1 := fst (fst (handle_disconnect c e1 None r_client_disconnect s0)) in
    handle_disconnect c e1 None r_client_disconnect s1 = (s1, [], Ok tt) /\
    api_disconnect c (sid_name 0) None s1 = (s1, [], Ok tt) /\
    snd (fst (handle_eio_disconnect c e1 tclose s1)) = [Call 6 [S 2]].
  Proof. vm_compute. repeat split; reflexivity. Qed.

  Example announced_ex :
    announced c srv_init ops0 = [sid_name 0; sid_name 1; sid_name 2; sid_name 3] /\ fresh s0 = 4.
  Proof. vm_compute. split; reflexivity. Qed.

  (* the msgpack serializer: the CONNECT answer is the packet dictionary *)
  Definition cM := mkCfg (handlers c) (ns_handlers c) (behav c) (namespaces c) false false.
  Example connect_msgpack_ex :
    handle_connect cM e1 (Some plain) PNone s0 =
    (conn_state s0 e1 plain,
     [Out e1 (PDict [(PStr (s2l "type"), PInt 0); (PStr (s2l "data"), sid_dict (sid_name 4));
                     (PStr (s2l "nsp"), PStr plain)])], Ok tt).
  Proof. vm_compute. reflexivity. Qed.
End LcEx.

(* ------------------------------------------------------------------ *)
(* executable form: the model's own run passes the connect part of the *)
(* C04 checker                                                         *)
(* ------------------------------------------------------------------ *)
Lemma unable_frames_ok c ns : exists f, unable_frames c ns = Ok [f].
Proof.
  unfold unable_frames, frames_of, ctor, unable, encode_pieces.
  replace (uses_binary c && _) with false by (destruct (uses_binary c); reflexivity).
  destruct (uses_binary c); cbn; eexists; reflexivity.
Qed.
Lemma default_refusal_frames_ok c t ns :
  t = CONNECT_ERROR \/ t = DISCONNECT -> exists f, frames_of c t (error_args []) ns None = Ok [f].
Proof.
  intros [->| ->]; unfold frames_of, ctor, encode_pieces;
    (replace (uses_binary c && _) with false by (destruct (uses_binary c); reflexivity));
    destruct (uses_binary c); cbn; eexists; reflexivity.
Qed.
Lemma frames_eqb_refl fr : frames_eqb fr (Ok fr) = true.
Proof. apply (list_eqb_eq pv_eqb pv_eqb_eq). reflexivity. Qed.

Lemma sp_effs_live s eio fr : is_live s eio = true -> sp_effs s eio (Ok fr) = map (Out eio) fr.
Proof. intro H. unfold sp_effs. rewrite H. reflexivity. Qed.
Lemma outs_of_map_out eio fr : outs_of eio (map (Out eio) fr) = fr.
Proof. induction fr as [|p fr IH]; [reflexivity|]. cbn [map outs_of flat_map]. rewrite str_eqb_refl. cbn [app]. f_equal. exact IH. Qed.
Lemma calls_of_map_out eio fr : calls_of (map (Out eio) fr) = [].
Proof. induction fr as [|p fr IH]; [reflexivity|exact IH]. Qed.
Lemma eios_map_out eio fr : forallb (str_eqb eio) (out_eios (map (Out eio) fr)) = true.
Proof. induction fr as [|p fr IH]; [reflexivity|]. cbn [map out_eios flat_map app forallb]. rewrite str_eqb_refl. exact IH. Qed.

Lemma calls_of_cons_call h a l : calls_of (Call h a :: l) = (h, a) :: calls_of l.
Proof. reflexivity. Qed.
Lemma outs_of_cons_call e h a l : outs_of e (Call h a :: l) = outs_of e l.
Proof. reflexivity. Qed.
Lemma out_eios_cons_call h a l : out_eios (Call h a :: l) = out_eios l.
Proof. reflexivity. Qed.
Lemma pvl_refl l : list_eqb pv_eqb l l = true.
Proof. apply (list_eqb_eq pv_eqb pv_eqb_eq). reflexivity. Qed.

(* CONNECT_ERROR and DISCONNECT packets with the same payload are encodable together *)
Lemma refusal_frames_both c why ns fr :
  frames_of c CONNECT_ERROR why ns None = Ok fr -> exists fr', frames_of c DISCONNECT why ns None = Ok fr'.
Proof.
  unfold frames_of, ctor, encode_pieces. destruct (uses_binary c && has_bytes why); [discriminate|].
  cbn [bind]. destruct (uses_binary c); [|intros _; eexists; reflexivity].
  unfold encode. cbn [ptype pdata pns pid].
  change ((CONNECT_ERROR =? BINARY_EVENT)%Z || (CONNECT_ERROR =? BINARY_ACK)%Z) with false.
  change ((DISCONNECT =? BINARY_EVENT)%Z || (DISCONNECT =? BINARY_ACK)%Z) with false. cbv iota.
  destruct (match why with PNone => Ok [] | _ => json_dumps why end) as [js|x]; [|discriminate].
  intros _. cbn. eexists. reflexivity.
Qed.

Theorem model_passes_c04_connect c s eio payload tbl pn data env :
  has_actions c = false -> Inv s -> is_live s eio = true ->
  connect_of c s eio payload tbl = Some (pn, data) ->
  aget str_eqb (environ s) eio = Some env ->
  let o := EioMessage eio payload tbl in
  c04_connect c s (fst (step c s o)) eio pn data (snd (step c s o)) = true.
Proof.
  intros Hna HI Hl Hco Henv o. subst o.
  rewrite (step_connect c s eio payload tbl pn data Hl Hco). cbn [fst snd].
  unfold c04_connect. set (ns := ns_or_default pn) in *.
  change (frames_of c CONNECT_ERROR (PStr (s2l "Unable to connect")) ns None) with (unable_frames c ns).
  destruct (unable_frames_ok c ns) as [fu Hfu].
  destruct (accept_frames_ok c ns (new_sid s)) as [fa Hfa].
  destruct (served c ns) eqn:Hsv; cbn [negb orb].
  2:{ (* not served *)
      rewrite (connect_not_served c eio pn data s Hsv). fold ns. cbn [fst snd st].
      change (frames_of c CONNECT_ERROR unable ns None) with (unable_frames c ns).
      rewrite Hfu, (sp_effs_live _ _ _ Hl).
      unfold no_calls. rewrite calls_of_map_out, outs_of_map_out, eios_map_out, frames_eqb_refl. reflexivity. }
  destruct (sid_from_eio (mg s) eio ns) as [s'|] eqn:Hs.
  { (* already connected *)
    rewrite (connect_duplicate c eio pn data s HI Hsv) by (fold ns; rewrite Hs; discriminate).
    fold ns. cbn [fst snd st]. rewrite Hfu, (sp_effs_live _ _ _ Hl).
    unfold no_calls. rewrite calls_of_map_out, outs_of_map_out, eios_map_out, frames_eqb_refl. reflexivity. }
  (* the manager accepts *)
  rewrite Henv. fold (new_sid s). set (sid := new_sid s) in *.
  destruct (conn_state_facts eio pn s HI Hs) as (_ & Hm1 & _ & He1 & _).
  fold ns sid in He1.
  fold (accept_frames c ns sid). rewrite Hfa.
  destruct (hid_for c ev_connect ns) as [h|] eqn:Hh.
  2:{ rewrite (connect_accept_no_handler c eio pn data s env Hna HI Hsv Hs Henv Hh). fold ns sid.
      cbn [fst snd st]. rewrite Hfa, (sp_effs_live _ _ _ Hl).
      unfold no_calls. rewrite calls_of_map_out, outs_of_map_out, frames_eqb_refl.
      rewrite (is_member_true _ _ _ _ He1). reflexivity. }
  destruct (aget N.eqb (behav c) h) as [b|] eqn:Hb; [|reflexivity].
  assert (Hresp : exists pre, responsible c ev_connect ns [] = Some (Some h, pre)).
  { unfold hid_for in Hh. destruct (responsible c ev_connect ns []) as [[[h'|] pre]|]; try discriminate.
    inversion Hh; subst. eauto. }
  destruct Hresp as [pre Hresp].
  assert (Hfull : forall l, match responsible c ev_connect ns l with Some (_, a) => a | None => l end = pre ++ l).
  { intro l. rewrite responsible_prefix, Hresp. reflexivity. }
  rewrite !Hfull.
  assert (Hfits : forall l : list pv, match h_arity b with Some k => Nat.eqb k (List.length l) | None => true end = negb (arity_bad b (List.length l))).
  { intro l. unfold arity_bad. destruct (h_arity b); [rewrite negb_involutive|]; reflexivity. }
  rewrite !Hfits.
  assert (Hargs : (if truthy data then pre ++ [PStr sid; env] ++ [data]
                   else if negb (arity_bad b (List.length (pre ++ [PStr sid; env]))) then pre ++ [PStr sid; env]
                        else pre ++ [PStr sid; env] ++ [PNone]) = connect_args sid env data b pre).
  { unfold connect_args. destruct (truthy data); [reflexivity|]. destruct (arity_bad b _); reflexivity. }
  rewrite Hargs. set (args := connect_args sid env data b pre) in *.
  destruct (arity_bad b (List.length args)) eqn:Hfit; [reflexivity|]. cbn [negb].
  set (run := handle_connect c eio pn data s).
  assert (Hrefused : forall why, refusal_of (h_outcome b) = Some why ->
    match calls_of (snd (fst run)) with
    | [(h', a)] => N.eqb h h' && list_eqb pv_eqb a args
    | _ => false end &&
    forallb (str_eqb eio) (out_eios (snd (fst run))) &&
    ((if match frames_of c CONNECT_ERROR why ns None with Err _ => true | Ok _ => false end then true
      else if always_connect c
           then frames_eqb (outs_of eio (snd (fst run))) (app_res (Ok [fa]) (frames_of c DISCONNECT why ns None))
           else frames_eqb (outs_of eio (snd (fst run))) (frames_of c CONNECT_ERROR why ns None)) &&
     negb (is_member (mg (st run)) sid)) = true).
  { intros why Hw.
    destruct (connect_refused_state c eio pn data s env Hna HI Hsv Hs Henv h pre b Hresp Hb Hfit why
                (st run) (snd (fst run)) (snd run) Hw) as (_ & Hmem & _).
    { unfold st, run. symmetry. apply triple_eta. }
    fold sid in Hmem. rewrite Hmem. cbn [negb]. rewrite andb_true_r.
    unfold run. rewrite (connect_refused c eio pn data s env Hna HI Hsv Hs Henv h pre b Hresp Hb Hfit why Hw).
    fold ns sid args. rewrite Hfa.
    destruct (always_connect c); cbn [fst snd].
    - rewrite (sp_effs_live _ _ _ Hl), calls_of_app, calls_of_map_out, out_eios_app, outs_of_app, outs_of_map_out.
      cbn [app]. rewrite calls_of_cons_call, sp_effs_calls, outs_of_cons_call, out_eios_cons_call.
      rewrite N.eqb_refl, pvl_refl. cbn [andb].
      rewrite forallb_app, eios_map_out, sp_effs_eios. cbn [andb].
      destruct (frames_of c CONNECT_ERROR why ns None) as [fr|x] eqn:Hce; [|reflexivity].
      destruct (refusal_frames_both c why ns fr Hce) as [fr' Hd]. rewrite Hd.
      rewrite sp_effs_outs, Hl. cbn [app_res bind]. apply frames_eqb_refl.
    - rewrite calls_of_cons_call, sp_effs_calls, outs_of_cons_call, out_eios_cons_call.
      rewrite N.eqb_refl, pvl_refl, sp_effs_eios. cbn [andb].
      destruct (frames_of c CONNECT_ERROR why ns None) as [fr|x] eqn:Hce; [|reflexivity].
      rewrite sp_effs_outs, Hl. apply frames_eqb_refl. }
  destruct (h_outcome b) as [v|ra|x] eqn:Ho; [| |reflexivity].
  - destruct (pv_eqb v (PBool false)) eqn:Ev.
    + apply Hrefused. cbn [refusal_of]. rewrite Ev. reflexivity.
    + assert (Hv : v <> PBool false) by (intro; subst; rewrite pv_eqb_refl in Ev; discriminate).
      unfold run. rewrite (connect_accept_handler c eio pn data s env Hna HI Hsv Hs Henv h pre b Hresp Hb Hfit v Ho Hv).
      fold ns sid args. cbn [fst snd st]. rewrite Hfa, (sp_effs_live _ _ _ Hl).
      rewrite (is_member_true _ _ _ _ He1), andb_true_r.
      destruct (always_connect c).
      * rewrite calls_of_app, calls_of_map_out, out_eios_app, outs_of_app, outs_of_map_out. cbn [app].
        rewrite calls_of_cons_call, outs_of_cons_call. cbn [calls_of outs_of flat_map].
        rewrite N.eqb_refl, pvl_refl, forallb_app, eios_map_out. cbn [andb forallb out_eios flat_map app]. apply frames_eqb_refl.
      * rewrite calls_of_cons_call, calls_of_map_out, outs_of_cons_call, out_eios_cons_call, outs_of_map_out, eios_map_out.
        rewrite N.eqb_refl, pvl_refl. cbn [andb]. apply frames_eqb_refl.
  - apply Hrefused. reflexivity.
Qed.

(* the chunk of a transport-loss effect list that belongs to one namespace *)
Lemma disc_chunk_returns c s eio reason ns sid h pre b v :
  sid_from_eio (mg s) eio ns = Some sid -> is_connected (mg s) (Some sid) ns = true ->
  responsible c ev_disconnect ns [] = Some (Some h, pre) -> aget N.eqb (behav c) h = Some b ->
  h_outcome b = Returns v ->
  arity_bad b (List.length (disc_args sid (reason_or_client reason) b pre)) = false ->
  disc_chunk c s eio reason ns = [Call h (disc_args sid (reason_or_client reason) b pre)].
Proof.
  intros Hs Hc Hr Hb Ho Har. unfold disc_chunk. rewrite Hs, Hc.
  rewrite (te_disconnect_returns c ns sid _ h pre b v Hr Hb Har Ho). reflexivity.
Qed.
Lemma disc_chunk_not_connected c s eio reason ns :
  is_connected (mg s) (sid_from_eio (mg s) eio ns) ns = false -> disc_chunk c s eio reason ns = [].
Proof. unfold disc_chunk. destruct (sid_from_eio (mg s) eio ns); [intros ->|]; reflexivity. Qed.

Corollary other_namespaces_unaffected s sid ns ns' e :
  MOK (mg s) -> ns <> ns' ->
  sid_from_eio (mg (disc_state s sid ns)) e ns' = sid_from_eio (mg s) e ns' /\
  ns_rooms (mg (disc_state s sid ns)) ns' = ns_rooms (mg s) ns'.
Proof.
  intros Hm Hne. destruct (disc_state_facts s sid ns Hm) as (_ & _ & _ & _ & H1 & H2 & _).
  split; [apply H2; exact Hne|apply H1; exact Hne].
Qed.

(* the full per-step checker c04_step is NOT passed by every configuration: when one handler
   id serves both the disconnect event and an ordinary event of a namespace, its invocation
   for the ordinary event is counted as a disconnect-handler run of a client that stays
   connected.  (The harness allocates distinct ids; this is a domain condition of the checker.) *)
Module Refute.
  Import Ex.
  Open Scope string_scope.
  Definition cShared : cfg :=
    mkCfg [(slash, [(s2l "connect", 1%N); (s2l "disconnect", 2%N); (s2l "msg", 2%N)])] []
          [(1%N, mkBehav (Some 2%nat) [] (Returns PNone)); (2%N, mkBehav None [] (Returns PNone))]
          (Some [slash]) false true.
  Definition sS := fst (run cShared srv_init [EioConnect e1 env1; EioMessage e1 (PStr (s2l "0")) []]).
  Definition mS := EioMessage e1 (PStr (s2l "2[""msg"",1]"))
                              [(s2l "[""msg"",1]", Ok (PList [PStr (s2l "msg"); PInt 1]))].
End Refute.
Theorem c04_step_shared_handler_refuted :
  exists c s o, Inv s /\ has_actions c = false /\ c04_step c s o (snd (step c s o)) = false.
Proof.
  exists Refute.cShared, Refute.sS, Refute.mS. split; [apply reachable_Inv|]. vm_compute. split; reflexivity.
Qed.

(* ------------------------------------------------------------------ *)
(* the ns_members of a namespace (its "everybody" room) through a refusal *)
(* ------------------------------------------------------------------ *)
Definition ns_members (m : mgr) (ns : str) : bidict :=
  match room_of m ns PNone with Some b => b | None => [] end.

Lemma members_keys m ns : MOK m -> NoDup (map fst (ns_members m ns)).
Proof.
  intro Hm. unfold ns_members. rewrite room_of_none. destruct (ns_rooms m ns) as [rm|] eqn:Hns; [|constructor].
  destruct (none_bd rm) as [b|] eqn:Hb; [|constructor].
  destruct (MOK_ns _ _ _ Hm Hns) as [_ Hk]. exact (proj1 (Hk _ Hb)).
Qed.

Lemma adel_idem (b : bidict) sid : NoDup (map fst b) -> adel str_eqb (adel str_eqb b sid) sid = adel str_eqb b sid.
Proof.
  intro H. apply adel_notin. apply saget_none. apply saget_adel_same. exact H.
Qed.

Lemma rm_leave_none_exact rm sid rm' :
  rm_ok1 rm -> rm_leave rm sid PNone = Some rm' ->
  exists b, none_bd rm = Some b /\
            none_bd rm' = match adel str_eqb b sid with [] => None | x :: r => Some (x :: r) end.
Proof.
  intros [Hno _] H. unfold rm_leave in H. change (aget room_eqb rm PNone) with (none_bd rm) in H.
  destruct (none_bd rm) as [b|] eqn:Hb; [|discriminate]. exists b. split; [reflexivity|].
  destruct (bd_get b sid); [|discriminate]. inversion H; subst; clear H.
  destruct (adel str_eqb b sid) as [|x r]; [apply none_bd_adel_none; exact Hno|apply none_bd_aset_none].
Qed.

Lemma leave_room_members m sid ns room :
  MOK m ->
  ns_members (leave_room m sid ns room) ns =
  if pv_eqb room PNone then adel str_eqb (ns_members m ns) sid else ns_members m ns.
Proof.
  intro Hm. destruct (pv_eqb room PNone) eqn:Er.
  - apply pv_eqb_eq in Er. subst room. rewrite leave_room_unfold. unfold ns_members at 2. rewrite room_of_none.
    destruct (ns_rooms m ns) as [rm|] eqn:Hns; [|unfold ns_members; rewrite room_of_none, Hns; reflexivity].
    destruct (rm_leave rm sid PNone) as [rm'|] eqn:Hl.
    + destruct (rm_leave_none_exact _ _ _ (MOK_ns _ _ _ Hm Hns) Hl) as (b & Hb & Hb').
      rewrite Hb. unfold ns_members. rewrite room_of_none, ns_rooms_set_ns_same by exact Hm.
      destruct rm' as [|y rm'].
      * unfold none_bd in Hb'. cbn [aget] in Hb'. destruct (adel str_eqb b sid); [reflexivity|discriminate].
      * rewrite Hb'. destruct (adel str_eqb b sid); reflexivity.
    + unfold ns_members. rewrite room_of_none, Hns. unfold rm_leave in Hl.
      change (aget room_eqb rm PNone) with (none_bd rm) in Hl.
      destruct (none_bd rm) as [b|]; [|reflexivity].
      destruct (bd_get b sid) eqn:Hg; [discriminate|]. symmetry. apply adel_notin. apply saget_none. exact Hg.
  - assert (Hne : room <> PNone) by (intro; subst; rewrite pv_eqb_refl in Er; discriminate).
    destruct (leave_room_spec m sid ns room Hm) as (_ & _ & _ & _ & Ho & _). unfold ns_members. rewrite (Ho Hne). reflexivity.
Qed.

Lemma fold_leave_members sid ns names : forall m,
  MOK m ->
  ns_members (fold_left (fun m r => leave_room m sid ns r) names m) ns =
  if existsb (fun r => pv_eqb r PNone) names then adel str_eqb (ns_members m ns) sid else ns_members m ns.
Proof.
  induction names as [|r names IH]; intros m Hm; cbn [fold_left existsb]; [reflexivity|].
  destruct (leave_room_spec m sid ns r Hm) as (Hm1 & _).
  rewrite (IH _ Hm1), (leave_room_members m sid ns r Hm).
  destruct (pv_eqb r PNone); cbn [orb]; [|reflexivity].
  destruct (existsb _ names); [apply adel_idem; apply members_keys; exact Hm|reflexivity].
Qed.

Lemma mgr_disconnect_members m sid ns :
  MOK m -> ns_members (mgr_disconnect m sid ns) ns = adel str_eqb (ns_members m ns) sid.
Proof.
  intro Hm. unfold mgr_disconnect. destruct (ns_rooms m ns) as [rm|] eqn:Hns.
  2:{ unfold ns_members. rewrite !room_of_none. unfold ns_rooms. rewrite disc_release_rooms'.
      fold (ns_rooms m ns). rewrite Hns. reflexivity. }
  fold (disc_names rm sid).
  assert (Hfold := fold_leave_members sid ns (disc_names rm sid) m Hm).
  set (m1 := fold_left _ (disc_names rm sid) m) in *.
  assert (Hmem : forall m', rooms m' = rooms m1 -> ns_members m' ns = ns_members m1 ns).
  { intros m' Hr. unfold ns_members, room_of, ns_rooms. rewrite Hr. reflexivity. }
  assert (Hres : ns_members m1 ns = adel str_eqb (ns_members m ns) sid).
  { rewrite Hfold. destruct (existsb (fun r => pv_eqb r PNone) (disc_names rm sid)) eqn:E; [reflexivity|].
    symmetry. apply adel_notin. apply saget_none.
    unfold ns_members. rewrite room_of_none, Hns. destruct (none_bd rm) as [b|] eqn:Hb; [|reflexivity].
    destruct (bd_get b sid) as [e|] eqn:Hg; [|exact Hg]. exfalso.
    pose proof (disc_names_none rm sid b e Hb Hg) as Hin.
    assert (existsb (fun r => pv_eqb r PNone) (disc_names rm sid) = true).
    { apply existsb_exists. exists PNone. split; [exact Hin|reflexivity]. }
    congruence. }
  unfold disc_release. destruct (is_pending _ sid ns); rewrite Hmem by reflexivity; exact Hres.
Qed.

(* a refused connection leaves every namespace with exactly the ns_members it had *)
Theorem connect_refused_members c eio pn data s env :
  has_actions c = false -> Inv s -> served c (ns_or_default pn) = true ->
  sid_from_eio (mg s) eio (ns_or_default pn) = None -> aget str_eqb (environ s) eio = Some env ->
  forall h pre b,
  responsible c ev_connect (ns_or_default pn) [] = Some (Some h, pre) -> aget N.eqb (behav c) h = Some b ->
  arity_bad b (List.length (connect_args (new_sid s) env data b pre)) = false ->
  forall why, refusal_of (h_outcome b) = Some why ->
  forall ns', ns_members (mg (st (handle_connect c eio pn data s))) ns' = ns_members (mg s) ns'.
Proof.
  intros Hna HI Hsv Hs Henv h pre b Hresp Hb Hfit why Hw ns'.
  set (ns := ns_or_default pn) in *.
  destruct (str_eqb ns ns') eqn:E.
  2:{ assert (Hne : ns <> ns') by (intro; subst; rewrite str_eqb_refl in E; discriminate).
      destruct (connect_refused_state c eio pn data s env Hna HI Hsv Hs Henv h pre b Hresp Hb Hfit why
                  (st (handle_connect c eio pn data s)) (snd (fst (handle_connect c eio pn data s)))
                  (snd (handle_connect c eio pn data s)) Hw) as (_ & _ & _ & _ & _ & Hf & _).
      { unfold st. symmetry. apply triple_eta. }
      unfold ns_members, room_of. fold ns in Hf. rewrite (Hf _ Hne). reflexivity. }
  apply str_eqb_eq in E. subst ns'.
  rewrite (connect_refused c eio pn data s env Hna HI Hsv Hs Henv h pre b Hresp Hb Hfit why Hw). fold ns.
  set (sid := new_sid s). set (s1 := conn_state s eio ns).
  destruct (conn_state_facts eio pn s HI Hs) as (_ & Hm1 & _ & _ & _).
  fold ns s1 in Hm1.
  assert (H1 : ns_members (mg s1) ns = aset str_eqb (ns_members (mg s) ns) sid eio).
  { destruct (mgr_connect_new (mg s) eio ns sid Hs) as (_ & Hroom & _).
    unfold ns_members at 1. unfold s1, conn_state. cbn [mg upd_mg]. fold sid. rewrite Hroom.
    unfold ns_members, pm_b, pm_rm. rewrite room_of_none. destruct (ns_rooms (mg s) ns); reflexivity. }
  assert (H2 : adel str_eqb (aset str_eqb (ns_members (mg s) ns) sid eio) sid = ns_members (mg s) ns).
  { apply adel_aset_new; [|apply str_eqb_refl].
    pose proof (fresh_no_eio s HI ns) as H0. unfold eio_from_sid in H0. unfold ns_members.
    destruct (room_of (mg s) ns PNone); [exact H0|reflexivity]. }
  destruct (always_connect c); cbn [st fst mg upd_mg].
  - rewrite mgr_disconnect_members by (apply MOK_pre_disconnect; exact Hm1).
    assert (Hpre : ns_members (fst (pre_disconnect (mg s1) sid ns)) ns = ns_members (mg s1) ns).
    { unfold ns_members, room_of, ns_rooms. rewrite pre_disconnect_rooms. reflexivity. }
    rewrite Hpre, H1. exact H2.
  - rewrite mgr_disconnect_members by exact Hm1. rewrite H1. exact H2.
Qed.

(* ------------------------------------------------------------------ *)
(* after a terminating operation, every further one is a no-op         *)
(* ------------------------------------------------------------------ *)
Lemma nodup_snd_inj {A B} (l : list (A * B)) a a' v :
  NoDup (map snd l) -> In (a, v) l -> In (a', v) l -> a = a'.
Proof.
  induction l as [|[k w] l IH]; cbn [map snd]; intros Hnd H1 H2; [destruct H1|].
  inversion Hnd as [|? ? Hnot Hnd']; subst.
  destruct H1 as [H1|H1], H2 as [H2|H2].
  - congruence.
  - inversion H1; subst. exfalso. apply Hnot. apply (in_map snd) in H2. exact H2.
  - inversion H2; subst. exfalso. apply Hnot. apply (in_map snd) in H1. exact H1.
  - eapply IH; eassumption.
Qed.
Lemma bd_inv_adel_unique b sid eio : bd_ok b -> bd_inv b eio = Some sid -> bd_inv (adel str_eqb b sid) eio = None.
Proof.
  intros [Hk Hv] Hi. destruct (bd_inv (adel str_eqb b sid) eio) as [x|] eqn:E; [|reflexivity]. exfalso.
  apply bd_inv_in in E. pose proof (in_adel _ _ _ _ E) as E'. apply bd_inv_in in Hi.
  assert (x = sid) by (eapply nodup_snd_inj; eassumption). subst x.
  pose proof (saget_adel_same b sid Hk) as Hn. apply saget_none in Hn. apply Hn.
  apply (in_map fst) in E. exact E.
Qed.
Lemma sid_from_eio_members m eio ns : sid_from_eio m eio ns = bd_inv (ns_members m ns) eio.
Proof. unfold sid_from_eio, ns_members. destruct (room_of m ns PNone); reflexivity. Qed.
Lemma members_ok m ns : MOK m -> bd_ok (ns_members m ns).
Proof.
  intro Hm. unfold ns_members. rewrite room_of_none. destruct (ns_rooms m ns) as [rm|] eqn:Hns; [|apply bd_ok_nil].
  destruct (none_bd rm) as [b|] eqn:Hb; [|apply bd_ok_nil].
  destruct (MOK_ns _ _ _ Hm Hns) as [_ Hk]. exact (Hk _ Hb).
Qed.

Theorem disconnect_then_noop c s sid eio pn :
  MOK (mg s) -> sid_from_eio (mg s) eio (ns_or_default pn) = Some sid ->
  let s' := disc_state s sid (ns_or_default pn) in
  sid_from_eio (mg s') eio (ns_or_default pn) = None /\
  (forall reason, handle_disconnect c eio pn reason s' = (s', [], Ok tt)) /\
  api_disconnect c sid pn s' = (s', [], Ok tt) /\
  (forall reason, disc_chunk c s' eio reason (ns_or_default pn) = []).
Proof.
  intros Hm Hs s'. set (ns := ns_or_default pn) in *.
  assert (Hnone : sid_from_eio (mg s') eio ns = None).
  { rewrite sid_from_eio_members. unfold s', disc_state. cbn [mg upd_mg].
    rewrite mgr_disconnect_members by (apply MOK_pre_disconnect; exact Hm).
    assert (Hpre : ns_members (fst (pre_disconnect (mg s) sid ns)) ns = ns_members (mg s) ns).
    { unfold ns_members, room_of, ns_rooms. rewrite pre_disconnect_rooms. reflexivity. }
    rewrite Hpre. apply bd_inv_adel_unique; [apply members_ok; exact Hm|].
    rewrite <- sid_from_eio_members. exact Hs. }
  destruct (disc_state_facts s sid ns Hm) as (_ & Hc & _).
  split; [exact Hnone|]. split; [|split].
  - intro reason. apply handle_disconnect_noop. fold ns. rewrite Hnone. reflexivity.
  - apply api_disconnect_noop. exact Hc.
  - intro reason. apply disc_chunk_not_connected. rewrite Hnone. reflexivity.
Qed.
