(* Generic evaluation lemmas for the state/effect/exception monad and for the
   server primitives send_packet / call_handler / trigger_event.
   "Pure forms": with handlers that perform no scripted actions (has_actions c = false)
   a handler invocation does not touch the state, so trigger_event is a pure function
   te_pure of its arguments; every later proof rewrites with these equations. *)
From VT Require Export Check.SrvSpecs.
From Coq Require Import Lia.
Open Scope N_scope.

(* ------------------------------------------------------------------ *)
(* monad                                                              *)
(* ------------------------------------------------------------------ *)
Section MonadLemmas.
  Context {S E : Type}.
  Notation MM := (M S E).

  Lemma bindM_ret {A B} (a : A) (k : A -> MM B) s : bindM (ret a) k s = k a s.
  Proof. unfold bindM, ret. destruct (k a s) as [[s2 e2] r]. reflexivity. Qed.
  Lemma bindM_raise {A B} x (k : A -> MM B) s : bindM (raise x) k s = (s, [], Err x).
  Proof. reflexivity. Qed.
  Lemma bindM_lift_ok {A B} (a : A) (k : A -> MM B) s : bindM (lift (Ok a)) k s = k a s.
  Proof. unfold bindM, lift. destruct (k a s) as [[s2 e2] r]. reflexivity. Qed.
  Lemma bindM_lift_err {A B} x (k : A -> MM B) s : bindM (lift (@Err A x)) k s = (s, [], Err x).
  Proof. reflexivity. Qed.
  Lemma bindM_getS {B} (k : S -> MM B) s : bindM getS k s = k s s.
  Proof. unfold bindM, getS. destruct (k s s) as [[s2 e2] r]. reflexivity. Qed.
  Lemma bindM_putS {B} s' (k : unit -> MM B) s : bindM (putS s') k s = k tt s'.
  Proof. unfold bindM, putS. destruct (k tt s') as [[s2 e2] r]. reflexivity. Qed.
  Lemma bindM_modify {B} f (k : unit -> MM B) s : bindM (modify f) k s = k tt (f s).
  Proof. unfold bindM, modify. destruct (k tt (f s)) as [[s2 e2] r]. reflexivity. Qed.
  Lemma bindM_tell {B} e (k : unit -> MM B) s :
    bindM (tell e) k s = (fst (fst (k tt s)), e :: snd (fst (k tt s)), snd (k tt s)).
  Proof. unfold bindM, tell. destruct (k tt s) as [[s2 e2] r]. reflexivity. Qed.

  (* sequential composition from the two runs *)
  Lemma bindM_ok {A B} (m : MM A) (k : A -> MM B) s s1 e1 a :
    m s = (s1, e1, Ok a) ->
    bindM m k s = (fst (fst (k a s1)), e1 ++ snd (fst (k a s1)), snd (k a s1)).
  Proof. intro H. unfold bindM. rewrite H. destruct (k a s1) as [[s2 e2] r]. reflexivity. Qed.
  Lemma bindM_err {A B} (m : MM A) (k : A -> MM B) s s1 e1 x :
    m s = (s1, e1, Err x) -> bindM m k s = (s1, e1, Err x).
  Proof. intro H. unfold bindM. rewrite H. reflexivity. Qed.

  Lemma triple_eta {A} (x : S * list E * Res A) : (fst (fst x), snd (fst x), snd x) = x.
  Proof. destruct x as [[a b] c]. reflexivity. Qed.

  Lemma catch_ok {A} (m : MM A) h s s1 e1 a : m s = (s1, e1, Ok a) -> catch m h s = (s1, e1, Ok a).
  Proof. intro H. unfold catch. rewrite H. reflexivity. Qed.
  Lemma catch_err_none {A} (m : MM A) h s s1 e1 x :
    m s = (s1, e1, Err x) -> h x = None -> catch m h s = (s1, e1, Err x).
  Proof. intros H Hh. unfold catch. rewrite H, Hh. reflexivity. Qed.
  Lemma catch_err_some {A} (m : MM A) h s s1 e1 x k :
    m s = (s1, e1, Err x) -> h x = Some k ->
    catch m h s = (fst (fst (k s1)), e1 ++ snd (fst (k s1)), snd (k s1)).
  Proof. intros H Hh. unfold catch. rewrite H, Hh. destruct (k s1) as [[s2 e2] r]. reflexivity. Qed.

  Lemma forM_nil {A} (f : A -> MM unit) s : forM [] f s = (s, [], Ok tt).
  Proof. reflexivity. Qed.
  Lemma forM_tell {A} (g : A -> E) (l : list A) s :
    forM (S:=S) l (fun p => tell (g p)) s = (s, map g l, Ok tt).
  Proof.
    induction l as [|x l IH]; [reflexivity|].
    cbn [forM map]. rewrite bindM_tell, IH. reflexivity.
  Qed.
End MonadLemmas.

(* ------------------------------------------------------------------ *)
(* sending                                                            *)
(* ------------------------------------------------------------------ *)
Definition is_live (s : srv) (eio : str) : bool := existsb (str_eqb eio) (live s).

Lemma send_pieces_eq eio pieces s :
  send_pieces eio pieces s = (s, if is_live s eio then map (Out eio) pieces else [], Ok tt).
Proof.
  unfold send_pieces, is_live. rewrite bindM_getS.
  destruct (existsb (str_eqb eio) (live s)); [apply forM_tell | reflexivity].
Qed.

(* effects / result of sending a packet whose frames are [r] *)
Definition sp_effs (s : srv) (eio : str) (r : Res (list pv)) : list eff :=
  match r with
  | Ok fr => if is_live s eio then map (Out eio) fr else []
  | Err _ => []
  end.
Definition sp_res (r : Res (list pv)) : Res unit :=
  match r with Ok _ => Ok tt | Err e => Err e end.

Lemma send_packet_spec c eio t data ns id s :
  send_packet c (Some eio) t data ns id s =
  (s, sp_effs s eio (frames_of c t data ns id), sp_res (frames_of c t data ns id)).
Proof.
  unfold send_packet, frames_of.
  destruct (ctor (uses_binary c) t data (Some ns) id None) as [p|x]; [|reflexivity].
  rewrite bindM_lift_ok. cbn [bind].
  destruct (encode p) as [enc|x]; [|reflexivity].
  rewrite bindM_lift_ok. cbn [bind sp_effs sp_res]. apply send_pieces_eq.
Qed.

Lemma send_packet_none c t data ns id s :
  send_packet c None t data ns id s = (s, [], sp_res (frames_of c t data ns id)).
Proof.
  unfold send_packet, frames_of.
  destruct (ctor (uses_binary c) t data (Some ns) id None) as [p|x]; [|reflexivity].
  rewrite bindM_lift_ok. cbn [bind].
  destruct (encode p) as [enc|x]; [|reflexivity].
  rewrite bindM_lift_ok. reflexivity.
Qed.

Lemma sp_effs_outs s eio r : outs_of eio (sp_effs s eio r) =
  match r with Ok fr => if is_live s eio then fr else [] | Err _ => [] end.
Proof.
  unfold sp_effs. destruct r as [fr|x]; [|reflexivity].
  destruct (is_live s eio); [|reflexivity].
  induction fr as [|p fr IH]; [reflexivity|].
  cbn [map outs_of flat_map]. rewrite str_eqb_refl. cbn [app]. f_equal. exact IH.
Qed.
Lemma sp_effs_eios s eio r : forallb (str_eqb eio) (out_eios (sp_effs s eio r)) = true.
Proof.
  unfold sp_effs. destruct r as [fr|x]; [|reflexivity].
  destruct (is_live s eio); [|reflexivity].
  induction fr as [|p fr IH]; [reflexivity|].
  cbn [map out_eios flat_map app forallb]. rewrite str_eqb_refl. exact IH.
Qed.
Lemma sp_effs_calls s eio r : calls_of (sp_effs s eio r) = [].
Proof.
  unfold sp_effs. destruct r as [fr|x]; [|reflexivity].
  destruct (is_live s eio); [|reflexivity].
  induction fr as [|p fr IH]; [reflexivity|]. exact IH.
Qed.

Lemma calls_of_app a b : calls_of (a ++ b) = calls_of a ++ calls_of b.
Proof. unfold calls_of. apply flat_map_app. Qed.
Lemma outs_of_app e a b : outs_of e (a ++ b) = outs_of e a ++ outs_of e b.
Proof. unfold outs_of. apply flat_map_app. Qed.
Lemma out_eios_app a b : out_eios (a ++ b) = out_eios a ++ out_eios b.
Proof. unfold out_eios. apply flat_map_app. Qed.

(* ------------------------------------------------------------------ *)
(* manager access                                                     *)
(* ------------------------------------------------------------------ *)
Definition upd_mg (s : srv) (m : mgr) : srv :=
  mkSrv m (environ s) (binpkt s) (sessions s) (live s) (fresh s).

Lemma with_mg_eq {A} (f : mgr -> mgr * A) s :
  with_mg f s = (upd_mg s (fst (f (mg s))), [], Ok (snd (f (mg s)))).
Proof.
  unfold with_mg. rewrite bindM_getS. destruct (f (mg s)) as [m' a].
  rewrite bindM_putS. reflexivity.
Qed.
Lemma set_mg_eq f s : set_mg f s = (upd_mg s (f (mg s)), [], Ok tt).
Proof. reflexivity. Qed.
Lemma upd_mg_id s : upd_mg s (mg s) = s.
Proof. destruct s; reflexivity. Qed.

(* ------------------------------------------------------------------ *)
(* handlers without scripted actions                                  *)
(* ------------------------------------------------------------------ *)
Lemma no_actions_behav c h b :
  has_actions c = false -> aget N.eqb (behav c) h = Some b -> h_actions b = [].
Proof.
  unfold has_actions. generalize (behav c) as l.
  induction l as [|[k v] l IH]; cbn [aget existsb]; intros Hna Hg; [discriminate|].
  apply orb_false_iff in Hna as [H1 H2]. cbn [snd] in H1.
  destruct (N.eqb k h).
  - inversion Hg; subst. destruct (h_actions b); [reflexivity|discriminate].
  - apply IH; assumption.
Qed.

Definition arity_bad (b : hbehav) (n : nat) : bool :=
  match h_arity b with Some k => negb (Nat.eqb k n) | None => false end.
Definition outcome_res (o : outcome) : Res pv :=
  match o with Returns v => Ok v | RaisesRefused _ => Err ConnectionRefused | Raises e => Err e end.

Definition ch_pure (c : cfg) (hid : N) (args : list pv) : list eff * Res pv :=
  match aget N.eqb (behav c) hid with
  | None => ([], Err OtherError)
  | Some b => if arity_bad b (List.length args) then ([], Err TypeError)
              else ([Call hid args], outcome_res (h_outcome b))
  end.

Lemma call_handler_pure c hid ns sid args s :
  has_actions c = false ->
  call_handler c hid ns sid args s = (s, fst (ch_pure c hid args), snd (ch_pure c hid args)).
Proof.
  intro Hna. unfold call_handler, ch_pure, arity_bad.
  destruct (aget N.eqb (behav c) hid) as [b|] eqn:Hb; [|reflexivity].
  rewrite (no_actions_behav c hid b Hna Hb).
  destruct (match h_arity b with Some n => negb (Nat.eqb n (List.length args)) | None => false end);
    [reflexivity|].
  destruct (h_outcome b); reflexivity.
Qed.

Definition cwr_pure (c : cfg) (ev : pv) (hid : N) (args : list pv) : list eff * Res pv :=
  match ch_pure c hid args with
  | (e1, Err TypeError) =>
      if is_disconnect ev
      then (e1 ++ fst (ch_pure c hid (removelast args)), snd (ch_pure c hid (removelast args)))
      else (e1, Err TypeError)
  | x => x
  end.

Lemma call_with_retry_pure c ev hid ns sid args s :
  has_actions c = false ->
  call_with_retry c ev hid ns sid args s = (s, fst (cwr_pure c ev hid args), snd (cwr_pure c ev hid args)).
Proof.
  intro Hna. unfold call_with_retry, cwr_pure, catch.
  rewrite (call_handler_pure c hid ns sid args s Hna).
  destruct (ch_pure c hid args) as [e1 [v|x]]; [reflexivity|].
  cbn [fst snd].
  destruct x; try reflexivity.
  destruct (is_disconnect ev); [|reflexivity].
  rewrite (call_handler_pure c hid ns sid (removelast args) s Hna). reflexivity.
Qed.

Definition some_res (x : list eff * Res pv) : list eff * Res (option pv) :=
  (fst x, match snd x with Ok v => Ok (Some v) | Err e => Err e end).

Definition te_pure (c : cfg) (ev : pv) (ns : str) (args : list pv) : list eff * Res (option pv) :=
  if is_unhashable ev then ([], Err TypeError) else
  match get_event_handler c ev ns args with
  | Some (h, args') => some_res (cwr_pure c ev h args')
  | None =>
      match get_namespace_handler c ns args with
      | Some (methods, args') =>
          match ev with
          | PStr s => match aget str_eqb methods s with
                      | Some h => some_res (cwr_pure c ev h args')
                      | None => ([], Ok (Some PNone))
                      end
          | _ => if truthy ev then ([], Err TypeError) else ([], Ok (Some PNone))
          end
      | None => ([], Ok None)
      end
  end.

Lemma bind_cwr_some c ev h ns sid args s :
  has_actions c = false ->
  bindM (call_with_retry c ev h ns sid args) (fun v => ret (Some v)) s =
  (s, fst (some_res (cwr_pure c ev h args)), snd (some_res (cwr_pure c ev h args))).
Proof.
  intro Hna. unfold bindM. rewrite (call_with_retry_pure c ev h ns sid args s Hna).
  unfold some_res. destruct (cwr_pure c ev h args) as [e1 [v|x]]; cbn [fst snd ret].
  - rewrite app_nil_r. reflexivity.
  - reflexivity.
Qed.

Lemma trigger_event_pure c ev ns args s :
  has_actions c = false ->
  trigger_event c ev ns args s = (s, fst (te_pure c ev ns args), snd (te_pure c ev ns args)).
Proof.
  intro Hna. unfold trigger_event, te_pure.
  destruct (is_unhashable ev); [reflexivity|].
  destruct (get_event_handler c ev ns args) as [[h args']|].
  - apply bind_cwr_some; assumption.
  - destruct (get_namespace_handler c ns args) as [[methods args']|]; [|reflexivity].
    destruct ev; try reflexivity;
      try (match goal with |- context [truthy ?e] => destruct (truthy e) end; reflexivity).
    destruct (aget str_eqb methods s0) as [h|]; [|reflexivity].
    apply bind_cwr_some; assumption.
Qed.

(* ------------------------------------------------------------------ *)
(* a concrete configuration and reachable state for the Examples      *)
(* ------------------------------------------------------------------ *)
Module Ex.
  Open Scope string_scope.
  Definition e1 := s2l "e1".
  Definition e2 := s2l "e2".
  Definition chat := s2l "/chat".
  Definition plain := s2l "/plain".
  (* "/": function handlers and a catch-all; "/chat": class-based namespace; "/plain": served, no handlers *)
  Definition cfg0 (always : bool) (connect_outcome : outcome) : cfg :=
    mkCfg [(slash, [(s2l "connect", 1%N); (s2l "disconnect", 2%N); (s2l "msg", 3%N); (star, 4%N)])]
          [(chat, [(s2l "connect", 5%N); (s2l "disconnect", 6%N); (s2l "hello", 7%N); (s2l "blob", 8%N)])]
          [(1%N, mkBehav (Some 2%nat) [] connect_outcome);
           (2%N, mkBehav (Some 2%nat) [] (Returns PNone));
           (3%N, mkBehav (Some 2%nat) [] (Returns (PTuple [PInt 1; PBytes [1%N; 2%N]])));
           (4%N, mkBehav None [] (Returns (PStr (s2l "any"))));
           (5%N, mkBehav (Some 3%nat) [] (Returns PNone));
           (6%N, mkBehav (Some 1%nat) [] (Returns PNone));
           (7%N, mkBehav (Some 1%nat) [] (Returns (PList [PInt 7])));
           (8%N, mkBehav (Some 2%nat) [] (Returns PNone))]
          (Some [slash; plain]) always true.
  Definition c := cfg0 false (Returns PNone).
  Definition env1 := PDict [(PStr (s2l "k"), PInt 1)].
  Definition auth := PDict [(PStr (s2l "t"), PInt 1)].
  Definition connect_chat (e : str) :=
    EioMessage e (PStr (s2l "0/chat,{""t"":1}")) [(s2l "{""t"":1}", Ok auth)].
  Definition ops0 : list op :=
    [EioConnect e1 env1; EioConnect e2 env1;
     EioMessage e1 (PStr (s2l "0")) [];
     EioMessage e2 (PStr (s2l "0")) [];
     connect_chat e1;
     EioMessage e2 (PStr (s2l "0/plain,")) []].
  (* e1 is S0 on "/" and S2 on "/chat"; e2 is S1 on "/" and S3 on "/plain" *)
  Definition s0 := fst (run c srv_init ops0).
  Definition S (n : N) := PStr (sid_name n).
End Ex.
