(* Generic evaluation lemmas for the state/effect/exception monad and for the
   server primitives send_packet / call_handler / trigger_event.
   "Pure forms": with handlers that perform no scripted actions (has_actions c = false)
   a handler invocation does not touch the state, so trigger_event is a pure function
   te_pure of its arguments; every later proof rewrites with these equations. *)
From VT Require Export Check.SrvSpecs.
From Coq Require Import Lia.
Open Scope N_scope.

(* ------------------------------------------------------------------ *)
(* monad                                                              *)
(* ------------------------------------------------------------------ *)
Section MonadLemmas.
  Context {S E : Type}.
  Notation MM := (M S E).

  Lemma bindM_ret {A B} (a : A) (k : A -> MM B) s : bindM (ret a) k s = k a s.
  Proof. unfold bindM, ret. destruct (k a s) as [[s2 e2] r]. reflexivity. Qed.
  Lemma bindM_raise {A B} x (k : A -> MM B) s : bindM (raise x) k s = (s, [], Err x).
  Proof. reflexivity. Qed.
  Lemma bindM_lift_ok {A B} (a : A) (k : A -> MM B) s : bindM (lift (Ok a)) k s = k a s.
  Proof. unfold bindM, lift. destruct (k a s) as [[s2 e2] r]. reflexivity. Qed.
  Lemma bindM_lift_err {A B} x (k : A -> MM B) s : bindM (lift (@Err A x)) k s = (s, [], Err x).
  Proof. reflexivity. Qed.
  Lemma bindM_getS {B} (k : S -> MM B) s : bindM getS k s = k s s.
  Proof. unfold bindM, getS. destruct (k s s) as [[s2 e2] r]. reflexivity. Qed.
  Lemma bindM_putS {B} s' (k : unit -> MM B) s : bindM (putS s') k s = k tt s'.
  Proof. unfold bindM, putS. destruct (k tt s') as [[s2 e2] r]. reflexivity. Qed.
  Lemma bindM_modify {B} f (k : unit -> MM B) s : bindM (modify f) k s = k tt (f s).
  Proof. unfold bindM, modify. destruct (k tt (f s)) as [[s2 e2] r]. reflexivity. Qed.
  Lemma bindM_tell {B} e (k : unit -> MM B) s :
    bindM (tell e) k s = (fst (fst (k tt s)), e :: snd (fst (k tt s)), snd (k tt s)).
  Proof. unfold bindM, tell. destruct (k tt s) as [[s2 e2] r]. reflexivity. Qed.

  (* sequential composition from the two runs *)
  Lemma bindM_ok {A B} (m : MM A) (k : A -> MM B) s s1 e1 a :
    m s = (s1, e1, Ok a) ->
    bindM m k s = (fst (fst (k a s1)), e1 ++ snd (fst (k a s1)), snd (k a s1)).
  Proof. intro H. unfold bindM. rewrite H. destruct (k a s1) as [[s2 e2] r]. reflexivity. Qed.
  Lemma bindM_err {A B} (m : MM A) (k : A -> MM B) s s1 e1 x :
    m s = (s1, e1, Err x) -> bindM m k s = (s1, e1, Err x).
  Proof. intro H. unfold bindM. rewrite H. reflexivity. Qed.

  Lemma triple_eta {A} (x : S * list E * Res A) : (fst (fst x), snd (fst x), snd x) = x.
  Proof. destruct x as [[a b] c]. reflexivity. Qed.

  Lemma catch_ok {A} (m : MM A) h s s1 e1 a : m s = (s1, e1, Ok a) -> catch m h s = (s1, e1, Ok a).
  Proof. intro H. unfold catch. rewrite H. reflexivity. Qed.
  Lemma catch_err_none {A} (m : MM A) h s s1 e1 x :
    m s = (s1, e1, Err x) -> h x = None -> catch m h s = (s1, e1, Err x).
  Proof. intros H Hh. unfold catch. rewrite H, Hh. reflexivity. Qed.
  Lemma catch_err_some {A} (m : MM A) h s s1 e1 x k :
    m s = (s1, e1, Err x) -> h x = Some k ->
    catch m h s = (fst (fst (k s1)), e1 ++ snd (fst (k s1)), snd (k s1)).
  Proof. intros H Hh. unfold catch. rewrite H, Hh. destruct (k s1) as [[s2 e2] r]. reflexivity. Qed.

  Lemma forM_nil {A} (f : A -> MM unit) s : forM [] f s = (s, [], Ok tt).
  Proof. reflexivity. Qed.
  Lemma forM_tell {A} (g : A -> E) (l : list A) s :
    forM (S:=S) l (fun p => tell (g p)) s = (s, map g l, Ok tt).
  Proof.
    induction l as [|x l IH]; [reflexivity|].
    cbn [forM map]. rewrite bindM_tell, IH. reflexivity.
  Qed.
End MonadLemmas.

(* ------------------------------------------------------------------ *)
(* sending                                                            *)
(* ------------------------------------------------------------------ *)
Definition is_live (s : srv) (eio : str) : bool := existsb (str_eqb eio) (live s).

Lemma send_pieces_eq eio pieces s :
  send_pieces eio pieces s = (s, if is_live s eio then map (Out eio) pieces else [], Ok tt).
Proof.
  unfold send_pieces, is_live. rewrite bindM_getS.
  destruct (existsb (str_eqb eio) (live s)); [apply forM_tell | reflexivity].
Qed.

(* effects / result of sending a packet whose frames are [r] *)
Definition sp_effs (s : srv) (eio : str) (r : Res (list pv)) : list eff :=
  match r with
  | Ok fr => if is_live s eio then map (Out eio) fr else []
  | Err _ => []
  end.
Definition sp_res (r : Res (list pv)) : Res unit :=
  match r with Ok _ => Ok tt | Err e => Err e end.

Lemma send_packet_spec c eio t data ns id s :
  send_packet c (Some eio) t data ns id s =
  (s, sp_effs s eio (frames_of c t data ns id), sp_res (frames_of c t data ns id)).
Proof.
  unfold send_packet, frames_of.
  destruct (ctor (uses_binary c) t data (Some ns) id None) as [p|x]; [|reflexivity].
  rewrite bindM_lift_ok. cbn [bind].
  destruct (encode_pieces c p) as [pieces|x]; [|reflexivity].
  rewrite bindM_lift_ok. cbn [sp_effs sp_res]. apply send_pieces_eq.
Qed.

Lemma send_packet_none c t data ns id s :
  send_packet c None t data ns id s = (s, [], sp_res (frames_of c t data ns id)).
Proof.
  unfold send_packet, frames_of.
  destruct (ctor (uses_binary c) t data (Some ns) id None) as [p|x]; [|reflexivity].
  rewrite bindM_lift_ok. cbn [bind].
  destruct (encode_pieces c p) as [pieces|x]; [|reflexivity].
  rewrite bindM_lift_ok. reflexivity.
Qed.

Lemma sp_effs_outs s eio r : outs_of eio (sp_effs s eio r) =
  match r with Ok fr => if is_live s eio then fr else [] | Err _ => [] end.
Proof.
  unfold sp_effs. destruct r as [fr|x]; [|reflexivity].
  destruct (is_live s eio); [|reflexivity].
  induction fr as [|p fr IH]; [reflexivity|].
  cbn [map outs_of flat_map]. rewrite str_eqb_refl. cbn [app]. f_equal. exact IH.
Qed.
Lemma sp_effs_eios s eio r : forallb (str_eqb eio) (out_eios (sp_effs s eio r)) = true.
Proof.
  unfold sp_effs. destruct r as [fr|x]; [|reflexivity].
  destruct (is_live s eio); [|reflexivity].
  induction fr as [|p fr IH]; [reflexivity|].
  cbn [map out_eios flat_map app forallb]. rewrite str_eqb_refl. exact IH.
Qed.
Lemma sp_effs_calls s eio r : calls_of (sp_effs s eio r) = [].
Proof.
  unfold sp_effs. destruct r as [fr|x]; [|reflexivity].
  destruct (is_live s eio); [|reflexivity].
  induction fr as [|p fr IH]; [reflexivity|]. exact IH.
Qed.

Lemma calls_of_app a b : calls_of (a ++ b) = calls_of a ++ calls_of b.
Proof. unfold calls_of. apply flat_map_app. Qed.
Lemma outs_of_app e a b : outs_of e (a ++ b) = outs_of e a ++ outs_of e b.
Proof. unfold outs_of. apply flat_map_app. Qed.
Lemma out_eios_app a b : out_eios (a ++ b) = out_eios a ++ out_eios b.
Proof. unfold out_eios. apply flat_map_app. Qed.

(* ------------------------------------------------------------------ *)
(* manager access                                                     *)
(* ------------------------------------------------------------------ *)
Definition upd_mg (s : srv) (m : mgr) : srv :=
  mkSrv m (environ s) (binpkt s) (sessions s) (live s) (fresh s).

Lemma with_mg_eq {A} (f : mgr -> mgr * A) s :
  with_mg f s = (upd_mg s (fst (f (mg s))), [], Ok (snd (f (mg s)))).
Proof.
  unfold with_mg. rewrite bindM_getS. destruct (f (mg s)) as [m' a].
  rewrite bindM_putS. reflexivity.
Qed.
Lemma set_mg_eq f s : set_mg f s = (upd_mg s (f (mg s)), [], Ok tt).
Proof. reflexivity. Qed.
Lemma upd_mg_id s : upd_mg s (mg s) = s.
Proof. destruct s; reflexivity. Qed.

(* ------------------------------------------------------------------ *)
(* handlers without scripted actions                                  *)
(* ------------------------------------------------------------------ *)
Lemma no_actions_behav c h b :
  has_actions c = false -> aget N.eqb (behav c) h = Some b -> h_actions b = [].
Proof.
  unfold has_actions. generalize (behav c) as l.
  induction l as [|[k v] l IH]; cbn [aget existsb]; intros Hna Hg; [discriminate|].
  apply orb_false_iff in Hna as [H1 H2]. cbn [snd] in H1.
  destruct (N.eqb k h).
  - inversion Hg; subst. destruct (h_actions b); [reflexivity|discriminate].
  - apply IH; assumption.
Qed.

Definition arity_bad (b : hbehav) (n : nat) : bool :=
  match h_arity b with Some k => negb (Nat.eqb k n) | None => false end.
Definition outcome_res (o : outcome) : Res pv :=
  match o with Returns v => Ok v | RaisesRefused _ => Err ConnectionRefused | Raises e => Err e end.

Definition ch_pure (c : cfg) (hid : N) (args : list pv) : list eff * Res pv :=
  match aget N.eqb (behav c) hid with
  | None => ([], Err OtherError)
  | Some b => if arity_bad b (List.length args) then ([], Err TypeError)
              else ([Call hid args], outcome_res (h_outcome b))
  end.

Lemma call_handler_pure c hid ns sid args s :
  has_actions c = false ->
  call_handler c hid ns sid args s = (s, fst (ch_pure c hid args), snd (ch_pure c hid args)).
Proof.
  intro Hna. unfold call_handler, ch_pure, arity_bad.
  destruct (aget N.eqb (behav c) hid) as [b|] eqn:Hb; [|reflexivity].
  rewrite (no_actions_behav c hid b Hna Hb).
  destruct (match h_arity b with Some n => negb (Nat.eqb n (List.length args)) | None => false end);
    [reflexivity|].
  destruct (h_outcome b); reflexivity.
Qed.

Definition cwr_pure (c : cfg) (ev : pv) (hid : N) (args : list pv) : list eff * Res pv :=
  match ch_pure c hid args with
  | (e1, Err TypeError) =>
      if is_disconnect ev
      then (e1 ++ fst (ch_pure c hid (removelast args)), snd (ch_pure c hid (removelast args)))
      else (e1, Err TypeError)
  | x => x
  end.

Lemma call_with_retry_pure c ev hid ns sid args s :
  has_actions c = false ->
  call_with_retry c ev hid ns sid args s = (s, fst (cwr_pure c ev hid args), snd (cwr_pure c ev hid args)).
Proof.
  intro Hna. unfold call_with_retry, cwr_pure, catch.
  rewrite (call_handler_pure c hid ns sid args s Hna).
  destruct (ch_pure c hid args) as [e1 [v|x]]; [reflexivity|].
  cbn [fst snd].
  destruct x; try reflexivity.
  destruct (is_disconnect ev); [|reflexivity].
  rewrite (call_handler_pure c hid ns sid (removelast args) s Hna). reflexivity.
Qed.

Definition some_res (x : list eff * Res pv) : list eff * Res (option pv) :=
  (fst x, match snd x with Ok v => Ok (Some v) | Err e => Err e end).

(* `event in self.handlers[..]` hashes the event name: only when a function-handler table is consulted *)
Definition unhash_guard (c : cfg) (ev : pv) (ns : str) : bool :=
  is_unhashable ev && (ahas str_eqb (handlers c) ns || ahas str_eqb (handlers c) star).
Lemma unhash_guard_hashable c ev ns : is_unhashable ev = false -> unhash_guard c ev ns = false.
Proof. unfold unhash_guard. intros ->. reflexivity. Qed.

Definition te_pure (c : cfg) (ev : pv) (ns : str) (args : list pv) : list eff * Res (option pv) :=
  if unhash_guard c ev ns then ([], Err TypeError) else
  match get_event_handler c ev ns args with
  | Some (h, args') => some_res (cwr_pure c ev h args')
  | None =>
      match get_namespace_handler c ns args with
      | Some (methods, args') =>
          match ev with
          | PStr s => match aget str_eqb methods s with
                      | Some h => some_res (cwr_pure c ev h args')
                      | None => ([], Ok (Some PNone))
                      end
          | _ => if truthy ev then ([], Err TypeError) else ([], Ok (Some PNone))
          end
      | None => ([], Ok None)
      end
  end.

Lemma bind_cwr_some c ev h ns sid args s :
  has_actions c = false ->
  bindM (call_with_retry c ev h ns sid args) (fun v => ret (Some v)) s =
  (s, fst (some_res (cwr_pure c ev h args)), snd (some_res (cwr_pure c ev h args))).
Proof.
  intro Hna. unfold bindM. rewrite (call_with_retry_pure c ev h ns sid args s Hna).
  unfold some_res. destruct (cwr_pure c ev h args) as [e1 [v|x]]; cbn [fst snd ret].
  - rewrite app_nil_r. reflexivity.
  - reflexivity.
Qed.

Lemma trigger_event_pure c ev ns args s :
  has_actions c = false ->
  trigger_event c ev ns args s = (s, fst (te_pure c ev ns args), snd (te_pure c ev ns args)).
Proof.
  intro Hna. unfold trigger_event, te_pure. fold (unhash_guard c ev ns).
  destruct (unhash_guard c ev ns); [reflexivity|].
  destruct (get_event_handler c ev ns args) as [[h args']|].
  - apply bind_cwr_some; assumption.
  - destruct (get_namespace_handler c ns args) as [[methods args']|]; [|reflexivity].
    destruct ev; try reflexivity;
      try (match goal with |- context [truthy ?e] => destruct (truthy e) end; reflexivity).
    destruct (aget str_eqb methods s0) as [h|]; [|reflexivity].
    apply bind_cwr_some; assumption.
Qed.

(* ------------------------------------------------------------------ *)
(* trigger_event in terms of the specification-side [responsible]     *)
(* ------------------------------------------------------------------ *)
Definition unhandled_method (ev : pv) : list eff * Res (option pv) :=
  match ev with
  | PStr _ => ([], Ok (Some PNone))
  | _ => if truthy ev then ([], Err TypeError) else ([], Ok (Some PNone))
  end.

Lemma te_pure_responsible c ev ns args :
  is_unhashable ev = false ->
  te_pure c ev ns args =
  match responsible c ev ns args with
  | None => ([], Ok None)
  | Some (Some h, a) => some_res (cwr_pure c ev h a)
  | Some (None, a) => unhandled_method ev
  end.
Proof.
  intro Hh. unfold te_pure, responsible, unhandled_method. rewrite (unhash_guard_hashable c ev ns Hh).
  destruct (get_event_handler c ev ns args) as [[h a]|]; [reflexivity|].
  destruct (get_namespace_handler c ns args) as [[methods a]|]; [|reflexivity].
  destruct ev; reflexivity.
Qed.

Lemma reserved_not_disconnect ev : reserved ev = false -> is_disconnect ev = false.
Proof.
  unfold reserved, is_disconnect. destruct ev; try reflexivity.
  intro H. apply orb_false_iff in H as [_ H]. cbn [pv_eqb]. exact H.
Qed.

Lemma cwr_pure_plain c ev h a : is_disconnect ev = false -> cwr_pure c ev h a = ch_pure c h a.
Proof.
  intro H. unfold cwr_pure. rewrite H.
  destruct (ch_pure c h a) as [e1 [v|x]]; [reflexivity|]. destruct x; reflexivity.
Qed.

(* ------------------------------------------------------------------ *)
(* association lists                                                  *)
(* ------------------------------------------------------------------ *)
Section AssocGen.
  Context {K V : Type} (eqb : K -> K -> bool).
  Implicit Types (l : list (K * V)).

  Lemma aget_aset_same l k v : eqb k k = true -> aget eqb (aset eqb l k v) k = Some v.
  Proof.
    intro Hr. induction l as [|[k' v'] l IH]; cbn [aset aget]; [rewrite Hr; reflexivity|].
    destruct (eqb k' k) eqn:E; cbn [aget]; rewrite E; [reflexivity|exact IH].
  Qed.
  Lemma aset_aget_id l k v : aget eqb l k = Some v -> aset eqb l k v = l.
  Proof.
    induction l as [|[k' v'] l IH]; cbn [aset aget]; [discriminate|].
    destruct (eqb k' k); intro H; [inversion H; reflexivity|rewrite IH by exact H; reflexivity].
  Qed.
  (* a query q that no key matched by k answers to *)
  Lemma aget_aset_frame l k v q :
    (forall k', eqb k' k = true -> eqb k' q = false) -> eqb k q = false ->
    aget eqb (aset eqb l k v) q = aget eqb l q.
  Proof.
    intros Hf Hkq. induction l as [|[k' v'] l IH]; cbn [aset aget]; [rewrite Hkq; reflexivity|].
    destruct (eqb k' k) eqn:E; cbn [aget].
    - rewrite (Hf _ E). reflexivity.
    - rewrite IH. reflexivity.
  Qed.
  Lemma aget_adel_frame l k q :
    (forall k', eqb k' k = true -> eqb k' q = false) -> aget eqb (adel eqb l k) q = aget eqb l q.
  Proof.
    intros Hf. induction l as [|[k' v'] l IH]; cbn [adel aget]; [reflexivity|].
    destruct (eqb k' k) eqn:E; cbn [aget].
    - rewrite (Hf _ E). reflexivity.
    - rewrite IH. reflexivity.
  Qed.
  Lemma adel_aset_new l k v : aget eqb l k = None -> eqb k k = true -> adel eqb (aset eqb l k v) k = l.
  Proof.
    intros Hn Hr. induction l as [|[k' v'] l IH]; cbn [aset adel aget] in *; [rewrite Hr; reflexivity|].
    destruct (eqb k' k) eqn:E; [discriminate|]. cbn [adel]. rewrite E, IH by exact Hn. reflexivity.
  Qed.
  Lemma aget_some_in l k v : aget eqb l k = Some v -> exists k', In (k', v) l /\ eqb k' k = true.
  Proof.
    induction l as [|[k' v'] l IH]; cbn [aget]; [discriminate|].
    destruct (eqb k' k) eqn:E; intro H.
    - inversion H; subst. exists k'. split; [left; reflexivity|exact E].
    - destruct (IH H) as (k0 & Hin & Hk). exists k0. split; [right; exact Hin|exact Hk].
  Qed.
  Lemma in_aset l k v x : In x (aset eqb l k v) -> In x l \/ snd x = v.
  Proof.
    induction l as [|[k' v'] l IH]; cbn [aset].
    - intros [H|[]]. right. subst x. reflexivity.
    - destruct (eqb k' k).
      + intros [H|H]; [right; subst x; reflexivity|left; right; exact H].
      + intros [H|H]; [left; left; exact H|]. destruct (IH H) as [H1|H1]; [left; right; exact H1|right; exact H1].
  Qed.
  Lemma in_aset_key l k v x : In x (aset eqb l k v) -> In (fst x) (map fst l) \/ fst x = k.
  Proof.
    induction l as [|[k' v'] l IH]; cbn [aset].
    - intros [H|[]]. right. subst x. reflexivity.
    - destruct (eqb k' k).
      + intros [H|H]; [left; left; subst x; reflexivity|left; right; apply in_map; exact H].
      + intros [H|H]; [left; left; subst x; reflexivity|].
        destruct (IH H) as [H1|H1]; [left; right; exact H1|right; exact H1].
  Qed.
  Lemma in_adel l k x : In x (adel eqb l k) -> In x l.
  Proof.
    induction l as [|[k' v'] l IH]; cbn [adel]; [intros []|].
    destruct (eqb k' k); [intro H; right; exact H|]. intros [H|H]; [left; exact H|right; exact (IH H)].
  Qed.
End AssocGen.

(* keys compared by a decidable Leibniz equality (strings) *)
Section AssocStr.
  Context {V : Type}.
  Implicit Types (l : list (str * V)).

  Lemma saget_none l k : aget str_eqb l k = None <-> ~ In k (map fst l).
  Proof.
    induction l as [|[k' v'] l IH]; cbn [aget map fst In]; [tauto|].
    destruct (str_eqb k' k) eqn:E.
    - apply str_eqb_eq in E. subst. split; [discriminate|]. intro H. exfalso. apply H. left. reflexivity.
    - rewrite IH. split; [|tauto]. intros H [H1|H1]; [|tauto]. subst. rewrite str_eqb_refl in E. discriminate.
  Qed.
  Lemma saget_in l k v : aget str_eqb l k = Some v -> In (k, v) l.
  Proof.
    intro H. destruct (aget_some_in _ _ _ _ H) as (k' & Hin & Hk). apply str_eqb_eq in Hk. subst. exact Hin.
  Qed.
  Lemma sin_aget l k v : NoDup (map fst l) -> In (k, v) l -> aget str_eqb l k = Some v.
  Proof.
    induction l as [|[k' v'] l IH]; cbn [aget map fst]; [intros _ []|].
    intros Hnd [H|H].
    - inversion H; subst. rewrite str_eqb_refl. reflexivity.
    - inversion Hnd as [|? ? Hnot Hnd']; subst.
      destruct (str_eqb k' k) eqn:E; [|apply IH; assumption].
      apply str_eqb_eq in E. subst. exfalso. apply Hnot. apply (in_map fst) in H. exact H.
  Qed.
  Lemma skeys_aset l k v : NoDup (map fst l) -> NoDup (map fst (aset str_eqb l k v)).
  Proof.
    induction l as [|[k' v'] l IH]; cbn [aset map fst]; intro H; [repeat constructor; intros []|].
    inversion H as [|? ? Hnot Hnd]; subst.
    destruct (str_eqb k' k) eqn:E; cbn [map fst]; [exact H|].
    constructor; [|exact (IH Hnd)].
    intro Hin. apply in_map_iff in Hin as (x & Hx & Hin).
    destruct (in_aset_key _ _ _ _ _ Hin) as [H1|H1].
    - apply Hnot. rewrite <- Hx. exact H1.
    - rewrite Hx in H1. subst. rewrite str_eqb_refl in E. discriminate.
  Qed.
  Lemma skeys_adel l k : NoDup (map fst l) -> NoDup (map fst (adel str_eqb l k)).
  Proof.
    induction l as [|[k' v'] l IH]; cbn [adel map fst]; intro H; [exact H|].
    inversion H as [|? ? Hnot Hnd]; subst.
    destruct (str_eqb k' k); [exact Hnd|]. cbn [map fst]. constructor; [|exact (IH Hnd)].
    intro Hin. apply Hnot. apply in_map_iff in Hin as (x & Hx & Hin). apply in_map_iff.
    exists x. split; [exact Hx|]. exact (in_adel _ _ _ _ Hin).
  Qed.
  Lemma saget_adel_same l k : NoDup (map fst l) -> aget str_eqb (adel str_eqb l k) k = None.
  Proof.
    induction l as [|[k' v'] l IH]; cbn [adel map fst]; intro H; [reflexivity|].
    inversion H as [|? ? Hnot Hnd]; subst.
    destruct (str_eqb k' k) eqn:E.
    - apply str_eqb_eq in E. subst. apply saget_none. exact Hnot.
    - cbn [aget]. rewrite E. exact (IH Hnd).
  Qed.
  Lemma saget_aset_other l k v q : k <> q -> aget str_eqb (aset str_eqb l k v) q = aget str_eqb l q.
  Proof.
    intro Hne. apply aget_aset_frame.
    - intros k' Hk. apply str_eqb_eq in Hk. subst. destruct (str_eqb k q) eqn:E; [|reflexivity].
      apply str_eqb_eq in E. contradiction.
    - destruct (str_eqb k q) eqn:E; [|reflexivity]. apply str_eqb_eq in E. contradiction.
  Qed.
  Lemma saget_adel_other l k q : k <> q -> aget str_eqb (adel str_eqb l k) q = aget str_eqb l q.
  Proof.
    intro Hne. apply aget_adel_frame.
    intros k' Hk. apply str_eqb_eq in Hk. subst. destruct (str_eqb k q) eqn:E; [|reflexivity].
    apply str_eqb_eq in E. contradiction.
  Qed.
End AssocStr.

(* ------------------------------------------------------------------ *)
(* room maps: the "everybody" room (key None)                          *)
(* ------------------------------------------------------------------ *)
Lemma room_eqb_none_r k : room_eqb k PNone = true -> k = PNone.
Proof. destruct k; try discriminate; reflexivity. Qed.
Lemma room_eqb_none_l k : room_eqb PNone k = true -> k = PNone.
Proof. destruct k; try discriminate; reflexivity. Qed.
Lemma room_eqb_none_false k : k <> PNone -> room_eqb k PNone = false.
Proof. intro H. destruct (room_eqb k PNone) eqn:E; [|reflexivity]. apply room_eqb_none_r in E. contradiction. Qed.
Lemma room_frame_none room : room <> PNone -> forall k', room_eqb k' room = true -> room_eqb k' PNone = false.
Proof.
  intros Hne k' Hk. destruct (room_eqb k' PNone) eqn:E; [|reflexivity].
  apply room_eqb_none_r in E. subst. apply room_eqb_none_l in Hk. contradiction.
Qed.

Definition none_bd (rm : roommap) : option bidict := aget room_eqb rm PNone.
Fixpoint none_once (rm : roommap) : Prop :=
  match rm with
  | [] => True
  | (k, _) :: r => if room_eqb k PNone then none_bd r = None else none_once r
  end.

Lemma none_bd_aset_none rm v : none_bd (aset room_eqb rm PNone v) = Some v.
Proof. apply aget_aset_same. reflexivity. Qed.
Lemma none_bd_aset_other rm room v : room <> PNone -> none_bd (aset room_eqb rm room v) = none_bd rm.
Proof. intro H. apply aget_aset_frame; [apply room_frame_none; exact H|apply room_eqb_none_false; exact H]. Qed.
Lemma none_bd_adel_other rm room : room <> PNone -> none_bd (adel room_eqb rm room) = none_bd rm.
Proof. intro H. apply aget_adel_frame. apply room_frame_none; exact H. Qed.
Lemma none_bd_adel_none rm : none_once rm -> none_bd (adel room_eqb rm PNone) = None.
Proof.
  induction rm as [|[k b] r IH]; cbn [none_once adel]; [reflexivity|].
  destruct (room_eqb k PNone) eqn:E; [intro H; exact H|].
  intro H. unfold none_bd. cbn [aget]. rewrite E. exact (IH H).
Qed.

Lemma none_once_aset rm room v : none_once rm -> none_once (aset room_eqb rm room v).
Proof.
  destruct (pv_eqb room PNone) eqn:Er.
  - apply pv_eqb_eq in Er. subst room.
    induction rm as [|[k b] r IH]; cbn [none_once aset]; [reflexivity|].
    destruct (room_eqb k PNone) eqn:E; cbn [none_once]; rewrite E; [tauto|exact IH].
  - assert (Hne : room <> PNone) by (intro; subst; rewrite pv_eqb_refl in Er; discriminate).
    induction rm as [|[k b] r IH]; cbn [none_once aset].
    + rewrite (room_eqb_none_false _ Hne). tauto.
    + destruct (room_eqb k room) eqn:E; cbn [none_once].
      * rewrite (room_frame_none _ Hne _ E). tauto.
      * destruct (room_eqb k PNone); [|exact IH]. intro H. rewrite none_bd_aset_other by exact Hne. exact H.
Qed.
Lemma none_once_adel rm room : none_once rm -> none_once (adel room_eqb rm room).
Proof.
  destruct (pv_eqb room PNone) eqn:Er.
  - apply pv_eqb_eq in Er. subst room.
    induction rm as [|[k b] r IH]; cbn [none_once adel]; [tauto|].
    destruct (room_eqb k PNone) eqn:E; cbn [none_once].
    + clear IH. intro H. induction r as [|[k' b'] r IH]; [exact I|].
      unfold none_bd in H. cbn [aget none_once] in *. destruct (room_eqb k' PNone); [discriminate|exact (IH H)].
    + rewrite E. exact IH.
  - assert (Hne : room <> PNone) by (intro; subst; rewrite pv_eqb_refl in Er; discriminate).
    induction rm as [|[k b] r IH]; cbn [none_once adel]; [tauto|].
    destruct (room_eqb k room) eqn:E; cbn [none_once].
    + rewrite (room_frame_none _ Hne _ E). tauto.
    + destruct (room_eqb k PNone); [|exact IH]. intro H. rewrite none_bd_adel_other by exact Hne. exact H.
Qed.

(* ------------------------------------------------------------------ *)
(* manager: structural invariant needed by the lifecycle theorems      *)
(* ------------------------------------------------------------------ *)
(* only the "everybody" rooms matter for is_connected / sid_from_eio / all_sids:
   distinct namespace keys, one None room per namespace, distinct sids in it *)
(* distinct sids and distinct transports inside the everybody room *)
Definition bd_ok (b : bidict) : Prop := NoDup (map fst b) /\ NoDup (map snd b).
Lemma bd_ok_nil : bd_ok []. Proof. split; constructor. Qed.
Lemma svals_adel {K} (eqb : K -> K -> bool) (l : list (K * str)) k :
  NoDup (map snd l) -> NoDup (map snd (adel eqb l k)).
Proof.
  induction l as [|[k' v'] l IH]; cbn [adel map snd]; intro H; [exact H|].
  inversion H as [|? ? Hnot Hnd]; subst.
  destruct (eqb k' k); [exact Hnd|]. cbn [map snd]. constructor; [|exact (IH Hnd)].
  intro Hin. apply Hnot. apply in_map_iff in Hin as (x & Hx & Hin). apply in_map_iff.
  exists x. split; [exact Hx|]. exact (in_adel _ _ _ _ Hin).
Qed.
Lemma svals_aset (l : bidict) k v :
  NoDup (map snd l) -> ~ In v (map snd l) -> NoDup (map snd (aset str_eqb l k v)).
Proof.
  induction l as [|[k' v'] l IH]; cbn [aset map snd]; intros H Hv; [repeat constructor; intros []|].
  inversion H as [|? ? Hnot Hnd]; subst.
  destruct (str_eqb k' k); cbn [map snd].
  - constructor; [intro; apply Hv; right; assumption|exact Hnd].
  - constructor; [|apply IH; [exact Hnd|intro; apply Hv; right; assumption]].
    intro Hin. apply in_map_iff in Hin as (x & Hx & Hin).
    destruct (in_aset _ _ _ _ _ Hin) as [H1|H1].
    + apply Hnot. rewrite <- Hx. apply in_map. exact H1.
    + apply Hv. left. congruence.
Qed.
Lemma bd_ok_adel b sid : bd_ok b -> bd_ok (adel str_eqb b sid).
Proof. intros [H1 H2]. split; [apply skeys_adel; exact H1|apply svals_adel; exact H2]. Qed.

Definition rm_ok1 (rm : roommap) : Prop :=
  none_once rm /\ forall b, none_bd rm = Some b -> bd_ok b.
Definition MOK (m : mgr) : Prop :=
  NoDup (map fst (rooms m)) /\ forall ns rm, In (ns, rm) (rooms m) -> rm_ok1 rm.

Lemma rm_ok1_nil : rm_ok1 [].
Proof. split; [exact I|]. intros b H. discriminate. Qed.
Lemma MOK_init : MOK mgr_init.
Proof. split; [constructor|]. intros ns rm []. Qed.
Lemma MOK_rooms m m' : rooms m' = rooms m -> MOK m -> MOK m'.
Proof. unfold MOK. intros ->. tauto. Qed.
Lemma MOK_ns m ns rm : MOK m -> ns_rooms m ns = Some rm -> rm_ok1 rm.
Proof. intros [_ H] Hn. apply (H ns). apply saget_in. exact Hn. Qed.

Lemma set_rooms_id m : set_rooms m (rooms m) = m.
Proof. destruct m; reflexivity. Qed.

(* writing a room map back, deleting the namespace when it became empty *)
Definition set_ns (m : mgr) (ns : str) (rm' : roommap) : mgr :=
  set_rooms m (match rm' with [] => adel str_eqb (rooms m) ns | _ => aset str_eqb (rooms m) ns rm' end).

Lemma MOK_aset_ns m ns rm' : MOK m -> rm_ok1 rm' -> MOK (set_rooms m (aset str_eqb (rooms m) ns rm')).
Proof.
  intros [H1 H2] Hrm. split; cbn [rooms set_rooms].
  - apply skeys_aset. exact H1.
  - intros ns' rm0 Hin. destruct (in_aset _ _ _ _ _ Hin) as [H|H]; [eapply H2; exact H|].
    cbn [snd] in H. subst. exact Hrm.
Qed.
Lemma MOK_adel_ns m ns : MOK m -> MOK (set_rooms m (adel str_eqb (rooms m) ns)).
Proof.
  intros [H1 H2]. split; cbn [rooms set_rooms].
  - apply skeys_adel. exact H1.
  - intros ns' rm0 Hin. eapply H2. eapply in_adel. exact Hin.
Qed.
Lemma MOK_set_ns m ns rm' : MOK m -> rm_ok1 rm' -> MOK (set_ns m ns rm').
Proof.
  intros Hm Hrm. unfold set_ns. destruct rm'; [apply MOK_adel_ns; exact Hm|apply MOK_aset_ns; assumption].
Qed.
Lemma ns_rooms_set_ns_same m ns rm' :
  MOK m -> ns_rooms (set_ns m ns rm') ns = match rm' with [] => None | _ => Some rm' end.
Proof.
  intros [H1 _]. unfold set_ns, ns_rooms. destruct rm' as [|x r]; cbn [rooms set_rooms].
  - apply saget_adel_same. exact H1.
  - apply aget_aset_same. apply str_eqb_refl.
Qed.
Lemma ns_rooms_set_ns_other m ns rm' ns' : ns <> ns' -> ns_rooms (set_ns m ns rm') ns' = ns_rooms m ns'.
Proof.
  intro Hne. unfold set_ns, ns_rooms. destruct rm' as [|x r]; cbn [rooms set_rooms].
  - apply saget_adel_other. exact Hne.
  - apply saget_aset_other. exact Hne.
Qed.

(* ---- leave_room ---- *)
Definition rm_leave (rm : roommap) (sid : str) (room : pv) : option roommap :=
  match aget room_eqb rm room with
  | None => None
  | Some b =>
      match bd_get b sid with
      | None => None
      | Some _ => Some (match adel str_eqb b sid with
                        | [] => adel room_eqb rm room
                        | x :: r => aset room_eqb rm room (x :: r) end)
      end
  end.

Lemma leave_room_unfold m sid ns room :
  leave_room m sid ns room =
  match ns_rooms m ns with
  | None => m
  | Some rm => match rm_leave rm sid room with None => m | Some rm' => set_ns m ns rm' end
  end.
Proof.
  unfold leave_room, rm_leave, set_ns. destruct (ns_rooms m ns) as [rm|]; [|reflexivity].
  destruct (aget room_eqb rm room) as [b|]; [|reflexivity].
  destruct (bd_get b sid); [|reflexivity].
  destruct (adel str_eqb b sid) as [|x r].
  - destruct (adel room_eqb rm room); reflexivity.
  - destruct (aset room_eqb rm room (x :: r)); reflexivity.
Qed.

Lemma rm_leave_spec rm sid room rm' :
  rm_ok1 rm -> rm_leave rm sid room = Some rm' ->
  rm_ok1 rm' /\
  (room <> PNone -> none_bd rm' = none_bd rm) /\
  (room = PNone -> forall b', none_bd rm' = Some b' -> bd_get b' sid = None).
Proof.
  intros [Hno Hnd] H. unfold rm_leave in H.
  destruct (aget room_eqb rm room) as [b|] eqn:Hb; [|discriminate].
  destruct (bd_get b sid); [|discriminate]. inversion H; subst rm'; clear H.
  destruct (pv_eqb room PNone) eqn:Er.
  - apply pv_eqb_eq in Er. subst room. fold (none_bd rm) in Hb. specialize (Hnd b Hb).
    destruct (adel str_eqb b sid) as [|x r] eqn:Hd.
    + split; [split; [apply none_once_adel; exact Hno|]|split; [congruence|]].
      * intros b0 H0. rewrite none_bd_adel_none in H0 by exact Hno. discriminate.
      * intros _ b0 H0. rewrite none_bd_adel_none in H0 by exact Hno. discriminate.
    + assert (Hk : bd_ok (x :: r)) by (rewrite <- Hd; apply bd_ok_adel; exact Hnd).
      assert (Hg : bd_get (x :: r) sid = None) by (rewrite <- Hd; apply saget_adel_same; exact (proj1 Hnd)).
      split; [split; [apply none_once_aset; exact Hno|]|split; [congruence|]].
      * intros b0 H0. rewrite none_bd_aset_none in H0. inversion H0; subst. exact Hk.
      * intros _ b0 H0. rewrite none_bd_aset_none in H0. inversion H0; subst. exact Hg.
  - assert (Hne : room <> PNone) by (intro; subst; rewrite pv_eqb_refl in Er; discriminate).
    destruct (adel str_eqb b sid) as [|x r].
    + split; [split; [apply none_once_adel; exact Hno|]|split; [|contradiction]].
      * intros b0 H0. rewrite none_bd_adel_other in H0 by exact Hne. exact (Hnd _ H0).
      * intros _. apply none_bd_adel_other. exact Hne.
    + split; [split; [apply none_once_aset; exact Hno|]|split; [|contradiction]].
      * intros b0 H0. rewrite none_bd_aset_other in H0 by exact Hne. exact (Hnd _ H0).
      * intros _. apply none_bd_aset_other. exact Hne.
Qed.

Lemma room_of_none m ns : room_of m ns PNone = match ns_rooms m ns with Some rm => none_bd rm | None => None end.
Proof. reflexivity. Qed.

Lemma leave_room_spec m sid ns room :
  MOK m ->
  let m' := leave_room m sid ns room in
  MOK m' /\ pending m' = pending m /\ callbacks m' = callbacks m /\
  (forall ns', ns <> ns' -> ns_rooms m' ns' = ns_rooms m ns') /\
  (room <> PNone -> room_of m' ns PNone = room_of m ns PNone) /\
  (room = PNone -> eio_from_sid m' sid ns = None).
Proof.
  intros Hm m'. subst m'. rewrite leave_room_unfold.
  destruct (ns_rooms m ns) as [rm|] eqn:Hns.
  2:{ split; [exact Hm|]. split; [reflexivity|]. split; [reflexivity|]. split; [reflexivity|]. split; [reflexivity|].
      intros _. unfold eio_from_sid. rewrite room_of_none, Hns. reflexivity. }
  destruct (rm_leave rm sid room) as [rm'|] eqn:Hl.
  2:{ split; [exact Hm|]. split; [reflexivity|]. split; [reflexivity|]. split; [reflexivity|]. split; [reflexivity|].
      intros ->. unfold eio_from_sid. rewrite room_of_none, Hns.
      unfold rm_leave in Hl. fold (none_bd rm) in Hl. destruct (none_bd rm) as [b|]; [|reflexivity].
      destruct (bd_get b sid); [discriminate|reflexivity]. }
  destruct (rm_leave_spec _ _ _ _ (MOK_ns _ _ _ Hm Hns) Hl) as (Hok & Hother & Hnone).
  split; [apply MOK_set_ns; assumption|]. split; [reflexivity|]. split; [reflexivity|].
  split; [intros ns' Hne; apply ns_rooms_set_ns_other; exact Hne|].
  split.
  - intro Hne. rewrite !room_of_none, ns_rooms_set_ns_same, Hns by exact Hm.
    rewrite <- (Hother Hne). destruct rm'; reflexivity.
  - intro He. unfold eio_from_sid. rewrite room_of_none, ns_rooms_set_ns_same by exact Hm.
    destruct rm' as [|x r]; [reflexivity|].
    destruct (none_bd (x :: r)) as [b'|] eqn:Hb'; [|reflexivity]. exact (Hnone He _ eq_refl).
Qed.

(* ---- a fold of leave_room over room names (basic_disconnect, close_room) ---- *)
Lemma fold_leave_spec sid ns names : forall m,
  MOK m ->
  let m' := fold_left (fun m r => leave_room m sid ns r) names m in
  MOK m' /\ pending m' = pending m /\ callbacks m' = callbacks m /\
  (forall ns', ns <> ns' -> ns_rooms m' ns' = ns_rooms m ns') /\
  (In PNone names \/ eio_from_sid m sid ns = None -> eio_from_sid m' sid ns = None) /\
  (~ In PNone names -> room_of m' ns PNone = room_of m ns PNone).
Proof.
  induction names as [|r names IH]; intros m Hm; cbn [fold_left].
  - split; [exact Hm|]. split; [reflexivity|]. split; [reflexivity|]. split; [reflexivity|].
    split; [intros [[]|H]; exact H|reflexivity].
  - destruct (leave_room_spec m sid ns r Hm) as (Hm1 & Hp1 & Hc1 & Hf1 & Ho1 & Hn1).
    destruct (IH _ Hm1) as (Hm2 & Hp2 & Hc2 & Hf2 & He2 & Hr2).
    split; [exact Hm2|]. split; [congruence|]. split; [congruence|].
    split; [intros ns' Hne; rewrite Hf2, Hf1 by exact Hne; reflexivity|]. split.
    + intros H. apply He2.
      destruct (pv_eqb r PNone) eqn:Er.
      * apply pv_eqb_eq in Er. right. apply Hn1. exact Er.
      * assert (Hne : r <> PNone) by (intro; subst; rewrite pv_eqb_refl in Er; discriminate).
        destruct H as [[H|H]|H]; [congruence|left; exact H|].
        right. unfold eio_from_sid in *. rewrite (Ho1 Hne). exact H.
    + intro Hnot. rewrite Hr2 by (intro; apply Hnot; right; assumption).
      apply Ho1. intro; apply Hnot; left; assumption.
Qed.

(* ---- basic_disconnect ---- *)
Definition disc_names (rm : roommap) (sid : str) : list pv :=
  map fst (filter (fun rb => match bd_get (snd rb) sid with Some _ => true | None => false end) rm).

Lemma disc_names_none rm sid b e :
  none_bd rm = Some b -> bd_get b sid = Some e -> In PNone (disc_names rm sid).
Proof.
  intros Hb Hg. destruct (aget_some_in _ _ _ _ Hb) as (k' & Hin & Hk).
  apply room_eqb_none_r in Hk. subst k'. unfold disc_names.
  apply in_map_iff. exists (PNone, b). split; [reflexivity|].
  apply filter_In. split; [exact Hin|]. cbn [snd]. rewrite Hg. reflexivity.
Qed.

Definition pending_after (m : mgr) (sid ns : str) : list (str * list str) :=
  if is_pending m sid ns then
    let l := match aget str_eqb (pending m) ns with Some l => remove_first l sid | None => [] end in
    match l with [] => adel str_eqb (pending m) ns | _ => aset str_eqb (pending m) ns l end
  else pending m.

Lemma disc_release_pending m sid ns : pending (disc_release m sid ns) = pending_after m sid ns.
Proof.
  unfold disc_release, pending_after.
  assert (E : is_pending (mkMgr (rooms m) (pending m) (adel str_eqb (callbacks m) sid)) sid ns = is_pending m sid ns)
    by reflexivity.
  rewrite E. destruct (is_pending m sid ns); reflexivity.
Qed.
Lemma disc_release_rooms' m sid ns : rooms (disc_release m sid ns) = rooms m.
Proof. unfold disc_release. destruct (is_pending _ sid ns); reflexivity. Qed.
Lemma disc_release_callbacks' m sid ns : callbacks (disc_release m sid ns) = adel str_eqb (callbacks m) sid.
Proof. unfold disc_release. destruct (is_pending _ sid ns); reflexivity. Qed.

Lemma mgr_disconnect_spec m sid ns :
  MOK m ->
  let m' := mgr_disconnect m sid ns in
  MOK m' /\ eio_from_sid m' sid ns = None /\
  (forall ns', ns <> ns' -> ns_rooms m' ns' = ns_rooms m ns') /\
  (ns_rooms m ns = None -> m' = disc_release m sid ns) /\
  (ns_rooms m ns <> None -> callbacks m' = adel str_eqb (callbacks m) sid /\
                            pending m' = pending_after m sid ns).
Proof.
  intros Hm m'. subst m'. unfold mgr_disconnect.
  destruct (ns_rooms m ns) as [rm|] eqn:Hns.
  2:{ split; [apply (MOK_rooms m); [apply disc_release_rooms'|exact Hm]|].
      split; [unfold eio_from_sid; rewrite room_of_none; unfold ns_rooms; rewrite disc_release_rooms';
              fold (ns_rooms m ns); rewrite Hns; reflexivity|].
      split; [intros ns' _; unfold ns_rooms; rewrite disc_release_rooms'; reflexivity|].
      split; [reflexivity|]. intro H. contradiction. }
  fold (disc_names rm sid). unfold disc_release.
  destruct (fold_leave_spec sid ns (disc_names rm sid) m Hm) as (Hm1 & Hp1 & Hc1 & Hf1 & He1 & _).
  set (m1 := fold_left (fun m r => leave_room m sid ns r) (disc_names rm sid) m) in *.
  assert (He : eio_from_sid m1 sid ns = None).
  { apply He1. unfold eio_from_sid. rewrite room_of_none, Hns.
    destruct (none_bd rm) as [b|] eqn:Hb; [|right; reflexivity].
    destruct (bd_get b sid) as [e|] eqn:Hg; [left; eapply disc_names_none; eassumption|right; reflexivity]. }
  set (m2 := mkMgr (rooms m1) (pending m1) (adel str_eqb (callbacks m1) sid)).
  assert (Hpend : is_pending m2 sid ns = is_pending m sid ns) by (unfold is_pending; cbn [pending m2]; rewrite Hp1; reflexivity).
  rewrite Hpend. unfold pending_after.
  destruct (is_pending m sid ns).
  - split; [apply (MOK_rooms m1); [reflexivity|exact Hm1]|].
    split; [exact He|]. split; [exact Hf1|]. split; [discriminate|]. intros _.
    cbn [callbacks pending m2]. rewrite Hc1, Hp1. split; reflexivity.
  - split; [apply (MOK_rooms m1); [reflexivity|exact Hm1]|].
    split; [exact He|]. split; [exact Hf1|]. split; [discriminate|]. intros _.
    cbn [callbacks pending m2]. rewrite Hc1, Hp1. split; reflexivity.
Qed.

(* ---- pre_disconnect ---- *)
Lemma pre_disconnect_rooms m sid ns : rooms (fst (pre_disconnect m sid ns)) = rooms m.
Proof. unfold pre_disconnect. destruct (room_of m ns PNone); reflexivity. Qed.
Lemma pre_disconnect_callbacks m sid ns : callbacks (fst (pre_disconnect m sid ns)) = callbacks m.
Proof. unfold pre_disconnect. destruct (room_of m ns PNone); reflexivity. Qed.
Lemma pre_disconnect_pending m sid ns :
  pending (fst (pre_disconnect m sid ns)) =
  aset str_eqb (pending m) ns ((match aget str_eqb (pending m) ns with Some l => l | None => [] end) ++ [sid]).
Proof. unfold pre_disconnect. destruct (room_of m ns PNone); reflexivity. Qed.
Lemma pre_disconnect_res m sid ns :
  snd (pre_disconnect m sid ns) =
  match room_of m ns PNone with Some b => Ok (bd_get b sid) | None => Err KeyError end.
Proof. unfold pre_disconnect. destruct (room_of m ns PNone); reflexivity. Qed.
Lemma MOK_pre_disconnect m sid ns : MOK m -> MOK (fst (pre_disconnect m sid ns)).
Proof. apply MOK_rooms. apply pre_disconnect_rooms. Qed.

Lemma remove_first_app_new l x : ~ In x l -> remove_first (l ++ [x]) x = l.
Proof.
  induction l as [|y l IH]; cbn [remove_first app]; intro H.
  - rewrite str_eqb_refl. reflexivity.
  - destruct (str_eqb y x) eqn:E.
    + apply str_eqb_eq in E. subst. exfalso. apply H. left. reflexivity.
    + rewrite IH; [reflexivity|]. intro; apply H; right; assumption.
Qed.
Lemma existsb_str_in x l : existsb (str_eqb x) l = true <-> In x l.
Proof.
  rewrite existsb_exists. split.
  - intros (y & Hin & E). apply str_eqb_eq in E. subst. exact Hin.
  - intro H. exists x. split; [exact H|apply str_eqb_refl].
Qed.
Lemma existsb_str_app_self x l : existsb (str_eqb x) (l ++ [x]) = true.
Proof. apply existsb_str_in. apply in_or_app. right. left. reflexivity. Qed.

(* marking a sid that is not pending, then removing the mark: the table is as before,
   provided no namespace had an empty list *)
Lemma pending_roundtrip m sid ns :
  is_pending m sid ns = false -> aget str_eqb (pending m) ns <> Some [] ->
  pending_after (fst (pre_disconnect m sid ns)) sid ns = pending m.
Proof.
  intros Hp Hne. unfold pending_after, is_pending in *. rewrite pre_disconnect_pending.
  rewrite aget_aset_same by apply str_eqb_refl. rewrite existsb_str_app_self.
  destruct (aget str_eqb (pending m) ns) as [l|] eqn:Hl.
  - assert (Hnot : ~ In sid l).
    { intro Hin. apply existsb_str_in in Hin. rewrite Hin in Hp. discriminate. }
    rewrite remove_first_app_new by exact Hnot.
    destruct l as [|y l]; [congruence|].
    induction (pending m) as [|[k v] p IH]; cbn [aget aset] in *; [discriminate|].
    destruct (str_eqb k ns) eqn:E; cbn [aset]; rewrite E.
    + inversion Hl; subst. reflexivity.
    + rewrite IH by assumption. reflexivity.
  - cbn [app remove_first]. rewrite str_eqb_refl.
    apply adel_aset_new; [exact Hl|apply str_eqb_refl].
Qed.

(* ---- bidict ---- *)
Lemma bd_inv_aset_new b sid eio : bd_inv b eio = None -> bd_inv (aset str_eqb b sid eio) eio = Some sid.
Proof.
  induction b as [|[s e] b IH]; cbn [bd_inv aset]; intro H.
  - rewrite str_eqb_refl. reflexivity.
  - destruct (str_eqb e eio) eqn:E; [discriminate|].
    destruct (str_eqb s sid) eqn:Es; cbn [bd_inv].
    + rewrite str_eqb_refl. apply str_eqb_eq in Es. subst. reflexivity.
    + rewrite E. exact (IH H).
Qed.
Lemma bd_get_aset_same b sid eio : bd_get (aset str_eqb b sid eio) sid = Some eio.
Proof. apply aget_aset_same. apply str_eqb_refl. Qed.
Lemma bd_inv_in b eio s : bd_inv b eio = Some s -> In (s, eio) b.
Proof.
  induction b as [|[s' e] b IH]; cbn [bd_inv]; [discriminate|].
  destruct (str_eqb e eio) eqn:E; intro H.
  - inversion H; subst. apply str_eqb_eq in E. subst. left. reflexivity.
  - right. exact (IH H).
Qed.

(* ---- put_member / connect / enter_room ---- *)
Definition pm_rm (m : mgr) (ns : str) : roommap := match ns_rooms m ns with Some rm => rm | None => [] end.
Definition pm_b (m : mgr) (ns : str) (room : pv) : bidict :=
  match aget room_eqb (pm_rm m ns) room with Some b => b | None => [] end.

Lemma put_member_unfold m ns room sid eio :
  put_member m ns room sid eio =
  (set_rooms m (aset str_eqb (rooms m) ns
                     (aset room_eqb (pm_rm m ns) room
                           (match bd_put (pm_b m ns room) sid eio with Some b' => b' | None => pm_b m ns room end))),
   match bd_put (pm_b m ns room) sid eio with Some _ => true | None => false end).
Proof.
  unfold put_member, pm_b, pm_rm.
  destruct (bd_put _ sid eio); reflexivity.
Qed.

Lemma rm_ok1_pm_rm m ns : MOK m -> rm_ok1 (pm_rm m ns).
Proof.
  intro Hm. unfold pm_rm. destruct (ns_rooms m ns) eqn:H; [eapply MOK_ns; eassumption|apply rm_ok1_nil].
Qed.

Lemma bd_inv_none_vals b eio : bd_inv b eio = None -> ~ In eio (map snd b).
Proof.
  induction b as [|[s e] b IH]; cbn [bd_inv map snd]; [intros _ []|].
  destruct (str_eqb e eio) eqn:E; [discriminate|]. intros H [H1|H1]; [|exact (IH H H1)].
  subst. rewrite str_eqb_refl in E. discriminate.
Qed.
Lemma bd_put_ok b sid eio b' : bd_put b sid eio = Some b' -> bd_ok b -> bd_ok b'.
Proof.
  unfold bd_put. destruct (bd_inv b eio) as [s'|] eqn:Hi.
  - destruct (str_eqb s' sid); [|discriminate]. intro H; inversion H; subst. tauto.
  - intro H; inversion H; subst. intros [H1 H2]. split; [apply skeys_aset; exact H1|].
    apply svals_aset; [exact H2|apply bd_inv_none_vals; exact Hi].
Qed.
Lemma bd_put_keys b sid eio b' : bd_put b sid eio = Some b' -> NoDup (map fst b) -> NoDup (map fst b').
Proof.
  unfold bd_put. destruct (bd_inv b eio) as [s'|].
  - destruct (str_eqb s' sid); [|discriminate]. intro H; inversion H; subst. tauto.
  - intro H; inversion H; subst. apply skeys_aset.
Qed.

Lemma rm_ok1_aset rm room b :
  rm_ok1 rm -> (room = PNone -> bd_ok b) -> rm_ok1 (aset room_eqb rm room b).
Proof.
  intros [Hno Hnd] Hb. split; [apply none_once_aset; exact Hno|].
  intros b0 H0. destruct (pv_eqb room PNone) eqn:Er.
  - apply pv_eqb_eq in Er. subst. rewrite none_bd_aset_none in H0. inversion H0; subst. apply Hb. reflexivity.
  - assert (Hne : room <> PNone) by (intro; subst; rewrite pv_eqb_refl in Er; discriminate).
    rewrite none_bd_aset_other in H0 by exact Hne. exact (Hnd _ H0).
Qed.

Lemma pm_b_none_keys m ns : MOK m -> bd_ok (pm_b m ns PNone).
Proof.
  intro Hm. unfold pm_b. destruct (rm_ok1_pm_rm m ns Hm) as [_ Hnd].
  fold (none_bd (pm_rm m ns)). destruct (none_bd (pm_rm m ns)) as [b|] eqn:Hb; [exact (Hnd _ eq_refl)|apply bd_ok_nil].
Qed.

Lemma MOK_put_member m ns room sid eio : MOK m -> MOK (fst (put_member m ns room sid eio)).
Proof.
  intro Hm. rewrite put_member_unfold. cbn [fst]. apply MOK_aset_ns; [exact Hm|].
  apply rm_ok1_aset; [apply rm_ok1_pm_rm; exact Hm|].
  intros ->. pose proof (pm_b_none_keys m ns Hm) as Hk.
  destruct (bd_put (pm_b m ns PNone) sid eio) as [b'|] eqn:Hp; [eapply bd_put_ok; eassumption|exact Hk].
Qed.

Lemma put_member_frame m ns room sid eio :
  let m' := fst (put_member m ns room sid eio) in
  pending m' = pending m /\ callbacks m' = callbacks m /\
  (forall ns', ns <> ns' -> ns_rooms m' ns' = ns_rooms m ns') /\
  ns_rooms m' ns = Some (aset room_eqb (pm_rm m ns) room
                           (match bd_put (pm_b m ns room) sid eio with Some b' => b' | None => pm_b m ns room end)).
Proof.
  rewrite put_member_unfold. cbn [fst]. split; [reflexivity|]. split; [reflexivity|]. split.
  - intros ns' Hne. unfold ns_rooms. cbn [rooms set_rooms]. apply saget_aset_other. exact Hne.
  - unfold ns_rooms. cbn [rooms set_rooms]. apply aget_aset_same. apply str_eqb_refl.
Qed.

Lemma MOK_mgr_connect m eio ns sid : MOK m -> MOK (fst (mgr_connect m eio ns sid)).
Proof.
  intro Hm. unfold mgr_connect.
  pose proof (MOK_put_member m ns PNone sid eio Hm) as H1.
  destruct (put_member m ns PNone sid eio) as [m1 [|]]; cbn [fst] in *; [|exact H1].
  pose proof (MOK_put_member m1 ns (PStr sid) sid eio H1) as H2.
  destruct (put_member m1 ns (PStr sid) sid eio) as [m2 ok]. exact H2.
Qed.

(* the transport is already connected to the namespace under another sid: refused, nothing changes *)
Lemma mgr_connect_dup m eio ns sid b s' :
  room_of m ns PNone = Some b -> bd_inv b eio = Some s' -> s' <> sid ->
  mgr_connect m eio ns sid = (m, None).
Proof.
  intros Hb Hi Hne. unfold mgr_connect. rewrite put_member_unfold.
  assert (Hrm : exists rm, ns_rooms m ns = Some rm /\ none_bd rm = Some b).
  { rewrite room_of_none in Hb. destruct (ns_rooms m ns) as [rm|]; [eauto|discriminate]. }
  destruct Hrm as (rm & Hns & Hnb).
  assert (Hpb : pm_b m ns PNone = b) by (unfold pm_b, pm_rm; rewrite Hns; fold (none_bd rm); rewrite Hnb; reflexivity).
  rewrite Hpb. unfold bd_put. rewrite Hi.
  destruct (str_eqb s' sid) eqn:E; [apply str_eqb_eq in E; contradiction|].
  unfold pm_rm. rewrite Hns. rewrite (aset_aget_id room_eqb rm PNone b Hnb).
  rewrite (aset_aget_id str_eqb (rooms m) ns rm Hns), set_rooms_id. reflexivity.
Qed.

(* the transport is not connected to the namespace: accepted *)
Lemma mgr_connect_new m eio ns sid :
  sid_from_eio m eio ns = None ->
  let m' := fst (mgr_connect m eio ns sid) in
  snd (mgr_connect m eio ns sid) = Some sid /\
  room_of m' ns PNone = Some (aset str_eqb (pm_b m ns PNone) sid eio) /\
  pending m' = pending m /\ callbacks m' = callbacks m /\
  (forall ns', ns <> ns' -> ns_rooms m' ns' = ns_rooms m ns').
Proof.
  intros Hs. unfold mgr_connect.
  assert (Hinv : bd_inv (pm_b m ns PNone) eio = None).
  { unfold sid_from_eio in Hs. rewrite room_of_none in Hs. unfold pm_b, pm_rm.
    destruct (ns_rooms m ns) as [rm|]; [|reflexivity]. fold (none_bd rm). destruct (none_bd rm); [exact Hs|reflexivity]. }
  destruct (put_member_frame m ns PNone sid eio) as (Hp1 & Hc1 & Hf1 & Hn1).
  rewrite put_member_unfold in *. cbn [fst] in *.
  unfold bd_put in *. rewrite Hinv in *.
  set (m1 := set_rooms m _) in *.
  destruct (put_member_frame m1 ns (PStr sid) sid eio) as (Hp2 & Hc2 & Hf2 & Hn2).
  destruct (put_member m1 ns (PStr sid) sid eio) as [m2 ok]. cbn [fst snd] in *.
  split; [reflexivity|]. split.
  - rewrite room_of_none, Hn2. rewrite none_bd_aset_other by discriminate.
    unfold pm_rm. rewrite Hn1. apply none_bd_aset_none.
  - split; [congruence|]. split; [congruence|]. intros ns' Hne. rewrite Hf2, Hf1 by exact Hne. reflexivity.
Qed.
(* ------------------------------------------------------------------ *)
(* a concrete configuration and reachable state for the Examples      *)
(* ------------------------------------------------------------------ *)
Module Ex.
  Open Scope string_scope.
  Definition e1 := s2l "e1".
  Definition e2 := s2l "e2".
  Definition chat := s2l "/chat".
  Definition plain := s2l "/plain".
  (* "/": function handlers and a catch-all; "/chat": class-based namespace; "/plain": served, no handlers *)
  Definition cfg0 (always : bool) (connect_outcome : outcome) : cfg :=
    mkCfg [(slash, [(s2l "connect", 1%N); (s2l "disconnect", 2%N); (s2l "msg", 3%N); (star, 4%N)])]
          [(chat, [(s2l "connect", 5%N); (s2l "disconnect", 6%N); (s2l "hello", 7%N); (s2l "blob", 8%N)])]
          [(1%N, mkBehav (Some 2%nat) [] connect_outcome);
           (2%N, mkBehav (Some 2%nat) [] (Returns PNone));
           (3%N, mkBehav (Some 2%nat) [] (Returns (PTuple [PInt 1; PBytes [1%N; 2%N]])));
           (4%N, mkBehav None [] (Returns (PStr (s2l "any"))));
           (5%N, mkBehav (Some 3%nat) [] (Returns PNone));
           (6%N, mkBehav (Some 1%nat) [] (Returns PNone));
           (7%N, mkBehav (Some 1%nat) [] (Returns (PList [PInt 7])));
           (8%N, mkBehav (Some 2%nat) [] (Returns PNone))]
          (Some [slash; plain]) always true.
  Definition c := cfg0 false (Returns PNone).
  Definition env1 := PDict [(PStr (s2l "k"), PInt 1)].
  Definition auth := PDict [(PStr (s2l "t"), PInt 1)].
  Definition connect_chat (e : str) :=
    EioMessage e (PStr (s2l "0/chat,{""t"":1}")) [(s2l "{""t"":1}", Ok auth)].
  Definition ops0 : list op :=
    [EioConnect e1 env1; EioConnect e2 env1;
     EioMessage e1 (PStr (s2l "0")) [];
     EioMessage e2 (PStr (s2l "0")) [];
     connect_chat e1;
     EioMessage e2 (PStr (s2l "0/plain,")) []].
  (* e1 is S0 on "/" and S2 on "/chat"; e2 is S1 on "/" and S3 on "/plain" *)
  Definition s0 := fst (run c srv_init ops0).
  Definition S (n : N) := PStr (sid_name n).
End Ex.
