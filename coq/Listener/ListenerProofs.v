(* C15 - proofs about the listener model (Listener.v) and the Redis retry loops (RedisRetry.v) *)
From VT Require Import Listener.Listener Listener.RedisRetry.
From Coq Require Import Lia ZifyBool.
Open Scope N_scope.

(* ================================================================== *)
(* 1. The loop handles every item: _thread is a fold of [step]         *)
(* ================================================================== *)

Lemma run_cons own a s it rest :
  run own a s (it :: rest) =
  (fst (run own a (fst (step own a s it)) rest),
   snd (step own a s it) :: snd (run own a (fst (step own a s it)) rest)).
Proof.
  cbn [run]. destruct (step own a s it) as [s' e]. cbn [fst snd].
  destruct (run own a s' rest) as [s'' es]. reflexivity.
Qed.

Lemma run_app own a pre : forall s post,
  run own a s (pre ++ post) =
  (fst (run own a (fst (run own a s pre)) post),
   snd (run own a s pre) ++ snd (run own a (fst (run own a s pre)) post)).
Proof.
  induction pre as [|it pre IH]; intros s post.
  - cbn [app run fst snd]. destruct (run own a s post); reflexivity.
  - rewrite <- app_comm_cons. rewrite !run_cons. cbn [fst snd]. rewrite IH. reflexivity.
Qed.

Lemma run_length own a : forall its s, List.length (snd (run own a s its)) = List.length its.
Proof.
  induction its as [|it its IH]; intros s; [reflexivity|].
  rewrite run_cons. cbn [snd List.length]. rewrite IH. reflexivity.
Qed.

(* the for statement: either the iterator is exhausted and every item was stepped, or an
   exception left it at some item, and the rest of the channel is strictly shorter *)
Lemma for_loop_spec own a : forall its s,
  match for_loop own a s its with
  | (s', effs, None) =>
      s' = fst (run own a s its) /\ effs = List.concat (snd (run own a s its))
  | (s', effs, Some (e, rest)) =>
      (List.length rest < List.length its)%nat /\
      fst (run own a s its) = fst (run own a s' rest) /\
      List.concat (snd (run own a s its)) =
      effs ++ [ELogExc e; EListen] ++ List.concat (snd (run own a s' rest))
  end.
Proof.
  induction its as [|it its IH]; intros s.
  - cbn. split; reflexivity.
  - cbn [for_loop]. rewrite run_cons. unfold step.
    destruct (run_item own a s it) as [[s1 e1] [u|e]].
    + cbn [fst snd]. specialize (IH s1).
      destruct (for_loop own a s1 its) as [[s2 e2] [[e rest]|]].
      * destruct IH as (Hl & Hs & Hc). cbn [List.length List.concat].
        split; [lia|]. split; [exact Hs|]. rewrite Hc. rewrite <- !app_assoc. reflexivity.
      * destruct IH as (Hs & Hc). cbn [List.concat]. subst. split; reflexivity.
    + cbn [fst snd List.length List.concat]. split; [lia|]. split; [reflexivity|].
      rewrite <- !app_assoc. reflexivity.
Qed.

(* when no item of the channel ends in an unabsorbed CancelledError, the exception that leaves the for
   statement is never one, and the same holds of the rest of the channel *)
Lemma for_loop_no_cancel own a : forall its s,
  no_cancel own a s its = true ->
  match for_loop own a s its with
  | (_, _, None) => True
  | (s', _, Some (e, rest)) => is_cancel e = false /\ no_cancel own a s' rest = true
  end.
Proof.
  induction its as [|it its IH]; intros s H; [exact I|].
  cbn [no_cancel] in H. apply andb_true_iff in H. destruct H as [H1 H2].
  unfold cancels, step in *. cbn [for_loop].
  destruct (run_item own a s it) as [[s1 e1] [u|e]]; cbn [fst] in H2.
  - specialize (IH s1 H2). destruct (for_loop own a s1 its) as [[s2 e2] [[e rest]|]]; exact IH.
  - apply negb_true_iff in H1. split; assumption.
Qed.

Lemma while_loop_total own a : forall fuel its s,
  (List.length its < fuel)%nat -> no_cancel own a s its = true ->
  while_loop fuel own a s its =
  (fst (run own a s its), EListen :: List.concat (snd (run own a s its)) ++ [ELogErr], Exited).
Proof.
  induction fuel as [|f IH]; intros its s Hlen Hnc; [lia|].
  cbn [while_loop]. pose proof (for_loop_spec own a its s) as H.
  pose proof (for_loop_no_cancel own a its s Hnc) as N.
  destruct (for_loop own a s its) as [[s1 e1] [[e rest]|]].
  - destruct H as (Hl & Hs & Hc). destruct N as (Ne & Nr). rewrite Ne.
    rewrite IH by (try lia; exact Nr). rewrite Hs, Hc.
    cbn [app]. rewrite <- !app_assoc. reflexivity.
  - destruct H as (Hs & Hc). subst. reflexivity.
Qed.

(* C15_total, first half: as long as no CancelledError gets past the handlers (no_cancel), the literal
   transcription of the two nested loops never stops early, never lets an exception out, and is exactly
   the fold of [step] over the whole channel *)
Theorem thread_total own a s its :
  no_cancel own a s its = true ->
  thread own a s its =
  (fst (run own a s its), EListen :: List.concat (snd (run own a s its)) ++ [ELogErr], Exited).
Proof. intros H. unfold thread. apply while_loop_total; [lia|exact H]. Qed.

(* C15_total, second half: the k-th item is handled in the state left by the first k-1,
   whatever their outcome; one segment of effects per item *)
Theorem run_compositional own a s pre post :
  run own a s (pre ++ post) =
  (fst (run own a (fst (run own a s pre)) post),
   snd (run own a s pre) ++ snd (run own a (fst (run own a s pre)) post)) /\
  List.length (snd (run own a s (pre ++ post))) = (List.length pre + List.length post)%nat.
Proof. split; [apply run_app|]. rewrite run_length, app_length. reflexivity. Qed.

Example thread_total_example :
  let kv := [(PStr k_method, PStr m_emit); (PStr k_event, PStr (s2l "e")); (PStr k_data, PInt 1%Z);
             (PStr k_namespace, PStr (s2l "/")); (PStr k_host_id, PStr (s2l "B"))] in
  let s := mkMgr [(PStr (s2l "/"), [(PNone, [(PStr (s2l "c1"), PStr (s2l "e1"))])])] [] in
  let its := [IMsg (PBytes [1]) (Some (PInt 5%Z)) None [];      (* 'method' in 5 raises: outer restart *)
              IMsg (PDict kv) None None [None; Some RuntimeError];   (* the send raises: contained *)
              IRaise ValueError;
              IMsg (PDict kv) None None []] in
  forallb ordinary_item its = true /\ no_cancel (PStr (s2l "A")) false s its = true /\
  thread (PStr (s2l "A")) false s its =
  (s, [EListen; ELogExc TypeError; EListen;
       EOp OEmit [PStr (s2l "e"); PInt 1%Z; PStr (s2l "/"); PNone; PNone; PNone]; ELogExc RuntimeError;
       ELogExc ValueError; EListen;
       EOp OEmit [PStr (s2l "e"); PInt 1%Z; PStr (s2l "/"); PNone; PNone; PNone];
       ESend (PStr (s2l "e1")) (PTuple [PStr (s2l "/"); PList [PStr (s2l "e"); PInt 1%Z]; PNone]);
       ELogErr], Exited).
Proof. vm_compute. repeat split. Qed.

(* ================================================================== *)
(* 2. Ineffective messages                                             *)
(* ================================================================== *)

(* w' differs from w only by effects nobody can observe (log lines, call records) and by the
   consumption of the item's fault script *)
Definition quiet (w w' : world) : Prop :=
  w_st w' = w_st w /\ w_pend w' = w_pend w /\
  exists l, w_out w' = l ++ w_out w /\ filter observable l = [].

Lemma quiet_refl w : quiet w w.
Proof. repeat split. exists []. split; reflexivity. Qed.

Lemma quiet_trans w1 w2 w3 : quiet w1 w2 -> quiet w2 w3 -> quiet w1 w3.
Proof.
  intros (S1 & P1 & l1 & O1 & F1) (S2 & P2 & l2 & O2 & F2).
  repeat split; try congruence.
  exists (l2 ++ l1). split.
  - rewrite O2, O1. apply app_assoc.
  - rewrite filter_app, F1, F2. reflexivity.
Qed.

Lemma quiet_say e w : observable e = false -> quiet w (fst (say e w)).
Proof.
  intros H. cbn. repeat split. exists [e]. split; [reflexivity|]. cbn. rewrite H. reflexivity.
Qed.

Lemma quiet_fault w : quiet w (fst (fault w)).
Proof.
  unfold fault. destruct (w_fs w) as [|[e|] r]; cbn; repeat split; exists []; split; reflexivity.
Qed.

(* the end of an item: nothing is pending, so flush does nothing *)
Lemma finish_quiet s fs w r :
  quiet (mkW s fs [] []) w ->
  fst (fst (finish w r)) = s /\ filter observable (snd (fst (finish w r))) = [] /\ snd (finish w r) = r.
Proof.
  intros (S1 & P1 & l & O1 & F1). cbn in S1, P1, O1. rewrite app_nil_r in O1.
  unfold finish, flush. rewrite P1. cbn [rev run_sends ret]. cbn [w_st w_out fst snd].
  repeat split; [exact S1|].
  rewrite O1.
  assert (G : forall l0 : list eff, filter observable l0 = [] -> filter observable (rev l0) = []).
  { induction l0 as [|x l0 IH]; [reflexivity|]. cbn [filter rev]. intros H.
    rewrite filter_app. destruct (observable x) eqn:Ox; [discriminate|].
    rewrite IH by exact H. cbn. rewrite Ox. reflexivity. }
  apply G. exact F1.
Qed.

(* a quiet body gives a quiet step *)
Lemma step_of_quiet_body own a s m pk js fs :
  quiet (mkW s fs [] []) (fst (body own a m pk js (mkW s fs [] []))) ->
  fst (step own a s (IMsg m pk js fs)) = s /\
  filter observable (snd (step own a s (IMsg m pk js fs))) = [].
Proof.
  intros Q. unfold step, run_item.
  destruct (body own a m pk js (mkW s fs [] [])) as [w r]. cbn [fst] in Q.
  destruct (finish_quiet s fs w r Q) as (H1 & H2 & H3).
  destruct (finish w r) as [[s' effs] r']. cbn [fst snd] in *. subst.
  destruct r as [u|e]; cbn [fst snd]; split; try reflexivity; try assumption.
  rewrite filter_app, H2. reflexivity.
Qed.

(* ---- the body on a decoded dict ---- *)
Lemma body_dict own a m pk js kv meth w :
  decode m pk js = PDict kv -> aget (PStr k_method) kv = Some meth ->
  body own a m pk js w = catch (dispatch own a kv meth) log_exc w.
Proof.
  intros D Hm. unfold body. rewrite D.
  assert (T : truthy (PDict kv) = true).
  { destruct kv; [discriminate Hm|reflexivity]. }
  rewrite T. unfold py_in_method, py_getitem_method, dreq. rewrite Hm.
  unfold bindM, lift. reflexivity.
Qed.

Lemma body_dict_nomethod own a m pk js kv w :
  decode m pk js = PDict kv -> aget (PStr k_method) kv = None ->
  body own a m pk js w = (w, Ok tt).
Proof.
  intros D Hm. unfold body. rewrite D. destruct (truthy (PDict kv)); [|reflexivity].
  unfold py_in_method. rewrite Hm. reflexivity.
Qed.

Lemma body_nondict own a m pk js w :
  (forall kv, decode m pk js <> PDict kv) ->
  fst (body own a m pk js w) = w.
Proof.
  intros D. unfold body. destruct (decode m pk js) as [| b | z | t | s | s | l | l | kv | n] eqn:E;
    try (exfalso; eapply D; reflexivity).
  all: destruct (truthy _); try reflexivity.
  all: unfold bindM, lift, py_in_method; cbn [fst]; try reflexivity.
  all: match goal with |- context [if ?c then _ else _] => destruct c end; reflexivity.
Qed.

(* catching and logging keeps a quiet computation quiet *)
Lemma quiet_catch_log (m : M unit) w :
  quiet w (fst (m w)) -> quiet w (fst (catch m log_exc w)).
Proof.
  intros Q. unfold catch. destruct (m w) as [w' [u|e]]; cbn [fst] in *; [exact Q|].
  unfold log_exc. destruct (is_cancel e); [exact Q|].
  eapply quiet_trans; [exact Q|]. apply quiet_say. reflexivity.
Qed.

(* ---- the quiet leaves of dispatch ---- *)

(* trigger_callback for a sid / id that cannot be found *)
Lemma trigger_unknown_quiet f own a sid id args w :
  (hashable sid && hashable id = false \/
   aget sid (cbs (w_st w)) = None \/
   exists d, aget sid (cbs (w_st w)) = Some d /\
             (aget id d = None \/ exists n, aget id d = Some (Counter n))) ->
  quiet w (fst (trigger (S f) own a sid id args w)).
Proof.
  intros H. cbn [trigger]. unfold bindM at 1. cbn [say].
  set (w1 := mkW (w_st w) (w_fs w) (EOp OTrigger [sid; id; args] :: w_out w) (w_pend w)).
  assert (Q1 : quiet w w1).
  { repeat split. exists [EOp OTrigger [sid; id; args]]. split; reflexivity. }
  unfold bindM at 1. pose proof (quiet_fault w1) as Qf.
  destruct (fault w1) as [w2 [u|e]] eqn:Ef; cbn [fst] in Qf;
    [|cbn [fst]; eapply quiet_trans; eassumption].
  assert (S2 : w_st w2 = w_st w) by (destruct Qf as (S & _); exact S).
  unfold bindM at 1. unfold catch at 1. unfold hk.
  destruct (hashable sid) eqn:Hs.
  - unfold bindM at 1. cbn [ret]. unfold bindM at 1. cbn [getst]. rewrite S2.
    destruct (aget sid (cbs (w_st w))) as [d|] eqn:Ed.
    + destruct (hashable id) eqn:Hi.
      * unfold bindM at 1. cbn [ret].
        assert (W : forall w3, w3 = w2 ->
                  quiet w (fst ((say ELogWarn >> ret (@None cbslot)) w3))).
        { intros w3 ->. unfold bindM. cbn [say ret fst].
          eapply quiet_trans; [exact Q1|]. eapply quiet_trans; [exact Qf|].
          repeat split. exists [ELogWarn]. split; reflexivity. }
        destruct (aget id d) as [[n|n|h x y z]|] eqn:Ei.
        2, 3: exfalso; destruct H as [H|[H|(d' & H1 & [H2|(n' & H2)])]];
            [try rewrite Hs in H; try rewrite Hi in H; discriminate H | congruence | congruence | congruence].
        all: cbn [raise]; apply W; reflexivity.
      * unfold bindM at 1. cbn [raise fst].
        eapply quiet_trans; eassumption.
    + cbn [raise]. unfold bindM at 1. cbn [say]. cbn [ret fst].
      eapply quiet_trans; [exact Q1|]. eapply quiet_trans; [exact Qf|].
      repeat split. exists [ELogWarn]. split; reflexivity.
  - unfold bindM at 1. cbn [raise fst]. eapply quiet_trans; eassumption.
Qed.

Lemma op_trigger_unknown_quiet own a sid id args w :
  (hashable sid && hashable id = false \/
   aget sid (cbs (w_st w)) = None \/
   exists d, aget sid (cbs (w_st w)) = Some d /\
             (aget id d = None \/ exists n, aget id d = Some (Counter n))) ->
  quiet w (fst (op_trigger own a sid id args w)).
Proof.
  intros H. unfold op_trigger. unfold bindM. cbn [getst]. apply trigger_unknown_quiet. exact H.
Qed.

(* is_connected answering False, or failing on an unhashable key *)
Lemma op_is_connected_quiet sid ns w : quiet w (fst (op_is_connected sid ns w)).
Proof.
  unfold op_is_connected. unfold bindM at 1. cbn [say].
  set (w1 := mkW (w_st w) (w_fs w) (EOp OIsConn [sid; ns] :: w_out w) (w_pend w)).
  assert (Q1 : quiet w w1).
  { repeat split. exists [EOp OIsConn [sid; ns]]. split; reflexivity. }
  unfold bindM at 1. pose proof (quiet_fault w1) as Qf.
  destruct (fault w1) as [w2 [u|e]]; cbn [fst] in Qf |- *; [|eapply quiet_trans; eassumption].
  unfold bindM. cbn [getst lift].
  destruct (is_connected_raw (w_st w2) sid ns); cbn [fst]; eapply quiet_trans; eassumption.
Qed.

Lemma op_is_connected_result sid ns w w' r :
  op_is_connected sid ns w = (w', Ok r) -> w_st w' = w_st w /\ is_connected_raw (w_st w) sid ns = Ok r.
Proof.
  unfold op_is_connected. unfold bindM at 1. cbn [say]. unfold bindM at 1.
  set (w1 := mkW (w_st w) (w_fs w) (EOp OIsConn [sid; ns] :: w_out w) (w_pend w)).
  pose proof (quiet_fault w1) as Qf.
  destruct (fault w1) as [w2 [u|e]]; cbn [fst] in Qf; [|discriminate].
  destruct Qf as (S2 & _). cbn in S2.
  unfold bindM. cbn [getst lift]. rewrite S2.
  destruct (is_connected_raw (w_st w) sid ns) as [b|e]; intros E; inversion E; subst.
  split; [exact S2|reflexivity].
Qed.

Lemma room_op_quiet (k : M unit) sid ns w :
  (is_connected_raw (w_st w) sid ns = Ok false \/ exists e, is_connected_raw (w_st w) sid ns = Err e) ->
  quiet w (fst ((c <~ op_is_connected sid ns ;; if c then k else ret tt) w)).
Proof.
  intros H. unfold bindM.
  pose proof (op_is_connected_quiet sid ns w) as Q.
  destruct (op_is_connected sid ns w) as [w' [c|e]] eqn:E; cbn [fst] in Q |- *; [|exact Q].
  apply op_is_connected_result in E. destruct E as (_ & E).
  destruct H as [H|(e & H)]; rewrite H in E; inversion E; subst. exact Q.
Qed.

Lemma handle_emit_malformed_quiet a kv w :
  (match remote_cb (dget k_callback kv) (dget k_host_id kv), dreq k_event kv, dreq k_data kv with
   | Ok _, Ok _, Ok _ => false
   | _, _, _ => true
   end = true) ->
  fst (handle_emit a kv w) = w.
Proof.
  intros H. unfold handle_emit, bindM, lift.
  destruct (remote_cb (dget k_callback kv) (dget k_host_id kv)); [|reflexivity].
  destruct (dreq k_event kv); [|reflexivity].
  destruct (dreq k_data kv); [discriminate H|reflexivity].
Qed.

(* C15_inert, one message: every class of ineffective message leaves the manager state as it was
   and produces nothing an application or client can observe - whatever the state, the fault
   script, the encoding *)
Theorem inert_step own a s it c :
  classify own s it = Some c ->
  fst (step own a s it) = s /\ filter observable (snd (step own a s it)) = [].
Proof.
  intros H. destruct it as [m pk js fs | e | sid id args fs]; try discriminate H.
  apply step_of_quiet_body. set (w0 := mkW s fs [] []).
  unfold classify in H.
  destruct (decode m pk js) as [| b | z | t | st | st | l | l | kv | n] eqn:D.
  1-8, 10: rewrite body_nondict by (intros kv E; rewrite D in E; discriminate E); apply quiet_refl.
  destruct (aget (PStr k_method) kv) as [meth|] eqn:Hm.
  2: { rewrite (body_dict_nomethod own a m pk js kv w0 D Hm). apply quiet_refl. }
  rewrite (body_dict own a m pk js kv meth w0 D Hm). apply quiet_catch_log. unfold dispatch.
  destruct (py_eq meth (PStr k_callback)) eqn:C1.
  { unfold handle_callback. destruct (py_eq own (dget k_host_id kv)) eqn:C2; [|apply quiet_refl].
    destruct (dreq k_sid kv) as [sid|]; [|apply quiet_refl].
    destruct (dreq k_id kv) as [id|]; [|apply quiet_refl].
    destruct (dreq k_args kv) as [args|]; [|apply quiet_refl].
    apply op_trigger_unknown_quiet. cbn [w0 w_st].
    destruct (hashable sid && hashable id) eqn:Hh; [|left; reflexivity]. right.
    destruct (aget sid (cbs s)) as [d|] eqn:Ed; [|left; reflexivity]. right. exists d. split; [reflexivity|].
    destruct (aget id d) as [[n|n|h x y z]|] eqn:Ei; try discriminate H.
    - right. exists n. reflexivity.
    - left. reflexivity. }
  destruct (py_eq (dget k_host_id kv) own) eqn:C2; cbn [negb]; [apply quiet_refl|].
  destruct (py_eq meth (PStr m_emit)) eqn:C3.
  { rewrite handle_emit_malformed_quiet; [apply quiet_refl|].
    destruct (remote_cb (dget k_callback kv) (dget k_host_id kv)); [|reflexivity].
    destruct (dreq k_event kv); [|reflexivity].
    destruct (dreq k_data kv); [discriminate H|reflexivity]. }
  destruct (py_eq meth (PStr m_disconnect)) eqn:C4; [discriminate H|].
  destruct (py_eq meth (PStr m_enter_room)) eqn:C5; cbn [orb] in H.
  { unfold handle_enter_room. apply room_op_quiet. cbn [w0 w_st].
    destruct (is_connected_raw s (dget k_sid kv) (dget k_namespace kv)) as [[|]|e];
      [discriminate H|left; reflexivity|right; eexists; reflexivity]. }
  destruct (py_eq meth (PStr m_leave_room)) eqn:C6.
  { unfold handle_leave_room. apply room_op_quiet. cbn [w0 w_st].
    destruct (is_connected_raw s (dget k_sid kv) (dget k_namespace kv)) as [[|]|e];
      [discriminate H|left; reflexivity|right; eexists; reflexivity]. }
  destruct (py_eq meth (PStr m_close_room)) eqn:C7; [discriminate H|].
  apply quiet_refl.
Qed.

(* C15_inert: removing an ineffective message (any of the twelve classes) from anywhere in the channel
   changes neither the final manager state nor the observable effects *)
Theorem inert_anywhere own a s pre bad post c :
  classify own (fst (run own a s pre)) bad = Some c ->
  visible own a s (pre ++ bad :: post) = visible own a s (pre ++ post).
Proof.
  intros H. unfold visible.
  rewrite (run_app own a pre s (bad :: post)), (run_app own a pre s post).
  set (s1 := fst (run own a s pre)) in *.
  rewrite run_cons. destruct (inert_step own a s1 bad c H) as (E1 & E2).
  cbn [fst snd]. rewrite E1.
  rewrite !concat_app. cbn [List.concat]. rewrite !filter_app. rewrite E2. reflexivity.
Qed.

(* the former exception (python-socketio before "an ACK with id 0 no longer pops the ack id
   generator"): a callback message whose id is 0 reached slot 0 of callbacks[sid], the
   itertools.count that issues ids, and deleted it.  Now only callables are callbacks: the message
   is logged as unknown, the generator stays, and the emit with callback that follows is delivered *)
Example counter_slot_survives :
  let c1 := PStr (s2l "c1") in let ns := PStr (s2l "/") in
  let s := mkMgr [(ns, [(PNone, [(c1, PStr (s2l "e1"))]); (c1, [(c1, PStr (s2l "e1"))])])]
                 [(c1, [(PInt 0%Z, Counter 2%Z); (PInt 1%Z, CbApp 1)])] in
  let bad := IMsg (PDict [(PStr k_method, PStr k_callback); (PStr k_host_id, PStr (s2l "A")); (PStr k_sid, c1);
                          (PStr k_id, PInt 0%Z); (PStr k_args, PList [])]) None None [] in
  let post := [IMsg (PDict [(PStr k_method, PStr m_emit); (PStr k_event, PStr (s2l "ev")); (PStr k_data, PInt 1%Z);
                            (PStr k_namespace, ns); (PStr k_room, c1);
                            (PStr k_callback, PTuple [c1; ns; PInt 7%Z]); (PStr k_host_id, PStr (s2l "B"))])
                     None None []] in
  classify (PStr (s2l "A")) s bad = Some BCallbackCounter /\
  step (PStr (s2l "A")) false s bad = (s, [EOp OTrigger [c1; PInt 0%Z; PList []]; ELogWarn]) /\
  snd (visible (PStr (s2l "A")) false s (bad :: post)) =
    [ESend (PStr (s2l "e1")) (PTuple [ns; PList [PStr (s2l "ev"); PInt 1%Z]; PInt 2%Z])].
Proof. vm_compute. repeat split. Qed.

(* ================================================================== *)
(* 3. Foreign acknowledgements and own echoes are not applied          *)
(* ================================================================== *)

Lemma finish_nothing s fs r : finish (mkW s fs [] []) r = (s, [], r).
Proof. reflexivity. Qed.

(* C15_foreign_callback_ignored: a callback message whose host_id is not this host's does nothing
   at all here - no trigger_callback, no log line, no state change - in any state *)
Theorem foreign_callback_ignored own a s m pk js fs kv meth :
  decode m pk js = PDict kv -> aget (PStr k_method) kv = Some meth ->
  py_eq meth (PStr k_callback) = true -> py_eq own (dget k_host_id kv) = false ->
  step own a s (IMsg m pk js fs) = (s, []).
Proof.
  intros D Hm C1 C2. unfold step, run_item. rewrite (body_dict own a m pk js kv meth _ D Hm).
  unfold catch, dispatch. rewrite C1. unfold handle_callback. rewrite C2. cbn [ret].
  rewrite finish_nothing. reflexivity.
Qed.

(* the echo filter: any message that is not a callback and carries this host's id is dropped *)
Theorem own_echo_ignored own a s m pk js fs kv meth :
  decode m pk js = PDict kv -> aget (PStr k_method) kv = Some meth ->
  py_eq meth (PStr k_callback) = false -> py_eq (dget k_host_id kv) own = true ->
  step own a s (IMsg m pk js fs) = (s, []).
Proof.
  intros D Hm C1 C2. unfold step, run_item. rewrite (body_dict own a m pk js kv meth _ D Hm).
  unfold catch, dispatch. rewrite C1, C2. cbn [negb ret].
  rewrite finish_nothing. reflexivity.
Qed.

Lemma py_eq_str_refl o : py_eq (PStr o) (PStr o) = true.
Proof. cbn. apply str_eqb_refl. Qed.

Lemma py_eq_str_sym o h : py_eq h (PStr o) = py_eq (PStr o) h.
Proof.
  destruct h; try reflexivity; cbn.
  - destruct (str_eqb s o) eqn:E1, (str_eqb o s) eqn:E2; try reflexivity.
    + apply str_eqb_eq in E1. subst. rewrite str_eqb_refl in E2. discriminate.
    + apply str_eqb_eq in E2. subst. rewrite str_eqb_refl in E1. discriminate.
Qed.

(* C15_no_self_apply, part 1: the five kinds of message this host publishes through its API
   (transcribed dict literals of emit / disconnect / enter_room / leave_room / close_room)
   are dropped by its own listener, as a dict or after a pickle / JSON round trip *)
Definition published_by_api (o : str) (msg : pv) : Prop :=
  (exists ev da ns room skip cb, msg = msg_emit (PStr o) ev da ns room skip cb) \/
  (exists sid ns, msg = msg_disconnect (PStr o) sid ns) \/
  (exists sid room ns, msg = msg_enter_room (PStr o) sid room ns) \/
  (exists sid room ns, msg = msg_leave_room (PStr o) sid room ns) \/
  (exists room ns, msg = msg_close_room (PStr o) room ns).

Theorem api_message_not_reapplied o a s m pk js fs msg :
  published_by_api o msg -> decode m pk js = msg ->
  step (PStr o) a s (IMsg m pk js fs) = (s, []).
Proof.
  intros H D.
  destruct H as [(ev & da & ns & room & skip & cb & E)|[(sid & ns & E)|[(sid & room & ns & E)|
                 [(sid & room & ns & E)|(room & ns & E)]]]]; subst msg.
  all: eapply own_echo_ignored; [exact D|reflexivity|reflexivity|].
  all: unfold dget; cbn [aget]; cbn; apply str_eqb_refl.
Qed.

(* ================================================================== *)
(* 4. Which effects the operations can produce                         *)
(* ================================================================== *)

(* every effect a computation adds satisfies P *)
Definition pres (P : eff -> Prop) {A} (m : M A) : Prop :=
  forall w, Forall P (w_out w) -> Forall P (w_out (fst (m w))).

Section Pres.
  Variable P : eff -> Prop.

  Lemma pres_silent A (m : M A) : (forall w, w_out (fst (m w)) = w_out w) -> pres P m.
  Proof. intros H w Hw. rewrite H. exact Hw. Qed.

  Lemma pres_ret A (x : A) : pres P (ret x).
  Proof. apply pres_silent. reflexivity. Qed.
  Lemma pres_raise A e : pres P (@raise A e).
  Proof. apply pres_silent. reflexivity. Qed.
  Lemma pres_lift A (r : Res A) : pres P (lift r).
  Proof. apply pres_silent. reflexivity. Qed.
  Lemma pres_getst : pres P getst.
  Proof. apply pres_silent. reflexivity. Qed.
  Lemma pres_putst s : pres P (putst s).
  Proof. apply pres_silent. reflexivity. Qed.
  Lemma pres_push_pend e p : pres P (push_pend e p).
  Proof. apply pres_silent. reflexivity. Qed.
  Lemma pres_hk k : pres P (hk k).
  Proof. unfold hk. destruct (hashable k); [apply pres_ret|apply pres_raise]. Qed.
  Lemma pres_fault : pres P fault.
  Proof. apply pres_silent. intros w. unfold fault. destruct (w_fs w) as [|[e|] r]; reflexivity. Qed.
  Lemma pres_say e : P e -> pres P (say e).
  Proof. intros H w Hw. cbn. constructor; assumption. Qed.
  Lemma pres_bind A B (m : M A) (k : A -> M B) :
    pres P m -> (forall x, pres P (k x)) -> pres P (bindM m k).
  Proof.
    intros Hm Hk w Hw. unfold bindM. specialize (Hm w Hw).
    destruct (m w) as [w' [x|e]]; cbn [fst] in *; [apply Hk; exact Hm|exact Hm].
  Qed.
  Lemma pres_catch A (m : M A) (h : exn -> M A) :
    pres P m -> (forall e, pres P (h e)) -> pres P (catch m h).
  Proof.
    intros Hm Hh w Hw. unfold catch. specialize (Hm w Hw).
    destruct (m w) as [w' [x|e]]; cbn [fst] in *; [exact Hm|apply Hh; exact Hm].
  Qed.
End Pres.

Ltac pres_step :=
  lazymatch goal with
  | |- pres _ (bindM _ _) => apply pres_bind; [|intro]
  | |- pres _ (ret _) => apply pres_ret
  | |- pres _ (raise _) => apply pres_raise
  | |- pres _ (lift _) => apply pres_lift
  | |- pres _ getst => apply pres_getst
  | |- pres _ (putst _) => apply pres_putst
  | |- pres _ (push_pend _ _) => apply pres_push_pend
  | |- pres _ (hk _) => apply pres_hk
  | |- pres _ fault => apply pres_fault
  | |- pres _ (catch _ _) => apply pres_catch; [|intro]
  | |- pres _ (swallow_key _) => unfold swallow_key
  | |- pres _ (match ?x with _ => _ end) => destruct x
  | |- pres _ (let _ := _ in _) => cbv zeta
  end.
Ltac pres_auto := repeat pres_step.

Section PresOps.
  Variable P : eff -> Prop.
  (* P holds of everything except (possibly) callbacks and publications *)
  Hypothesis P_listen : P EListen.
  Hypothesis P_logexc : forall e, P (ELogExc e).
  Hypothesis P_logerr : P ELogErr.
  Hypothesis P_logwarn : P ELogWarn.
  Hypothesis P_op : forall o l, P (EOp o l).
  Hypothesis P_send : forall e p, P (ESend e p).
  Hypothesis P_disc : forall s n q, P (EDisconnect s n q).

  Lemma pres_basic_enter_room sid ns room : pres P (basic_enter_room sid ns room).
  Proof. unfold basic_enter_room. pres_auto. Qed.
  Lemma pres_basic_leave_room sid ns room : pres P (basic_leave_room sid ns room).
  Proof. unfold basic_leave_room. pres_auto. Qed.
  Lemma pres_leave_all ns room parts : pres P (leave_all ns room parts).
  Proof.
    induction parts as [|[sid e] rest IH]; cbn [leave_all]; [apply pres_ret|].
    apply pres_bind; [apply pres_basic_leave_room|intro; exact IH].
  Qed.
  Lemma pres_basic_close_room room ns : pres P (basic_close_room room ns).
  Proof.
    unfold basic_close_room, swallow_key. apply pres_catch; [|intro; pres_auto].
    pres_auto. apply pres_leave_all.
  Qed.
  Lemma pres_gen_ack_id sid cb : pres P (gen_ack_id sid cb).
  Proof. unfold gen_ack_id. pres_auto. Qed.
  Lemma pres_send eio pkt : pres P (send eio pkt).
  Proof. unfold send. pres_auto. apply pres_say. apply P_send. Qed.
  Lemma pres_emit_sync ns payload cb skip parts : pres P (emit_sync ns payload cb skip parts).
  Proof.
    induction parts as [|[sid e] rest IH]; cbn [emit_sync]; [apply pres_ret|].
    destruct (existsb _ skip); [exact IH|].
    apply pres_bind.
    - destruct cb; [|apply pres_ret]. apply pres_bind; [apply pres_gen_ack_id|intro; apply pres_ret].
    - intro. apply pres_bind; [apply pres_send|intro; exact IH].
  Qed.
  Lemma pres_emit_async_tasks ns payload cb skip parts : pres P (emit_async_tasks ns payload cb skip parts).
  Proof.
    induction parts as [|[sid e] rest IH]; cbn [emit_async_tasks]; [apply pres_ret|].
    destruct (existsb _ skip); [exact IH|].
    apply pres_bind.
    - destruct cb; [|apply pres_ret]. apply pres_bind; [apply pres_gen_ack_id|intro; apply pres_ret].
    - intro. apply pres_bind; [apply pres_push_pend|intro; exact IH].
  Qed.
  Lemma pres_run_sends l : pres P (run_sends l).
  Proof.
    induction l as [|[e p] rest IH]; cbn [run_sends]; [apply pres_ret|].
    apply pres_bind; [|intro; exact IH].
    apply pres_catch; [apply pres_send|intro; apply pres_ret].
  Qed.
  Lemma pres_flush : pres P flush.
  Proof. intros w Hw. unfold flush. apply pres_run_sends. exact Hw. Qed.
  Lemma pres_op_emit a ev da ns room skip cb : pres P (op_emit a ev da ns room skip cb).
  Proof.
    unfold op_emit. apply pres_bind; [apply pres_say; apply P_op|intro].
    pres_auto.
    - apply pres_emit_async_tasks.
    - apply pres_flush.
    - apply pres_emit_sync.
  Qed.
  Lemma pres_op_is_connected sid ns : pres P (op_is_connected sid ns).
  Proof. unfold op_is_connected. apply pres_bind; [apply pres_say; apply P_op|intro]. pres_auto. Qed.
  Lemma pres_op_enter_room sid ns room : pres P (op_enter_room sid ns room).
  Proof.
    unfold op_enter_room. apply pres_bind; [apply pres_say; apply P_op|intro].
    apply pres_bind; [apply pres_fault|intro]. apply pres_basic_enter_room.
  Qed.
  Lemma pres_op_leave_room sid ns room : pres P (op_leave_room sid ns room).
  Proof.
    unfold op_leave_room. apply pres_bind; [apply pres_say; apply P_op|intro].
    apply pres_bind; [apply pres_fault|intro]. apply pres_basic_leave_room.
  Qed.
  Lemma pres_op_close_room room ns : pres P (op_close_room room ns).
  Proof.
    unfold op_close_room. apply pres_bind; [apply pres_say; apply P_op|intro].
    apply pres_bind; [apply pres_fault|intro]. apply pres_basic_close_room.
  Qed.
  Lemma pres_leave_rooms sid ns names : pres P (leave_rooms sid ns names).
  Proof.
    induction names as [|r rest IH]; cbn [leave_rooms]; [apply pres_ret|].
    apply pres_bind; [apply pres_basic_leave_room|intro; exact IH].
  Qed.
  Lemma pres_server_disconnect sid ns : pres P (server_disconnect sid ns).
  Proof.
    unfold server_disconnect. apply pres_bind; [apply pres_say; apply P_disc|intro].
    pres_auto. unfold basic_disconnect. pres_auto. apply pres_leave_rooms.
  Qed.
  Lemma pres_handle_emit a kv : pres P (handle_emit a kv).
  Proof. unfold handle_emit. pres_auto. apply pres_op_emit. Qed.
  Lemma pres_handle_disconnect kv : pres P (handle_disconnect kv).
  Proof. apply pres_server_disconnect. Qed.
  Lemma pres_handle_enter_room kv : pres P (handle_enter_room kv).
  Proof.
    unfold handle_enter_room. cbv zeta. apply pres_bind; [apply pres_op_is_connected|intros [|]];
      [apply pres_op_enter_room|apply pres_ret].
  Qed.
  Lemma pres_handle_leave_room kv : pres P (handle_leave_room kv).
  Proof.
    unfold handle_leave_room. cbv zeta. apply pres_bind; [apply pres_op_is_connected|intros [|]];
      [apply pres_op_leave_room|apply pres_ret].
  Qed.
  Lemma pres_handle_close_room kv : pres P (handle_close_room kv).
  Proof. apply pres_op_close_room. Qed.

  (* trigger_callback is the only operation that invokes callbacks or publishes *)
  Variable own : pv.
  Hypothesis P_cb : forall n l, P (ECallback n l).
  Hypothesis P_pub : forall h x y z args, py_eq h own = false -> P (EPublish (cb_msg h x y z args)).

  Lemma pres_absorb_cancel (m : M unit) : pres P m -> pres P (absorb_cancel m).
  Proof.
    intros H. unfold absorb_cancel. apply pres_catch; [exact H|].
    intros e. destruct (is_cancel e); [apply pres_ret|apply pres_raise].
  Qed.
  Lemma pres_log_exc e : pres P (log_exc e).
  Proof. unfold log_exc. destruct (is_cancel e); [apply pres_raise|apply pres_say; apply P_logexc]. Qed.
  Lemma pres_app_callback a n l : pres P (app_callback a n l).
  Proof.
    unfold app_callback. apply pres_bind; [apply pres_say; apply P_cb|intro].
    destruct (cb_is_coro a n); [apply pres_absorb_cancel|]; apply pres_fault.
  Qed.
  Lemma pres_trigger a : forall f sid id args, pres P (trigger f own a sid id args).
  Proof.
    induction f as [|f IH]; intros sid id args; cbn [trigger]; [apply pres_raise|].
    apply pres_bind; [apply pres_say; apply P_op|intro].
    apply pres_bind; [apply pres_fault|intro].
    apply pres_bind.
    - apply pres_catch.
      + pres_auto.
      + intros e. destruct e; try apply pres_raise.
        apply pres_bind; [apply pres_say; apply P_logwarn|intro; apply pres_ret].
    - intros [sl|]; [|apply pres_ret].
      apply pres_bind; [apply pres_lift|intros l].
      destruct sl as [n|n|h ca cb0 cc]; [apply pres_raise| |].
      + apply pres_app_callback.
      + cbv zeta.
        assert (R : pres P (if py_eq h own then trigger f own a ca cc (PTuple l)
                            else publish (cb_msg h ca cb0 cc (PTuple l)))).
        { destruct (py_eq h own) eqn:E; [apply IH|].
          unfold publish. apply pres_bind; [apply pres_say; apply P_pub; exact E|intro; apply pres_fault]. }
        destruct a; [apply pres_absorb_cancel|]; exact R.
  Qed.
  Lemma pres_op_trigger a sid id args : pres P (op_trigger own a sid id args).
  Proof. unfold op_trigger. apply pres_bind; [apply pres_getst|intro; apply pres_trigger]. Qed.
  Lemma pres_handle_callback a kv : pres P (handle_callback own a kv).
  Proof. unfold handle_callback. pres_auto. apply pres_op_trigger. Qed.
  Lemma pres_dispatch a kv meth : pres P (dispatch own a kv meth).
  Proof.
    unfold dispatch. pres_auto.
    - apply pres_handle_callback.
    - apply pres_handle_emit.
    - apply pres_handle_disconnect.
    - apply pres_handle_enter_room.
    - apply pres_handle_leave_room.
    - apply pres_handle_close_room.
  Qed.
  Lemma pres_body a m pk js : pres P (body own a m pk js).
  Proof.
    unfold body. cbv zeta. destruct (truthy _); [|apply pres_ret].
    apply pres_bind; [apply pres_lift|intros [|]]; [|apply pres_ret].
    apply pres_bind; [apply pres_lift|intros meth].
    destruct (decode m pk js); try apply pres_ret.
    apply pres_catch; [apply pres_dispatch|intro; apply pres_log_exc].
  Qed.

  Lemma Forall_rev_iff (l : list eff) : Forall P l -> Forall P (rev l).
  Proof. intros H. apply Forall_forall. intros x Hx. apply in_rev in Hx. revert x Hx. apply Forall_forall. exact H. Qed.

  Lemma step_effects a s it : Forall P (snd (step own a s it)).
  Proof.
    unfold step, run_item. destruct it as [m pk js fs | e | sid id args fs].
    - pose proof (pres_body a m pk js (mkW s fs [] []) (Forall_nil _)) as H.
      destruct (body own a m pk js (mkW s fs [] [])) as [w r]. cbn [fst] in H.
      unfold finish. pose proof (pres_flush w H) as H2. destruct (flush w) as [w' u]. cbn [fst] in H2.
      destruct r as [x|e]; cbn [snd]; [apply Forall_rev_iff; exact H2|].
      apply Forall_app. split; [apply Forall_rev_iff; exact H2|].
      repeat constructor; [apply P_logexc|apply P_listen].
    - cbn. repeat constructor; [apply P_logexc|apply P_listen].
    - assert (H : Forall P (w_out (fst (catch (op_trigger own a sid id args) (fun e => say (ELogExc e)) (mkW s fs [] []))))).
      { apply pres_catch; [apply pres_op_trigger|intro; apply pres_say; apply P_logexc|constructor]. }
      destruct (catch _ _ _) as [w r]. cbn [fst] in H.
      unfold finish. pose proof (pres_flush w H) as H2. destruct (flush w) as [w' u]. cbn [fst] in H2.
      cbn [snd]. apply Forall_rev_iff. exact H2.
  Qed.

  Lemma run_effects a : forall its s, Forall P (List.concat (snd (run own a s its))).
  Proof.
    induction its as [|it its IH]; intros s; [constructor|].
    rewrite run_cons. cbn [snd List.concat]. apply Forall_app. split; [apply step_effects|apply IH].
  Qed.
End PresOps.

(* C15_no_self_apply, part 2 (closed loop): the only messages the listener itself publishes are
   callback messages addressed to another host; whenever one of them comes back on the channel,
   in any encoding, at any later time, in any state, this host's listener ignores it *)
Definition pub_shape (own : pv) (e : eff) : Prop :=
  match e with
  | EPublish m => exists h x y z args, m = cb_msg h x y z args /\ py_eq h own = false
  | _ => True
  end.

Theorem published_not_reapplied o a s its m :
  In (EPublish m) (List.concat (snd (run (PStr o) a s its))) ->
  forall a' s' raw pk js fs, decode raw pk js = m ->
  step (PStr o) a' s' (IMsg raw pk js fs) = (s', []).
Proof.
  intros Hin a' s' raw pk js fs D.
  assert (F : Forall (pub_shape (PStr o)) (List.concat (snd (run (PStr o) a s its)))).
  { apply run_effects; cbn; auto. intros h x y z args E. exists h, x, y, z, args. split; [reflexivity|exact E]. }
  rewrite Forall_forall in F. specialize (F _ Hin). cbn in F.
  destruct F as (h & x & y & z & args & E & Hh). rewrite E in D.
  eapply foreign_callback_ignored; [exact D|reflexivity|reflexivity|].
  change (py_eq (PStr o) h = false). rewrite <- py_eq_str_sym. exact Hh.
Qed.

(* application callbacks and publications can only come out of a callback message addressed to
   this host or a local acknowledgement: no other message invokes them *)
Definition no_cb_pub (e : eff) : Prop :=
  match e with ECallback _ _ | EPublish _ => False | _ => True end.

Lemma step_effects_from_body (P : eff -> Prop) own a s m pk js fs :
  P EListen -> (forall e, P (ELogExc e)) -> (forall e p, P (ESend e p)) ->
  Forall P (w_out (fst (body own a m pk js (mkW s fs [] [])))) ->
  Forall P (snd (step own a s (IMsg m pk js fs))).
Proof.
  intros P1 P2 P3 H. unfold step, run_item.
  destruct (body own a m pk js (mkW s fs [] [])) as [w r]. cbn [fst] in H.
  unfold finish. pose proof (pres_flush P P3 w H) as H2. destruct (flush w) as [w' u]. cbn [fst] in H2.
  destruct r as [x|e]; cbn [snd]; [apply Forall_rev_iff; exact H2|].
  apply Forall_app. split; [apply Forall_rev_iff; exact H2|].
  repeat constructor; [apply P2|apply P1].
Qed.

Theorem only_callback_messages_complete_callbacks own a s m pk js fs :
  (forall kv meth, decode m pk js = PDict kv -> aget (PStr k_method) kv = Some meth ->
                   py_eq meth (PStr k_callback) = false \/ py_eq own (dget k_host_id kv) = false) ->
  Forall no_cb_pub (snd (step own a s (IMsg m pk js fs))).
Proof.
  intros H. apply step_effects_from_body; try (intros; exact I).
  set (w0 := mkW s fs [] []).
  destruct (decode m pk js) as [| b | z | t | st | st | l | l | kv | n] eqn:D.
  1-8, 10: rewrite body_nondict by (intros kv E; rewrite D in E; discriminate E); constructor.
  destruct (aget (PStr k_method) kv) as [meth|] eqn:Hm.
  2: { rewrite (body_dict_nomethod own a m pk js kv w0 D Hm). constructor. }
  rewrite (body_dict own a m pk js kv meth w0 D Hm).
  apply pres_catch; [|intro e; unfold log_exc; destruct (is_cancel e); [apply pres_raise|apply pres_say; exact I]|constructor].
  unfold dispatch. specialize (H kv meth eq_refl Hm).
  destruct (py_eq meth (PStr k_callback)) eqn:C1.
  - destruct H as [H|H]; [discriminate H|]. unfold handle_callback. rewrite H. apply pres_ret.
  - pres_auto.
    + apply pres_handle_emit; intros; exact I.
    + apply pres_handle_disconnect; intros; exact I.
    + apply pres_handle_enter_room; intros; exact I.
    + apply pres_handle_leave_room; intros; exact I.
    + apply pres_handle_close_room; intros; exact I.
Qed.

(* ================================================================== *)
(* 5. A valid message after anything is delivered                      *)
(* ================================================================== *)

Definition recipients (skip : list pv) (parts : bimap) : bimap :=
  filter (fun p => negb (existsb (fun x => py_eq (fst p) x) skip)) parts.
Definition sends_of (ns : pv) (payload : list pv) (parts : bimap) : list eff :=
  map (fun p => ESend (snd p) (mkpkt ns payload PNone)) parts.

Lemma emit_sync_nofault ns payload skip : forall parts w,
  w_fs w = [] ->
  emit_sync ns payload None skip parts w =
  (mkW (w_st w) [] (rev (sends_of ns payload (recipients skip parts)) ++ w_out w) (w_pend w), Ok tt).
Proof.
  induction parts as [|[sid eio] rest IH]; intros w Hf.
  - cbn. destruct w; cbn in *; subst; reflexivity.
  - cbn [emit_sync recipients filter fst].
    destruct (existsb (fun x => py_eq sid x) skip) eqn:E; cbn [negb].
    + apply IH. exact Hf.
    + unfold bindM at 1. cbn [ret]. unfold bindM at 1. unfold send at 1. unfold bindM at 1.
      unfold fault. rewrite Hf. cbn [say].
      rewrite IH by exact Hf. cbn [w_st w_out w_pend sends_of map rev snd].
      rewrite <- app_assoc. reflexivity.
Qed.

Lemma emit_async_tasks_nocb ns payload skip : forall parts w,
  emit_async_tasks ns payload None skip parts w =
  (mkW (w_st w) (w_fs w) (w_out w)
       (rev (map (fun p => (snd p, mkpkt ns payload PNone)) (recipients skip parts)) ++ w_pend w), Ok tt).
Proof.
  induction parts as [|[sid eio] rest IH]; intros w.
  - cbn. destruct w; reflexivity.
  - cbn [emit_async_tasks recipients filter fst].
    destruct (existsb (fun x => py_eq sid x) skip) eqn:E; cbn [negb].
    + apply IH.
    + unfold bindM at 1. cbn [ret]. unfold bindM at 1. cbn [push_pend].
      rewrite IH. cbn [w_st w_fs w_out w_pend map rev snd]. rewrite <- app_assoc. reflexivity.
Qed.

Lemma run_sends_nofault ns payload : forall (parts : bimap) w,
  w_fs w = [] ->
  run_sends (map (fun p => (snd p, mkpkt ns payload PNone)) parts) w =
  (mkW (w_st w) [] (rev (sends_of ns payload parts) ++ w_out w) (w_pend w), Ok tt).
Proof.
  induction parts as [|[sid eio] rest IH]; intros w Hf.
  - cbn. destruct w; cbn in *; subst; reflexivity.
  - cbn [map run_sends snd]. unfold bindM at 1. unfold catch. unfold send. unfold bindM at 1.
    unfold fault. rewrite Hf. cbn [say].
    rewrite IH by exact Hf. cbn [w_st w_out w_pend sends_of map rev snd].
    rewrite <- app_assoc. reflexivity.
Qed.

(* a well-formed emit from another host, no callback requested, no fault while it is handled:
   whatever happened before (the state s is arbitrary), every member of the addressed room that is
   not skipped is sent the event, and the state is unchanged *)
Theorem sentinel_delivered own a s m pk js kv meth ev da ns room nr parts :
  decode m pk js = PDict kv ->
  aget (PStr k_method) kv = Some meth -> py_eq meth (PStr k_callback) = false ->
  py_eq meth (PStr m_emit) = true ->
  py_eq (dget k_host_id kv) own = false ->
  dget k_callback kv = PNone -> dreq k_event kv = Ok ev -> dreq k_data kv = Ok da ->
  dget k_namespace kv = ns -> dget k_room kv = room ->
  hashable ns = true -> aget ns (rooms s) = Some nr ->
  get_participants s ns room = Ok parts ->
  let datal := match da with PTuple l => l | PNone => [] | d => [d] end in
  let skipl := match dget k_skip_sid kv with PList l => l | _ => [dget k_skip_sid kv] end in
  step own a s (IMsg m pk js []) =
  (s, EOp OEmit [ev; da; ns; room; dget k_skip_sid kv; PNone] ::
      sends_of ns (ev :: datal) (recipients skipl parts)).
Proof.
  intros D Hm C1 C3 C2 Hcb Hev Hda Hns Hroom Hh Hr Hp datal skipl.
  unfold step, run_item. rewrite (body_dict own a m pk js kv meth _ D Hm).
  unfold catch, dispatch. rewrite C1, C2, C3. cbn [negb].
  unfold handle_emit. rewrite Hcb, Hev, Hda, Hns, Hroom.
  unfold remote_cb. unfold bindM at 1. cbn [lift]. unfold bindM at 1. cbn [lift].
  unfold bindM at 1. cbn [lift].
  unfold op_emit. unfold bindM at 1. cbn [say]. unfold bindM at 1. cbn [fault w_fs].
  unfold bindM at 1. unfold hk. rewrite Hh. cbn [ret].
  unfold bindM at 1. cbn [getst w_st]. rewrite Hr.
  unfold bindM at 1. cbn [lift]. rewrite Hp.
  fold datal. fold skipl. cbn [cb_pv].
  destruct a.
  - unfold bindM at 1. rewrite emit_async_tasks_nocb. cbn [w_st w_fs w_out w_pend].
    unfold flush. cbn [w_st w_fs w_out w_pend]. rewrite app_nil_r, rev_involutive.
    rewrite run_sends_nofault by reflexivity. cbn [w_st w_out w_pend].
    unfold finish, flush. cbn [w_pend rev run_sends ret w_st w_out w_fs].
    rewrite rev_app_distr, rev_involutive. cbn [rev app]. reflexivity.
  - rewrite emit_sync_nofault by reflexivity. cbn [w_st w_out w_pend].
    unfold finish, flush. cbn [w_pend rev run_sends ret w_st w_out w_fs].
    rewrite rev_app_distr, rev_involutive. cbn [rev app]. reflexivity.
Qed.

Example sentinel_example :
  let kv := [(PStr k_method, PStr m_emit); (PStr k_event, PStr (s2l "sent-1")); (PStr k_data, PInt 1%Z);
             (PStr k_namespace, PStr (s2l "/s")); (PStr k_room, PNone); (PStr k_host_id, PStr (s2l "B"))] in
  let s := mkMgr [(PStr (s2l "/s"), [(PNone, [(PStr (s2l "c1"), PStr (s2l "eK"))])])] [] in
  step (PStr (s2l "A")) true s (IMsg (PBytes [1]) None (Some (PDict kv)) []) =
  (s, [EOp OEmit [PStr (s2l "sent-1"); PInt 1%Z; PStr (s2l "/s"); PNone; PNone; PNone];
       ESend (PStr (s2l "eK")) (PTuple [PStr (s2l "/s"); PList [PStr (s2l "sent-1"); PInt 1%Z]; PNone])]).
Proof. vm_compute. reflexivity. Qed.

(* ================================================================== *)
(* 5b. Application callbacks run by the listener (callback messages)   *)
(* ================================================================== *)
(* The acknowledgement of an emit-with-callback to a client of another server comes back as a `callback`
   message; the listener itself runs the application's callback.  Under asyncio a coroutine callback may do
   anything - return, raise, await a task the application cancelled (CancelledError) - and the for loop goes
   on to the next message. *)
Definition after_callback (s : mgr) (sid id : pv) (d : list (pv * cbslot)) : mgr :=
  set_cbs s (aset sid (adel id d) (cbs s)).
Definition cb_outcome_log (f : option exn) : list eff :=
  match f with Some e => if is_cancel e then [] else [ELogExc e] | None => [] end.

Lemma trigger_coroutine_callback f own sid id args l d n f2 r w :
  w_fs w = None :: f2 :: r ->
  hashable sid = true -> hashable id = true ->
  aget sid (cbs (w_st w)) = Some d -> aget id d = Some (CbApp n) -> N.odd n = true ->
  py_star args = Ok l ->
  trigger (S f) own true sid id args w =
  (mkW (after_callback (w_st w) sid id d) r
       (ECallback n l :: EOp OTrigger [sid; id; args] :: w_out w) (w_pend w),
   match f2 with Some e => if is_cancel e then Ok tt else Err e | None => Ok tt end).
Proof.
  intros Hfs Hs Hi Hd Hn Ho Hl. cbn [trigger].
  unfold bindM, say, fault, catch, hk, getst, putst, ret, lift, raise; cbn [w_fs w_st w_out w_pend].
  rewrite Hfs, Hs. cbn [w_st]. rewrite Hd, Hi. rewrite Hn. cbn [w_st w_fs w_out w_pend]. rewrite Hl.
  unfold app_callback, cb_is_coro, absorb_cancel, bindM, say, catch, fault, ret, raise. rewrite Ho.
  cbn [andb w_fs w_st w_out w_pend].
  destruct f2 as [e|]; [|reflexivity]. destruct (is_cancel e); reflexivity.
Qed.

(* a `callback` message for this host *)
Definition callback_message (own : pv) (kv : list (pv * pv)) (sid id args : pv) : Prop :=
  aget (PStr k_method) kv = Some (PStr k_callback) /\ py_eq own (dget k_host_id kv) = true /\
  dreq k_sid kv = Ok sid /\ dreq k_id kv = Ok id /\ dreq k_args kv = Ok args.

Theorem coroutine_callback_contained own s m pk js kv sid id args l d n f2 r :
  decode m pk js = PDict kv -> callback_message own kv sid id args ->
  hashable sid = true -> hashable id = true ->
  aget sid (cbs s) = Some d -> aget id d = Some (CbApp n) -> N.odd n = true ->
  py_star args = Ok l ->
  run_item own true s (IMsg m pk js (None :: f2 :: r)) =
  (after_callback s sid id d,
   EOp OTrigger [sid; id; args] :: ECallback n l :: cb_outcome_log f2, Ok tt).
Proof.
  intros D (Hm & Hh & Hsid & Hid & Hargs) Hs Hi Hd Hn Ho Hl.
  unfold run_item. rewrite (body_dict own true m pk js kv _ _ D Hm).
  unfold catch at 1. unfold dispatch. rewrite py_eq_str_refl.
  unfold handle_callback. rewrite Hh, Hsid, Hid, Hargs.
  unfold op_trigger. unfold bindM at 1. cbn [getst].
  rewrite (trigger_coroutine_callback _ own sid id args l d n f2 r) by (try assumption; reflexivity).
  cbn [w_st w_out w_pend].
  destruct f2 as [e|]; [|reflexivity].
  unfold cb_outcome_log. destruct (is_cancel e) eqn:E; [reflexivity|].
  unfold log_exc. rewrite E. reflexivity.
Qed.

Lemma step_of_ok own a s it s' effs u :
  run_item own a s it = (s', effs, Ok u) -> step own a s it = (s', effs) /\ cancels own a s it = false.
Proof. intros H. unfold step, cancels. rewrite H. split; reflexivity. Qed.

Theorem listener_continues_after_coroutine_callback own s m pk js kv sid id args l d n f2 r rest :
  decode m pk js = PDict kv -> callback_message own kv sid id args ->
  hashable sid = true -> hashable id = true ->
  aget sid (cbs s) = Some d -> aget id d = Some (CbApp n) -> N.odd n = true ->
  py_star args = Ok l ->
  let s' := after_callback s sid id d in
  no_cancel own true s' rest = true ->
  thread own true s (IMsg m pk js (None :: f2 :: r) :: rest) =
  (fst (run own true s' rest),
   EListen :: (EOp OTrigger [sid; id; args] :: ECallback n l :: cb_outcome_log f2)
           ++ List.concat (snd (run own true s' rest)) ++ [ELogErr], Exited).
Proof.
  intros D CM Hs Hi Hd Hn Ho Hl s' Hnc.
  pose proof (coroutine_callback_contained own s m pk js kv sid id args l d n f2 r D CM Hs Hi Hd Hn Ho Hl) as R.
  destruct (step_of_ok _ _ _ _ _ _ _ R) as (St & Cn).
  rewrite thread_total.
  - rewrite run_cons, St. cbn [fst snd List.concat]. rewrite <- app_assoc. reflexivity.
  - cbn [no_cancel]. rewrite Cn, St. cbn [negb andb fst]. exact Hnc.
Qed.

Module CancelExamples.
  Definition A := PStr (s2l "hostA").
  Definition x1 := PStr (s2l "x1").          (* a client connected to ANOTHER server *)
  Definition cK := PStr (s2l "c1").
  Definition nsS := PStr (s2l "/s").
  (* one local client in "/s"; two emits with callback went to x1: callback 1 is a coroutine, 2 a plain function *)
  Definition s0 := mkMgr [(nsS, [(PNone, [(cK, PStr (s2l "eK"))]); (cK, [(cK, PStr (s2l "eK"))])])]
                         [(x1, [(PInt 0%Z, Counter 3%Z); (PInt 1%Z, CbApp 1); (PInt 2%Z, CbApp 2)])].
  Definition cbmsg (id : Z) :=
    PDict [(PStr k_method, PStr k_callback); (PStr k_host_id, A); (PStr k_sid, x1); (PStr k_namespace, nsS);
           (PStr k_id, PInt id); (PStr k_args, PList [PInt 4%Z])].
  Definition sentinel :=
    IMsg (PDict [(PStr k_method, PStr m_emit); (PStr k_event, PStr (s2l "sent-1")); (PStr k_data, PInt 1%Z);
                 (PStr k_namespace, nsS); (PStr k_room, PNone); (PStr k_host_id, PStr (s2l "hostB"))]) None None [].
  Definition delivered := ESend (PStr (s2l "eK")) (PTuple [nsS; PList [PStr (s2l "sent-1"); PInt 1%Z]; PNone]).

  (* the hypotheses of the two theorems above hold here; the coroutine callback awaits a cancelled task, the
     listener goes on and the sentinel that follows is delivered *)
  Example coroutine_cancelled_survived :
    callback_message A [(PStr k_method, PStr k_callback); (PStr k_host_id, A); (PStr k_sid, x1); (PStr k_namespace, nsS);
                        (PStr k_id, PInt 1%Z); (PStr k_args, PList [PInt 4%Z])] x1 (PInt 1%Z) (PList [PInt 4%Z]) /\
    no_cancel A true s0 [IMsg (cbmsg 1) None None [None; Some Cancelled]; sentinel] = true /\
    thread A true s0 [IMsg (cbmsg 1) None None [None; Some Cancelled]; sentinel] =
    (mkMgr (rooms s0) [(x1, [(PInt 0%Z, Counter 3%Z); (PInt 2%Z, CbApp 2)])],
     [EListen; EOp OTrigger [x1; PInt 1%Z; PList [PInt 4%Z]]; ECallback 1 [PInt 4%Z];
      EOp OEmit [PStr (s2l "sent-1"); PInt 1%Z; nsS; PNone; PNone; PNone]; delivered; ELogErr], Exited).
  Proof. vm_compute. repeat split. Qed.

  (* REFUTATION of "survives whatever a callback does" for PLAIN-function callbacks under asyncio: callback 2
     raises CancelledError (job.result() of a cancelled task).  `ret = callback( *data)` is outside
     trigger_callback's try, `except Exception` does not apply, the outer `except asyncio.CancelledError: break`
     ends the listener: the sentinel is never read *)
  Example plain_callback_cancelled_stops_asyncio_listener :
    thread A true s0 [IMsg (cbmsg 2) None None [None; Some Cancelled]; sentinel] =
    (mkMgr (rooms s0) [(x1, [(PInt 0%Z, Counter 3%Z); (PInt 1%Z, CbApp 1)])],
     [EListen; EOp OTrigger [x1; PInt 2%Z; PList [PInt 4%Z]]; ECallback 2 [PInt 4%Z]], Stopped) /\
    no_cancel A true s0 [IMsg (cbmsg 2) None None [None; Some Cancelled]; sentinel] = false.
  Proof. vm_compute. split; reflexivity. Qed.

  (* the threaded manager has no such handler at all: any BaseException outside Exception leaves _thread *)
  Example base_exception_leaves_threaded_listener :
    snd (thread A false s0 [IMsg (cbmsg 1) None None [None; Some Cancelled]; sentinel]) = Stopped.
  Proof. vm_compute. reflexivity. Qed.

  (* an ordinary exception out of either kind of callback is logged and the loop goes on *)
  Example callback_raises_survived :
    snd (thread A true s0 [IMsg (cbmsg 2) None None [None; Some RuntimeError]; sentinel]) = Exited /\
    In delivered (snd (fst (thread A true s0 [IMsg (cbmsg 2) None None [None; Some RuntimeError]; sentinel]))) /\
    In delivered (snd (fst (thread A false s0 [IMsg (cbmsg 1) None None [None; Some ValueError]; sentinel]))).
  Proof. vm_compute. repeat split; tauto. Qed.
End CancelExamples.

(* C15_total does not extend to CancelledError raised by a PLAIN-function callback under asyncio (nor to any
   BaseException under the threaded manager): there is a channel on which the listener stops and the message
   that follows - which has an observable effect when it is handled - is never handled *)
Theorem total_refuted_by_cancelled_plain_callback :
  exists own s it sent e,
    ordinary_item sent = true /\
    In e (snd (step own true (fst (step own true s it)) sent)) /\ observable e = true /\
    snd (thread own true s [it; sent]) = Stopped /\
    ~ In e (snd (fst (thread own true s [it; sent]))).
Proof.
  exists CancelExamples.A, CancelExamples.s0, (IMsg (CancelExamples.cbmsg 2) None None [None; Some Cancelled]),
         CancelExamples.sentinel, CancelExamples.delivered.
  vm_compute. repeat split; try tauto.
  intros [H|[H|[H|[]]]]; discriminate H.
Qed.

(* ================================================================== *)
(* Faults that are Exception subclasses never end the listener         *)
(* ================================================================== *)
Definition nc {A} (r : Res A) : Prop := match r with Err e => is_cancel e = false | Ok _ => True end.
Definition okw (w : world) : Prop := ordinary_script (w_fs w) = true.
(* m raises a CancelledError only if the fault script tells it to *)
Definition safe {A} (m : M A) : Prop := forall w, okw w -> okw (fst (m w)) /\ nc (snd (m w)).

Lemma nc_bind A B (r : Res A) (k : A -> Res B) : nc r -> (forall a, nc (k a)) -> nc (bind r k).
Proof. destruct r; cbn; auto. Qed.

Lemma safe_ret A (x : A) : safe (ret x).
Proof. intros w H. split; [exact H|exact I]. Qed.
Lemma safe_raise A e : is_cancel e = false -> safe (@raise A e).
Proof. intros E w H. split; [exact H|exact E]. Qed.
Lemma safe_lift A (r : Res A) : nc r -> safe (lift r).
Proof. intros E w H. split; [exact H|exact E]. Qed.
Lemma safe_getst : safe getst.
Proof. intros w H. split; [exact H|exact I]. Qed.
Lemma safe_putst s : safe (putst s).
Proof. intros w H. split; [exact H|exact I]. Qed.
Lemma safe_say e : safe (say e).
Proof. intros w H. split; [exact H|exact I]. Qed.
Lemma safe_push_pend e p : safe (push_pend e p).
Proof. intros w H. split; [exact H|exact I]. Qed.
Lemma safe_hk k : safe (hk k).
Proof. unfold hk. destruct (hashable k); [apply safe_ret|apply safe_raise; reflexivity]. Qed.
Lemma safe_fault : safe fault.
Proof.
  intros w H. unfold okw in *. unfold fault. destruct (w_fs w) as [|[e|] r] eqn:F; cbn [fst snd w_fs nc].
  - rewrite F. split; [reflexivity|exact I].
  - cbn in H. apply andb_true_iff in H. destruct H as [H1 H2]. split; [exact H2|]. apply negb_true_iff. exact H1.
  - cbn in H. split; [exact H|exact I].
Qed.
Lemma safe_bind A B (m : M A) (k : A -> M B) : safe m -> (forall x, safe (k x)) -> safe (bindM m k).
Proof.
  intros Hm Hk w H. unfold bindM. destruct (Hm w H) as [H1 H2].
  destruct (m w) as [w' [x|e]]; cbn [fst snd] in *; [apply Hk; exact H1|split; assumption].
Qed.
Lemma safe_catch A (m : M A) (h : exn -> M A) : safe m -> (forall e, is_cancel e = false -> safe (h e)) -> safe (catch m h).
Proof.
  intros Hm Hh w H. unfold catch. destruct (Hm w H) as [H1 H2].
  destruct (m w) as [w' [x|e]]; cbn [fst snd] in *; [split; [exact H1|exact I]|apply Hh; assumption].
Qed.
Lemma safe_if A (c : bool) (x y : M A) : safe x -> safe y -> safe (if c then x else y).
Proof. destruct c; auto. Qed.

(* the pure helpers only raise TypeError / KeyError / IndexError / OtherError / OracleMiss *)
Lemma nc_py_star v : nc (py_star v).
Proof. destruct v; cbn; auto. Qed.
Lemma nc_py_len v : nc (py_len v).
Proof. destruct v; cbn; auto. Qed.
Lemma nc_dreq k kv : nc (dreq k kv).
Proof. unfold dreq. destruct (aget _ kv); cbn; auto. Qed.
Lemma nc_py_in_method d : nc (py_in_method d).
Proof. destruct d; cbn; auto. Qed.
Lemma nc_py_getitem_method d : nc (py_getitem_method d).
Proof. destruct d; cbn; auto. apply nc_dreq. Qed.
Lemma nc_bidict_put sid eio bm : nc (bidict_put sid eio bm).
Proof.
  unfold bidict_put. destruct (aget sid bm); [destruct (py_eq _ _); cbn; auto|];
    destruct (existsb _ bm); cbn; auto.
Qed.
Lemma nc_is_connected_raw m sid ns : nc (is_connected_raw m sid ns).
Proof.
  unfold is_connected_raw. destruct (negb (hashable ns)); cbn; auto.
  destruct (aget ns (rooms m)); cbn; auto. destruct (aget PNone n); cbn; auto.
  destruct (negb (hashable sid)); cbn; auto. destruct (aget sid b); cbn; auto.
Qed.
Lemma nc_room_members nr r : nc (room_members nr r).
Proof. unfold room_members. destruct (hashable r); cbn; auto. Qed.
Lemma nc_multi_members nr l : nc (multi_members nr l).
Proof.
  unfold multi_members. destruct l as [|r0 rest]; cbn; auto.
  pose proof (nc_room_members nr r0) as H0. destruct (room_members nr r0) as [p0|e]; cbn; [|exact H0].
  assert (G : forall rest (acc : Res bimap), nc acc ->
            nc (fold_left (fun acc r => a <- acc ;; b <- room_members nr r ;; Ok (merge a b)) rest acc)).
  { induction rest0 as [|r rest0 IH]; intros acc Ha; cbn [fold_left]; [exact Ha|].
    apply IH. apply nc_bind; [exact Ha|intro]. apply nc_bind; [apply nc_room_members|intro; exact I]. }
  apply G. exact I.
Qed.
Lemma nc_get_participants m ns room : nc (get_participants m ns room).
Proof.
  unfold get_participants. destruct (negb (hashable ns)); cbn; auto.
  destruct room as [| b | z | t | st | st | l | l | kv | n]; try apply nc_room_members; try apply nc_multi_members.
  destruct (aget (PInt 0%Z) kv) as [r0|]; cbn; auto. destruct (hashable r0); cbn; auto.
Qed.
Lemma nc_remote_cb rc rh : nc (remote_cb rc rh).
Proof.
  unfold remote_cb. destruct rc; cbn; auto.
  all: try (match goal with |- context [if ?c then _ else _] => destruct c end; cbn; auto).
  all: repeat (match goal with |- context [match ?x with _ => _ end] => destruct x end; cbn; auto).
Qed.

Ltac safe_step :=
  lazymatch goal with
  | |- safe (bindM _ _) => apply safe_bind; [|intro]
  | |- safe (ret _) => apply safe_ret
  | |- safe (raise _) => apply safe_raise; reflexivity
  | |- safe (lift (py_star _)) => apply safe_lift; apply nc_py_star
  | |- safe (lift (bidict_put _ _ _)) => apply safe_lift; apply nc_bidict_put
  | |- safe (lift (get_participants _ _ _)) => apply safe_lift; apply nc_get_participants
  | |- safe (lift (is_connected_raw _ _ _)) => apply safe_lift; apply nc_is_connected_raw
  | |- safe (lift (remote_cb _ _)) => apply safe_lift; apply nc_remote_cb
  | |- safe (lift (dreq _ _)) => apply safe_lift; apply nc_dreq
  | |- safe (lift (py_in_method _)) => apply safe_lift; apply nc_py_in_method
  | |- safe (lift (py_getitem_method _)) => apply safe_lift; apply nc_py_getitem_method
  | |- safe getst => apply safe_getst
  | |- safe (putst _) => apply safe_putst
  | |- safe (say _) => apply safe_say
  | |- safe (push_pend _ _) => apply safe_push_pend
  | |- safe (hk _) => apply safe_hk
  | |- safe fault => apply safe_fault
  | |- safe (swallow_key _) => unfold swallow_key; apply safe_catch; [|let e := fresh "e" in let E := fresh "E" in intros e E; destruct e; try discriminate E]
  | |- safe (match ?x with _ => _ end) => destruct x
  | |- safe (let _ := _ in _) => cbv zeta
  end.
Ltac safe_auto := repeat safe_step.

Lemma safe_basic_enter_room sid ns room : safe (basic_enter_room sid ns room).
Proof. unfold basic_enter_room. safe_auto. Qed.
Lemma safe_basic_leave_room sid ns room : safe (basic_leave_room sid ns room).
Proof. unfold basic_leave_room. safe_auto. Qed.
Lemma safe_leave_all ns room parts : safe (leave_all ns room parts).
Proof.
  induction parts as [|[sid e] rest IH]; cbn [leave_all]; [apply safe_ret|].
  apply safe_bind; [apply safe_basic_leave_room|intro; exact IH].
Qed.
Lemma safe_basic_close_room room ns : safe (basic_close_room room ns).
Proof. unfold basic_close_room. safe_auto. apply safe_leave_all. Qed.
Lemma safe_gen_ack_id sid cb : safe (gen_ack_id sid cb).
Proof. unfold gen_ack_id. safe_auto. Qed.
Lemma safe_send eio pkt : safe (send eio pkt).
Proof. unfold send. safe_auto. Qed.
Lemma safe_emit_sync ns payload cb skip parts : safe (emit_sync ns payload cb skip parts).
Proof.
  induction parts as [|[sid e] rest IH]; cbn [emit_sync]; [apply safe_ret|].
  destruct (existsb _ skip); [exact IH|].
  apply safe_bind.
  - destruct cb; [|apply safe_ret]. apply safe_bind; [apply safe_gen_ack_id|intro; apply safe_ret].
  - intro. apply safe_bind; [apply safe_send|intro; exact IH].
Qed.
Lemma safe_emit_async_tasks ns payload cb skip parts : safe (emit_async_tasks ns payload cb skip parts).
Proof.
  induction parts as [|[sid e] rest IH]; cbn [emit_async_tasks]; [apply safe_ret|].
  destruct (existsb _ skip); [exact IH|].
  apply safe_bind.
  - destruct cb; [|apply safe_ret]. apply safe_bind; [apply safe_gen_ack_id|intro; apply safe_ret].
  - intro. apply safe_bind; [apply safe_push_pend|intro; exact IH].
Qed.
Lemma safe_run_sends l : safe (run_sends l).
Proof.
  induction l as [|[e p] rest IH]; cbn [run_sends]; [apply safe_ret|].
  apply safe_bind; [|intro; exact IH].
  apply safe_catch; [apply safe_send|intros; apply safe_ret].
Qed.
Lemma safe_flush : safe flush.
Proof. intros w H. unfold flush. apply safe_run_sends. exact H. Qed.
Lemma safe_op_emit a ev da ns room skip cb : safe (op_emit a ev da ns room skip cb).
Proof.
  unfold op_emit. safe_auto.
  - apply safe_emit_async_tasks.
  - apply safe_flush.
  - apply safe_emit_sync.
Qed.
Lemma safe_op_is_connected sid ns : safe (op_is_connected sid ns).
Proof. unfold op_is_connected. safe_auto. Qed.
Lemma safe_op_enter_room sid ns room : safe (op_enter_room sid ns room).
Proof. unfold op_enter_room. safe_auto. apply safe_basic_enter_room. Qed.
Lemma safe_op_leave_room sid ns room : safe (op_leave_room sid ns room).
Proof. unfold op_leave_room. safe_auto. apply safe_basic_leave_room. Qed.
Lemma safe_op_close_room room ns : safe (op_close_room room ns).
Proof. unfold op_close_room. safe_auto. apply safe_basic_close_room. Qed.
Lemma safe_leave_rooms sid ns names : safe (leave_rooms sid ns names).
Proof.
  induction names as [|r rest IH]; cbn [leave_rooms]; [apply safe_ret|].
  apply safe_bind; [apply safe_basic_leave_room|intro; exact IH].
Qed.
Lemma safe_server_disconnect sid ns : safe (server_disconnect sid ns).
Proof. unfold server_disconnect. safe_auto. unfold basic_disconnect. safe_auto. apply safe_leave_rooms. Qed.
Lemma safe_handle_emit a kv : safe (handle_emit a kv).
Proof. unfold handle_emit. safe_auto. apply safe_op_emit. Qed.
Lemma safe_absorb_cancel (m : M unit) : safe m -> safe (absorb_cancel m).
Proof.
  intros H. unfold absorb_cancel. apply safe_catch; [exact H|].
  intros e E. rewrite E. apply safe_raise. exact E.
Qed.
Lemma safe_app_callback a n l : safe (app_callback a n l).
Proof.
  unfold app_callback. apply safe_bind; [apply safe_say|intro].
  destruct (cb_is_coro a n); [apply safe_absorb_cancel|]; apply safe_fault.
Qed.
Lemma safe_trigger own a : forall f sid id args, safe (trigger f own a sid id args).
Proof.
  induction f as [|f IH]; intros sid id args; cbn [trigger]; [apply safe_raise; reflexivity|].
  apply safe_bind; [apply safe_say|intro].
  apply safe_bind; [apply safe_fault|intro].
  apply safe_bind.
  - apply safe_catch.
    + safe_auto.
    + intros e E. destruct e; try (apply safe_raise; exact E). safe_auto.
  - intros [sl|]; [|apply safe_ret].
    apply safe_bind; [apply safe_lift; apply nc_py_star|intros l].
    destruct sl as [n|n|h ca cb0 cc]; [apply safe_raise; reflexivity| |].
    + apply safe_app_callback.
    + cbv zeta.
      assert (R : safe (if py_eq h own then trigger f own a ca cc (PTuple l)
                        else publish (cb_msg h ca cb0 cc (PTuple l)))).
      { destruct (py_eq h own); [apply IH|]. unfold publish. safe_auto. }
      destruct a; [apply safe_absorb_cancel|]; exact R.
Qed.
Lemma safe_op_trigger own a sid id args : safe (op_trigger own a sid id args).
Proof. unfold op_trigger. apply safe_bind; [apply safe_getst|intro; apply safe_trigger]. Qed.
Lemma safe_dispatch own a kv meth : safe (dispatch own a kv meth).
Proof.
  unfold dispatch, handle_callback, handle_disconnect, handle_enter_room, handle_leave_room, handle_close_room.
  safe_auto; try apply safe_op_trigger; try apply safe_handle_emit; try apply safe_server_disconnect;
    try apply safe_op_close_room; try apply safe_op_is_connected; try apply safe_op_enter_room;
    try apply safe_op_leave_room.
Qed.
Lemma safe_body own a m pk js : safe (body own a m pk js).
Proof.
  unfold body. cbv zeta. destruct (truthy _); [|apply safe_ret].
  apply safe_bind; [apply safe_lift; apply nc_py_in_method|intros [|]]; [|apply safe_ret].
  apply safe_bind; [apply safe_lift; apply nc_py_getitem_method|intros meth].
  destruct (decode m pk js); try apply safe_ret.
  apply safe_catch; [apply safe_dispatch|]. intros e E. unfold log_exc. rewrite E. apply safe_say.
Qed.

Lemma ordinary_item_not_cancels own a s it : ordinary_item it = true -> cancels own a s it = false.
Proof.
  intros H. unfold cancels, run_item. destruct it as [m pk js fs | e | sid id args fs].
  - destruct (safe_body own a m pk js (mkW s fs [] []) H) as [_ N].
    destruct (body own a m pk js (mkW s fs [] [])) as [w r]. cbn [snd] in N.
    unfold finish. destruct (flush w) as [w' u]. destruct r; [reflexivity|exact N].
  - cbn in H. apply negb_true_iff in H. exact H.
  - destruct (catch _ _ _) as [w r]. unfold finish. destruct (flush w). reflexivity.
Qed.

(* whatever Exception subclasses the operations, callbacks and the iterator raise, wherever they raise them,
   no item ends the listener *)
Theorem ordinary_faults_no_cancel own a : forall its s,
  forallb ordinary_item its = true -> no_cancel own a s its = true.
Proof.
  induction its as [|it its IH]; intros s H; [reflexivity|].
  cbn [forallb] in H. apply andb_true_iff in H. destruct H as [H1 H2].
  cbn [no_cancel]. rewrite (ordinary_item_not_cancels own a s it H1). cbn [negb andb]. apply IH. exact H2.
Qed.

Theorem thread_total_ordinary own a s its :
  forallb ordinary_item its = true ->
  thread own a s its =
  (fst (run own a s its), EListen :: List.concat (snd (run own a s its)) ++ [ELogErr], Exited).
Proof. intros H. apply thread_total. apply ordinary_faults_no_cancel. exact H. Qed.

(* ================================================================== *)
(* 6. The Redis retry loops                                            *)
(* ================================================================== *)

Lemma cap60_range r : (1 <= r <= 60)%Z -> (1 <= cap60 r <= 60)%Z.
Proof. intros H. unfold cap60. destruct (r * 2 >? 60)%Z eqn:E; lia. Qed.

Lemma ends_with_end_cons e t : e <> REnd -> ends_with_end (e :: t) = ends_with_end t.
Proof. intros H. destruct e; try (destruct t; reflexivity). contradiction H; reflexivity. Qed.

Lemma backoff_sleep r t :
  (1 <= r <= 60)%Z -> backoff_ok r (RSleep r :: t) = backoff_ok (cap60 r) t.
Proof.
  intros H. cbn [backoff_ok]. rewrite Z.eqb_refl.
  replace (1 <=? r)%Z with true by lia. replace (r <=? 60)%Z with true by lia. reflexivity.
Qed.

(* _redis_listen_with_retries (seen through the filter of _listen): with RedisErrors as the only
   failures the generator never terminates - the run is cut only by the end of the script - and
   the sleeps are 1, 2, 4, ... capped at 60, restarting at 1 after each successful re-subscription *)
Lemma rl_backoff ch : forall script ph r,
  (1 <= r <= 60)%Z -> redis_only ch script = true ->
  backoff_ok r (filter_events ch (rl_run script ph r)) = true /\
  ends_with_end (filter_events ch (rl_run script ph r)) = true.
Proof.
  induction script as [|o rest IH]; intros ph r Hr Hs.
  - cbn. split; reflexivity.
  - cbn [redis_only forallb] in Hs. apply andb_true_iff in Hs. destruct Hs as [Ho Hs].
    fold (redis_only ch rest) in Hs.
    pose proof (cap60_range r Hr) as Hc.
    assert (H1 : (1 <= 1 <= 60)%Z) by lia.
    destruct ph as [| |c]; destruct o as [| m | | |e]; try discriminate Ho; cbn [rl_run filter_events].
    all: try (rewrite backoff_sleep by exact Hr; rewrite ends_with_end_cons by discriminate;
              apply IH; assumption).
    all: try (cbn [backoff_ok]; rewrite !ends_with_end_cons by discriminate; apply IH; assumption).
    all: try (destruct c; cbn [filter_events backoff_ok]; rewrite ?ends_with_end_cons by discriminate;
              apply IH; assumption).
    (* next() yields a message *)
    destruct (keep ch m) as [[d|]|e] eqn:K; try discriminate Ho.
    + cbn [backoff_ok]. rewrite ends_with_end_cons by discriminate. apply IH; assumption.
    + apply IH; assumption.
Qed.

Theorem redis_listen_backoff ch script :
  redis_only ch script = true ->
  match script with
  | LRedisError :: _ => listen_run ch script = [RRaised OtherError]
  | _ => backoff_ok 1%Z (listen_run ch script) = true /\ ends_with_end (listen_run ch script) = true
  end.
Proof.
  intros Hs. destruct script as [|o rest]; [split; reflexivity|].
  cbn [redis_only forallb] in Hs. apply andb_true_iff in Hs. destruct Hs as [Ho Hs].
  fold (redis_only ch rest) in Hs.
  assert (H1 : (1 <= 1 <= 60)%Z) by lia.
  destruct o as [| m | | |e]; try discriminate Ho; try reflexivity; cbn [listen_run backoff_ok].
  all: rewrite !ends_with_end_cons by discriminate; apply rl_backoff; assumption.
Qed.

(* the raw retry loop, from any of its three call sites and any current delay *)
Theorem redis_retry_loop_never_exits script ph r :
  (1 <= r <= 60)%Z -> no_other script = true ->
  ends_with_end (rl_run script ph r) = true /\ backoff_ok r (rl_run script ph r) = true.
Proof.
  revert ph r. induction script as [|o rest IH]; intros ph r Hr Hs; [split; reflexivity|].
  cbn [no_other forallb] in Hs. apply andb_true_iff in Hs. destruct Hs as [Ho Hs].
  fold (no_other rest) in Hs.
  pose proof (cap60_range r Hr) as Hc.
  assert (H1 : (1 <= 1 <= 60)%Z) by lia.
  destruct ph as [| |c]; destruct o as [| m | | |e]; try discriminate Ho; cbn [rl_run].
  all: try (rewrite backoff_sleep by exact Hr; rewrite ends_with_end_cons by discriminate;
            apply IH; assumption).
  all: try (cbn [backoff_ok]; rewrite !ends_with_end_cons by discriminate; apply IH; assumption).
  all: destruct c; cbn [backoff_ok]; rewrite ?ends_with_end_cons by discriminate; apply IH; assumption.
Qed.

(* _publish: at most one reconnection and two attempts; a RedisError is never propagated;
   the message is published at most once *)
Theorem redis_publish_retry script :
  no_other script = true ->
  pub_no_raise (pub_run script) = true /\ (count_publish (pub_run script) <= 1)%nat /\
  (List.length (pub_run script) <= 2)%nat.
Proof.
  intros H. destruct script as [|o1 [|o2 [|o3 rest]]];
    repeat match goal with o : outcome |- _ => destruct o end;
    try discriminate H; cbn; repeat split; lia.
Qed.

Example redis_backoff_example :
  listen_run (s2l "socketio")
    [LOk; LRedisError; LRedisError; LRedisError; LRedisError; LRedisError; LRedisError; LRedisError;
     LRedisError; LOk; LOk; LRedisError; LRedisError] =
  [RSubscribe; RListen; RSleep 1; RSleep 2; RSleep 4; RSleep 8; RSleep 16; RSleep 32; RSleep 60; RSleep 60;
   RConnect; RSubscribe; RListen; RSleep 1; RSleep 2; REnd]%Z.
Proof. vm_compute. reflexivity. Qed.

(* ================================================================== *)
(* 7. The hypotheses of the theorems are satisfiable on non-trivial states *)
(* ================================================================== *)
Module Examples.
  Definition A := PStr (s2l "hostA").
  Definition c1 := PStr (s2l "c1").
  Definition e1 := PStr (s2l "e1").
  Definition root := PStr (s2l "/").
  (* one client in "/" (rooms None, its own sid, "r1"); its callbacks: the counter, an application
     callback with id 1 and the return path of an emit that came from hostB with id 2 *)
  Definition s0 := mkMgr [(root, [(PNone, [(c1, e1)]); (c1, [(c1, e1)]); (PStr (s2l "r1"), [(c1, e1)])])]
                         [(c1, [(PInt 0%Z, Counter 3%Z); (PInt 1%Z, CbApp 7);
                                (PInt 2%Z, CbRemote (PStr (s2l "hostB")) (PStr (s2l "x9")) root (PInt 5%Z))])].
  Definition cbmsg (host : pv) (id : pv) :=
    PDict [(PStr k_method, PStr k_callback); (PStr k_host_id, host); (PStr k_sid, c1); (PStr k_id, id);
           (PStr k_args, PList [PInt 4%Z])].

  (* classes of C15_inert_except, in a state where callbacks exist *)
  Example classes :
    classify A s0 (IMsg (cbmsg A (PInt 9%Z)) None None [Some RuntimeError]) = Some BCallbackUnknown /\
    classify A s0 (IMsg (cbmsg A (PList [])) None None []) = Some BCallbackUnknown /\
    classify A s0 (IMsg (cbmsg (PStr (s2l "hostB")) (PInt 1%Z)) None None []) = Some BForeignCallback /\
    classify A s0 (IMsg (cbmsg A (PInt 0%Z)) None None []) = Some BCallbackCounter /\
    classify A s0 (IMsg (cbmsg A (PInt 1%Z)) None None []) = None /\
    classify A s0 (IMsg (PBytes [128; 4]) None None []) = Some BUndecodable /\
    classify A s0 (IMsg (PBytes [128; 4]) (Some (PInt 5%Z)) None []) = Some BNonDict /\
    classify A s0 (IMsg (PStr (s2l "{}")) None (Some (PDict [])) []) = Some BNoMethod /\
    classify A s0 (IMsg (PDict [(PStr k_method, PStr m_emit); (PStr k_host_id, A)]) None None []) = Some BOwnEcho /\
    classify A s0 (IMsg (PDict [(PStr k_method, PStr m_emit); (PStr k_data, PNone)]) None None []) = Some BEmitMalformed /\
    classify A s0 (IMsg (PDict [(PStr k_method, PStr m_enter_room); (PStr k_sid, c1); (PStr k_namespace, PList [])])
                        None None []) = Some BRoomOpMalformed /\
    classify A s0 (IMsg (PDict [(PStr k_method, PStr m_leave_room); (PStr k_sid, PInt 3%Z); (PStr k_namespace, root)])
                        None None []) = Some BNotHere.
  Proof. vm_compute. repeat split. Qed.

  (* a foreign acknowledgement does nothing; the same acknowledgement addressed to this host completes the callback *)
  Example foreign_vs_own :
    step A false s0 (IMsg (cbmsg (PStr (s2l "hostB")) (PInt 1%Z)) None None []) = (s0, []) /\
    filter observable (snd (step A false s0 (IMsg (cbmsg A (PInt 1%Z)) None None []))) = [ECallback 7 [PInt 4%Z]].
  Proof. vm_compute. split; reflexivity. Qed.

  (* the listener publishes (a local client acknowledges an emit that came from hostB), and what it
     published is of the shape C15_no_self_apply_published talks about *)
  Example publishes :
    In (EPublish (cb_msg (PStr (s2l "hostB")) (PStr (s2l "x9")) root (PInt 5%Z) (PTuple [PInt 4%Z])))
       (List.concat (snd (run A true s0 [IAck c1 (PInt 2%Z) (PList [PInt 4%Z]) []]))).
  Proof. vm_compute. tauto. Qed.

  (* an API message of this host, pickled *)
  Example api_echo :
    published_by_api (s2l "hostA") (msg_close_room A (PStr (s2l "r1")) root) /\
    step A true s0 (IMsg (PBytes [128]) (Some (msg_close_room A (PStr (s2l "r1")) root)) None [Some KeyError]) = (s0, []).
  Proof.
    split; [right; right; right; right; eexists; eexists; reflexivity|].
    vm_compute. reflexivity.
  Qed.
End Examples.

(* the source's call pattern keeps the listener subscribed: every channel message is delivered to a
   subscribed connection, none is lost, and the channel is still subscribed at the end - whatever
   the messages decode to, however often _listen() is restarted or the connection is re-made *)
Lemma rt_go_ok own a : forall items k, deliveries_ok true (rt_go own a k items) = true.
Proof.
  induction items as [|[it|] r IH]; intros k; [reflexivity| |].
  - cbn [rt_go deliveries_ok andb]. destruct (restarts own a it); cbn [app deliveries_ok]; apply IH.
  - cbn [rt_go deliveries_ok]. apply IH.
Qed.
Theorem redis_stays_subscribed own a items : deliveries_ok false (rt_model own a items) = true.
Proof. unfold rt_model. cbn [deliveries_ok]. apply rt_go_ok. Qed.

(* what the checker rejects: an unsubscribe that comes after the re-subscription of a restarted listener *)
Example late_unsubscribe_rejected :
  deliveries_ok false [BSub; BDeliver 0; BSub; BUnsub; BLost 1] = false /\
  deliveries_ok false [BSub; BDeliver 0; BSub; BUnsub] = false /\
  deliveries_ok false [BSub; BDeliver 0; BUnsub; BSub; BDeliver 1] = true.
Proof. repeat split. Qed.
