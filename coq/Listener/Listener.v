(* C15 - model of the pub/sub listener (definitions only).
   Source: src/socketio/pubsub_manager.py (_thread, _handle_*, _return_callback),
   async_pubsub_manager.py (the same as coroutines), and the parts of base_manager.py /
   manager.py / async_manager.py that the handlers reach (is_connected, emit,
   basic_enter_room, basic_leave_room, basic_close_room, get_participants,
   _generate_ack_id, trigger_callback).

   A channel is a list of items.  The manager state survives exceptions (as in Python):
   every operation is a function  world -> world * Res A. *)
From VT Require Export Base.PyVal.
Open Scope N_scope.

(* ------------------------------------------------------------------ *)
(* Python primitives on arbitrary values                               *)
(* ------------------------------------------------------------------ *)

(* hash(v): lists and dicts are unhashable, tuples are hashable when their items are *)
Fixpoint hashable (v : pv) : bool :=
  match v with
  | PList _ | PDict _ => false
  | PTuple l => (fix go (l : list pv) : bool :=
                   match l with [] => true | x :: r => hashable x && go r end) l
  | _ => true
  end.

Fixpoint is_prefix (p s : str) : bool :=
  match p, s with
  | [], _ => true
  | x :: p', y :: s' => N.eqb x y && is_prefix p' s'
  | _ :: _, [] => false
  end.
Fixpoint substr (p s : str) : bool :=
  is_prefix p s || match s with [] => false | _ :: s' => substr p s' end.

(* association lists with Python's key comparison (==) *)
Fixpoint aget {V} (k : pv) (l : list (pv * V)) : option V :=
  match l with
  | [] => None
  | (k', v) :: r => if py_eq k k' then Some v else aget k r
  end.
Fixpoint aset {V} (k : pv) (v : V) (l : list (pv * V)) : list (pv * V) :=
  match l with
  | [] => [(k, v)]
  | (k', v') :: r => if py_eq k k' then (k', v) :: r else (k', v') :: aset k v r
  end.
Fixpoint adel {V} (k : pv) (l : list (pv * V)) : list (pv * V) :=
  match l with
  | [] => []
  | (k', v) :: r => if py_eq k k' then r else (k', v) :: adel k r
  end.

Definition k_method := s2l "method".
Definition k_host_id := s2l "host_id".
Definition k_callback := s2l "callback".
Definition k_event := s2l "event".
Definition k_data := s2l "data".
Definition k_namespace := s2l "namespace".
Definition k_room := s2l "room".
Definition k_skip_sid := s2l "skip_sid".
Definition k_sid := s2l "sid".
Definition k_id := s2l "id".
Definition k_args := s2l "args".
Definition m_emit := s2l "emit".
Definition m_disconnect := s2l "disconnect".
Definition m_enter_room := s2l "enter_room".
Definition m_leave_room := s2l "leave_room".
Definition m_close_room := s2l "close_room".

(* message.get(k) / message[k] on a dict *)
Definition dget (k : str) (kv : list (pv * pv)) : pv :=
  match aget (PStr k) kv with Some v => v | None => PNone end.
Definition dreq (k : str) (kv : list (pv * pv)) : Res pv :=
  match aget (PStr k) kv with Some v => Ok v | None => Err KeyError end.

(* 'method' in data *)
Definition py_in_method (d : pv) : Res bool :=
  match d with
  | PStr s => Ok (substr k_method s)
  | PList l | PTuple l => Ok (existsb (fun x => py_eq (PStr k_method) x) l)
  | PDict kv => Ok (match aget (PStr k_method) kv with Some _ => true | None => false end)
  | _ => Err TypeError
  end.
(* data['method'] *)
Definition py_getitem_method (d : pv) : Res pv :=
  match d with
  | PDict kv => dreq k_method kv
  | _ => Err TypeError
  end.
(* len(x) *)
Definition py_len (v : pv) : Res Z :=
  match v with
  | PStr s | PBytes s => Ok (Z.of_nat (List.length s))
  | PList l | PTuple l => Ok (Z.of_nat (List.length l))
  | PDict kv => Ok (Z.of_nat (List.length kv))
  | _ => Err TypeError
  end.
(* star-unpacking of an argument list *)
Definition py_star (v : pv) : Res (list pv) :=
  match v with
  | PList l | PTuple l => Ok l
  | PStr s => Ok (map (fun c => PStr [c]) s)
  | PBytes b => Ok (map (fun c => PInt (Z.of_N c)) b)
  | PDict kv => Ok (map fst kv)
  | _ => Err TypeError
  end.

(* ------------------------------------------------------------------ *)
(* Manager state, effects, the state-and-exception monad               *)
(* ------------------------------------------------------------------ *)

(* callbacks[sid] = {0: itertools.count(1), id: callback, ...} *)
Inductive cbslot :=
| Counter (next : Z)
| CbApp (n : N)                          (* application callback *)
| CbRemote (host a b c : pv).            (* partial(self._return_callback, host, a, b, c) *)

Definition bimap := list (pv * pv).      (* sid -> eio_sid, insertion order *)
Definition nsrooms := list (pv * bimap). (* room -> members *)
Record mgr := mkMgr {
  rooms : list (pv * nsrooms);           (* self.rooms[namespace][room][sid] = eio_sid *)
  cbs : list (pv * list (pv * cbslot))   (* self.callbacks[sid][id] *)
}.
Definition set_rooms (m : mgr) r := mkMgr r (cbs m).
Definition set_cbs (m : mgr) c := mkMgr (rooms m) c.

Inductive opname := OEmit | OEnter | OLeave | OClose | OTrigger | OIsConn.

Inductive eff :=
| EListen                                (* self._listen() called *)
| ELogExc (e : exn)                      (* logger.exception(...) with the exception being handled *)
| ELogErr                                (* logger.error(...): listen() exited *)
| ELogWarn                               (* logger.warning(...): unknown callback *)
| EOp (o : opname) (args : list pv)      (* a Manager-level operation was invoked (call record) *)
| ESend (eio : pv) (pkt : pv)            (* server._send_packet / _send_eio_packet *)
| ECallback (n : N) (args : list pv)     (* application callback invoked *)
| EDisconnect (sid ns : pv) (ignoreq : bool)  (* server.disconnect(sid=, namespace=, ignore_queue=) *)
| EPublish (m : pv).                     (* self._publish(message) *)

(* effects the application or a client can observe *)
Definition observable (e : eff) : bool :=
  match e with ESend _ _ | ECallback _ _ | EDisconnect _ _ _ | EPublish _ => true | _ => false end.

Record world := mkW {
  w_st : mgr;
  w_fs : list (option exn);              (* remaining fault script of the current item *)
  w_out : list eff;                      (* effects, most recent first *)
  w_pend : list (pv * pv)                (* asyncio only: send tasks created but not yet run, most recent first *)
}.

Definition M (A : Type) := world -> world * Res A.
Definition ret {A} (a : A) : M A := fun w => (w, Ok a).
Definition raise {A} (e : exn) : M A := fun w => (w, Err e).
Definition bindM {A B} (m : M A) (k : A -> M B) : M B :=
  fun w => match m w with
           | (w', Ok a) => k a w'
           | (w', Err e) => (w', Err e)
           end.
Notation "x <~ m ;; k" := (bindM m (fun x => k)) (at level 61, m at next level, right associativity).
Notation "m >> k" := (bindM m (fun _ => k)) (at level 61, right associativity).
Definition lift {A} (r : Res A) : M A := fun w => (w, r).
Definition catch {A} (m : M A) (h : exn -> M A) : M A :=
  fun w => match m w with
           | (w', Ok a) => (w', Ok a)
           | (w', Err e) => h e w'
           end.
Definition getst : M mgr := fun w => (w, Ok (w_st w)).
Definition putst (s : mgr) : M unit := fun w => (mkW s (w_fs w) (w_out w) (w_pend w), Ok tt).
Definition say (e : eff) : M unit := fun w => (mkW (w_st w) (w_fs w) (e :: w_out w) (w_pend w), Ok tt).
(* a point at which the fault script may make the running operation raise *)
Definition fault : M unit :=
  fun w => match w_fs w with
           | [] => (w, Ok tt)
           | None :: r => (mkW (w_st w) r (w_out w) (w_pend w), Ok tt)
           | Some e :: r => (mkW (w_st w) r (w_out w) (w_pend w), Err e)
           end.
(* hashing a key for a dict lookup *)
Definition hk (k : pv) : M unit := if hashable k then ret tt else raise TypeError.
Definition swallow_key (m : M unit) : M unit :=
  catch m (fun e => match e with KeyError => ret tt | _ => raise e end).

(* asyncio.CancelledError: since Python 3.8 a BaseException that is NOT an Exception, so `except Exception`
   does not catch it.  Base.PyVal's [exn] (shared by all models) has no name for it; in this model the name
   BadNamespaceError - which no manager code can raise - stands for it, in fault scripts and in results.
   Under the threaded manager the same token stands for any BaseException outside Exception. *)
Definition Cancelled : exn := BadNamespaceError.
Definition is_cancel (e : exn) : bool := match e with BadNamespaceError => true | _ => false end.
(* try: m  except asyncio.CancelledError: pass *)
Definition absorb_cancel (m : M unit) : M unit :=
  catch m (fun e => if is_cancel e then ret tt else raise e).
(* except Exception: logger.exception(...)   -- anything else keeps propagating *)
Definition log_exc (e : exn) : M unit := if is_cancel e then raise e else say (ELogExc e).

(* ------------------------------------------------------------------ *)
(* base_manager.py / manager.py                                        *)
(* ------------------------------------------------------------------ *)

(* BaseManager.is_connected (pending_disconnect is empty: nothing the listener calls fills it) *)
Definition is_connected_raw (m : mgr) (sid ns : pv) : Res bool :=
  if negb (hashable ns) then Err TypeError else        (* namespace in self.pending_disconnect *)
  match aget ns (rooms m) with
  | None => Ok false
  | Some nr =>
      match aget PNone nr with
      | None => Ok false
      | Some bm =>
          if negb (hashable sid) then Err TypeError else
          match aget sid bm with
          | None => Ok false
          | Some e => Ok (match e with PNone => false | _ => true end)
          end
      end
  end.

(* bidict[sid] = eio_sid *)
Definition bidict_put (sid eio : pv) (bm : bimap) : Res bimap :=
  match aget sid bm with
  | Some old => if py_eq old eio then Ok bm
                else if existsb (fun p => py_eq (snd p) eio) bm then Err OtherError
                else Ok (aset sid eio bm)
  | None => if existsb (fun p => py_eq (snd p) eio) bm then Err OtherError
            else Ok (aset sid eio bm)
  end.

(* BaseManager.basic_enter_room(sid, namespace, room)  (eio_sid=None):
   the transport id is looked up BEFORE the room is created *)
Definition basic_enter_room (sid ns room : pv) : M unit :=
  hk ns >>
  m <~ getst ;;
  match aget ns (rooms m) with
  | None => raise ValueError
  | Some nr =>
      match aget PNone nr with
      | None => raise KeyError
      | Some bm0 =>
          hk sid >>
          match aget sid bm0 with
          | None => raise KeyError
          | Some eio =>
              hk room >>
              let nr1 := match aget room nr with Some _ => nr | None => aset room [] nr end in
              let m1 := set_rooms m (aset ns nr1 (rooms m)) in
              putst m1 >>
              let bm := match aget room nr1 with Some b => b | None => [] end in
              bm' <~ lift (bidict_put sid eio bm) ;;
              putst (set_rooms m1 (aset ns (aset room bm' nr1) (rooms m1)))
          end
      end
  end.

(* BaseManager.basic_leave_room *)
Definition basic_leave_room (sid ns room : pv) : M unit :=
  swallow_key (
    hk ns >>
    m <~ getst ;;
    match aget ns (rooms m) with
    | None => raise KeyError
    | Some nr =>
        hk room >>
        match aget room nr with
        | None => raise KeyError
        | Some bm =>
            hk sid >>
            match aget sid bm with
            | None => raise KeyError
            | Some _ =>
                match adel sid bm with
                | [] => match adel room nr with
                        | [] => putst (set_rooms m (adel ns (rooms m)))
                        | nr' => putst (set_rooms m (aset ns nr' (rooms m)))
                        end
                | bm' => putst (set_rooms m (aset ns (aset room bm' nr) (rooms m)))
                end
            end
        end
    end).

(* BaseManager.get_participants (a generator: its body runs when the caller's for starts) *)
Definition room_members (nr : nsrooms) (r : pv) : Res bimap :=
  if hashable r then Ok (match aget r nr with Some b => b | None => [] end) else Err TypeError.
Definition merge (a b : bimap) : bimap := fold_left (fun acc p => aset (fst p) (snd p) acc) b a.
Definition multi_members (nr : nsrooms) (l : list pv) : Res bimap :=
  match l with
  | [] => Err IndexError
  | r0 :: rest =>
      p0 <- room_members nr r0 ;;
      fold_left (fun acc r => a <- acc ;; b <- room_members nr r ;; Ok (merge a b)) rest (Ok p0)
  end.
Definition get_participants (m : mgr) (ns room : pv) : Res bimap :=
  if negb (hashable ns) then Err TypeError else
  let nr := match aget ns (rooms m) with Some x => x | None => [] end in
  match room with
  | PList l | PTuple l => multi_members nr l
  | PBytes b => multi_members nr (map (fun c => PInt (Z.of_N c)) b)
  | PDict kv =>                                   (* room[0] then room[1:] (KeyError on 3.12) *)
      match aget (PInt 0%Z) kv with
      | None => Err KeyError
      | Some r0 => if hashable r0 then Err KeyError else Err TypeError
      end
  | _ => room_members nr room
  end.

(* BaseManager.basic_close_room *)
Fixpoint leave_all (ns room : pv) (parts : bimap) : M unit :=
  match parts with
  | [] => ret tt
  | (sid, _) :: rest => basic_leave_room sid ns room >> leave_all ns room rest
  end.
Definition basic_close_room (room ns : pv) : M unit :=
  swallow_key (
    m <~ getst ;;
    parts <~ lift (get_participants m ns room) ;;
    leave_all ns room parts).

(* BaseManager._generate_ack_id *)
Definition gen_ack_id (sid : pv) (cb : cbslot) : M Z :=
  m <~ getst ;;
  let d := match aget sid (cbs m) with Some d => d | None => [(PInt 0%Z, Counter 1%Z)] end in
  let m1 := set_cbs m (aset sid d (cbs m)) in
  putst m1 >>
  match aget (PInt 0%Z) d with
  | None => raise KeyError
  | Some (Counter n) =>
      putst (set_cbs m1 (aset sid (aset (PInt n) cb (aset (PInt 0%Z) (Counter (n + 1)%Z) d)) (cbs m1))) >>
      ret n
  | Some _ => raise TypeError
  end.

Definition mkpkt (ns : pv) (payload : list pv) (id : pv) : pv := PTuple [ns; PList payload; id].

(* server._send_packet / _send_eio_packet *)
Definition send (eio pkt : pv) : M unit := fault >> say (ESend eio pkt).

(* Manager.emit: the loop over the participants.  A raising send ends the loop. *)
Fixpoint emit_sync (ns : pv) (payload : list pv) (cb : option cbslot) (skip : list pv)
         (parts : bimap) : M unit :=
  match parts with
  | [] => ret tt
  | (sid, eio) :: rest =>
      if existsb (fun x => py_eq sid x) skip then emit_sync ns payload cb skip rest else
      id <~ match cb with
            | None => ret PNone
            | Some c => i <~ gen_ack_id sid c ;; ret (PInt i)
            end ;;
      send eio (mkpkt ns payload id) >>
      emit_sync ns payload cb skip rest
  end.

(* AsyncManager.emit: the loop only creates the send tasks; they run at asyncio.wait(tasks)
   and their exceptions are never retrieved.  If the loop itself raises, the tasks already
   created run when the listener next yields to the event loop. *)
Definition push_pend (eio pkt : pv) : M unit :=
  fun w => (mkW (w_st w) (w_fs w) (w_out w) ((eio, pkt) :: w_pend w), Ok tt).
Fixpoint emit_async_tasks (ns : pv) (payload : list pv) (cb : option cbslot) (skip : list pv)
         (parts : bimap) : M unit :=
  match parts with
  | [] => ret tt
  | (sid, eio) :: rest =>
      if existsb (fun x => py_eq sid x) skip then emit_async_tasks ns payload cb skip rest else
      id <~ match cb with
            | None => ret PNone
            | Some c => i <~ gen_ack_id sid c ;; ret (PInt i)
            end ;;
      push_pend eio (mkpkt ns payload id) >>
      emit_async_tasks ns payload cb skip rest
  end.
Fixpoint run_sends (l : list (pv * pv)) : M unit :=
  match l with
  | [] => ret tt
  | (eio, pkt) :: rest => catch (send eio pkt) (fun _ => ret tt) >> run_sends rest
  end.
Definition flush : M unit :=
  fun w => run_sends (rev (w_pend w)) (mkW (w_st w) (w_fs w) (w_out w) []).

Definition cb_pv (cb : option cbslot) : pv :=
  match cb with
  | None => PNone
  | Some (CbRemote h a b c) => PTuple [PStr (s2l "partial"); h; a; b; c]
  | Some (CbApp n) => PObj n
  | Some (Counter n) => PTuple [PStr (s2l "count"); PInt n]
  end.

(* Manager.emit / AsyncManager.emit as invoked by _handle_emit (super().emit) *)
Definition op_emit (async : bool) (ev da ns room skip : pv) (cb : option cbslot) : M unit :=
  say (EOp OEmit [ev; da; ns; room; skip; cb_pv cb]) >> fault >>
  hk ns >>                                              (* namespace not in self.rooms *)
  m <~ getst ;;
  match aget ns (rooms m) with
  | None => ret tt
  | Some _ =>
      let datal := match da with PTuple l => l | PNone => [] | d => [d] end in
      let skipl := match skip with PList l => l | s => [s] end in
      parts <~ lift (get_participants m ns room) ;;
      if async then emit_async_tasks ns (ev :: datal) cb skipl parts >> flush
      else emit_sync ns (ev :: datal) cb skipl parts
  end.

Definition op_is_connected (sid ns : pv) : M bool :=
  say (EOp OIsConn [sid; ns]) >> fault >>
  m <~ getst ;; lift (is_connected_raw m sid ns).
Definition op_enter_room (sid ns room : pv) : M unit :=
  say (EOp OEnter [sid; ns; room]) >> fault >> basic_enter_room sid ns room.
Definition op_leave_room (sid ns room : pv) : M unit :=
  say (EOp OLeave [sid; ns; room]) >> fault >> basic_leave_room sid ns room.
Definition op_close_room (room ns : pv) : M unit :=
  say (EOp OClose [room; ns]) >> fault >> basic_close_room room ns.

(* self._publish(message) *)
Definition publish (msg : pv) : M unit := say (EPublish msg) >> fault.

(* the message _return_callback publishes *)
Definition cb_msg (h a b c args : pv) : pv :=
  PDict [(PStr k_method, PStr k_callback); (PStr k_host_id, h); (PStr k_sid, a);
         (PStr k_namespace, b); (PStr k_id, c); (PStr k_args, args)].

(* An application callback registered with emit(..., callback=cb).  The harness registers callback number n as a
   coroutine function when the manager is the asyncio one and n is odd, as a plain function otherwise.
   AsyncManager.trigger_callback:   ret = callback( *data)
                                    if asyncio.iscoroutine(ret):
                                        try: await ret
                                        except asyncio.CancelledError: pass
   so a CancelledError raised inside a coroutine callback (it awaits a task the application cancelled) is
   absorbed, one raised by a plain function (job.result() of a cancelled future) is not; Manager.trigger_callback
   just calls the callback. *)
Definition cb_is_coro (async : bool) (n : N) : bool := async && N.odd n.
Definition app_callback (async : bool) (n : N) (l : list pv) : M unit :=
  say (ECallback n l) >>
  if cb_is_coro async n then absorb_cancel fault else fault.

(* Manager.trigger_callback, with the callbacks it may invoke:
   an application callback, or partial(self._return_callback, host, sid, namespace, id); under asyncio
   _return_callback is a coroutine, awaited inside the same try/except CancelledError *)
Fixpoint trigger (fuel : nat) (own : pv) (async : bool) (sid id args : pv) : M unit :=
  match fuel with
  | O => raise OracleMiss
  | S f =>
      say (EOp OTrigger [sid; id; args]) >> fault >>
      slot <~ catch (hk sid >>
                     m <~ getst ;;
                     match aget sid (cbs m) with
                     | None => raise KeyError
                     | Some d =>
                         hk id >>
                         match aget id d with
                         | None => raise KeyError
                         | Some (Counter _) => raise KeyError     (* not callable: key 0 holds the id generator *)
                         | Some s => putst (set_cbs m (aset sid (adel id d) (cbs m))) >> ret (Some s)
                         end
                     end)
                    (fun e => match e with
                              | KeyError => say ELogWarn >> ret None
                              | _ => raise e
                              end) ;;
      match slot with
      | None => ret tt
      | Some s =>
          l <~ lift (py_star args) ;;                 (* callback( * data) *)
          match s with
          | Counter _ => raise TypeError              (* unreachable: a non-callable entry is never returned *)
          | CbApp n => app_callback async n l
          | CbRemote h a b c =>                        (* _return_callback(h, a, b, c, star l) *)
              let r := if py_eq h own then trigger f own async a c (PTuple l)
                       else publish (cb_msg h a b c (PTuple l)) in
              if async then absorb_cancel r else r
          end
      end
  end.
Definition cb_entries (m : mgr) : nat :=
  fold_left (fun n p => (n + List.length (snd p))%nat) (cbs m) O.
Definition op_trigger (own : pv) (async : bool) (sid id args : pv) : M unit :=
  m <~ getst ;; trigger (S (cb_entries m)) own async sid id args.

(* the stub server's disconnect: records the call, then what Server.disconnect does to the
   manager when nothing fails in between (is_connected, pre_disconnect, disconnect) *)
Fixpoint leave_rooms (sid ns : pv) (names : list pv) : M unit :=
  match names with
  | [] => ret tt
  | r :: rest => basic_leave_room sid ns r >> leave_rooms sid ns rest
  end.
Definition basic_disconnect (sid ns : pv) : M unit :=
  m <~ getst ;;
  match aget ns (rooms m) with
  | None => putst (set_cbs m (adel sid (cbs m)))     (* /repo 31cc120: the callbacks are released even if the
                                                        namespace is gone (not reachable from server_disconnect) *)
  | Some nr =>
      let names := map fst (filter (fun p => match aget sid (snd p) with Some _ => true | None => false end) nr) in
      leave_rooms sid ns names >>
      m' <~ getst ;;
      putst (set_cbs m' (adel sid (cbs m')))
  end.
Definition server_disconnect (sid ns : pv) : M unit :=
  say (EDisconnect sid ns true) >> fault >>
  let ns' := if truthy ns then ns else PStr (s2l "/") in
  m <~ getst ;;
  c <~ lift (is_connected_raw m sid ns') ;;
  if c then basic_disconnect sid ns' else ret tt.

(* ------------------------------------------------------------------ *)
(* pubsub_manager.py: the handlers                                     *)
(* ------------------------------------------------------------------ *)

Definition remote_cb (rc rh : pv) : Res (option cbslot) :=
  match rc with
  | PNone => Ok None
  | _ => n <- py_len rc ;;
         if (n =? 3)%Z then
           l <- py_star rc ;;
           match l with
           | [a; b; c] => Ok (Some (CbRemote rh a b c))
           | _ => Err OracleMiss
           end
         else Ok None
  end.

Definition handle_emit (async : bool) (kv : list (pv * pv)) : M unit :=
  cb <~ lift (remote_cb (dget k_callback kv) (dget k_host_id kv)) ;;
  ev <~ lift (dreq k_event kv) ;;
  da <~ lift (dreq k_data kv) ;;
  op_emit async ev da (dget k_namespace kv) (dget k_room kv) (dget k_skip_sid kv) cb.

Definition handle_callback (own : pv) (async : bool) (kv : list (pv * pv)) : M unit :=
  if py_eq own (dget k_host_id kv) then
    match dreq k_sid kv, dreq k_id kv, dreq k_args kv with
    | Ok sid, Ok id, Ok args => op_trigger own async sid id args
    | _, _, _ => ret tt                                  (* except KeyError: return *)
    end
  else ret tt.

Definition handle_disconnect (kv : list (pv * pv)) : M unit :=
  server_disconnect (dget k_sid kv) (dget k_namespace kv).

Definition handle_enter_room (kv : list (pv * pv)) : M unit :=
  let sid := dget k_sid kv in let ns := dget k_namespace kv in
  c <~ op_is_connected sid ns ;;
  if c then op_enter_room sid ns (dget k_room kv) else ret tt.

Definition handle_leave_room (kv : list (pv * pv)) : M unit :=
  let sid := dget k_sid kv in let ns := dget k_namespace kv in
  c <~ op_is_connected sid ns ;;
  if c then op_leave_room sid ns (dget k_room kv) else ret tt.

Definition handle_close_room (kv : list (pv * pv)) : M unit :=
  op_close_room (dget k_room kv) (dget k_namespace kv).

(* the body of the inner try *)
Definition dispatch (own : pv) (async : bool) (kv : list (pv * pv)) (meth : pv) : M unit :=
  if py_eq meth (PStr k_callback) then handle_callback own async kv
  else if negb (py_eq (dget k_host_id kv) own) then
    if py_eq meth (PStr m_emit) then handle_emit async kv
    else if py_eq meth (PStr m_disconnect) then handle_disconnect kv
    else if py_eq meth (PStr m_enter_room) then handle_enter_room kv
    else if py_eq meth (PStr m_leave_room) then handle_leave_room kv
    else if py_eq meth (PStr m_close_room) then handle_close_room kv
    else ret tt
  else ret tt.

(* ------------------------------------------------------------------ *)
(* pubsub_manager.py: _thread                                          *)
(* ------------------------------------------------------------------ *)

(* dict / pickle.loads (bytes only) / json.loads, bare excepts; the two loaders are oracles:
   pk, js = what they return for this message, None when they raise *)
Definition decode (m : pv) (pk js : option pv) : pv :=
  match m with
  | PDict _ => m
  | _ =>
      let d := match m with
               | PBytes _ => match pk with Some v => v | None => PNone end
               | _ => PNone
               end in
      match d with
      | PNone => match js with Some v => v | None => PNone end
      | _ => d
      end
  end.

(* the body of the for loop; an Err result leaves the for statement *)
Definition body (own : pv) (async : bool) (m : pv) (pk js : option pv) : M unit :=
  let data := decode m pk js in
  if truthy data then
    c <~ lift (py_in_method data) ;;
    if c then
      meth <~ lift (py_getitem_method data) ;;          (* logger.debug(... data['method']) *)
      match data with
      | PDict kv => catch (dispatch own async kv meth) log_exc
      | _ => ret tt
      end
    else ret tt
  else ret tt.

Inductive item :=
| IMsg (m : pv) (pk js : option pv) (fs : list (option exn))   (* a message yielded by _listen() *)
| IRaise (e : exn)                                             (* the _listen() iterator raises *)
| IAck (sid id args : pv) (fs : list (option exn)).            (* between two messages the server delivers a
                                                                  client's ACK: manager.trigger_callback(sid, id, args) *)

Definition finish (w : world) (r : Res unit) : mgr * list eff * Res unit :=
  match flush w with (w', _) => (w_st w', rev (w_out w'), r) end.

Definition run_item (own : pv) (async : bool) (s : mgr) (it : item) : mgr * list eff * Res unit :=
  match it with
  | IMsg m pk js fs =>
      match body own async m pk js (mkW s fs [] []) with (w, r) => finish w r end
  | IAck sid id args fs =>
      match catch (op_trigger own async sid id args) (fun e => say (ELogExc e)) (mkW s fs [] []) with
      | (w, _) => finish w (Ok tt)
      end
  | IRaise e => (s, [], Err e)
  end.

(* for message in self._listen(): ...   None = the iterator is exhausted *)
Fixpoint for_loop (own : pv) (async : bool) (s : mgr) (its : list item)
  : mgr * list eff * option (exn * list item) :=
  match its with
  | [] => (s, [], None)
  | it :: rest =>
      match run_item own async s it with
      | (s', effs, Ok _) =>
          match for_loop own async s' rest with
          | (s'', effs', o) => (s'', effs ++ effs', o)
          end
      | (s', effs, Err e) => (s', effs, Some (e, rest))
      end
  end.

Inductive ending :=
| Exited                (* the iterator was exhausted: logger.error, break *)
| OutOfFuel
| Stopped.              (* a CancelledError reached the outer handler: asyncio `except asyncio.CancelledError: break`
                           (silently, the rest of the channel is never read); threaded: the BaseException leaves _thread *)

(* while True: try: for ...; logger.error; break  except CancelledError: break  except Exception: logger.exception *)
Fixpoint while_loop (fuel : nat) (own : pv) (async : bool) (s : mgr) (its : list item)
  : mgr * list eff * ending :=
  match fuel with
  | O => (s, [], OutOfFuel)
  | S f =>
      match for_loop own async s its with
      | (s', effs, None) => (s', EListen :: effs ++ [ELogErr], Exited)
      | (s', effs, Some (e, rest)) =>
          if is_cancel e then (s', EListen :: effs, Stopped) else
          match while_loop f own async s' rest with
          | (s'', effs', r) => (s'', EListen :: effs ++ ELogExc e :: effs', r)
          end
      end
  end.

Definition thread (own : pv) (async : bool) (s : mgr) (its : list item) : mgr * list eff * ending :=
  while_loop (S (List.length its)) own async s its.

(* ------------------------------------------------------------------ *)
(* the same loop as a fold: one step per item                          *)
(* ------------------------------------------------------------------ *)
Definition step (own : pv) (async : bool) (s : mgr) (it : item) : mgr * list eff :=
  match run_item own async s it with
  | (s', effs, Ok _) => (s', effs)
  | (s', effs, Err e) => (s', effs ++ [ELogExc e; EListen])
  end.
Fixpoint run (own : pv) (async : bool) (s : mgr) (its : list item) : mgr * list (list eff) :=
  match its with
  | [] => (s, [])
  | it :: rest =>
      match step own async s it with
      | (s', e) => match run own async s' rest with (s'', es) => (s'', e :: es) end
      end
  end.

(* does the handling of this item end with a CancelledError that nothing absorbed (the listener then ends)? *)
Definition cancels (own : pv) (async : bool) (s : mgr) (it : item) : bool :=
  match run_item own async s it with
  | (_, _, Err e) => is_cancel e
  | _ => false
  end.
(* no item of the channel does, each taken in the state the fold reaches it in *)
Fixpoint no_cancel (own : pv) (async : bool) (s : mgr) (its : list item) : bool :=
  match its with
  | [] => true
  | it :: rest => negb (cancels own async s it) && no_cancel own async (fst (step own async s it)) rest
  end.
(* the fault scripts only raise Exception subclasses *)
Definition ordinary_script (fs : list (option exn)) : bool :=
  forallb (fun f => match f with Some e => negb (is_cancel e) | None => true end) fs.
Definition ordinary_item (it : item) : bool :=
  match it with
  | IMsg _ _ _ fs | IAck _ _ _ fs => ordinary_script fs
  | IRaise e => negb (is_cancel e)
  end.

(* what an application or client can see of a run *)
Definition visible (own : pv) (async : bool) (s : mgr) (its : list item) : mgr * list eff :=
  match run own async s its with
  | (s', segs) => (s', filter observable (List.concat segs))
  end.

(* ------------------------------------------------------------------ *)
(* the messages this host publishes (pubsub_manager.py emit, disconnect, ...) *)
(* ------------------------------------------------------------------ *)
Definition msg_emit (own ev da ns room skip cb : pv) : pv :=
  PDict [(PStr k_method, PStr m_emit); (PStr k_event, ev); (PStr k_data, da);
         (PStr k_namespace, ns); (PStr k_room, room); (PStr k_skip_sid, skip);
         (PStr k_callback, cb); (PStr k_host_id, own)].
Definition msg_disconnect (own sid ns : pv) : pv :=
  PDict [(PStr k_method, PStr m_disconnect); (PStr k_sid, sid); (PStr k_namespace, ns);
         (PStr k_host_id, own)].
Definition msg_enter_room (own sid room ns : pv) : pv :=
  PDict [(PStr k_method, PStr m_enter_room); (PStr k_sid, sid); (PStr k_room, room);
         (PStr k_namespace, ns); (PStr k_host_id, own)].
Definition msg_leave_room (own sid room ns : pv) : pv :=
  PDict [(PStr k_method, PStr m_leave_room); (PStr k_sid, sid); (PStr k_room, room);
         (PStr k_namespace, ns); (PStr k_host_id, own)].
Definition msg_close_room (own room ns : pv) : pv :=
  PDict [(PStr k_method, PStr m_close_room); (PStr k_room, room); (PStr k_namespace, ns);
         (PStr k_host_id, own)].

(* ------------------------------------------------------------------ *)
(* the property's classes of ineffective messages                      *)
(* ------------------------------------------------------------------ *)
Inductive badclass :=
| BUndecodable            (* nothing could be decoded (or None was) *)
| BNonDict                (* decoded to something that is not a dict *)
| BNoMethod               (* a dict without 'method' *)
| BUnknownMethod
| BOwnEcho                (* emit/disconnect/enter_room/leave_room/close_room carrying this host's id *)
| BForeignCallback        (* callback addressed to another host *)
| BCallbackMissingField   (* callback for this host without sid / id / args *)
| BCallbackUnknown        (* callback for this host, no such sid or id (or unhashable ones) *)
| BCallbackCounter        (* callback for this host whose id hits slot 0, the id generator: never issued as an id;
                             ineffective since the fix of trigger_callback (only callables are callbacks) *)
| BEmitMalformed          (* emit without event / data, or with a callback field that has no len() *)
| BRoomOpMalformed        (* enter_room / leave_room whose sid or namespace cannot be looked up *)
| BNotHere.               (* enter_room / leave_room for a client that is not connected to this host *)

Definition is_five (meth : pv) : bool :=
  py_eq meth (PStr m_emit) || py_eq meth (PStr m_disconnect) || py_eq meth (PStr m_enter_room) ||
  py_eq meth (PStr m_leave_room) || py_eq meth (PStr m_close_room).

Definition classify (own : pv) (s : mgr) (it : item) : option badclass :=
  match it with
  | IMsg m pk js _ =>
      match decode m pk js with
      | PDict kv =>
          match aget (PStr k_method) kv with
          | None => Some BNoMethod
          | Some meth =>
              if py_eq meth (PStr k_callback) then
                if py_eq own (dget k_host_id kv) then
                  match dreq k_sid kv, dreq k_id kv, dreq k_args kv with
                  | Ok sid, Ok id, Ok _ =>
                      if hashable sid && hashable id then
                        match aget sid (cbs s) with
                        | None => Some BCallbackUnknown
                        | Some d =>
                            match aget id d with
                            | None => Some BCallbackUnknown
                            | Some (Counter _) => Some BCallbackCounter
                            | Some _ => None
                            end
                        end
                      else Some BCallbackUnknown
                  | _, _, _ => Some BCallbackMissingField
                  end
                else Some BForeignCallback
              else if py_eq (dget k_host_id kv) own then
                if is_five meth then Some BOwnEcho else Some BUnknownMethod
              else if py_eq meth (PStr m_emit) then
                match remote_cb (dget k_callback kv) (dget k_host_id kv), dreq k_event kv, dreq k_data kv with
                | Ok _, Ok _, Ok _ => None
                | _, _, _ => Some BEmitMalformed
                end
              else if py_eq meth (PStr m_disconnect) then None
              else if py_eq meth (PStr m_enter_room) || py_eq meth (PStr m_leave_room) then
                match is_connected_raw s (dget k_sid kv) (dget k_namespace kv) with
                | Err _ => Some BRoomOpMalformed
                | Ok false => Some BNotHere
                | Ok true => None
                end
              else if py_eq meth (PStr m_close_room) then None
              else Some BUnknownMethod
          end
      | PNone => Some BUndecodable
      | _ => Some BNonDict
      end
  | _ => None
  end.
