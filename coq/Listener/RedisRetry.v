(* C15 - the two retry loops of redis_manager.py / async_redis_manager.py (definitions only).

   The broker client library is a fault script: every library call made by the manager
   (Redis.from_url(...).pubsub(), pubsub.subscribe(), next() on pubsub.listen(),
   redis.publish()) takes the next outcome of the script.  When the script is used up the
   run is cut (REnd): the loops themselves have no exit. *)
From VT Require Export Base.PyVal Listener.Listener.
Open Scope N_scope.

Inductive outcome :=
| LOk                    (* the call succeeds (for next(): same as LStop) *)
| LYield (m : pv)        (* next() on listen() yields m (for the other calls: success) *)
| LStop                  (* the listen() iterator ends without raising *)
| LRedisError            (* the call raises redis.exceptions.RedisError (or a subclass) *)
| LOther (e : exn).      (* the call raises an exception that is not a RedisError *)

Inductive revent :=
| RConnect               (* self._redis_connect() completed *)
| RSubscribe             (* self.pubsub.subscribe(channel) completed *)
| RListen                (* self.pubsub.listen() called *)
| RYield (m : pv)        (* the generator yields m to its consumer *)
| RSleep (d : Z)         (* time.sleep(d) / await asyncio.sleep(d) *)
| RRaised (e : exn)      (* an exception leaves the generator *)
| REnd.                  (* script exhausted *)

Definition cap60 (r : Z) : Z := let r2 := (r * 2)%Z in if (r2 >? 60)%Z then 60%Z else r2.

(* next library call of _redis_listen_with_retries *)
Inductive phase :=
| PConn                  (* self._redis_connect()           (connect = True) *)
| PSub                   (* self.pubsub.subscribe(channel)  (connect = True) *)
| PNext (connect : bool).  (* next() on the current pubsub.listen() iterator *)

(* _redis_listen_with_retries: the messages it yields, the sleeps, the reconnections *)
Fixpoint rl_run (script : list outcome) (ph : phase) (retry_sleep : Z) : list revent :=
  match script with
  | [] => [REnd]
  | o :: rest =>
      match ph with
      | PConn =>
          match o with
          | LRedisError => RSleep retry_sleep :: rl_run rest PConn (cap60 retry_sleep)
          | LOther e => [RRaised e]
          | _ => RConnect :: rl_run rest PSub retry_sleep
          end
      | PSub =>
          match o with
          | LRedisError => RSleep retry_sleep :: rl_run rest PConn (cap60 retry_sleep)
          | LOther e => [RRaised e]
          | _ => RSubscribe :: RListen :: rl_run rest (PNext true) 1%Z
          end
      | PNext c =>
          match o with
          | LYield m => RYield m :: rl_run rest (PNext c) retry_sleep
          | LRedisError => RSleep retry_sleep :: rl_run rest PConn (cap60 retry_sleep)
          | LOther e => [RRaised e]
          | LOk | LStop =>                 (* listen() returned: while True again *)
              if c then rl_run rest PConn retry_sleep
              else RListen :: rl_run rest (PNext false) retry_sleep
          end
      end
  end.

(* _listen(): initial subscribe, then the filter over what the retry loop yields *)
Definition k_channel := s2l "channel".
Definition k_type := s2l "type".
Definition v_message := s2l "message".

Definition keep (channel : str) (m : pv) : Res (option pv) :=
  match m with
  | PDict kv =>
      ch <- dreq k_channel kv ;;
      if py_eq ch (PBytes channel) then
        ty <- dreq k_type kv ;;
        if py_eq ty (PStr v_message) then
          match aget (PStr k_data) kv with
          | Some d => Ok (Some d)
          | None => Ok None
          end
        else Ok None
      else Ok None
  | _ => Err TypeError
  end.

Fixpoint filter_events (channel : str) (t : list revent) : list revent :=
  match t with
  | [] => []
  | RYield m :: rest =>
      match keep channel m with
      | Ok (Some d) => RYield d :: filter_events channel rest
      | Ok None => filter_events channel rest
      | Err e => [RRaised e]
      end
  | e :: rest => e :: filter_events channel rest
  end.

Definition listen_run (channel : str) (script : list outcome) : list revent :=
  match script with
  | [] => [REnd]
  | LRedisError :: _ => [RRaised OtherError]      (* the first subscribe is outside the retry loop *)
  | LOther e :: _ => [RRaised e]
  | _ :: rest => RSubscribe :: RListen :: filter_events channel (rl_run rest (PNext false) 1%Z)
  end.

(* _publish: one retry after a reconnection, then give up; never raises a RedisError *)
Inductive pevent :=
| PConnect               (* self._redis_connect() completed *)
| PPublish               (* self.redis.publish(...) returned *)
| PGiveUp                (* second RedisError: the message is dropped *)
| PRaised (e : exn)
| PEnd.

Definition pub_run (script : list outcome) : list pevent :=
  match script with
  | [] => [PEnd]
  | LRedisError :: rest =>                           (* retry = False *)
      match rest with
      | [] => [PEnd]
      | LRedisError :: _ => [PGiveUp]                (* reconnect failed *)
      | LOther e :: _ => [PRaised e]
      | _ :: rest2 =>
          PConnect ::
          match rest2 with
          | [] => [PEnd]
          | LRedisError :: _ => [PGiveUp]
          | LOther e :: _ => [PRaised e]
          | _ :: _ => [PPublish]
          end
      end
  | LOther e :: _ => [PRaised e]
  | _ :: _ => [PPublish]
  end.

(* ---- the specification the traces are checked against ---- *)

(* sleeps start at 1, double after each further failure, never exceed 60, and restart at 1
   after a successful re-subscription *)
Fixpoint backoff_ok (expected : Z) (t : list revent) : bool :=
  match t with
  | [] => true
  | RSleep d :: rest => (d =? expected)%Z && (1 <=? d)%Z && (d <=? 60)%Z && backoff_ok (cap60 expected) rest
  | RSubscribe :: rest => backoff_ok 1%Z rest
  | _ :: rest => backoff_ok expected rest
  end.
(* scripts whose only failures are RedisErrors and whose messages have the fields the client
   library always provides ('channel', 'type') *)
Definition redis_only (channel : str) (script : list outcome) : bool :=
  forallb (fun o => match o with
                    | LOther _ => false
                    | LYield m => match keep channel m with Err _ => false | Ok _ => true end
                    | _ => true
                    end) script.
Definition no_other (script : list outcome) : bool :=
  forallb (fun o => match o with LOther _ => false | _ => true end) script.
Fixpoint ends_with_end (t : list revent) : bool :=
  match t with
  | [] => false
  | [REnd] => true
  | _ :: rest => ends_with_end rest
  end.
Definition count_publish (t : list pevent) : nat :=
  List.length (filter (fun e => match e with PPublish => true | _ => false end) t).
Definition pub_no_raise (t : list pevent) : bool :=
  forallb (fun e => match e with PRaised _ => false | _ => true end) t.

(* ------------------------------------------------------------------ *)
(* _thread over the Redis backend: does the listener stay subscribed?  *)
(* ------------------------------------------------------------------ *)
(* what the broker sees of one pubsub connection.  Subscriptions are a set: a second subscribe
   changes nothing, one unsubscribe removes the channel; a new connection starts unsubscribed.
   A message reaches the listener only while the channel is subscribed. *)
Inductive bevent :=
| BSub | BUnsub | BConnect
| BDeliver (k : nat)        (* channel message k handed to the listener *)
| BLost (k : nat).          (* channel message k arrived while nobody was subscribed *)

Inductive ritem :=
| RM (it : item)            (* a message on the channel (it is an IMsg) *)
| RE.                       (* the connection drops: RedisError out of pubsub.listen() *)

(* every delivery finds the channel subscribed, nothing is lost, and the listener is still
   subscribed at the end *)
Fixpoint deliveries_ok (st : bool) (tr : list bevent) : bool :=
  match tr with
  | [] => st
  | BSub :: r => deliveries_ok true r
  | BUnsub :: r | BConnect :: r => deliveries_ok false r
  | BDeliver _ :: r => st && deliveries_ok st r
  | BLost _ :: _ => false
  end.

(* does handling this message leave the for statement (outer except: _listen() is called again)?
   That is decided before any manager state is looked at. *)
Definition restarts (own : pv) (async : bool) (it : item) : bool :=
  match run_item own async (mkMgr [] []) it with
  | (_, _, Err e) => negb (is_cancel e)     (* a CancelledError ends the listener instead *)
  | _ => false
  end.

(* the source's call pattern: _listen() subscribes, and never unsubscribes while it is iterated;
   a restart of _listen() subscribes again on the same pubsub object; after a RedisError
   _redis_listen_with_retries makes a new connection and subscribes on it *)
Fixpoint rt_go (own : pv) (async : bool) (k : nat) (items : list ritem) : list bevent :=
  match items with
  | [] => []
  | RM it :: r => BDeliver k :: (if restarts own async it then [BSub] else []) ++ rt_go own async (S k) r
  | RE :: r => BConnect :: BSub :: rt_go own async k r
  end.
Definition rt_model (own : pv) (async : bool) (items : list ritem) : list bevent :=
  BSub :: rt_go own async O items.
