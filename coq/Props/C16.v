(* C16 - property theorems only.  The session store is keyed as the code keys it: by
   (transport, namespace); sess_at s e n is what is stored there.  no_save_actions c: handlers do
   not call save_session themselves (saves are the explicit operations of the history);
   untouched: no operation of the history saves on that (transport, namespace) pair or ends
   that transport. *)
From VT Require Import Server.Sessions.

Theorem C16_get_after_save : forall sid v pns s e,
  eio_from_sid (mg s) sid (ns_or_default pns) = Some e -> In e (live s) ->
  let s1 := put_sess s e (ns_or_default pns) v in
  api_save_session sid v pns s = (s1, [], Ok tt) /\
  api_get_session sid pns s1 = (s1, [], Ok v) /\
  sess_at s1 e (ns_or_default pns) = Some v.
Proof. exact C16_get_after_save_lemma. Qed.
Print Assumptions C16_get_after_save.

Theorem C16_value_persists : forall c sid v pns s e ops,
  no_save_actions c ->
  eio_from_sid (mg s) sid (ns_or_default pns) = Some e -> In e (live s) ->
  let s1 := fst (fst (api_save_session sid v pns s)) in
  untouched c s1 ops e (ns_or_default pns) ->
  let s2 := fst (run c s1 ops) in
  sess_at s2 e (ns_or_default pns) = Some v /\
  (eio_from_sid (mg s2) sid (ns_or_default pns) = Some e -> In e (live s2) ->
   api_get_session sid pns s2 = (s2, [], Ok v)).
Proof. exact C16_value_persists_lemma. Qed.
Print Assumptions C16_value_persists.

Theorem C16_stable : forall c, no_save_actions c -> forall e n (P : option pv -> Prop),
  (P None -> P (Some (PDict []))) -> forall s o,
  ~ touches s o e n -> P (sess_at s e n) -> P (sess_at (fst (step c s o)) e n).
Proof. exact C16_stable_lemma. Qed.
Print Assumptions C16_stable.

Theorem C16_context_manager_persists : forall c sid pns k v s e,
  eio_from_sid (mg s) sid (ns_or_default pns) = Some e -> In e (live s) ->
  let d := sess_val s e (ns_or_default pns) in
  let s1 := fst (step c s (ApiSessionSet sid pns k v)) in
  snd (step c s (ApiSessionSet sid pns k v)) = [] /\
  sess_at s1 e (ns_or_default pns) = Some (dict_set d k v) /\
  api_get_session sid pns s1 = (s1, [], Ok (dict_set d k v)).
Proof. exact C16_context_manager_lemma. Qed.
Print Assumptions C16_context_manager_persists.

Theorem C16_isolation : forall sid v pns sid' pns' s,
  let s1 := fst (fst (api_save_session sid v pns s)) in
  (eio_from_sid (mg s) sid' (ns_or_default pns') <> eio_from_sid (mg s) sid (ns_or_default pns) \/
   ns_or_default pns' <> ns_or_default pns) ->
  snd (api_get_session sid' pns' s1) = snd (api_get_session sid' pns' s).
Proof. exact C16_isolation_lemma. Qed.
Print Assumptions C16_isolation.

Theorem C16_isolation_store : forall sid v pns s e e' n',
  eio_from_sid (mg s) sid (ns_or_default pns) = Some e -> In e (live s) ->
  (e' <> e \/ n' <> ns_or_default pns) ->
  sess_at (fst (fst (api_save_session sid v pns s))) e' n' = sess_at s e' n'.
Proof. exact Sessions.C16_isolation_store. Qed.
Print Assumptions C16_isolation_store.

Theorem C16_destroyed_on_transport_end : forall c s e reason,
  cfg_ok c -> Inv s -> In e (live s) ->
  let s' := fst (step c s (EioClose e reason)) in
  ~ In e (map fst (sessions s')) /\ forall n, sess_at s' e n = None.
Proof. exact C16_destroyed_lemma. Qed.
Print Assumptions C16_destroyed_on_transport_end.

Theorem C16_fresh_refuted :
  exists c ops newsid v,
    no_save_actions c /\ Forall op_ok ops /\
    sids_of_eio (mg (fst (run c srv_init ops))) y_e1 = [newsid] /\ newsid <> sid_name 0 /\
    last (snd (run c srv_init ops)) [] = [Ret v] /\ v <> PDict [].
Proof. exact C16_fresh_refuted_lemma. Qed.
Print Assumptions C16_fresh_refuted.

Theorem C16_fresh_except : forall sid pns s e,
  eio_from_sid (mg s) sid (ns_or_default pns) = Some e -> In e (live s) ->
  sess_empty s e (ns_or_default pns) ->
  snd (api_get_session sid pns s) = Ok (PDict []).
Proof. exact C16_fresh_except_lemma. Qed.
Print Assumptions C16_fresh_except.

Theorem C16_new_transport_empty : forall c s e env n,
  Inv s -> ~ In e (live s) -> sess_at (fst (step c s (EioConnect e env))) e n = None.
Proof. exact C16_new_transport_empty_lemma. Qed.
Print Assumptions C16_new_transport_empty.

Theorem C16_fresh_new_transport : forall c s e env n ops sid,
  no_save_actions c -> Inv s -> ~ In e (live s) ->
  let s1 := fst (step c s (EioConnect e env)) in
  untouched c s1 ops e n ->
  let s2 := fst (run c s1 ops) in
  eio_from_sid (mg s2) sid n = Some e -> In e (live s2) -> n <> [] ->
  snd (api_get_session sid (Some n) s2) = Ok (PDict []).
Proof. exact C16_fresh_new_transport_lemma. Qed.
Print Assumptions C16_fresh_new_transport.

(* executable form, partial: for the three session operations the head of c16_fold accepts the
   model's own step and the ghost link (specification store keyed by sid = model store keyed by
   transport, through eio_from_sid) is re-established *)
Theorem C16_fold_api_partial : forall c s st o r es,
  Inv s -> link s st ->
  match o with ApiGetSession _ _ | ApiSaveSession _ _ _ | ApiSessionSet _ _ _ _ => True | _ => False end ->
  exists st', c16_fold c s st (o :: r) (snd (step c s o) :: es) = c16_fold c (fst (step c s o)) st' r es /\
              link (fst (step c s o)) st'.
Proof. exact Sessions.C16_fold_api_partial. Qed.
Print Assumptions C16_fold_api_partial.

Theorem C16_example :
  let s1 := fst (fst (api_save_session (sid_name 0) y_secret None y_state)) in
  api_get_session (sid_name 0) None s1 = (s1, [], Ok y_secret) /\
  snd (api_get_session (sid_name 1) (Some y_nsa) s1) = Ok (PDict []) /\
  snd (api_get_session (sid_name 2) None s1) = Ok (PDict []).
Proof. exact y_get_after_save. Qed.
Print Assumptions C16_example.
