(* C16 - property theorems only.  The session store is keyed as the code keys it: by
   (transport, namespace); sess_at s e n is what is stored there.  no_save_actions c: handlers do
   not call save_session themselves (saves are the explicit operations of the history);
   untouched: no operation of the history saves on that (transport, namespace) pair or ends
   that transport. *)
From VT Require Import Server.Sessions Server.SessionsFold.

Theorem C16_get_after_save : forall sid v pns s e,
  eio_from_sid (mg s) sid (ns_or_default pns) = Some e -> In e (live s) ->
  let s1 := put_sess s e (ns_or_default pns) v in
  api_save_session sid v pns s = (s1, [], Ok tt) /\
  api_get_session sid pns s1 = (s1, [], Ok v) /\
  sess_at s1 e (ns_or_default pns) = Some v.
Proof. exact C16_get_after_save_lemma. Qed.
Print Assumptions C16_get_after_save.

Theorem C16_value_persists : forall c sid v pns s e ops,
  no_save_actions c ->
  eio_from_sid (mg s) sid (ns_or_default pns) = Some e -> In e (live s) ->
  let s1 := fst (fst (api_save_session sid v pns s)) in
  untouched c s1 ops e (ns_or_default pns) ->
  let s2 := fst (run c s1 ops) in
  sess_at s2 e (ns_or_default pns) = Some v /\
  (eio_from_sid (mg s2) sid (ns_or_default pns) = Some e -> In e (live s2) ->
   api_get_session sid pns s2 = (s2, [], Ok v)).
Proof. exact C16_value_persists_lemma. Qed.
Print Assumptions C16_value_persists.

Theorem C16_stable : forall c, no_save_actions c -> forall e n (P : option pv -> Prop),
  (P None -> P (Some (PDict []))) -> forall s o,
  ~ touches s o e n -> P (sess_at s e n) -> P (sess_at (fst (step c s o)) e n).
Proof. exact C16_stable_lemma. Qed.
Print Assumptions C16_stable.

Theorem C16_context_manager_persists : forall c sid pns k v s e,
  eio_from_sid (mg s) sid (ns_or_default pns) = Some e -> In e (live s) ->
  let d := sess_val s e (ns_or_default pns) in
  let s1 := fst (step c s (ApiSessionSet sid pns k v)) in
  snd (step c s (ApiSessionSet sid pns k v)) = [] /\
  sess_at s1 e (ns_or_default pns) = Some (dict_set d k v) /\
  api_get_session sid pns s1 = (s1, [], Ok (dict_set d k v)).
Proof. exact C16_context_manager_lemma. Qed.
Print Assumptions C16_context_manager_persists.

Theorem C16_isolation : forall sid v pns sid' pns' s,
  let s1 := fst (fst (api_save_session sid v pns s)) in
  (eio_from_sid (mg s) sid' (ns_or_default pns') <> eio_from_sid (mg s) sid (ns_or_default pns) \/
   ns_or_default pns' <> ns_or_default pns) ->
  snd (api_get_session sid' pns' s1) = snd (api_get_session sid' pns' s).
Proof. exact C16_isolation_lemma. Qed.
Print Assumptions C16_isolation.

Theorem C16_isolation_store : forall sid v pns s e e' n',
  eio_from_sid (mg s) sid (ns_or_default pns) = Some e -> In e (live s) ->
  (e' <> e \/ n' <> ns_or_default pns) ->
  sess_at (fst (fst (api_save_session sid v pns s))) e' n' = sess_at s e' n'.
Proof. exact Sessions.C16_isolation_store. Qed.
Print Assumptions C16_isolation_store.

Theorem C16_destroyed_on_transport_end : forall c s e reason,
  cfg_ok c -> Inv s -> In e (live s) ->
  let s' := fst (step c s (EioClose e reason)) in
  ~ In e (map fst (sessions s')) /\ forall n, sess_at s' e n = None.
Proof. exact C16_destroyed_lemma. Qed.
Print Assumptions C16_destroyed_on_transport_end.

Theorem C16_fresh_refuted :
  exists c ops newsid v,
    no_save_actions c /\ Forall op_ok ops /\
    sids_of_eio (mg (fst (run c srv_init ops))) y_e1 = [newsid] /\ newsid <> sid_name 0 /\
    last (snd (run c srv_init ops)) [] = [Ret v] /\ v <> PDict [].
Proof. exact C16_fresh_refuted_lemma. Qed.
Print Assumptions C16_fresh_refuted.

Theorem C16_fresh_except : forall sid pns s e,
  eio_from_sid (mg s) sid (ns_or_default pns) = Some e -> In e (live s) ->
  sess_empty s e (ns_or_default pns) ->
  snd (api_get_session sid pns s) = Ok (PDict []).
Proof. exact C16_fresh_except_lemma. Qed.
Print Assumptions C16_fresh_except.

Theorem C16_new_transport_empty : forall c s e env n,
  Inv s -> ~ In e (live s) -> sess_at (fst (step c s (EioConnect e env))) e n = None.
Proof. exact C16_new_transport_empty_lemma. Qed.
Print Assumptions C16_new_transport_empty.

Theorem C16_fresh_new_transport : forall c s e env n ops sid,
  no_save_actions c -> Inv s -> ~ In e (live s) ->
  let s1 := fst (step c s (EioConnect e env)) in
  untouched c s1 ops e n ->
  let s2 := fst (run c s1 ops) in
  eio_from_sid (mg s2) sid n = Some e -> In e (live s2) -> n <> [] ->
  snd (api_get_session sid (Some n) s2) = Ok (PDict []).
Proof. exact C16_fresh_new_transport_lemma. Qed.
Print Assumptions C16_fresh_new_transport.

(* executable form, partial: for the three session operations the head of c16_fold accepts the
   model's own step and the ghost link (specification store keyed by sid = model store keyed by
   transport, through eio_from_sid) is re-established *)
Theorem C16_fold_api_partial : forall c s st o r es,
  Inv s -> link s st ->
  match o with ApiGetSession _ _ | ApiSaveSession _ _ _ | ApiSessionSet _ _ _ _ => True | _ => False end ->
  exists st', c16_fold c s st (o :: r) (snd (step c s o) :: es) = c16_fold c (fst (step c s o)) st' r es /\
              link (fst (step c s o)) st'.
Proof. exact Sessions.C16_fold_api_partial. Qed.
Print Assumptions C16_fold_api_partial.

(* ---- executable form over whole histories ----
   The checker c16_fold accepts the model's own run on every history (from srv_init, or from any
   state satisfying the replay invariant FoldInv: Inv, the link, and the ghosts "unissued session
   ids have no specification entry" / "never-occupied slots hold no session") in which no
   (namespace, sid, transport) triple newly appears on a (transport, namespace) slot that was
   already occupied since that transport was opened (no_ns_rejoin).  That is exactly the shape of
   C16_fresh_refuted, and the exclusion is necessary: c16_fold rejects that history
   (C16_fold_run_examples, last clause).  A transport that is closed and opened again under the
   same engine.io id is NOT excluded.  Every operation kind is covered, and handlers may read the
   session (AGet) in connect, event and disconnect handlers.

   The second exclusion, reads_attributable, is about the checker, not the model: c16_fold
   attributes the Ret effects that follow a Call to the first argument of the Call that names a
   connected session id (sid_in_args).  reads_attributable says (1) the session-id-like strings
   among the arguments of every Call are all the same and (2) no namespace in use is named like a
   session id.  Without (1) the statement is false (C16_fold_attribution_refuted: a catch-all
   handler and an event named after another client's session id).  (2) is only used for the
   legacy disconnect retry that drops the session id from the arguments; it is not shown to be
   necessary.
   C16_fold_run_partial is the variant without any attribution hypothesis for configurations
   whose handlers do not read (no_get_actions). *)
Theorem C16_fold_run_except : forall c ops,
  no_save_actions c -> cfg_ok c -> Forall op_ok ops ->
  no_ns_rejoin c srv_init [] ops = true -> reads_attributable c srv_init ops = true ->
  c16_fold c srv_init [] ops (snd (run c srv_init ops)) = true.
Proof. exact fold_accepts_reads_init. Qed.
Print Assumptions C16_fold_run_except.

Theorem C16_fold_run_from_except : forall c,
  no_save_actions c -> cfg_ok c ->
  forall ops, Forall op_ok ops -> forall s st seen, FoldInv s st seen -> one_ns s ->
  no_ns_rejoin c s seen ops = true -> reads_attributable c s ops = true ->
  c16_fold c s st ops (snd (run c s ops)) = true.
Proof. exact fold_accepts_reads. Qed.
Print Assumptions C16_fold_run_from_except.

Theorem C16_fold_attribution_refuted :
  exists c ops,
    no_save_actions c /\ cfg_ok c /\ Forall op_ok ops /\ no_ns_rejoin c srv_init [] ops = true /\
    last (snd (run c srv_init ops)) [] = [Call 2 [PStr (sid_name 0); PStr (sid_name 1)]; Ret (PDict [])] /\
    reads_attributable c srv_init ops = false /\
    c16_fold c srv_init [] ops (snd (run c srv_init ops)) = false.
Proof. exact fold_attribution_refuted. Qed.
Print Assumptions C16_fold_attribution_refuted.

Theorem C16_fold_run_partial : forall c ops,
  no_save_actions c -> no_get_actions c -> cfg_ok c -> Forall op_ok ops ->
  no_ns_rejoin c srv_init [] ops = true ->
  c16_fold c srv_init [] ops (snd (run c srv_init ops)) = true.
Proof. exact fold_accepts_init. Qed.
Print Assumptions C16_fold_run_partial.

Theorem C16_fold_run_from_partial : forall c,
  no_save_actions c -> no_get_actions c -> cfg_ok c ->
  forall ops, Forall op_ok ops -> forall s st seen, FoldInv s st seen ->
  no_ns_rejoin c s seen ops = true -> c16_fold c s st ops (snd (run c s ops)) = true.
Proof. exact fold_accepts. Qed.
Print Assumptions C16_fold_run_from_partial.

(* one step, every operation kind: the head of c16_fold (c16_head, see C16_fold_cons) accepts the
   model's own step and the replay invariant is re-established *)
Theorem C16_fold_step_except : forall c s st seen o,
  no_save_actions c -> cfg_ok c -> op_ok o -> FoldInv s st seen -> one_ns s ->
  join_ok s (fst (step c s o)) seen = true ->
  reads_ok s (fst (step c s o)) (snd (step c s o)) = true ->
  c16_head c s st o (snd (step c s o)) = true /\
  (FoldInv (fst (step c s o)) (st_next s st o) (seen_next (fst (step c s o)) seen) /\
   one_ns (fst (step c s o))).
Proof. exact fold_step_reads. Qed.
Print Assumptions C16_fold_step_except.

Theorem C16_fold_cons : forall c s st o r e es,
  c16_fold c s st (o :: r) (e :: es) = c16_head c s st o e && c16_fold c (fst (step c s o)) (st_next s st o) r es.
Proof. exact c16_fold_cons. Qed.
Print Assumptions C16_fold_cons.

(* non-vacuity.  w_ops: two clients, three sessions on two namespaces, saves, a session() block,
   an event, a namespace left for good, a transport loss, the reconnect of the lost engine.io id
   and a server-side disconnect.  With r_cfg the connect, "msg" and disconnect handlers read the
   session (what they read is listed); with w_cfg no handler reads.  Last clauses: the refuting
   history of C16_fresh_refuted is excluded by no_ns_rejoin, and c16_fold rejects it. *)
Theorem C16_fold_run_examples :
  (no_save_actions r_cfg /\ cfg_ok r_cfg /\ Forall op_ok w_ops /\
   no_ns_rejoin r_cfg srv_init [] w_ops = true /\ reads_attributable r_cfg srv_init w_ops = true /\
   flat_map (fun es => if existsb (fun x => match x with Call _ _ => true | _ => false end) es
                       then flat_map (fun x => match x with Ret v => [v] | _ => [] end) es else [])
            (snd (run r_cfg srv_init w_ops)) =
     [PDict []; PDict []; PDict []; y_secret; y_secret; PDict []; PDict [(PStr (s2l "k"), PInt 3)]]) /\
  (no_save_actions w_cfg /\ no_get_actions w_cfg /\ cfg_ok w_cfg /\ Forall op_ok w_ops /\
   no_ns_rejoin w_cfg srv_init [] w_ops = true /\
   map (fun es => match es with [Ret v] => Some v | _ => None end)
       (filter (fun es => match es with [Ret _] | [Raised _] => true | _ => false end) (snd (run w_cfg srv_init w_ops))) =
     [Some (PDict []); None; Some y_secret; None; Some (PDict [(PStr (s2l "k"), PInt 3)]); Some (PDict [])] /\
   no_ns_rejoin y_cfg srv_init [] y_ops = false) /\
  c16_fold y_cfg srv_init [] y_ops (snd (run y_cfg srv_init y_ops)) = false.
Proof. exact (conj r_hypotheses (conj w_hypotheses y_rejected)). Qed.
Print Assumptions C16_fold_run_examples.

Theorem C16_example :
  let s1 := fst (fst (api_save_session (sid_name 0) y_secret None y_state)) in
  api_get_session (sid_name 0) None s1 = (s1, [], Ok y_secret) /\
  snd (api_get_session (sid_name 1) (Some y_nsa) s1) = Ok (PDict []) /\
  snd (api_get_session (sid_name 2) None s1) = Ok (PDict []).
Proof. exact y_get_after_save. Qed.
Print Assumptions C16_example.
