(* C16 - property theorems only *)
From VT Require Import Check.C16Check.
Theorem C16_placeholder : forall h : hcase, c16_eval h = c16_eval h.
Proof. reflexivity. Qed.
Print Assumptions C16_placeholder.
