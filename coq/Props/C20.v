(* C20 - threaded server: concurrent terminations of one client.  Property theorems only.
   Model: Conc/ServerConc.v at thread granularity (one scheduling choice = one access to the
   client manager / eio.send / the disconnect handler / server.environ).  [outcome] (ConcSpec.v)
   is the property: handler at most once at any time and exactly once when all tasks have
   finished, no exception, no trace of the client, everybody else untouched. *)
From VT Require Import Conc.ConcProofs.

(* The property is FALSE of the faithful model: witnesses with two tasks (server.disconnect()
   in one thread, the client's DISCONNECT packet in the other) on a client alone in "/". *)
Theorem C20_refuted :
  exists R m0 env0 causes sched, quiescent_start m0 /\
    ~ outcome R m0 env0 causes (run_sched GThread R causes sched m0 env0).
Proof. exact thread_refuted. Qed.
Print Assumptions C20_refuted.

(* both tasks pass is_connected before either calls pre_disconnect: the handler runs twice and
   pending_disconnect keeps the sid *)
Theorem C20_refuted_handler_twice :
  let c := run_sched GThread [] x_two x_sched_twice x_lone [x_e0] in
  all_done c = true /\ hcount (x_S "S0") x_sl (c_log c) = 2 /\ raised (c_log c) = false /\
  is_pending (c_mgr c) (x_S "S0") x_sl = true.
Proof. exact thread_refuted_twice. Qed.
Print Assumptions C20_refuted_handler_twice.

(* same window, the packet thread finishes first: disconnect() raises KeyError in
   pre_disconnect after having appended the sid to pending_disconnect, which is never cleaned *)
Theorem C20_refuted_keyerror_leftover :
  let c := run_sched GThread [] x_two x_sched_keyerror x_lone [x_e0] in
  all_done c = true /\ hcount (x_S "S0") x_sl (c_log c) = 1 /\ raised (c_log c) = true /\
  In (LMark (x_S "S0") x_sl (Err KeyError)) (c_log c) /\
  is_pending (c_mgr c) (x_S "S0") x_sl = true.
Proof. exact thread_refuted_keyerror. Qed.
Print Assumptions C20_refuted_keyerror_leftover.

(* Characterisation: EVERY violating schedule (any number of tasks, any well-formed quiescent
   start, any length) has a prefix after which two tasks have observed is_connected = True
   for the same (sid, namespace) and neither has called pre_disconnect yet. *)
Theorem C20_only_via_double_check :
  forall R m0 env0 causes, quiescent_start m0 -> forall sched,
    ~ outcome R m0 env0 causes (run_sched GThread R causes sched m0 env0) ->
    exists k, double_window (prefix_cfg GThread R (init m0 env0 causes) sched k) = true.
Proof. exact only_via_double_check. Qed.
Print Assumptions C20_only_via_double_check.

(* Equivalently: a schedule that never lets a second task answer its check for a client while
   another task stands between its check and its mark for the same client is safe. *)
Theorem C20_except :
  forall R m0 env0 causes, quiescent_start m0 -> forall sched,
    no_double_check GThread R (init m0 env0 causes) sched ->
    outcome R m0 env0 causes (run_sched GThread R causes sched m0 env0).
Proof. exact thread_except. Qed.
Print Assumptions C20_except.

(* In particular when the terminating actions run one after the other. *)
Theorem C20_sequential :
  forall R m0 env0 causes, quiescent_start m0 -> forall sched,
    sequential GThread R (init m0 env0 causes) sched ->
    outcome R m0 env0 causes (run_sched GThread R causes sched m0 env0).
Proof. exact thread_sequential. Qed.
Print Assumptions C20_sequential.

(* What a repair has to achieve, and that it suffices: if is_connected + pre_disconnect form one
   critical section (granularity GLocked: every other access is still its own step), the
   property holds for ALL schedules, any number of tasks.  (Not a statement about the pinned
   tree: GLocked is not its granularity.) *)
Theorem C20_repaired_if_check_and_mark_atomic :
  forall R m0 env0 causes, quiescent_start m0 -> forall sched,
    outcome R m0 env0 causes (run_sched GLocked R causes sched m0 env0).
Proof. exact locked_all. Qed.
Print Assumptions C20_repaired_if_check_and_mark_atomic.
