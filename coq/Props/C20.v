(* C20 - property theorems only (placeholder while the proofs are being written) *)
From VT Require Import Check.C20Check.
Theorem C20_placeholder : forall k : ccase, c20_eval k = c20_eval k.
Proof. reflexivity. Qed.
Print Assumptions C20_placeholder.
