(* C20 - threaded server: concurrent terminations of one client.  Property theorems only.

   Model: Conc/ServerConc.v.  The threaded server as it is now (Server.disconnect() and
   Server._handle_disconnect() perform is_connected + pre_disconnect while holding
   self._disconnect_lock) is the granularity GLocked: one scheduling choice = ONE access to the
   client manager / the lock / eio.send / the disconnect handler / server.environ; a task that
   wants the lock cannot move while another task holds it; disconnect() first makes one
   unlocked check (can_disconnect).  Part 1 states the property for ALL schedules of that
   code.  Part 2 documents what the lock repaired: the same code without the lock (granularity
   GThread) violates the property, and every violation goes through the double-check window. *)
From VT Require Import Conc.ConcProofs Conc.TwoSessions.

(* ===================== Part 1: the code with the lock, all schedules ===================== *)

(* For ANY number of concurrent terminating tasks (server.disconnect(), client DISCONNECT,
   transport loss, on any sids / namespaces / transports), any well-formed quiescent start, ALL
   schedules of any length: the disconnect handler of a client has run at most once at any
   moment, only for clients connected at the start, and exactly once for every connected client
   some task was aimed at when all tasks have finished. *)
Theorem C20_once :
  forall R m0 env0 causes, quiescent_start m0 -> forall sched,
    let c := run_sched GLocked R causes sched m0 env0 in
    (forall s ns, hcount s ns (c_log c) <= 1) /\
    (forall s ns, 1 <= hcount s ns (c_log c) -> in_room m0 ns PNone s = true) /\
    (all_done c = true -> forall k s ns, In k causes -> targets m0 k s ns ->
       in_room m0 ns PNone s = true -> hcount s ns (c_log c) = 1).
Proof. exact locked_once. Qed.
Print Assumptions C20_once.

(* No exception escapes any thread (R = the sids whose scripted handler raises). *)
Theorem C20_no_raise :
  forall R m0 env0 causes, quiescent_start m0 -> forall sched,
    R = [] -> raised (c_log (run_sched GLocked R causes sched m0 env0)) = false.
Proof. exact locked_no_raise. Qed.
Print Assumptions C20_no_raise.

(* Afterwards no trace of the client remains: in no room, not connected, callbacks deleted,
   nothing pending at all, environ of lost transports deleted (also when handlers raise). *)
Theorem C20_no_trace :
  forall R m0 env0 causes, quiescent_start m0 -> forall sched,
    let c := run_sched GLocked R causes sched m0 env0 in
    all_done c = true ->
    (forall k s ns, In k causes -> targets m0 k s ns -> in_room m0 ns PNone s = true ->
       (forall r, room_ok r -> in_room (c_mgr c) ns r s = false) /\
       is_connected (c_mgr c) (Some s) ns = false /\
       aget str_eqb (callbacks (c_mgr c)) s = None) /\
    (forall s ns, is_pending (c_mgr c) s ns = false) /\
    (forall e r, In (CLoss e r) causes -> ~ In e (c_env c)).
Proof. exact locked_no_trace. Qed.
Print Assumptions C20_no_trace.

(* The complete statement (adds: clients whose handler has not run keep every membership and
   their callbacks; transports nobody lost keep their environ). *)
Theorem C20_all_schedules :
  forall R m0 env0 causes, quiescent_start m0 -> forall sched,
    outcome R m0 env0 causes (run_sched GLocked R causes sched m0 env0).
Proof. exact locked_all. Qed.
Print Assumptions C20_all_schedules.

(* Why: with the lock two tasks never stand between their check and their mark for the same
   client at the same time. *)
Theorem C20_lock_excludes_double_check :
  forall R m0 env0 causes, quiescent_start m0 -> forall sched,
    double_window (run_sched GLocked R causes sched m0 env0) = false.
Proof. exact locked_window_exclusive. Qed.
Print Assumptions C20_lock_excludes_double_check.

(* Two sessions of ONE transport (a transport connected to namespaces nsa and nsb), a terminating
   action aimed at each (disconnect() / DISCONNECT packet for that namespace, or the loss of the
   transport, which is aimed at both) among any number of concurrent tasks: the lock is one lock
   per server, so a task may have to wait for a task that works on the OTHER session; in ALL
   schedules (pre-emption at every access, also inside the critical sections) each of the two
   handlers runs at most once, no exception escapes, and when all tasks have finished each ran
   exactly once and no trace of either session is left. *)
Theorem C20_two_sessions_one_transport :
  forall R m0 env0 causes, quiescent_start m0 ->
  forall e sa sb nsa nsb, sid_from_eio m0 e nsa = Some sa -> sid_from_eio m0 e nsb = Some sb ->
  forall ka kb, In ka causes -> In kb causes -> targets m0 ka sa nsa -> targets m0 kb sb nsb ->
  forall sched,
    let c := run_sched GLocked R causes sched m0 env0 in
    hcount sa nsa (c_log c) <= 1 /\ hcount sb nsb (c_log c) <= 1 /\
    (R = [] -> raised (c_log c) = false) /\
    (all_done c = true ->
       hcount sa nsa (c_log c) = 1 /\ hcount sb nsb (c_log c) = 1 /\
       is_connected (c_mgr c) (Some sa) nsa = false /\ is_connected (c_mgr c) (Some sb) nsb = false /\
       (forall r, room_ok r -> in_room (c_mgr c) nsa r sa = false /\ in_room (c_mgr c) nsb r sb = false) /\
       aget str_eqb (callbacks (c_mgr c)) sa = None /\ aget str_eqb (callbacks (c_mgr c)) sb = None /\
       (forall s ns, is_pending (c_mgr c) s ns = false)).
Proof. exact locked_two_sessions. Qed.
Print Assumptions C20_two_sessions_one_transport.

(* The waiting matters: in the variant where _handle_disconnect() takes the lock with a
   non-blocking acquire and returns when it is busy (run_try: a packet / loss task in front of
   its acquire while another task is inside the critical section gives up on its namespace) the
   property is FALSE - disconnect(S1, "/b") pre-empted inside the critical section, the loss of
   the transport gives up on "/a": the handler of S0 never runs and S0 stays in the rooms. *)
Theorem C20_trylock_refuted :
  exists R m0 env0 causes sched, quiescent_start m0 /\
    ~ outcome R m0 env0 causes (run_try R (init GLocked m0 env0 causes) sched).
Proof. exact trylock_refuted. Qed.
Print Assumptions C20_trylock_refuted.

(* ============ Part 2: the code WITHOUT the lock (before the repair): what it fixed ============ *)

(* Without the lock the property is FALSE: witnesses with two tasks (server.disconnect() in one
   thread, the client's DISCONNECT packet in the other) on a client alone in "/". *)
Theorem C20_refuted :
  exists R m0 env0 causes sched, quiescent_start m0 /\
    ~ outcome R m0 env0 causes (run_sched GThread R causes sched m0 env0).
Proof. exact thread_refuted. Qed.
Print Assumptions C20_refuted.

(* both tasks pass is_connected before either calls pre_disconnect: the handler runs twice.
   (Until basic_disconnect was repaired to release the pending mark even when the namespace
   table is already gone, pending_disconnect also kept the second mark of the sid.) *)
Theorem C20_refuted_handler_twice :
  let c := run_sched GThread [] x_two x_sched_twice x_lone [x_e0] in
  all_done c = true /\ hcount (x_S "S0") x_sl (c_log c) = 2 /\ raised (c_log c) = false /\
  is_pending (c_mgr c) (x_S "S0") x_sl = false.
Proof. exact thread_refuted_twice. Qed.
Print Assumptions C20_refuted_handler_twice.

(* same window, the packet thread finishes first: disconnect() raises KeyError in
   pre_disconnect after having appended the sid to pending_disconnect, which is never cleaned *)
Theorem C20_refuted_keyerror_leftover :
  let c := run_sched GThread [] x_two x_sched_keyerror x_lone [x_e0] in
  all_done c = true /\ hcount (x_S "S0") x_sl (c_log c) = 1 /\ raised (c_log c) = true /\
  In (LMark (x_S "S0") x_sl (Err KeyError)) (c_log c) /\
  is_pending (c_mgr c) (x_S "S0") x_sl = true.
Proof. exact thread_refuted_keyerror. Qed.
Print Assumptions C20_refuted_keyerror_leftover.

(* Without the lock EVERY violating schedule (any number of tasks, any start, any length) has a
   prefix after which two tasks have observed is_connected = True for the same (sid, namespace)
   and neither has called pre_disconnect yet: the signature `double-check-window-*`. *)
Theorem C20_only_via_double_check :
  forall R m0 env0 causes, quiescent_start m0 -> forall sched,
    ~ outcome R m0 env0 causes (run_sched GThread R causes sched m0 env0) ->
    exists k, double_window (prefix_cfg GThread R (init GThread m0 env0 causes) sched k) = true.
Proof. exact only_via_double_check. Qed.
Print Assumptions C20_only_via_double_check.

(* Equivalently, without the lock the schedules that never open the window twice are safe ... *)
Theorem C20_except :
  forall R m0 env0 causes, quiescent_start m0 -> forall sched,
    no_double_check GThread R (init GThread m0 env0 causes) sched ->
    outcome R m0 env0 causes (run_sched GThread R causes sched m0 env0).
Proof. exact thread_except. Qed.
Print Assumptions C20_except.

(* ... in particular when the terminating actions run one after the other. *)
Theorem C20_sequential :
  forall R m0 env0 causes, quiescent_start m0 -> forall sched,
    sequential GThread R (init GThread m0 env0 causes) sched ->
    outcome R m0 env0 causes (run_sched GThread R causes sched m0 env0).
Proof. exact thread_sequential. Qed.
Print Assumptions C20_sequential.
