(* C07 - multi-host pub/sub: a cluster behaves like one server holding all clients.
   Property theorems only; the model is Cluster/PubSub.v, proofs live in Cluster/ClusterLemmas.v,
   Cluster/ClusterProofs.v, Cluster/CallbackProofs.v, the worked instance in Cluster/ClusterExamples.v. *)
From VT Require Import Manager.ManagerProofs Manager.AckProofs.
From VT Require Import Cluster.PubSub Cluster.ClusterLemmas Cluster.ClusterProofs Cluster.CallbackProofs
  Cluster.ClusterExamples Check.C07Check Check.C07CheckProofs.
From Coq Require Import Permutation.
Open Scope N_scope.

(* ---- immediate consumption: refinement of ONE server with a plain Manager ---- *)
(* For ANY number of hosts (wos: which of them are write-only managers), ANY placement of transports on
   hosts and ANY history in the domain (wf_op: rooms are names, emit targets are a name / None / a list of
   names, a callback emit names one room, operations are issued on existing hosts, a transport talks to its own
   host): after every operation + drain, step by step, the cluster hands the clients the same packets as
   the single server (as multisets, ack ids hidden), the union of the hosts' tables is the single server's
   table, and every listening host has read everything except possibly callback-return messages. *)
Theorem C07_immediate : forall (place : str -> nat) (wos : list bool) (ops : list op),
  Forall (wf_op place (cluster_init wos)) ops ->
  Forall2 deliveries_agree (snd (run_imm (cluster_init wos) ops)) (snd (run_single single_init ops)) /\
  (forall ns r sid, room_ok r ->
     abs (fst (run_imm (cluster_init wos) ops)) ns r sid =
     mlook (h_mgr (s_host (fst (run_single single_init ops)))) ns r sid) /\
  caught_up (fst (run_imm (cluster_init wos) ops)).
Proof. exact immediate_refines. Qed.
Print Assumptions C07_immediate.

(* ---- the issuing host never applies its own emit twice ---- *)
(* Mechanism in this version of the code: emit() applies the message locally (_handle_emit) and then publishes
   it with host_id = self.host_id; _thread skips every non-callback message whose host_id is its own. *)
Theorem C07_no_double_on_origin : forall c k h ev data ns room skip cb,
  nth_error (c_hosts c) k = Some h -> hst_ok (h_st h) ->
  op_ok (Emit k ev data ns room skip cb) -> (cb <> None -> h_wo h = false) ->
  NoDup (map fst (deliveries (snd (step c (Emit k ev data ns room skip cb))))) /\
  exists m, published (snd (step c (Emit k ev data ns room skip cb))) = [m] /\
            msg_host m = k /\ is_callback_msg m = false /\
    forall c' h', nth_error (c_hosts c') k = Some h' -> h_wo h' = false ->
      nth_error (c_chan c') (h_cur h') = Some m ->
      step c' (Consume k) =
      (mkCl (upd (c_hosts c') k (mkHost (h_st h') false (S (h_cur h')))) (c_chan c') (c_fresh c') (c_log c'),
       [Consumed k (h_cur h')]).
Proof. exact no_double_on_origin. Qed.
Print Assumptions C07_no_double_on_origin.

(* ---- callback relay: once, on the issuing host, with the client's arguments ---- *)
Theorem C07_callback_once_on_issuer :
  forall (i o : nat), i <> o ->
  forall (si so : hst) (sid eio ns : str) (ev data : pv) (cb : N) (args : list pv),
  hst_ok si -> hst_ok so -> sid <> [] ->
  mem (h_mgr so) ns PNone sid = Some eio ->
  mem (h_mgr so) ns (PStr sid) sid = Some eio ->
  (forall s' e', mem (h_mgr so) ns (PStr sid) s' = Some e' -> s' = sid) ->
  (forall s', mem (h_mgr si) ns (PStr sid) s' = None) ->
  exists si1 so1 so2 si2,
    api i (ps_emit i false ev data ns (PStr sid) PNone (Some cb)) si = (si1, [Published (m_emit i si sid ns ev data)]) /\
    contained o (dispatch o (m_emit i si sid ns ev data)) so =
      (so1, [Deliver o eio (PktEvent ns (ev :: pack data) (Some (lid so sid)))]) /\
    h_ack o eio ns (lid so sid) args so1 = (so2, [Published (m_ret i si sid ns args)]) /\
    contained i (dispatch i (m_ret i si sid ns args)) si1 = (si2, [Callback i cb args]) /\
    h_ack o eio ns (lid so sid) args so2 = (so2, []) /\
    contained i (dispatch i (m_ret i si sid ns args)) si2 = (si2, []) /\
    (forall k s, k <> i -> contained k (dispatch k (m_ret i si sid ns args)) s = (s, [])) /\
    contained i (dispatch i (m_emit i si sid ns ev data)) si1 = (si1, []) /\
    hst_ok si1 /\ hst_ok so1 /\ hst_ok si2 /\ hst_ok so2.
Proof. exact callback_relay. Qed.
Print Assumptions C07_callback_once_on_issuer.

(* ---- delayed consumption: ALL schedules ---- *)
(* each channel message is applied at most once per host: the (host, index) pairs applied along any run,
   from any state, over any operations, are pairwise distinct ... *)
Theorem C07_delayed_at_most_once : forall ops c, NoDup (applied c ops).
Proof. exact applied_once. Qed.
Print Assumptions C07_delayed_at_most_once.

(* ... because a cursor moves only forward, by one, through a Consume of that host that takes the message
   under the cursor; the channel only grows *)
Theorem C07_delayed_cursor : forall c o, cursor_step c (fst (step c o)) o.
Proof. exact cursors_monotone. Qed.
Print Assumptions C07_delayed_cursor.

(* eligibility: a client receives an emit through the listener of its host only if, at the moment that host
   consumes the message, it is in an addressed room of that host's table and not skipped *)
Theorem C07_delayed_eligible : forall c k h ev data ns room skip cb origin,
  nth_error (c_hosts c) k = Some h -> h_wo h = false -> hst_ok (h_st h) -> target_ok room = true -> origin <> k ->
  nth_error (c_chan c) (h_cur h) = Some (MEmit ev data ns room skip cb origin) ->
  forall k' eio p, In (Deliver k' eio p) (snd (step c (Consume k))) ->
    k' = k /\ (exists id, p = PktEvent ns (ev :: pack data) id) /\
    exists sid r, In r (addressed room) /\ mlook (h_mgr (h_st h)) ns r sid = Some eio /\
                  skipped (skip_list skip) sid = false.
Proof. exact delayed_eligible. Qed.
Print Assumptions C07_delayed_eligible.

(* exactness: an emit issued in a state where every host is up to date, followed by ANY schedule of Consume
   steps (no membership change in between): nobody gets it twice, only single-server recipients get it, and
   once every listening host has passed the message the recipients are exactly the single server's *)
Theorem C07_delayed : forall (place : str -> nat) c s k ev data ns room skip cb (sch : list nat),
  R place c s -> wf_op place c (Emit k ev data ns room skip cb) ->
  let o := Emit k ev data ns room skip cb in
  let c1 := fst (step c o) in
  let c2 := fst (run c1 (consumes sch)) in
  let es := snd (step c o) ++ List.concat (snd (run c1 (consumes sch))) in
  let ref := deliveries (snd (single_step s o)) in
  NoDup (deliveries es) /\ incl (deliveries es) ref /\
  ((forall k2 h, nth_error (c_hosts c2) k2 = Some h -> h_wo h = false ->
                 (List.length (c_chan c) < h_cur h)%nat) ->
   Permutation (deliveries es) ref).
Proof. exact delayed_exact. Qed.
Print Assumptions C07_delayed.

(* the premise [R place c s] of C07_delayed is what C07_immediate's induction maintains: every state reached
   under immediate consumption satisfies it *)
Theorem C07_reachable_related : forall (place : str -> nat) (wos : list bool) (ops : list op),
  Forall (wf_op place (cluster_init wos)) ops ->
  R place (fst (run_imm (cluster_init wos) ops)) (fst (run_single single_init ops)).
Proof.
  intros place wos ops H.
  exact (proj1 (proj2 (run_imm_refines place ops _ _ _ (R_init place wos) (same_wos_refl _) H))).
Qed.
Print Assumptions C07_reachable_related.

(* ---- the checker applied to the implementation's traces ---- *)
(* the boolean delivery comparison decides "same multiset of (client, packet) at every step", and every model
   run under immediate consumption passes it *)
Theorem C07_chk_deliveries_meaning : forall a b,
  deliveries_okb a b = true <-> Forall2 deliveries_agree a b.
Proof. exact deliveries_okb_spec. Qed.
Print Assumptions C07_chk_deliveries_meaning.

Theorem C07_chk_immediate_model : forall (place : str -> nat) wos ops,
  Forall (wf_op place (cluster_init wos)) ops ->
  deliveries_okb (snd (run_imm (cluster_init wos) ops)) (snd (run_single single_init ops)) = true.
Proof. exact chk_immediate_model. Qed.
Print Assumptions C07_chk_immediate_model.

(* ---- application handlers (Cluster/Handlers.v, proofs in Cluster/HandlersProofs.v) ---- *)
From VT Require Import Cluster.Handlers Cluster.HandlersProofs.

(* the model with handlers is a conservative extension: an application that registers no handler makes every
   history of PubSub.v run exactly as PubSub.run (same successor state, same effects) *)
Theorem C07_handlers_conservative : forall ops c,
  xrun [] c (map XBase ops) = let '(c1, es) := run c ops in (c1, map (map HE) es).
Proof. exact xrun_no_handlers. Qed.
Print Assumptions C07_handlers_conservative.

(* the disconnect window: for a client that is marked pending (its disconnect handler is running),
   leave_room / enter_room publish the request on the channel and leave the host's tables unchanged *)
Theorem C07_leave_room_in_window : forall k sid ns room s,
  is_pending (h_mgr s) sid ns = true ->
  ps_leave_room k sid ns room s = (s, [Published (MLeaveRoom sid room ns k)], Ok tt).
Proof. exact leave_room_in_window. Qed.
Print Assumptions C07_leave_room_in_window.
Theorem C07_enter_room_in_window : forall k sid ns room s,
  is_pending (h_mgr s) sid ns = true ->
  ps_enter_room k sid ns room s = (s, [Published (MEnterRoom sid room ns k)], Ok tt).
Proof. exact enter_room_in_window. Qed.
Print Assumptions C07_enter_room_in_window.
