(* C09 - property theorems only; proofs live in Client/ClientLemmas.v, Client/ClientProofs.v,
   Client/CheckProofs.v *)
From VT Require Import Client.ClientLemmas Client.CliCheck Client.ClientProofs Client.Witness.
From VT Require Import Check.C09Check Client.CheckProofs Client.HistoryProofs Check.C09XCheck Client.ClientXProofs Client.C09ModelProofs.
Open Scope N_scope.

(* ack-id invariant: after every history (any length, any configuration) and in every intermediate
   state, every namespace's outstanding ids are distinct numbers in [1, next id of the generator) *)
Theorem C09_ack_id_invariant : forall c ops,
  cb_inv (final c ops) /\ Forall (fun se => cb_inv (fst se)) (snd (run c cli_init ops)).
Proof. exact ack_id_invariant. Qed.
Print Assumptions C09_ack_id_invariant.

(* unique: the id given to a callback is positive, was not outstanding in its namespace, now maps
   to exactly that callback, and no other (namespace, id) changed *)
Theorem C09_unique : forall s ns cb,
  cb_inv s ->
  let id := c_next (slot_of s ns) in
  let s' := st (generate_ack_id ns cb) s in
  rs (generate_ack_id ns cb) s = Ok id /\ 1 <= id /\
  outstanding (callbacks s) ns (Some (Z.of_N id)) = None /\
  outstanding (callbacks s') ns (Some (Z.of_N id)) = Some cb /\
  (forall ns' i, (ns', i) <> (ns, Z.of_N id) ->
                 outstanding (callbacks s') ns' (Some i) = outstanding (callbacks s) ns' (Some i)).
Proof. exact unique_id. Qed.
Print Assumptions C09_unique.

(* ... and that id is the one the EVENT of emit(callback=...) / call() carries *)
Theorem C09_unique_emit : forall ev data pns cb s l,
  cb_inv s ->
  ahas str_eqb (namespaces s) (ns_or_default pns) = true ->
  let ns := ns_or_default pns in
  let id := c_next (slot_of s ns) in
  pieces EVENT (PList (PStr ev :: emit_args data)) ns (Some (Z.of_N id)) = Ok l ->
  api_emit ev data pns (Some cb) s = (st (generate_ack_id ns cb) s, if sendable s then map Sent l else [], Ok (Some id)) /\
  outstanding (callbacks s) ns (Some (Z.of_N id)) = None /\
  outstanding (callbacks (st (generate_ack_id ns cb) s)) ns (Some (Z.of_N id)) = Some cb.
Proof. exact unique_emit. Qed.
Print Assumptions C09_unique_emit.

(* at most once: the ACK that finds a callback removes it; the same ACK again (any payload) does
   nothing; no other (namespace, id) is touched *)
Theorem C09_at_most_once : forall c s pns i data cb,
  cb_inv s ->
  outstanding (callbacks s) (ns_or_default pns) (Some i) = Some cb ->
  let s' := st (handle_ack c pns (Some i) data) s in
  outstanding (callbacks s') (ns_or_default pns) (Some i) = None /\
  cb_inv s' /\
  (forall data', handle_ack c pns (Some i) data' s' = (s', [], Ok tt)) /\
  (forall ns' j, (ns', j) <> (ns_or_default pns, i) ->
                 outstanding (callbacks s') ns' (Some j) = outstanding (callbacks s) ns' (Some j)).
Proof. exact at_most_once. Qed.
Print Assumptions C09_at_most_once.

(* at most once, over histories of any length: if the application hands pairwise distinct callback
   objects to emit / send, no callback is invoked twice, whatever the server sends; and only
   callbacks that were handed to an emit / send of the history are ever invoked *)
Theorem C09_at_most_once_history : forall c ops,
  NoDup (flat_map op_refs ops) -> NoDup (called (history_effects c cli_init ops)).
Proof. exact at_most_once_history. Qed.
Print Assumptions C09_at_most_once_history.
Theorem C09_only_registered_callbacks : forall c ops n,
  In n (called (history_effects c cli_init ops)) -> In n (flat_map op_refs ops).
Proof. exact called_were_registered. Qed.
Print Assumptions C09_only_registered_callbacks.

(* unknown_ignored: an ACK whose (namespace, id) is not outstanding - unknown, repeated, id 0
   (outstanding _ _ (Some 0) = None by computation), no id, or outstanding only on another
   namespace - invokes nothing and leaves the whole state unchanged *)
Theorem C09_unknown_ignored : forall c s pns id data,
  outstanding (callbacks s) (ns_or_default pns) id = None ->
  handle_ack c pns id data s = (s, [], Ok tt).
Proof. exact unknown_ignored. Qed.
Print Assumptions C09_unknown_ignored.
Theorem C09_id_zero_not_outstanding : forall cbs ns, outstanding cbs ns (Some 0%Z) = None.
Proof. exact id_zero_not_outstanding. Qed.
Print Assumptions C09_id_zero_not_outstanding.

(* right namespace and id: a callback is invoked by an ACK only if it is the one outstanding under
   exactly the ACK's namespace and id, with the acknowledged arguments, and it is the only effect *)
Theorem C09_right_namespace : forall c s pns id data cb args,
  In (CbCall cb args) (ef (handle_ack c pns id data) s) ->
  outstanding (callbacks s) (ns_or_default pns) id = Some (CbUser cb) /\ star_args data = Ok args /\
  ef (handle_ack c pns id data) s = [CbCall cb args].
Proof. exact right_namespace. Qed.
Print Assumptions C09_right_namespace.

(* event: for every state and EVENT the responsible handler runs exactly once with the event's
   arguments and - iff an id is present - exactly one ACK (that id, that namespace, pack(return
   value)) is sent; the state is unchanged *)
Theorem C09_event : forall c s pns id data ev args h a v fr,
  split_event data = Ok (PStr ev, args) ->
  responsible c (PStr ev) (ns_or_default pns) args = Some (h, a) ->
  arity_fits c h (List.length a) = true -> returns c h = Some v ->
  ack_effects s (ns_or_default pns) id v = Ok fr ->
  handle_event c pns id data s = (s, Call h a :: fr, Ok tt).
Proof. exact event_handled. Qed.
Print Assumptions C09_event.
(* nobody responsible: nothing is invoked; an id is still acknowledged, with no arguments *)
Theorem C09_event_unhandled : forall c s pns id data ev args fr,
  split_event data = Ok (PStr ev, args) ->
  responsible c (PStr ev) (ns_or_default pns) args = None ->
  ack_effects s (ns_or_default pns) id PNone = Ok fr ->
  handle_event c pns id data s = (s, fr, Ok tt).
Proof. exact event_unhandled. Qed.
Print Assumptions C09_event_unhandled.
Theorem C09_pack_shapes : pack PNone = [] /\ (forall l, pack (PTuple l) = l) /\
                          (forall v, v <> PNone -> (forall l, v <> PTuple l) -> pack v = [v]).
Proof. exact pack_shapes. Qed.
Print Assumptions C09_pack_shapes.

(* call(): the arguments acknowledged for the id just used come back as None / the value / the
   tuple; the callback entry is gone afterwards.  The premise on `decode` is the codec round trip
   (C01) for the frame the server answers with. *)
Theorem C09_call_result : forall c s ev data pns r tbl fr p enc pns',
  cb_inv s ->
  ahas str_eqb (namespaces s) (ns_or_default pns) = true ->
  sendable s = true -> binpkt s = None ->
  let ns := ns_or_default pns in
  let id := c_next (slot_of s ns) in
  pieces EVENT (PList (PStr ev :: emit_args data)) ns (Some (Z.of_N id)) = Ok fr ->
  ctor true ACK (PList r) (Some ns) (Some (Z.of_N id)) None = Ok p -> encode p = Ok enc ->
  decode (table_loads tbl) (PStr (fst enc)) = Ok (mkR (mkPacket (PInt ACK) pns' (Some (Z.of_N id)) (PList r)) 0 []) ->
  ns_or_default pns' = ns ->
  rs (api_call c ev data pns (Some r) tbl) s = Ok (shape_result r) /\
  filter observable (ef (api_call c ev data pns (Some r) tbl) s) = map Sent fr /\
  outstanding (callbacks (st (api_call c ev data pns (Some r) tbl) s)) ns (Some (Z.of_N id)) = None /\
  st (api_call c ev data pns (Some r) tbl) s
  = with_callbacks (st (generate_ack_id ns CbInt) s)
                   (drop_callback (callbacks (st (generate_ack_id ns CbInt) s)) ns id).
Proof. exact call_result. Qed.
Print Assumptions C09_call_result.
Theorem C09_call_timeout : forall c s ev data pns tbl fr,
  ahas str_eqb (namespaces s) (ns_or_default pns) = true ->
  let ns := ns_or_default pns in
  let id := c_next (slot_of s ns) in
  pieces EVENT (PList (PStr ev :: emit_args data)) ns (Some (Z.of_N id)) = Ok fr ->
  api_call c ev data pns None tbl s =
  (st (generate_ack_id ns CbInt) s, if sendable s then map Sent fr else [], Err TimeoutError).
Proof. exact call_timeout. Qed.
Print Assumptions C09_call_timeout.
Theorem C09_call_shapes :
  shape_result [] = PNone /\ (forall x, shape_result [x] = x) /\
  (forall x y l, shape_result (x :: y :: l) = PTuple (x :: y :: l)).
Proof. exact shape_result_shapes. Qed.
Print Assumptions C09_call_shapes.

(* the correspondence test accepts the model's own run on every history, and the C09 checker
   accepts the model's run of the clean witness history *)
Theorem C09_corr_accepts_model : forall c ops, corr_ok (model_case c ops) = true.
Proof. exact corr_model. Qed.
Print Assumptions C09_corr_accepts_model.
Theorem C09_checker_accepts_clean : c09_code (model_case cfg_w witness_clean) = 0%nat.
Proof. exact c09_accepts_clean. Qed.
Print Assumptions C09_checker_accepts_clean.

(* re-entrant delivery (Client/ClientX.v): the LAST attachment of a BINARY_EVENT arrives and its handler
   delivers the next server frame before returning.  The nested frame is handled by a complete, ordinary
   _handle_eio_message in the state where the reassembled packet has already been consumed
   (_binary_packet = None): its effects and state change are exactly those of delivering it on its own -
   it is not mistaken for a further attachment, nothing is lost - and the outer event is handled once and
   acknowledged once, with its own return value, after the nested effects *)
Theorem C09_nested_binary_event : forall c loads s r0 payload r' ev args h a v payload2 tbl2 fr,
  binpkt s = Some r0 -> add_attachment r0 payload = Ok (r', true) -> type_is (rp r') BINARY_EVENT = true ->
  split_event (pdata (rp r')) = Ok (PStr ev, args) -> reserved (PStr ev) = false ->
  let ns := ns_or_default (pns (rp r')) in
  responsible c (PStr ev) ns args = Some (h, a) -> arity_fits c h (List.length a) = true -> returns c h = Some v ->
  let s0 := with_binpkt s None in
  let s1 := st (deliver c payload2 tbl2) s0 in
  ack_effects s1 ns (pid (rp r')) v = Ok fr ->
  binpkt s0 = None /\
  handle_eio_message_nested c loads payload (deliver c payload2 tbl2) s
  = (s1, Call h a :: ef (deliver c payload2 tbl2) s0 ++ fr, Ok tt).
Proof. exact nested_binary_event. Qed.
Print Assumptions C09_nested_binary_event.
(* the same for a text EVENT *)
Theorem C09_nested_text_event : forall c loads s payload r ev args h a v payload2 tbl2 fr,
  binpkt s = None -> decode loads payload = Ok r ->
  type_is (rp r) CONNECT = false -> type_is (rp r) DISCONNECT = false -> type_is (rp r) EVENT = true ->
  split_event (pdata (rp r)) = Ok (PStr ev, args) -> reserved (PStr ev) = false ->
  let ns := ns_or_default (pns (rp r)) in
  responsible c (PStr ev) ns args = Some (h, a) -> arity_fits c h (List.length a) = true -> returns c h = Some v ->
  let s1 := st (deliver c payload2 tbl2) s in
  ack_effects s1 ns (pid (rp r)) v = Ok fr ->
  handle_eio_message_nested c loads payload (deliver c payload2 tbl2) s
  = (s1, Call h a :: ef (deliver c payload2 tbl2) s ++ fr, Ok tt).
Proof. exact nested_text_event. Qed.
Print Assumptions C09_nested_text_event.
(* the model's run of a witness history with all three kinds of nested frame (ACK for an outstanding
   callback inside a binary event, EVENT for another namespace inside a text event, header of the next
   binary event inside a binary event) passes the extended checker - correspondence and every clause -
   and produces the effects listed *)
Theorem C09_nested_model_passes_checker :
  c09x_code (xmodel_case cfg_x witness_nested) = 0%nat /\
  map snd (snd (xrun cfg_x cli_init witness_nested)) =
  [ [Sent (PStr (s2l "0{}")); Sent (PStr (s2l "0/a,{}")); Ret PNone];
    [Sent (PStr (s2l "2/a,1[""q""]"))];
    [];
    [Call 3 [PBytes [1; 2]]; CbCall 7 [PStr (s2l "ok")]; Sent (PStr (s2l "34[1,""x""]"))];
    [Call 3 [PInt 1]; Call 5 [PInt 2]; Sent (PStr (s2l "3/a,3[""n""]")); Sent (PStr (s2l "39[1,""x""]"))];
    [];
    [Call 3 [PBytes [5]]];
    [Call 5 [PBytes [122; 122]]; Sent (PStr (s2l "3/a,8[""n""]"))] ].
Proof. exact nested_model_passes_checker. Qed.
Print Assumptions C09_nested_model_passes_checker.

(* the clause checker accepts the MODEL's own run.  Per operation, in every state satisfying the ack-id
   invariant: every server message whatsoever (event / ack / unknown-ignored clauses), every emit / send
   with a callback (unique clause), and call() inside [c09_dom] (its EVENT can be encoded; if the scenario
   answers it, the transport is up, no binary packet is pending and the oracle table decodes the reply
   frame back to the ACK it encodes - the codec round trip, C01) *)
Theorem C09_step_model : forall c s o,
  cb_inv s -> c09_dom c s o ->
  c09_step c s (dump_of s) o (filter observable (snd (step c s o))) (dump_of (fst (step c s o))) = O.
Proof. exact c09_step_model. Qed.
Print Assumptions C09_step_model.
(* ... hence for EVERY history in that domain whose emit / send callbacks are pairwise distinct objects: the
   whole checker (correspondence bit, every clause at every operation, no callback twice) returns 0 *)
Theorem C09_model_passes_checker : forall c ops,
  dom_run c cli_init ops -> NoDup (flat_map op_refs ops) -> c09_code (model_case c ops) = 0%nat.
Proof. exact model_passes_checker. Qed.
Print Assumptions C09_model_passes_checker.
