(* C09 - property theorems only *)
From VT Require Import Check.C09Check.
Theorem C09_placeholder : forall k : ccase, c09_eval k = c09_eval k.
Proof. reflexivity. Qed.
Print Assumptions C09_placeholder.
