(* C02 - End-to-end payload transparency between client and server handlers.
   Property theorems only; proofs live in E2E/E2EProofs.v (on top of the C01 development).
   Model: E2E/Pipe.v, Codec/MsgPack.v; domain and checkers: Check/C02Check.v.

   `loads` = engineio.json.loads, `mdumps`/`mloads` = msgpack.dumps/loads: universally
   quantified functions; what is assumed of them is a named premise of each theorem
   (`msg_json_ok`: loads inverts json.dumps on the one JSON text of the message;
    `msg_msgpack_ok`: msgpack round-trips the one dictionary of the message).  The
   default-serializer theorems are `_partial` in the sense of C01_roundtrip_pointwise_partial:
   the JSON parser is not modelled, its correctness on the text at hand is the premise. *)
From VT Require Import Codec.Packet Codec.SpecCodec Check.C01Check Check.C01CheckProofs.
From VT Require Import Codec.MsgPack E2E.Pipe Check.C02Check E2E.E2EProofs.

(* client.py and server.py / manager.py run the same packing, unpacking and reassembly code:
   every theorem below is proved once and holds for dir = C2S and dir = S2C *)
Theorem C02_same_code :
  (forall d, client_pack d = pack d) /\
  (forall d, client_split_event d = split_event d) /\
  (forall d, client_star_args d = star_args d) /\
  (forall loads mloads ser st f, client_rx_step loads mloads ser st f = server_rx_step loads mloads ser st f) /\
  (forall mdumps ser ev data ns id,
     client_emit_frames mdumps ser ev data ns id = server_emit_frames mdumps ser ev data ns id) /\
  (forall mdumps ser r ns id, client_ack_frames mdumps ser r ns id = server_ack_frames mdumps ser r ns id).
Proof. exact same_code. Qed.
Print Assumptions C02_same_code.

(* ---- arguments: what emit/send/call was given arrives at the peer's handler ---- *)
(* default serializer: the frames are the text frame followed by the byte strings of the payload
   in depth-first order; the receiver's loop fed with them makes exactly one handler call, on
   the namespace sent on, with the event name and `pack data` (tuple -> its elements, None ->
   nothing, anything else -> that one value), every nested value - bytes included - equal *)
Theorem C02_args_partial : forall loads mloads mdumps dir event data ns id,
  wf_payload data = true -> wf_nsname ns = true -> wf_id id = true ->
  msg_small (MEmit event data ns id) ->
  msg_json_ok loads (MEmit event data ns id) ->
  exists f,
    let frames := PStr f :: map PBytes (leaves (PList (PStr event :: pack data))) in
    sender_frames mdumps dir SerDefault event data ns id = Ok frames /\
    receiver_calls loads mloads dir SerDefault frames = Ok [EvCall ns (PStr event) (pack data) id].
Proof. exact args_default. Qed.
Print Assumptions C02_args_partial.

(* msgpack serializer: one blob; any payload whatsoever for which the library round-trips the
   packet dictionary *)
Theorem C02_args_msgpack : forall loads mloads mdumps dir event data ns id,
  ns <> [] ->
  msg_msgpack_ok mdumps mloads (MEmit event data ns id) ->
  exists b,
    sender_frames mdumps dir SerMsgpack event data ns id = Ok [PBytes b] /\
    receiver_calls loads mloads dir SerMsgpack [PBytes b] = Ok [EvCall ns (PStr event) (pack data) id].
Proof. exact args_msgpack. Qed.
Print Assumptions C02_args_msgpack.

(* ---- acknowledgements: the handler's return value arrives at the sender's callback ---- *)
Theorem C02_ack_partial : forall loads mloads mdumps dir r ns id,
  wf_payload r = true -> wf_nsname ns = true -> wf_id (Some id) = true ->
  msg_small (MAck r ns id) ->
  msg_json_ok loads (MAck r ns id) ->
  exists f,
    let frames := PStr f :: map PBytes (leaves (PList (pack r))) in
    ack_frames mdumps dir SerDefault r ns id = Ok frames /\
    receiver_calls loads mloads dir SerDefault frames = Ok [AckCall ns (Some id) (pack r)] /\
    callback_args loads mloads dir SerDefault frames = Ok (pack r).
Proof. exact ack_default. Qed.
Print Assumptions C02_ack_partial.

Theorem C02_ack_msgpack : forall loads mloads mdumps dir r ns id,
  ns <> [] ->
  msg_msgpack_ok mdumps mloads (MAck r ns id) ->
  exists b,
    ack_frames mdumps dir SerMsgpack r ns id = Ok [PBytes b] /\
    receiver_calls loads mloads dir SerMsgpack [PBytes b] = Ok [AckCall ns (Some id) (pack r)] /\
    callback_args loads mloads dir SerMsgpack [PBytes b] = Ok (pack r).
Proof. exact ack_msgpack. Qed.
Print Assumptions C02_ack_msgpack.

(* call() returns None / the single value / the tuple *)
Theorem C02_call_result : forall r,
  call_result (pack r) = match r with
                         | PTuple [] => PNone
                         | PTuple [x] => x
                         | _ => r
                         end.
Proof. exact call_result_shape. Qed.
Print Assumptions C02_call_result.

(* ---- order: ANY list of messages (emits and ACK replies) sent one after another ---- *)
Theorem C02_order_partial : forall loads mloads mdumps dir ms,
  Forall (fun m => msg_wf m = true /\ msg_small m /\ msg_json_ok loads m) ms ->
  exists frs, all_frames mdumps dir SerDefault ms = Ok frs /\
              rx_run loads mloads dir SerDefault None frs = Ok (None, map msg_call ms) /\
              receiver_calls loads mloads dir SerDefault frs = Ok (map msg_call ms).
Proof. exact order_default. Qed.
Print Assumptions C02_order_partial.

Theorem C02_order_msgpack : forall loads mloads mdumps dir ms,
  Forall (fun m => msg_ns m <> [] /\ msg_msgpack_ok mdumps mloads m) ms ->
  exists frs, all_frames mdumps dir SerMsgpack ms = Ok frs /\
              rx_run loads mloads dir SerMsgpack None frs = Ok (None, map msg_call ms) /\
              receiver_calls loads mloads dir SerMsgpack frs = Ok (map msg_call ms).
Proof. exact order_msgpack. Qed.
Print Assumptions C02_order_msgpack.

(* any serializer, any direction: messages that are each delivered are delivered in order *)
Theorem C02_order_generic : forall loads mloads mdumps dir ser ms,
  Forall (delivered loads mloads mdumps dir ser) ms ->
  exists frs, all_frames mdumps dir ser ms = Ok frs /\
              rx_run loads mloads dir ser None frs = Ok (None, map msg_call ms).
Proof. exact order_generic. Qed.
Print Assumptions C02_order_generic.

(* ---- the library hypotheses in their universal form imply the pointwise premises ---- *)
Theorem C02_json_universal_pointwise : forall (loads : str -> Res pv) m,
  (forall v s, jsonable v = true -> json_dumps v = Ok s -> loads s = Ok v) ->
  msg_wf m = true -> floats_ok (msg_payload m) = true -> msg_small m -> msg_json_ok loads m.
Proof. exact json_universal_pointwise. Qed.
Print Assumptions C02_json_universal_pointwise.

Theorem C02_msgpack_universal_pointwise : forall mdumps mloads m,
  (forall v, msgpackable v = true -> msgpack_rt mdumps mloads v) ->
  msg_mp_wf m = true -> msg_msgpack_ok mdumps mloads m.
Proof. exact msgpack_universal_pointwise. Qed.
Print Assumptions C02_msgpack_universal_pointwise.

(* ---- what the tie's boolean property checker establishes when it answers true ---- *)
Theorem C02_checker_sound : forall c, c02_prop c = true ->
  match c with
  | Stream ser dir ms jt mt wire obs => obs = map msg_call ms
  | CallRes r obs => obs = call_result (pack r)
  | CbArgs r obs => obs = pack r
  end.
Proof. exact c02_prop_sound. Qed.
Print Assumptions C02_checker_sound.
