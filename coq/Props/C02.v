(* C02 - End-to-end payload transparency between client and server handlers.
   Property theorems only; proofs live in E2E/E2EProofs.v (on top of the C01 development).
   Model: E2E/Pipe.v, Codec/MsgPack.v; domain and checkers: Check/C02Check.v.

   `loads` = engineio.json.loads, `mdumps`/`mloads` = msgpack.dumps/loads: universally
   quantified functions; what is assumed of them is a named premise of each theorem
   (`msg_json_ok`: loads inverts json.dumps on the one JSON text of the message;
    `msg_msgpack_ok`: msgpack round-trips the one dictionary of the message).  The
   default-serializer theorems are `_partial` in the sense of C01_roundtrip_pointwise_partial:
   the JSON parser is not modelled, its correctness on the text at hand is the premise. *)
From VT Require Import Codec.Packet Codec.SpecCodec Check.C01Check Check.C01CheckProofs.
From VT Require Import Codec.MsgPack E2E.Pipe E2E.AckTable Check.C02Check E2E.E2EProofs E2E.AckTableProofs.
From VT Require Import Codec.JsonParse E2E.E2EConcrete.

(* client.py and server.py / manager.py run the same packing, unpacking and reassembly code:
   every theorem below is proved once and holds for dir = C2S and dir = S2C *)
Theorem C02_same_code :
  (forall d, client_pack d = pack d) /\
  (forall d, client_split_event d = split_event d) /\
  (forall d, client_star_args d = star_args d) /\
  (forall loads mloads ser st f, client_rx_step loads mloads ser st f = server_rx_step loads mloads ser st f) /\
  (forall mdumps ser ev data ns id,
     client_emit_frames mdumps ser ev data ns id = server_emit_frames mdumps ser ev data ns id) /\
  (forall mdumps ser r ns id, client_ack_frames mdumps ser r ns id = server_ack_frames mdumps ser r ns id).
Proof. exact same_code. Qed.
Print Assumptions C02_same_code.

(* ---- arguments: what emit/send/call was given arrives at the peer's handler ---- *)
(* default serializer: the frames are the text frame followed by the byte strings of the payload
   in depth-first order; the receiver's loop fed with them makes exactly one handler call, on
   the namespace sent on, with the event name and `pack data` (tuple -> its elements, None ->
   nothing, anything else -> that one value), every nested value - bytes included - equal *)
Theorem C02_args_partial : forall loads mloads mdumps dir event data ns id,
  wf_payload data = true -> wf_nsname ns = true -> wf_id id = true ->
  msg_small (MEmit event data ns id) ->
  msg_json_ok loads (MEmit event data ns id) ->
  exists f,
    let frames := PStr f :: map PBytes (leaves (PList (PStr event :: pack data))) in
    sender_frames mdumps dir SerDefault event data ns id = Ok frames /\
    receiver_calls loads mloads dir SerDefault frames = Ok [EvCall ns (PStr event) (pack data) id].
Proof. exact args_default. Qed.
Print Assumptions C02_args_partial.

(* msgpack serializer: one blob; any payload whatsoever for which the library round-trips the
   packet dictionary *)
Theorem C02_args_msgpack : forall loads mloads mdumps dir event data ns id,
  ns <> [] ->
  msg_msgpack_ok mdumps mloads (MEmit event data ns id) ->
  exists b,
    sender_frames mdumps dir SerMsgpack event data ns id = Ok [PBytes b] /\
    receiver_calls loads mloads dir SerMsgpack [PBytes b] = Ok [EvCall ns (PStr event) (pack data) id].
Proof. exact args_msgpack. Qed.
Print Assumptions C02_args_msgpack.

(* ---- acknowledgements: the handler's return value arrives at the sender's callback ---- *)
Theorem C02_ack_partial : forall loads mloads mdumps dir r ns id,
  wf_payload r = true -> wf_nsname ns = true -> wf_id (Some id) = true ->
  msg_small (MAck r ns id) ->
  msg_json_ok loads (MAck r ns id) ->
  exists f,
    let frames := PStr f :: map PBytes (leaves (PList (pack r))) in
    ack_frames mdumps dir SerDefault r ns id = Ok frames /\
    receiver_calls loads mloads dir SerDefault frames = Ok [AckCall ns (Some id) (pack r)] /\
    callback_args loads mloads dir SerDefault frames = Ok (pack r).
Proof. exact ack_default. Qed.
Print Assumptions C02_ack_partial.

Theorem C02_ack_msgpack : forall loads mloads mdumps dir r ns id,
  ns <> [] ->
  msg_msgpack_ok mdumps mloads (MAck r ns id) ->
  exists b,
    ack_frames mdumps dir SerMsgpack r ns id = Ok [PBytes b] /\
    receiver_calls loads mloads dir SerMsgpack [PBytes b] = Ok [AckCall ns (Some id) (pack r)] /\
    callback_args loads mloads dir SerMsgpack [PBytes b] = Ok (pack r).
Proof. exact ack_msgpack. Qed.
Print Assumptions C02_ack_msgpack.

(* call() returns None / the single value / the tuple *)
Theorem C02_call_result : forall r,
  call_result (pack r) = match r with
                         | PTuple [] => PNone
                         | PTuple [x] => x
                         | _ => r
                         end.
Proof. exact call_result_shape. Qed.
Print Assumptions C02_call_result.

(* ---- order: ANY list of messages (emits and ACK replies) sent one after another ---- *)
Theorem C02_order_partial : forall loads mloads mdumps dir ms,
  Forall (fun m => msg_wf m = true /\ msg_small m /\ msg_json_ok loads m) ms ->
  exists frs, all_frames mdumps dir SerDefault ms = Ok frs /\
              rx_run loads mloads dir SerDefault None frs = Ok (None, map msg_call ms) /\
              receiver_calls loads mloads dir SerDefault frs = Ok (map msg_call ms).
Proof. exact order_default. Qed.
Print Assumptions C02_order_partial.

Theorem C02_order_msgpack : forall loads mloads mdumps dir ms,
  Forall (fun m => msg_ns m <> [] /\ msg_msgpack_ok mdumps mloads m) ms ->
  exists frs, all_frames mdumps dir SerMsgpack ms = Ok frs /\
              rx_run loads mloads dir SerMsgpack None frs = Ok (None, map msg_call ms) /\
              receiver_calls loads mloads dir SerMsgpack frs = Ok (map msg_call ms).
Proof. exact order_msgpack. Qed.
Print Assumptions C02_order_msgpack.

(* any serializer, any direction: messages that are each delivered are delivered in order *)
Theorem C02_order_generic : forall loads mloads mdumps dir ser ms,
  Forall (delivered loads mloads mdumps dir ser) ms ->
  exists frs, all_frames mdumps dir ser ms = Ok frs /\
              rx_run loads mloads dir ser None frs = Ok (None, map msg_call ms).
Proof. exact order_generic. Qed.
Print Assumptions C02_order_generic.

(* ---- the library hypotheses in their universal form imply the pointwise premises ---- *)
Theorem C02_json_universal_pointwise : forall (loads : str -> Res pv) m,
  (forall v s, jsonable v = true -> json_dumps v = Ok s -> loads s = Ok v) ->
  msg_wf m = true -> lex_ok (msg_payload m) = true -> msg_small m -> msg_json_ok loads m.
Proof. exact json_universal_pointwise. Qed.
Print Assumptions C02_json_universal_pointwise.

Theorem C02_msgpack_universal_pointwise : forall mdumps mloads m,
  (forall v, msgpackable v = true -> msgpack_rt mdumps mloads v) ->
  msg_mp_wf m = true -> msg_msgpack_ok mdumps mloads m.
Proof. exact msgpack_universal_pointwise. Qed.
Print Assumptions C02_msgpack_universal_pointwise.

(* ---- what the tie's boolean property checker establishes when it answers true ---- *)
Theorem C02_checker_sound : forall c, c02_prop c = true ->
  match c with
  | Stream ser dir ms jt mt wire obs => obs = map msg_call ms
  | CallRes r obs => obs = call_result (pack r)
  | CbArgs r obs => obs = pack r
  | Unmodified orig after => after = orig
  | Acks rets evs =>
      Forall2 obs_sees evs (i_run i_init (map (obs_ideal rets) evs)) /\
      Forall (fun o => match o with OAck (Some w) _ _ args _ => args = ret_args rets w | _ => True end) evs
  end.
Proof. exact c02_prop_sound. Qed.
Print Assumptions C02_checker_sound.

(* ---- acknowledgements that arrive late (E2E/AckTable.v) ----
   A sender's timeline: callbacks are registered (emit(callback=), call()), the peer's ACKs
   arrive at ANY later time - also after the call() they belong to has timed out, interleaved
   with later registrations on the same namespace -, call()s stop waiting.  `AAckOf w args` =
   the ACK replying to the EVENT of registration w, carrying the (key, id) that EVENT left with.
   The real registry (per-key counter, routing by (key, id), entries removed by their own ACK
   only) invokes the same callbacks with the same arguments and ends every call() the same way
   as the ideal registry, in which an ACK invokes exactly the outstanding registration it
   replies to. *)
Theorem C02_ack_routing : forall evs,
  index_form evs -> NoDup (reg_whos evs) ->
  map no_ids (a_run a_init evs) = map no_ids (i_run i_init evs).
Proof. exact ack_routing. Qed.
Print Assumptions C02_ack_routing.

(* with a peer that replies to each EVENT with `pack` of what the handler invocation for THAT
   event returned (C02_ack_partial / C02_ack_msgpack): an ACK invokes nothing or its own
   operation's callback with its own handler's value; every call() raises TimeoutError or returns
   the value its OWN handler invocation returned; no callback is invoked twice; a callback
   whose ACK arrives at any time after the registration is invoked (hence exactly once) *)
Theorem C02_late_ack_own_value : forall ret evs,
  index_form evs -> NoDup (reg_whos evs) -> faithful ret evs ->
  Forall2 (own_ok ret) evs (a_run a_init evs) /\
  NoDup (fired_whos (a_run a_init evs)) /\
  (forall key w args pre post, evs = pre ++ AReg key w :: post -> In (AAckOf w args) post ->
     In w (fired_whos (a_run a_init evs))).
Proof. exact late_ack_own_value. Qed.
Print Assumptions C02_late_ack_own_value.

(* ---- Pipe.v against the stateful models (Server/Server.v, Client/Client.v), which their own
        correspondence checks validate against the real classes (E2E/Bridge.v) ---- *)
From VT Require Import Base.StateM Manager.Manager E2E.Bridge.
From VT Require Server.Server Client.Client.
Module S := VT.Server.Server.
Module C := VT.Client.Client.

Theorem C02_client_model_functions :
  (forall d, C.pack d = client_pack d) /\
  (forall d, C.split_event d = client_split_event d) /\
  (forall d, C.star_args d = client_star_args d) /\
  (forall ns, C.ns_or_default ns = client_ns ns) /\
  (forall a, C.shape_result a = call_result a) /\
  (forall enc, C.pieces_of enc = S.pieces_of enc) /\
  (forall p t, C.type_is p t = S.type_is p t).
Proof. exact client_model_functions. Qed.
Print Assumptions C02_client_model_functions.

(* a frame that leaves a binary packet pending: the client model's `_binary_packet` becomes the
   state of Pipe.v's loop and nothing is delivered *)
Theorem C02_client_model_pending : forall c loads mloads payload (s : C.cli) st',
  client_rx_step loads mloads SerDefault (C.binpkt s) payload = Ok (Some st', []) ->
  exists s', C.handle_eio_message c loads payload s = (s', [], Ok tt) /\ C.binpkt s' = Some st'.
Proof. exact client_model_pending. Qed.
Print Assumptions C02_client_model_pending.

(* a frame that completes a message: the client model runs _handle_event / _handle_ack on
   exactly the packet Pipe.v dispatches *)
Theorem C02_client_model_dispatch : forall c loads mloads payload (s : C.cli) evs,
  client_rx_step loads mloads SerDefault (C.binpkt s) payload = Ok (None, evs) ->
  match C.binpkt s with
  | None =>
      exists r, decode loads payload = Ok r /\
        ((type_is (rp r) EVENT = true /\ client_dispatch_event (rp r) = Ok evs /\
          C.handle_eio_message c loads payload s =
          C.handle_event c (pns (rp r)) (pid (rp r)) (pdata (rp r)) s) \/
         (type_is (rp r) EVENT = false /\ type_is (rp r) ACK = true /\ client_dispatch_ack (rp r) = Ok evs /\
          C.handle_eio_message c loads payload s =
          C.handle_ack c (pns (rp r)) (pid (rp r)) (pdata (rp r)) s))
  | Some r0 =>
      exists r', add_attachment r0 payload = Ok (r', true) /\
        (if type_is (rp r') BINARY_EVENT then client_dispatch_event (rp r') else client_dispatch_ack (rp r')) = Ok evs /\
        C.handle_eio_message c loads payload s =
        (C.set_binpkt None ;;;
         (if type_is (rp r') BINARY_EVENT
          then C.handle_event c (pns (rp r')) (pid (rp r')) (pdata (rp r'))
          else C.handle_ack c (pns (rp r')) (pid (rp r')) (pdata (rp r')))) s
  end.
Proof. exact client_model_dispatch. Qed.
Print Assumptions C02_client_model_dispatch.

Theorem C02_client_model_handle_event : forall c p ns ev args id s,
  client_dispatch_event p = Ok [EvCall ns ev args id] ->
  C.handle_event c (pns p) (pid p) (pdata p) s =
  (r <~ C.trigger_event c ev ns args ;;
   match id with
   | Some i => C.send_packet ACK (PList (client_pack r)) ns (Some i)
   | None => ret tt
   end) s.
Proof. exact client_model_handle_event. Qed.
Print Assumptions C02_client_model_handle_event.

Theorem C02_server_model_pending : forall c loads mloads eio payload (s : S.srv) st',
  S.uses_binary c = true ->
  server_rx_step loads mloads SerDefault (aget str_eqb (S.binpkt s) eio) payload = Ok (Some st', []) ->
  exists s', S.handle_eio_message c loads eio payload s = (s', [], Ok tt) /\
             S.binpkt s' = aset str_eqb (S.binpkt s) eio st'.
Proof. exact server_model_pending. Qed.
Print Assumptions C02_server_model_pending.

Theorem C02_server_model_dispatch : forall c loads mloads eio payload (s : S.srv) evs,
  S.uses_binary c = true ->
  server_rx_step loads mloads SerDefault (aget str_eqb (S.binpkt s) eio) payload = Ok (None, evs) ->
  match aget str_eqb (S.binpkt s) eio with
  | None =>
      exists r, decode loads payload = Ok r /\
        ((type_is (rp r) EVENT = true /\ server_dispatch_event (rp r) = Ok evs /\
          S.handle_eio_message c loads eio payload s =
          S.handle_event c eio (pns (rp r)) (pid (rp r)) (pdata (rp r)) s) \/
         (type_is (rp r) EVENT = false /\ type_is (rp r) ACK = true /\ server_dispatch_ack (rp r) = Ok evs /\
          S.handle_eio_message c loads eio payload s =
          S.handle_ack c eio (pns (rp r)) (pid (rp r)) (pdata (rp r)) s))
  | Some r0 =>
      exists r', add_attachment r0 payload = Ok (r', true) /\
        (if type_is (rp r') BINARY_EVENT then server_dispatch_event (rp r') else server_dispatch_ack (rp r')) = Ok evs /\
        S.handle_eio_message c loads eio payload s =
        (S.set_binpkt (fun b => adel str_eqb b eio) ;;;
         (if type_is (rp r') BINARY_EVENT
          then S.handle_event c eio (pns (rp r')) (pid (rp r')) (pdata (rp r'))
          else S.handle_ack c eio (pns (rp r')) (pid (rp r')) (pdata (rp r')))) s
  end.
Proof. exact server_model_dispatch. Qed.
Print Assumptions C02_server_model_dispatch.

Theorem C02_server_model_handle_event : forall c eio p ns ev args id sid (s : S.srv),
  server_dispatch_event p = Ok [EvCall ns ev args id] ->
  sid_from_eio (S.mg s) eio ns = Some sid ->
  is_connected (S.mg s) (Some sid) ns = true ->
  S.handle_event c eio (pns p) (pid p) (pdata p) s =
  (r <~ S.trigger_event c ev ns (PStr sid :: args) ;;
   match r, id with
   | Some v, Some i => S.send_packet c (Some eio) ACK (PList (pack v)) ns (Some i)
   | _, _ => ret tt
   end) s.
Proof. exact server_model_handle_event. Qed.
Print Assumptions C02_server_model_handle_event.

(* ---- the JSON oracle discharged: json.loads := the concrete parser of Codec/JsonParse.v (tied to the
   real json.loads by the C01 check).  lex_ok: no lone surrogates, floats as printed tokens. ---- *)
Theorem C02_args_concrete : forall mloads mdumps dir event data ns id,
  wf_payload data = true -> wf_nsname ns = true -> wf_id id = true ->
  lex_ok (msg_payload (MEmit event data ns id)) = true ->
  msg_small (MEmit event data ns id) ->
  exists f,
    let frames := PStr f :: map PBytes (leaves (PList (PStr event :: pack data))) in
    sender_frames mdumps dir SerDefault event data ns id = Ok frames /\
    receiver_calls json_loads mloads dir SerDefault frames = Ok [EvCall ns (PStr event) (pack data) id].
Proof. exact args_concrete. Qed.
Print Assumptions C02_args_concrete.

Theorem C02_ack_concrete : forall mloads mdumps dir r ns id,
  wf_payload r = true -> wf_nsname ns = true -> wf_id (Some id) = true ->
  lex_ok (msg_payload (MAck r ns id)) = true ->
  msg_small (MAck r ns id) ->
  exists f,
    let frames := PStr f :: map PBytes (leaves (PList (pack r))) in
    ack_frames mdumps dir SerDefault r ns id = Ok frames /\
    receiver_calls json_loads mloads dir SerDefault frames = Ok [AckCall ns (Some id) (pack r)] /\
    callback_args json_loads mloads dir SerDefault frames = Ok (pack r).
Proof. exact ack_concrete. Qed.
Print Assumptions C02_ack_concrete.

Theorem C02_order_concrete : forall mloads mdumps dir ms,
  Forall (fun m => msg_wf m = true /\ lex_ok (msg_payload m) = true /\ msg_small m) ms ->
  exists frs, all_frames mdumps dir SerDefault ms = Ok frs /\
              rx_run json_loads mloads dir SerDefault None frs = Ok (None, map msg_call ms) /\
              receiver_calls json_loads mloads dir SerDefault frs = Ok (map msg_call ms).
Proof. exact order_concrete. Qed.
Print Assumptions C02_order_concrete.
