(* C17 - property theorems only; proofs live in Forward/ForwardProofs.v and
   Forward/ForwardSound.v.  h_<Class>_<method> / m_<Class>_<method> are the descriptions
   regenerated from /repo's source on every run (Forward/Gen_forward.v). *)
From VT Require Import Base.PyVal Forward.Forward Forward.ForwardSound Forward.Gen_forward
                       Forward.ForwardProofs Forward.Life Forward.LifeSound Forward.LifeProofs.

Theorem C17_Namespace_emit : forwards_ok h_Namespace_emit m_Server_emit.
Proof. exact Namespace_emit_forwards. Qed.
Print Assumptions C17_Namespace_emit.
Theorem C17_Namespace_send : forwards_ok h_Namespace_send m_Server_send.
Proof. exact Namespace_send_forwards. Qed.
Print Assumptions C17_Namespace_send.
Theorem C17_Namespace_call : forwards_ok h_Namespace_call m_Server_call.
Proof. exact Namespace_call_forwards. Qed.
Print Assumptions C17_Namespace_call.
Theorem C17_Namespace_enter_room : forwards_ok h_Namespace_enter_room m_Server_enter_room.
Proof. exact Namespace_enter_room_forwards. Qed.
Print Assumptions C17_Namespace_enter_room.
Theorem C17_Namespace_leave_room : forwards_ok h_Namespace_leave_room m_Server_leave_room.
Proof. exact Namespace_leave_room_forwards. Qed.
Print Assumptions C17_Namespace_leave_room.
Theorem C17_Namespace_close_room : forwards_ok h_Namespace_close_room m_Server_close_room.
Proof. exact Namespace_close_room_forwards. Qed.
Print Assumptions C17_Namespace_close_room.
Theorem C17_Namespace_rooms : forwards_ok h_Namespace_rooms m_Server_rooms.
Proof. exact Namespace_rooms_forwards. Qed.
Print Assumptions C17_Namespace_rooms.
Theorem C17_Namespace_get_session : forwards_ok h_Namespace_get_session m_Server_get_session.
Proof. exact Namespace_get_session_forwards. Qed.
Print Assumptions C17_Namespace_get_session.
Theorem C17_Namespace_save_session : forwards_ok h_Namespace_save_session m_Server_save_session.
Proof. exact Namespace_save_session_forwards. Qed.
Print Assumptions C17_Namespace_save_session.
Theorem C17_Namespace_session : forwards_ok h_Namespace_session m_Server_session.
Proof. exact Namespace_session_forwards. Qed.
Print Assumptions C17_Namespace_session.
Theorem C17_Namespace_disconnect : forwards_ok h_Namespace_disconnect m_Server_disconnect.
Proof. exact Namespace_disconnect_forwards. Qed.
Print Assumptions C17_Namespace_disconnect.
Theorem C17_ClientNamespace_emit : forwards_ok h_ClientNamespace_emit m_Client_emit.
Proof. exact ClientNamespace_emit_forwards. Qed.
Print Assumptions C17_ClientNamespace_emit.
Theorem C17_ClientNamespace_send : forwards_ok h_ClientNamespace_send m_Client_send.
Proof. exact ClientNamespace_send_forwards. Qed.
Print Assumptions C17_ClientNamespace_send.
Theorem C17_ClientNamespace_call : forwards_ok h_ClientNamespace_call m_Client_call.
Proof. exact ClientNamespace_call_forwards. Qed.
Print Assumptions C17_ClientNamespace_call.
Theorem C17_ClientNamespace_disconnect : forwards_ok h_ClientNamespace_disconnect m_Client_disconnect.
Proof. exact ClientNamespace_disconnect_forwards. Qed.
Print Assumptions C17_ClientNamespace_disconnect.
Theorem C17_AsyncNamespace_emit : forwards_ok h_AsyncNamespace_emit m_AsyncServer_emit.
Proof. exact AsyncNamespace_emit_forwards. Qed.
Print Assumptions C17_AsyncNamespace_emit.
Theorem C17_AsyncNamespace_send : forwards_ok h_AsyncNamespace_send m_AsyncServer_send.
Proof. exact AsyncNamespace_send_forwards. Qed.
Print Assumptions C17_AsyncNamespace_send.
Theorem C17_AsyncNamespace_call : forwards_ok h_AsyncNamespace_call m_AsyncServer_call.
Proof. exact AsyncNamespace_call_forwards. Qed.
Print Assumptions C17_AsyncNamespace_call.
Theorem C17_AsyncNamespace_enter_room : forwards_ok h_AsyncNamespace_enter_room m_AsyncServer_enter_room.
Proof. exact AsyncNamespace_enter_room_forwards. Qed.
Print Assumptions C17_AsyncNamespace_enter_room.
Theorem C17_AsyncNamespace_leave_room : forwards_ok h_AsyncNamespace_leave_room m_AsyncServer_leave_room.
Proof. exact AsyncNamespace_leave_room_forwards. Qed.
Print Assumptions C17_AsyncNamespace_leave_room.
Theorem C17_AsyncNamespace_close_room : forwards_ok h_AsyncNamespace_close_room m_AsyncServer_close_room.
Proof. exact AsyncNamespace_close_room_forwards. Qed.
Print Assumptions C17_AsyncNamespace_close_room.
Theorem C17_AsyncNamespace_rooms : forwards_ok h_AsyncNamespace_rooms m_AsyncServer_rooms.
Proof. exact AsyncNamespace_rooms_forwards. Qed.
Print Assumptions C17_AsyncNamespace_rooms.
Theorem C17_AsyncNamespace_get_session : forwards_ok h_AsyncNamespace_get_session m_AsyncServer_get_session.
Proof. exact AsyncNamespace_get_session_forwards. Qed.
Print Assumptions C17_AsyncNamespace_get_session.
Theorem C17_AsyncNamespace_save_session : forwards_ok h_AsyncNamespace_save_session m_AsyncServer_save_session.
Proof. exact AsyncNamespace_save_session_forwards. Qed.
Print Assumptions C17_AsyncNamespace_save_session.
Theorem C17_AsyncNamespace_session : forwards_ok h_AsyncNamespace_session m_AsyncServer_session.
Proof. exact AsyncNamespace_session_forwards. Qed.
Print Assumptions C17_AsyncNamespace_session.
Theorem C17_AsyncNamespace_disconnect : forwards_ok h_AsyncNamespace_disconnect m_AsyncServer_disconnect.
Proof. exact AsyncNamespace_disconnect_forwards. Qed.
Print Assumptions C17_AsyncNamespace_disconnect.
Theorem C17_AsyncClientNamespace_emit : forwards_ok h_AsyncClientNamespace_emit m_AsyncClient_emit.
Proof. exact AsyncClientNamespace_emit_forwards. Qed.
Print Assumptions C17_AsyncClientNamespace_emit.
Theorem C17_AsyncClientNamespace_send : forwards_ok h_AsyncClientNamespace_send m_AsyncClient_send.
Proof. exact AsyncClientNamespace_send_forwards. Qed.
Print Assumptions C17_AsyncClientNamespace_send.
Theorem C17_AsyncClientNamespace_call : forwards_ok h_AsyncClientNamespace_call m_AsyncClient_call.
Proof. exact AsyncClientNamespace_call_forwards. Qed.
Print Assumptions C17_AsyncClientNamespace_call.
Theorem C17_AsyncClientNamespace_disconnect : forwards_ok h_AsyncClientNamespace_disconnect m_AsyncClient_disconnect.
Proof. exact AsyncClientNamespace_disconnect_forwards. Qed.
Print Assumptions C17_AsyncClientNamespace_disconnect.

Theorem C17_all_helpers_forward :
  Forall (fun hu => forwards_ok (fst hu) (snd hu)) all_pairs.
Proof. exact all_helpers_forward. Qed.
Print Assumptions C17_all_helpers_forward.

Theorem C17_all_pairs_cover :
  map (fun hu => (h_class (fst hu), h_name (fst hu), m_class (snd hu))) all_pairs = expected_cover.
Proof. exact all_pairs_cover. Qed.
Print Assumptions C17_all_pairs_cover.

Theorem C17_checker_sound : forall h u, forwards_okb h u = true -> forwards_ok h u.
Proof. exact forwards_okb_sound. Qed.
Print Assumptions C17_checker_sound.

Theorem C17_post_checker_sound : forall hsig usig c self_ns env env',
  post_okb hsig usig c self_ns env env' = true -> post_ok hsig usig c self_ns env env'.
Proof. exact post_okb_sound. Qed.
Print Assumptions C17_post_checker_sound.

Theorem C17_defective_helper_refuted : ~ forwards_ok bad_drop u_emit.
Proof. exact bad_drop_refuted. Qed.
Print Assumptions C17_defective_helper_refuted.

(* ---- the life of a namespace object (Forward/Life.v): after ANY sequence of attach / register /
        events routed to the object / handler exits / helper calls, the object is filed under the
        namespace it was created for and every helper forwards with that namespace ---- *)
Theorem C17_life_Namespace : life_ok k_Namespace pairs_Namespace.
Proof. exact Namespace_life. Qed.
Print Assumptions C17_life_Namespace.
Theorem C17_life_ClientNamespace : life_ok k_ClientNamespace pairs_ClientNamespace.
Proof. exact ClientNamespace_life. Qed.
Print Assumptions C17_life_ClientNamespace.
Theorem C17_life_AsyncNamespace : life_ok k_AsyncNamespace pairs_AsyncNamespace.
Proof. exact AsyncNamespace_life. Qed.
Print Assumptions C17_life_AsyncNamespace.
Theorem C17_life_AsyncClientNamespace : life_ok k_AsyncClientNamespace pairs_AsyncClientNamespace.
Proof. exact AsyncClientNamespace_life. Qed.
Print Assumptions C17_life_AsyncClientNamespace.

Theorem C17_life_classes_cover :
  flat_map snd all_classes = all_pairs /\
  map (fun kp => k_class (fst kp)) all_classes =
    [s2l "Namespace"; s2l "ClientNamespace"; s2l "AsyncNamespace"; s2l "AsyncClientNamespace"] /\
  forallb (fun kp => forallb (fun hu => list_eqb N.eqb (h_class (fst hu)) (k_class (fst kp))) (snd kp))
          all_classes = true.
Proof. exact all_classes_cover. Qed.
Print Assumptions C17_life_classes_cover.

Theorem C17_life_checker_sound : forall k tbl, life_okb k tbl = true -> life_ok k tbl.
Proof. exact life_okb_sound. Qed.
Print Assumptions C17_life_checker_sound.

Theorem C17_life_defective_class_refuted : ~ life_ok k_follow hand_tbl.
Proof. exact k_follow_refuted. Qed.
Print Assumptions C17_life_defective_class_refuted.
