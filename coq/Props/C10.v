(* C10 - client reconnection: only after accidental loss, bounded back-off and attempts.
   Property theorems only; the model is Reconnect/Reconnect.v, the proofs Reconnect/ReconnectProofs.v. *)
From Coq Require Import List Bool Arith ZArith QArith Qabs Qminmax.
From VT Require Import Reconnect.Reconnect Reconnect.ReconnectProofs.
Import ListNotations.
Local Open Scope nat_scope.

(* ---------------- delay ---------------- *)
(* the k-th wait (k = 0 is the first) is min(d*2^k, dmax) + rf*(2 r_k - 1): cap before jitter,
   the jitter never enters the doubling *)
Theorem C10_delay_exact : forall p s k w,
  nth_error (waits (fst (handle_reconnect p s))) k = Some w ->
  exists r, nth_error (map fst s) k = Some r /\
            (w == Qmin (delay0 p * pow2 k) (delay_max p) + rfactor p * (2 * r - 1))%Q.
Proof. exact delay_exact. Qed.
Print Assumptions C10_delay_exact.

(* "min(d*2^(k-1), dmax) give or take randomization_factor", for every r_k in [0,1) *)
Theorem C10_delay : forall p s k w,
  (forall r, In r (map fst s) -> (0 <= r)%Q /\ (r < 1)%Q) ->
  nth_error (waits (fst (handle_reconnect p s))) k = Some w ->
  (Qabs (w - Qmin (delay0 p * pow2 k) (delay_max p)) <= Qabs (rfactor p))%Q.
Proof. exact delay_bound. Qed.
Print Assumptions C10_delay.

(* the same on the client-level machine: every wait a reachable client performs *)
Theorem C10_delay_machine : forall p evs ev w,
  let st := final p evs in
  In (FWait w) (snd (step p st ev)) ->
  exists r k, event_r ev = Some r /\
    (w == Qmin (delay0 p * pow2 k) (delay_max p) + rfactor p * (2 * r - 1))%Q /\
    ((k = 0 /\ tasks st = []) \/ exists t, tasks st = [t] /\ k = S (t_count t)).
Proof. exact machine_delay. Qed.
Print Assumptions C10_delay_machine.

(* the waits of a real effort (accidental loss of a reachable client, then any complete fault
   script) are exactly the waits of the loop function, so C10_delay / C10_attempts_* speak about
   the machine that is compared with the implementation *)
Theorem C10_delay_effort_follows_loop : forall p evs r0 m0 ms,
  let st := final p evs in
  let sc := to_script (args st) (cns st) ((r0, m0) :: ms) in
  reconnection p = true -> est st = EConn -> rtask st = None ->
  snd (handle_reconnect p sc) <> LRunning ->
  eff_waits (concat (snd (run_from p st (Loss r0 :: effort_events ((r0, m0) :: ms))))) =
  waits (fst (handle_reconnect p sc)).
Proof. exact effort_follows_loop. Qed.
Print Assumptions C10_delay_effort_follows_loop.

(* ---------------- attempts ---------------- *)
Theorem C10_attempts_bounded : forall p s,
  (0 < attempts p)%Z ->
  (Z.of_nat (n_attempts (fst (handle_reconnect p s))) <= attempts p)%Z.
Proof. exact attempts_bounded. Qed.
Print Assumptions C10_attempts_bounded.

Theorem C10_attempts_unbounded : forall p,
  attempts p = 0%Z ->
  forall N, exists s, N < n_attempts (fst (handle_reconnect p s)) /\ snd (handle_reconnect p s) = LRunning.
Proof. exact attempts_unbounded. Qed.
Print Assumptions C10_attempts_unbounded.

Theorem C10_attempts_stop_at_first_success : forall p s i x,
  nth_error (fst (handle_reconnect p s)) i = Some x -> is_ok x = true ->
  S i = List.length (fst (handle_reconnect p s)) /\ snd (handle_reconnect p s) = LReconnected.
Proof. exact stops_at_first_success. Qed.
Print Assumptions C10_attempts_stop_at_first_success.

Theorem C10_attempts_gave_up_only_at_limit : forall p s,
  snd (handle_reconnect p s) = LGaveUp ->
  attempts p <> 0%Z /\ (attempts p <= Z.of_nat (n_attempts (fst (handle_reconnect p s))))%Z.
Proof. exact gave_up_only_at_limit. Qed.
Print Assumptions C10_attempts_gave_up_only_at_limit.

Theorem C10_attempts_machine : forall p evs,
  let st := final p evs in
  forall t, tasks st = [t] ->
  ((0 < attempts p)%Z -> (Z.of_nat (S (t_count t)) <= attempts p)%Z) /\
  forall o r race,
    let '(st', e) := step p st (Timeout 0 o r race) in
    List.length (filter is_eio_connect e) <= 1 /\
    (tasks st' = [] \/ exists t', tasks st' = [t'] /\ t_id t' = t_id t /\ t_count t' = S (t_count t)).
Proof. exact machine_attempts. Qed.
Print Assumptions C10_attempts_machine.

Theorem C10_attempts_same_parameters : forall p evs i o r race,
  let st := final p evs in
  let e := snd (step p st (Timeout i o r race)) in
  (forall u h t q, In (FEioConnect u h t q) e ->
     u = a_url (args st) /\ h = a_headers (args st) /\ t = a_transports (args st) /\ q = a_path (args st)) /\
  (forall n au, In (FSendConnect n au) e -> au = a_auth (args st) /\ In n (cns st)).
Proof. exact same_parameters. Qed.
Print Assumptions C10_attempts_same_parameters.

Theorem C10_attempts_parameters_set_by_connect : forall p evs ev,
  let st := final p evs in
  let st' := fst (step p st ev) in
  match ev with
  | Connect a l o =>
      if connected st then args st' = args st /\ cns st' = cns st else args st' = a /\ cns st' = l
  | _ => args st' = args st /\ cns st' = cns st
  end.
Proof. exact args_set_by_connect. Qed.
Print Assumptions C10_attempts_parameters_set_by_connect.

Theorem C10_attempts_success_runs_connect_handlers : forall p evs i o r race id,
  let st := final p evs in
  let '(st', e) := step p st (Timeout i o r race) in
  In (FTaskEnd id Reconnected) e ->
  (forall n, In n (cns st) -> In (FHandler HConnect n None) e) /\
  attempt_ok (args st) (cns st) o = true /\
  tasks st' = [] /\ rtask st' = None /\ rcl st' = 0 /\ (race = false -> connected st' = true) /\
  connected st = false /\ est st = EDisc.
Proof. exact success_runs_connect_handlers. Qed.
Print Assumptions C10_attempts_success_runs_connect_handlers.

(* ---------------- only after an accidental loss ---------------- *)
Theorem C10_only_accidental_decision : forall p st why,
  snd (handle_eio_disconnect p st why) <> None <->
  reconnection p = true /\ est st = EConn /\ rtask st = None.
Proof. exact spawn_decision. Qed.
Print Assumptions C10_only_accidental_decision.

Theorem C10_only_accidental : forall p evs ev,
  let st := final p evs in
  let '(st', e) := step p st ev in
  (forall id, In (FSpawn id) e ->
     exists r, ev = Loss r /\ reconnection p = true /\ est st = EConn /\ rtask st = None /\ tasks st = []) /\
  (forall u h t q, In (FEioConnect u h t q) e ->
     is_connect_ev ev = true \/ (exists o r b, ev = Timeout 0 o r b) /\ tasks st <> []) /\
  (match ev with
   | Disconnect | ServerClose | ServerDisconnect _ | Connect _ _ _ => tasks st' = tasks st
   | Loss _ => reconnection p = false -> tasks st' = tasks st
   | _ => True
   end) /\
  (match ev with
   | Disconnect | ServerClose => est st' = EDisc /\ connected st' = false
   | _ => True
   end).
Proof. exact only_accidental. Qed.
Print Assumptions C10_only_accidental.

(* ---------------- abort ---------------- *)
Theorem C10_abort : forall p evs ev,
  let st := final p evs in
  (ev = Shutdown /\ connected st = false) \/ ev = Sigint ->
  let '(st', e) := step p st ev in
  tasks st' = [] /\ rcl st' = 0 /\
  (forall x, In x e -> is_eio_connect x = false /\ is_wait x = false /\ is_spawn x = false) /\
  (forall t, In t (tasks st) ->
     In (FTaskEnd (t_id t) Aborted) e /\ forall n, In n (cns st) -> In (FHandler HFinal n None) e) /\
  (forall i o r b, step p st' (Timeout i o r b) = (st', [])).
Proof. exact abort_ends_effort. Qed.
Print Assumptions C10_abort.

Theorem C10_abort_loop : forall p s i x,
  nth_error (fst (handle_reconnect p s)) i = Some x -> snd x = TAbort ->
  S i = List.length (fst (handle_reconnect p s)) /\ snd (handle_reconnect p s) = LAborted.
Proof. exact abort_is_last. Qed.
Print Assumptions C10_abort_loop.

(* the premise `connected = false` of C10_abort cannot be dropped (manual connect() during the
   back-off followed by shutdown(): outside the property's quantifier, recorded in the notes) *)
Theorem C10_abort_needs_disconnected :
  exists p evs, connected (final p evs) = true /\
                tasks (fst (step p (final p evs) Shutdown)) <> [].
Proof. exact abort_needs_disconnected. Qed.
Print Assumptions C10_abort_needs_disconnected.

(* ---------------- single effort ---------------- *)
Theorem C10_single_effort : forall p evs,
  let st := final p evs in
  List.length (tasks st) <= 1 /\
  (forall t, In t (tasks st) -> rtask st = Some (t_id t)) /\
  rcl st = List.length (tasks st).
Proof. exact single_effort. Qed.
Print Assumptions C10_single_effort.

(* ---------------- retries after EVERY accidental loss ---------------- *)
(* FALSE on the pinned tree (signature stale-reconnect-task-after-failed-effort) *)
Theorem C10_retries_after_every_accidental_loss_refuted :
  exists p evs r,
    let st := final p evs in
    fixed p = false /\ reconnection p = true /\ est st = EConn /\ connected st = true /\
    tasks (fst (step p st (Loss r))) = [] /\
    In (FHandler HDisconnect 0 (Some RTransport)) (snd (step p st (Loss r))) /\
    ~ In (FHandler HFinal 0 None) (snd (step p st (Loss r))).
Proof. exact retry_refuted. Qed.
Print Assumptions C10_retries_after_every_accidental_loss_refuted.

Theorem C10_retries_after_every_accidental_loss_refuted_after_abort :
  exists p evs r,
    let st := final p evs in
    fixed p = false /\ attempts p = 0%Z /\ reconnection p = true /\ est st = EConn /\
    tasks (fst (step p st (Loss r))) = [].
Proof. exact retry_refuted_after_abort. Qed.
Print Assumptions C10_retries_after_every_accidental_loss_refuted_after_abort.

(* weakened: holds whenever `_reconnect_task` is not stale ... *)
Theorem C10_retries_after_every_accidental_loss_except : forall p evs r,
  let st := final p evs in
  reconnection p = true -> est st = EConn -> stale st = false ->
  tasks (fst (step p st (Loss r))) <> [].
Proof. exact retry_except_stale. Qed.
Print Assumptions C10_retries_after_every_accidental_loss_except.

(* ... and every violating history has the signature: pinned placement of
   `_reconnect_task = None`, and the recorded task gave up or was aborted *)
Theorem C10_retries_after_every_accidental_loss_signature : forall p evs,
  stale (final p evs) = true ->
  fixed p = false /\
  exists id, rtask (final p evs) = Some id /\ ended_badly (snd (run p evs)) id.
Proof. exact stale_only_after_failed_effort. Qed.
Print Assumptions C10_retries_after_every_accidental_loss_signature.

(* full strength for the fixed code (`_reconnect_task = None` on every exit path) *)
Theorem C10_retries_after_every_accidental_loss_fixed : forall p evs r,
  let st := final p evs in
  fixed p = true -> reconnection p = true -> est st = EConn ->
  tasks (fst (step p st (Loss r))) <> [].
Proof. exact retry_fixed. Qed.
Print Assumptions C10_retries_after_every_accidental_loss_fixed.

(* thread granularity: a loss between connect() returning and `_reconnect_task = None` is
   neither retried nor reported as final; with or without the fix *)
Theorem C10_retries_thread_window_refuted :
  forall fx, exists p evs,
    let st := final p evs in
    fixed p = fx /\ reconnection p = true /\
    In FLost (last (snd (run p evs)) []) /\
    est st = EDisc /\ connected st = false /\ tasks st = [] /\ rtask st = None.
Proof. exact loss_in_success_window_refuted. Qed.
Print Assumptions C10_retries_thread_window_refuted.

Theorem C10_retries_no_loss_inside_attempt_without_switch : forall p evs i o r,
  ~ In FLost (snd (step p (final p evs) (Timeout i o r false))).
Proof. exact no_loss_inside_timeout_without_race. Qed.
Print Assumptions C10_retries_no_loss_inside_attempt_without_switch.

(* ---------------- a reconnection starts fresh ---------------- *)
(* self.callbacks (pending ACK callbacks and the per-namespace id generator) is empty whenever the
   transport is not connected; every accidental loss empties it; after a successful reconnection
   an ACK for any id invokes nothing and the first emit with a callback carries id 1 *)
Theorem C10_reconnect_resets_callbacks : forall p evs,
  let st := final p evs in
  (est st = EDisc -> cbs st = [] /\ nss st = []) /\
  (forall r, est st = EConn -> cbs (fst (step p st (Loss r))) = []) /\
  (forall i o r id,
     let '(st', e) := step p st (Timeout i o r false) in
     In (FTaskEnd id Reconnected) e ->
     cbs st' = [] /\
     (forall n aid, snd (step p st' (ServerAck n aid)) = []) /\
     (forall n, In n (cns st) -> snd (step p st' (EmitCb n)) = [FSendEvent n 1; FEmit true])).
Proof. exact reconnect_resets_callbacks. Qed.
Print Assumptions C10_reconnect_resets_callbacks.
