(* C11 - property theorems only.  cfg_ok / op_ok exclude application misuse of room None
   (handlers or API calls leaving / closing / entering the room None); nothing is assumed about
   which handlers raise, nor when. *)
From VT Require Import Server.Residue.

Theorem C11_inv_init : Inv srv_init.
Proof. exact Inv_init. Qed.
Print Assumptions C11_inv_init.

Theorem C11_inv_step : forall c s o, cfg_ok c -> op_ok o -> Inv s -> Inv (fst (step c s o)).
Proof. exact step_Inv. Qed.
Print Assumptions C11_inv_step.

Theorem C11_inv : forall c ops, cfg_ok c -> Forall op_ok ops -> Inv (fst (run c srv_init ops)).
Proof. exact C11_inv_lemma. Qed.
Print Assumptions C11_inv.

Theorem C11_inv_xstep : forall c s x,
  cfg_ok c -> (match x with Plain o => op_ok o | _ => True end) -> Inv s -> Inv (fst (xstep c s x)).
Proof. exact xstep_Inv. Qed.
Print Assumptions C11_inv_xstep.

Theorem C11_inv_xrun : forall c ops,
  cfg_ok c -> Forall (fun x => match x with Plain o => op_ok o | _ => True end) ops ->
  forall s, Inv s -> Inv (fst (xrun c s ops)).
Proof. exact xrun_Inv. Qed.
Print Assumptions C11_inv_xrun.

Theorem C11_gone_xrun : forall c ops e reason,
  cfg_ok c -> Forall xop_ok ops ->
  let s := fst (xrun c srv_init ops) in
  In e (live s) ->
  gone e (sids_of_eio (mg s) e) (fst (xstep c s (Plain (EioClose e reason)))) /\
  ((forall x, In x (live s) -> x = e) ->
   fst (xstep c s (Plain (EioClose e reason))) = mkSrv mgr_init [] [] [] [] (fresh s)).
Proof. exact C11_gone_xrun_lemma. Qed.
Print Assumptions C11_gone_xrun.

Theorem C11_final_xrun : forall c ops,
  cfg_ok c -> Forall xop_ok ops ->
  no_residue (dump_of (fst (xrun c srv_init ops))) = true /\ c11_final (dump_of (fst (xrun c srv_init ops))) = true.
Proof. exact C11_final_xrun_lemma. Qed.
Print Assumptions C11_final_xrun.

Theorem C11_gone : forall c s e reason,
  cfg_ok c -> Inv s -> In e (live s) ->
  gone e (sids_of_eio (mg s) e) (fst (step c s (EioClose e reason))).
Proof. exact C11_gone_lemma. Qed.
Print Assumptions C11_gone.

Theorem C11_fresh : forall c s e reason,
  cfg_ok c -> Inv s -> In e (live s) -> (forall x, In x (live s) -> x = e) ->
  fst (step c s (EioClose e reason)) = mkSrv mgr_init [] [] [] [] (fresh s).
Proof. exact C11_fresh_lemma. Qed.
Print Assumptions C11_fresh.

Theorem C11_no_residue : forall c ops,
  cfg_ok c -> Forall op_ok ops -> no_residue (dump_of (fst (run c srv_init ops))) = true.
Proof. exact C11_no_residue_lemma. Qed.
Print Assumptions C11_no_residue.

Theorem C11_final : forall c ops,
  cfg_ok c -> Forall op_ok ops -> c11_final (dump_of (fst (run c srv_init ops))) = true.
Proof. exact C11_final_lemma. Qed.
Print Assumptions C11_final.

Theorem C11_no_actions_ok : forall c, has_actions c = false -> cfg_ok c.
Proof. exact cfg_ok_no_actions. Qed.
Print Assumptions C11_no_actions_ok.

Theorem C11_leave_none_refuted :
  exists c ops, has_actions c = false /\ no_residue (dump_of (fst (run c srv_init ops))) = false.
Proof. exact Residue.C11_leave_none_refuted. Qed.
Print Assumptions C11_leave_none_refuted.

Theorem C11_gone_example :
  Inv ex_state /\ cfg_ok ex_cfg /\
  gone ex_e1 [sid_name 0; sid_name 1] (fst (step ex_cfg ex_state (EioClose ex_e1 (PStr (s2l "transport close"))))).
Proof. exact (conj ex_state_Inv (conj ex_cfg_ok ex_gone)). Qed.
Print Assumptions C11_gone_example.

Theorem C11_quiescent : forall c ops ks,
  cfg_ok c -> Forall op_ok ops ->
  c11q_eval (mkQ (map (fun k => dump_of (fst (run c srv_init (firstn k ops)))) ks) (map (fun _ => 0%nat) ks)) = 0%nat.
Proof. exact C11_quiescent_lemma. Qed.
Print Assumptions C11_quiescent.
