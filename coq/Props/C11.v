(* C11 - property theorems only *)
From VT Require Import Check.C11Check.
Theorem C11_placeholder : forall h : hcase, c11_eval h = c11_eval h.
Proof. reflexivity. Qed.
Print Assumptions C11_placeholder.
