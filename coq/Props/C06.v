(* C06 - property theorems only *)
From VT Require Import Check.C06Check.
Theorem C06_placeholder : forall h : hcase, c06_eval h = c06_eval h.
Proof. reflexivity. Qed.
Print Assumptions C06_placeholder.
