(* C06 - property theorems only (proofs in Manager/AckProofs.v) *)
From VT Require Import Manager.Manager Manager.ManagerProofs Check.C06Check Manager.AckProofs.
From VT Require Import Manager.AckOverlap Manager.AckOverlapProofs.
From Coq Require Import Sorted.
Open Scope N_scope.

(* AckInv m = the callback table has distinct client keys and every client slot has a live
   counter n >= 1, pairwise distinct entry ids, all in [1, n) *)
Theorem C06_inv : forall ops, AckInv (fold_left mstep ops mgr_init).
Proof. exact C06_inv_thm. Qed.
Print Assumptions C06_inv.

Theorem C06_inv_generate_ack_id : forall m sid cb, AckInv m -> AckInv (fst (generate_ack_id m sid cb)).
Proof. exact generate_ack_id_inv. Qed.
Print Assumptions C06_inv_generate_ack_id.

Theorem C06_inv_trigger_callback : forall m sid id, AckInv m -> AckInv (fst (trigger_callback m sid id)).
Proof. exact trigger_callback_inv. Qed.
Print Assumptions C06_inv_trigger_callback.

Theorem C06_inv_disconnect : forall m sid ns, AckInv m -> AckInv (mgr_disconnect m sid ns).
Proof. exact mgr_disconnect_inv. Qed.
Print Assumptions C06_inv_disconnect.

Theorem C06_inv_step : forall m o, AckInv m -> AckInv (mstep m o).
Proof. exact mstep_inv_ack. Qed.
Print Assumptions C06_inv_step.

(* the id returned is new for that client, registers exactly the callback, and nothing else changes *)
Theorem C06_unique : forall m sid cb m' r,
  AckInv m -> generate_ack_id m sid cb = (m', r) ->
  exists id, r = Ok id /\ id = next_id m sid /\ 1 <= id /\
    outstanding m (Some sid) (Some (Z.of_N id)) = None /\
    outstanding m' (Some sid) (Some (Z.of_N id)) = Some cb /\
    next_id m' sid = id + 1 /\
    (forall i, i <> Z.of_N id -> outstanding m' (Some sid) (Some i) = outstanding m (Some sid) (Some i)) /\
    (forall sid', sid' <> sid -> aget str_eqb (callbacks m') sid' = aget str_eqb (callbacks m) sid') /\
    rooms m' = rooms m /\ pending m' = pending m.
Proof. exact C06_unique_thm. Qed.
Print Assumptions C06_unique.

(* along any history that does not disconnect the client, its ids are strictly increasing *)
Theorem C06_unique_history : forall sid ops m,
  AckInv m -> (forall ns, ~ In (MDisconnect sid ns) ops) ->
  StronglySorted N.lt (gen_ids sid m ops) /\ Forall (fun id => next_id m sid <= id) (gen_ids sid m ops).
Proof. exact C06_unique_history_thm. Qed.
Print Assumptions C06_unique_history.

Theorem C06_unique_nodup : forall sid ops m,
  AckInv m -> (forall ns, ~ In (MDisconnect sid ns) ops) -> NoDup (gen_ids sid m ops).
Proof. exact C06_unique_nodup_thm. Qed.
Print Assumptions C06_unique_nodup.

Theorem C06_fires_iff : forall m osid oid,
  snd (trigger_callback m osid oid) =
  match outstanding m osid oid with Some cb => CbRef cb | None => CbNone end.
Proof. exact C06_fires_iff_thm. Qed.
Print Assumptions C06_fires_iff.

Theorem C06_at_most_once : forall m sid id m' cb,
  AckInv m -> trigger_callback m (Some sid) (Some id) = (m', CbRef cb) ->
  outstanding m' (Some sid) (Some id) = None /\
  trigger_callback m' (Some sid) (Some id) = (m', CbNone).
Proof. exact C06_at_most_once_thm. Qed.
Print Assumptions C06_at_most_once.

Theorem C06_right_client : forall m sid id m' cb,
  AckInv m -> trigger_callback m (Some sid) (Some id) = (m', CbRef cb) ->
  outstanding m (Some sid) (Some id) = Some cb /\
  rooms m' = rooms m /\ pending m' = pending m /\
  (forall sid', sid' <> sid -> aget str_eqb (callbacks m') sid' = aget str_eqb (callbacks m) sid') /\
  (forall sid' oid, sid' <> sid -> outstanding m' (Some sid') oid = outstanding m (Some sid') oid) /\
  (forall id', id' <> id -> outstanding m' (Some sid) (Some id') = outstanding m (Some sid) (Some id')) /\
  next_id m' sid = next_id m sid.
Proof. exact C06_right_client_thm. Qed.
Print Assumptions C06_right_client.

Theorem C06_unknown_ignored : forall m osid oid,
  outstanding m osid oid = None -> trigger_callback m osid oid = (m, CbNone).
Proof. exact C06_unknown_ignored_thm. Qed.
Print Assumptions C06_unknown_ignored.

Theorem C06_not_outstanding_unknown_sid : forall m sid oid,
  aget str_eqb (callbacks m) sid = None -> outstanding m (Some sid) oid = None.
Proof. exact not_outstanding_unknown_sid. Qed.
Print Assumptions C06_not_outstanding_unknown_sid.

Theorem C06_not_outstanding_nonpositive : forall m osid i,
  (i <= 0)%Z -> outstanding m osid (Some i) = None.
Proof. exact not_outstanding_nonpositive. Qed.
Print Assumptions C06_not_outstanding_nonpositive.

Theorem C06_not_outstanding_never_issued : forall m sid i,
  AckInv m -> (Z.of_N (next_id m sid) <= i)%Z -> outstanding m (Some sid) (Some i) = None.
Proof. exact not_outstanding_never_issued. Qed.
Print Assumptions C06_not_outstanding_never_issued.

Theorem C06_dropped_on_disconnect : forall m sid ns oid,
  AckInv m -> ns_rooms m ns <> None ->
  let m' := mgr_disconnect m sid ns in
  aget str_eqb (callbacks m') sid = None /\ trigger_callback m' (Some sid) oid = (m', CbNone).
Proof. exact C06_dropped_on_disconnect_thm. Qed.
Print Assumptions C06_dropped_on_disconnect.

Theorem C06_call_result :
  call_result [] = PNone /\ (forall x, call_result [x] = x) /\
  (forall x y l, call_result (x :: y :: l) = PTuple (x :: y :: l)) /\
  (forall args, call_result args =
     if (1 <? List.length args)%nat then PTuple args
     else if (List.length args =? 1)%nat then hd PNone args else PNone).
Proof. exact C06_call_result_thm. Qed.
Print Assumptions C06_call_result.

(* ---- overlapping call()s / emits with a callback (Manager/AckOverlap.v) ----
   events: EStart k (register + frame handed to the transport), ESent k (the send completes), EAck sid id args,
   ETimeout k, EDisc sid, in any order.  `ostep`/`orun` = the model of the code over the manager's table;
   `sstep`/`srun`/`sfinal` = the specification over an abstract table (client, id) -> operation. *)

(* on EVERY schedule the model's observations are accepted by the specification *)
Theorem C06_overlap_model_meets_spec : forall clients evs,
  srun (sinit clients) evs (snd (orun (oinit clients) evs)) 0 = 0%nat.
Proof. exact C06_overlap_model_meets_spec_thm. Qed.
Print Assumptions C06_overlap_model_meets_spec.

Theorem C06_overlap_sim_step : forall o s e,
  Sim o s -> exists s', sstep s e (snd (ostep o e)) = Some s' /\ Sim (fst (ostep o e)) s'.
Proof. exact sim_step. Qed.
Print Assumptions C06_overlap_sim_step.

(* the timeout of one operation never touches the table: not in the model, not in the specification *)
Theorem C06_overlap_timeout_keeps_table :
  (forall st k, o_mg (fst (ostep st (ETimeout k))) = o_mg st) /\
  (forall s k obs s', sstep s (ETimeout k) obs = Some s' -> s_out s' = s_out s /\ s_live s' = s_live s).
Proof. exact C06_overlap_timeout_keeps_table_thm. Qed.
Print Assumptions C06_overlap_timeout_keeps_table.

(* every state reached by an accepted observation sequence: unacknowledged operations of connected clients are
   in the table under their own (client, id), and every entry of the table is such an operation *)
Theorem C06_overlap_spec_invariant : forall clients evs obs s,
  sfinal (sinit clients) evs obs = Some s -> SInv s.
Proof. exact SInv_reach. Qed.
Print Assumptions C06_overlap_spec_invariant.

Theorem C06_overlap_call_returns_its_ack : forall clients evs obs s,
  sfinal (sinit clients) evs obs = Some s ->
  forall k t args o s',
  aget N.eqb (s_tasks s) k = Some t -> t_kind t = KCall -> t_phase t = PWaiting -> t_got t = None ->
  memb_str (t_sid t) (s_live s) = true ->
  sstep s (EAck (t_sid t) (t_id t) args) o = Some s' ->
  o = [XDone k (Ok (call_result args))].
Proof. exact C06_overlap_call_returns_its_ack_thm. Qed.
Print Assumptions C06_overlap_call_returns_its_ack.

Theorem C06_overlap_call_ack_during_send : forall clients evs obs s,
  sfinal (sinit clients) evs obs = Some s ->
  forall k t args o s' o2 s2,
  aget N.eqb (s_tasks s) k = Some t -> t_kind t = KCall -> t_phase t = PSending -> t_got t = None ->
  memb_str (t_sid t) (s_live s) = true ->
  sstep s (EAck (t_sid t) (t_id t) args) o = Some s' -> sstep s' (ESent k) o2 = Some s2 ->
  o = [] /\ o2 = [XDone k (Ok (call_result args))].
Proof. exact C06_overlap_call_ack_during_send_thm. Qed.
Print Assumptions C06_overlap_call_ack_during_send.

Theorem C06_overlap_emit_callback_its_ack : forall clients evs obs s,
  sfinal (sinit clients) evs obs = Some s ->
  forall k t args o s',
  aget N.eqb (s_tasks s) k = Some t -> t_kind t = KEmit -> t_got t = None ->
  memb_str (t_sid t) (s_live s) = true ->
  sstep s (EAck (t_sid t) (t_id t) args) o = Some s' ->
  o = [XCb k args].
Proof. exact C06_overlap_emit_callback_its_ack_thm. Qed.
Print Assumptions C06_overlap_emit_callback_its_ack.

Theorem C06_overlap_only_own : forall clients evs obs s,
  sfinal (sinit clients) evs obs = Some s ->
  forall sid id args o s',
  sstep s (EAck sid id args) o = Some s' -> o <> [] ->
  exists k t, aget N.eqb (s_tasks s) k = Some t /\ t_sid t = sid /\ t_id t = id /\ t_got t = None /\
              (o = [XCb k args] \/ o = [XDone k (Ok (call_result args))]).
Proof. exact C06_overlap_only_own_thm. Qed.
Print Assumptions C06_overlap_only_own.

Theorem C06_overlap_at_most_once : forall s sid id args o s' args2 o2 s2,
  sstep s (EAck sid id args) o = Some s' -> sstep s' (EAck sid id args2) o2 = Some s2 -> o2 = [].
Proof. exact C06_overlap_at_most_once_thm. Qed.
Print Assumptions C06_overlap_at_most_once.

Theorem C06_overlap_timeout_raises : forall s k t o s',
  aget N.eqb (s_tasks s) k = Some t -> t_kind t = KCall -> t_phase t = PWaiting ->
  sstep s (ETimeout k) o = Some s' ->
  o = [XDone k (Err TimeoutError)] /\ s_out s' = s_out s.
Proof. exact C06_overlap_timeout_raises_thm. Qed.
Print Assumptions C06_overlap_timeout_raises.
