(* C08 - property theorems only *)
From VT Require Import Check.C08Check.
Theorem C08_placeholder : forall k : ccase, c08_eval k = c08_eval k.
Proof. reflexivity. Qed.
Print Assumptions C08_placeholder.
