(* C08 - property theorems only; proofs live in Client/ClientLemmas.v, Client/ClientProofs.v,
   Client/CheckProofs.v *)
From VT Require Import Client.ClientLemmas Client.CliCheck Client.ClientProofs Client.Witness.
From VT Require Import Check.C08Check Client.CheckProofs Client.MirrorProofs.
Open Scope N_scope.

(* bad_namespace: emit / send / call on a namespace that is not in `namespaces` raise
   BadNamespaceError, send nothing and change nothing - in every state *)
Theorem C08_bad_namespace : forall c s o,
  (match o with
   | CEmit _ _ pns _ | CSend _ pns _ | CCall _ _ pns _ _ => ahas str_eqb (namespaces s) (ns_or_default pns) = false
   | _ => False
   end) ->
  step c s o = (s, [Raised BadNamespaceError]).
Proof. exact bad_namespace. Qed.
Print Assumptions C08_bad_namespace.

(* connect_sends: on a clean client, connect() whose transport comes up sends exactly one CONNECT
   per requested namespace, in order, carrying the auth value (or {}), and nothing else, and
   starts waiting in the state `opened` (connected = False, namespaces = {}) *)
Theorem C08_connect_sends : forall c s nss auth l,
  connected s = false -> eio_state s = EDisconnected ->
  let req := match nss with None => derived_namespaces c | Some x => x end in
  pieces_all CONNECT (auth_value auth) req = Ok l ->
  connect_begin c nss auth false s = (opened s req auth, map Sent l, Ok tt).
Proof. exact connect_sends. Qed.
Print Assumptions C08_connect_sends.

(* reset: whenever _handle_eio_disconnect completes, callbacks = {}, _binary_packet = None,
   sid = None and connected = False, in every state; `namespaces` is emptied iff `connected` was set *)
Theorem C08_reset : forall c reason s,
  rs (handle_eio_disconnect c reason) s = Ok tt ->
  st (handle_eio_disconnect c reason) s = cleared s.
Proof. exact reset. Qed.
Print Assumptions C08_reset.
Theorem C08_reset_fields : forall c reason s,
  rs (handle_eio_disconnect c reason) s = Ok tt ->
  let s' := st (handle_eio_disconnect c reason) s in
  callbacks s' = [] /\ binpkt s' = None /\ sid s' = PNone /\ connected s' = false /\
  (connected s = true -> namespaces s' = []).
Proof. exact reset_fields. Qed.
Print Assumptions C08_reset_fields.

(* disconnect_once: from a connected state the three ways the whole connection can end notify
   every connected namespace exactly as `notify` (the checker's expectation: one call of the
   responsible disconnect handler with the reason naming the cause) says, in `namespaces` order,
   and leave the client fully disconnected *)
Theorem C08_disconnect_once_client : forall c s calls frames,
  connected s = true -> eio_state s = EConnected ->
  pieces_all DISCONNECT PNone (map fst (namespaces s)) = Ok frames ->
  expect_disconnects c r_client_disconnect (map fst (namespaces s)) = Some calls ->
  finals_silent c (map fst (namespaces s)) ->
  api_disconnect c s = (down s, map Sent frames ++ to_calls calls, Ok tt).
Proof. exact disconnect_once_client. Qed.
Print Assumptions C08_disconnect_once_client.
Theorem C08_disconnect_once_loss : forall c s calls,
  connected s = true -> eio_state s = EConnected ->
  expect_disconnects c r_transport_error (map fst (namespaces s)) = Some calls ->
  finals_silent c (map fst (namespaces s)) ->
  eio_loss c s = (down s, to_calls calls, Ok tt).
Proof. exact disconnect_once_loss. Qed.
Print Assumptions C08_disconnect_once_loss.
Theorem C08_disconnect_once_server_close : forall c s calls,
  connected s = true -> eio_state s = EConnected ->
  expect_disconnects c r_server_disconnect (map fst (namespaces s)) = Some calls ->
  finals_silent c (map fst (namespaces s)) ->
  eio_server_close c s = (down s, to_calls calls, Ok tt).
Proof. exact disconnect_once_server_close. Qed.
Print Assumptions C08_disconnect_once_server_close.
Theorem C08_down_is_fully_disconnected : forall s, fully_disconnected (down s).
Proof. exact down_fully. Qed.
Print Assumptions C08_down_is_fully_disconnected.
(* "exactly one": a responsible handler that accepts the reason and returns is expected (and, by the
   theorems above, invoked) exactly once for its namespace *)
Theorem C08_disconnect_exactly_one : forall c reason ns h a,
  responsible c ev_disconnect ns [reason] = Some (h, a) ->
  arity_fits c h (List.length a) = true -> (exists v, returns c h = Some v) ->
  notify c ev_disconnect ns [reason] = Some [(h, a)].
Proof. exact expect_one. Qed.
Print Assumptions C08_disconnect_exactly_one.
(* the checker's expectation function is what the model does, for every event name *)
Theorem C08_notify_sound : forall c ev ns args l,
  notify c (PStr ev) ns args = Some l ->
  trig_eff c (PStr ev) ns args = to_calls l /\ exists v, trig_res c (PStr ev) ns args = Ok v.
Proof. exact notify_sound. Qed.
Print Assumptions C08_notify_sound.

(* wait_all_or_error, full strength: connect(wait=True) for at least one namespace on a clean client
   returns normally iff `namespaces` has exactly the requested keys after the wait window (the
   transport is then still up); otherwise ConnectionError and the client is fully disconnected -
   also when the server ended the last accepted namespace inside the window *)
Theorem C08_wait_all_or_error : forall c s nss auth window l,
  connected s = false -> eio_state s = EDisconnected ->
  let req := match nss with None => derived_namespaces c | Some x => x end in
  req <> [] ->
  pieces_all CONNECT (auth_value auth) req = Ok l ->
  let s1 := st (forM window (fun m => deliver c (fst m) (snd m))) (opened s req auth) in
  W' req s1 /\
  (set_eqb (map fst (namespaces s1)) req = true ->
   W req s1 /\
   rs (api_connect c nss auth true false window) s = Ok tt /\
   st (api_connect c nss auth true false window) s = with_connected s1 true) /\
  (set_eqb (map fst (namespaces s1)) req = false ->
   forall d, pieces_all DISCONNECT PNone (map fst (namespaces s1)) = Ok d ->
   rs (api_connect c nss auth true false window) s = Err ConnectionError /\
   st (api_connect c nss auth true false window) s = down s1 /\
   fully_disconnected (st (api_connect c nss auth true false window) s)).
Proof. exact wait_all_or_error. Qed.
Print Assumptions C08_wait_all_or_error.

(* mirror, packet by packet *)
Theorem C08_mirror_connect : forall c pns data s,
  let ns := ns_or_default pns in
  st (handle_connect c pns data) s =
  if ahas str_eqb (namespaces s) ns then s
  else match connect_sid data (sid s) with
       | Ok v => with_namespaces s (aset str_eqb (namespaces s) ns v)
       | Err _ => s
       end.
Proof. exact mirror_connect. Qed.
Print Assumptions C08_mirror_connect.
Theorem C08_mirror_disconnect : forall c pns s calls,
  eio_state s = EConnected ->
  let ns := ns_or_default pns in
  connected s = true \/ ahas str_eqb (namespaces s) ns = true ->
  notify c ev_disconnect ns [r_server_disconnect] = Some calls -> notify c ev_final ns [] = Some [] ->
  handle_disconnect c pns s =
  match adel str_eqb (namespaces s) ns with
  | [] => (down s, to_calls calls, Ok tt)
  | d => (with_namespaces s d, to_calls calls, Ok tt)
  end.
Proof. exact mirror_disconnect. Qed.
Print Assumptions C08_mirror_disconnect.
(* the only DISCONNECT that is dropped: not connected and the namespace is not listed *)
Theorem C08_mirror_disconnect_unknown : forall c pns s,
  connected s = false -> ahas str_eqb (namespaces s) (ns_or_default pns) = false ->
  handle_disconnect c pns s = (s, [], Ok tt).
Proof. exact mirror_disconnect_unknown. Qed.
Print Assumptions C08_mirror_disconnect_unknown.
Theorem C08_mirror_error : forall c pns data s calls,
  let ns := ns_or_default pns in
  notify c ev_connect_error ns (match data with PNone => [] | PTuple l | PList l => l | x => [x] end) = Some calls ->
  handle_error c pns data s =
  (if str_eqb ns slash then with_connected (with_namespaces s []) false
   else with_namespaces s (adel str_eqb (namespaces s) ns), to_calls calls, Ok tt).
Proof. exact mirror_error. Qed.
Print Assumptions C08_mirror_error.
(* CONNECT immediately followed by DISCONNECT of the only requested namespace inside the wait window
   (an always_connect refusal, 7.1-i): handlers told, namespace removed, transport closed,
   ConnectionError, fully disconnected, emit raises *)
Theorem C08_window_disconnect_fails_connect :
  classify_window window_disconnect = [(0%Z, slash); (1%Z, slash)] /\
  let r := step cfg_w cli_init (CConnect (Some [slash]) PNone false true false window_disconnect) in
  snd r = [Sent (PStr (s2l "0{}")); Call 1 []; Call 2 [r_server_disconnect]; Raised ConnectionError] /\
  fully_disconnected (fst r) /\
  snd (step cfg_w (fst r) (CEmit (s2l "x") PNone (Some slash) None)) = [Raised BadNamespaceError].
Proof. exact window_disconnect_fails_connect. Qed.
Print Assumptions C08_window_disconnect_fails_connect.

(* mirror, history level: along the model's run of EVERY history (any configuration, any length) the
   mirror + reset judgement of the checker ([c08_state] on the server view computed by [view_step]:
   `namespaces` = namespaces accepted and not ended with the sids the server sent, `connected` set
   while one remains and cleared when the last one ended / the transport is down, nothing survives
   the end of the transport) holds after every operation, up to the first operation that leaves the
   domain ([view_step] = None: a handler raises or a packet is outside the protocol; [in_domain] =
   false: CONNECT_ERROR after connect() returned for '/' or for an accepted namespace - the open
   finding class root-refusal-then-accept-leaves-connected-false) *)
Theorem C08_mirror : forall c ops, mirror_run c cli_init sv_init ops = true.
Proof. exact mirror_history. Qed.
Print Assumptions C08_mirror.
(* the invariant behind it: one operation keeps the model and the server's view in step *)
Theorem C08_mirror_step : forall c s sv o v,
  Sim s sv -> in_domain s sv o = true -> view_step c s sv (dump_of s) o = Some v ->
  Sim (fst (step c s o)) (v_view v) /\ c08_state (v_view v) (dump_of (fst (step c s o))) = O.
Proof. exact mirror_step. Qed.
Print Assumptions C08_mirror_step.

(* the checkers on the model's own runs *)
Theorem C08_corr_accepts_model : forall c ops, corr_ok (model_case c ops) = true.
Proof. exact corr_model. Qed.
Print Assumptions C08_corr_accepts_model.
Theorem C08_checker_accepts_partial_acceptance : c08_code (model_case cfg_w witness_partial) = 0%nat.
Proof. exact c08_accepts_partial_acceptance. Qed.
Print Assumptions C08_checker_accepts_partial_acceptance.
Theorem C08_checker_accepts_window_disconnect : c08_code (model_case cfg_w witness_window_disconnect) = 0%nat.
Proof. exact c08_accepts_window_disconnect. Qed.
Print Assumptions C08_checker_accepts_window_disconnect.
Theorem C08_checker_accepts_clean : c08_code (model_case cfg_w witness_clean) = 0%nat.
Proof. exact c08_accepts_clean. Qed.
Print Assumptions C08_checker_accepts_clean.
