(* C08 - property theorems only; proofs live in Client/ClientLemmas.v, Client/ClientProofs.v,
   Client/CheckProofs.v *)
From VT Require Import Client.ClientLemmas Client.CliCheck Client.ClientProofs Client.Witness.
From VT Require Import Check.C08Check Client.CheckProofs.
Open Scope N_scope.

(* bad_namespace: emit / send / call on a namespace that is not in `namespaces` raise
   BadNamespaceError, send nothing and change nothing - in every state *)
Theorem C08_bad_namespace : forall c s o,
  (match o with
   | CEmit _ _ pns _ | CSend _ pns _ | CCall _ _ pns _ _ => ahas str_eqb (namespaces s) (ns_or_default pns) = false
   | _ => False
   end) ->
  step c s o = (s, [Raised BadNamespaceError]).
Proof. exact bad_namespace. Qed.
Print Assumptions C08_bad_namespace.

(* connect_sends: on a clean client, connect() whose transport comes up sends exactly one CONNECT
   per requested namespace, in order, carrying the auth value (or {}), and nothing else, and
   starts waiting in the state `opened` (connected = False, namespaces = {}) *)
Theorem C08_connect_sends : forall c s nss auth l,
  connected s = false -> eio_state s = EDisconnected ->
  let req := match nss with None => derived_namespaces c | Some x => x end in
  pieces_all CONNECT (auth_value auth) req = Ok l ->
  connect_begin c nss auth false s = (opened s req auth, map Sent l, Ok tt).
Proof. exact connect_sends. Qed.
Print Assumptions C08_connect_sends.

(* reset: whenever _handle_eio_disconnect completes, callbacks = {}, _binary_packet = None,
   sid = None and connected = False, in every state; `namespaces` is emptied iff `connected` was set *)
Theorem C08_reset : forall c reason s,
  rs (handle_eio_disconnect c reason) s = Ok tt ->
  st (handle_eio_disconnect c reason) s = cleared s.
Proof. exact reset. Qed.
Print Assumptions C08_reset.
Theorem C08_reset_fields : forall c reason s,
  rs (handle_eio_disconnect c reason) s = Ok tt ->
  let s' := st (handle_eio_disconnect c reason) s in
  callbacks s' = [] /\ binpkt s' = None /\ sid s' = PNone /\ connected s' = false /\
  (connected s = true -> namespaces s' = []).
Proof. exact reset_fields. Qed.
Print Assumptions C08_reset_fields.

(* disconnect_once: from a connected state the three ways the whole connection can end notify
   every connected namespace exactly as `notify` (the checker's expectation: one call of the
   responsible disconnect handler with the reason naming the cause) says, in `namespaces` order,
   and leave the client fully disconnected *)
Theorem C08_disconnect_once_client : forall c s calls frames,
  connected s = true -> eio_state s = EConnected ->
  pieces_all DISCONNECT PNone (map fst (namespaces s)) = Ok frames ->
  expect_disconnects c r_client_disconnect (map fst (namespaces s)) = Some calls ->
  finals_silent c (map fst (namespaces s)) ->
  api_disconnect c s = (down s, map Sent frames ++ to_calls calls, Ok tt).
Proof. exact disconnect_once_client. Qed.
Print Assumptions C08_disconnect_once_client.
Theorem C08_disconnect_once_loss : forall c s calls,
  connected s = true -> eio_state s = EConnected ->
  expect_disconnects c r_transport_error (map fst (namespaces s)) = Some calls ->
  finals_silent c (map fst (namespaces s)) ->
  eio_loss c s = (down s, to_calls calls, Ok tt).
Proof. exact disconnect_once_loss. Qed.
Print Assumptions C08_disconnect_once_loss.
Theorem C08_disconnect_once_server_close : forall c s calls,
  connected s = true -> eio_state s = EConnected ->
  expect_disconnects c r_server_disconnect (map fst (namespaces s)) = Some calls ->
  finals_silent c (map fst (namespaces s)) ->
  eio_server_close c s = (down s, to_calls calls, Ok tt).
Proof. exact disconnect_once_server_close. Qed.
Print Assumptions C08_disconnect_once_server_close.
Theorem C08_down_is_fully_disconnected : forall s, fully_disconnected (down s).
Proof. exact down_fully. Qed.
Print Assumptions C08_down_is_fully_disconnected.
(* "exactly one": a responsible handler that accepts the reason and returns is expected (and, by the
   theorems above, invoked) exactly once for its namespace *)
Theorem C08_disconnect_exactly_one : forall c reason ns h a,
  responsible c ev_disconnect ns [reason] = Some (h, a) ->
  arity_fits c h (List.length a) = true -> (exists v, returns c h = Some v) ->
  notify c ev_disconnect ns [reason] = Some [(h, a)].
Proof. exact expect_one. Qed.
Print Assumptions C08_disconnect_exactly_one.
(* the checker's expectation function is what the model does, for every event name *)
Theorem C08_notify_sound : forall c ev ns args l,
  notify c (PStr ev) ns args = Some l ->
  trig_eff c (PStr ev) ns args = to_calls l /\ exists v, trig_res c (PStr ev) ns args = Ok v.
Proof. exact notify_sound. Qed.
Print Assumptions C08_notify_sound.

(* wait_all_or_error is FALSE of the faithful model (7.1-d) ... *)
Theorem C08_wait_all_or_error_refuted :
  exists c s nss auth window,
    connected s = false /\ eio_state s = EDisconnected /\
    rs (api_connect c nss auth true false window) s = Err ConnectionError /\
    let s' := st (api_connect c nss auth true false window) s in
    ~ fully_disconnected s' /\ namespaces s' = [(slash, PStr (s2l "S0"))] /\
    api_emit (s2l "x") PNone (Some slash) None s' = (s', [], Ok None).
Proof. exact wait_all_or_error_refuted. Qed.
Print Assumptions C08_wait_all_or_error_refuted.
(* ... and holds except for `namespaces`: normal return iff `namespaces` has exactly the requested
   keys after the window; otherwise ConnectionError with the transport closed and callbacks /
   binary packet / sid reset, fully disconnected iff nothing had been accepted *)
Theorem C08_wait_all_or_error_except : forall c s nss auth window l,
  connected s = false -> eio_state s = EDisconnected ->
  let req := match nss with None => derived_namespaces c | Some x => x end in
  pieces_all CONNECT (auth_value auth) req = Ok l ->
  let s1 := st (forM window (fun m => deliver c (fst m) (snd m))) (opened s req auth) in
  W req s1 /\
  (set_eqb (map fst (namespaces s1)) req = true ->
   rs (api_connect c nss auth true false window) s = Ok tt /\
   st (api_connect c nss auth true false window) s = with_connected s1 true) /\
  (set_eqb (map fst (namespaces s1)) req = false ->
   forall d, pieces_all DISCONNECT PNone (map fst (namespaces s1)) = Ok d ->
   rs (api_connect c nss auth true false window) s = Err ConnectionError /\
   st (api_connect c nss auth true false window) s = failed_state s1 /\
   (fully_disconnected (failed_state s1) <-> namespaces s1 = [])).
Proof. exact wait_all_or_error_except. Qed.
Print Assumptions C08_wait_all_or_error_except.

(* mirror, packet by packet *)
Theorem C08_mirror_connect : forall c pns data s,
  let ns := ns_or_default pns in
  st (handle_connect c pns data) s =
  if ahas str_eqb (namespaces s) ns then s
  else match connect_sid data (sid s) with
       | Ok v => with_namespaces s (aset str_eqb (namespaces s) ns v)
       | Err _ => s
       end.
Proof. exact mirror_connect. Qed.
Print Assumptions C08_mirror_connect.
Theorem C08_mirror_disconnect_except : forall c pns s calls,
  connected s = true -> eio_state s = EConnected ->
  let ns := ns_or_default pns in
  notify c ev_disconnect ns [r_server_disconnect] = Some calls -> notify c ev_final ns [] = Some [] ->
  handle_disconnect c pns s =
  match adel str_eqb (namespaces s) ns with
  | [] => (down s, to_calls calls, Ok tt)
  | d => (with_namespaces s d, to_calls calls, Ok tt)
  end.
Proof. exact mirror_disconnect. Qed.
Print Assumptions C08_mirror_disconnect_except.
Theorem C08_mirror_disconnect_ignored : forall c pns s,
  connected s = false -> handle_disconnect c pns s = (s, [], Ok tt).
Proof. exact mirror_disconnect_ignored. Qed.
Print Assumptions C08_mirror_disconnect_ignored.
Theorem C08_mirror_error : forall c pns data s calls,
  let ns := ns_or_default pns in
  notify c ev_connect_error ns (match data with PNone => [] | PTuple l | PList l => l | x => [x] end) = Some calls ->
  handle_error c pns data s =
  (if str_eqb ns slash then with_connected (with_namespaces s []) false
   else with_namespaces s (adel str_eqb (namespaces s) ns), to_calls calls, Ok tt).
Proof. exact mirror_error. Qed.
Print Assumptions C08_mirror_error.
(* the mirror clause is FALSE of the faithful model for CONNECT immediately followed by DISCONNECT
   inside the wait window (7.1-i) *)
Theorem C08_mirror_refuted :
  exists c nss auth window,
    classify_window window = [(0%Z, slash); (1%Z, slash)] /\
    let r := step c cli_init (CConnect nss auth false true false window) in
    snd r = [Sent (PStr (s2l "0{}")); Call 1 []; Ret PNone] /\
    connected (fst r) = true /\ namespaces (fst r) = [(slash, PStr (s2l "S0"))] /\
    snd (step c (fst r) (CEmit (s2l "x") PNone (Some slash) None)) = [Sent (PStr (s2l "2[""x""]"))].
Proof. exact mirror_refuted. Qed.
Print Assumptions C08_mirror_refuted.

(* the checkers on the model's own runs *)
Theorem C08_corr_accepts_model : forall c ops, corr_ok (model_case c ops) = true.
Proof. exact corr_model. Qed.
Print Assumptions C08_corr_accepts_model.
Theorem C08_checker_flags_partial_acceptance :
  c08_where (model_case cfg_w witness_partial) = Some (0%nat, B_MIRROR, sv_init).
Proof. exact c08_flags_partial_acceptance. Qed.
Print Assumptions C08_checker_flags_partial_acceptance.
Theorem C08_checker_flags_window_disconnect :
  exists m, c08_where (model_case cfg_w witness_window_disconnect) = Some (0%nat, m, sv_init) /\
            Nat.land m B_WAIT = B_WAIT /\ Nat.land m B_MIRROR = B_MIRROR.
Proof. exact c08_flags_window_disconnect. Qed.
Print Assumptions C08_checker_flags_window_disconnect.
Theorem C08_checker_accepts_clean : c08_code (model_case cfg_w witness_clean) = 0%nat.
Proof. exact c08_accepts_clean. Qed.
Print Assumptions C08_checker_accepts_clean.
