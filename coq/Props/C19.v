(* C19 - SimpleClient: events are received once each, in arrival order.
   Property theorems only; the model is Simple/SimpleClient.v, the proofs are in
   Simple/SimpleInv.v and Simple/SimpleProofs.v.

   Reading guide.  `run v atomic (init P C) sched` is the configuration after the schedule
   `sched` (a list of choices: 0 = application task, 1 = timer, 2+i = producer i; of any
   length) from the state in which connect() has returned, for producers running the handler
   scripts P and the application issuing the calls C.  `atomic = false` is the thread
   granularity (every access its own step), `atomic = true` the asyncio granularity.
   `v` says which source text is modelled: `repaired_all` is the source as it stands
   (final_wakes_input: `__disconnect_final` also sets input_event, commit 748d97f;
   recheck_before_raise: receive() re-tests the buffer before raising out of the connected
   wait / because `connected` is False, commit fee3be8); `pinned` is the source before those
   two commits.  `mreach v (init P C) c`: c is reachable by single-access steps; every run of
   either granularity ends in such a state (C19_runs_are_reachable). *)
From VT Require Import Base.PyVal Simple.SimpleClient Simple.SimpleProofs Simple.SimpleTransport.
Local Open Scope nat_scope.

(* ===================================================================================== *)
(* HEADLINE: the source as it stands (fix commits 748d97f and fee3be8 = `repaired_all`).    *)
(* harness/props/c19.py runs the model with this variant only.                             *)
(* ===================================================================================== *)

(* no loss, no duplication, no reordering: returned events ++ buffer = arrived events
   (stated for every variant, in particular `repaired_all`) *)
Theorem C19_fifo : forall v atomic P C sched,
  let c := run v atomic (init P C) sched in
  returned (outs (sh c)) ++ buf (sh c) = arrived (sh c).
Proof. exact fifo_all_schedules. Qed.
Print Assumptions C19_fifo.

(* TimeoutError only while no event is available: the timer raises only out of the input
   wait, with the flag clear and every buffered item still being handed off; the application
   task raises TimeoutError only right after a buffer test that found it empty *)
Theorem C19_timeout_only_if_empty : forall P C c c' l, mreach repaired_all (init P C) c ->
  (tstep repaired_all c = Some (c', l) -> In (LRaise TimeoutError) l ->
     pc c = RIW WBlocked /\ iev (sh c) = false /\
     List.length (buf (sh c)) <= count mid_handoff (prods c)) /\
  (cstep repaired_all c = Some (c', l) -> In (LRaise TimeoutError) l ->
     buf (sh c) = [] /\ hd LDone l = LBufTest false).
Proof. exact timeout_only_if_empty_repaired. Qed.
Print Assumptions C19_timeout_only_if_empty.

(* DisconnectedError only once the connection has ended for good; receive() raises it only
   right after finding the buffer empty (the events received before have been returned) *)
Theorem C19_disconnected_after_drain : forall P C c c' l, mreach repaired_all (init P C) c ->
  cstep repaired_all c = Some (c', l) -> In (LRaise DisconnectedError) l ->
  ended (sh c) = true /\
  (recv_pc (pc c) = true -> buf (sh c) = [] /\ hd LDone l = LBufTest false) /\
  (recv_pc (pc c) = false -> conn (sh c) = false).
Proof. exact disconnected_after_drain_repaired. Qed.
Print Assumptions C19_disconnected_after_drain.

(* once the connection has ended for good, every pending and every later call terminates
   under any schedule giving the application task enough turns (every fair one) *)
Theorem C19_no_hang : forall P C c sched, mreach repaired_all (init P C) c -> after_final c ->
  7 * List.length (cscript c) <= turns sched ->
  pc (run repaired_all false c sched) = CDone.
Proof. exact no_hang. Qed.
Print Assumptions C19_no_hang.

(* ===================================================================================== *)
(* GENERAL: statements that hold for every variant of the source (used by the headline)    *)
(* ===================================================================================== *)

Theorem C19_runs_are_reachable : forall v atomic P C sched,
  mreach v (init P C) (run v atomic (init P C) sched).
Proof. exact runs_are_reachable. Qed.
Print Assumptions C19_runs_are_reachable.

(* pop(0) never meets an empty buffer; no call ever ends in IndexError *)
Theorem C19_pop_never_empty : forall v P C c, mreach v (init P C) c ->
  (pc c = RPop -> buf (sh c) <> []) /\ ~ In (Raised IndexError) (outs (sh c)).
Proof. exact pop_never_empty. Qed.
Print Assumptions C19_pop_never_empty.

(* a timeout fires only while the awaited flag is clear; the timeout of input_event.wait only
   while every buffered item is still being handed off (appended, not yet signalled) *)
Theorem C19_timeout_enabled_only_if_clear : forall v P C c c' l, mreach v (init P C) c ->
  tstep v c = Some (c', l) ->
  (pc c = RCW WBlocked /\ cev (sh c) = false) \/
  (pc c = RIW WBlocked /\ iev (sh c) = false /\
   List.length (buf (sh c)) <= count mid_handoff (prods c)).
Proof. exact timeout_only_if_empty. Qed.
Print Assumptions C19_timeout_enabled_only_if_clear.

Theorem C19_timeout_input_wait_buffer_empty : forall v P C c c' l, mreach v (init P C) c ->
  tstep v c = Some (c', l) -> pc c = RIW WBlocked -> existsb mid_handoff (prods c) = false ->
  buf (sh c) = [].
Proof. exact timeout_input_wait_buffer_empty. Qed.
Print Assumptions C19_timeout_input_wait_buffer_empty.

(* DisconnectedError only after a final disconnect has started, at a step that reads
   `connected` as False (unless the source re-tests the buffer in between) *)
Theorem C19_disconnected_only_after_final : forall v P C c c' l, mreach v (init P C) c ->
  cstep v c = Some (c', l) -> In (LRaise DisconnectedError) l ->
  ended (sh c) = true /\ (recheck_before_raise v = false -> conn (sh c) = false).
Proof. exact disconnected_only_after_final. Qed.
Print Assumptions C19_disconnected_only_after_final.

(* full strength for a source whose __disconnect_final also sets input_event: every pending
   and later call completes *)
Theorem C19_no_hang_repaired : forall v P C, final_wakes_input v = true ->
  forall k c, mreach v (init P C) c -> after_final c ->
  List.length (cscript c) <= k ->
  pc (run v false c (repeat 0 (7 * k))) = CDone.
Proof. exact no_hang_repaired. Qed.
Print Assumptions C19_no_hang_repaired.

(* ... under ANY schedule that gives the application task enough turns (every fair one) *)
Theorem C19_no_hang_repaired_fair : forall v P C c sched, final_wakes_input v = true ->
  mreach v (init P C) c -> after_final c ->
  7 * List.length (cscript c) <= turns sched ->
  pc (run v false c sched) = CDone.
Proof. exact no_hang_repaired_fair. Qed.
Print Assumptions C19_no_hang_repaired_fair.

(* full strength for a source with the re-test: DisconnectedError, and TimeoutError out of the
   connected wait, only at a step that has just found the buffer empty; the timer raises only
   out of the input wait (where C19_timeout_enabled_only_if_clear applies) *)
Theorem C19_recheck_raises_only_if_empty : forall v c c' l, recheck_before_raise v = true ->
  cstep v c = Some (c', l) -> recv_pc (pc c) = true ->
  In (LRaise DisconnectedError) l \/ In (LRaise TimeoutError) l ->
  buf (sh c) = [] /\ hd LDone l = LBufTest false.
Proof. exact recheck_raises_only_if_empty. Qed.
Print Assumptions C19_recheck_raises_only_if_empty.

Theorem C19_recheck_timer_raises_only_in_input_wait : forall v c c' l, recheck_before_raise v = true ->
  tstep v c = Some (c', l) -> In (LRaise TimeoutError) l -> pc c = RIW WBlocked.
Proof. exact recheck_timer_raises_only_in_input_wait. Qed.
Print Assumptions C19_recheck_timer_raises_only_in_input_wait.

(* ===================================================================================== *)
(* DOCUMENTATION ONLY: what the fix commits repaired.  These are statements about the      *)
(* `pinned` variant (the source BEFORE 748d97f / fee3be8); no part of the check runs the    *)
(* model with `pinned`.  Witnesses were replayed on the real classes before the fixes.      *)
(* ===================================================================================== *)

(* before fee3be8: the timeout of connected_event.wait could fire with a completely handed-off
   event in the buffer (thread granularity) *)
Theorem C19_timeout_connected_wait_refuted :
  exists P C sched, forallb lifecycle P = true /\
    let c := run pinned false (init P C) sched in
    pc c = RCW WBlocked /\ buf (sh c) = [item_a] /\ existsb mid_handoff (prods c) = false /\
    exists c', tstep pinned c = Some (c', [LTimeout CE; LRaise TimeoutError]) /\
               outs (sh c') = [Raised TimeoutError] /\ buf (sh c') = [item_a].
Proof. exact timeout_connected_wait_refuted. Qed.
Print Assumptions C19_timeout_connected_wait_refuted.

(* before fee3be8: DisconnectedError while an event received before the end was still buffered *)
Theorem C19_disconnected_while_buffered_refuted :
  exists P C sched, forallb lifecycle P = true /\
    let c := run pinned false (init P C) sched in
    buf (sh c) = [item_a] /\ existsb mid_handoff (prods c) = false /\
    exists c', cstep pinned c = Some (c', [LConnRead false; LRaise DisconnectedError]) /\
               outs (sh c') = [Raised DisconnectedError] /\ buf (sh c') = [item_a].
Proof. exact disconnected_while_buffered_refuted. Qed.
Print Assumptions C19_disconnected_while_buffered_refuted.

Theorem C19_disconnected_while_buffered_async_refuted :
  exists P C sched, forallb lifecycle P = true /\
    let c := run pinned true (init P C) sched in
    outs (sh c) = [Raised DisconnectedError] /\ buf (sh c) = [item_a] /\
    last (trace pinned true (init P C) sched) [] = [LWake CE; LConnRead false; LRaise DisconnectedError].
Proof. exact disconnected_while_buffered_async_refuted. Qed.
Print Assumptions C19_disconnected_while_buffered_async_refuted.

(* before 748d97f: receive() blocked in input_event.wait() was never woken by the final disconnect *)
Theorem C19_no_hang_refuted :
  exists P C, forallb lifecycle P = true /\
    (exists sched, hung (run pinned false (init P C) sched)) /\
    (exists sched, hung (run pinned true (init P C) sched)).
Proof. exact no_hang_refuted. Qed.
Print Assumptions C19_no_hang_refuted.

Theorem C19_quiescent_stuck : forall v atomic c sched,
  quiescent v c = true -> run v atomic c sched = c.
Proof. exact quiescent_stuck. Qed.
Print Assumptions C19_quiescent_stuck.

(* (any variant) the input wait is the only place where a call can get stuck after the final
   disconnect - what made the hang a single-signature finding *)
Theorem C19_no_hang_except : forall v P C c, mreach v (init P C) c -> after_final c ->
  pc c = CDone \/
  exists n, n <= 7 /\ let c' := run v false c (repeat 0 n) in
    after_final c' /\ (pc c' = RIW WBlocked \/ call_over c c').
Proof. exact no_hang_except. Qed.
Print Assumptions C19_no_hang_except.

Theorem C19_input_wait_after_final : forall v c, after_final c -> pc c = RIW WBlocked ->
  if cur_timeout c
  then exists c', tstep v c = Some (c', [LTimeout IE; LRaise TimeoutError]) /\
                  outs (sh c') = outs (sh c) ++ [Raised TimeoutError]
  else quiescent v c = true.
Proof. exact input_wait_after_final. Qed.
Print Assumptions C19_input_wait_after_final.

(* ===================================================================================== *)
(* TRANSPORT: the simple client over the real Client.  `T` is a history of what the server / *)
(* transport does (events, loss, failed / refused / successful reconnection attempts, CLOSE, *)
(* DISCONNECT), `tp` the Client's reconnection parameters, `dispatch tp T` the handler        *)
(* invocations the Client makes for it (a failed attempt triggers only `connect_error`, a     *)
(* reserved event: no invocation), `server_sent tp T` the events the server sent.  The tie    *)
(* runs the real SimpleClient / AsyncSimpleClient over the real Client / AsyncClient over a   *)
(* fake engine.io transport against `dispatch` (harness/drivers/sched_simple_eio.py).          *)
(* ===================================================================================== *)

(* every transport history is dispatched to a script inside `lifecycle` *)
Theorem C19_dispatch_lifecycle : forall tp T, lifecycle (dispatch tp T) = true.
Proof. exact dispatch_lifecycle. Qed.
Print Assumptions C19_dispatch_lifecycle.

(* the events handed to the simple client are exactly the events the server sent, in order *)
Theorem C19_dispatch_items : forall tp T, items (dispatch tp T) = server_sent tp T.
Proof. exact dispatch_items. Qed.
Print Assumptions C19_dispatch_items.

(* receive() returns exactly the events the server sent, each once, in order, nothing else:
   returned ++ buffered ++ (not yet handed over) = server_sent, after every schedule, for any
   number of failed and successful reconnection attempts; nothing is left to hand over once the
   Client has processed the whole history *)
Theorem C19_transport_fifo : forall v atomic tp T C sched,
  let c := run v atomic (tinit tp T C) sched in
  exists rest, returned (outs (sh c)) ++ buf (sh c) ++ rest = server_sent tp T /\
               (prods_done c = true -> rest = []).
Proof. exact transport_fifo. Qed.
Print Assumptions C19_transport_fifo.

(* no lifecycle notification (nor anything else the server did not send) is ever received *)
Theorem C19_transport_received_were_sent : forall v atomic tp T C sched x,
  let c := run v atomic (tinit tp T C) sched in
  In x (returned (outs (sh c)) ++ buf (sh c)) -> In x (server_sent tp T).
Proof. exact transport_received_were_sent. Qed.
Print Assumptions C19_transport_received_were_sent.

(* the same for the schedules of the tie, where a producer choice is one whole transport event *)
Theorem C19_transport_fifo_grouped : forall v atomic tp T C gs,
  let c := grun v atomic (tinit tp T C) gs in
  exists rest, returned (outs (sh c)) ++ buf (sh c) ++ rest = server_sent tp T /\
               (prods_done c = true -> rest = []).
Proof. exact transport_fifo_grouped. Qed.
Print Assumptions C19_transport_fifo_grouped.

(* DOCUMENTATION ONLY (residual of fix fee3be8, thread granularity; notes/C19.md section 9): an untimed
   receive() can stay blocked in the connected wait with an event buffered while an outage lasts *)
Theorem C19_held_back_during_outage_refuted :
  exists tp T C sched,
    let c := run repaired_all false (tinit tp T C) sched in
    pc c = RCW WBlocked /\ cur_timeout c = false /\ buf (sh c) <> [] /\ prods_done c = true /\
    count mid_handoff (prods c) = 0 /\ ended (sh c) = false /\ quiescent repaired_all c = true.
Proof. exact held_back_during_outage_refuted. Qed.
Print Assumptions C19_held_back_during_outage_refuted.

(* ... and nowhere else: a receive() that cannot move while a completely handed-off event is
   buffered is registered in the connected wait with the connected flag clear (all variants, all
   schedules) - clause "never held back" holds except in that shape *)
Theorem C19_held_back_except : forall v P C c, mreach v (init P C) c ->
  recv_pc (pc c) = true -> cstep v c = None ->
  buf (sh c) <> [] -> count mid_handoff (prods c) = 0 ->
  pc c = RCW WBlocked /\ cev (sh c) = false.
Proof. exact held_back_except. Qed.
Print Assumptions C19_held_back_except.

(* BINARY EVENTS in transport histories (header frame + attachment frames, a loss possible between the
   frames): `dispatch` / `server_sent` count an event when all its frames were delivered on one
   connection, so C19_transport_fifo and C19_transport_received_were_sent above cover them.  About
   `dispatch` itself: a half-received binary event (1) is discarded whenever the transport leaves the
   `up` phase - it leaves no state across a reconnection - and (2) while incomplete, every transport
   event other than its next attachment either produces no handler invocation or discards it. *)
Theorem C19_incomplete_binary_leaves_no_state : forall tp pd o,
  fst (fst (tnextb tp (TUp, pd) o)) <> TUp -> snd (fst (tnextb tp (TUp, pd) o)) = None.
Proof. exact tnextb_leaves_up_clears. Qed.
Print Assumptions C19_incomplete_binary_leaves_no_state.

Theorem C19_incomplete_binary_silent : forall tp e a k o, o <> TBinAtt ->
  snd (tnextb tp (TUp, Some (e, a, k)) o) = [] \/ snd (fst (tnextb tp (TUp, Some (e, a, k)) o)) = None.
Proof. exact tnextb_incomplete_silent. Qed.
Print Assumptions C19_incomplete_binary_silent.
