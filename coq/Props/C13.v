(* C13 - property theorems only; proofs live in Routing/RoutingProofs.v and
   Routing/ClientFull.v.  FULL-STRENGTH FORM (client mirrors the server). *)
From VT Require Import Routing.GenTrigger Routing.RoutingProofs Routing.ClientFull Check.C13Check.
Open Scope N_scope.

Theorem C13_server_event_resolution : forall r n ev ns args,
  BaseServer__get_event_handler (mk_self r n) (PStr ev) (PStr ns) (PTuple args)
  = Ok (emb_result (resolve_event server_reserved r ev ns args)).
Proof. exact server_event_resolution. Qed.
Print Assumptions C13_server_event_resolution.

Theorem C13_server_namespace_resolution : forall r n ns args,
  BaseServer__get_namespace_handler (mk_self r n) (PStr ns) (PTuple args)
  = Ok (emb_result (resolve_namespace n ns args)).
Proof. exact server_namespace_resolution. Qed.
Print Assumptions C13_server_namespace_resolution.

Theorem C13_client_namespace_resolution : forall r n ns args,
  BaseClient__get_namespace_handler (mk_self r n) (PStr ns) (PTuple args)
  = Ok (emb_result (resolve_namespace n ns args)).
Proof. exact client_namespace_resolution. Qed.
Print Assumptions C13_client_namespace_resolution.

Theorem C13_server_routing : forall r n ev ns args,
  server_trigger (mk_self r n) (PStr ev) (PStr ns) (PTuple args)
  = Ok (emb_action (resolve server_reserved r n ev ns args)).
Proof. exact server_trigger_resolution. Qed.
Print Assumptions C13_server_routing.

Theorem C13_function_over_class : forall r n ev ns args h a,
  resolve_event server_reserved r ev ns args = (Some h, a) ->
  server_trigger (mk_self r n) (PStr ev) (PStr ns) (PTuple args) = Ok (ACall (PObj h) (PTuple a)).
Proof. exact server_function_over_class. Qed.
Print Assumptions C13_function_over_class.

Theorem C13_dropped_when_none : forall r n ev ns args,
  server_trigger (mk_self r n) (PStr ev) (PStr ns) (PTuple args) = Ok ANotHandled <->
  (forall rl, In rl (event_rules server_reserved r ev ns args ++ namespace_rules n ns args) -> fst rl = None).
Proof. exact server_dropped_when_none. Qed.
Print Assumptions C13_dropped_when_none.

Theorem C13_client_event_resolution : forall r n ev ns args,
  BaseClient__get_event_handler (mk_self r n) (PStr ev) (PStr ns) (PTuple args)
  = Ok (emb_result (resolve_event client_reserved r ev ns args)).
Proof. exact client_event_resolution. Qed.
Print Assumptions C13_client_event_resolution.

Theorem C13_client_routing : forall r n ev ns args,
  client_trigger (mk_self r n) (PStr ev) (PStr ns) (PTuple args)
  = Ok (emb_action (resolve client_reserved r n ev ns args)).
Proof. exact client_trigger_resolution. Qed.
Print Assumptions C13_client_routing.

Theorem C13_client_function_over_class : forall r n ev ns args h a,
  resolve_event client_reserved r ev ns args = (Some h, a) ->
  client_trigger (mk_self r n) (PStr ev) (PStr ns) (PTuple args) = Ok (ACall (PObj h) (PTuple a)).
Proof. exact client_function_over_class. Qed.
Print Assumptions C13_client_function_over_class.

Theorem C13_client_dropped_when_none : forall r n ev ns args,
  client_trigger (mk_self r n) (PStr ev) (PStr ns) (PTuple args) = Ok ANotHandled <->
  (forall rl, In rl (event_rules client_reserved r ev ns args ++ namespace_rules n ns args) -> fst rl = None).
Proof. exact client_dropped_when_none. Qed.
Print Assumptions C13_client_dropped_when_none.

Theorem C13_client_server_same_rules : forall r n ev ns args,
  memb ev client_reserved = memb ev server_reserved ->
  client_trigger (mk_self r n) (PStr ev) (PStr ns) (PTuple args)
  = server_trigger (mk_self r n) (PStr ev) (PStr ns) (PTuple args).
Proof. exact client_server_same_rules. Qed.
Print Assumptions C13_client_server_same_rules.

Theorem C13_checker_sound : forall c, chk_C13 c = true -> P_C13 c.
Proof. exact chk_C13_sound. Qed.
Print Assumptions C13_checker_sound.
