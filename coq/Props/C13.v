(* C13 - property theorems only; proofs live in Routing/RoutingProofs.v and
   Routing/ClientFull.v.  FULL-STRENGTH FORM (client mirrors the server). *)
From VT Require Import Routing.GenTrigger Routing.RoutingProofs Routing.ClientFull Check.C13Check.
From VT Require Import Routing.History Routing.HistoryProofs Check.C13HistCheck.
From VT Require Import Routing.NsDispatch Routing.NsDispatchProofs Routing.HistoryGen.
From VT Require Import Routing.Gen_namespace Routing.Gen_async_namespace.
Open Scope N_scope.

Theorem C13_server_event_resolution : forall r n ev ns args,
  BaseServer__get_event_handler (mk_self r n) (PStr ev) (PStr ns) (PTuple args)
  = Ok (emb_result (resolve_event server_reserved r ev ns args)).
Proof. exact server_event_resolution. Qed.
Print Assumptions C13_server_event_resolution.

Theorem C13_server_namespace_resolution : forall r n ns args,
  BaseServer__get_namespace_handler (mk_self r n) (PStr ns) (PTuple args)
  = Ok (emb_result (resolve_namespace n ns args)).
Proof. exact server_namespace_resolution. Qed.
Print Assumptions C13_server_namespace_resolution.

Theorem C13_client_namespace_resolution : forall r n ns args,
  BaseClient__get_namespace_handler (mk_self r n) (PStr ns) (PTuple args)
  = Ok (emb_result (resolve_namespace n ns args)).
Proof. exact client_namespace_resolution. Qed.
Print Assumptions C13_client_namespace_resolution.

Theorem C13_server_routing : forall r n ev ns args,
  server_trigger (mk_self r n) (PStr ev) (PStr ns) (PTuple args)
  = Ok (emb_action (resolve server_reserved r n ev ns args)).
Proof. exact server_trigger_resolution. Qed.
Print Assumptions C13_server_routing.

Theorem C13_function_over_class : forall r n ev ns args h a,
  resolve_event server_reserved r ev ns args = (Some h, a) ->
  server_trigger (mk_self r n) (PStr ev) (PStr ns) (PTuple args) = Ok (ACall (PObj h) (PTuple a)).
Proof. exact server_function_over_class. Qed.
Print Assumptions C13_function_over_class.

Theorem C13_dropped_when_none : forall r n ev ns args,
  server_trigger (mk_self r n) (PStr ev) (PStr ns) (PTuple args) = Ok ANotHandled <->
  (forall rl, In rl (event_rules server_reserved r ev ns args ++ namespace_rules n ns args) -> fst rl = None).
Proof. exact server_dropped_when_none. Qed.
Print Assumptions C13_dropped_when_none.

Theorem C13_client_event_resolution : forall r n ev ns args,
  BaseClient__get_event_handler (mk_self r n) (PStr ev) (PStr ns) (PTuple args)
  = Ok (emb_result (resolve_event client_reserved r ev ns args)).
Proof. exact client_event_resolution. Qed.
Print Assumptions C13_client_event_resolution.

Theorem C13_client_routing : forall r n ev ns args,
  client_trigger (mk_self r n) (PStr ev) (PStr ns) (PTuple args)
  = Ok (emb_action (resolve client_reserved r n ev ns args)).
Proof. exact client_trigger_resolution. Qed.
Print Assumptions C13_client_routing.

Theorem C13_client_function_over_class : forall r n ev ns args h a,
  resolve_event client_reserved r ev ns args = (Some h, a) ->
  client_trigger (mk_self r n) (PStr ev) (PStr ns) (PTuple args) = Ok (ACall (PObj h) (PTuple a)).
Proof. exact client_function_over_class. Qed.
Print Assumptions C13_client_function_over_class.

Theorem C13_client_dropped_when_none : forall r n ev ns args,
  client_trigger (mk_self r n) (PStr ev) (PStr ns) (PTuple args) = Ok ANotHandled <->
  (forall rl, In rl (event_rules client_reserved r ev ns args ++ namespace_rules n ns args) -> fst rl = None).
Proof. exact client_dropped_when_none. Qed.
Print Assumptions C13_client_dropped_when_none.

Theorem C13_client_server_same_rules : forall r n ev ns args,
  memb ev client_reserved = memb ev server_reserved ->
  client_trigger (mk_self r n) (PStr ev) (PStr ns) (PTuple args)
  = server_trigger (mk_self r n) (PStr ev) (PStr ns) (PTuple args).
Proof. exact client_server_same_rules. Qed.
Print Assumptions C13_client_server_same_rules.

Theorem C13_checker_sound : forall c, chk_C13 c = true -> P_C13 c.
Proof. exact chk_C13_sound. Qed.
Print Assumptions C13_checker_sound.

(* ---- histories: sequences of registrations and events, namespace OBJECTS identified ---- *)
Theorem C13_server_history_routing : forall ot ops,
  hrun ot (model_route server_trigger ot) [] ops = hrun ot (spec_route server_reserved ot) [] ops.
Proof. exact server_history_routing. Qed.
Print Assumptions C13_server_history_routing.

Theorem C13_client_history_routing : forall ot ops,
  hrun ot (model_route client_trigger ot) [] ops = hrun ot (spec_route client_reserved ot) [] ops.
Proof. exact client_history_routing. Qed.
Print Assumptions C13_client_history_routing.

Theorem C13_event_after_history : forall ot ops i ev ns args,
  let st := snd (hrun ot (model_route server_trigger ot) [] (filter is_registration ops)) in
  last (fst (hrun ot (model_route server_trigger ot) [] (ops ++ [HEvent i ev ns args]))) None
  = Some (Ok (kcalls_of_outcome ot (resolve_namespace_key (snd (get_host st i)) ns)
                (resolve server_reserved (fst (get_host st i)) (snd (get_host st i)) ev ns args))).
Proof. exact server_event_after_history. Qed.
Print Assumptions C13_event_after_history.

(* ---- the generated trigger_event of the namespace base classes: the method called is the
   bound method on_<event> of THE object that received the event, whatever the application
   code does ---- *)
Theorem C13_namespace_dispatch : forall call isc c ns ms ev args,
  Namespace_trigger_event call isc (mk_nsobj c ns ms) (PStr ev) (PTuple args) = dispatch_spec call c ms ev args.
Proof. exact namespace_dispatch_generated. Qed.
Print Assumptions C13_namespace_dispatch.

Theorem C13_client_namespace_dispatch : forall call isc c ns ms ev args,
  ClientNamespace_trigger_event call isc (mk_nsobj c ns ms) (PStr ev) (PTuple args) = dispatch_spec call c ms ev args.
Proof. exact client_namespace_dispatch_generated. Qed.
Print Assumptions C13_client_namespace_dispatch.

Theorem C13_async_namespace_dispatch : forall call isc c ns ms ev args,
  AsyncNamespace_trigger_event call isc (mk_nsobj c ns ms) (PStr ev) (PTuple args)
  = dispatch_spec_async call isc c ms ev args.
Proof. exact async_namespace_dispatch_generated. Qed.
Print Assumptions C13_async_namespace_dispatch.

Theorem C13_async_client_namespace_dispatch : forall call isc c ns ms ev args,
  AsyncClientNamespace_trigger_event call isc (mk_nsobj c ns ms) (PStr ev) (PTuple args)
  = dispatch_spec_async call isc c ms ev args.
Proof. exact async_client_namespace_dispatch_generated. Qed.
Print Assumptions C13_async_client_namespace_dispatch.

Theorem C13_server_history_routing_generated_dispatch : forall k ot ops,
  hrun ot (model_route_gen k server_trigger ot) [] ops = hrun ot (spec_route server_reserved ot) [] ops.
Proof. exact server_history_routing_gen. Qed.
Print Assumptions C13_server_history_routing_generated_dispatch.

Theorem C13_client_history_routing_generated_dispatch : forall k ot ops,
  hrun ot (model_route_gen k client_trigger ot) [] ops = hrun ot (spec_route client_reserved ot) [] ops.
Proof. exact client_history_routing_gen. Qed.
Print Assumptions C13_client_history_routing_generated_dispatch.

Theorem C13_history_checker_sound : forall c, chk_C13_hist c = true -> P_C13_hist c.
Proof. exact chk_C13_hist_sound. Qed.
Print Assumptions C13_history_checker_sound.
