(* C13 - property theorems only; proofs live in Routing/RoutingProofs.v and
   Routing/ClientPinned.v.  PINNED-CLIENT FORM: the full client statement is false of the
   code translated from base_client.py (refuted below), so it stands as _refuted +
   _except + the exact characterisation of the failing set; the full-strength form is
   installed by `harness/props/c13.py --promote` once the client mirrors the server. *)
From VT Require Import Routing.GenTrigger Routing.RoutingProofs Routing.ClientPinned Check.C13Check.
Open Scope N_scope.

Theorem C13_server_event_resolution : forall r n ev ns args,
  BaseServer__get_event_handler (mk_self r n) (PStr ev) (PStr ns) (PTuple args)
  = Ok (emb_result (resolve_event server_reserved r ev ns args)).
Proof. exact server_event_resolution. Qed.
Print Assumptions C13_server_event_resolution.

Theorem C13_server_namespace_resolution : forall r n ns args,
  BaseServer__get_namespace_handler (mk_self r n) (PStr ns) (PTuple args)
  = Ok (emb_result (resolve_namespace n ns args)).
Proof. exact server_namespace_resolution. Qed.
Print Assumptions C13_server_namespace_resolution.

Theorem C13_client_namespace_resolution : forall r n ns args,
  BaseClient__get_namespace_handler (mk_self r n) (PStr ns) (PTuple args)
  = Ok (emb_result (resolve_namespace n ns args)).
Proof. exact client_namespace_resolution. Qed.
Print Assumptions C13_client_namespace_resolution.

Theorem C13_client_event_resolution_refuted :
  exists r n ev ns args,
    BaseClient__get_event_handler (mk_self r n) (PStr ev) (PStr ns) (PTuple args)
    <> Ok (emb_result (resolve_event client_reserved r ev ns args)).
Proof. exact client_event_resolution_refuted. Qed.
Print Assumptions C13_client_event_resolution_refuted.

Theorem C13_client_event_resolution_except : forall r n ev ns args,
  skips_catchall_namespace client_reserved r ev ns = false ->
  BaseClient__get_event_handler (mk_self r n) (PStr ev) (PStr ns) (PTuple args)
  = Ok (emb_result (resolve_event client_reserved r ev ns args)).
Proof. exact client_event_resolution_except. Qed.
Print Assumptions C13_client_event_resolution_except.

Theorem C13_client_event_violations_characterised : forall r n ev ns args,
  skips_catchall_namespace client_reserved r ev ns = true ->
  BaseClient__get_event_handler (mk_self r n) (PStr ev) (PStr ns) (PTuple args)
  <> Ok (emb_result (resolve_event client_reserved r ev ns args)).
Proof. exact client_event_violations_characterised. Qed.
Print Assumptions C13_client_event_violations_characterised.

Theorem C13_server_routing : forall r n ev ns args,
  server_trigger (mk_self r n) (PStr ev) (PStr ns) (PTuple args)
  = Ok (emb_action (resolve server_reserved r n ev ns args)).
Proof. exact server_trigger_resolution. Qed.
Print Assumptions C13_server_routing.

Theorem C13_function_over_class : forall r n ev ns args h a,
  resolve_event server_reserved r ev ns args = (Some h, a) ->
  server_trigger (mk_self r n) (PStr ev) (PStr ns) (PTuple args) = Ok (ACall (PObj h) (PTuple a)).
Proof. exact server_function_over_class. Qed.
Print Assumptions C13_function_over_class.

Theorem C13_dropped_when_none : forall r n ev ns args,
  server_trigger (mk_self r n) (PStr ev) (PStr ns) (PTuple args) = Ok ANotHandled <->
  (forall rl, In rl (event_rules server_reserved r ev ns args ++ namespace_rules n ns args) -> fst rl = None).
Proof. exact server_dropped_when_none. Qed.
Print Assumptions C13_dropped_when_none.

Theorem C13_client_routing_except : forall r n ev ns args,
  skips_catchall_namespace client_reserved r ev ns = false ->
  client_trigger (mk_self r n) (PStr ev) (PStr ns) (PTuple args)
  = Ok (emb_action (resolve client_reserved r n ev ns args)).
Proof. exact client_trigger_resolution_except. Qed.
Print Assumptions C13_client_routing_except.

Theorem C13_client_function_over_class_refuted :
  exists r n ev ns args h a c ev' a',
    resolve_event client_reserved r ev ns args = (Some h, a) /\
    client_trigger (mk_self r n) (PStr ev) (PStr ns) (PTuple args) = Ok (ATrigger c ev' a').
Proof. exact client_function_over_class_refuted. Qed.
Print Assumptions C13_client_function_over_class_refuted.

Theorem C13_client_function_over_class_except : forall r n ev ns args h a,
  skips_catchall_namespace client_reserved r ev ns = false ->
  resolve_event client_reserved r ev ns args = (Some h, a) ->
  client_trigger (mk_self r n) (PStr ev) (PStr ns) (PTuple args) = Ok (ACall (PObj h) (PTuple a)).
Proof. exact client_function_over_class_except. Qed.
Print Assumptions C13_client_function_over_class_except.

Theorem C13_client_dropped_when_none_except : forall r n ev ns args,
  skips_catchall_namespace client_reserved r ev ns = false ->
  (client_trigger (mk_self r n) (PStr ev) (PStr ns) (PTuple args) = Ok ANotHandled <->
   (forall rl, In rl (event_rules client_reserved r ev ns args ++ namespace_rules n ns args) -> fst rl = None)).
Proof. exact client_dropped_when_none_except. Qed.
Print Assumptions C13_client_dropped_when_none_except.

Theorem C13_checker_sound : forall c, chk_C13 c = true -> P_C13 c.
Proof. exact chk_C13_sound. Qed.
Print Assumptions C13_checker_sound.
