(* C14 - property theorems only; proofs in Parity/TraceEquiv.v *)
From VT Require Import Check.C14Check.

(* the comparison the check performs decides exactly "same per-peer packet sequences and same
   handler / callback / result sequence" *)
Theorem C14_checker_decides : forall a b, effs_eqb a b = true <-> per_peer_equiv a b.
Proof. exact effs_eqb_spec. Qed.
Print Assumptions C14_checker_decides.

Theorem C14_equiv_refl : forall a, per_peer_equiv a a.
Proof. exact per_peer_refl. Qed.
Print Assumptions C14_equiv_refl.
Theorem C14_equiv_sym : forall a b, per_peer_equiv a b -> per_peer_equiv b a.
Proof. exact per_peer_sym. Qed.
Print Assumptions C14_equiv_sym.
Theorem C14_equiv_trans : forall a b c, per_peer_equiv a b -> per_peer_equiv b c -> per_peer_equiv a c.
Proof. exact per_peer_trans. Qed.
Print Assumptions C14_equiv_trans.

(* parity through the model: two implementations whose observations both correspond to the
   model's run of the same history have equivalent traces, operation by operation *)
Theorem C14_parity_by_model : forall c s ops o1 o2,
  fst (corr_steps c s ops o1) = true -> fst (corr_steps c s ops o2) = true -> all_eqb o1 o2 = true.
Proof. exact corr_steps_parity. Qed.
Print Assumptions C14_parity_by_model.
