(* C14 - property theorems only; proofs in Parity/TraceEquiv.v *)
From VT Require Import Check.C14Check.

(* the comparison the check performs decides exactly "same per-peer packet sequences and same
   handler / callback / result sequence" *)
Theorem C14_checker_decides : forall a b, effs_eqb a b = true <-> per_peer_equiv a b.
Proof. exact effs_eqb_spec. Qed.
Print Assumptions C14_checker_decides.

Theorem C14_equiv_refl : forall a, per_peer_equiv a a.
Proof. exact per_peer_refl. Qed.
Print Assumptions C14_equiv_refl.
Theorem C14_equiv_sym : forall a b, per_peer_equiv a b -> per_peer_equiv b a.
Proof. exact per_peer_sym. Qed.
Print Assumptions C14_equiv_sym.
Theorem C14_equiv_trans : forall a b c, per_peer_equiv a b -> per_peer_equiv b c -> per_peer_equiv a c.
Proof. exact per_peer_trans. Qed.
Print Assumptions C14_equiv_trans.

(* parity through the model: two implementations whose observations both correspond to the
   model's run of the same history have equivalent traces, operation by operation *)
Theorem C14_parity_by_model : forall c s ops o1 o2,
  fst (corr_steps c s ops o1) = true -> fst (corr_steps c s ops o2) = true -> all_eqb o1 o2 = true.
Proof. exact corr_steps_parity. Qed.
Print Assumptions C14_parity_by_model.

(* ---- the pub/sub pair with application handlers (PubSubManager / AsyncPubSubManager under Server /
   AsyncServer whose connect / event / disconnect handlers call the room API): Check/C07HCheck.v hpair_eval ---- *)
From VT Require Import Check.C07HCheck Check.C07HCheckProofs.

(* bit 1 clear means: the observation of that member IS the run of Cluster/Handlers.v on the history *)
Theorem C14_pubsub_corr_meaning : forall wos imm ap ops obs finals,
  hcorr_on wos imm ap ops obs finals = true -> (obs, finals) = model_run wos imm ap ops.
Proof. exact hcorr_on_meaning. Qed.
Print Assumptions C14_pubsub_corr_meaning.

(* bit 2 decides exactly: same effects (published messages, packets per client, handler invocations, API
   results) at every operation and same final tables on every host *)
Theorem C14_pubsub_same_meaning : forall p,
  hpair_same p = true <-> hp_obs_s p = hp_obs_a p /\ hp_fin_s p = hp_fin_a p.
Proof. exact hpair_same_meaning. Qed.
Print Assumptions C14_pubsub_same_meaning.

(* parity through the model: two members that both correspond to the model on one history behave alike *)
Theorem C14_pubsub_parity_by_model : forall p, hpair_corr p = true -> hpair_same p = true.
Proof. exact hpair_parity_by_model. Qed.
Print Assumptions C14_pubsub_parity_by_model.
