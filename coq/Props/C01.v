(* C01 - property theorems only; proofs live in Codec/PacketProofs.v *)
From VT Require Import Codec.Packet Codec.SpecCodec Codec.PacketProofs.

Theorem C01_binary_only_event_ack : forall t data ns id,
  has_bytes data = true -> (t <> EVENT)%Z -> (t <> ACK)%Z ->
  ctor true t data ns id None = Err ValueError.
Proof. exact binary_only_event_ack. Qed.
Print Assumptions C01_binary_only_event_ack.
