(* C01 - property theorems only; proofs live in Base/PyStrProofs.v, Codec/JsonProofs.v,
   Codec/JsonParse.v, Codec/JsonInj.v, Codec/PacketProofs.v, Codec/SpecProofs.v, Check/C01CheckProofs.v *)
From VT Require Import Base.PyStrProofs Codec.JsonProofs Codec.JsonParse Codec.JsonInj Codec.PacketProofs Codec.SpecProofs.
From VT Require Import Codec.Packet Codec.SpecCodec Check.C01Check Check.C01CheckProofs.

(* wire conformance: the encoder IS the specification-derived encoder, on every packet *)
Theorem C01_conformance : forall p, encode p = spec_encode p.
Proof. exact conformance. Qed.
Print Assumptions C01_conformance.

Theorem C01_deconstruct_spec : forall v acc,
  decon v acc = (subst v (List.length acc), acc ++ leaves v).
Proof. exact decon_spec. Qed.
Print Assumptions C01_deconstruct_spec.

Theorem C01_binary_only_event_ack : forall t data ns id,
  has_bytes data = true -> (t <> EVENT)%Z -> (t <> ACK)%Z ->
  ctor true t data ns id None = Err ValueError.
Proof. exact binary_only_event_ack. Qed.
Print Assumptions C01_binary_only_event_ack.

(* str(n) / int(s) / isdigit() on the decimal text of any natural number *)
Theorem C01_decimal_roundtrip : forall n,
  py_int (str_of_N n) = Ok n /\ isdigit_str (str_of_N n) = true /\
  forallb adigit (str_of_N n) = true /\ str_of_N n <> [].
Proof. exact decimal_roundtrip. Qed.
Print Assumptions C01_decimal_roundtrip.

Theorem C01_decimal_negative_dash : forall z, (z < 0)%Z -> exists r, str_of_Z z = 45%N :: r.
Proof. exact str_of_Z_neg_first. Qed.
Print Assumptions C01_decimal_negative_dash.

(* reconstruct_binary inverts deconstruct_binary: any depth, any width *)
Theorem C01_reconstruct : forall v, wf_data v = true ->
  recon (fst (decon v [])) (map PBytes (snd (decon v []))) = Ok v.
Proof. exact recon_decon_wf. Qed.
Print Assumptions C01_reconstruct.

Theorem C01_reconstruct_at_offset : forall v, ph_free v = true -> forall pre post,
  recon (subst v (List.length pre)) (pre ++ map PBytes (leaves v) ++ post) = Ok v.
Proof. exact recon_subst. Qed.
Print Assumptions C01_reconstruct_at_offset.

(* the first character of the JSON text of a non-number is not a digit, '-' or '/' *)
Theorem C01_json_first_char : forall v s, json_dumps v = Ok s -> not_number v ->
  exists x b, s = x :: b /\ is_digit x = false /\ x <> 45%N /\ x <> 47%N.
Proof. exact json_dumps_first. Qed.
Print Assumptions C01_json_first_char.

(* round trip, json.loads an oracle assumed to invert json.dumps on jsonable values *)
Theorem C01_roundtrip_partial : forall loads : str -> Res pv,
  (forall v s, jsonable v = true -> json_dumps v = Ok s -> loads s = Ok v) ->
  forall t data ns id p f atts,
  wf_input t data ns id = true -> lex_ok data = true ->
  ctor true t data ns id None = Ok p ->
  encode p = Ok (f, atts) ->
  (N.of_nat (List.length (atts_of atts)) < 10000000000)%N ->
  exists r r' flags,
    decode loads (PStr f) = Ok r /\
    rcount r = N.of_nat (List.length (atts_of atts)) /\
    add_all r (map PBytes (atts_of atts)) = Ok (r', flags) /\
    flags = last_only (List.length (atts_of atts)) /\
    rt_ok t data ns id None (map PBytes (atts_of atts)) (Ok (rp r', rcount r, flags)) = true.
Proof. exact roundtrip_partial. Qed.
Print Assumptions C01_roundtrip_partial.

(* the same with the oracle assumed correct only on the one JSON text of this packet *)
Theorem C01_roundtrip_pointwise_partial : forall loads t data ns id p f atts,
  wf_input t data ns id = true ->
  ctor true t data ns id None = Ok p ->
  encode p = Ok (f, atts) ->
  (N.of_nat (List.length (atts_of atts)) < 10000000000)%N ->
  (forall s, json_dumps (subst data 0) = Ok s -> loads s = Ok (subst data 0)) ->
  exists r r' flags,
    decode loads (PStr f) = Ok r /\
    rcount r = N.of_nat (List.length (atts_of atts)) /\
    add_all r (map PBytes (atts_of atts)) = Ok (r', flags) /\
    flags = last_only (List.length (atts_of atts)) /\
    rt_ok t data ns id None (map PBytes (atts_of atts)) (Ok (rp r', rcount r, flags)) = true.
Proof. exact roundtrip_pointwise. Qed.
Print Assumptions C01_roundtrip_pointwise_partial.

(* constructor and encoder succeed on the whole domain *)
Theorem C01_encode_total : forall t data ns id,
  wf_input t data ns id = true ->
  (has_bytes data = true -> (t = 2 \/ t = 3)%Z) ->
  exists p f atts, ctor true t data ns id None = Ok p /\ encode p = Ok (f, atts) /\
                   atts_of atts = leaves data.
Proof. exact encode_total. Qed.
Print Assumptions C01_encode_total.

(* round trip without assuming that encoding succeeded *)
Theorem C01_roundtrip_total_pointwise_partial : forall loads t data ns id,
  wf_input t data ns id = true ->
  (has_bytes data = true -> (t = 2 \/ t = 3)%Z) ->
  (N.of_nat (List.length (leaves data)) < 10000000000)%N ->
  (forall s, json_dumps (subst data 0) = Ok s -> loads s = Ok (subst data 0)) ->
  exists p f atts, ctor true t data ns id None = Ok p /\ encode p = Ok (f, atts) /\
                   atts_of atts = leaves data /\
  exists r r' flags,
    decode loads (PStr f) = Ok r /\
    rcount r = N.of_nat (List.length (leaves data)) /\
    add_all r (map PBytes (leaves data)) = Ok (r', flags) /\
    flags = last_only (List.length (leaves data)) /\
    rt_ok t data ns id None (map PBytes (leaves data)) (Ok (rp r', rcount r, flags)) = true.
Proof. exact roundtrip_total_pointwise. Qed.
Print Assumptions C01_roundtrip_total_pointwise_partial.

(* what rt_ok = true means *)
Theorem C01_rt_ok_sound : forall t data ns id binary atts obs,
  wf_input t data ns id = true ->
  rt_ok t data ns id binary atts obs = true ->
  match obs with
  | Ok (q, n, flags) =>
      ptype q = PInt (promoted t data binary) /\ norm_ns (pns q) = norm_ns ns /\
      pid q = id /\ pdata q = data /\ n = N.of_nat (List.length atts) /\
      flags = last_only (List.length atts) /\ atts = map PBytes (leaves data)
  | Err _ => False
  end.
Proof. exact rt_ok_sound. Qed.
Print Assumptions C01_rt_ok_sound.

Theorem C01_enc_ok_sound : forall t data ns id obs,
  wf_input t data ns id = true ->
  enc_ok t data ns id None obs = true ->
  if has_bytes data && negb ((t =? 2)%Z || (t =? 3)%Z)
  then obs = Err ValueError
  else obs = spec_encode (mkPacket (PInt (promoted t data None)) ns id data).
Proof. exact enc_ok_sound. Qed.
Print Assumptions C01_enc_ok_sound.

Theorem C01_model_enc_ok : forall t data ns id,
  enc_ok t data ns id None (model_enc t data ns id None) = true.
Proof. exact model_enc_ok. Qed.
Print Assumptions C01_model_enc_ok.

(* interop with the specification-derived codec *)
Theorem C01_interop_spec_decode : forall loads : str -> Res pv,
  (forall v s, jsonable v = true -> json_dumps v = Ok s -> loads s = Ok v) ->
  forall t data ns id p f atts,
  wf_input t data ns id = true -> lex_ok data = true ->
  ctor true t data ns id None = Ok p ->
  encode p = Ok (f, atts) ->
  (N.of_nat (List.length (atts_of atts)) < 10000000000)%N ->
  spec_decode loads f =
  Ok (mkSpec (promoted t data None) (sns_of ns) id (subst data 0) (N.of_nat (List.length (atts_of atts)))).
Proof. exact interop_spec_decode. Qed.
Print Assumptions C01_interop_spec_decode.

Theorem C01_interop_spec_encode : forall loads : str -> Res pv,
  (forall v s, jsonable v = true -> json_dumps v = Ok s -> loads s = Ok v) ->
  forall t data ns id p f atts,
  wf_input t data ns id = true -> lex_ok data = true ->
  ctor true t data ns id None = Ok p ->
  spec_encode p = Ok (f, atts) ->
  (N.of_nat (List.length (atts_of atts)) < 10000000000)%N ->
  exists r r' flags,
    decode loads (PStr f) = Ok r /\
    rcount r = N.of_nat (List.length (atts_of atts)) /\
    add_all r (map PBytes (atts_of atts)) = Ok (r', flags) /\
    flags = last_only (List.length (atts_of atts)) /\
    rt_ok t data ns id None (map PBytes (atts_of atts)) (Ok (rp r', rcount r, flags)) = true.
Proof. exact interop_spec_encode. Qed.
Print Assumptions C01_interop_spec_encode.

(* domain boundary: a top-level number is read back as an id, by both decoders *)
Theorem C01_number_payload_refuted : forall loads,
  exists p, ctor true CONNECT_ERROR (PInt 5) None None None = Ok p /\
            encode p = Ok (s2l "45", None) /\
            decode_str loads (s2l "45") = Ok (mkR (mkPacket (PInt 4) None (Some 5%Z) PNone) 0%N []) /\
            spec_decode loads (s2l "45") = Ok (mkSpec 4 (s2l "/") (Some 5%Z) PNone 0%N).
Proof. exact number_payload_refuted. Qed.
Print Assumptions C01_number_payload_refuted.

(* ---- the JSON oracle discharged: a concrete parser inverts the concrete printer ---- *)
Theorem C01_parse_dumps : forall v s,
  parseable v = true -> json_dumps v = Ok s -> json_parse s = Some (v, []).
Proof. exact parse_dumps. Qed.
Print Assumptions C01_parse_dumps.

Theorem C01_json_unique_readability : forall v1 v2 s1 s2 r1 r2,
  parseable v1 = true -> parseable v2 = true ->
  json_dumps v1 = Ok s1 -> json_dumps v2 = Ok s2 ->
  rest_ok r1 -> rest_ok r2 ->
  s1 ++ r1 = s2 ++ r2 -> v1 = v2 /\ s1 = s2 /\ r1 = r2.
Proof. exact dumps_unique_readability. Qed.
Print Assumptions C01_json_unique_readability.

Theorem C01_json_dumps_injective : forall v1 v2 s,
  jsonable v1 = true -> jsonable v2 = true ->
  json_dumps v1 = Ok s -> json_dumps v2 = Ok s -> v1 = v2.
Proof. exact json_dumps_injective_jsonable. Qed.
Print Assumptions C01_json_dumps_injective.

(* the premise of C01_roundtrip_partial / C01_interop_* is satisfiable *)
Theorem C01_loads_exists :
  exists loads : str -> Res pv,
    forall v s, jsonable v = true -> json_dumps v = Ok s -> loads s = Ok v.
Proof. exact loads_exists_jsonable. Qed.
Print Assumptions C01_loads_exists.

(* outside str_ok the printer is not injective: high+low surrogate = the non-BMP character *)
Theorem C01_surrogate_pair_collision :
  json_dumps (PStr [55357; 56832]%N) = json_dumps (PStr [128512]%N) /\
  str_ok [55357; 56832]%N = false /\ str_ok [128512]%N = true /\
  (s <- json_dumps (PStr [55357; 56832]%N) ;; json_loads s) = Ok (PStr [128512]%N).
Proof. exact surrogate_pair_collision. Qed.
Print Assumptions C01_surrogate_pair_collision.

(* round trip with json.loads := the concrete parser: no oracle premise *)
Theorem C01_roundtrip_concrete : forall t data ns id p f atts,
  wf_input t data ns id = true -> lex_ok data = true ->
  ctor true t data ns id None = Ok p ->
  encode p = Ok (f, atts) ->
  (N.of_nat (List.length (atts_of atts)) < 10000000000)%N ->
  exists r r' flags,
    decode json_loads (PStr f) = Ok r /\
    rcount r = N.of_nat (List.length (atts_of atts)) /\
    add_all r (map PBytes (atts_of atts)) = Ok (r', flags) /\
    flags = last_only (List.length (atts_of atts)) /\
    rt_ok t data ns id None (map PBytes (atts_of atts)) (Ok (rp r', rcount r, flags)) = true.
Proof. exact roundtrip_concrete. Qed.
Print Assumptions C01_roundtrip_concrete.

(* ... and without assuming that construction / encoding succeeded *)
Theorem C01_roundtrip : forall t data ns id,
  wf_input t data ns id = true -> lex_ok data = true ->
  (has_bytes data = true -> (t = 2 \/ t = 3)%Z) ->
  (N.of_nat (List.length (leaves data)) < 10000000000)%N ->
  exists p f atts, ctor true t data ns id None = Ok p /\ encode p = Ok (f, atts) /\
                   atts_of atts = leaves data /\
  exists r r' flags,
    decode json_loads (PStr f) = Ok r /\
    rcount r = N.of_nat (List.length (leaves data)) /\
    add_all r (map PBytes (leaves data)) = Ok (r', flags) /\
    flags = last_only (List.length (leaves data)) /\
    rt_ok t data ns id None (map PBytes (leaves data)) (Ok (rp r', rcount r, flags)) = true.
Proof. exact roundtrip_total_concrete. Qed.
Print Assumptions C01_roundtrip.

Theorem C01_interop_spec_decode_concrete : forall t data ns id p f atts,
  wf_input t data ns id = true -> lex_ok data = true ->
  ctor true t data ns id None = Ok p ->
  encode p = Ok (f, atts) ->
  (N.of_nat (List.length (atts_of atts)) < 10000000000)%N ->
  spec_decode json_loads f =
  Ok (mkSpec (promoted t data None) (sns_of ns) id (subst data 0) (N.of_nat (List.length (atts_of atts)))).
Proof. exact interop_spec_decode_concrete. Qed.
Print Assumptions C01_interop_spec_decode_concrete.

Theorem C01_interop_spec_encode_concrete : forall t data ns id p f atts,
  wf_input t data ns id = true -> lex_ok data = true ->
  ctor true t data ns id None = Ok p ->
  spec_encode p = Ok (f, atts) ->
  (N.of_nat (List.length (atts_of atts)) < 10000000000)%N ->
  exists r r' flags,
    decode json_loads (PStr f) = Ok r /\
    rcount r = N.of_nat (List.length (atts_of atts)) /\
    add_all r (map PBytes (atts_of atts)) = Ok (r', flags) /\
    flags = last_only (List.length (atts_of atts)) /\
    rt_ok t data ns id None (map PBytes (atts_of atts)) (Ok (rp r', rcount r, flags)) = true.
Proof. exact interop_spec_encode_concrete. Qed.
Print Assumptions C01_interop_spec_encode_concrete.
