(* C18 - Admin instrumentation: gated by credentials, invisible to the application.
   Property theorems only.  Proofs: Admin/AdminProofs.v (over the REGENERATED text of
   Admin/Gen_admin.v), Admin/AdminLink.v, Admin/WrappersProofs.v, Check/C18Check.v. *)
From VT Require Import Server.StepLemmas Manager.ManagerProofs.
From VT Require Import Admin.AdminSpec Admin.Gen_admin Admin.AdminProofs Admin.AdminLink
                       Admin.Wrappers Admin.WrappersProofs Check.C18Check.
Open Scope N_scope.

(* ---------------- authentication ---------------- *)
(* threaded class.  For ALL oracles (what calling the predicate returns / raises, what awaiting a
   coroutine yields, what the services called afterwards return), configurations (any four values),
   sids, environs and payloads: admin_connect returns iff the attempt is accepted in the property's
   sense - authentication disabled, or dict and ==, or list and a member ==, or the predicate returns a
   truthy value WITHOUT RAISING; EVERY other attempt raises ConnectionRefusedError. *)
Theorem C18_auth : forall (o : oracle) (c : acfg) (sid env : pv),
  ext_total o ->
  forall a : pv,
    (InstrumentedServer_admin_connect o (mk_admin_self c) sid env a = Ok PNone
       <-> accepted_by (pred_sync o) (a_auth c) a) /\
    (~ accepted_by (pred_sync o) (a_auth c) a ->
     InstrumentedServer_admin_connect o (mk_admin_self c) sid env a = Err ConnectionRefused).
Proof. exact auth_sync. Qed.
Print Assumptions C18_auth.

(* asyncio class: same statement; the predicate's value is the call's result, awaited when
   asyncio.iscoroutine says it is a coroutine (pred_async) *)
Theorem C18_auth_async : forall (o : oracle) (c : acfg) (sid env : pv),
  ext_total o ->
  forall a : pv,
    (InstrumentedAsyncServer_admin_connect o (mk_admin_self c) sid env a = Ok PNone
       <-> accepted_by (pred_async o) (a_auth c) a) /\
    (~ accepted_by (pred_async o) (a_auth c) a ->
     InstrumentedAsyncServer_admin_connect o (mk_admin_self c) sid env a = Err ConnectionRefused).
Proof. exact auth_async. Qed.
Print Assumptions C18_auth_async.

Theorem C18_auth_sync_async_same : forall o c sid env a,
  ext_total o -> (forall r, o_call o (a_auth c) [a] = Ok r -> o_iscoroutine o r = false) ->
  InstrumentedServer_admin_connect o (mk_admin_self c) sid env a =
  InstrumentedAsyncServer_admin_connect o (mk_admin_self c) sid env a.
Proof. exact auth_sync_async_same. Qed.
Print Assumptions C18_auth_sync_async_same.

(* both classes compute exactly the documented decision (equational form of the two above) *)
Theorem C18_auth_decision : forall o c sid env a,
  ext_total o ->
  InstrumentedServer_admin_connect o (mk_admin_self c) sid env a = auth_outcome (pred_sync o) (a_auth c) a /\
  InstrumentedAsyncServer_admin_connect o (mk_admin_self c) sid env a = auth_outcome (pred_async o) (a_auth c) a.
Proof. exact auth_decision_both. Qed.
Print Assumptions C18_auth_decision.

(* readings recorded: any falsy configuration disables authentication *)
Theorem C18_auth_falsy_configuration_disables : forall o c sid env a,
  ext_total o -> truthy (a_auth c) = false ->
  InstrumentedServer_admin_connect o (mk_admin_self c) sid env a = Ok PNone /\
  InstrumentedAsyncServer_admin_connect o (mk_admin_self c) sid env a = Ok PNone.
Proof. exact falsy_configuration_disables. Qed.
Print Assumptions C18_auth_falsy_configuration_disables.

(* a predicate that raises REFUSES, in both classes; in the asyncio class also when awaiting its
   coroutine raises (since d0b00fa; was finding predicate-raises-admin-membership-kept) *)
Theorem C18_auth_raising_predicate_refuses : forall o n ro mode ns sid env a e,
  ext_total o ->
  (o_call o (PObj n) [a] = Err e ->
   InstrumentedServer_admin_connect o (mk_admin_self (mkACfg (PObj n) ro mode ns)) sid env a = Err ConnectionRefused /\
   InstrumentedAsyncServer_admin_connect o (mk_admin_self (mkACfg (PObj n) ro mode ns)) sid env a = Err ConnectionRefused) /\
  (forall r, o_call o (PObj n) [a] = Ok r -> o_iscoroutine o r = true -> o_await o r = Err e ->
   InstrumentedAsyncServer_admin_connect o (mk_admin_self (mkACfg (PObj n) ro mode ns)) sid env a = Err ConnectionRefused).
Proof. exact auth_raising_predicate_refuses. Qed.
Print Assumptions C18_auth_raising_predicate_refuses.

(* the asyncio class awaits a coroutine result whatever callable produced it (coroutine function,
   object with async __call__, function returning a coroutine) and decides on the awaited value
   (since d0b00fa; was finding async-callable-predicate-never-awaited) *)
Theorem C18_auth_async_awaits_coroutine_results : forall o n ro mode ns sid env a r,
  ext_total o -> o_call o (PObj n) [a] = Ok r ->
  InstrumentedAsyncServer_admin_connect o (mk_admin_self (mkACfg (PObj n) ro mode ns)) sid env a =
  (if o_iscoroutine o r
   then match o_await o r with
        | Ok v => if truthy v then Ok PNone else Err ConnectionRefused
        | Err _ => Err ConnectionRefused end
   else if truthy r then Ok PNone else Err ConnectionRefused).
Proof. exact async_awaits_coroutine_results. Qed.
Print Assumptions C18_auth_async_awaits_coroutine_results.

(* ---------------- refused => no membership ---------------- *)
Theorem C18_refused_no_membership : forall (c : cfg) (h : N) (ra : list pv),
  has_actions c = false -> forall ns : str,
  (forall args, get_event_handler c ev_connect ns args = Some (h, args)) ->
  aget N.eqb (behav c) h = Some (mkBehav (Some 3%nat) [] (RaisesRefused ra)) ->
  forall s eio pns data env,
    ns_or_default pns = ns -> served c ns = true ->
    aget str_eqb (environ s) eio = Some env ->
    (always_connect c = true ->
     exists fr, frames_of c CONNECT (sid_dict (sid_name (fresh s))) ns None = Ok fr) ->
    WF (mg s) -> fresh_sid (mg s) (sid_name (fresh s)) ->
    let s' := fst (fst (handle_connect c eio pns data s)) in
    let sid := sid_name (fresh s) in
    WF (mg s') /\
    (forall ns' rm, room_ok rm -> mem (mg s') ns' rm sid = None) /\
    eio_from_sid (mg s') sid ns = None /\
    (forall ns' rm s0, room_ok rm -> s0 <> sid -> mem (mg s') ns' rm s0 = mem (mg s) ns' rm s0).
Proof. exact refused_connect_no_membership. Qed.
Print Assumptions C18_refused_no_membership.

Theorem C18_refused_no_membership_manager : forall m eio ns sid m1 r mmid,
  WF m -> fresh_sid m sid -> mgr_connect m eio ns sid = (m1, r) ->
  rooms mmid = rooms m1 -> WF mmid ->
  let m2 := mgr_disconnect mmid sid ns in
  WF m2 /\
  (forall ns' rm, room_ok rm -> mem m2 ns' rm sid = None) /\
  eio_from_sid m2 sid ns = None /\
  (forall ns' rm s', room_ok rm -> s' <> sid -> mem m2 ns' rm s' = mem m ns' rm s').
Proof. exact refused_no_membership_mgr. Qed.
Print Assumptions C18_refused_no_membership_manager.

(* why the previous theorem matters: on the server model an exception OTHER than ConnectionRefusedError in
   a connect handler leaves the membership manager.connect created and answers nothing (C04 keeps such
   handlers outside its domain); admin_connect can no longer end that way (C18_auth: Ok or refusal) *)
Theorem C18_server_keeps_membership_on_other_exceptions :
  exists c s eio ns data sid,
    let '(s', effs, r) := handle_connect c eio (Some ns) data s in
    r = Err KeyError /\ eio_from_sid (mg s') sid ns = Some eio /\
    is_connected (mg s') (Some sid) ns = true /\
    (forall e p, In (Out e p) effs -> False).
Proof. exact nonrefusal_exception_keeps_membership. Qed.
Print Assumptions C18_server_keeps_membership_on_other_exceptions.

(* ---------------- read-only ---------------- *)
(* the registration block of both classes, for ALL configurations: the handlers registered on the
   admin namespace are exactly connect, plus emit/join/leave/_disconnect iff mode == 'development'
   and read_only is falsy; the application-path wrappers are installed iff mode == 'development' *)
Theorem C18_registrations : forall c : acfg,
  (exists items, InstrumentedServer_instrument (mk_admin_self c) = Ok items /\
     registrations items = spec_registrations c /\ patches_app_path items = is_development c) /\
  (exists items, InstrumentedAsyncServer_instrument (mk_admin_self c) = Ok items /\
     registrations items = spec_registrations c /\ patches_app_path items = is_development c).
Proof. exact registrations_both. Qed.
Print Assumptions C18_registrations.

Theorem C18_read_only : forall (c : acfg),
  truthy (a_read_only c) = true \/ is_development c = false ->
  (forall items it ev, InstrumentedServer_instrument (mk_admin_self c) = Ok items ->
     In it items -> on_event it = Some ev -> is_write_event ev = false) /\
  (forall items it ev, InstrumentedAsyncServer_instrument (mk_admin_self c) = Ok items ->
     In it items -> on_event it = Some ev -> is_write_event ev = false).
Proof. exact read_only_both. Qed.
Print Assumptions C18_read_only.

(* hence such a request invokes nothing, acknowledges nothing, changes nothing *)
Theorem C18_read_only_invokes_nothing : forall c adm app items eio pns id ev args s,
  registrations items = spec_registrations c -> writable c = false ->
  ns_or_default pns = adm -> adm <> star ->
  aget str_eqb (handlers app) star = None ->
  aget str_eqb (ns_handlers app) adm = None -> aget str_eqb (ns_handlers app) star = None ->
  is_write_event ev = true ->
  handle_event (with_admin adm (registrations items) app) eio pns id (PList (PStr ev :: args)) s
  = (s, [], Ok tt).
Proof. exact read_only_requests_invoke_nothing. Qed.
Print Assumptions C18_read_only_invokes_nothing.

(* ---------------- transparency of the development-mode wrappers ---------------- *)
Theorem C18_transparent : forall (c : cfg) (adm : str) (stamp : pv) (serialize : str -> str -> pv) (A : list str),
  (forall ev ns args,
      encodable c adm (fst (trigger_report stamp serialize ev ns args)) (snd (trigger_report stamp serialize ev ns args)) ->
      transparent A (adm_isolated adm A) (trigger_event c ev ns args) (w_trigger_event c adm stamp serialize ev ns args)) /\
  (forall sid ns room,
      ns <> adm ->
      (truthy room = true -> encodable c adm (s2l "room_joined") (PTuple [PStr ns; room; PStr sid; stamp])) ->
      transparent A (adm_isolated adm A) (m_enter_room sid ns room) (w_enter_room c adm stamp sid ns room)) /\
  (forall sid ns room,
      (truthy room = true -> encodable c adm (s2l "room_left") (PTuple [PStr ns; room; PStr sid; stamp])) ->
      transparent A (adm_isolated adm A) (m_leave_room sid ns room) (w_leave_room c adm stamp sid ns room)) /\
  (forall ev data ns room skip cb,
      room_shape_ok room = true ->
      (forall sid, encodable c adm (s2l "event_sent") (PTuple [PStr ns; PStr sid; event_data ev data; stamp])) ->
      transparent A (adm_isolated adm A) (mgr_emit c ev data ns room skip cb)
                  (w_mgr_emit c adm stamp ev data ns room skip cb)).
Proof. exact wrappers_transparent. Qed.
Print Assumptions C18_transparent.

(* wrapped computations compose: a program built from transparent pieces is transparent *)
Theorem C18_transparent_compose : forall (A : list str) (T U : Type) (J : srv -> Prop)
    (m m' : SM T) (k k' : T -> SM U),
  transparent A J m m' -> (forall s, J s -> J (fst (fst (m s)))) ->
  (forall a, transparent A J (k a) (k' a)) ->
  transparent A J (bindM m k) (bindM m' k').
Proof. exact transp_bind. Qed.
Print Assumptions C18_transparent_compose.

(* the exclusion room_shape_ok is necessary (finding emit-empty-room-list-raises-when-instrumented) *)
Theorem C18_transparent_emit_empty_room_list_refuted :
  exists s ev data ns skip,
    snd (mgr_emit WrappersProofs.ex_cfg ev data ns (PList []) skip None s) = Ok tt /\
    snd (w_mgr_emit WrappersProofs.ex_cfg WrappersProofs.ex_adm PNone ev data ns (PList []) skip None s) = Err IndexError.
Proof. exact emit_empty_room_list_refuted. Qed.
Print Assumptions C18_transparent_emit_empty_room_list_refuted.

(* events that carry bytes (since 34a4987; was finding binary-event-dropped-while-admin-connected): the
   report is a BINARY_EVENT, encodable, delivered to the admin with its attachments, and the application
   handler runs as on the plain server *)
Theorem C18_transparent_binary_event :
  trigger_event ex_app_cfg (PStr (s2l "ev")) (s2l "/") ex_bin_args ex_state2
    = (ex_state2, [Call 1 ex_bin_args], Ok (Some (PStr (s2l "ok")))) /\
  transparent [s2l "e9"] (fun s => s = ex_state2)
    (trigger_event ex_app_cfg (PStr (s2l "ev")) (s2l "/") ex_bin_args)
    (w_trigger_event ex_app_cfg WrappersProofs.ex_adm ex_stamp ex_ser (PStr (s2l "ev")) (s2l "/") ex_bin_args) /\
  (let effs := snd (fst (w_trigger_event ex_app_cfg WrappersProofs.ex_adm ex_stamp ex_ser (PStr (s2l "ev")) (s2l "/") ex_bin_args ex_state2)) in
   List.length effs = 4%nat /\
   match effs with
   | Out e (PStr (t :: n :: _)) :: Out _ (PBytes b1) :: Out _ (PBytes b2) :: Call 1 a :: nil =>
       e = s2l "e9" /\ t = 53 /\ n = 50 /\ b1 = [1] ++ [2] /\ b2 = [255] /\ a = ex_bin_args
   | _ => False
   end).
Proof. exact binary_event_delivered. Qed.
Print Assumptions C18_transparent_binary_event.

(* ---------------- the checkers applied to implementation traces mean what they say ---------------- *)
Theorem C18_checker_sound_transparency : forall A adm plain instr admin_ops dplain dinstr,
  tr_ok A adm plain instr admin_ops dplain dinstr = true ->
  Forall2 (fun x p => effs_eqb (proj A x) p = true) instr plain /\
  Forall (fun l => proj A l = []) admin_ops /\
  dump_eqb (proj_dump A adm dinstr) dplain = true.
Proof. exact tr_ok_sound. Qed.
Print Assumptions C18_checker_sound_transparency.

Theorem C18_checker_sound_auth : forall is_async cfg a call iscoro awaited observed,
  tv_spec_ok is_async cfg a call iscoro awaited observed = true ->
  observed = auth_outcome (class_pred is_async (case_oracle call iscoro awaited)) (a_auth cfg) a.
Proof. exact tv_spec_ok_sound. Qed.
Print Assumptions C18_checker_sound_auth.
