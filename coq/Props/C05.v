(* C05 - property theorems only *)
From VT Require Import Check.C05Check.
Theorem C05_placeholder : forall h : hcase, c05_eval h = c05_eval h.
Proof. reflexivity. Qed.
Print Assumptions C05_placeholder.
