(* C05 - property theorems only (proofs in Server/StepLemmas.v, Server/Events.v, Server/EventsX.v) *)
From VT Require Import Server.Events Server.EventsX.
Open Scope N_scope.

(* complete case analysis of _handle_event/_handle_event_internal on every state *)
Theorem C05_event : forall c eio pn id data s,
  has_actions c = false ->
  let ns := ns_or_default pn in
  let run := handle_event c eio pn id data s in
  (forall x, split_event data = Err x -> run = (s, [], Err x)) /\
  (forall ev args, split_event data = Ok (ev, args) ->
     (is_connected (mg s) (sid_from_eio (mg s) eio ns) ns = false -> run = (s, [], Ok tt)) /\
     (forall sid, sid_from_eio (mg s) eio ns = Some sid -> is_connected (mg s) (Some sid) ns = true ->
        is_unhashable ev = false ->
        (responsible c ev ns (PStr sid :: args) = None -> run = (s, [], Ok tt)) /\
        (forall h a b v,
            responsible c ev ns (PStr sid :: args) = Some (Some h, a) -> is_disconnect ev = false ->
            aget N.eqb (behav c) h = Some b -> arity_bad b (List.length a) = false ->
            h_outcome b = Returns v ->
            run = (s, Call h a :: ack_effs c s eio ns id v, ack_res c ns id v)) /\
        (forall e a, ev = PStr e -> responsible c ev ns (PStr sid :: args) = Some (None, a) ->
            run = (s, ack_effs c s eio ns id PNone, ack_res c ns id PNone)))) /\
  fst (fst run) = s /\ forallb (str_eqb eio) (out_eios (snd (fst run))) = true.
Proof. exact event_cases. Qed.
Print Assumptions C05_event.

(* malformed payloads and unconnected transports: for every configuration, scripted actions or not *)
Theorem C05_event_malformed : forall c eio pn id data s x,
  split_event data = Err x -> handle_event c eio pn id data s = (s, [], Err x).
Proof. exact handle_event_malformed. Qed.
Print Assumptions C05_event_malformed.

Theorem C05_event_not_connected : forall c eio pn id data s ea,
  split_event data = Ok ea ->
  is_connected (mg s) (sid_from_eio (mg s) eio (ns_or_default pn)) (ns_or_default pn) = false ->
  handle_event c eio pn id data s = (s, [], Ok tt).
Proof. exact handle_event_not_connected. Qed.
Print Assumptions C05_event_not_connected.

(* a responsible handler that raises or does not fit: at most its one invocation, no ACK *)
Theorem C05_event_handler_fails : forall c eio pn id data s ev args sid h a,
  has_actions c = false ->
  split_event data = Ok (ev, args) -> is_unhashable ev = false -> is_disconnect ev = false ->
  sid_from_eio (mg s) eio (ns_or_default pn) = Some sid ->
  is_connected (mg s) (Some sid) (ns_or_default pn) = true ->
  responsible c ev (ns_or_default pn) (PStr sid :: args) = Some (Some h, a) ->
  (forall v, snd (ch_pure c h a) <> Ok v) ->
  exists x, handle_event c eio pn id data s = (s, fst (ch_pure c h a), Err x) /\
            (fst (ch_pure c h a) = [] \/ fst (ch_pure c h a) = [Call h a]).
Proof. exact event_handler_fails. Qed.
Print Assumptions C05_event_handler_fails.

(* what the acknowledgement consists of *)
Theorem C05_ack_frames : forall c s eio ns v,
  ack_effs c s eio ns None v = [] /\
  (forall i fr, frames_of c ACK (PList (pack v)) ns (Some i) = Ok fr ->
     ack_effs c s eio ns (Some i) v = (if is_live s eio then map (Out eio) fr else []) /\
     ack_res c ns (Some i) v = Ok tt).
Proof. exact ack_effs_spelled. Qed.
Print Assumptions C05_ack_frames.

Theorem C05_pack :
  pack PNone = [] /\ (forall l, pack (PTuple l) = l) /\
  (forall x, x <> PNone -> (forall l, x <> PTuple l) -> pack x = [x]).
Proof. exact pack_cases. Qed.
Print Assumptions C05_pack.

Theorem C05_ack_binary_iff_bytes : forall ub v ns i,
  ctor ub ACK (PList (pack v)) (Some ns) (Some i) None =
  Ok (mkPacket (PInt (if ub && has_bytes (PList (pack v)) then BINARY_ACK else ACK))
               (Some ns) (Some i) (PList (pack v))).
Proof. exact ack_binary_iff_bytes. Qed.
Print Assumptions C05_ack_binary_iff_bytes.

(* handlers are invoked in the order of the messages, at most once per message *)
Theorem C05_order : forall c,
  has_actions c = false ->
  forall ops s, event_stream c s ops = true ->
    calls_of (List.concat (snd (run c s ops))) = expected_calls c s ops /\
    mg (fst (run c s ops)) = mg s.
Proof. exact order_of_calls. Qed.
Print Assumptions C05_order.

Theorem C05_one_call_per_message : forall c s o,
  has_actions c = false -> event_or_quiet c s o = true ->
  calls_of (snd (step c s o)) = expected_call c s o /\ mg (fst (step c s o)) = mg s /\
  (List.length (calls_of (snd (step c s o))) <= 1)%nat.
Proof. exact step_event_or_quiet. Qed.
Print Assumptions C05_one_call_per_message.

(* executable form: the checker that judges the implementation accepts the model's own behaviour *)
Theorem C05_model_passes_checker : forall c s o,
  has_actions c = false -> c05_step c s o (snd (step c s o)) = true.
Proof. exact model_passes_c05_step. Qed.
Print Assumptions C05_model_passes_checker.

Theorem C05_model_passes_checker_all : forall c,
  has_actions c = false -> forall ops s, all_steps (c05_step c) c s ops (snd (run c s ops)) = true.
Proof. exact model_passes_c05_all. Qed.
Print Assumptions C05_model_passes_checker_all.

(* ---- the re-entrant scenario of Server/ServerX.v: an event handler ends its own client's
        connection (sio.disconnect(sid, ns)) before it returns ---- *)

(* Prop-level characterisation: one invocation, the DISCONNECT frame, the disconnect handler
   (SERVER_DISCONNECT), then the ACK to the same transport; afterwards the sid is gone *)
Theorem C05_event_self_disconnect : forall c eio pn id data s ev args sid h a b v dh pre db dv,
  has_actions c = false -> MOK (mg s) ->
  split_event data = Ok (ev, args) -> is_unhashable ev = false -> is_disconnect ev = false ->
  sid_from_eio (mg s) eio (ns_or_default pn) = Some sid ->
  is_connected (mg s) (Some sid) (ns_or_default pn) = true ->
  responsible c ev (ns_or_default pn) (PStr sid :: args) = Some (Some h, a) ->
  aget N.eqb (behav c) h = Some b -> arity_bad b (List.length a) = false -> h_outcome b = Returns v ->
  responsible c ev_disconnect (ns_or_default pn) [] = Some (Some dh, pre) ->
  aget N.eqb (behav c) dh = Some db -> h_outcome db = Returns dv ->
  arity_bad db (List.length (disc_args sid r_server_disconnect db pre)) = false ->
  let ns := ns_or_default pn in
  let s' := disc_state s sid ns in
  handle_event_sd c eio pn id data s =
  (s', [Call h a] ++ sp_effs s eio (frames_of c DISCONNECT PNone ns None)
       ++ [Call dh (disc_args sid r_server_disconnect db pre)] ++ ack_effs c s eio ns id v,
   ack_res c ns id v) /\
  is_connected (mg s') (Some sid) ns = false /\ eio_from_sid (mg s') sid ns = None /\
  sid_from_eio (mg s') eio ns = None.
Proof. exact event_self_disconnect. Qed.
Print Assumptions C05_event_self_disconnect.

(* general form (any disconnect handler, or none): the ACK is sent iff the disconnect did not raise *)
Theorem C05_event_self_disconnect_general : forall c eio pn id data s ev args sid h a b v,
  has_actions c = false -> MOK (mg s) ->
  split_event data = Ok (ev, args) -> is_unhashable ev = false -> is_disconnect ev = false ->
  sid_from_eio (mg s) eio (ns_or_default pn) = Some sid ->
  is_connected (mg s) (Some sid) (ns_or_default pn) = true ->
  responsible c ev (ns_or_default pn) (PStr sid :: args) = Some (Some h, a) ->
  aget N.eqb (behav c) h = Some b -> arity_bad b (List.length a) = false -> h_outcome b = Returns v ->
  let ns := ns_or_default pn in
  handle_event_sd c eio pn id data s =
  (disc_state s sid ns,
   Call h a :: sd_disc_effs c s eio sid ns ++
     match sd_disc_res c sid ns with Ok _ => ack_effs c s eio ns id v | Err _ => [] end,
   match sd_disc_res c sid ns with Ok _ => ack_res c ns id v | Err x => Err x end).
Proof. exact handle_event_sd_returns. Qed.
Print Assumptions C05_event_self_disconnect_general.

(* executable form; sd_domain c = "no handler id is shared between disconnect and another event of
   the namespace" is a generator-domain premise and is needed (C05_sd_checker_domain_refuted) *)
Theorem C05_sd_model_passes_checker : forall c s eio payload tbl,
  has_actions c = false -> MOK (mg s) -> sd_domain c ->
  c05_sd_step c s eio payload tbl (snd (xstep c s (EventSD eio payload tbl))) = true.
Proof. exact model_passes_c05_sd_step. Qed.
Print Assumptions C05_sd_model_passes_checker.

Theorem C05_sd_invariant_step : forall c s x, Inv s -> Inv (fst (xstep c s x)).
Proof. exact xstep_Inv. Qed.
Print Assumptions C05_sd_invariant_step.

Theorem C05_sd_model_passes_checker_all : forall c,
  has_actions c = false -> sd_domain c ->
  forall ops s, Inv s -> xall_steps c s ops (snd (xrun c s ops)) = true.
Proof. exact model_passes_c05x_all. Qed.
Print Assumptions C05_sd_model_passes_checker_all.

Theorem C05_sd_checker_domain_refuted :
  exists c s eio payload tbl, Inv s /\ has_actions c = false /\
     c05_sd_step c s eio payload tbl (snd (xstep c s (EventSD eio payload tbl))) = false.
Proof. exact c05_sd_step_domain_refuted. Qed.
Print Assumptions C05_sd_checker_domain_refuted.
