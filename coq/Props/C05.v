(* C05 - property theorems only (proofs in Server/StepLemmas.v, Server/Events.v) *)
From VT Require Import Server.Events.
Open Scope N_scope.

(* complete case analysis of _handle_event/_handle_event_internal on every state *)
Theorem C05_event : forall c eio pn id data s,
  has_actions c = false ->
  let ns := ns_or_default pn in
  let run := handle_event c eio pn id data s in
  (forall x, split_event data = Err x -> run = (s, [], Err x)) /\
  (forall ev args, split_event data = Ok (ev, args) ->
     (is_connected (mg s) (sid_from_eio (mg s) eio ns) ns = false -> run = (s, [], Ok tt)) /\
     (forall sid, sid_from_eio (mg s) eio ns = Some sid -> is_connected (mg s) (Some sid) ns = true ->
        is_unhashable ev = false ->
        (responsible c ev ns (PStr sid :: args) = None -> run = (s, [], Ok tt)) /\
        (forall h a b v,
            responsible c ev ns (PStr sid :: args) = Some (Some h, a) -> is_disconnect ev = false ->
            aget N.eqb (behav c) h = Some b -> arity_bad b (List.length a) = false ->
            h_outcome b = Returns v ->
            run = (s, Call h a :: ack_effs c s eio ns id v, ack_res c ns id v)) /\
        (forall e a, ev = PStr e -> responsible c ev ns (PStr sid :: args) = Some (None, a) ->
            run = (s, ack_effs c s eio ns id PNone, ack_res c ns id PNone)))) /\
  fst (fst run) = s /\ forallb (str_eqb eio) (out_eios (snd (fst run))) = true.
Proof. exact event_cases. Qed.
Print Assumptions C05_event.

(* malformed payloads and unconnected transports: for every configuration, scripted actions or not *)
Theorem C05_event_malformed : forall c eio pn id data s x,
  split_event data = Err x -> handle_event c eio pn id data s = (s, [], Err x).
Proof. exact handle_event_malformed. Qed.
Print Assumptions C05_event_malformed.

Theorem C05_event_not_connected : forall c eio pn id data s ea,
  split_event data = Ok ea ->
  is_connected (mg s) (sid_from_eio (mg s) eio (ns_or_default pn)) (ns_or_default pn) = false ->
  handle_event c eio pn id data s = (s, [], Ok tt).
Proof. exact handle_event_not_connected. Qed.
Print Assumptions C05_event_not_connected.

(* a responsible handler that raises or does not fit: at most its one invocation, no ACK *)
Theorem C05_event_handler_fails : forall c eio pn id data s ev args sid h a,
  has_actions c = false ->
  split_event data = Ok (ev, args) -> is_unhashable ev = false -> is_disconnect ev = false ->
  sid_from_eio (mg s) eio (ns_or_default pn) = Some sid ->
  is_connected (mg s) (Some sid) (ns_or_default pn) = true ->
  responsible c ev (ns_or_default pn) (PStr sid :: args) = Some (Some h, a) ->
  (forall v, snd (ch_pure c h a) <> Ok v) ->
  exists x, handle_event c eio pn id data s = (s, fst (ch_pure c h a), Err x) /\
            (fst (ch_pure c h a) = [] \/ fst (ch_pure c h a) = [Call h a]).
Proof. exact event_handler_fails. Qed.
Print Assumptions C05_event_handler_fails.

(* what the acknowledgement consists of *)
Theorem C05_ack_frames : forall c s eio ns v,
  ack_effs c s eio ns None v = [] /\
  (forall i fr, frames_of c ACK (PList (pack v)) ns (Some i) = Ok fr ->
     ack_effs c s eio ns (Some i) v = (if is_live s eio then map (Out eio) fr else []) /\
     ack_res c ns (Some i) v = Ok tt).
Proof. exact ack_effs_spelled. Qed.
Print Assumptions C05_ack_frames.

Theorem C05_pack :
  pack PNone = [] /\ (forall l, pack (PTuple l) = l) /\
  (forall x, x <> PNone -> (forall l, x <> PTuple l) -> pack x = [x]).
Proof. exact pack_cases. Qed.
Print Assumptions C05_pack.

Theorem C05_ack_binary_iff_bytes : forall ub v ns i,
  ctor ub ACK (PList (pack v)) (Some ns) (Some i) None =
  Ok (mkPacket (PInt (if ub && has_bytes (PList (pack v)) then BINARY_ACK else ACK))
               (Some ns) (Some i) (PList (pack v))).
Proof. exact ack_binary_iff_bytes. Qed.
Print Assumptions C05_ack_binary_iff_bytes.

(* handlers are invoked in the order of the messages, at most once per message *)
Theorem C05_order : forall c,
  has_actions c = false ->
  forall ops s, event_stream c s ops = true ->
    calls_of (List.concat (snd (run c s ops))) = expected_calls c s ops /\
    mg (fst (run c s ops)) = mg s.
Proof. exact order_of_calls. Qed.
Print Assumptions C05_order.

Theorem C05_one_call_per_message : forall c s o,
  has_actions c = false -> event_or_quiet c s o = true ->
  calls_of (snd (step c s o)) = expected_call c s o /\ mg (fst (step c s o)) = mg s /\
  (List.length (calls_of (snd (step c s o))) <= 1)%nat.
Proof. exact step_event_or_quiet. Qed.
Print Assumptions C05_one_call_per_message.

(* executable form: the checker that judges the implementation accepts the model's own behaviour *)
Theorem C05_model_passes_checker : forall c s o,
  has_actions c = false -> c05_step c s o (snd (step c s o)) = true.
Proof. exact model_passes_c05_step. Qed.
Print Assumptions C05_model_passes_checker.

Theorem C05_model_passes_checker_all : forall c,
  has_actions c = false -> forall ops s, all_steps (c05_step c) c s ops (snd (run c s ops)) = true.
Proof. exact model_passes_c05_all. Qed.
Print Assumptions C05_model_passes_checker_all.
