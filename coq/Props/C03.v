(* C03 - property theorems only *)
From VT Require Import Manager.RoomsSpec.
Theorem C03_placeholder : forall m ns, members m ns = members m ns.
Proof. reflexivity. Qed.
Print Assumptions C03_placeholder.
