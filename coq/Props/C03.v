(* C03 - property theorems only (proofs in Manager/ManagerProofs.v, Manager/RoomsProofs.v, Manager/ServerWFProofs.v) *)
From VT Require Import Manager.Manager Manager.ManagerProofs Manager.RoomsSpec Check.C03Check
                       Manager.RoomsProofs Manager.ServerWFProofs.
From Coq Require Import Permutation.
Open Scope N_scope.

(* ---- A. the well-formedness invariant ---- *)
(* WF m = distinct keys at every level (namespaces, rooms - names in the domain room_ok -,
   sids, pending) /\ every member of a room is in room None of that namespace with the same
   transport /\ transports are distinct inside room None *)
Theorem C03_wf_init : WF mgr_init.
Proof. exact WF_init. Qed.
Print Assumptions C03_wf_init.

Theorem C03_wf_connect : forall m eio ns sid,
  WF m -> fresh_sid m sid -> WF (fst (mgr_connect m eio ns sid)).
Proof. exact mgr_connect_wf. Qed.
Print Assumptions C03_wf_connect.

Theorem C03_wf_enter_room : forall m sid ns room,
  WF m -> room_ok room -> WF (fst (enter_room m sid ns room)).
Proof. exact enter_room_wf. Qed.
Print Assumptions C03_wf_enter_room.

Theorem C03_wf_leave_room : forall m sid ns room,
  WF m -> room_ok room -> room <> PNone -> WF (leave_room m sid ns room).
Proof. exact leave_room_wf. Qed.
Print Assumptions C03_wf_leave_room.

Theorem C03_wf_close_room : forall m room ns,
  WF m -> room_ok room -> room <> PNone -> WF (close_room m room ns).
Proof. exact close_room_wf. Qed.
Print Assumptions C03_wf_close_room.

Theorem C03_wf_disconnect : forall m sid ns, WF m -> WF (mgr_disconnect m sid ns).
Proof. exact mgr_disconnect_wf. Qed.
Print Assumptions C03_wf_disconnect.

Theorem C03_wf_pre_disconnect : forall m sid ns, WF m -> WF (fst (pre_disconnect m sid ns)).
Proof. exact pre_disconnect_wf. Qed.
Print Assumptions C03_wf_pre_disconnect.

Theorem C03_wf_generate_ack_id : forall m sid cb, WF m -> WF (fst (generate_ack_id m sid cb)).
Proof. exact generate_ack_id_wf. Qed.
Print Assumptions C03_wf_generate_ack_id.

Theorem C03_wf_trigger_callback : forall m sid id, WF m -> WF (fst (trigger_callback m sid id)).
Proof. exact trigger_callback_wf. Qed.
Print Assumptions C03_wf_trigger_callback.

(* the ValueDuplicationError branch of basic_enter_room is dead under WF *)
Theorem C03_enter_room_no_duplication_error : forall m sid ns room,
  WF m -> room_ok room -> snd (enter_room m sid ns room) <> Err OtherError.
Proof. exact enter_room_no_dup_error. Qed.
Print Assumptions C03_enter_room_no_duplication_error.

(* WF after every history of manager operations, provided the generated sids are non-empty
   and pairwise distinct and the room names are in the domain *)
Theorem C03_wf : forall ops,
  Forall op_ok ops -> NoDup (connect_sids ops) -> WF (fold_left mstep ops mgr_init).
Proof. exact C03_wf_thm. Qed.
Print Assumptions C03_wf.

(* the same with the server model's id generator: sids "S<n>" for pairwise distinct n *)
Theorem C03_wf_counter : forall ops ids,
  Forall op_ok ops -> connect_sids ops = map sid_name ids -> NoDup ids ->
  WF (fold_left mstep ops mgr_init).
Proof. exact C03_wf_counter_thm. Qed.
Print Assumptions C03_wf_counter.

(* WF in every state reachable through the SERVER model, when the room names used by API
   operations and by scripted handler actions are application names of the domain (name_ok) *)
Theorem C03_wf_server_step : forall c s o,
  cfg_rooms_ok c -> op_rooms_ok o -> SInv s -> SInv (fst (step c s o)).
Proof. exact step_SInv. Qed.
Print Assumptions C03_wf_server_step.

Theorem C03_wf_server_run : forall c ops,
  cfg_rooms_ok c -> Forall op_rooms_ok ops -> WF (mg (fst (run c srv_init ops))).
Proof. exact C03_wf_server_run_thm. Qed.
Print Assumptions C03_wf_server_run.

(* ---- B. recipients ---- *)
Theorem C03_recipients : forall m ns target skip l,
  WF m -> participants m ns target = Ok l ->
  let rcp := filter (fun se => negb (skipped (skip_list skip) (fst se))) l in
  Permutation rcp (spec_recipients m ns target skip) /\
  NoDup (map fst rcp) /\ NoDup (map snd rcp) /\
  (forall se, In se rcp -> In se (members m ns)).
Proof. exact C03_recipients_thm. Qed.
Print Assumptions C03_recipients.

Theorem C03_participants_total : forall m ns t,
  in_domain_target t = true -> exists l, participants m ns t = Ok l.
Proof. exact participants_total. Qed.
Print Assumptions C03_participants_total.

Theorem C03_emit_effects : forall c event data ns room skip s pieces l,
  emit_pieces c event data ns = Ok pieces -> participants (mg s) ns room = Ok l ->
  mgr_emit c event data ns room skip None s =
  (s, flat_map (fun se => map (Out (snd se)) pieces)
        (filter (fun se => is_live s (snd se))
                (filter (fun se => negb (skipped (skip_list skip) (fst se))) l)),
   Ok tt).
Proof. exact mgr_emit_effects. Qed.
Print Assumptions C03_emit_effects.

Theorem C03_emit_recipients : forall c event data ns room skip s pieces l,
  WF (mg s) -> emit_pieces c event data ns = Ok pieces -> participants (mg s) ns room = Ok l ->
  exists rcp,
    Permutation rcp (spec_recipients (mg s) ns room skip) /\ NoDup (map snd rcp) /\
    mgr_emit c event data ns room skip None s =
    (s, flat_map (fun se => map (Out (snd se)) pieces) (filter (fun se => is_live s (snd se)) rcp), Ok tt).
Proof. exact mgr_emit_recipients. Qed.
Print Assumptions C03_emit_recipients.

(* the model's own run passes the checker that is applied to the implementation *)
Theorem C03_exec_emit_ok : forall c s ev data to room skip ns,
  WF (mg s) ->
  let o := ApiEmit ev data to room skip ns None in
  c03_step c s o (snd (step c s o)) = true.
Proof. exact C03_exec_emit. Qed.
Print Assumptions C03_exec_emit_ok.

Theorem C03_exec_rooms_ok : forall c s sid ns,
  WF (mg s) ->
  let o := ApiRooms sid ns in
  c03_step c s o (snd (step c s o)) = true.
Proof. exact C03_exec_rooms. Qed.
Print Assumptions C03_exec_rooms_ok.

(* ... in every reachable state, without a premise on the state *)
Theorem C03_exec_reachable : forall c ops,
  cfg_rooms_ok c -> Forall op_rooms_ok ops ->
  let s := fst (run c srv_init ops) in
  (forall ev data to room skip ns,
     c03_step c s (ApiEmit ev data to room skip ns None)
              (snd (step c s (ApiEmit ev data to room skip ns None))) = true) /\
  (forall sid ns, c03_step c s (ApiRooms sid ns) (snd (step c s (ApiRooms sid ns))) = true).
Proof. exact C03_exec_reachable_thm. Qed.
Print Assumptions C03_exec_reachable.

(* ---- C. rooms(sid) and the frame lemmas ---- *)
Theorem C03_rooms_listing : forall m sid ns,
  WF m ->
  let l := get_rooms m sid ns in
  NoDup l /\ Forall room_ok l /\
  (forall r, In r l -> r <> PNone /\ in_room m ns r sid = true) /\
  (forall r, room_ok r -> r <> PNone -> in_room m ns r sid = true -> In r l).
Proof. exact C03_rooms_listing_thm. Qed.
Print Assumptions C03_rooms_listing.

Theorem C03_after_enter : forall m sid ns room m',
  WF m -> room_ok room -> enter_room m sid ns room = (m', Ok tt) ->
  WF m' /\ in_room m' ns room sid = true /\
  forall ns' r' s', room_ok r' -> (ns', r', s') <> (ns, room, sid) ->
    in_room m' ns' r' s' = in_room m ns' r' s'.
Proof. exact C03_after_enter_thm. Qed.
Print Assumptions C03_after_enter.

Theorem C03_enter_failed : forall m sid ns room m' e,
  WF m -> room_ok room -> enter_room m sid ns room = (m', Err e) -> m' = m.
Proof. exact C03_enter_failed_thm. Qed.
Print Assumptions C03_enter_failed.

Theorem C03_after_leave : forall m sid ns room,
  WF m -> room_ok room ->
  let m' := leave_room m sid ns room in
  (room <> PNone -> WF m') /\ in_room m' ns room sid = false /\
  forall ns' r' s', room_ok r' -> (ns', r', s') <> (ns, room, sid) ->
    in_room m' ns' r' s' = in_room m ns' r' s'.
Proof. exact C03_after_leave_thm. Qed.
Print Assumptions C03_after_leave.

Theorem C03_after_close : forall m room ns,
  WF m -> room_ok room ->
  let m' := close_room m room ns in
  (room <> PNone -> WF m') /\ (forall s, in_room m' ns room s = false) /\
  forall ns' r' s', room_ok r' -> (ns', r') <> (ns, room) ->
    in_room m' ns' r' s' = in_room m ns' r' s'.
Proof. exact C03_after_close_thm. Qed.
Print Assumptions C03_after_close.

Theorem C03_after_disconnect : forall m sid ns,
  WF m ->
  let m' := mgr_disconnect m sid ns in
  WF m' /\ (forall r, in_room m' ns r sid = false) /\ get_rooms m' sid ns = [] /\
  forall ns' r' s', room_ok r' -> (ns', s') <> (ns, sid) ->
    in_room m' ns' r' s' = in_room m ns' r' s'.
Proof. exact C03_after_disconnect_thm. Qed.
Print Assumptions C03_after_disconnect.

Theorem C03_after_connect : forall m eio ns sid m' s0,
  WF m -> fresh_sid m sid -> mgr_connect m eio ns sid = (m', Some s0) ->
  s0 = sid /\ WF m' /\
  (forall ns' r', room_ok r' ->
     (in_room m' ns' r' sid = true <-> ns' = ns /\ (r' = PNone \/ r' = PStr sid))) /\
  get_rooms m' sid ns = [PStr sid] /\
  forall ns' r' s', room_ok r' -> s' <> sid -> in_room m' ns' r' s' = in_room m ns' r' s'.
Proof. exact C03_after_connect_thm. Qed.
Print Assumptions C03_after_connect.
