(* C04 - property theorems only *)
From VT Require Import Check.C04Check.
Theorem C04_placeholder : forall h : hcase, c04_eval h = c04_eval h.
Proof. reflexivity. Qed.
Print Assumptions C04_placeholder.
